(* C08 - the history theorems: sequential machine and concurrent machine, both by
   preservation of [GInv] and induction over the history / schedule. *)
From Common Require Import Prelude.
From C08 Require Import Model Proofs ProofsLift.
Local Open Scope Z_scope.

Definition fr0 := mkFrame 0 ANone no_loc None.

Lemma GInv_idle_frame hp fz l1 l2 hs fr fr' :
  GInv hp fz (l1 ++ mkT hs [] fr :: l2) -> GInv hp fz (l1 ++ mkT hs [] fr' :: l2).
Proof.
  intro I.
  pose proof (gi_safe _ _ _ I) as S0. apply Forall_app in S0 as [S1 S2]. inversion S2 as [|? ? St S3]; subst.
  pose proof (gi_cj _ _ _ I) as C0. apply Forall_app in C0 as [C1 C2]. inversion C2 as [|? ? _ C3]; subst.
  constructor; try apply I.
  - intro o. rewrite (gi_eq _ _ _ I o). rewrite !sum_hold_app. reflexivity.
  - apply Forall_app; split; auto.
  - apply Forall_app; split; auto. constructor; auto. intros N. simpl in N. congruence.
Qed.

Lemma oid_eqb_eq a b : oid_eqb a b = true <-> a = b.
Proof.
  destruct a as [x|], b as [y|]; simpl; split; intro H; try discriminate; auto.
  - apply Nat.eqb_eq in H. now subst.
  - inversion H. apply Nat.eqb_refl.
Qed.

Lemma nh_pos_of_handle hs h o : slot_tgt (hget hs h) = Some o -> 1 <= nh hs o.
Proof. intro E. pose proof (nh_ge_ind hs h o) as G. rewrite E in G. simpl in G. rewrite Nat.eqb_refl in G. lia. Qed.

(* ------------------------------------------------------------------ sequential *)
Definition Inv (s : sstate) : Prop := GInv (s_heap s) [] [mkT (s_hs s) [] fr0].

Lemma init_inv n : Inv (init n).
Proof.
  unfold Inv, init; simpl. constructor; simpl; auto.
  - intro o. unfold cntq, getobj. simpl. destruct o; simpl; unfold hold; simpl; rewrite nh_repeat_dead; lia.
  - intro o. unfold getobj; simpl. destruct o; simpl; lia.
  - intro o. unfold getobj; simpl. destruct o; reflexivity.
  - constructor; auto. simpl. split; auto. intro o. unfold holdv. simpl. rewrite nh_repeat_dead. lia.
  - constructor; auto. intro N. simpl in N. congruence.
Qed.

Lemma Inv_nh s o : Inv s -> cntq (s_heap s) o = nh (s_hs s) o.
Proof. intro I. rewrite (gi_eq _ _ _ I o). simpl. unfold hold, holdv. simpl. lia. Qed.

Lemma raw_justified s p h a0 :
  Inv s -> ptr_ok (s_heap s) p = true ->
  arg_justified [] (mkFrame h a0 no_loc (cj_of (s_heap s) p)) (s_hs s) p.
Proof.
  intros I P. destruct p as [o|]; simpl; auto. simpl in P. unfold cj_of.
  destruct (Z.leb_spec 1 (creator (getobj (s_heap s) o))) as [L|G]; auto.
  left. pose proof (Inv_nh s o I) as E. unfold cntq in E.
  pose proof (gi_alive _ _ _ I o) as A. rewrite P in A. symmetry in A. apply Z.leb_le in A.
  pose proof (gi_cre _ _ _ I o). lia.
Qed.

Lemma cj_of_sound hp p o : cj_of hp p = Some o -> 1 <= creator (getobj hp o).
Proof.
  unfold cj_of. destruct p as [x|]; [|discriminate].
  destruct (Z.leb_spec 1 (creator (getobj hp x))); [|discriminate]. intro E; inversion E; subst; auto.
Qed.

(* what the invariant says, in the terms of the property *)
Lemma inv_count s o : Inv s ->
  use_count s o = creator (getobj (s_heap s) o) + nh (s_hs s) o.
Proof. intro I. pose proof (Inv_nh s o I) as E. unfold cntq, use_count in *. lia. Qed.

Lemma inv_alive_iff s o : Inv s ->
  (is_alive s o = true <-> 1 <= creator (getobj (s_heap s) o) + nh (s_hs s) o).
Proof.
  intro I. unfold is_alive. rewrite (gi_alive _ _ _ I o). rewrite <- inv_count by auto.
  unfold use_count. split; intro H; [apply Z.leb_le in H|apply Z.leb_le]; lia.
Qed.

Lemma inv_dead s o : Inv s -> is_alive s o = false ->
  use_count s o = 0 /\ creator (getobj (s_heap s) o) = 0 /\ nh (s_hs s) o = 0.
Proof.
  intros I D. pose proof (inv_count s o I) as E. unfold is_alive in D.
  rewrite (gi_alive _ _ _ I o) in D. apply Z.leb_gt in D.
  pose proof (gi_cre _ _ _ I o). pose proof (nh_nonneg (s_hs s) o). unfold use_count in *. lia.
Qed.

Lemma len_rmw_inc e o hp : length (objs (rmw_inc e o hp)) = length (objs hp).
Proof. unfold rmw_inc. destruct (alive (getobj hp o)); simpl; auto. apply length_upd. Qed.
Lemma len_rmw_dec e o hp : length (objs (rmw_dec e o hp)) = length (objs hp).
Proof.
  unfold rmw_dec. destruct (alive (getobj hp o)); simpl; auto.
  destruct (cnt (getobj hp o) - 1 =? 0); simpl; apply length_upd.
Qed.

(* ------------------------------------------------------------------ how large a count can get *)
Lemma nh_le_length hs o : nh hs o <= Z.of_nat (length hs).
Proof.
  induction hs as [|s hs IH]; simpl length; [simpl; lia|]. cbn [nh]. pose proof (ind_range (slot_tgt s) o). lia.
Qed.

(* micro-operations never touch the creator-side count, and keep the number of handle slots *)
Lemma rmw_false_creator o hp x :
  creator (getobj (rmw_inc false o hp) x) = creator (getobj hp x) /\
  creator (getobj (rmw_dec false o hp) x) = creator (getobj hp x).
Proof.
  unfold rmw_inc, rmw_dec. destruct (alive (getobj hp o)) eqn:A; [|split; reflexivity].
  pose proof (alive_in_range _ _ A) as R. split.
  - rewrite getobj_upd by auto. destruct (Nat.eqb_spec o x); subst; reflexivity.
  - destruct (cnt (getobj hp o) - 1 =? 0); rewrite getobj_upd by auto; destruct (Nat.eqb_spec o x); subst; reflexivity.
Qed.

Lemma run_prog_creator_len fz p : forall c x,
  creator (getobj (snd (run_prog fz p c)) x) = creator (getobj (snd c) x) /\
  length (snd (fst (run_prog fz p c))) = length (snd (fst c)).
Proof.
  induction p as [|m p IH]; intros [[fr hs] hp] x; [simpl; auto|].
  cbn [run_prog]. destruct (IH (mexec fz m (fr, hs, hp)) x) as [E1 E2]. rewrite E1, E2. unfold mexec.
  destruct (pexec fz m fr hs) as [fr' hs'] eqn:P. simpl.
  assert (L : length hs' = length hs) by (pose proof (len_pexec fz m fr hs) as Q; rewrite P in Q; exact Q).
  split; [|exact L].
  destruct m as [g q|g q|d q| |]; simpl; auto.
  - destruct (eval fz fr hs q); [apply rmw_false_creator|destruct g; reflexivity].
  - destruct (eval fz fr hs q); [apply rmw_false_creator|destruct g; reflexivity].
  - destruct d; simpl; auto. destruct (f_arg fr); reflexivity.
Qed.

Lemma call_creator_len tbl m h a cj s x :
  creator (getobj (s_heap (call tbl m h a cj s)) x) = creator (getobj (s_heap s) x) /\
  length (s_hs (call tbl m h a cj s)) = length (s_hs s).
Proof.
  unfold call. pose proof (run_prog_creator_len [] (prog_of tbl m) (mkFrame h a no_loc cj, s_hs s, s_heap s) x) as H.
  destruct (run_prog [] (prog_of tbl m) (mkFrame h a no_loc cj, s_hs s, s_heap s)) as [[fr' hs'] hp']. exact H.
Qed.

Lemma step_creator_len tbl s o x :
  creator (getobj (s_heap (fst (step_t tbl s o))) x) <= Z.max 1 (creator (getobj (s_heap s) x) + 1) /\
  length (s_hs (fst (step_t tbl s o))) = length (s_hs s).
Proof.
  unfold step_t. destruct (legal s o) eqn:L; simpl; [|split; lia].
  destruct o; unfold exec_op; cbv zeta; try (match goal with |- context[call tbl ?m ?h ?a ?cj s] => destruct (call_creator_len tbl m h a cj s x) as [E1 E2]; rewrite E1, E2; split; lia end); simpl.
  - (* Create *) split; auto. rewrite getobj_app_new. destruct (Nat.eqb x (length (objs (s_heap s)))); simpl; lia.
  - (* RefInc *) split; auto. simpl in L. unfold rmw_inc. rewrite L. pose proof (alive_in_range _ _ L).
    rewrite getobj_upd by auto. destruct (Nat.eqb_spec o x); subst; simpl; lia.
  - (* RefDec *) split; auto. simpl in L. apply andb_true_iff in L as [L _]. unfold rmw_dec. rewrite L. pose proof (alive_in_range _ _ L).
    destruct (cnt (getobj (s_heap s) o) - 1 =? 0); rewrite getobj_upd by auto; destruct (Nat.eqb_spec o x); subst; simpl; lia.
Qed.

Lemma run_creator_len tbl l : forall s k x, 0 <= k ->
  (forall y, creator (getobj (s_heap s) y) <= 1 + k) ->
  creator (getobj (s_heap (run_from_t tbl s l)) x) <= 1 + k + Z.of_nat (length l) /\
  length (s_hs (run_from_t tbl s l)) = length (s_hs s).
Proof.
  induction l as [|o l IH]; intros s k x K0 H.
  - unfold run_from_t. cbn [fold_left length]. split; auto. specialize (H x). change (Z.of_nat 0) with 0. lia.
  - change (run_from_t tbl s (o :: l)) with (run_from_t tbl (fst (step_t tbl s o)) l).
    change (length (o :: l)) with (S (length l)). rewrite Nat2Z.inj_succ.
    destruct (IH (fst (step_t tbl s o)) (k + 1) x) as [E1 E2]; [lia| |].
    + intro y. destruct (step_creator_len tbl s o y) as [B _]. specialize (H y). lia.
    + destruct (step_creator_len tbl s o x) as [_ B2]. rewrite E2, B2. split; auto. lia.
Qed.

Section Table.
Variable tbl : meth -> list mop.
Hypothesis Hc : contracts_ok tbl = true.

Lemma call_inv m h a cj s :
  Inv s -> frame_ok [] m (mkFrame h a no_loc cj) (s_hs s) ->
  (forall o, cj = Some o -> 1 <= creator (getobj (s_heap s) o)) ->
  Inv (call tbl m h a cj s).
Proof.
  unfold Inv, call. intros I F C.
  pose proof (start_step_t tbl _ _ [] [] _ _ _ _ Hc I F (fun _ => eq_refl) C) as I1.
  apply run_prog_inv in I1.
  destruct (run_prog [] (prog_of tbl m) (mkFrame h a no_loc cj, s_hs s, s_heap s)) as [[fr' hs'] hp'].
  simpl in *. apply (GInv_idle_frame _ _ [] []) with (fr := fr'). exact I1.
Qed.

Lemma step_inv s o : Inv s -> Inv (fst (step_t tbl s o)).
Proof.
  intro I. unfold step_t. destruct (legal s o) eqn:L; simpl; auto.
  destruct o; simpl in L; simpl;
    repeat match goal with H : _ && _ = true |- _ => apply andb_true_iff in H as [? ?] end.
  - apply create_step. exact I.
  - apply call_inv; simpl; auto; try discriminate.
  - apply call_inv; simpl; auto; try discriminate; try (split; auto).
  - apply call_inv; simpl; auto; try discriminate; try (split; auto).
  - apply call_inv; simpl; auto; try discriminate; try (split; auto).
  - apply call_inv; simpl; auto.
    + split; auto. unfold raw_okP; simpl. now apply raw_justified.
    + intros x E. eapply cj_of_sound; eauto.
  - apply call_inv; simpl; auto; try discriminate.
  - apply call_inv; simpl; auto; try discriminate; try (split; auto).
  - apply call_inv; simpl; auto; try discriminate; try (split; auto).
  - apply call_inv; simpl; auto.
    + split; auto. unfold raw_okP; simpl. now apply raw_justified.
    + intros x E. eapply cj_of_sound; eauto.
  - apply expl_inc_step; auto.
  - apply expl_dec_step; auto.
    apply Z.leb_le; auto.
  - apply call_inv; simpl; auto; try discriminate; try (split; auto).
Qed.

Lemma run_from_inv l : forall s, Inv s -> Inv (run_from_t tbl s l).
Proof. induction l as [|o l IH]; intros s I; simpl; auto. apply IH. now apply step_inv. Qed.

Lemma run_inv n l : Inv (run_t tbl n l).
Proof. apply run_from_inv. apply init_inv. Qed.

(* statements used by Properties.v *)
Lemma seq_count_eq n l o : let s := run_t tbl n l in
  is_alive s o = true -> use_count s o = creator (getobj (s_heap s) o) + nh (s_hs s) o.
Proof. intros s _. apply inv_count. apply run_inv. Qed.

Lemma seq_no_error n l : err (s_heap (run_t tbl n l)) = false.
Proof. apply (gi_err _ _ _ (run_inv n l)). Qed.

Lemma seq_alive_iff_referenced n l o : let s := run_t tbl n l in
  is_alive s o = true <-> 1 <= creator (getobj (s_heap s) o) + nh (s_hs s) o.
Proof. apply inv_alive_iff. apply run_inv. Qed.

Lemma seq_no_dangling n l h o : let s := run_t tbl n l in
  handle_ptr s h = Some o -> is_alive s o = true.
Proof.
  intros s E. apply (inv_alive_iff s o (run_inv n l)).
  pose proof (nh_pos_of_handle _ _ _ E). pose proof (gi_cre _ _ _ (run_inv n l) o). fold s in H0. lia.
Qed.

Lemma seq_destroyed_exactly_once n l o : let s := run_t tbl n l in
  dels (log (s_heap s)) o =
  if Nat.ltb o (length (objs (s_heap s))) && negb (is_alive s o) then 1 else 0.
Proof. apply (gi_dels _ _ _ (run_inv n l)). Qed.

(* the step in which o dies is the step after which nothing references it, and it is logged once there *)
Lemma seq_destroyed_at_last_release n l op o :
  let s := run_t tbl n l in let s' := fst (step_t tbl s op) in
  is_alive s o = true ->
  (is_alive s' o = false <-> creator (getobj (s_heap s') o) + nh (s_hs s') o = 0) /\
  dels (log (s_heap s')) o = dels (log (s_heap s)) o + (if is_alive s' o then 0 else 1).
Proof.
  intros s s' A. pose proof (run_inv n l) as I. fold s in I.
  pose proof (step_inv s op I) as I'. fold s' in I'.
  split.
  - pose proof (inv_alive_iff s' o I') as W. pose proof (gi_cre _ _ _ I' o). pose proof (nh_nonneg (s_hs s') o).
    destruct (is_alive s' o); split; intro Q; try discriminate; try lia; auto.
  - pose proof (gi_dels _ _ _ I o) as D. pose proof (gi_dels _ _ _ I' o) as D'.
    unfold is_alive in *. rewrite A in D. rewrite andb_false_r in D. rewrite D, D'.
    destruct (alive (getobj (s_heap s') o)) eqn:A'; simpl; rewrite ?andb_false_r, ?andb_true_r; auto.
    (* dead in s' but alive in s: it exists, hence is within the objects of s' *)
    assert (R : (o < length (objs (s_heap s')))%nat).
    { pose proof (alive_in_range _ _ A) as R0.
      assert (Hlen : (length (objs (s_heap s)) <= length (objs (s_heap s')))%nat).
      { clear -s'. subst s'. unfold step_t. destruct (legal s op); simpl; auto.
        assert (Hrun : forall p c, (length (objs (snd c)) <= length (objs (snd (run_prog [] p c))))%nat).
        { induction p as [|m p IH]; intro c; simpl; auto. etransitivity; [|apply IH].
          destruct c as [[fr hs] hp]. unfold mexec. destruct (pexec [] m fr hs) as [fr' hs']. simpl.
          destruct m as [g q|g q|d q| |]; simpl; auto.
          - destruct (eval [] fr hs q); [rewrite len_rmw_inc; auto|destruct g; simpl; auto].
          - destruct (eval [] fr hs q); [rewrite len_rmw_dec; auto|destruct g; simpl; auto].
          - destruct d; simpl; auto. destruct (f_arg fr); simpl; auto. }
        assert (Hcall : forall m h a cj, (length (objs (s_heap s)) <= length (objs (s_heap (call tbl m h a cj s))))%nat).
        { intros. unfold call. specialize (Hrun (prog_of tbl m) (mkFrame h a no_loc cj, s_hs s, s_heap s)).
          destruct (run_prog [] (prog_of tbl m) (mkFrame h a no_loc cj, s_hs s, s_heap s)) as [[? ?] ?]. simpl in *. exact Hrun. }
        destruct op; unfold exec_op; try apply Hcall; simpl; rewrite ?len_rmw_inc, ?len_rmw_dec, ?app_length; simpl; lia. }
      lia. }
    apply Nat.ltb_lt in R. rewrite R. reflexivity.
Qed.

(* a count never exceeds 1 + (length of the history) + (number of handle slots): it is the creator-side
   count (at most one more per step) plus the handles pointing at the object.  So for histories with
   1 + length + slots < 2^63 the unbounded count of the model is exactly what a 64-bit signed counter holds. *)
Lemma seq_count_bounded n l o : let s := run_t tbl n l in
  0 <= use_count s o <= 1 + Z.of_nat (length l) + Z.of_nat n /\
  (1 + Z.of_nat (length l) + Z.of_nat n < 2 ^ 63 -> wrap64 (use_count s o) = use_count s o).
Proof.
  intro s. pose proof (run_inv n l) as I. fold s in I.
  pose proof (inv_count s o I) as E.
  destruct (run_creator_len tbl l (init n) 0 o) as [C Ln]; [lia| |].
  { intro y. unfold getobj, init; simpl. destruct y; simpl; lia. }
  fold (run_t tbl n l) in C, Ln. fold s in C, Ln.
  assert (Lh : length (s_hs s) = n) by (rewrite Ln; unfold init; simpl; apply repeat_length).
  pose proof (nh_le_length (s_hs s) o) as Hn. rewrite Lh in Hn.
  pose proof (gi_cre _ _ _ I o) as C0. pose proof (nh_nonneg (s_hs s) o) as N0.
  assert (B : 0 <= use_count s o <= 1 + Z.of_nat (length l) + Z.of_nat n) by lia.
  split; auto. intro F. unfold wrap64. rewrite Z.mod_small by lia. lia.
Qed.

Lemma seq_handle_eq_iff n l a b : let s := run_t tbl n l in
  (handle_eq s a b = true <-> handle_ptr s a = handle_ptr s b) /\
  handle_ne s a b = negb (handle_eq s a b) /\
  (forall o, handle_ptr s a = Some o -> handle_eq s a b = true ->
             handle_ptr s b = Some o /\ is_alive s o = true).
Proof.
  intros s. split; [apply oid_eqb_eq|]. split; [reflexivity|].
  intros o Ea Eq. apply oid_eqb_eq in Eq. split; [congruence|].
  eapply seq_no_dangling; eauto.
Qed.

End Table.

(* ------------------------------------------------------------------ dispatch through the overload-selection table *)
Lemma meth_eqb_true a b : meth_eqb a b = true -> a = b.
Proof. destruct a, b; simpl; intro H; try discriminate; reflexivity. Qed.

Lemma sel_ok_fst sel : sel_ok sel = true -> forall f, fst (sel f) = fst (model_sel f).
Proof.
  unfold sel_ok. intros H f. rewrite forallb_forall in H.
  assert (I : In f all_cforms) by (destruct f; simpl; tauto).
  specialize (H f I). unfold sel_eqb in H. apply andb_true_iff in H as [H _].
  destruct (fst (sel f)) as [x|], (fst (model_sel f)) as [y|]; try discriminate.
  apply meth_eqb_true in H. now subst.
Qed.

Lemma exec_op_s_eq sel tbl s o : sel_ok sel = true -> exec_op_s sel tbl s o = exec_op tbl s o.
Proof.
  intro H. unfold exec_op_s. destruct o; simpl; try reflexivity; rewrite (sel_ok_fst sel H); reflexivity.
Qed.

Lemma step_s_eq sel tbl s o : sel_ok sel = true -> step_s sel tbl s o = step_t tbl s o.
Proof. intro H. unfold step_s, step_t. now rewrite exec_op_s_eq. Qed.

Lemma run_s_eq sel tbl n l : sel_ok sel = true -> run_s sel tbl n l = run_t tbl n l.
Proof.
  intro H. unfold run_s, run_t, run_from_t. generalize (init n). induction l as [|o l IH]; intro s; simpl; auto.
  rewrite step_s_eq by auto. apply IH.
Qed.
