(* C08 - the source-derived fact table (gen/Facts.v, regenerated from the working tree on
   every run by props/C08/factgen.py) agrees with the table the theorems are about. *)
From Common Require Import Prelude.
From C08 Require Import Model Proofs ProofsLift ProofsHist ProofsConc ProofsCmp FactsCheck.
Local Open Scope Z_scope.

(* on every abstract configuration (receiver null / A; argument null / A / B, as a handle, as
   the receiver itself, as a shared entry, as a raw pointer) every member extracted from
   IntrusivePtr.h performs the same counter RMWs in the same order and leaves the same
   pointers as Model.model_table; refCounter is atomic, refInc / refDec are single RMWs and
   refDec's own result decides `delete this` *)
Theorem facts_match : check gen_table gen_rc = true.
Proof. exact facts_match_lemma. Qed.
Print Assumptions facts_match.

(* the per-member contracts hold for the table extracted from the current source *)
Theorem contracts_src : contracts_ok gen_table = true.
Proof. exact contracts_src_lemma. Qed.
Print Assumptions contracts_src.

(* ---- the history theorems about the machines that run the EXTRACTED table ---- *)
Theorem seq_count_is_creator_plus_handles_src : forall n l o, let s := run_t gen_table n l in
  is_alive s o = true -> use_count s o = creator (getobj (s_heap s) o) + nh (s_hs s) o.
Proof. exact (seq_count_eq gen_table contracts_src_lemma). Qed.
Print Assumptions seq_count_is_creator_plus_handles_src.

Theorem seq_no_error_state_src : forall n l, err (s_heap (run_t gen_table n l)) = false.
Proof. exact (seq_no_error gen_table contracts_src_lemma). Qed.
Print Assumptions seq_no_error_state_src.

Theorem seq_alive_iff_referenced_src : forall n l o, let s := run_t gen_table n l in
  is_alive s o = true <-> 1 <= creator (getobj (s_heap s) o) + nh (s_hs s) o.
Proof. exact (ProofsHist.seq_alive_iff_referenced gen_table contracts_src_lemma). Qed.
Print Assumptions seq_alive_iff_referenced_src.

Theorem seq_handle_target_alive_src : forall n l h o, let s := run_t gen_table n l in
  handle_ptr s h = Some o -> is_alive s o = true.
Proof. exact (seq_no_dangling gen_table contracts_src_lemma). Qed.
Print Assumptions seq_handle_target_alive_src.

Theorem seq_destroyed_exactly_once_src : forall n l o, let s := run_t gen_table n l in
  dels (log (s_heap s)) o =
  if Nat.ltb o (length (objs (s_heap s))) && negb (is_alive s o) then 1 else 0.
Proof. exact (ProofsHist.seq_destroyed_exactly_once gen_table contracts_src_lemma). Qed.
Print Assumptions seq_destroyed_exactly_once_src.

Theorem seq_destroyed_by_last_release_src : forall n l op o,
  let s := run_t gen_table n l in let s' := fst (step_t gen_table s op) in
  is_alive s o = true ->
  (is_alive s' o = false <-> creator (getobj (s_heap s') o) + nh (s_hs s') o = 0) /\
  dels (log (s_heap s')) o = dels (log (s_heap s)) o + (if is_alive s' o then 0 else 1).
Proof. exact (seq_destroyed_at_last_release gen_table contracts_src_lemma). Qed.
Print Assumptions seq_destroyed_by_last_release_src.

Theorem handles_equal_iff_same_object_src : forall n l a b, let s := run_t gen_table n l in
  (handle_eq s a b = true <-> handle_ptr s a = handle_ptr s b) /\
  handle_ne s a b = negb (handle_eq s a b) /\
  (forall o, handle_ptr s a = Some o -> handle_eq s a b = true ->
             handle_ptr s b = Some o /\ is_alive s o = true).
Proof. exact (seq_handle_eq_iff gen_table contracts_src_lemma). Qed.
Print Assumptions handles_equal_iff_same_object_src.

Theorem conc_count_with_transients_src : forall g o, reach gen_table g ->
  err (g_heap g) = false /\
  cnt (getobj (g_heap g) o) =
    creator (getobj (g_heap g) o) + nhz (g_fz g) o + sum_handles (g_ths g) o + sum_trans (g_fz g) (g_ths g) o /\
  alive (getobj (g_heap g) o) = (1 <=? cnt (getobj (g_heap g) o)).
Proof. exact (conc_count_eq gen_table contracts_src_lemma). Qed.
Print Assumptions conc_count_with_transients_src.

Theorem conc_count_when_quiescent_src : forall g o, reach gen_table g -> Forall idle (g_ths g) ->
  cnt (getobj (g_heap g) o) = creator (getobj (g_heap g) o) + nhz (g_fz g) o + sum_handles (g_ths g) o.
Proof. exact (conc_quiescent gen_table contracts_src_lemma). Qed.
Print Assumptions conc_count_when_quiescent_src.

Theorem conc_touched_object_alive_src : forall g t th m rem o, reach gen_table g ->
  nth_error (g_ths g) t = Some th -> t_rem th = m :: rem ->
  (exists gd p, (m = MInc gd p \/ m = MDec gd p) /\ eval (g_fz g) (t_fr th) (t_hs th) p = Some o) ->
  alive (getobj (g_heap g) o) = true.
Proof. exact (conc_touch_alive gen_table contracts_src_lemma). Qed.
Print Assumptions conc_touched_object_alive_src.

Theorem conc_destroyed_exactly_once_src : forall g o, reach gen_table g ->
  dels (log (g_heap g)) o = (if Nat.ltb o (length (objs (g_heap g))) && negb (alive (getobj (g_heap g) o)) then 1 else 0) /\
  (alive (getobj (g_heap g) o) = false -> cnt (getobj (g_heap g) o) = 0 /\ creator (getobj (g_heap g) o) = 0 /\
                                         nhz (g_fz g) o + sum_hold (g_fz g) (g_ths g) o = 0).
Proof. exact (conc_delete_once gen_table contracts_src_lemma). Qed.
Print Assumptions conc_destroyed_exactly_once_src.

(* ---- comparison operators and accessors, as extracted from the source ---- *)
Theorem cmp_facts_match : cmp_ok gen_cmp = true.
Proof. exact cmp_facts_lemma. Qed.
Print Assumptions cmp_facts_match.

(* with any injective assignment of addresses to pointer values, the extracted operator== and
   operator!= compute the model's handle_eq / handle_ne (equal exactly when same object or both
   null), the extracted operator< is the order of the two addresses, and operator bool / -> / *
   read ptr *)
Theorem comparisons_src : forall (addr : option id -> Z), (forall p q, addr p = addr q -> p = q) ->
  forall s a b,
    ceval (c_eq gen_cmp) (addr (handle_ptr s a)) (addr (handle_ptr s b)) = handle_eq s a b /\
    ceval (c_ne gen_cmp) (addr (handle_ptr s a)) (addr (handle_ptr s b)) = handle_ne s a b /\
    ceval (c_lt gen_cmp) (addr (handle_ptr s a)) (addr (handle_ptr s b)) = (addr (handle_ptr s a) <? addr (handle_ptr s b)) /\
    a_bool gen_cmp = true /\ a_arrow gen_cmp = true /\ a_deref gen_cmp = true /\ c_mixed gen_cmp = true.
Proof. exact (cmp_model gen_cmp cmp_facts_lemma). Qed.
Print Assumptions comparisons_src.

(* ---- the member list is closed and every operation runs the member overload resolution selects ---- *)

(* IntrusivePtr<T> and RefCountedObject declare exactly the members the model knows: no further
   constructor, assignment operator, destructor, conversion operator, method or field (an added
   or vanished declaration is DOther / a shorter list and fails here) *)
Theorem members_closed : members_ok gen_members = true.
Proof. exact members_lemma. Qed.
Print Assumptions members_closed.

(* for every call form the machines and the harness perform (construct from an lvalue / rvalue of
   the same / another handle type, from a temporary of another type, from a raw pointer; the
   assignment forms likewise) clang selects the declared member the model runs for it *)
Theorem overloads_match : sel_ok gen_sel = true.
Proof. exact sel_lemma. Qed.
Print Assumptions overloads_match.

(* hence the machine that dispatches every operation through the extracted selection table and
   runs the extracted micro-operation table is the machine the _src theorems are about *)
Theorem machine_src_uses_selected_members : forall n l,
  run_s gen_sel gen_table n l = run_t gen_table n l.
Proof. exact (fun n l => run_s_eq gen_sel gen_table n l sel_lemma). Qed.
Print Assumptions machine_src_uses_selected_members.

(* the free functions / operator templates / aliases declared next to the classes are exactly the
   ones the model knows, with their template parameter counts and operand types *)
Theorem free_functions_closed : free_ok gen_free = true.
Proof. exact free_lemma. Qed.
Print Assumptions free_functions_closed.

(* with the extracted table, and the extracted fact that the counter is a 64-bit signed integer *)
Theorem seq_count_fits_64bit_counter_src : forall n l o, let s := run_t gen_table n l in
  rc_width64 gen_rc = true /\
  0 <= use_count s o <= 1 + Z.of_nat (length l) + Z.of_nat n /\
  (1 + Z.of_nat (length l) + Z.of_nat n < 2 ^ 63 -> wrap64 (use_count s o) = use_count s o).
Proof. exact (fun n l o => conj width_lemma (seq_count_bounded gen_table contracts_src_lemma n l o)). Qed.
Print Assumptions seq_count_fits_64bit_counter_src.
