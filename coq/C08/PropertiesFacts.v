(* C08 - the source-derived fact table (gen/Facts.v, regenerated from the working tree on
   every run by props/C08/factgen.py) agrees with the table the theorems are about. *)
From Common Require Import Prelude.
From C08 Require Import Model FactsCheck.

(* on every abstract configuration (receiver null / A; argument null / A / B, as a handle, as
   the receiver itself, as a shared entry, as a raw pointer) every member extracted from
   IntrusivePtr.h performs the same counter RMWs in the same order and leaves the same
   pointers as Model.model_table; refCounter is atomic, refInc / refDec are single RMWs and
   refDec's own result decides `delete this` *)
Theorem facts_match : check gen_table gen_rc = true.
Proof. exact facts_match_lemma. Qed.
Print Assumptions facts_match.
