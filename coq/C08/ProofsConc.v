(* C08 - the concurrent machine: threads own disjoint handle sets and interleave at
   micro-operation granularity; invariant preservation per step, induction over the schedule. *)
From Common Require Import Prelude.
From C08 Require Import Model Proofs ProofsLift ProofsHist.
Local Open Scope Z_scope.

Definition no_cj (ths : list thread) : Prop := Forall (fun th => f_cj (t_fr th) = None) ths.
Definition CInv (g : gstate) : Prop := GInv (g_heap g) (g_fz g) (g_ths g) /\ no_cj (g_ths g).

Lemma no_cj_replace l1 th l2 th' :
  no_cj (l1 ++ th :: l2) -> f_cj (t_fr th') = None -> no_cj (l1 ++ th' :: l2).
Proof.
  unfold no_cj. intros H E. apply Forall_app in H as [H1 H2]. inversion H2; subst.
  apply Forall_app; split; auto.
Qed.

Lemma is_nil_true {A} (l : list A) : is_nil l = true -> l = [].
Proof. destruct l; simpl; congruence. Qed.

Lemma src_ok_of_live fz hs h a loc : src_live fz hs a = true -> src_okP (mkFrame h (src_arg a) loc None) hs.
Proof. destruct a; simpl; unfold src_okP; simpl; auto. Qed.

Lemma src_justified fz hs h a0 a : src_live fz hs a = true ->
  arg_justified fz (mkFrame h a0 no_loc None) hs (src_ptr fz hs a).
Proof.
  intro L. destruct a as [g|g]; simpl in *.
  - destruct (slot_tgt (hget hs g)) as [o|] eqn:E; simpl; auto. left. eapply nh_pos_of_handle; eauto.
  - destruct (nth g fz None) as [o|] eqn:E; simpl; auto. right; left.
    pose proof (nhz_ge_ind fz g o) as G. rewrite E in G. simpl in G. rewrite Nat.eqb_refl in G. lia.
Qed.

Lemma top_frame_ok fz hs o : top_legal fz hs o = true ->
  frame_ok fz (fst (top_frame fz hs o)) (snd (top_frame fz hs o)) hs /\
  (f_cj (snd (top_frame fz hs o)) = None /\ forall k, f_loc (snd (top_frame fz hs o)) k = None).
Proof.
  intro L. split; [|destruct o; split; reflexivity].
  destruct o; simpl in *;
    repeat match goal with H : _ && _ = true |- _ => apply andb_true_iff in H as [? ?] end; auto;
    try (split; auto; try now apply (src_ok_of_live fz)).
  - unfold raw_okP; simpl. now apply src_justified.
  - unfold raw_okP; simpl. now apply src_justified.
Qed.

Section Table.
Variable tbl : meth -> list mop.
Hypothesis Hc : contracts_ok tbl = true.

Lemma gstep_inv g l : CInv g -> CInv (gstep_t tbl g l).
Proof.
  intros [I N]. destruct g as [hp fz ths]. simpl in *. destruct l as [t o|t|t a|t o]; simpl.
  - (* a thread enters a member *)
    destruct (nth_error ths t) as [th|] eqn:E; [|split; auto].
    destruct (is_nil (t_rem th) && top_legal fz (t_hs th) o) eqn:C; [|split; auto].
    apply andb_true_iff in C as [C1 C2]. apply is_nil_true in C1.
    destruct (nth_error_split_upd _ _ _ E) as (l1 & l2 & -> & U).
    destruct (top_frame_ok _ _ _ C2) as [F [J Lo]].
    destruct (top_frame fz (t_hs th) o) as [m fr]. simpl in *. rewrite U.
    destruct th as [hs rem fr0']. simpl in *. subst rem.
    split; simpl.
    + apply (start_step_t tbl _ _ _ _ _ _ _ _ Hc I F Lo). intros x Ex. congruence.
    + eapply no_cj_replace; eauto.
  - (* one micro-operation *)
    destruct (nth_error ths t) as [th|] eqn:E; [|split; auto].
    destruct (t_rem th) as [|m rem] eqn:R; [split; auto|].
    destruct (nth_error_split_upd _ _ _ E) as (l1 & l2 & -> & U).
    destruct th as [hs rem0 fr]. simpl in *. subst rem0.
    pose proof (micro_step _ _ _ _ _ _ _ _ I) as I'.
    unfold mexec. destruct (pexec fz m fr hs) as [fr' hs'] eqn:P. simpl in *. rewrite U.
    split; simpl; auto.
    eapply no_cj_replace; eauto. simpl.
    assert (f_cj fr' = f_cj fr) by (pose proof (cj_pexec fz m fr hs) as Q; rewrite P in Q; exact Q).
    unfold no_cj in N. apply Forall_app in N as [_ N2]. inversion N2; subst. simpl in *. congruence.
  - (* explicit refInc through a handle the thread may read *)
    destruct (nth_error ths t) as [th|] eqn:E; [|split; auto].
    destruct (src_ptr fz (t_hs th) a) as [o|] eqn:P; [|split; auto].
    destruct (is_nil (t_rem th) && src_live fz (t_hs th) a) eqn:C; [|split; auto].
    apply andb_true_iff in C as [C1 C2]. apply is_nil_true in C1.
    destruct (nth_error_split_upd _ _ _ E) as (l1 & l2 & -> & U).
    split; simpl; auto. apply expl_inc_step; auto.
    rewrite (gi_alive _ _ _ I). apply Z.leb_le.
    pose proof (cnt_lower _ _ _ _ _ o I) as L. pose proof (gi_cre _ _ _ I o) as Hcr.
    pose proof (nhz_nonneg fz o) as Hz.
    destruct th as [hs rem fr]. simpl in *. subst rem. unfold hold in L. simpl in L.
    pose proof (nh_nonneg hs o) as Hn.
    pose proof (src_justified fz hs 0%nat ANone a C2) as J. rewrite P in J. simpl in J.
    destruct J as [J|[J|J]]; try lia; discriminate.
  - (* explicit refDec of a creator-side reference *)
    destruct (nth_error ths t) as [th|]; [|split; auto].
    destruct (alive (getobj hp o) && (1 <=? creator (getobj hp o))) eqn:C; [|split; auto].
    apply andb_true_iff in C as [C1 C2]. apply Z.leb_le in C2.
    split; simpl; auto. apply expl_dec_step; auto.
    eapply Forall_impl; [|exact N]. intros; auto.
Qed.

Lemma grun_inv sched : forall g, CInv g -> CInv (grun_t tbl g sched).
Proof. induction sched as [|l sched IH]; intros g I; simpl; auto. apply IH. now apply gstep_inv. Qed.

Lemma sum_hold_repeat_idle fz k fr n o : sum_hold fz (repeat (mkT (repeat SDead k) [] fr) n) o = 0.
Proof. induction n; simpl; auto. rewrite IHn. unfold hold; simpl. rewrite nh_repeat_dead. lia. Qed.

Lemma ginit_inv s n k : Inv s -> CInv (ginit s n k).
Proof.
  intro I. unfold ginit. split; simpl.
  - constructor; simpl; try apply I.
    + intro o. rewrite (Inv_nh s o I). rewrite nh_map_tgt, sum_hold_repeat_idle. lia.
    + apply Forall_forall. intros th Hin. apply repeat_spec in Hin. subst th. simpl. split; auto.
      intro o. unfold holdv; simpl. rewrite nh_repeat_dead. lia.
    + apply Forall_forall. intros th Hin. apply repeat_spec in Hin. subst th. intro Nn. simpl in Nn. congruence.
  - apply Forall_forall. intros th Hin. apply repeat_spec in Hin. subst th. reflexivity.
Qed.

Definition reach (g : gstate) : Prop :=
  exists nh0 hist n k sched, g = grun_t tbl (ginit (run_t tbl nh0 hist) n k) sched.

Lemma reach_inv g : reach g -> CInv g.
Proof. intros (nh0 & hist & n & k & sched & ->). apply grun_inv, ginit_inv, run_inv. exact Hc. Qed.

Lemma sum_hold_split fz ths o : sum_hold fz ths o = sum_handles ths o + sum_trans fz ths o.
Proof. induction ths as [|th ths IH]; simpl; auto. unfold transients. lia. Qed.

(* statements used by Properties.v *)
Lemma conc_count_eq g o : reach g ->
  err (g_heap g) = false /\
  cnt (getobj (g_heap g) o) =
    creator (getobj (g_heap g) o) + nhz (g_fz g) o + sum_handles (g_ths g) o + sum_trans (g_fz g) (g_ths g) o /\
  alive (getobj (g_heap g) o) = (1 <=? cnt (getobj (g_heap g) o)).
Proof.
  intro R. destruct (reach_inv _ R) as [I _]. split; [apply I|]. split; [|apply I].
  pose proof (gi_eq _ _ _ I o) as E. unfold cntq in E. rewrite sum_hold_split in E. lia.
Qed.

Lemma sum_trans_idle fz ths o : Forall idle ths -> sum_trans fz ths o = 0.
Proof.
  induction 1 as [|th ths H _ IH]; simpl; auto. rewrite IH. unfold transients, hold. unfold idle in H. rewrite H. simpl. lia.
Qed.

Lemma conc_quiescent g o : reach g -> Forall idle (g_ths g) ->
  cnt (getobj (g_heap g) o) = creator (getobj (g_heap g) o) + nhz (g_fz g) o + sum_handles (g_ths g) o.
Proof.
  intros R Q. destruct (conc_count_eq g o R) as (_ & E & _). rewrite sum_trans_idle in E by auto. lia.
Qed.

(* the object a thread is about to touch is alive *)
Lemma conc_touch_alive g t th m rem o : reach g ->
  nth_error (g_ths g) t = Some th -> t_rem th = m :: rem ->
  (exists gd p, (m = MInc gd p \/ m = MDec gd p) /\ eval (g_fz g) (t_fr th) (t_hs th) p = Some o) ->
  alive (getobj (g_heap g) o) = true.
Proof.
  intros R E Rm (gd & p & Hm & Ev). destruct (reach_inv _ R) as [I N].
  destruct (nth_error_split_upd _ _ _ E) as (l1 & l2 & Eq & _). rewrite Eq in I, N.
  pose proof (gi_safe _ _ _ I) as S. apply Forall_app in S as [_ S2]. inversion S2 as [|? ? St _]; subst.
  rewrite Rm in St. simpl in St. destruct St as (_ & Hh & _).
  unfold no_cj in N. apply Forall_app in N as [_ N2]. inversion N2 as [|? ? Nc _]; subst.
  rewrite (gi_alive _ _ _ I). apply Z.leb_le.
  pose proof (cnt_lower _ _ _ _ _ o I) as L. pose proof (gi_cre _ _ _ I o) as Hcr.
  pose proof (nhz_nonneg (g_fz g) o) as Hz. rewrite hold_holdv in L. rewrite Rm in L.
  pose proof (safe_hold_nonneg (g_fz g) (m :: rem) (t_fr th) (t_hs th) o) as Hn.
  assert (Sf : safe (g_fz g) (m :: rem) (t_fr th) (t_hs th)).
  { pose proof (gi_safe _ _ _ I) as S. apply Forall_app in S as [_ S2']. inversion S2'; subst. now rewrite Rm in *. }
  specialize (Hn Sf).
  destruct Hm as [-> | ->]; simpl in Hh; rewrite Ev in Hh.
  - destruct Hh as [J|[J|J]]; try lia. congruence.
  - lia.
Qed.

(* deleted at most once; a deleted object is dead with count 0 *)
Lemma conc_delete_once g o : reach g ->
  dels (log (g_heap g)) o = (if Nat.ltb o (length (objs (g_heap g))) && negb (alive (getobj (g_heap g) o)) then 1 else 0) /\
  (alive (getobj (g_heap g) o) = false -> cnt (getobj (g_heap g) o) = 0 /\ creator (getobj (g_heap g) o) = 0 /\
                                         nhz (g_fz g) o + sum_hold (g_fz g) (g_ths g) o = 0).
Proof.
  intro R. destruct (reach_inv _ R) as [I _]. split; [apply I|].
  intro D. rewrite (gi_alive _ _ _ I) in D. apply Z.leb_gt in D.
  pose proof (gi_eq _ _ _ I o) as E. unfold cntq in E. pose proof (gi_cre _ _ _ I o).
  pose proof (nhz_nonneg (g_fz g) o). pose proof (sum_hold_nonneg _ _ o (gi_safe _ _ _ I)). lia.
Qed.

End Table.

(* a delete is logged only by the atomic decrement that returned 0 *)
Lemma delete_only_by_zero_decrement e o hp x :
  dels (log (rmw_dec e o hp)) x =
  dels (log hp) x + (if alive (getobj hp o) && (cnt (getobj hp o) - 1 =? 0) && Nat.eqb o x then 1 else 0) /\
  dels (log (rmw_inc e o hp)) x = dels (log hp) x.
Proof.
  unfold rmw_dec, rmw_inc. destruct (alive (getobj hp o)); simpl; [|lia].
  destruct (cnt (getobj hp o) - 1 =? 0); simpl; destruct (Nat.eqb o x); lia.
Qed.
