From Coq Require Import Extraction ExtrOcamlBasic ZArith List.
From C08 Require Import Model.
(* fallback used when gen/Facts.v cannot be loaded: the hand model alone *)
Extraction "Model.ml" init step exec_op model_table use_count is_alive handle_ptr handle_eq handle_ne
  s_heap err log legal all_meths exec_op_s model_sel.
