(* C08 - lifting: any micro-operation table that satisfies the per-member contracts on the
   abstract configurations ([contracts_ok tbl = true]) is safe and balanced on every real
   state, because a member never inspects object names: its run on a real state is the
   renaming of its run on an abstract configuration. *)
From Common Require Import Prelude.
From C08 Require Import Model Proofs.
Local Open Scope Z_scope.

(* ------------------------------------------------------------------ safety in terms of the trace *)
Fixpoint bal (evs : list (bool * id)) (o : id) : Z :=
  match evs with
  | [] => 0
  | e :: r => (if fst e then ind (Some (snd e)) o else - ind (Some (snd e)) o) + bal r o
  end.

Lemma bal_app a b o : bal (a ++ b) o = bal a o + bal b o.
Proof. induction a as [|e a IH]; simpl; [lia|]. rewrite IH. lia. Qed.

Lemma final_hs_pfinal fz rem : forall fr hs, final_hs fz rem fr hs = pfinal fz rem fr hs.
Proof.
  induction rem as [|m r IH]; intros fr hs; simpl; auto.
  destruct (pexec fz m fr hs) as [fr' hs'] eqn:E. simpl. apply IH.
Qed.

Lemma rem_incs_bal fz rem o : forall fr hs, rem_incs fz rem fr hs o = bal (ptrace fz rem fr hs) o.
Proof.
  induction rem as [|m r IH]; intros fr hs; simpl; auto.
  destruct (pexec fz m fr hs) as [fr' hs'] eqn:E. simpl. rewrite bal_app, IH.
  f_equal. destruct m as [g p|g p|d p| |]; simpl; auto; destruct (eval fz fr hs p); simpl; lia.
Qed.

Lemma holdv_trace fz rem fr hs o :
  holdv fz rem fr hs o = nh (pfinal fz rem fr hs) o - bal (ptrace fz rem fr hs) o.
Proof. unfold holdv. now rewrite final_hs_pfinal, rem_incs_bal. Qed.

Fixpoint tsafe (F : id -> Z) (cj : option id) (fz : list (option id)) (evs : list (bool * id)) : Prop :=
  (forall o, 0 <= F o - bal evs o) /\
  match evs with
  | [] => True
  | e :: r =>
      (if fst e then (1 <= F (snd e) - bal evs (snd e) \/ 1 <= nhz fz (snd e) \/ cj = Some (snd e))
       else 1 <= F (snd e) - bal evs (snd e)) /\ tsafe F cj fz r
  end.

Lemma tsafe_ext F G cj fz evs : (forall o, F o = G o) -> tsafe F cj fz evs -> tsafe G cj fz evs.
Proof.
  intro E. induction evs as [|e r IH]; simpl; intros [H1 H2].
  - split; auto. intro o. rewrite <- E. apply H1.
  - destruct H2 as [H2 H3]. split; [intro o; rewrite <- E; apply H1|]. split; [|now apply IH].
    rewrite <- E. exact H2.
Qed.

Lemma tsafe_head F cj fz evs : tsafe F cj fz evs -> forall o, 0 <= F o - bal evs o.
Proof. destruct evs; intros [H _]; exact H. Qed.

Lemma safe_trace fz rem : forall fr hs,
  safe fz rem fr hs <->
  (pbad fz rem fr hs = false /\ tsafe (nh (pfinal fz rem fr hs)) (f_cj fr) fz (ptrace fz rem fr hs)).
Proof.
  induction rem as [|m r IH]; intros fr hs.
  - cbn [safe pbad ptrace pfinal tsafe]. split.
    + intros [H _]. split; [reflexivity|]. split; [|exact I]. intro o. specialize (H o). rewrite holdv_trace in H. exact H.
    + intros [_ [H _]]. split; [|exact I]. intro o. rewrite holdv_trace. apply H.
  - cbn [safe]. rewrite IH. rewrite cj_pexec.
    set (fr' := fst (pexec fz m fr hs)). set (hs' := snd (pexec fz m fr hs)).
    assert (Hh : forall o, holdv fz (m :: r) fr hs o =
                           nh (pfinal fz r fr' hs') o - bal (mev fz m fr hs ++ ptrace fz r fr' hs') o).
    { intro o. rewrite holdv_trace. reflexivity. }
    cbn [pbad ptrace pfinal]. fold fr' hs'.
    destruct m as [g p|g p|d p| |]; cbn [head_ok mev mbad].
    + (* MInc *)
      destruct (eval fz fr hs p) as [x|] eqn:Ev; simpl app; simpl orb.
      * assert (E1 : forall o, holdv fz (MInc g p :: r) fr hs o =
                               nh (pfinal fz r fr' hs') o - bal ((true, x) :: ptrace fz r fr' hs') o).
        { intro o. rewrite Hh. unfold mev. rewrite Ev. reflexivity. }
        split.
        -- intros (H1 & H2 & H3 & H4). split; auto. cbn [tsafe fst snd].
           split; [intro o; rewrite <- E1; apply H1|]. split; [rewrite <- E1; exact H2|exact H4].
        -- intros (H3 & H4). cbn [tsafe fst snd] in H4. destruct H4 as (H1 & H2 & H4).
           split; [intro o; rewrite E1; apply H1|]. split; [rewrite E1; exact H2|]. split; auto.
      * assert (E0 : forall o, holdv fz (MInc g p :: r) fr hs o = nh (pfinal fz r fr' hs') o - bal (ptrace fz r fr' hs') o).
        { intro o. rewrite Hh. unfold mev. rewrite Ev. reflexivity. }
        destruct g; simpl; split.
        -- intros (H1 & _ & H2 & H3). auto.
        -- intros (H2 & H3). split; [intro o; rewrite E0; exact (tsafe_head _ _ _ _ H3 o)|]. repeat split; auto.
        -- intros (_ & H & _). discriminate.
        -- intros (H & _). discriminate.
    + (* MDec *)
      destruct (eval fz fr hs p) as [x|] eqn:Ev; simpl app; simpl orb.
      * assert (E1 : forall o, holdv fz (MDec g p :: r) fr hs o =
                               nh (pfinal fz r fr' hs') o - bal ((false, x) :: ptrace fz r fr' hs') o).
        { intro o. rewrite Hh. unfold mev. rewrite Ev. reflexivity. }
        split.
        -- intros (H1 & H2 & H3 & H4). split; auto. cbn [tsafe fst snd].
           split; [intro o; rewrite <- E1; apply H1|]. split; [rewrite <- E1; exact H2|exact H4].
        -- intros (H3 & H4). cbn [tsafe fst snd] in H4. destruct H4 as (H1 & H2 & H4).
           split; [intro o; rewrite E1; apply H1|]. split; [rewrite E1; exact H2|]. split; auto.
      * assert (E0 : forall o, holdv fz (MDec g p :: r) fr hs o = nh (pfinal fz r fr' hs') o - bal (ptrace fz r fr' hs') o).
        { intro o. rewrite Hh. unfold mev. rewrite Ev. reflexivity. }
        destruct g; simpl; split.
        -- intros (H1 & _ & H2 & H3). auto.
        -- intros (H2 & H3). split; [intro o; rewrite E0; exact (tsafe_head _ _ _ _ H3 o)|]. repeat split; auto.
        -- intros (_ & H & _). discriminate.
        -- intros (H & _). discriminate.
    + (* MStore *)
      assert (E0 : forall o, holdv fz (MStore d p :: r) fr hs o = nh (pfinal fz r fr' hs') o - bal (ptrace fz r fr' hs') o)
        by (intro o; rewrite Hh; reflexivity).
      simpl app.
      assert (Core : forall Q : Prop, Q ->
                     (((forall o, 0 <= holdv fz (MStore d p :: r) fr hs o) /\ Q /\
                      pbad fz r fr' hs' = false /\ tsafe (nh (pfinal fz r fr' hs')) (f_cj fr) fz (ptrace fz r fr' hs')) <->
                     (pbad fz r fr' hs' = false /\ tsafe (nh (pfinal fz r fr' hs')) (f_cj fr) fz (ptrace fz r fr' hs')))).
      { intros Q q. split.
        - intros (_ & _ & H2 & H3). auto.
        - intros (H2 & H3). split; [intro o; rewrite E0; exact (tsafe_head _ _ _ _ H3 o)|]. repeat split; auto. }
      destruct d as [| |k]; try (apply Core; exact I).
      destruct (f_arg fr); simpl orb; try (apply Core; exact I); split;
        try (intros (_ & [] & _)); try (intros (H & _); discriminate).
    + (* MDead *)
      assert (E0 : forall o, holdv fz (MDead :: r) fr hs o = nh (pfinal fz r fr' hs') o - bal (ptrace fz r fr' hs') o)
        by (intro o; rewrite Hh; reflexivity).
      simpl app. simpl orb. split.
      * intros (_ & _ & H2 & H3). auto.
      * intros (H2 & H3). split; [intro o; rewrite E0; exact (tsafe_head _ _ _ _ H3 o)|]. repeat split; auto.
    + (* MUnknown *)
      simpl. split; [intros (_ & [] & _)|intros (H & _); discriminate].
Qed.

(* ------------------------------------------------------------------ renaming simulation *)
Definition omap (rn : id -> id) (p : option id) : option id := option_map rn p.
Definition smap (rn : id -> id) (s : slot) : slot := match s with SDead => SDead | SLive p => SLive (omap rn p) end.
Definition argkey (fr : frame) : option nat := match f_arg fr with AOwn g => Some g | _ => None end.

Lemma tgt_smap rn s : slot_tgt (smap rn s) = omap rn (slot_tgt s).
Proof. destruct s; reflexivity. Qed.

Record Rel (rn : id -> id) (frA : frame) (hsA : list slot) (fzA : list (option id))
           (fr : frame) (hs : list slot) (fz : list (option id)) : Prop := {
  r_thisA : f_this frA = 0%nat;
  r_lenA : length hsA = 2%nat;
  r_lt : (f_this fr < length hs)%nat;
  r_this : hget hs (f_this fr) = smap rn (hget hsA 0);
  r_arg : match f_arg fr, f_arg frA with
          | ANone, ANone => True
          | AOwn g, AOwn gA =>
              (g < length hs)%nat /\
              ((g = f_this fr /\ gA = 0%nat) \/ (g <> f_this fr /\ gA = 1%nat /\ hget hs g = smap rn (hget hsA 1)))
          | AFrozen g, AFrozen gA => nth g fz None = omap rn (nth gA fzA None)
          | ARaw p, ARaw pA => p = omap rn pA
          | _, _ => False
          end;
  r_loc : forall k, f_loc fr k = omap rn (f_loc frA k)
}.

Lemma sim_eval rn frA hsA fzA fr hs fz p :
  Rel rn frA hsA fzA fr hs fz -> eval fz fr hs p = omap rn (eval fzA frA hsA p).
Proof.
  intro R. destruct p as [| | |k]; simpl.
  - rewrite (r_thisA _ _ _ _ _ _ _ R), (r_this _ _ _ _ _ _ _ R). apply tgt_smap.
  - pose proof (r_arg _ _ _ _ _ _ _ R) as A.
    destruct (f_arg fr) as [|g|g|q], (f_arg frA) as [|gA|gA|qA]; try contradiction; auto.
    destruct A as [_ [[-> ->]|(N & -> & E)]].
    + rewrite (r_this _ _ _ _ _ _ _ R). apply tgt_smap.
    + rewrite E. apply tgt_smap.
  - reflexivity.
  - apply (r_loc _ _ _ _ _ _ _ R).
Qed.

Lemma hgetA_upd hsA a s b : length hsA = 2%nat -> (a < 2)%nat ->
  hget (upd hsA a s) b = if Nat.eqb a b then s else hget hsA b.
Proof. intros L H. apply hget_upd. lia. Qed.

Lemma sim_pexec rn frA hsA fzA fr hs fz m :
  Rel rn frA hsA fzA fr hs fz ->
  Rel rn (fst (pexec fzA m frA hsA)) (snd (pexec fzA m frA hsA)) fzA
         (fst (pexec fz m fr hs)) (snd (pexec fz m fr hs)) fz.
Proof.
  intro R. pose proof (fun q => sim_eval rn _ _ _ _ _ _ q R) as Ev.
  destruct R as [TA LA LT TH AR LO].
  Ltac fin_rel Ev :=
    rewrite ?hget_upd by auto; rewrite ?hgetA_upd by lia; rewrite ?Nat.eqb_refl;
    repeat match goal with |- context[Nat.eqb ?a ?b] => destruct (Nat.eqb_spec a b); try congruence; try lia end;
    simpl; rewrite ?Ev; auto.
  destruct (f_arg fr) as [|g|g|q] eqn:Ea, (f_arg frA) as [|gA|gA|qA] eqn:EaA; try contradiction;
    try (destruct AR as [Lg [[E1 E2]|(N & E2 & E)]]; [subst g gA|subst gA]);
    (destruct m as [gd p|gd p|[| |k] p| |]; simpl; rewrite ?Ea, ?EaA, ?TA; simpl;
     constructor; simpl; rewrite ?length_upd, ?Ea, ?EaA; auto;
     try solve [fin_rel Ev];
     try solve [split; [assumption|]; left; auto];
     try solve [split; [assumption|]; right; repeat split; auto; fin_rel Ev];
     try solve [intro j; destruct (Nat.eqb j k); auto]).
Qed.

Definition rmap (rn : id -> id) (e : bool * id) : bool * id := (fst e, rn (snd e)).

Lemma sim_mev rn frA hsA fzA fr hs fz m :
  Rel rn frA hsA fzA fr hs fz -> mev fz m fr hs = map (rmap rn) (mev fzA m frA hsA).
Proof.
  intro R. destruct m as [g p|g p|d p| |]; simpl; auto;
    rewrite (sim_eval rn _ _ _ _ _ _ p R); destruct (eval fzA frA hsA p); reflexivity.
Qed.

Lemma sim_mbad rn frA hsA fzA fr hs fz m :
  Rel rn frA hsA fzA fr hs fz -> mbad fz m fr hs = mbad fzA m frA hsA.
Proof.
  intro R. destruct m as [g p|g p|d p| |]; simpl; auto;
    try (rewrite (sim_eval rn _ _ _ _ _ _ p R); destruct (eval fzA frA hsA p); reflexivity).
  destruct d; auto. pose proof (r_arg _ _ _ _ _ _ _ R) as A.
  destruct (f_arg fr), (f_arg frA); try contradiction; reflexivity.
Qed.

(* handles of the thread other than the receiver and the argument *)
Definition restf (fr : frame) (hs : list slot) (o : id) : Z :=
  nh hs o - ind (slot_tgt (hget hs (f_this fr))) o -
  match argkey fr with
  | Some g => if Nat.eqb g (f_this fr) then 0 else ind (slot_tgt (hget hs g)) o
  | None => 0
  end.

Lemma this_pexec fz m fr hs : f_this (fst (pexec fz m fr hs)) = f_this fr.
Proof. destruct m as [g p|g p|[| |k] p| |]; simpl; auto. destruct (f_arg fr); auto. Qed.

Lemma argkey_pexec fz m fr hs : argkey (fst (pexec fz m fr hs)) = argkey fr.
Proof. unfold argkey. destruct m as [g p|g p|[| |k] p| |]; simpl; auto. destruct (f_arg fr) eqn:E; simpl; rewrite ?E; auto. Qed.

Lemma len_pexec fz m fr hs : length (snd (pexec fz m fr hs)) = length hs.
Proof.
  destruct m as [g p|g p|[| |k] p| |]; simpl; rewrite ?length_upd; auto.
  destruct (f_arg fr); simpl; rewrite ?length_upd; auto.
Qed.

Lemma rest_pexec fz m fr hs o :
  (f_this fr < length hs)%nat -> (forall g, argkey fr = Some g -> (g < length hs)%nat) ->
  restf (fst (pexec fz m fr hs)) (snd (pexec fz m fr hs)) o = restf fr hs o.
Proof.
  intros Lh Lg. unfold restf. rewrite this_pexec, argkey_pexec.
  assert (Upd : forall a s, (a < length hs)%nat -> (a = f_this fr \/ argkey fr = Some a) ->
    nh (upd hs a s) o - ind (slot_tgt (hget (upd hs a s) (f_this fr))) o -
    match argkey fr with Some g => if Nat.eqb g (f_this fr) then 0 else ind (slot_tgt (hget (upd hs a s) g)) o | None => 0 end =
    nh hs o - ind (slot_tgt (hget hs (f_this fr))) o -
    match argkey fr with Some g => if Nat.eqb g (f_this fr) then 0 else ind (slot_tgt (hget hs g)) o | None => 0 end).
  { intros a s La Wa. rewrite nh_upd by auto. rewrite !hget_upd by auto.
    destruct (argkey fr) as [g|] eqn:K; rewrite ?hget_upd by auto.
    - destruct Wa as [->|E].
      + rewrite Nat.eqb_refl. destruct (Nat.eqb_spec g (f_this fr)) as [->|N]; [lia|].
        destruct (Nat.eqb_spec (f_this fr) g); [congruence|]. lia.
      + inversion E; subst a. rewrite Nat.eqb_refl.
        destruct (Nat.eqb_spec g (f_this fr)) as [->|N]; [lia|]. lia.
    - destruct Wa as [->|E]; [|discriminate]. rewrite Nat.eqb_refl. lia. }
  destruct m as [g p|g p|[| |k] p| |]; simpl; auto.
  all: try (apply Upd; auto; fail).
  destruct (f_arg fr) as [|g|g|q] eqn:Ea; simpl; auto.
  apply Upd; [apply Lg; unfold argkey; now rewrite Ea|right; unfold argkey; now rewrite Ea].
Qed.

Lemma sim_run rn fzA fz p : forall frA hsA fr hs,
  Rel rn frA hsA fzA fr hs fz ->
  ptrace fz p fr hs = map (rmap rn) (ptrace fzA p frA hsA) /\
  pbad fz p fr hs = pbad fzA p frA hsA /\
  (forall o, nh (pfinal fz p fr hs) o =
     restf fr hs o + ind (omap rn (slot_tgt (hget (pfinal fzA p frA hsA) 0))) o +
     match argkey fr with
     | Some g => if Nat.eqb g (f_this fr) then 0 else ind (omap rn (slot_tgt (hget (pfinal fzA p frA hsA) 1))) o
     | None => 0
     end).
Proof.
  induction p as [|m p IH]; intros frA hsA fr hs R.
  - simpl. split; auto. split; auto. intro o. unfold restf.
    rewrite <- tgt_smap, <- (r_this _ _ _ _ _ _ _ R).
    pose proof (r_arg _ _ _ _ _ _ _ R) as A. unfold argkey.
    destruct (f_arg fr) as [|g|g|q], (f_arg frA) as [|gA|gA|qA]; try contradiction; try lia.
    destruct A as [_ [[-> ->]|(N & -> & E)]].
    + rewrite Nat.eqb_refl. lia.
    + destruct (Nat.eqb_spec g (f_this fr)); [congruence|]. rewrite <- tgt_smap, <- E. lia.
  - pose proof (sim_pexec _ _ _ _ _ _ _ m R) as R'.
    destruct (IH _ _ _ _ R') as (T & B & F).
    cbn [ptrace pbad pfinal]. split; [|split].
    + rewrite map_app. rewrite T. f_equal. now apply sim_mev.
    + rewrite B. f_equal. eapply sim_mbad; eauto.
    + intro o. rewrite F. rewrite this_pexec, argkey_pexec. rewrite rest_pexec; auto.
      * apply (r_lt _ _ _ _ _ _ _ R).
      * intros g K. pose proof (r_arg _ _ _ _ _ _ _ R) as A. unfold argkey in K.
        destruct (f_arg fr) as [|g'|g'|q], (f_arg frA); try contradiction; try discriminate.
        inversion K; subst. tauto.
Qed.

(* ------------------------------------------------------------------ every real start state has an abstract configuration *)
Definition abs_slot (k : nat) (s : slot) : slot :=
  match s with SDead => SDead | SLive None => SLive None | SLive (Some _) => SLive (Some k) end.
Definition abs_opt (p : option id) : option id := match p with Some _ => Some 1%nat | None => None end.
Definition abs_cfg (fr : frame) (hs : list slot) (fz : list (option id)) : frame * list slot * list (option id) :=
  let tv := abs_slot 0 (hget hs (f_this fr)) in
  match f_arg fr with
  | ANone => acfg tv ANone (SLive None) []
  | AOwn g => if Nat.eqb g (f_this fr) then acfg tv (AOwn 0) (SLive None) []
              else acfg tv (AOwn 1) (abs_slot 1 (hget hs g)) []
  | AFrozen g => acfg tv (AFrozen 0) (SLive None) [abs_opt (nth g fz None)]
  | ARaw p => acfg tv (ARaw (abs_opt p)) (SLive None) []
  end.
Definition argval (fr : frame) (hs : list slot) (fz : list (option id)) : option id :=
  match f_arg fr with
  | ANone => None
  | AOwn g => slot_tgt (hget hs g)
  | AFrozen g => nth g fz None
  | ARaw p => p
  end.
Definition ren (fr : frame) (hs : list slot) (fz : list (option id)) : id -> id :=
  fun x => match x with
           | O => match slot_tgt (hget hs (f_this fr)) with Some a => a | None => O end
           | S _ => match argval fr hs fz with Some b => b | None => O end
           end.

Lemma cover_rel fr hs fz :
  (f_this fr < length hs)%nat -> (forall g, argkey fr = Some g -> (g < length hs)%nat) ->
  (forall k, f_loc fr k = None) ->
  Rel (ren fr hs fz) (fst (fst (abs_cfg fr hs fz))) (snd (fst (abs_cfg fr hs fz))) (snd (abs_cfg fr hs fz)) fr hs fz.
Proof.
  intros Lh Lg Lo. unfold abs_cfg, argkey in *.
  assert (TH : forall a s1, hget hs (f_this fr) = smap (ren fr hs fz) (hget [abs_slot 0 (hget hs (f_this fr)); s1] a) \/ a <> 0%nat).
  { intros [|a] s1; [left|right; discriminate]. unfold hget at 2. simpl.
    unfold ren. destruct (hget hs (f_this fr)) as [|[x|]]; reflexivity. }
  destruct (f_arg fr) as [|g|g|q] eqn:Ea; [ | destruct (Nat.eqb_spec g (f_this fr)) as [E|N] | | ];
    (constructor; simpl; rewrite ?Ea; auto;
     try (intro k; now rewrite Lo);
     try match goal with |- hget hs _ = smap _ (hget [_; ?s1] 0) => destruct (TH 0%nat s1); [assumption|congruence] end;
     try solve [split; [apply Lg; reflexivity|]; left; auto];
     try solve [split; [apply Lg; reflexivity|]; right; repeat split; auto; unfold hget at 2; simpl;
                unfold ren, argval; rewrite Ea; destruct (hget hs g) as [|[x|]]; reflexivity];
     try solve [unfold ren, argval; rewrite Ea; destruct (nth g fz None); reflexivity];
     try solve [unfold ren, argval; rewrite Ea; destruct q; reflexivity]).
Qed.

Lemma frame_ok_bounds fz m fr hs : frame_ok fz m fr hs ->
  (f_this fr < length hs)%nat /\ (forall g, argkey fr = Some g -> (g < length hs)%nat).
Proof.
  unfold argkey.
  assert (D : is_deadslot hs (f_this fr) = true -> (f_this fr < length hs)%nat) by (intro H; apply deadslot_facts in H; tauto).
  assert (S : src_okP fr hs -> forall g, match f_arg fr with AOwn g0 => Some g0 | _ => None end = Some g -> (g < length hs)%nat).
  { unfold src_okP. destruct (f_arg fr) as [|g0|g0|q0]; intros H g' E; inversion E; subst. now apply is_live_lt. }
  assert (M : mov_okP fr hs -> forall g, match f_arg fr with AOwn g0 => Some g0 | _ => None end = Some g -> (g < length hs)%nat).
  { unfold mov_okP. destruct (f_arg fr) as [|g0|g0|q0]; intros H g' E; inversion E; subst. now apply is_live_lt. }
  assert (Rw : raw_okP fz fr hs -> forall g, match f_arg fr with AOwn g0 => Some g0 | _ => None end = Some g -> (g < length hs)%nat).
  { unfold raw_okP. destruct (f_arg fr) as [|g0|g0|q0]; intros H g' E; try discriminate; contradiction. }
  destruct m; simpl; intros F; try destruct F as [F1 F2]; split; auto; try (now apply is_live_lt);
    try (rewrite F2; discriminate).
Qed.

Lemma cover_in fz m fr hs : frame_ok fz m fr hs -> In (abs_cfg fr hs fz) (acfgs m).
Proof.
  unfold abs_cfg.
  assert (Dd : is_deadslot hs (f_this fr) = true -> hget hs (f_this fr) = SDead) by (intro H; apply deadslot_facts in H; tauto).
  assert (Lv : forall g, is_live hs g = true -> exists p, hget hs g = SLive p).
  { intros g H. unfold is_live in H. destruct (hget hs g) as [|p]; [discriminate|eauto]. }
  destruct m; simpl; intros F; destruct F as [F1 F2].
  - (* dtor *) rewrite F2. destruct (Lv _ F1) as [[x|] ->]; simpl; auto.
  - rewrite F2, (Dd F1). simpl; auto.
  - (* copy ctor *) rewrite (Dd F1). unfold src_okP in F2. destruct (f_arg fr) as [|g|g|q]; try contradiction.
    + destruct (Nat.eqb_spec g (f_this fr)) as [->|N].
      * destruct (Lv _ F2) as [p E]. rewrite (Dd F1) in E. discriminate.
      * destruct (Lv _ F2) as [[x|] ->]; simpl; auto.
    + destruct (nth g fz None); simpl; auto 6.
  - (* move ctor *) rewrite (Dd F1). unfold mov_okP in F2. destruct (f_arg fr) as [|g|g|q]; try contradiction.
    destruct (Nat.eqb_spec g (f_this fr)) as [->|N].
    + destruct (Lv _ F2) as [p E]. rewrite (Dd F1) in E. discriminate.
    + destruct (Lv _ F2) as [[x|] ->]; simpl; auto.
  - (* conv ctor *) rewrite (Dd F1). unfold src_okP in F2. destruct (f_arg fr) as [|g|g|q]; try contradiction.
    + destruct (Nat.eqb_spec g (f_this fr)) as [->|N].
      * destruct (Lv _ F2) as [p E]. rewrite (Dd F1) in E. discriminate.
      * destruct (Lv _ F2) as [[x|] ->]; simpl; auto.
    + destruct (nth g fz None); simpl; auto 6.
  - (* raw ctor *) rewrite (Dd F1). unfold raw_okP in F2. destruct (f_arg fr) as [|g|g|q]; try contradiction.
    destruct q; simpl; auto.
  - (* copy assign *) unfold src_okP in F2. destruct (Lv _ F1) as [[x|] ->]; destruct (f_arg fr) as [|g|g|q]; try contradiction;
      try (destruct (Nat.eqb g (f_this fr)); [simpl; auto 12|destruct (Lv _ F2) as [[y|] ->]; simpl; auto 12]);
      try (destruct (nth g fz None); simpl; auto 12).
  - (* move assign *) unfold mov_okP in F2. destruct (Lv _ F1) as [[x|] ->]; destruct (f_arg fr) as [|g|g|q]; try contradiction;
      (destruct (Nat.eqb g (f_this fr)); [simpl; auto 12|destruct (Lv _ F2) as [[y|] ->]; simpl; auto 12]).
  - (* raw assign *) unfold raw_okP in F2. destruct (Lv _ F1) as [[x|] ->]; destruct (f_arg fr) as [|g|g|q]; try contradiction;
      destruct q; simpl; auto 12.
Qed.

(* ------------------------------------------------------------------ the lifting lemma *)
Lemma list_eqb_true {A} (e : A -> A -> bool) (a b : list A) :
  (forall x y, e x y = true -> x = y) -> list_eqb e a b = true -> a = b.
Proof.
  intro He. revert b; induction a as [|x a IH]; intros [|y b] H; simpl in H; try discriminate; auto.
  apply andb_true_iff in H as [H1 H2]. f_equal; auto.
Qed.

Lemma ev_pair_eqb_true x y : ev_pair_eqb x y = true -> x = y.
Proof.
  destruct x as [b o], y as [b' o']. unfold ev_pair_eqb; simpl. intro H.
  apply andb_true_iff in H as [H1 H2]. apply Bool.eqb_prop in H1. apply Nat.eqb_eq in H2. congruence.
Qed.

Lemma slot_eqb_true x y : slot_eqb x y = true -> x = y.
Proof.
  destruct x as [|[a|]], y as [|[b|]]; simpl; intro H; try discriminate; auto.
  apply Nat.eqb_eq in H. congruence.
Qed.

Lemma contract_at tbl m c : contracts_ok tbl = true -> In c (acfgs m) -> prog_ok model_table tbl m c = true.
Proof.
  unfold contracts_ok. intros H I. rewrite forallb_forall in H.
  assert (Hm : In m all_meths) by (destruct m; simpl; tauto).
  specialize (H m Hm). rewrite forallb_forall in H. now apply H.
Qed.

(* A table that meets the contracts is, on every legal start state, as safe and as balanced as
   the reference table: same RMW trace, nothing outside the model, same final handle counts. *)
Lemma prog_safe_t tbl fz m fr hs :
  contracts_ok tbl = true -> frame_ok fz m fr hs -> (forall k, f_loc fr k = None) ->
  safe fz (prog_of tbl m) fr hs /\ forall o, holdv fz (prog_of tbl m) fr hs o = nh hs o.
Proof.
  intros C F Lo.
  destruct (prog_safe fz m fr hs F) as [Sm Bm].
  destruct (frame_ok_bounds _ _ _ _ F) as [Lh Lg].
  pose proof (cover_rel fr hs fz Lh Lg Lo) as R.
  pose proof (contract_at tbl m _ C (cover_in _ _ _ _ F)) as P.
  destruct (abs_cfg fr hs fz) as [[frA hsA] fzA]. simpl in R. unfold prog_ok in P.
  apply andb_true_iff in P as [P P3]. apply andb_true_iff in P as [P1 P2].
  apply negb_true_iff in P1. apply list_eqb_true in P2; [|apply ev_pair_eqb_true].
  apply list_eqb_true in P3; [|apply slot_eqb_true].
  destruct (sim_run _ _ _ (prog_of tbl m) _ _ _ _ R) as (Tt & Bt & Ft).
  destruct (sim_run _ _ _ (prog_of model_table m) _ _ _ _ R) as (Tm & Bmm & Fm).
  assert (Etr : ptrace fz (prog_of tbl m) fr hs = ptrace fz (prog_of model_table m) fr hs) by (rewrite Tt, Tm, P2; reflexivity).
  assert (Efin : forall o, nh (pfinal fz (prog_of model_table m) fr hs) o = nh (pfinal fz (prog_of tbl m) fr hs) o)
    by (intro o; rewrite Ft, Fm, P3; reflexivity).
  apply safe_trace in Sm. destruct Sm as [_ Sm].
  split.
  - apply safe_trace. split; [rewrite Bt; exact P1|].
    rewrite Etr. eapply tsafe_ext; [exact Efin|exact Sm].
  - intro o. rewrite holdv_trace, Etr, <- Efin, <- holdv_trace. apply Bm.
Qed.

Lemma model_contracts : contracts_ok model_table = true.
Proof. vm_compute. reflexivity. Qed.

(* entering a member of ANY table that meets the contracts preserves the invariant *)
Lemma start_step_t tbl hp fz l1 l2 hs fr0 m fr :
  contracts_ok tbl = true ->
  GInv hp fz (l1 ++ mkT hs [] fr0 :: l2) ->
  frame_ok fz m fr hs -> (forall k, f_loc fr k = None) ->
  (forall o, f_cj fr = Some o -> 1 <= creator (getobj hp o)) ->
  GInv hp fz (l1 ++ mkT hs (prog_of tbl m) fr :: l2).
Proof.
  intros Hc I F Lo C. destruct (prog_safe_t tbl _ _ _ _ Hc F Lo) as [S B].
  pose proof (gi_safe _ _ _ I) as S0. apply Forall_app in S0 as [S1 S2]. inversion S2 as [|? ? _ S3]; subst.
  pose proof (gi_cj _ _ _ I) as C0. apply Forall_app in C0 as [C1 C2]. inversion C2 as [|? ? _ C3]; subst.
  constructor; try apply I.
  - intro o. rewrite (gi_eq _ _ _ I o). rewrite !sum_hold_app. simpl. rewrite !hold_holdv. simpl.
    rewrite B. unfold holdv. simpl. lia.
  - apply Forall_app; split; auto.
  - apply Forall_app; split; auto. constructor; auto. intros _ o E. simpl in E. now apply C.
Qed.
