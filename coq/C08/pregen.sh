#!/bin/bash
# Regenerates gen/Facts.v (micro-operation table of IntrusivePtr's special members + counter facts)
# from the repository working tree, so that the Coq project builds from clean (bin/setup);
# the check does the same on every run.
cd "$(dirname "$0")"
mkdir -p gen
exec python3 ../../props/C08/factgen.py --repo "${VERIF_REPO:-/repo}" --out gen/Facts.v --work ../../build/C08/ast 2>/dev/null
