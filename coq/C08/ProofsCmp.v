(* C08 - comparison operators: an expression over the two ptr fields that agrees with
   ==, !=, < on the three order types of two addresses agrees with them on all addresses. *)
From Common Require Import Prelude.
From C08 Require Import Model.
Local Open Scope Z_scope.

Ltac specs := repeat match goal with
  | |- context[?a =? ?b] => destruct (Z.eqb_spec a b)
  | |- context[?a <? ?b] => destruct (Z.ltb_spec a b)
  | |- context[?a <=? ?b] => destruct (Z.leb_spec a b)
  end; try lia; try reflexivity.

Lemma ceval_ord e x y : cwf e = true ->
  ceval e x y = match x ?= y with Eq => ceval e 0 0 | Lt => ceval e 0 1 | Gt => ceval e 1 0 end.
Proof.
  induction e as [k l r|e IH|]; intro W; simpl in W; try discriminate.
  - destruct l, r; simpl in W; try discriminate;
      destruct (Z.compare_spec x y) as [E|L|G]; destruct k; cbn; specs.
  - simpl. rewrite IH by auto. destruct (x ?= y); reflexivity.
Qed.

Lemma cmp_sound c : cmp_ok c = true -> forall x y,
  ceval (c_eq c) x y = (x =? y) /\ ceval (c_ne c) x y = negb (x =? y) /\ ceval (c_lt c) x y = (x <? y).
Proof.
  unfold cmp_ok. intros H x y.
  repeat (apply andb_true_iff in H; destruct H as [H ?]).
  cbn [forallb cmp_pts fst snd] in *.
  repeat match goal with Hx : _ && _ = true |- _ => apply andb_true_iff in Hx; destruct Hx end.
  repeat match goal with Hx : Bool.eqb _ _ = true |- _ => apply Bool.eqb_prop in Hx end.
  rewrite (ceval_ord (c_eq c) x y), (ceval_ord (c_ne c) x y), (ceval_ord (c_lt c) x y) by assumption.
  destruct (Z.compare_spec x y) as [E|L|G]; repeat split;
    match goal with |- ?l = _ => match goal with Hx : l = _ |- _ => rewrite Hx end end; cbn; specs.
Qed.

(* in the terms of the model: with any injective assignment of addresses to pointer values,
   the extracted expressions compute handle_eq / handle_ne, and < is the address order *)
Lemma cmp_model c : cmp_ok c = true ->
  forall (addr : option id -> Z), (forall p q, addr p = addr q -> p = q) ->
  forall s a b,
    ceval (c_eq c) (addr (handle_ptr s a)) (addr (handle_ptr s b)) = handle_eq s a b /\
    ceval (c_ne c) (addr (handle_ptr s a)) (addr (handle_ptr s b)) = handle_ne s a b /\
    ceval (c_lt c) (addr (handle_ptr s a)) (addr (handle_ptr s b)) = (addr (handle_ptr s a) <? addr (handle_ptr s b)) /\
    a_bool c = true /\ a_arrow c = true /\ a_deref c = true /\ c_mixed c = true.
Proof.
  intros H addr Inj s a b. destruct (cmp_sound c H (addr (handle_ptr s a)) (addr (handle_ptr s b))) as (E & N & L).
  assert (Q : (addr (handle_ptr s a) =? addr (handle_ptr s b)) = handle_eq s a b).
  { unfold handle_eq. destruct (Z.eqb_spec (addr (handle_ptr s a)) (addr (handle_ptr s b))) as [e|n].
    - apply Inj in e. rewrite e. destruct (handle_ptr s b); simpl; auto. symmetry. apply Nat.eqb_refl.
    - destruct (handle_ptr s a) as [u|], (handle_ptr s b) as [v|]; simpl; auto; try congruence.
      destruct (Nat.eqb_spec u v); auto. subst. congruence. }
  rewrite E, N, L. unfold handle_ne. rewrite Q. repeat split; auto.
  all: unfold cmp_ok in H; repeat (apply andb_true_iff in H; destruct H as [H ?]); auto.
Qed.
