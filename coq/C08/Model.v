(* C08 - executable model of rkcommon/memory/IntrusivePtr.h (RefCountedObject + IntrusivePtr<T>).
   Definitions only.

   Every special member of IntrusivePtr is a list of micro-operations in the order the C++
   source has them ([model_table]); a micro-operation is one atomic read-modify-write of a
   reference counter (refInc / refDec), or one store to a handle's [ptr].  The same
   interpreter [mexec] runs
     - a whole member at once (sequential machine [step]), and
     - one micro-operation of one thread per step (concurrent machine [gstep]).
   An RMW on a dead (deleted or never created) object is the error state; a second delete can
   only come from such an RMW, so it is an error state too. *)
From Common Require Import Prelude.
Local Open Scope Z_scope.

Definition id := nat.

(* a handle slot: no IntrusivePtr object exists there / a live IntrusivePtr with its ptr *)
Inductive slot := SDead | SLive (p : option id).
Definition slot_tgt (s : slot) : option id := match s with SLive p => p | SDead => None end.

(* count = refCounter; alive = not yet deleted; creator = creator-side (explicit) references:
   the one every object is born with plus explicit refInc minus explicit refDec *)
Record obj := mkObj { cnt : Z; alive : bool; creator : Z }.
Definition obj0 := mkObj 0 false 0.

Inductive event := EInc (o : id) | EDec (o : id) | EDel (o : id).
Record heap := mkHeap { objs : list obj; err : bool; log : list event }.

Fixpoint upd {A} (l : list A) (n : nat) (x : A) : list A :=
  match l, n with
  | [], _ => []
  | _ :: t, O => x :: t
  | a :: t, S n' => a :: upd t n' x
  end.

Definition getobj (hp : heap) (o : id) : obj := nth o (objs hp) obj0.
Definition hget (hs : list slot) (h : nat) : slot := nth h hs SDead.

(* ---------------------------------------------------------------- micro-operations *)
Inductive pexp := PThis | PArg | PNull | PLoc (k : nat).
Inductive dst := DThis | DArg | DLoc (k : nat).
Inductive mop :=
| MInc (guarded : bool) (p : pexp)     (* [if (p)] p->refInc()   : refCounter++ *)
| MDec (guarded : bool) (p : pexp)     (* [if (p)] p->refDec()   : if (--refCounter == 0) delete this *)
| MStore (d : dst) (p : pexp)          (* d = p *)
| MDead                                (* the handle's lifetime ends (appended to the destructor) *)
| MUnknown.                            (* a statement the fact extractor could not classify *)

(* the argument of a member: none / a handle of the same thread / an entry of the shared
   read-only array / a raw pointer *)
Inductive argv := ANone | AOwn (g : nat) | AFrozen (g : nat) | ARaw (p : option id).
(* f_cj: the object (if any) whose liveness at the start of a raw-pointer member was
   justified only by a creator-side reference (sequential machine only) *)
Record frame := mkFrame { f_this : nat; f_arg : argv; f_loc : nat -> option id; f_cj : option id }.

Definition eval (fz : list (option id)) (fr : frame) (hs : list slot) (p : pexp) : option id :=
  match p with
  | PThis => slot_tgt (hget hs (f_this fr))
  | PArg => match f_arg fr with
            | ANone => None
            | AOwn g => slot_tgt (hget hs g)
            | AFrozen g => nth g fz None
            | ARaw q => q
            end
  | PNull => None
  | PLoc k => f_loc fr k
  end.

(* refCounter++ on object o.  expl: an explicit client call, which also creates a
   creator-side reference *)
Definition rmw_inc (expl : bool) (o : id) (hp : heap) : heap :=
  let ob := getobj hp o in
  if alive ob
  then mkHeap (upd (objs hp) o (mkObj (cnt ob + 1) true (if expl then creator ob + 1 else creator ob)))
              (err hp) (EInc o :: log hp)
  else mkHeap (objs hp) true (log hp).

(* if (--refCounter == 0) delete this : ONE atomic decrement; the value it returned decides *)
Definition rmw_dec (expl : bool) (o : id) (hp : heap) : heap :=
  let ob := getobj hp o in
  if alive ob
  then let c := cnt ob - 1 in
       let cr := if expl then creator ob - 1 else creator ob in
       if c =? 0
       then mkHeap (upd (objs hp) o (mkObj c false cr)) (err hp) (EDel o :: EDec o :: log hp)
       else mkHeap (upd (objs hp) o (mkObj c true cr)) (err hp) (EDec o :: log hp)
  else mkHeap (objs hp) true (log hp).

Definition set_err (hp : heap) : heap := mkHeap (objs hp) true (log hp).

(* pointer part of a micro-operation (thread-local: frame and the thread's own handles) *)
Definition pexec (fz : list (option id)) (m : mop) (fr : frame) (hs : list slot) : frame * list slot :=
  match m with
  | MStore DThis p => (fr, upd hs (f_this fr) (SLive (eval fz fr hs p)))
  | MStore DArg p =>
      match f_arg fr with
      | AOwn g => (fr, upd hs g (SLive (eval fz fr hs p)))
      | ARaw _ => (mkFrame (f_this fr) (ARaw (eval fz fr hs p)) (f_loc fr) (f_cj fr), hs)
      | _ => (fr, hs)
      end
  | MStore (DLoc k) p =>
      let v := eval fz fr hs p in
      (mkFrame (f_this fr) (f_arg fr) (fun j => if Nat.eqb j k then v else f_loc fr j) (f_cj fr), hs)
  | MDead => (fr, upd hs (f_this fr) SDead)
  | _ => (fr, hs)
  end.

(* heap part of a micro-operation, computed in the state before it *)
Definition hexec (fz : list (option id)) (m : mop) (fr : frame) (hs : list slot) (hp : heap) : heap :=
  match m with
  | MInc g p => match eval fz fr hs p with
                | Some o => rmw_inc false o hp
                | None => if g then hp else set_err hp      (* call through a null pointer *)
                end
  | MDec g p => match eval fz fr hs p with
                | Some o => rmw_dec false o hp
                | None => if g then hp else set_err hp
                end
  | MStore DArg _ => match f_arg fr with
                     | AOwn _ | ARaw _ => hp
                     | _ => set_err hp                      (* store through a const reference *)
                     end
  | MUnknown => set_err hp
  | _ => hp
  end.

Definition mexec (fz : list (option id)) (m : mop) (c : frame * list slot * heap) : frame * list slot * heap :=
  let '(fr, hs, hp) := c in
  let '(fr', hs') := pexec fz m fr hs in
  (fr', hs', hexec fz m fr hs hp).

Fixpoint run_prog (fz : list (option id)) (p : list mop) (c : frame * list slot * heap) : frame * list slot * heap :=
  match p with
  | [] => c
  | m :: p' => run_prog fz p' (mexec fz m c)
  end.

(* ---------------------------------------------------------------- the member table *)
Inductive meth := MDtor | MDefCtor | MCopyCtor | MMoveCtor | MConvCtor | MRawCtor
                | MCopyAssign | MMoveAssign | MRawAssign.
Definition all_meths := [MDtor; MDefCtor; MCopyCtor; MMoveCtor; MConvCtor; MRawCtor; MCopyAssign; MMoveAssign; MRawAssign].

(* IntrusivePtr.h:86-155, statement by statement *)
Definition model_table (m : meth) : list mop :=
  match m with
  | MDtor       => [MDec true PThis]                                         (* if (ptr) ptr->refDec(); *)
  | MDefCtor    => [MStore DThis PNull]                                      (* T *ptr{nullptr}; *)
  | MCopyCtor   => [MStore DThis PArg; MInc true PThis]                      (* : ptr(input.ptr) { if (ptr) ptr->refInc(); } *)
  | MMoveCtor   => [MStore DThis PArg; MStore DArg PNull]                    (* : ptr(input.ptr) { input.ptr = nullptr; } *)
  | MConvCtor   => [MStore DThis PArg; MInc true PThis]
  | MRawCtor    => [MStore DThis PArg; MInc true PThis]                      (* : ptr(input) { if (ptr) ptr->refInc(); } *)
  | MCopyAssign => [MInc true PArg; MDec true PThis; MStore DThis PArg]      (* inc new; dec old; ptr = input.ptr *)
  | MMoveAssign => [MDec true PThis; MStore DThis PArg; MStore DArg PNull]   (* dec old; ptr = input.ptr; input.ptr = nullptr *)
  | MRawAssign  => [MInc true PArg; MDec true PThis; MStore DThis PArg]
  end.

(* facts about RefCountedObject that the semantics of MInc/MDec above relies on *)
Record rcfacts := mkRc {
  rc_atomic : bool;        (* refCounter is a std::atomic<integral> *)
  rc_init_one : bool;      (* initialised to 1 *)
  rc_inc_single : bool;    (* refInc: exactly one ++ (RMW) of refCounter, nothing else *)
  rc_dec_single : bool;    (* refDec: exactly one -- (RMW) of refCounter ... *)
  rc_dec_own_result : bool;(* ... whose own result is compared with 0 ... *)
  rc_dec_deletes : bool;   (* ... and exactly that comparison guards `delete this` *)
  rc_use_load : bool;      (* useCount returns the counter's value *)
  rc_width64 : bool        (* the counter's value type is a 64-bit signed integer (long long / long / int64_t) *)
}.
Definition model_rc := mkRc true true true true true true true true.

Definition prog_of (tbl : meth -> list mop) (m : meth) : list mop :=
  match m with MDtor => tbl m ++ [MDead] | _ => tbl m end.

(* ---------------------------------------------------------------- sequential machine *)
Inductive op :=
| Create
| DefCtor (h : nat) | CopyCtor (h g : nat) | MoveCtor (h g : nat) | ConvCtor (h g : nat)
| RawCtor (h : nat) (p : option id) | Dtor (h : nat)
| CopyAssign (h g : nat) | MoveAssign (h g : nat) | RawAssign (h : nat) (p : option id)
| RefInc (o : id) | RefDec (o : id)
| ConvMoveCtor (h g : nat).   (* IntrusivePtr<T> x(std::move(y)) with y an IntrusivePtr<O>, O another type *)

Record sstate := mkS { s_heap : heap; s_hs : list slot }.
Definition init (nh : nat) : sstate := mkS (mkHeap [] false []) (repeat SDead nh).

Definition is_live (hs : list slot) (h : nat) : bool :=
  match hget hs h with SLive _ => true | SDead => false end.
Definition is_deadslot (hs : list slot) (h : nat) : bool :=
  (Nat.ltb h (length hs)) && negb (is_live hs h).
Definition ptr_ok (hp : heap) (p : option id) : bool :=
  match p with None => true | Some o => alive (getobj hp o) end.

(* the client's side of the contract: handles are used within their lifetime, raw pointers
   point at live objects, explicit refDec only releases a creator-side reference that exists *)
Definition legal (s : sstate) (o : op) : bool :=
  let hs := s_hs s in let hp := s_heap s in
  match o with
  | Create => true
  | DefCtor h => is_deadslot hs h
  | CopyCtor h g | MoveCtor h g | ConvCtor h g => is_deadslot hs h && is_live hs g
  | RawCtor h p => is_deadslot hs h && ptr_ok hp p
  | Dtor h => is_live hs h
  | CopyAssign h g | MoveAssign h g => is_live hs h && is_live hs g
  | RawAssign h p => is_live hs h && ptr_ok hp p
  | RefInc o => alive (getobj hp o)
  | RefDec o => alive (getobj hp o) && (1 <=? creator (getobj hp o))
  | ConvMoveCtor h g => is_deadslot hs h && is_live hs g
  end.

Definition no_loc : nat -> option id := fun _ => None.
Definition cj_of (hp : heap) (p : option id) : option id :=
  match p with Some o => if 1 <=? creator (getobj hp o) then Some o else None | None => None end.

Definition call (tbl : meth -> list mop) (m : meth) (h : nat) (a : argv) (cj : option id) (s : sstate) : sstate :=
  let '(_, hs, hp) := run_prog [] (prog_of tbl m) (mkFrame h a no_loc cj, s_hs s, s_heap s) in
  mkS hp hs.

(* executes the member whatever the state (faithful, unguarded) *)
Definition exec_op (tbl : meth -> list mop) (s : sstate) (o : op) : sstate :=
  let hp := s_heap s in
  match o with
  | Create => mkS (mkHeap (objs hp ++ [mkObj 1 true 1]) (err hp) (log hp)) (s_hs s)
  | DefCtor h => call tbl MDefCtor h ANone None s
  | CopyCtor h g => call tbl MCopyCtor h (AOwn g) None s
  | MoveCtor h g => call tbl MMoveCtor h (AOwn g) None s
  | ConvCtor h g => call tbl MConvCtor h (AOwn g) None s
  | RawCtor h p => call tbl MRawCtor h (ARaw p) (cj_of hp p) s
  | Dtor h => call tbl MDtor h ANone None s
  | CopyAssign h g => call tbl MCopyAssign h (AOwn g) None s
  | MoveAssign h g => call tbl MMoveAssign h (AOwn g) None s
  | RawAssign h p => call tbl MRawAssign h (ARaw p) (cj_of hp p) s
  | RefInc o => mkS (rmw_inc true o hp) (s_hs s)
  | RefDec o => mkS (rmw_dec true o hp) (s_hs s)
  (* no converting move constructor is declared: overload resolution selects the converting
     copy constructor (const IntrusivePtr<O>&), the source keeps its reference *)
  | ConvMoveCtor h g => call tbl MConvCtor h (AOwn g) None s
  end.

(* a call outside the client's contract is rejected (visible to the differential run) *)
Definition step_t (tbl : meth -> list mop) (s : sstate) (o : op) : sstate * bool :=
  if legal s o then (exec_op tbl s o, true) else (s, false).
Definition run_from_t (tbl : meth -> list mop) (s : sstate) (l : list op) : sstate :=
  fold_left (fun s o => fst (step_t tbl s o)) l s.
Definition run_t (tbl : meth -> list mop) (nh : nat) (l : list op) : sstate := run_from_t tbl (init nh) l.

Definition step := step_t model_table.
Definition run_from := run_from_t model_table.
Definition run := run_t model_table.

(* observations *)
Definition use_count (s : sstate) (o : id) : Z := cnt (getobj (s_heap s) o).
Definition is_alive (s : sstate) (o : id) : bool := alive (getobj (s_heap s) o).
Definition oid_eqb (a b : option id) : bool :=
  match a, b with
  | None, None => true
  | Some x, Some y => Nat.eqb x y
  | _, _ => false
  end.
Definition handle_ptr (s : sstate) (h : nat) : option id := slot_tgt (hget (s_hs s) h).
Definition handle_eq (s : sstate) (a b : nat) : bool := oid_eqb (handle_ptr s a) (handle_ptr s b).   (* operator== *)
Definition handle_ne (s : sstate) (a b : nat) : bool := negb (handle_eq s a b).                       (* operator!= *)

Definition ind (p : option id) (o : id) : Z :=
  match p with Some o' => if Nat.eqb o' o then 1 else 0 | None => 0 end.
Fixpoint nh (hs : list slot) (o : id) : Z :=
  match hs with [] => 0 | s :: t => ind (slot_tgt s) o + nh t o end.
Fixpoint nhz (fz : list (option id)) (o : id) : Z :=
  match fz with [] => 0 | p :: t => ind p o + nhz t o end.
Fixpoint dels (l : list event) (o : id) : Z :=
  match l with
  | [] => 0
  | EDel o' :: t => (if Nat.eqb o' o then 1 else 0) + dels t o
  | _ :: t => dels t o
  end.

(* ---------------------------------------------------------------- concurrent machine *)
(* Every thread owns its handles (t_hs); t_rem is what is left of the member it is executing. *)
Record thread := mkT { t_hs : list slot; t_rem : list mop; t_fr : frame }.
Record gstate := mkG { g_heap : heap; g_fz : list (option id); g_ths : list thread }.

Inductive src := SOwn (g : nat) | SFz (g : nat).
Definition src_arg (a : src) : argv := match a with SOwn g => AOwn g | SFz g => AFrozen g end.
Definition src_ptr (fz : list (option id)) (hs : list slot) (a : src) : option id :=
  match a with SOwn g => slot_tgt (hget hs g) | SFz g => nth g fz None end.
Definition src_live (fz : list (option id)) (hs : list slot) (a : src) : bool :=
  match a with SOwn g => is_live hs g | SFz g => Nat.ltb g (length fz) end.

Inductive top :=
| TDefCtor (h : nat) | TCopyCtor (h : nat) (a : src) | TMoveCtor (h g : nat) | TConvCtor (h : nat) (a : src)
| TRawCtor (h : nat) (a : src)          (* IntrusivePtr<T> x(a.ptr)  *)
| TDtor (h : nat)
| TCopyAssign (h : nat) (a : src) | TMoveAssign (h g : nat)
| TRawAssign (h : nat) (a : src).       (* x = a.ptr *)

Inductive label :=
| LStart (t : nat) (o : top)            (* thread t (idle) enters a member *)
| LMicro (t : nat)                      (* thread t performs its next micro-operation *)
| LRefInc (t : nat) (a : src)           (* a.ptr->refInc(), one atomic step *)
| LRefDec (t : nat) (o : id).           (* o->refDec() on a creator-side reference, one atomic step *)

Definition top_legal (fz : list (option id)) (hs : list slot) (o : top) : bool :=
  match o with
  | TDefCtor h => is_deadslot hs h
  | TCopyCtor h a | TConvCtor h a | TRawCtor h a => is_deadslot hs h && src_live fz hs a
  | TMoveCtor h g => is_deadslot hs h && is_live hs g
  | TDtor h => is_live hs h
  | TCopyAssign h a | TRawAssign h a => is_live hs h && src_live fz hs a
  | TMoveAssign h g => is_live hs h && is_live hs g
  end.

Definition top_frame (fz : list (option id)) (hs : list slot) (o : top) : meth * frame :=
  match o with
  | TDefCtor h => (MDefCtor, mkFrame h ANone no_loc None)
  | TCopyCtor h a => (MCopyCtor, mkFrame h (src_arg a) no_loc None)
  | TConvCtor h a => (MConvCtor, mkFrame h (src_arg a) no_loc None)
  | TMoveCtor h g => (MMoveCtor, mkFrame h (AOwn g) no_loc None)
  | TRawCtor h a => (MRawCtor, mkFrame h (ARaw (src_ptr fz hs a)) no_loc None)
  | TDtor h => (MDtor, mkFrame h ANone no_loc None)
  | TCopyAssign h a => (MCopyAssign, mkFrame h (src_arg a) no_loc None)
  | TMoveAssign h g => (MMoveAssign, mkFrame h (AOwn g) no_loc None)
  | TRawAssign h a => (MRawAssign, mkFrame h (ARaw (src_ptr fz hs a)) no_loc None)
  end.

Definition is_nil {A} (l : list A) : bool := match l with [] => true | _ => false end.

Definition gstep_t (tbl : meth -> list mop) (g : gstate) (l : label) : gstate :=
  let fz := g_fz g in
  match l with
  | LStart t o =>
      match nth_error (g_ths g) t with
      | Some th =>
          if is_nil (t_rem th) && top_legal fz (t_hs th) o
          then let '(m, fr) := top_frame fz (t_hs th) o in
               mkG (g_heap g) fz (upd (g_ths g) t (mkT (t_hs th) (prog_of tbl m) fr))
          else g
      | None => g
      end
  | LMicro t =>
      match nth_error (g_ths g) t with
      | Some th =>
          match t_rem th with
          | m :: rem =>
              let '(fr', hs', hp') := mexec fz m (t_fr th, t_hs th, g_heap g) in
              mkG hp' fz (upd (g_ths g) t (mkT hs' rem fr'))
          | [] => g
          end
      | None => g
      end
  | LRefInc t a =>
      match nth_error (g_ths g) t with
      | Some th =>
          match src_ptr fz (t_hs th) a with
          | Some o => if is_nil (t_rem th) && src_live fz (t_hs th) a
                      then mkG (rmw_inc true o (g_heap g)) fz (g_ths g) else g
          | None => g
          end
      | None => g
      end
  | LRefDec t o =>
      match nth_error (g_ths g) t with
      | Some _ => if alive (getobj (g_heap g) o) && (1 <=? creator (getobj (g_heap g) o))
                  then mkG (rmw_dec true o (g_heap g)) fz (g_ths g) else g
      | None => g
      end
  end.

Definition grun_t (tbl : meth -> list mop) (g : gstate) (sched : list label) : gstate := fold_left (gstep_t tbl) sched g.
Definition gstep := gstep_t model_table.
Definition grun := grun_t model_table.

(* start of the concurrent phase: the handles built by a sequential history become the shared
   read-only array; n threads, each with k (dead) handle slots of its own *)
Definition ginit (s : sstate) (n k : nat) : gstate :=
  mkG (s_heap s) (map slot_tgt (s_hs s)) (repeat (mkT (repeat SDead k) [] (mkFrame 0 ANone no_loc None)) n).

(* transient references of a thread on o: what the rest of its member will still release
   (after Inc new, before the store: +1; a handle that already points at o before the
   matching count exists, as in the middle of a move: -1).
   hold = own handles + transients = handles at the end of the member - increments still to come. *)
Fixpoint rem_incs (fz : list (option id)) (rem : list mop) (fr : frame) (hs : list slot) (o : id) : Z :=
  match rem with
  | [] => 0
  | m :: r =>
      (match m with
       | MInc _ p => ind (eval fz fr hs p) o
       | MDec _ p => - ind (eval fz fr hs p) o
       | _ => 0
       end) + let '(fr', hs') := pexec fz m fr hs in rem_incs fz r fr' hs' o
  end.
Fixpoint final_hs (fz : list (option id)) (rem : list mop) (fr : frame) (hs : list slot) : list slot :=
  match rem with
  | [] => hs
  | m :: r => let '(fr', hs') := pexec fz m fr hs in final_hs fz r fr' hs'
  end.
Definition hold (fz : list (option id)) (th : thread) (o : id) : Z :=
  nh (final_hs fz (t_rem th) (t_fr th) (t_hs th)) o - rem_incs fz (t_rem th) (t_fr th) (t_hs th) o.
Definition transients (fz : list (option id)) (th : thread) (o : id) : Z := hold fz th o - nh (t_hs th) o.
Fixpoint sum_hold (fz : list (option id)) (ths : list thread) (o : id) : Z :=
  match ths with [] => 0 | th :: r => hold fz th o + sum_hold fz r o end.
Fixpoint sum_handles (ths : list thread) (o : id) : Z :=
  match ths with [] => 0 | th :: r => nh (t_hs th) o + sum_handles r o end.
Fixpoint sum_trans (fz : list (option id)) (ths : list thread) (o : id) : Z :=
  match ths with [] => 0 | th :: r => transients fz th o + sum_trans fz r o end.

(* ---------------------------------------------------------------- source-derived facts *)
Definition ev_eqb (a b : event) : bool :=
  match a, b with
  | EInc x, EInc y | EDec x, EDec y | EDel x, EDel y => Nat.eqb x y
  | _, _ => false
  end.
Fixpoint list_eqb {A} (e : A -> A -> bool) (a b : list A) : bool :=
  match a, b with
  | [], [] => true
  | x :: a', y :: b' => e x y && list_eqb e a' b'
  | _, _ => false
  end.
Definition slot_eqb (a b : slot) : bool :=
  match a, b with
  | SDead, SDead => true
  | SLive p, SLive q => oid_eqb p q
  | _, _ => false
  end.

(* ---------------------------------------------------------------- per-member contracts *)
(* What a member does, seen from the thread alone (no heap): the counter RMWs it issues, in
   order, with their targets; whether it does something outside the model (call through null
   without a test, store through a const reference, unclassified statement); its final handles. *)
Definition mev (fz : list (option id)) (m : mop) (fr : frame) (hs : list slot) : list (bool * id) :=
  match m with
  | MInc _ p => match eval fz fr hs p with Some o => [(true, o)] | None => [] end
  | MDec _ p => match eval fz fr hs p with Some o => [(false, o)] | None => [] end
  | _ => []
  end.
Fixpoint ptrace (fz : list (option id)) (rem : list mop) (fr : frame) (hs : list slot) : list (bool * id) :=
  match rem with
  | [] => []
  | m :: r => mev fz m fr hs ++ ptrace fz r (fst (pexec fz m fr hs)) (snd (pexec fz m fr hs))
  end.
Definition mbad (fz : list (option id)) (m : mop) (fr : frame) (hs : list slot) : bool :=
  match m with
  | MInc g p | MDec g p => match eval fz fr hs p with Some _ => false | None => negb g end
  | MStore DArg _ => match f_arg fr with AOwn _ | ARaw _ => false | _ => true end
  | MUnknown => true
  | _ => false
  end.
Fixpoint pbad (fz : list (option id)) (rem : list mop) (fr : frame) (hs : list slot) : bool :=
  match rem with
  | [] => false
  | m :: r => mbad fz m fr hs || pbad fz r (fst (pexec fz m fr hs)) (snd (pexec fz m fr hs))
  end.
Fixpoint pfinal (fz : list (option id)) (rem : list mop) (fr : frame) (hs : list slot) : list slot :=
  match rem with
  | [] => hs
  | m :: r => pfinal fz r (fst (pexec fz m fr hs)) (snd (pexec fz m fr hs))
  end.

(* abstract configurations: receiver slot 0 (no handle yet / null / object 0); argument: none,
   another handle (slot 1: null / object 1), the receiver itself, a shared entry, a raw pointer.
   Object names are irrelevant to a member (it never compares or inspects them), so "argument
   = the receiver's object" is the renaming 1 -> 0 of a listed configuration. *)
Definition acfg (tv : slot) (a : argv) (s1 : slot) (fz : list (option id)) : frame * list slot * list (option id) :=
  (mkFrame 0 a no_loc None, [tv; s1], fz).
Definition acfgs_src (tv : slot) : list (frame * list slot * list (option id)) :=
  [acfg tv (AOwn 1) (SLive None) []; acfg tv (AOwn 1) (SLive (Some 1%nat)) [];
   acfg tv (AFrozen 0) (SLive None) [None]; acfg tv (AFrozen 0) (SLive None) [Some 1%nat]].
Definition acfgs_mov (tv : slot) : list (frame * list slot * list (option id)) :=
  [acfg tv (AOwn 1) (SLive None) []; acfg tv (AOwn 1) (SLive (Some 1%nat)) []].
Definition acfgs_raw (tv : slot) : list (frame * list slot * list (option id)) :=
  [acfg tv (ARaw None) (SLive None) []; acfg tv (ARaw (Some 1%nat)) (SLive None) []].
Definition acfgs (m : meth) : list (frame * list slot * list (option id)) :=
  let lv := [SLive None; SLive (Some 0%nat)] in
  match m with
  | MDtor => map (fun tv => acfg tv ANone (SLive None) []) lv
  | MDefCtor => [acfg SDead ANone (SLive None) []]
  | MCopyCtor | MConvCtor => acfgs_src SDead
  | MMoveCtor => acfgs_mov SDead
  | MRawCtor => acfgs_raw SDead
  | MCopyAssign => flat_map (fun tv => acfg tv (AOwn 0) (SLive None) [] :: acfgs_src tv) lv
  | MMoveAssign => flat_map (fun tv => acfg tv (AOwn 0) (SLive None) [] :: acfgs_mov tv) lv
  | MRawAssign => flat_map acfgs_raw lv
  end.

Definition ev_pair_eqb (a b : bool * id) : bool := Bool.eqb (fst a) (fst b) && Nat.eqb (snd a) (snd b).
(* the contract of member m on configuration c, relative to the reference row [ref m]:
   nothing outside the model, the same RMWs on the same targets in the same order, the same
   final pointers *)
Definition prog_ok (ref tbl : meth -> list mop) (m : meth) (c : frame * list slot * list (option id)) : bool :=
  let '(fr, hs, fz) := c in
  negb (pbad fz (prog_of tbl m) fr hs) &&
  list_eqb ev_pair_eqb (ptrace fz (prog_of tbl m) fr hs) (ptrace fz (prog_of ref m) fr hs) &&
  list_eqb slot_eqb (pfinal fz (prog_of tbl m) fr hs) (pfinal fz (prog_of ref m) fr hs).
Definition contracts_ok (tbl : meth -> list mop) : bool :=
  forallb (fun m => forallb (prog_ok model_table tbl m) (acfgs m)) all_meths.

(* the abstract configurations a member can distinguish: receiver null / A; argument
   null / A / B, as another handle, as the receiver itself, as a shared entry, as a raw pointer *)
Definition cfg_heap : heap := mkHeap [mkObj 5 true 5; mkObj 5 true 5] false [].
Definition this_vals (m : meth) : list slot :=
  match m with
  | MDefCtor | MCopyCtor | MMoveCtor | MConvCtor | MRawCtor => [SDead]
  | _ => [SLive None; SLive (Some 0%nat)]
  end.
Definition arg_vals : list (option id) := [None; Some 0%nat; Some 1%nat].
Definition cfgs (m : meth) : list (frame * list slot * list (option id)) :=
  flat_map (fun tv =>
    match m with
    | MDtor | MDefCtor => [(mkFrame 0 ANone no_loc None, [tv; SLive (Some 1%nat)], [])]
    | MCopyCtor | MConvCtor =>
        flat_map (fun av => [(mkFrame 0 (AOwn 1) no_loc None, [tv; SLive av], []);
                             (mkFrame 0 (AFrozen 0) no_loc None, [tv; SLive None], [av])]) arg_vals
    | MCopyAssign =>
        (mkFrame 0 (AOwn 0) no_loc None, [tv; SLive None], []) ::
        flat_map (fun av => [(mkFrame 0 (AOwn 1) no_loc None, [tv; SLive av], []);
                             (mkFrame 0 (AFrozen 0) no_loc None, [tv; SLive None], [av])]) arg_vals
    | MMoveCtor => map (fun av => (mkFrame 0 (AOwn 1) no_loc None, [tv; SLive av], [])) arg_vals
    | MMoveAssign =>
        (mkFrame 0 (AOwn 0) no_loc None, [tv; SLive None], []) ::
        map (fun av => (mkFrame 0 (AOwn 1) no_loc None, [tv; SLive av], [])) arg_vals
    | MRawCtor | MRawAssign => map (fun av => (mkFrame 0 (ARaw av) no_loc None, [tv; SLive None], [])) arg_vals
    end) (this_vals m).

(* what a member does on a configuration: the RMW events in order, the final handles, error *)
Definition outcome (prog : list mop) (c : frame * list slot * list (option id)) : list event * list slot * bool :=
  let '(fr, hs, fz) := c in
  let '(_, hs', hp') := run_prog fz prog (fr, hs, cfg_heap) in
  (log hp', hs', err hp').
Definition outcome_eqb (a b : list event * list slot * bool) : bool :=
  let '(la, ha, ea) := a in let '(lb, hb, eb) := b in
  list_eqb ev_eqb la lb && list_eqb slot_eqb ha hb && Bool.eqb ea eb.

Definition meth_ok (gen : meth -> list mop) (m : meth) : bool :=
  forallb (fun c => outcome_eqb (outcome (gen m) c) (outcome (model_table m) c)) (cfgs m).
Definition rc_ok (r : rcfacts) : bool :=
  rc_atomic r && rc_init_one r && rc_inc_single r && rc_dec_single r && rc_dec_own_result r &&
  rc_dec_deletes r && rc_use_load r && rc_width64 r.
Definition check (gen : meth -> list mop) (r : rcfacts) : bool :=
  forallb (meth_ok gen) all_meths && rc_ok r.
(* first member whose generated program differs, for the report *)
Definition failing_meths (gen : meth -> list mop) : list meth :=
  filter (fun m => negb (meth_ok gen m)) all_meths.

(* ---------------------------------------------------------------- comparison operators and accessors *)
(* operator== / != / < as expressions over the two handles' ptr fields (x = a.ptr, y = b.ptr,
   read as addresses); operator bool / -> / * as three facts *)
(* CA / CB: a.ptr / b.ptr, compared as pointers (with the usual conversion to a common base
   type, which adjusts a derived pointer to the base subobject); CAvoid / CBvoid: the same
   operand cast to void*, which drops the static type and with it that adjustment *)
Inductive cside := CA | CB | CAvoid | CBvoid.
Inductive ckind := KEq | KNe | KLt | KLe | KGt | KGe.
Inductive cexp := CCmp (k : ckind) (l r : cside) | CNot (e : cexp) | CUnk.
Definition cside_val (x y : Z) (s : cside) : Z := match s with CA | CAvoid => x | CB | CBvoid => y end.
Definition cside_plain (s : cside) : bool := match s with CA | CB => true | _ => false end.
Fixpoint ceval (e : cexp) (x y : Z) : bool :=
  match e with
  | CCmp k l r =>
      let a := cside_val x y l in let b := cside_val x y r in
      match k with
      | KEq => a =? b | KNe => negb (a =? b) | KLt => a <? b | KLe => a <=? b | KGt => b <? a | KGe => b <=? a
      end
  | CNot e' => negb (ceval e' x y)
  | CUnk => false
  end.
Fixpoint cwf (e : cexp) : bool :=
  match e with CUnk => false | CNot e' => cwf e' | CCmp _ l r => cside_plain l && cside_plain r end.
Record cmpfacts := mkCmp {
  c_eq : cexp; c_ne : cexp; c_lt : cexp;
  a_bool : bool;      (* operator bool returns ptr != nullptr *)
  a_arrow : bool;     (* operator-> returns ptr *)
  a_deref : bool;     (* operator* returns *ptr *)
  c_mixed : bool      (* a comparison of handles of different related types (IntrusivePtr<Base> with
                         IntrusivePtr<Derived>, either order) resolves to these operators, not to a
                         built-in comparison of the two handles' operator bool() *)
}.
Definition model_cmp := mkCmp (CCmp KEq CA CB) (CCmp KNe CA CB) (CCmp KLt CA CB) true true true true.
Definition cmp_pts : list (Z * Z) := [(0, 0); (0, 1); (1, 0)].
Definition cmp_ok (c : cmpfacts) : bool :=
  cwf (c_eq c) && cwf (c_ne c) && cwf (c_lt c) &&
  forallb (fun p => Bool.eqb (ceval (c_eq c) (fst p) (snd p)) (fst p =? snd p) &&
                    Bool.eqb (ceval (c_ne c) (fst p) (snd p)) (negb (fst p =? snd p)) &&
                    Bool.eqb (ceval (c_lt c) (fst p) (snd p)) (fst p <? snd p)) cmp_pts &&
  a_bool c && a_arrow c && a_deref c && c_mixed c.

(* ---------------------------------------------------------------- declared members and overload resolution *)
(* every constructor / destructor / assignment operator / conversion operator / other method
   declared in IntrusivePtr<T> and RefCountedObject; DOther = a declaration the model does not know *)
Inductive mdecl :=
| DDefCtor | DDtor | DCopyCtor | DMoveCtor | DConvCopyCtorT | DRawCtor
| DCopyAssign | DMoveAssign | DRawAssign | DOpBool | DOpStar | DOpArrow | DFieldPtr
| DRcDefCtor | DRcVirtDtor | DRcDeletedCopy (n : nat) | DRefInc | DRefDec | DUseCount | DFieldCounter
| DOther (n : nat).
Definition mdecl_eqb (a b : mdecl) : bool :=
  match a, b with
  | DDefCtor, DDefCtor | DDtor, DDtor | DCopyCtor, DCopyCtor | DMoveCtor, DMoveCtor
  | DConvCopyCtorT, DConvCopyCtorT | DRawCtor, DRawCtor | DCopyAssign, DCopyAssign
  | DMoveAssign, DMoveAssign | DRawAssign, DRawAssign | DOpBool, DOpBool | DOpStar, DOpStar
  | DOpArrow, DOpArrow | DFieldPtr, DFieldPtr | DRcDefCtor, DRcDefCtor | DRcVirtDtor, DRcVirtDtor
  | DRefInc, DRefInc | DRefDec, DRefDec | DUseCount, DUseCount | DFieldCounter, DFieldCounter => true
  | DRcDeletedCopy n, DRcDeletedCopy n' => Nat.eqb n n'
  | _, _ => false
  end.
Definition model_members : list mdecl :=
  [DFieldPtr; DDefCtor; DDtor; DCopyCtor; DMoveCtor; DConvCopyCtorT; DRawCtor;
   DCopyAssign; DMoveAssign; DRawAssign; DOpBool; DOpStar; DOpArrow;
   DFieldCounter; DRcDefCtor; DRcVirtDtor; DRcDeletedCopy 4; DRefInc; DRefDec; DUseCount].
Definition members_ok (l : list mdecl) : bool := list_eqb mdecl_eqb l model_members.

(* the call forms the machines (and the harness) perform, and which declared member overload
   resolution selects for each; via = how the argument reaches the selected member *)
Inductive cform :=
| FDef | FCopyL | FMoveR | FConvL | FConvR | FConvTemp | FRawC | FDtorF
| FAssignL | FAssignR | FAssignRaw | FAssignConvL | FAssignConvR
| FRawNull | FAssignNull.      (* IntrusivePtr<T> x(nullptr);  x = nullptr;  with the literal *)
Inductive via := VDirect | VTemp (m : meth) | VUnknown.
Definition all_cforms := [FDef; FCopyL; FMoveR; FConvL; FConvR; FConvTemp; FRawC; FDtorF;
                          FAssignL; FAssignR; FAssignRaw; FAssignConvL; FAssignConvR; FRawNull; FAssignNull].
Definition model_sel (f : cform) : option meth * via :=
  match f with
  | FDef => (Some MDefCtor, VDirect)
  | FCopyL => (Some MCopyCtor, VDirect)
  | FMoveR => (Some MMoveCtor, VDirect)
  | FConvL => (Some MConvCtor, VDirect)
  | FConvR => (Some MConvCtor, VDirect)            (* rvalue of another handle type binds to const IntrusivePtr<O>& *)
  | FConvTemp => (Some MConvCtor, VDirect)         (* IntrusivePtr<T> x = IntrusivePtr<O>(p) *)
  | FRawC => (Some MRawCtor, VDirect)
  | FDtorF => (Some MDtor, VDirect)
  | FAssignL => (Some MCopyAssign, VDirect)
  | FAssignR => (Some MMoveAssign, VDirect)
  | FAssignRaw => (Some MRawAssign, VDirect)
  | FAssignConvL => (Some MMoveAssign, VTemp MConvCtor)   (* x = y, y of another handle type: temporary by the converting ctor *)
  | FAssignConvR => (Some MMoveAssign, VTemp MConvCtor)
  | FRawNull => (Some MRawCtor, VDirect)             (* nullptr_t -> T* is a standard conversion: the raw-pointer members win *)
  | FAssignNull => (Some MRawAssign, VDirect)
  end.
Definition meth_eqb (a b : meth) : bool :=
  match a, b with
  | MDtor, MDtor | MDefCtor, MDefCtor | MCopyCtor, MCopyCtor | MMoveCtor, MMoveCtor | MConvCtor, MConvCtor
  | MRawCtor, MRawCtor | MCopyAssign, MCopyAssign | MMoveAssign, MMoveAssign | MRawAssign, MRawAssign => true
  | _, _ => false
  end.
Definition sel_eqb (a b : option meth * via) : bool :=
  (match fst a, fst b with Some x, Some y => meth_eqb x y | _, _ => false end) &&
  (match snd a, snd b with
   | VDirect, VDirect => true
   | VTemp x, VTemp y => meth_eqb x y
   | _, _ => false
   end).
Definition sel_ok (sel : cform -> option meth * via) : bool :=
  forallb (fun f => sel_eqb (sel f) (model_sel f)) all_cforms.

(* the sequential machine with every operation dispatched through a selection table: the
   member run for an operation is the one overload resolution selects for its call form *)
Definition form_of (o : op) : option cform :=
  match o with
  | Create | RefInc _ | RefDec _ => None
  | DefCtor _ => Some FDef | CopyCtor _ _ => Some FCopyL | MoveCtor _ _ => Some FMoveR
  | ConvCtor _ _ => Some FConvL | ConvMoveCtor _ _ => Some FConvR | RawCtor _ _ => Some FRawC
  | Dtor _ => Some FDtorF | CopyAssign _ _ => Some FAssignL | MoveAssign _ _ => Some FAssignR
  | RawAssign _ _ => Some FAssignRaw
  end.
Definition op_this_arg (hp : heap) (o : op) : nat * argv * option id :=
  match o with
  | DefCtor h | Dtor h => (h, ANone, None)
  | CopyCtor h g | MoveCtor h g | ConvCtor h g | ConvMoveCtor h g | CopyAssign h g | MoveAssign h g => (h, AOwn g, None)
  | RawCtor h p | RawAssign h p => (h, ARaw p, cj_of hp p)
  | _ => (O, ANone, None)
  end.
Definition exec_op_s (sel : cform -> option meth * via) (tbl : meth -> list mop) (s : sstate) (o : op) : sstate :=
  match form_of o with
  | None => exec_op tbl s o
  | Some f =>
      match fst (sel f) with
      | Some m => let '(h, a, cj) := op_this_arg (s_heap s) o in call tbl m h a cj s
      | None => mkS (set_err (s_heap s)) (s_hs s)        (* a member the model does not know *)
      end
  end.
Definition step_s sel tbl (s : sstate) (o : op) : sstate * bool :=
  if legal s o then (exec_op_s sel tbl s o, true) else (s, false).
Definition run_s sel tbl (nh : nat) (l : list op) : sstate :=
  fold_left (fun s o => fst (step_s sel tbl s o)) l (init nh).

(* free functions / operator templates declared in IntrusivePtr.h and RefCount.h (closed list):
   comparison operator k as a template with nt type parameters taking (IntrusivePtr<T>, IntrusivePtr<U>)
   (two = true) or (IntrusivePtr<T>, IntrusivePtr<T>) *)
Inductive fdecl := FCmpOp (k : ckind) (nt : nat) (two : bool) | FAliasRef | FAliasRefCount | FOtherFree (n : nat).
Definition ckind_eqb (a b : ckind) : bool :=
  match a, b with KEq, KEq | KNe, KNe | KLt, KLt | KLe, KLe | KGt, KGt | KGe, KGe => true | _, _ => false end.
Definition fdecl_eqb (a b : fdecl) : bool :=
  match a, b with
  | FCmpOp k n t, FCmpOp k' n' t' => ckind_eqb k k' && Nat.eqb n n' && Bool.eqb t t'
  | FAliasRef, FAliasRef | FAliasRefCount, FAliasRefCount => true
  | _, _ => false
  end.
Definition model_free : list fdecl :=
  [FCmpOp KLt 2 true; FCmpOp KEq 2 true; FCmpOp KNe 2 true; FAliasRef; FAliasRefCount].
Definition free_ok (l : list fdecl) : bool := list_eqb fdecl_eqb l model_free.

(* behaviour before the repair (build/handoff/C08/fix-1.patch): with operators taking two handles
   of the SAME type only, a comparison of handles of different types compared operator bool() *)
Definition handle_eq_mixed_old (s : sstate) (a b : nat) : bool :=
  Bool.eqb (match handle_ptr s a with Some _ => true | None => false end)
           (match handle_ptr s b with Some _ => true | None => false end).

(* the counter as a 64-bit two's-complement integer: what the unbounded count becomes in the machine *)
Definition wrap64 (z : Z) : Z := (z + 2 ^ 63) mod 2 ^ 64 - 2 ^ 63.
