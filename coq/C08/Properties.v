(* C08 - property theorems only.  Each is closed by [exact] of a lemma from Proofs*.v and
   followed by Print Assumptions; Examples give non-vacuity.
   Machines: Model.step (sequential; a whole member per step) and Model.gstep (threads; one
   micro-operation per step).  Both execute Model.model_table with Model.mexec. *)
From Common Require Import Prelude.
From C08 Require Import Model Proofs ProofsLift ProofsHist ProofsConc ProofsCmp.
Local Notation MT := (model_table) (only parsing).
Local Notation MC := (model_contracts) (only parsing).
Local Open Scope Z_scope.

(* ---- sequential histories: any number of handle slots n, any history l (create, the five
   constructors, destructor, the three assignments incl. self-assignment and null, explicit
   refInc/refDec; calls outside the client's contract [legal] are rejected) ---- *)

(* useCount() = creator-side references + number of handles pointing at the object *)
Theorem seq_count_is_creator_plus_handles : forall n l o, let s := run n l in
  is_alive s o = true -> use_count s o = creator (getobj (s_heap s) o) + nh (s_hs s) o.
Proof. exact (seq_count_eq MT MC). Qed.
Print Assumptions seq_count_is_creator_plus_handles.

(* no RMW on a dead object, no second delete, no call through null, ever *)
Theorem seq_no_error_state : forall n l, err (s_heap (run n l)) = false.
Proof. exact (seq_no_error MT MC). Qed.
Print Assumptions seq_no_error_state.

(* never destroyed while a reference remains, and destroyed as soon as none remains *)
Theorem seq_alive_iff_referenced : forall n l o, let s := run n l in
  is_alive s o = true <-> 1 <= creator (getobj (s_heap s) o) + nh (s_hs s) o.
Proof. exact (ProofsHist.seq_alive_iff_referenced MT MC). Qed.
Print Assumptions seq_alive_iff_referenced.

(* a handle never dangles *)
Theorem seq_handle_target_alive : forall n l h o, let s := run n l in
  handle_ptr s h = Some o -> is_alive s o = true.
Proof. exact (seq_no_dangling MT MC). Qed.
Print Assumptions seq_handle_target_alive.

(* exactly one delete per dead object, none for a live one *)
Theorem seq_destroyed_exactly_once : forall n l o, let s := run n l in
  dels (log (s_heap s)) o =
  if Nat.ltb o (length (objs (s_heap s))) && negb (is_alive s o) then 1 else 0.
Proof. exact (ProofsHist.seq_destroyed_exactly_once MT MC). Qed.
Print Assumptions seq_destroyed_exactly_once.

(* the delete happens in the step that makes "creator + handles" 0, and is logged in that step *)
Theorem seq_destroyed_by_last_release : forall n l op o,
  let s := run n l in let s' := fst (step s op) in
  is_alive s o = true ->
  (is_alive s' o = false <-> creator (getobj (s_heap s') o) + nh (s_hs s') o = 0) /\
  dels (log (s_heap s')) o = dels (log (s_heap s)) o + (if is_alive s' o then 0 else 1).
Proof. exact (seq_destroyed_at_last_release MT MC). Qed.
Print Assumptions seq_destroyed_by_last_release.

(* operator== / operator!= : equal exactly when they point at the same (live) object or are both null *)
Theorem handles_equal_iff_same_object : forall n l a b, let s := run n l in
  (handle_eq s a b = true <-> handle_ptr s a = handle_ptr s b) /\
  handle_ne s a b = negb (handle_eq s a b) /\
  (forall o, handle_ptr s a = Some o -> handle_eq s a b = true ->
             handle_ptr s b = Some o /\ is_alive s o = true).
Proof. exact (seq_handle_eq_iff MT MC). Qed.
Print Assumptions handles_equal_iff_same_object.

(* the model's unbounded count is what a 64-bit signed counter holds: a count never exceeds
   1 + (length of the history) + (number of handle slots), so for every history with
   1 + length + slots < 2^63 it is unchanged by wrapping to 64 bits (facts_match requires the
   counter's value type to be a 64-bit signed integer: rc_width64).  Histories of 2^63 or more
   operations are outside what the theorems say about the real counter. *)
Theorem seq_count_fits_64bit_counter : forall n l o, let s := run n l in
  0 <= use_count s o <= 1 + Z.of_nat (length l) + Z.of_nat n /\
  (1 + Z.of_nat (length l) + Z.of_nat n < 2 ^ 63 -> wrap64 (use_count s o) = use_count s o).
Proof. exact (seq_count_bounded MT MC). Qed.
Print Assumptions seq_count_fits_64bit_counter.

(* ---- threads: any number of threads n with k handle slots each, a shared read-only array
   built by any sequential history, any schedule at micro-operation granularity ---- *)

(* count = creator + shared array + handles of all threads + transient references of all threads *)
Theorem conc_count_with_transients : forall g o, reach MT g ->
  err (g_heap g) = false /\
  cnt (getobj (g_heap g) o) =
    creator (getobj (g_heap g) o) + nhz (g_fz g) o + sum_handles (g_ths g) o + sum_trans (g_fz g) (g_ths g) o /\
  alive (getobj (g_heap g) o) = (1 <=? cnt (getobj (g_heap g) o)).
Proof. exact (conc_count_eq MT MC). Qed.
Print Assumptions conc_count_with_transients.

(* when no member is in flight there are no transients *)
Theorem conc_count_when_quiescent : forall g o, reach MT g -> Forall idle (g_ths g) ->
  cnt (getobj (g_heap g) o) = creator (getobj (g_heap g) o) + nhz (g_fz g) o + sum_handles (g_ths g) o.
Proof. exact (conc_quiescent MT MC). Qed.
Print Assumptions conc_count_when_quiescent.

(* a thread only performs an RMW on an object that is alive at that moment *)
Theorem conc_touched_object_alive : forall g t th m rem o, reach MT g ->
  nth_error (g_ths g) t = Some th -> t_rem th = m :: rem ->
  (exists gd p, (m = MInc gd p \/ m = MDec gd p) /\ eval (g_fz g) (t_fr th) (t_hs th) p = Some o) ->
  alive (getobj (g_heap g) o) = true.
Proof. exact (conc_touch_alive MT MC). Qed.
Print Assumptions conc_touched_object_alive.

(* exactly one delete per dead object; a dead object has count 0 and nothing refers to it *)
Theorem conc_destroyed_exactly_once : forall g o, reach MT g ->
  dels (log (g_heap g)) o = (if Nat.ltb o (length (objs (g_heap g))) && negb (alive (getobj (g_heap g) o)) then 1 else 0) /\
  (alive (getobj (g_heap g) o) = false -> cnt (getobj (g_heap g) o) = 0 /\ creator (getobj (g_heap g) o) = 0 /\
                                         nhz (g_fz g) o + sum_hold (g_fz g) (g_ths g) o = 0).
Proof. exact (conc_delete_once MT MC). Qed.
Print Assumptions conc_destroyed_exactly_once.

(* the delete is performed by the one decrement that returned 0 (and by nothing else) *)
Theorem delete_by_the_decrement_that_returned_zero : forall e o hp x,
  dels (log (rmw_dec e o hp)) x =
  dels (log hp) x + (if alive (getobj hp o) && (cnt (getobj hp o) - 1 =? 0) && Nat.eqb o x then 1 else 0) /\
  dels (log (rmw_inc e o hp)) x = dels (log hp) x.
Proof. exact delete_only_by_zero_decrement. Qed.
Print Assumptions delete_by_the_decrement_that_returned_zero.

(* every reachable concurrent state satisfies the invariant (used by the four above) *)
Theorem conc_invariant_preserved : forall g l, CInv g -> CInv (gstep g l).
Proof. exact (gstep_inv MT MC). Qed.
Print Assumptions conc_invariant_preserved.

(* ---- the same theorems for ANY micro-operation table that meets the per-member contracts
   ([contracts_ok tbl = true]: on every abstract configuration each member issues the reference
   row's counter RMWs, on the same targets, in the same order, does nothing outside the model, and
   leaves the same pointers).  The machines run [tbl]; the lifting lemma ProofsLift.prog_safe_t
   carries the contract from the abstract configurations to every real state.
   PropertiesFacts.v instantiates them with the table extracted from the current source. ---- *)

Theorem seq_count_is_creator_plus_handles_tbl : forall tbl, contracts_ok tbl = true ->
  forall n l o, let s := run_t tbl n l in
  is_alive s o = true -> use_count s o = creator (getobj (s_heap s) o) + nh (s_hs s) o.
Proof. exact seq_count_eq. Qed.
Print Assumptions seq_count_is_creator_plus_handles_tbl.

Theorem seq_count_fits_64bit_counter_tbl : forall tbl, contracts_ok tbl = true ->
  forall n l o, let s := run_t tbl n l in
  0 <= use_count s o <= 1 + Z.of_nat (length l) + Z.of_nat n /\
  (1 + Z.of_nat (length l) + Z.of_nat n < 2 ^ 63 -> wrap64 (use_count s o) = use_count s o).
Proof. exact seq_count_bounded. Qed.
Print Assumptions seq_count_fits_64bit_counter_tbl.

Theorem seq_no_error_state_tbl : forall tbl, contracts_ok tbl = true ->
  forall n l, err (s_heap (run_t tbl n l)) = false.
Proof. exact seq_no_error. Qed.
Print Assumptions seq_no_error_state_tbl.

Theorem seq_alive_iff_referenced_tbl : forall tbl, contracts_ok tbl = true ->
  forall n l o, let s := run_t tbl n l in
  is_alive s o = true <-> 1 <= creator (getobj (s_heap s) o) + nh (s_hs s) o.
Proof. exact ProofsHist.seq_alive_iff_referenced. Qed.
Print Assumptions seq_alive_iff_referenced_tbl.

Theorem seq_handle_target_alive_tbl : forall tbl, contracts_ok tbl = true ->
  forall n l h o, let s := run_t tbl n l in handle_ptr s h = Some o -> is_alive s o = true.
Proof. exact seq_no_dangling. Qed.
Print Assumptions seq_handle_target_alive_tbl.

Theorem seq_destroyed_exactly_once_tbl : forall tbl, contracts_ok tbl = true ->
  forall n l o, let s := run_t tbl n l in
  dels (log (s_heap s)) o =
  if Nat.ltb o (length (objs (s_heap s))) && negb (is_alive s o) then 1 else 0.
Proof. exact ProofsHist.seq_destroyed_exactly_once. Qed.
Print Assumptions seq_destroyed_exactly_once_tbl.

Theorem seq_destroyed_by_last_release_tbl : forall tbl, contracts_ok tbl = true ->
  forall n l op o, let s := run_t tbl n l in let s' := fst (step_t tbl s op) in
  is_alive s o = true ->
  (is_alive s' o = false <-> creator (getobj (s_heap s') o) + nh (s_hs s') o = 0) /\
  dels (log (s_heap s')) o = dels (log (s_heap s)) o + (if is_alive s' o then 0 else 1).
Proof. exact seq_destroyed_at_last_release. Qed.
Print Assumptions seq_destroyed_by_last_release_tbl.

Theorem handles_equal_iff_same_object_tbl : forall tbl, contracts_ok tbl = true ->
  forall n l a b, let s := run_t tbl n l in
  (handle_eq s a b = true <-> handle_ptr s a = handle_ptr s b) /\
  handle_ne s a b = negb (handle_eq s a b) /\
  (forall o, handle_ptr s a = Some o -> handle_eq s a b = true ->
             handle_ptr s b = Some o /\ is_alive s o = true).
Proof. exact seq_handle_eq_iff. Qed.
Print Assumptions handles_equal_iff_same_object_tbl.

Theorem conc_count_with_transients_tbl : forall tbl, contracts_ok tbl = true ->
  forall g o, reach tbl g ->
  err (g_heap g) = false /\
  cnt (getobj (g_heap g) o) =
    creator (getobj (g_heap g) o) + nhz (g_fz g) o + sum_handles (g_ths g) o + sum_trans (g_fz g) (g_ths g) o /\
  alive (getobj (g_heap g) o) = (1 <=? cnt (getobj (g_heap g) o)).
Proof. exact conc_count_eq. Qed.
Print Assumptions conc_count_with_transients_tbl.

Theorem conc_count_when_quiescent_tbl : forall tbl, contracts_ok tbl = true ->
  forall g o, reach tbl g -> Forall idle (g_ths g) ->
  cnt (getobj (g_heap g) o) = creator (getobj (g_heap g) o) + nhz (g_fz g) o + sum_handles (g_ths g) o.
Proof. exact conc_quiescent. Qed.
Print Assumptions conc_count_when_quiescent_tbl.

Theorem conc_touched_object_alive_tbl : forall tbl, contracts_ok tbl = true ->
  forall g t th m rem o, reach tbl g ->
  nth_error (g_ths g) t = Some th -> t_rem th = m :: rem ->
  (exists gd p, (m = MInc gd p \/ m = MDec gd p) /\ eval (g_fz g) (t_fr th) (t_hs th) p = Some o) ->
  alive (getobj (g_heap g) o) = true.
Proof. exact conc_touch_alive. Qed.
Print Assumptions conc_touched_object_alive_tbl.

Theorem conc_destroyed_exactly_once_tbl : forall tbl, contracts_ok tbl = true ->
  forall g o, reach tbl g ->
  dels (log (g_heap g)) o = (if Nat.ltb o (length (objs (g_heap g))) && negb (alive (getobj (g_heap g) o)) then 1 else 0) /\
  (alive (getobj (g_heap g) o) = false -> cnt (getobj (g_heap g) o) = 0 /\ creator (getobj (g_heap g) o) = 0 /\
                                         nhz (g_fz g) o + sum_hold (g_fz g) (g_ths g) o = 0).
Proof. exact conc_delete_once. Qed.
Print Assumptions conc_destroyed_exactly_once_tbl.

Theorem conc_invariant_preserved_tbl : forall tbl, contracts_ok tbl = true ->
  forall g l, CInv g -> CInv (gstep_t tbl g l).
Proof. exact gstep_inv. Qed.
Print Assumptions conc_invariant_preserved_tbl.

(* the lifting lemma itself: a contract checked on the abstract configurations holds on every
   legal start state (any handles, any objects) *)
Theorem contract_lifts_to_every_state : forall tbl fz m fr hs,
  contracts_ok tbl = true -> frame_ok fz m fr hs -> (forall k, f_loc fr k = None) ->
  safe fz (prog_of tbl m) fr hs /\ forall o, holdv fz (prog_of tbl m) fr hs o = nh hs o.
Proof. exact prog_safe_t. Qed.
Print Assumptions contract_lifts_to_every_state.

(* comparison expressions: agreeing with ==, !=, < on the three order types of two addresses is
   agreeing on all addresses *)
Theorem comparison_contract_sound : forall c, cmp_ok c = true -> forall x y,
  ceval (c_eq c) x y = (x =? y) /\ ceval (c_ne c) x y = negb (x =? y) /\ ceval (c_lt c) x y = (x <? y).
Proof. exact cmp_sound. Qed.
Print Assumptions comparison_contract_sound.

(* dispatching operations through any selection table that agrees with the model's is the same machine *)
Theorem selection_table_dispatch : forall sel tbl n l, sel_ok sel = true -> run_s sel tbl n l = run_t tbl n l.
Proof. exact run_s_eq. Qed.
Print Assumptions selection_table_dispatch.

(* ---- non-vacuity ---- *)
Definition h1 := [Create; RawCtor 0 (Some 0%nat); RefDec 0%nat].   (* object 0 held by handle 0 only, count 1 *)

Example ex_self_assignment_at_count_1 :
  let s := run 2 (h1 ++ [CopyAssign 0 0]) in
  (use_count s 0%nat, is_alive s 0%nat, err (s_heap s), handle_ptr s 0) = (1, true, false, Some 0%nat).
Proof. vm_compute. reflexivity. Qed.

Example ex_last_release_destroys_once :
  let s := run 2 (h1 ++ [CopyCtor 1 0; MoveAssign 0 1; Dtor 1; RawAssign 0 None]) in
  (is_alive (run 2 (h1 ++ [CopyCtor 1 0; MoveAssign 0 1; Dtor 1])) 0%nat, is_alive s 0%nat, dels (log (s_heap s)) 0%nat, err (s_heap s))
  = (true, false, 1, false).
Proof. vm_compute. reflexivity. Qed.

(* the client's obligation is needed: releasing a reference it does not own leads to the error state *)
Example ex_unowned_refdec_reaches_error :
  err (s_heap (exec_op model_table (exec_op model_table (run 2 h1) (RefDec 0%nat)) (Dtor 0))) = true.
Proof. vm_compute. reflexivity. Qed.

(* the order in the table matters: decrementing before incrementing in operator= is unsafe *)
Definition swapped_table (m : meth) : list mop :=
  match m with MCopyAssign => [MDec true PThis; MInc true PArg; MStore DThis PArg] | _ => model_table m end.
Example ex_swapped_order_is_unsafe_and_rejected :
  err (s_heap (exec_op swapped_table (run 2 h1) (CopyAssign 0 0))) = true /\ check swapped_table model_rc = false.
Proof. vm_compute. split; reflexivity. Qed.

(* two threads copy the same shared entry; in the middle one of them holds a transient reference *)
Definition g0 := ginit (run 1 [Create; RawCtor 0 (Some 0%nat); RefDec 0%nat]) 2 1.
Definition sched1 := [LStart 0 (TDefCtor 0); LMicro 0; LStart 0 (TCopyAssign 0 (SFz 0)); LMicro 0].
Example ex_transient_reference :
  let g := grun g0 sched1 in
  (cnt (getobj (g_heap g) 0%nat), nhz (g_fz g) 0%nat, sum_handles (g_ths g) 0%nat, sum_trans (g_fz g) (g_ths g) 0%nat) = (2, 1, 0, 1).
Proof. vm_compute. reflexivity. Qed.
Example ex_threads_quiescent :
  let g := grun g0 (sched1 ++ [LStart 1 (TCopyCtor 0 (SFz 0)); LMicro 1; LMicro 0; LMicro 1; LMicro 0; LStart 1 (TDtor 0); LMicro 1; LMicro 1]) in
  (cnt (getobj (g_heap g) 0%nat), sum_handles (g_ths g) 0%nat, sum_trans (g_fz g) (g_ths g) 0%nat, err (g_heap g)) = (2, 1, 0, false).
Proof. vm_compute. reflexivity. Qed.

(* a differently written but equivalent member (local temporary) meets the contracts; the swapped one does not *)
Definition temp_table (m : meth) : list mop :=
  match m with
  | MCopyAssign => [MStore (DLoc 0) PArg; MInc true (PLoc 0); MDec true PThis; MStore DThis (PLoc 0)]
  | _ => model_table m
  end.
Example ex_contracts_accept_equivalent_reject_swapped :
  contracts_ok temp_table = true /\ contracts_ok swapped_table = false.
Proof. vm_compute. split; reflexivity. Qed.

Example ex_cmp_contract_rejects_wrong_ne :
  cmp_ok model_cmp = true /\
  cmp_ok (mkCmp (CCmp KEq CA CB) (CCmp KLt CA CB) (CCmp KLt CA CB) true true true true) = false /\
  cmp_ok (mkCmp (CNot (CCmp KNe CB CA)) (CNot (CCmp KEq CA CB)) (CCmp KGt CB CA) true true true true) = true /\
  (* comparing through void* (no derived-to-base adjustment) and falling back to operator bool are rejected *)
  cmp_ok (mkCmp (CCmp KEq CAvoid CBvoid) (CCmp KNe CA CB) (CCmp KLt CA CB) true true true true) = false /\
  cmp_ok (mkCmp (CCmp KEq CA CB) (CCmp KNe CA CB) (CCmp KLt CA CB) true true true false) = false.
Proof. vm_compute. repeat split; reflexivity. Qed.

(* a converting constructor from an rvalue that neither increments nor nulls its source (the selection
   table then names a member the model does not know): rejected by sel_ok; executing such a member
   makes the count one short, and the later release hits a dead object *)
Definition stealing_table (m : meth) : list mop :=
  match m with MConvCtor => [MStore DThis PArg] | _ => model_table m end.
Example ex_conv_move_keeps_source_reference :
  let s := run 3 [Create; RawCtor 2 (Some 0%nat); RefDec 0%nat; ConvMoveCtor 0 2] in
  (use_count s 0%nat, handle_ptr s 0, handle_ptr s 2) = (2, Some 0%nat, Some 0%nat) /\
  contracts_ok stealing_table = false /\
  err (s_heap (exec_op model_table (exec_op model_table (exec_op stealing_table
        (run 3 [Create; RawCtor 2 (Some 0%nat); RefDec 0%nat]) (ConvMoveCtor 0 2)) (Dtor 2)) (Dtor 0))) = true /\
  sel_ok (fun f => match f with FConvR => (None, VUnknown) | _ => model_sel f end) = false.
Proof. vm_compute. repeat split; reflexivity. Qed.

(* before the repair a comparison of handles of different static types compared operator bool():
   two handles on DIFFERENT objects compared equal (finding fixed by build/handoff/C08/fix-1.patch) *)
Example mixed_comparison_old_refuted :
  let s := run 5 [Create; Create; RawCtor 0 (Some 0%nat); RawCtor 3 (Some 1%nat)] in
  handle_eq_mixed_old s 0 3 = true /\ handle_ptr s 0 <> handle_ptr s 3 /\ handle_eq s 0 3 = false.
Proof. vm_compute. repeat split; congruence. Qed.

(* a 32-bit counter would not do: 2^31 explicit references wrap it (the deep-count witness of the harness) *)
Example ex_narrow_counter_wraps :
  let wrap32 z := (z + 2 ^ 31) mod 2 ^ 32 - 2 ^ 31 in
  wrap32 (1 + 2 ^ 31 - 1) = - 2 ^ 31 /\ wrap64 (1 + 2 ^ 31 - 1) = 2 ^ 31 /\ rc_ok (mkRc true true true true true true true false) = false.
Proof. vm_compute. repeat split; reflexivity. Qed.
