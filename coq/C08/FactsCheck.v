From Common Require Import Prelude.
From C08 Require Export Model.
From C08.gen Require Export Facts.
Lemma facts_match_lemma : check gen_table gen_rc = true.
Proof. vm_compute. reflexivity. Qed.
Lemma contracts_src_lemma : contracts_ok gen_table = true.
Proof. vm_compute. reflexivity. Qed.
Lemma cmp_facts_lemma : cmp_ok gen_cmp = true.
Proof. vm_compute. reflexivity. Qed.
Lemma members_lemma : members_ok gen_members = true.
Proof. vm_compute. reflexivity. Qed.
Lemma sel_lemma : sel_ok gen_sel = true.
Proof. vm_compute. reflexivity. Qed.
Lemma free_lemma : free_ok gen_free = true.
Proof. vm_compute. reflexivity. Qed.
Lemma width_lemma : rc_width64 gen_rc = true.
Proof. vm_compute. reflexivity. Qed.
