(* C16 -- the property map: pm_insert keeps the keys strictly sorted and the last binding wins *)
From Common Require Import Prelude.
From C16 Require Import Model Render.

Lemma str_cmp_eq a b : str_cmp a b = Eq <-> a = b.
Proof.
  revert b; induction a as [|x a IH]; intros [|y b]; simpl; split; intro H;
    try reflexivity; try discriminate.
  - destruct (N.compare_spec x y); try discriminate. subst. f_equal. apply IH. exact H.
  - inversion H; subst. rewrite N.compare_refl. apply IH. reflexivity.
Qed.

Lemma str_cmp_antisym a : forall b, str_cmp a b = CompOpp (str_cmp b a).
Proof.
  induction a as [|x a IH]; intros [|y b]; simpl; auto.
  rewrite (N.compare_antisym y x). destruct (N.compare y x); simpl; auto.
Qed.

Lemma str_cmp_trans a : forall b c, str_cmp a b = Lt -> str_cmp b c = Lt -> str_cmp a c = Lt.
Proof.
  induction a as [|x a IH]; intros [|y b] [|z c]; simpl; try discriminate; auto.
  destruct (N.compare_spec x y) as [Exy|Lxy|Gxy]; try discriminate;
    destruct (N.compare_spec y z) as [Eyz|Lyz|Gyz]; try discriminate; intros H1 H2.
  - subst. rewrite N.compare_refl. eapply IH; eauto.
  - subst. rewrite (proj2 (N.compare_lt_iff y z) Lyz). reflexivity.
  - subst. rewrite (proj2 (N.compare_lt_iff x z) Lxy). reflexivity.
  - assert (L : (x < z)%N) by lia. rewrite (proj2 (N.compare_lt_iff x z) L). reflexivity.
Qed.

Lemma pm_find_insert k k' v : forall m,
  pm_find k (pm_insert k' v m) = if str_eqb k k' then Some v else pm_find k m.
Proof.
  induction m as [|[k2 v2] m IH]; simpl; [reflexivity|].
  destruct (str_cmp k' k2) eqn:C; simpl.
  - apply str_cmp_eq in C. subst k2. destruct (str_eqb k k'); reflexivity.
  - reflexivity.
  - destruct (str_eqb k k2) eqn:E2; [|exact IH].
    apply str_eqb_eq in E2. subst k2.
    destruct (str_eqb k k') eqn:E1; [|reflexivity].
    apply str_eqb_eq in E1. subst k'. rewrite (proj2 (str_cmp_eq k k) eq_refl) in C. discriminate.
Qed.

Lemma pm_of_find k : forall ps acc,
  pm_find k (pm_of ps acc)
  = fold_left (fun o p => if str_eqb k (lp_name p) then Some (lp_val p) else o) ps (pm_find k acc).
Proof.
  induction ps as [|p ps IH]; intro acc; simpl; [reflexivity|].
  unfold pm_of in IH. rewrite IH, pm_find_insert. reflexivity.
Qed.

Lemma pm_of_lookup k ps : pm_find k (pm_of ps []) = last_prop k ps.
Proof. apply pm_of_find. Qed.

Definition hd_key_ok (k0 : str) (m : pmap) : Prop :=
  match m with [] => True | (k', _) :: _ => str_cmp k0 k' = Lt end.

Lemma pm_sorted_cons k v m : pm_sorted ((k, v) :: m) <-> hd_key_ok k m /\ pm_sorted m.
Proof. simpl. destruct m as [|[k' v'] m]; simpl; tauto. Qed.

Lemma pm_insert_sorted k v : forall m, pm_sorted m ->
  pm_sorted (pm_insert k v m) /\ (forall k0, str_cmp k0 k = Lt -> hd_key_ok k0 m -> hd_key_ok k0 (pm_insert k v m)).
Proof.
  induction m as [|[k2 v2] m IH]; intro Hs.
  - simpl. auto.
  - apply pm_sorted_cons in Hs as [Hh Hs]. specialize (IH Hs) as [IH1 IH2].
    cbn [pm_insert]. destruct (str_cmp k k2) eqn:C.
    + split; [apply pm_sorted_cons; auto | simpl; auto].
    + split; [|simpl; auto]. apply pm_sorted_cons. split; [exact C|]. apply pm_sorted_cons. auto.
    + split; [|simpl; auto]. apply pm_sorted_cons. split; [|exact IH1].
      apply IH2; [|exact Hh]. rewrite str_cmp_antisym, C. reflexivity.
Qed.

Lemma pm_of_sorted_acc : forall ps acc, pm_sorted acc -> pm_sorted (pm_of ps acc).
Proof.
  induction ps as [|p ps IH]; intros acc Hs; simpl; [exact Hs|].
  apply IH. apply pm_insert_sorted. exact Hs.
Qed.

Lemma pm_of_sorted ps : pm_sorted (pm_of ps []).
Proof. apply pm_of_sorted_acc. exact I. Qed.
