(* C16 -- the cursor language into which props/C16/factgen.py translates the bodies of the static
   parsing functions of rkcommon/xml/XML.cpp (clang AST of the working tree -> gen/Facts.v), and
   its semantics over Model.v's [peek]-based result monad [res].

   Vocabulary
     cexp : a byte            CRead p k = p[k]  ( *s = CRead "s" 0, s[1] = CRead "s" 1, end[-1] = CRead "end" (-1) )
                              CLit c (character / integer literal), CVar x (a char parameter or local)
     bexp : a condition       comparisons of bytes, && || !, libc classes isalpha/isdigit/isspace (BCls),
                              a static predicate of the file (BPred "isWhite"), a call of a bool-returning
                              parsing function (BCall: it has effects), pointer / string tests
     stmt : a statement       ++p, --p, p = q, calls, x = makeString(p,q), if, while (with the pointer that
                              measures progress), throw std::runtime_error, return, break, continue, and the
                              few Node operations of parseNode/parseXML
   Anything the extractor does not recognise becomes CUnk / BUnk / SUnk, on which the interpreter is
   stuck and which no expected program contains: obligations fail closed.

   Semantics: [exec callee pred s st sigma].  Every buffer read goes through Model.peek (negative
   index = OOB, like Model.trim_end); a call of another static function means the corresponding
   Model.v function ([call_model]); while loops run on the fuel the model gives the same loop
   ([fuel_at s cursor] for a loop that advances p, [S p] for one that steps p backwards). *)
From Coq Require Import String.
From Common Require Import Prelude.
From C16 Require Import Model.
Local Open Scope string_scope.

(* --------------------------------------------------------------------- syntax *)
Inductive cexp :=
| CRead (p : string) (off : Z)
| CLit (c : N)
| CVar (x : string)
| CUnk.

Inductive cls := KAlpha | KDigit | KSpace.

Record call := Call { c_fn : string; c_chars : list cexp; c_words : list str; c_outs : list string }.

Inductive bexp :=
| BEq (a b : cexp)
| BNe (a b : cexp)
| BAnd (a b : bexp)
| BOr (a b : bexp)
| BNot (a : bexp)
| BCls (k : cls) (a : cexp)
| BPred (f : string) (a : cexp)
| BCall (c : call)
| BPtrNull (p : string)
| BPtrGt (p q : string)
| BPtrEq (p q : string)
| BPtrNe (p q : string)
| BStrNe (x y : string)
| BStrNonEmpty (x : string)
| BTrue
| BUnk.

Inductive measure := MUp (p : string) | MDown (p : string) | MNone.

Inductive rexp := RVoid | RBool (b : bool) | RNode | REmptyStr | RStr (x : string) | RUnk.

Inductive stmt :=
| SSkip
| SSeq (a b : stmt)
| SInc (p : string)
| SDec (p : string)
| SSetP (p q : string)
| SDo (c : call)
| SMakeStr (x : string) (p q : string)
| SIf (b : bexp) (t e : stmt)
| SWhile (m : measure) (b : bexp) (body : stmt)
| SThrow
| SRet (r : rexp)
| SBreak
| SContinue
| SDeclNode                              (* Node node; *)
| SDeclStr (x : string)                  (* std::string x; *)
| SPropSet (k v : string)                (* node.properties[k] = v; *)
| SPushChild (c : call)                  (* node.child / doc.child .push_back(parseNode(s)) *)
| SWarn                                  (* std::cout << "... still-open nodes ..." *)
| STry (body handler : stmt)             (* try { body } catch (...) { handler } *)
| SUnk (what : string).

Fixpoint seq (l : list stmt) : stmt :=
  match l with
  | [] => SSkip
  | [x] => x
  | x :: l' => SSeq x (seq l')
  end.

(* makeString and readXML's buffer set-up are not cursor programs: fact records *)
Inductive guard := GNullBegin | GNullEnd | GBeginGtEnd | GOther.
Inductive copykind :=
| CopyCStr        (* new char[n+1]; memcpy(mem,begin,n); mem[n]=0; std::string s = mem  (stops at a NUL) *)
| CopyRange       (* std::string(begin,end) *)
| CopyOther.
Record msfacts := MkMs { ms_throw_guards : list guard;     (* if (g1 || g2 || ...) throw runtime_error *)
                         ms_empty_returns_empty : bool;      (* if (begin == end) return ""; *)
                         ms_copy : copykind }.
Record rxfacts := MkRx { rx_size_plus : N;                   (* std::vector<char> mem(numBytes + K, FILL) *)
                         rx_fill : N;
                         rx_reads_numBytes : bool;           (* fread(mem.data(), 1, numBytes, file) *)
                         rx_parses_mem_data : bool;          (* parseXML(doc, mem.data()) inside try *)
                         rx_catches_runtime_error_rethrows : bool;
                         rx_open_failure_throws : bool }.

(* ------------------------------------------------------------------ semantics *)
Record state := MkSt { ptrs : list (string * nat); strs : list (string * str); chs : list (string * N) }.

Fixpoint aget {A} (d : A) (l : list (string * A)) (x : string) : A :=
  match l with
  | [] => d
  | (y, v) :: l' => if String.eqb x y then v else aget d l' x
  end.
Fixpoint aset {A} (l : list (string * A)) (x : string) (v : A) : list (string * A) :=
  match l with
  | [] => [(x, v)]
  | (y, w) :: l' => if String.eqb x y then (y, v) :: l' else (y, w) :: aset l' x v
  end.
Definition getp (σ : state) p := aget 0%nat (ptrs σ) p.
Definition setp (σ : state) p v := MkSt (aset (ptrs σ) p v) (strs σ) (chs σ).
Definition gets (σ : state) x := aget ([] : str) (strs σ) x.
Definition sets (σ : state) x v := MkSt (ptrs σ) (aset (strs σ) x v) (chs σ).
Definition getc (σ : state) x := aget 0%N (chs σ) x.

Inductive ev (A : Type) := EV (a : A) | EOOB | EStuck.
Arguments EV {A} a.
Arguments EOOB {A}.
Arguments EStuck {A}.

Definition eval_c (s : str) (σ : state) (e : cexp) : ev N :=
  match e with
  | CRead p off =>
      let z := (Z.of_nat (getp σ p) + off)%Z in
      if (z <? 0)%Z then EOOB
      else match peek s (Z.to_nat z) with Some c => EV c | None => EOOB end
  | CLit c => EV c
  | CVar x => EV (getc σ x)
  | CUnk => EStuck
  end.

Definition cls_sem (k : cls) (c : N) : bool :=
  match k with KAlpha => is_alpha c | KDigit => is_digit c | KSpace => is_space c end.

Inductive out :=
| ONormal (σ : state)
| OReturn (v : option bool) (σ : state)
| OThrow
| OOOB
| OFuel
| OStuck.

(* the Model.v counterpart of every callable static function:
   result = (bool returned, values assigned to the std::string& out-parameters in order) *)
Definition expect1 (s : str) (i : nat) (w : N) : res unit :=
  match peek s i with None => OOB | Some c => if (c =? w)%N then Ok tt i else Throw end.

Definition lift_unit (r : res unit) : res (bool * list str) :=
  match r with Ok _ j => Ok (true, []) j | Throw => Throw | OOB => OOB | OutOfFuel => OutOfFuel end.

Definition call_model (f : string) (cs : list N) (ws : list str) (s : str) (i : nat)
  : option (res (bool * list str)) :=
  if String.eqb f "expect1" then
    match cs, ws with [w], [] => Some (lift_unit (expect1 s i w)) | _, _ => None end
  else if String.eqb f "expect2" then
    match cs, ws with [w0; w1], [] => Some (lift_unit (expect2 s i w0 w1)) | _, _ => None end
  else if String.eqb f "consume" then
    match cs, ws with [w], [] => Some (lift_unit (consume s i w)) | _, _ => None end
  else if String.eqb f "consume_word" then
    match cs, ws with [], [w] => Some (lift_unit (consume_word s i w)) | _, _ => None end
  else if String.eqb f "skipWhites" then
    match cs, ws with [], [] => Some (lift_unit (skip_whites s i)) | _, _ => None end
  else if String.eqb f "consumeComment" then
    match cs, ws with [], [] => Some (lift_unit (consume_comment s i)) | _, _ => None end
  else if String.eqb f "skipComment" then
    match cs, ws with
    | [], [] => Some (match skip_comment s i with
                      | Ok b j => Ok (b, []) j | Throw => Throw | OOB => OOB | OutOfFuel => OutOfFuel end)
    | _, _ => None end
  else if String.eqb f "parseIdentifier" then
    match cs, ws with
    | [], [] => Some (match parse_identifier s i with
                      | Ok (Some id) j => Ok (true, [id]) j | Ok None j => Ok (false, []) j
                      | Throw => Throw | OOB => OOB | OutOfFuel => OutOfFuel end)
    | _, _ => None end
  else if String.eqb f "parseString" then
    match cs, ws with
    | [], [] => Some (match parse_string s i with
                      | Ok v j => Ok (true, [v]) j
                      | Throw => Throw | OOB => OOB | OutOfFuel => OutOfFuel end)
    | _, _ => None end
  else if String.eqb f "parseProp" then
    match cs, ws with
    | [], [] => Some (match parse_prop s i with
                      | Ok (Some (k, v)) j => Ok (true, [k; v]) j | Ok None j => Ok (false, []) j
                      | Throw => Throw | OOB => OOB | OutOfFuel => OutOfFuel end)
    | _, _ => None end
  else None.

Definition pred_model (f : string) (c : N) : option bool :=
  if String.eqb f "isWhite" then Some (is_white c) else None.

Fixpoint eval_cs (s : str) (σ : state) (l : list cexp) : ev (list N) :=
  match l with
  | [] => EV []
  | e :: l' => match eval_c s σ e with
               | EV c => match eval_cs s σ l' with EV cs => EV (c :: cs) | EOOB => EOOB | EStuck => EStuck end
               | EOOB => EOOB | EStuck => EStuck
               end
  end.

Fixpoint bind_outs (σ : state) (outs : list string) (vals : list str) : state :=
  match outs, vals with
  | x :: outs', v :: vals' => bind_outs (sets σ x v) outs' vals'
  | _, _ => σ
  end.

(* result of a call: the bool it returned and the new state *)
Inductive cout := CDone (b : bool) (σ : state) | CThrow | COOB | CFuel | CStuck.

Definition do_call (s : str) (σ : state) (c : call) : cout :=
  match eval_cs s σ (c_chars c) with
  | EOOB => COOB
  | EStuck => CStuck
  | EV cs =>
      match call_model (c_fn c) cs (c_words c) s (getp σ "s") with
      | None => CStuck
      | Some (Ok (b, vals) j) => CDone b (bind_outs (setp σ "s" j) (c_outs c) vals)
      | Some Throw => CThrow
      | Some OOB => COOB
      | Some OutOfFuel => CFuel
      end
  end.

(* conditions: may read the buffer and (BCall) advance the cursor *)
Inductive bout := BVal (b : bool) (σ : state) | BThrow | BOOB | BFuel | BStuck.

Definition cmp2 (s : str) (σ : state) (a b : cexp) (f : N -> N -> bool) : bout :=
  match eval_c s σ a with
  | EV x => match eval_c s σ b with EV y => BVal (f x y) σ | EOOB => BOOB | EStuck => BStuck end
  | EOOB => BOOB
  | EStuck => BStuck
  end.

Fixpoint eval_b (s : str) (σ : state) (b : bexp) : bout :=
  match b with
  | BEq x y => cmp2 s σ x y N.eqb
  | BNe x y => cmp2 s σ x y (fun u v => negb (N.eqb u v))
  | BAnd x y => match eval_b s σ x with
                | BVal true σ' => eval_b s σ' y
                | o => o
                end
  | BOr x y => match eval_b s σ x with
               | BVal false σ' => eval_b s σ' y
               | o => o
               end
  | BNot x => match eval_b s σ x with BVal v σ' => BVal (negb v) σ' | o => o end
  | BCls k e => match eval_c s σ e with EV c => BVal (cls_sem k c) σ | EOOB => BOOB | EStuck => BStuck end
  | BPred f e => match eval_c s σ e with
                 | EV c => match pred_model f c with Some v => BVal v σ | None => BStuck end
                 | EOOB => BOOB | EStuck => BStuck
                 end
  | BCall c => match do_call s σ c with
               | CDone v σ' => BVal v σ' | CThrow => BThrow | COOB => BOOB | CFuel => BFuel | CStuck => BStuck
               end
  | BPtrGt p q => BVal (getp σ q <? getp σ p)%nat σ
  | BPtrEq p q => BVal (getp σ p =? getp σ q)%nat σ
  | BPtrNe p q => BVal (negb (getp σ p =? getp σ q)%nat) σ
  | BPtrNull _ => BVal false σ                 (* pointers into the buffer are never null *)
  | BTrue => BVal true σ
  | BStrNe _ _ | BStrNonEmpty _ | BUnk => BStuck
  end.

Definition fuel_of (s : str) (σ : state) (m : measure) : nat :=
  match m with
  | MUp p => fuel_at s (getp σ p)
  | MDown p => S (getp σ p)
  | MNone => 0
  end.

Fixpoint exec (s : str) (st : stmt) (σ : state) {struct st} : out :=
  match st with
  | SSkip => ONormal σ
  | SSeq a b => match exec s a σ with ONormal σ' => exec s b σ' | o => o end
  | SInc p => ONormal (setp σ p (S (getp σ p)))
  | SDec p => match getp σ p with O => OOOB | S n => ONormal (setp σ p n) end
  | SSetP p q => ONormal (setp σ p (getp σ q))
  | SDo c => match do_call s σ c with
             | CDone _ σ' => ONormal σ' | CThrow => OThrow | COOB => OOOB | CFuel => OFuel | CStuck => OStuck
             end
  | SMakeStr x p q =>
      match make_string s (getp σ p) (getp σ q) 0 with
      | Ok v _ => ONormal (sets σ x v) | Throw => OThrow | OOB => OOOB | OutOfFuel => OFuel
      end
  | SIf b t e => match eval_b s σ b with
                 | BVal true σ' => exec s t σ'
                 | BVal false σ' => exec s e σ'
                 | BThrow => OThrow | BOOB => OOOB | BFuel => OFuel | BStuck => OStuck
                 end
  | SWhile m b body =>
      (fix loop (fuel : nat) (σ : state) {struct fuel} : out :=
         match fuel with
         | O => OFuel
         | S f => match eval_b s σ b with
                  | BVal true σ' => match exec s body σ' with ONormal σ'' => loop f σ'' | o => o end
                  | BVal false σ' => ONormal σ'
                  | BThrow => OThrow | BOOB => OOOB | BFuel => OFuel | BStuck => OStuck
                  end
         end) (fuel_of s σ m) σ
  | SThrow => OThrow
  | SRet RVoid => OReturn None σ
  | SRet (RBool v) => OReturn (Some v) σ
  | SRet _ => OStuck
  | SDeclStr x => ONormal (sets σ x [])
  | SBreak | SContinue | SDeclNode | SPropSet _ _ | SPushChild _ | SWarn | STry _ _ | SUnk _ => OStuck
  end.

(* the same loop, named, for the proofs *)
Fixpoint wloop (s : str) (b : bexp) (body : stmt) (fuel : nat) (σ : state) : out :=
  match fuel with
  | O => OFuel
  | S f => match eval_b s σ b with
           | BVal true σ' => match exec s body σ' with ONormal σ'' => wloop s b body f σ'' | o => o end
           | BVal false σ' => ONormal σ'
           | BThrow => OThrow | BOOB => OOOB | BFuel => OFuel | BStuck => OStuck
           end
  end.

(* a function body run from cursor i with char parameters cs: the observable result *)
Definition run (s : str) (body : stmt) (i : nat) (cs : list (string * N)) : out :=
  exec s body (MkSt [("s", i)] [] cs).

(* observations, to compare with the model's [res] values; None = stuck *)
Definition obs_unit (o : out) : option (res unit) :=
  match o with
  | ONormal σ | OReturn None σ => Some (Ok tt (getp σ "s"))
  | OReturn (Some _) _ => None
  | OThrow => Some Throw | OOOB => Some OOB | OFuel => Some OutOfFuel | OStuck => None
  end.
Definition obs_bool (o : out) : option (res bool) :=
  match o with
  | OReturn (Some v) σ => Some (Ok v (getp σ "s"))
  | ONormal _ | OReturn None _ => None
  | OThrow => Some Throw | OOOB => Some OOB | OFuel => Some OutOfFuel | OStuck => None
  end.
Definition obs_str (x : string) (o : out) : option (res str) :=
  match o with
  | ONormal σ | OReturn None σ => Some (Ok (gets σ x) (getp σ "s"))
  | OReturn (Some _) _ => None
  | OThrow => Some Throw | OOOB => Some OOB | OFuel => Some OutOfFuel | OStuck => None
  end.
(* bool + out-parameters, assigned only when the function says so *)
Definition obs_opt_str (x : string) (o : out) : option (res (option str)) :=
  match o with
  | OReturn (Some true) σ => Some (Ok (Some (gets σ x)) (getp σ "s"))
  | OReturn (Some false) σ => Some (Ok None (getp σ "s"))
  | ONormal _ | OReturn None _ => None
  | OThrow => Some Throw | OOOB => Some OOB | OFuel => Some OutOfFuel | OStuck => None
  end.
Definition obs_opt_pair (x y : string) (o : out) : option (res (option (str * str))) :=
  match o with
  | OReturn (Some true) σ => Some (Ok (Some (gets σ x, gets σ y)) (getp σ "s"))
  | OReturn (Some false) σ => Some (Ok None (getp σ "s"))
  | ONormal _ | OReturn None _ => None
  | OThrow => Some Throw | OOOB => Some OOB | OFuel => Some OutOfFuel | OStuck => None
  end.

(* a predicate body ( isWhite(char s) { return <bexp over CVar "s">; } ) on one byte *)
Definition pred_val (b : bexp) (x : string) (c : N) : option bool :=
  match eval_b [] (MkSt [] [] [(x, c)]) b with BVal v _ => Some v | _ => None end.
Definition bytes256 : list N := map N.of_nat (List.seq 0 256).

(* makeString from its fact record *)
Definition ms_sem (f : msfacts) (s : str) (b e : nat) (cur : nat) : option (res str) :=
  if existsb (fun g => match g with GOther => true | _ => false end) (ms_throw_guards f) then None
  else
    let gt := existsb (fun g => match g with GBeginGtEnd => true | _ => false end) (ms_throw_guards f) in
    if gt && (e <? b)%nat then Some Throw
    else if negb gt && (e <? b)%nat then None                 (* undefined: negative length *)
    else match ms_copy f with
         | CopyCStr =>
             match read_range s b (e - b) with None => Some OOB | Some l => Some (Ok (until_nul l) cur) end
         | _ => None
         end.

(* ------------------------------------------------- the expected programs (XML.cpp as verified) *)
Local Open Scope Z_scope.

Definition x_isWhite : bexp :=
  BOr (BOr (BOr (BEq (CVar "s") (CLit 32%N)) (BEq (CVar "s") (CLit 9%N))) (BEq (CVar "s") (CLit 10%N)))
      (BEq (CVar "s") (CLit 13%N)).

Definition x_expect1 : stmt := SIf (BNe (CRead "s" 0) (CVar "w")) SThrow SSkip.

Definition x_expect2 : stmt :=
  SIf (BAnd (BNe (CRead "s" 0) (CVar "w0")) (BNe (CRead "s" 0) (CVar "w1"))) SThrow SSkip.

Definition x_consume : stmt := seq [SDo (Call "expect1" [CVar "w"] [] []); SInc "s"].

Definition x_skipWhites : stmt := SWhile (MUp "s") (BPred "isWhite" (CRead "s" 0)) (SInc "s").

(* while (s[0] is not NUL and not the start of "-->") ++s; *)
Definition x_comment_cond : bexp :=
  BNot (BOr (BEq (CRead "s" 0) (CLit 0%N))
            (BAnd (BAnd (BEq (CRead "s" 0) (CLit 45%N)) (BEq (CRead "s" 1) (CLit 45%N))) (BEq (CRead "s" 2) (CLit 62%N)))).
Definition x_consumeComment : stmt :=
  seq [SDo (Call "consume" [CLit 60%N] [] []); SDo (Call "consume" [CLit 33%N] [] []);
       SWhile (MUp "s") x_comment_cond (SInc "s");
       SDo (Call "consume" [CLit 45%N] [] []); SDo (Call "consume" [CLit 45%N] [] []);
       SDo (Call "consume" [CLit 62%N] [] [])].

(* while ( *word) { try { consume(s, *word); ++word; } catch (...) { throw std::runtime_error(...); } } *)
Definition x_consume_word : stmt :=
  SWhile (MUp "s") (BNe (CVar "*word") (CLit 0%N))
         (STry (seq [SDo (Call "consume" [CVar "*word"] [] []); SInc "word"]) SThrow).

(* the scanning loop of parseString for the quote character qc:
   while ( *s != qc && *s != 0) { if ( *s == '\\' && s[1] != 0) ++s; ++s; } *)
Definition x_string_cond (qc : N) : bexp := BAnd (BNe (CRead "s" 0) (CLit qc)) (BNe (CRead "s" 0) (CLit 0%N)).
Definition x_string_step : stmt :=
  seq [SIf (BAnd (BEq (CRead "s" 0) (CLit 92%N)) (BNe (CRead "s" 1) (CLit 0%N))) (SInc "s") SSkip; SInc "s"].
Definition x_quoted (qc : N) : stmt :=
  seq [SDo (Call "consume" [CLit qc] [] []); SSetP "begin" "s";
       SWhile (MUp "s") (x_string_cond qc) x_string_step;
       SSetP "end" "s"; SMakeStr "value" "begin" "end"; SDo (Call "consume" [CLit qc] [] [])].
Definition x_parseString : stmt := SIf (BEq (CRead "s" 0) (CLit 34%N)) (x_quoted 34%N) (x_quoted 39%N).

Definition x_id_start : bexp := BOr (BCls KAlpha (CRead "s" 0)) (BEq (CRead "s" 0) (CLit 95%N)).
Definition x_id_char : bexp :=
  BOr (BOr (BOr (BCls KAlpha (CRead "s" 0)) (BCls KDigit (CRead "s" 0))) (BEq (CRead "s" 0) (CLit 95%N)))
      (BEq (CRead "s" 0) (CLit 46%N)).
Definition x_parseIdentifier : stmt :=
  seq [SIf x_id_start
           (seq [SSetP "begin" "s"; SInc "s"; SWhile (MUp "s") x_id_char (SInc "s"); SSetP "end" "s";
                 SMakeStr "identifier" "begin" "end"; SRet (RBool true)])
           SSkip;
       SRet (RBool false)].

Definition x_parseProp : stmt :=
  seq [SIf (BNot (BCall (Call "parseIdentifier" [] [] ["name"]))) (SRet (RBool false)) SSkip;
       SDo (Call "skipWhites" [] [] []); SDo (Call "consume" [CLit 61%N] [] []); SDo (Call "skipWhites" [] [] []);
       SDo (Call "expect2" [CLit 34%N; CLit 39%N] [] []); SDo (Call "parseString" [] [] ["value"]);
       SRet (RBool true)].

Definition x_skipComment : stmt :=
  seq [SIf (BAnd (BEq (CRead "s" 0) (CLit 60%N)) (BEq (CRead "s" 1) (CLit 33%N)))
           (seq [SDo (Call "consumeComment" [] [] []); SRet (RBool true)]) SSkip;
       SRet (RBool false)].

(* the content of a node: scan to '<' or NUL, trim the tail with isspace, copy *)
Definition x_content : stmt :=
  seq [SSetP "begin" "s";
       SWhile (MUp "s") (BAnd (BNe (CRead "s" 0) (CLit 60%N)) (BNe (CRead "s" 0) (CLit 0%N))) (SInc "s");
       SSetP "end" "s";
       SWhile (MDown "end") (BCls KSpace (CRead "end" (-1))) (SDec "end");
       SMakeStr "node.content" "begin" "end"].

(* the property loop shared by parseNode (stores) and parseHeader (ignores): white space is skipped
   INSIDE the loop, after every property *)
Definition x_prop_cond : bexp := BCall (Call "parseProp" [] [] ["name"; "value"]).

Definition x_parseNode : stmt :=
  seq [SDo (Call "consume" [CLit 60%N] [] []); SDeclNode;
       SIf (BNot (BCall (Call "parseIdentifier" [] [] ["node.name"]))) SThrow SSkip;
       SDo (Call "skipWhites" [] [] []); SDeclStr "name"; SDeclStr "value";
       SWhile (MUp "s") x_prop_cond (seq [SPropSet "name" "value"; SDo (Call "skipWhites" [] [] [])]);
       SIf (BEq (CRead "s" 0) (CLit 47%N)) (seq [SDo (Call "consume_word" [] [[47%N; 62%N]] []); SRet RNode]) SSkip;
       SDo (Call "consume_word" [] [[62%N]] []);
       SWhile (MUp "s") BTrue
         (seq [SDo (Call "skipWhites" [] [] []);
               SIf (BCall (Call "skipComment" [] [] [])) SContinue SSkip;
               SIf (BAnd (BEq (CRead "s" 0) (CLit 60%N)) (BEq (CRead "s" 1) (CLit 47%N)))
                   (seq [SDo (Call "consume_word" [] [[60%N; 47%N]] []); SDeclStr "nodeName";
                         SDo (Call "parseIdentifier" [] [] ["nodeName"]);
                         SIf (BStrNe "nodeName" "node.name") SThrow SSkip;
                         SDo (Call "consume_word" [] [[62%N]] []); SBreak])
                   (SIf (BEq (CRead "s" 0) (CLit 60%N)) (SPushChild (Call "parseNode" [] [] []))
                        (SIf (BEq (CRead "s" 0) (CLit 0%N)) (seq [SWarn; SRet RNode])
                             (SSeq (SIf (BStrNonEmpty "node.content") SThrow SSkip) x_content)))]);
       SRet RNode].

Definition x_header_rest : stmt :=
  seq [SInc "s"; SDo (Call "skipWhites" [] [] []); SDeclStr "name"; SDeclStr "value";
       SWhile (MUp "s") x_prop_cond (SDo (Call "skipWhites" [] [] []));
       SDo (Call "consume_word" [] [[63%N; 62%N]] []); SRet (RBool true)].
Definition x_parseHeader : stmt :=
  SSeq (SDo (Call "consume_word" [] [[60%N; 63%N; 120%N; 109%N; 108%N]] []))
  (SSeq (SIf (BAnd (BEq (CRead "s" 0) (CLit 63%N)) (BEq (CRead "s" 1) (CLit 62%N)))
             (seq [SDo (Call "consume_word" [] [[63%N; 62%N]] []); SRet (RBool true)]) SSkip)
  (SSeq (SIf (BNot (BPred "isWhite" (CRead "s" 0))) (SRet (RBool false)) SSkip)
        x_header_rest)).

Definition x_parseXML : stmt :=
  seq [SIf (BAnd (BEq (CRead "s" 0) (CLit 60%N)) (BEq (CRead "s" 1) (CLit 63%N)))
           (SIf (BNot (BCall (Call "parseHeader" [] [] []))) SThrow SSkip) SSkip;
       SDo (Call "skipWhites" [] [] []);
       SWhile (MUp "s") (BNe (CRead "s" 0) (CLit 0%N))
         (seq [SIf (BCall (Call "skipComment" [] [] [])) (seq [SDo (Call "skipWhites" [] [] []); SContinue]) SSkip;
               SPushChild (Call "parseNode" [] [] []); SDo (Call "skipWhites" [] [] [])]);
       SIf (BNe (CRead "s" 0) (CLit 0%N)) SThrow SSkip].

Definition x_makeString : msfacts := MkMs [GNullBegin; GNullEnd; GBeginGtEnd] true CopyCStr.
(* std::vector<char> mem(numBytes + 1, 0); fread(mem.data(), 1, numBytes, file); parseXML(doc, mem.data())
   inside try; catch (const std::runtime_error &) rethrows; a file that cannot be opened throws *)
Definition x_readXML : rxfacts := MkRx 1%N 0%N true true true true.

(* ------------------------------------------------------------------------------------------------
   Writer members and Node accessors (XML.cpp:24-44, 301-387): statement lists over an emit vocabulary *)
Local Close Scope Z_scope.
Inductive wassert := AXml | ANonEmpty | ATopPtr | ANoContent | AUnk.
Inductive warg := GParam (x : string) | GTopType | GUnk.
Inductive wstmt :=
| WAssert (a : wassert)                   (* assert(...) *)
| WTop                                    (* State *s = state.top(); *)
| WNop                                    (* (void)s; *)
| WPrintf (fmt : str) (args : list warg)  (* fprintf(xml, fmt, arg.c_str() ...) *)
| WSpaces                                 (* spaces(); *)
| WRepeatDepth (body : wstmt)             (* for (size_t i = 0; i < state.size(); i++) body *)
| WPushNew (x : string)                   (* State *s = new State; s->type = x; state.push(s); *)
| WIfHasContent (t e : wstmt)             (* if (s->hasContent) t else e *)
| WPop                                    (* delete s; state.pop(); *)
| WUnkS (what : string).
Inductive nodefn :=
| NHasFind                                (* return properties.find(k) != properties.end(); *)
| NGetFindOrFallback                      (* it = properties.find(k); return it != end ? it->second : fallback; *)
| NGetViaFallbackEmpty                    (* return getProp(k, std::string()); *)
| NUnkN.
(* the Writer constructor initialises xml and bin from its parameters, empty body; State::hasContent{false} *)
Record wctor := MkWc { wc_inits_xml_bin : bool; wc_body_empty : bool; wc_hasContent_init_false : bool }.

Definition x_w_spaces : list wstmt := [WRepeatDepth (WPrintf [32%N; 32%N] [])].
Definition x_w_writeHeader : list wstmt :=
  [WAssert AXml;
   WPrintf [60;63;120;109;108;32;118;101;114;115;105;111;110;61;34;37;115;34;63;62;10]%N [GParam "version"]].
Definition x_w_writeFooter : list wstmt := [WAssert AXml].
Definition x_w_openNode : list wstmt :=
  [WAssert AXml; WSpaces; WPrintf [60; 37; 115]%N [GParam "type"]; WPushNew "type"].
Definition x_w_writeProperty : list wstmt :=
  [WAssert AXml; WAssert ANonEmpty; WTop; WNop; WAssert ATopPtr; WAssert ANoContent;
   WPrintf [32; 37; 115; 61; 34; 37; 115; 34]%N [GParam "name"; GParam "value"]].
Definition x_w_closeNode : list wstmt :=
  [WAssert AXml; WAssert ANonEmpty; WTop; WAssert ATopPtr;
   WIfHasContent (WPrintf [60; 47; 37; 115; 62]%N [GTopType]) (WPrintf [47; 62; 10]%N []); WPop].
Definition x_w_ctor : wctor := MkWc true true true.
