(* C16 -- XML reading is total, memory-safe, and faithful on its supported subset.
   Model: coq/C16/Model.v ([parse] = readXML on the bytes of the file, every buffer read through
   [peek]); the subset, its rendering and the demanded tree: coq/C16/Render.v. *)
From Common Require Import Prelude.
From C16 Require Import Model Render Proofs ProofsRender ProofsMap WriterModel ProofsWriter.

(* ---- totality: a document or std::runtime_error, nothing else --------------------------- *)
Theorem parse_total : forall s : str,
  (exists d j, parse s = Ok d j) \/ parse s = Throw.
Proof. exact Proofs.parse_total. Qed.
Print Assumptions parse_total.

(* no hang: the fuel bound 2*|s|+4 on loop iterations + parseNode calls is never reached
   (so the nesting depth is bounded by the file length) *)
Theorem parse_no_hang : forall s : str, parse s <> OutOfFuel.
Proof. exact Proofs.parse_never_out_of_fuel. Qed.
Print Assumptions parse_no_hang.

(* ---- memory safety: every index read lies in [0, length s]; index length s is the terminator.
   OOB is what [peek] answers outside the buffer and what [trim_end] answers for end[-1] at 0 *)
Theorem parse_in_bounds : forall s : str, parse s <> OOB.
Proof. exact Proofs.parse_never_oob. Qed.
Print Assumptions parse_in_bounds.

Theorem parse_cursor_final : forall (s : str) d j, parse s = Ok d j -> j <= length s.
Proof. exact Proofs.parse_cursor_final. Qed.
Print Assumptions parse_cursor_final.

(* the reader as found (parseString loops without the terminator test) did read out of bounds *)
Theorem parse_string_oob_refuted :
  exists s, parse_old s = OOB.
Proof. exists [60; 97; 32; 98; 61; 34; 120]%N. vm_compute. reflexivity. Qed.
Print Assumptions parse_string_oob_refuted.

(* ---- faithfulness on the documented subset, for EVERY layout the reader's grammar allows
   (Render.v: header forms, white space, quote styles, escapes, self-closing / open-close,
   comments, position of the text): reading the rendering of a laid-out document returns its
   tree -- names, properties as std::map stores them, trimmed contents, children in order --
   and consumes the whole file *)
Theorem parse_render : forall d : ldoc,
  wf_doc d = true -> parse (render_doc d) = Ok (doc_of d) (length (render_doc d)).
Proof. exact ProofsRender.parse_render. Qed.
Print Assumptions parse_render.

(* the same for one node anywhere in a buffer: parseNode consumes exactly the node's rendering *)
Theorem parse_render_node : forall (n : lnode) fuel (s : str) i r,
  sfx s i (render_node n ++ r) -> wf_node n = true -> 2 * (length s - i) + 1 <= fuel ->
  exists j, parse_node fuel s i = Ok (node_of n) j /\ sfx s j r.
Proof. exact ProofsRender.parse_node_app. Qed.
Print Assumptions parse_render_node.

(* the property map of a returned node ([pm_of], used by [doc_of]) is std::map's: keys strictly
   increasing, and looking a name up gives the value of the LAST property of that name *)
Theorem props_sorted : forall ps : list lprop, pm_sorted (pm_of ps []).
Proof. exact ProofsMap.pm_of_sorted. Qed.
Print Assumptions props_sorted.

Theorem props_last_wins : forall (k : str) (ps : list lprop),
  pm_find k (pm_of ps []) = last_prop k ps.
Proof. exact ProofsMap.pm_of_lookup. Qed.
Print Assumptions props_last_wins.

(* ---- non-vacuity ------------------------------------------------------------------------- *)
(* both outcomes of parse_total occur; the file that overran the buffer now throws *)
Example ex_total_ok : parse [60; 97; 47; 62]%N = Ok (Node [] [] [] [Node [97%N] [] [] []]) 4.
Proof. vm_compute. reflexivity. Qed.
Example ex_total_throw : parse [60; 97; 32; 98; 61; 34; 120]%N = Throw.
Proof. vm_compute. reflexivity. Qed.
(* the terminator index length s IS read (so the bound of parse_in_bounds is tight): the empty file *)
Example ex_terminator_read : peek [] 0 = Some 0%N /\ peek [] 1 = None /\ parse [] = Ok (Node [] [] [] []) 0.
Proof. vm_compute. auto. Qed.

(* parse_render's premise holds for a document with a header with properties, a top-level
   comment, both quote styles, an escape, a duplicate property, white space of every kind,
   self-closing and open/close nodes, text followed by VT between children, an inner comment:
     <?xml version="1.0" enc='u'?>\n<!-- top --> <r a="1" b = 'it\'s'\ta="2">\n <x/> text here\v<!-- in --><y k="v"></y></r>\n<s/> *)
Example ex_render_premise : wf_doc ex_doc = true /\ length (render_doc ex_doc) = 120.
Proof. vm_compute. auto. Qed.
Example ex_render_result :
  doc_of ex_doc =
  Node [] [] []
    [Node [114%N] [([97%N], [50%N]); ([98%N], [105%N; 116%N; 92%N; 39%N; 115%N])]
       [116%N; 101%N; 120%N; 116%N; 32%N; 104%N; 101%N; 114%N; 101%N]
       [Node [120%N] [] [] []; Node [121%N] [([107%N], [118%N])] [] []];
     Node [115%N] [] [] []]
  /\ parse (render_doc ex_doc) = Ok (doc_of ex_doc) 120.
Proof. vm_compute. auto. Qed.
(* the premise is needed: <a>x </a> (text ending with a blank) is read back trimmed *)
Example ex_render_premise_needed :
  wf_doc ex_doc_not_wf = false /\
  parse (render_doc ex_doc_not_wf) <> Ok (doc_of ex_doc_not_wf) (length (render_doc ex_doc_not_wf)).
Proof. split; [vm_compute; reflexivity | vm_compute; discriminate]. Qed.
(* the duplicate property of ex_doc's node r: the last one wins *)
Example ex_last_wins :
  last_prop [97%N] [LProp [97%N] [] [] true [49%N] []; LProp [98%N] [] [] false [] [];
                    LProp [97%N] [] [] true [50%N] []] = Some [50%N].
Proof. vm_compute. reflexivity. Qed.

(* ---- the library's own Writer (WriterModel.v: state machine over the output bytes, as the source)
   read back by the reader.  EXACT precondition: an optional writeHeader first, then nodes that are
   NOT nested (openNode, writeProperty*, closeNode), names identifiers, values / version inside the
   reader's value syntax for double quotes (no bare double quote, no NUL, a backslash only followed by
   another byte -- the Writer escapes nothing).  Then the output parses to exactly what was written:
   names, properties (std::map: sorted, last duplicate wins), children in order. *)
Theorem writer_round_trip : forall d : wdoc,
  wf_wdoc d = true ->
  exists out, writer_output (ops_of d) = Some out /\ parse out = Ok (tree_of d) (length out).
Proof. exact ProofsWriter.writer_round_trip. Qed.
Print Assumptions writer_round_trip.

(* outside that precondition the Writer's output is NOT read back:
   nested nodes -- openNode never terminates the enclosing start tag and nothing ever sets hasContent:
   openNode a; openNode b; closeNode; closeNode writes  <a  <b/> LF /> LF , which the reader rejects *)
Theorem writer_nested_refuted :
  writer_output ex_nested = Some [60; 97; 32; 32; 60; 98; 47; 62; 10; 47; 62; 10]%N /\
  parse [60; 97; 32; 32; 60; 98; 47; 62; 10; 47; 62; 10]%N = Throw.
Proof. vm_compute. auto. Qed.
Print Assumptions writer_nested_refuted.

(* a value containing a double quote is written unescaped: writeProperty(k, x" z="1) is read back
   as TWO properties k=x and z=1 (silently wrong tree) *)
Theorem writer_quote_refuted :
  exists out, writer_output ex_inject = Some out /\
  parse out = Ok (Node [] [] [] [Node [97%N] [([107%N], [120%N]); ([122%N], [49%N])] [] []]) (length out).
Proof. eexists. vm_compute. auto. Qed.
Print Assumptions writer_quote_refuted.

(* Node::hasProp / getProp on the map read back from written properties: the LAST written value *)
Theorem has_prop_written : forall k ps,
  has_prop k (pm_of_pairs ps) = match last_pair k ps with Some _ => true | None => false end.
Proof. exact ProofsWriter.has_prop_written. Qed.
Print Assumptions has_prop_written.

Theorem get_prop_written : forall k fallback ps,
  get_prop_or k fallback (pm_of_pairs ps) = match last_pair k ps with Some v => v | None => fallback end.
Proof. exact ProofsWriter.get_prop_written. Qed.
Print Assumptions get_prop_written.

(* non-vacuity: header, two nodes, a duplicate property, an empty value *)
Example ex_writer_round_trip :
  wf_wdoc ex_wdoc = true /\
  tree_of ex_wdoc = Node [] [] [] [Node [97%N] [([107%N], [50%N]); ([120%N], [])] [] []; Node [98%N] [] [] []] /\
  get_prop [107%N] (pm_of_pairs (wn_props (hd (MkWn [] []) (wd_nodes ex_wdoc)))) = [50%N].
Proof. vm_compute. auto. Qed.
