From Common Require Import Prelude.
From C16 Require Import Model.
Local Open Scope N_scope.

Theorem parse_string_oob_refuted :
  exists s, parse_old s = OOB.
Proof. exists [60; 97; 32; 98; 61; 34; 120]. vm_compute. reflexivity. Qed.
Print Assumptions parse_string_oob_refuted.
