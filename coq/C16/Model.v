(* C16 -- executable model of the recursive-descent reader of rkcommon/xml/XML.cpp
   (hand-written, Tie B).  Definitions only.

   The file is a byte list [s : str]; readXML copies it into a buffer of
   [length s + 1] bytes whose last byte is the terminator 0.  The C++ cursor
   [char *&s] is an index [i : nat] into that buffer.  EVERY read of the buffer
   goes through [peek]: it answers [None] for an index outside the buffer
   (i > length s); the only backward read (end[-1] in the content trimming) is
   [trim_end], which answers OOB for index -1.  So "the result is not OOB"
   means: every index read lies in [0, length s].

   One Gallina function per C++ function; the result is
     Ok value cursor' | Throw (std::runtime_error) | OOB | OutOfFuel.
   Loops run on fuel; OutOfFuel is a distinct outcome (excluded by parse_total).

   parseString is modelled twice: [string_scan] mirrors the repaired loop
   (stops at the terminator), [string_scan_old] the loop as found. *)
From Common Require Import Prelude.
Local Open Scope N_scope.

(* ------------------------------------------------------------ result tree *)
(* properties: std::map<std::string,std::string> = association list sorted by key *)
Definition pmap := list (str * str).

Inductive node := Node (name : str) (props : pmap) (content : str) (children : list node).

Inductive res (A : Type) :=
| Ok (a : A) (cur : nat)
| Throw
| OOB
| OutOfFuel.
Arguments Ok {A} a cur.
Arguments Throw {A}.
Arguments OOB {A}.
Arguments OutOfFuel {A}.

(* ------------------------------------------------------------- characters *)
Definition c_nul : N := 0.
Definition c_lt : N := 60.      (* < *)
Definition c_gt : N := 62.      (* > *)
Definition c_slash : N := 47.   (* / *)
Definition c_bang : N := 33.    (* ! *)
Definition c_dash : N := 45.    (* - *)
Definition c_qm : N := 63.      (* ? *)
Definition c_eq : N := 61.      (* = *)
Definition c_dq : N := 34.      (* double quote *)
Definition c_sq : N := 39.      (* single quote *)
Definition c_bs : N := 92.      (* \ *)
Definition c_us : N := 95.      (* _ *)
Definition c_dot : N := 46.     (* . *)

(* isWhite of XML.cpp *)
Definition is_white (c : N) : bool :=
  (c =? 32) || (c =? 9) || (c =? 10) || (c =? 13).
(* isspace / isalpha / isdigit of the C locale (bytes >= 128 are in no class) *)
Definition is_space (c : N) : bool :=
  (c =? 32) || ((9 <=? c) && (c <=? 13)).
Definition is_alpha (c : N) : bool :=
  ((65 <=? c) && (c <=? 90)) || ((97 <=? c) && (c <=? 122)).
Definition is_digit (c : N) : bool := (48 <=? c) && (c <=? 57).
Definition is_id_start (c : N) : bool := is_alpha c || (c =? c_us).
Definition is_id_char (c : N) : bool :=
  is_alpha c || is_digit c || (c =? c_us) || (c =? c_dot).

(* --------------------------------------------------- the one read primitive *)
Definition peek (s : str) (i : nat) : option N :=
  if (i <=? length s)%nat then Some (nth i s 0) else None.

(* fuel for a scanning loop started at index i: more than the number of
   positions left in the buffer *)
Definition fuel_at (s : str) (i : nat) : nat := (length s + 2 - i)%nat.

Notation "'rd' c <- s @ i ;; k" :=
  (match peek s i with None => OOB | Some c => k end)
  (at level 200, c name, s at level 9, i at level 9, right associativity).
Notation "'do' ( a , j ) <- r ;; k" :=
  (match r with Ok a j => k | Throw => Throw | OOB => OOB | OutOfFuel => OutOfFuel end)
  (at level 200, a name, j name, right associativity).

(* ----------------------------------------------------- expect / consume *)
Definition expect2 (s : str) (i : nat) (w0 w1 : N) : res unit :=
  rd c <- s @ i ;;
  if (c =? w0) || (c =? w1) then Ok tt i else Throw.

Definition consume (s : str) (i : nat) (w : N) : res unit :=
  rd c <- s @ i ;;
  if c =? w then Ok tt (S i) else Throw.

(* consume(char*&, const char *word): any failure is rethrown as runtime_error *)
Fixpoint consume_word (s : str) (i : nat) (w : list N) : res unit :=
  match w with
  | [] => Ok tt i
  | c :: w' => do (_, j) <- consume s i c ;; consume_word s j w'
  end.

(* ----------------------------------------------------------- makeString *)
Fixpoint read_range (s : str) (b : nat) (n : nat) : option str :=
  match n with
  | O => Some []
  | S n' => match peek s b with
            | None => None
            | Some c => match read_range s (S b) n' with
                        | None => None
                        | Some l => Some (c :: l)
                        end
            end
  end.

(* std::string s = mem : the copy stops at the first NUL *)
Fixpoint until_nul (l : str) : str :=
  match l with
  | [] => []
  | c :: l' => if c =? 0 then [] else c :: until_nul l'
  end.

(* makeString(begin,end); the cursor is passed through unchanged *)
Definition make_string (s : str) (b e : nat) (cur : nat) : res str :=
  if (e <? b)%nat then Throw
  else match read_range s b (e - b) with
       | None => OOB
       | Some l => Ok (until_nul l) cur
       end.

(* ------------------------------------------------------------ skipWhites *)
Fixpoint white_scan (fuel : nat) (s : str) (i : nat) : res unit :=
  match fuel with
  | O => OutOfFuel
  | S f => rd c <- s @ i ;;
           if is_white c then white_scan f s (S i) else Ok tt i
  end.
Definition skip_whites (s : str) (i : nat) : res unit := white_scan (fuel_at s i) s i.

(* ------------------------------------------------------- parseIdentifier *)
Fixpoint ident_scan (fuel : nat) (s : str) (i : nat) : res unit :=
  match fuel with
  | O => OutOfFuel
  | S f => rd c <- s @ i ;;
           if is_id_char c then ident_scan f s (S i) else Ok tt i
  end.

(* returns Some identifier (true) or None (false, cursor unchanged) *)
Definition parse_identifier (s : str) (i : nat) : res (option str) :=
  rd c <- s @ i ;;
  if is_id_start c then
    do (_, e) <- ident_scan (fuel_at s (S i)) s (S i) ;;
    do (id, e') <- make_string s i e e ;;
    Ok (Some id) e'
  else Ok None i.

(* ------------------------------------------------------------ parseString *)
(* repaired loop:  while ( *s != q && *s != 0) { if ( *s == BACKSLASH && s[1] != 0) ++s; ++s; } *)
Fixpoint string_scan (fuel : nat) (s : str) (i : nat) (q : N) : res unit :=
  match fuel with
  | O => OutOfFuel
  | S f => rd c <- s @ i ;;
           if (c =? q) || (c =? 0) then Ok tt i
           else if c =? c_bs then
                  rd c1 <- s @ (S i) ;;
                  if c1 =? 0 then string_scan f s (S i) q
                  else string_scan f s (S (S i)) q
                else string_scan f s (S i) q
  end.

(* loop as found:  while ( *s != q) { if ( *s == BACKSLASH) ++s; ++s; } *)
Fixpoint string_scan_old (fuel : nat) (s : str) (i : nat) (q : N) : res unit :=
  match fuel with
  | O => OutOfFuel
  | S f => rd c <- s @ i ;;
           if c =? q then Ok tt i
           else if c =? c_bs then string_scan_old f s (S (S i)) q
                else string_scan_old f s (S i) q
  end.

Definition parse_string_with (scan : nat -> str -> nat -> N -> res unit)
           (s : str) (i : nat) : res str :=
  rd c <- s @ i ;;
  let q := if c =? c_dq then c_dq else c_sq in
  do (_, b) <- consume s i q ;;
  do (_, e) <- scan (fuel_at s b) s b q ;;
  do (v, e') <- make_string s b e e ;;
  do (_, j) <- consume s e' q ;;
  Ok v j.

Definition parse_string := parse_string_with string_scan.
Definition parse_string_old := parse_string_with string_scan_old.

(* -------------------------------------------------------------- parseProp *)
Definition parse_prop_with (pstr : str -> nat -> res str)
           (s : str) (i : nat) : res (option (str * str)) :=
  do (on, i1) <- parse_identifier s i ;;
  match on with
  | None => Ok None i1
  | Some name =>
      do (_, i2) <- skip_whites s i1 ;;
      do (_, i3) <- consume s i2 c_eq ;;
      do (_, i4) <- skip_whites s i3 ;;
      do (_, i5) <- expect2 s i4 c_dq c_sq ;;
      do (v, i6) <- pstr s i5 ;;
      Ok (Some (name, v)) i6
  end.
Definition parse_prop := parse_prop_with parse_string.

(* ---------------------------------------------- consumeComment/skipComment *)
(* while (!((s[0]==0) || (s[0]=='-' && s[1]=='-' && s[2]=='>'))) ++s; *)
Fixpoint comment_scan (fuel : nat) (s : str) (i : nat) : res unit :=
  match fuel with
  | O => OutOfFuel
  | S f => rd c0 <- s @ i ;;
           if c0 =? 0 then Ok tt i
           else if c0 =? c_dash then
                  rd c1 <- s @ (S i) ;;
                  if c1 =? c_dash then
                    rd c2 <- s @ (S (S i)) ;;
                    if c2 =? c_gt then Ok tt i else comment_scan f s (S i)
                  else comment_scan f s (S i)
                else comment_scan f s (S i)
  end.

Definition consume_comment (s : str) (i : nat) : res unit :=
  do (_, i1) <- consume s i c_lt ;;
  do (_, i2) <- consume s i1 c_bang ;;
  do (_, i3) <- comment_scan (fuel_at s i2) s i2 ;;
  do (_, i4) <- consume s i3 c_dash ;;
  do (_, i5) <- consume s i4 c_dash ;;
  consume s i5 c_gt.

Definition skip_comment (s : str) (i : nat) : res bool :=
  rd c <- s @ i ;;
  if c =? c_lt then
    rd c1 <- s @ (S i) ;;
    if c1 =? c_bang then do (_, j) <- consume_comment s i ;; Ok true j
    else Ok false i
  else Ok false i.

(* ------------------------------------------------ std::map<string,string> *)
Fixpoint str_cmp (a b : str) : comparison :=
  match a, b with
  | [], [] => Eq
  | [], _ :: _ => Lt
  | _ :: _, [] => Gt
  | x :: a', y :: b' => match N.compare x y with
                        | Eq => str_cmp a' b'
                        | c => c
                        end
  end.

(* properties[k] = v *)
Fixpoint pm_insert (k v : str) (m : pmap) : pmap :=
  match m with
  | [] => [(k, v)]
  | (k', v') :: m' =>
      match str_cmp k k' with
      | Lt => (k, v) :: m
      | Eq => (k', v) :: m'
      | Gt => (k', v') :: pm_insert k v m'
      end
  end.

(* while (parseProp(s,name,value)) { properties[name] = value; skipWhites(s); } *)
Fixpoint props_loop_with (pstr : str -> nat -> res str)
         (fuel : nat) (s : str) (i : nat) (acc : pmap) : res pmap :=
  match fuel with
  | O => OutOfFuel
  | S f =>
      do (op, i1) <- parse_prop_with pstr s i ;;
      match op with
      | None => Ok acc i1
      | Some (k, v) =>
          do (_, i2) <- skip_whites s i1 ;;
          props_loop_with pstr f s i2 (pm_insert k v acc)
      end
  end.

(* ----------------------------------------------------- content of a node *)
(* while ( *s != '<' && *s != 0) ++s; *)
Fixpoint content_scan (fuel : nat) (s : str) (i : nat) : res unit :=
  match fuel with
  | O => OutOfFuel
  | S f => rd c <- s @ i ;;
           if (c =? c_lt) || (c =? 0) then Ok tt i else content_scan f s (S i)
  end.

(* while (isspace(end[-1])) --end;   value = the final end; e = 0 reads index -1 *)
Fixpoint trim_end (s : str) (e : nat) (cur : nat) : res nat :=
  match e with
  | O => OOB
  | S e' => rd c <- s @ e' ;;
            if is_space c then trim_end s e' cur else Ok e cur
  end.

Definition is_nil {A} (l : list A) : bool := match l with [] => true | _ => false end.
Definition opt_str (o : option str) : str := match o with Some x => x | None => [] end.

(* --------------------------------------------------------------- parseNode *)
(* [parse_node] = parseNode up to the first '>' then [node_loop] = its while(1) *)
Fixpoint parse_node_with (pstr : str -> nat -> res str)
         (fuel : nat) (s : str) (i : nat) {struct fuel} : res node :=
  match fuel with
  | O => OutOfFuel
  | S f =>
      do (_, i1) <- consume s i c_lt ;;
      do (on, i2) <- parse_identifier s i1 ;;
      match on with
      | None => Throw
      | Some name =>
          do (_, i3) <- skip_whites s i2 ;;
          do (props, i4) <- props_loop_with pstr (fuel_at s i3) s i3 [] ;;
          rd c <- s @ i4 ;;
          if c =? c_slash then
            do (_, i5) <- consume_word s i4 [c_slash; c_gt] ;;
            Ok (Node name props [] []) i5
          else
            do (_, i5) <- consume_word s i4 [c_gt] ;;
            node_loop_with pstr f s i5 name props [] []
      end
  end
with node_loop_with (pstr : str -> nat -> res str)
         (fuel : nat) (s : str) (i : nat)
         (name : str) (props : pmap) (content : str) (children : list node)
         {struct fuel} : res node :=
  match fuel with
  | O => OutOfFuel
  | S f =>
      do (_, i1) <- skip_whites s i ;;
      do (b, i2) <- skip_comment s i1 ;;
      if b then node_loop_with pstr f s i2 name props content children
      else
        rd c <- s @ i2 ;;
        if c =? c_lt then
          rd c1 <- s @ (S i2) ;;
          if c1 =? c_slash then
            do (_, i3) <- consume_word s i2 [c_lt; c_slash] ;;
            do (on, i4) <- parse_identifier s i3 ;;
            if str_eqb (opt_str on) name then
              do (_, i5) <- consume_word s i4 [c_gt] ;;
              Ok (Node name props content children) i5
            else Throw
          else
            do (ch, i3) <- parse_node_with pstr f s i2 ;;
            node_loop_with pstr f s i3 name props content (children ++ [ch])
        else if c =? 0 then
          Ok (Node name props content children) i2   (* unclosed at end of input: warning only *)
        else if negb (is_nil content) then Throw       (* two different contents *)
        else
          do (_, e) <- content_scan (fuel_at s i2) s i2 ;;
          do (e', _) <- trim_end s e e ;;
          do (txt, _) <- make_string s i2 e' e ;;
          node_loop_with pstr f s e name props txt children
  end.

(* ------------------------------------------------------------- parseHeader *)
Definition w_xml_open : list N := [c_lt; c_qm; 120; 109; 108].   (* <?xml *)
Definition w_qgt : list N := [c_qm; c_gt].                          (* ?>    *)

Definition parse_header_with (pstr : str -> nat -> res str) (s : str) (i : nat) : res bool :=
  do (_, i1) <- consume_word s i w_xml_open ;;
  rd c <- s @ i1 ;;
  if c =? c_qm then
    rd c1 <- s @ (S i1) ;;
    if c1 =? c_gt then do (_, i2) <- consume_word s i1 w_qgt ;; Ok true i2
    else Ok false i1                       (* '?' is not white: return false *)
  else if is_white c then
    do (_, i2) <- skip_whites s (S i1) ;;
    do (_, i3) <- props_loop_with pstr (fuel_at s i2) s i2 [] ;;   (* header props ignored *)
    do (_, i4) <- consume_word s i3 w_qgt ;;
    Ok true i4
  else Ok false i1.

(* ---------------------------------------------------------------- parseXML *)
Fixpoint top_loop_with (pstr : str -> nat -> res str)
         (fuel : nat) (s : str) (i : nat) (children : list node) : res (list node) :=
  match fuel with
  | O => OutOfFuel
  | S f =>
      rd c <- s @ i ;;
      if c =? 0 then Ok children i
      else
        do (b, i1) <- skip_comment s i ;;
        if b then
          do (_, i2) <- skip_whites s i1 ;;
          top_loop_with pstr f s i2 children
        else
          do (ch, i2) <- parse_node_with pstr f s i1 ;;
          do (_, i3) <- skip_whites s i2 ;;
          top_loop_with pstr f s i3 (children ++ [ch])
  end.

Definition parse_xml_with (pstr : str -> nat -> res str) (fuel : nat) (s : str) : res node :=
  do (_, i0) <-
     (rd c0 <- s @ O ;;
      if c0 =? c_lt then
        rd c1 <- s @ 1%nat ;;
        if c1 =? c_qm then
          do (ok, j) <- parse_header_with pstr s O ;;
          if ok then Ok tt j else Throw
        else Ok tt O
      else Ok tt O) ;;
  do (_, i1) <- skip_whites s i0 ;;
  do (ch, i2) <- top_loop_with pstr fuel s i1 [] ;;
  Ok (Node [] [] [] ch) i2.

(* every loop iteration and every parseNode call consumes at least one byte and
   a fuel unit is spent per parseNode call and per loop iteration *)
Definition doc_fuel (s : str) : nat := (2 * length s + 4)%nat.

(* readXML on the bytes s (the repaired reader) *)
Definition parse (s : str) : res node := parse_xml_with parse_string (doc_fuel s) s.
(* the reader as found *)
Definition parse_old (s : str) : res node := parse_xml_with parse_string_old (doc_fuel s) s.

Definition parse_node := parse_node_with parse_string.
Definition node_loop := node_loop_with parse_string.
Definition props_loop := props_loop_with parse_string.
Definition parse_header := parse_header_with parse_string.
Definition top_loop := top_loop_with parse_string.
