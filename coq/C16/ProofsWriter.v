(* C16 -- round trip of the library's own Writer through the reader, and getProp/hasProp. *)
From Common Require Import Prelude.
From C16 Require Import Model Render Proofs ProofsRender ProofsMap WriterModel.

Lemma wrun_app a : forall b st,
  wrun (a ++ b) st = match wrun a st with Some st' => wrun b st' | None => None end.
Proof.
  induction a as [|op a IH]; intros b st; simpl; [reflexivity|].
  destruct (wstep op st); [apply IH | reflexivity].
Qed.

Definition pair_ok (p : str * str) : bool := identb (fst p) && val_okb c_dq (snd p).
Definition wprops (ps : list (str * str)) : str :=
  flat_map (fun p => 32%N :: fst p ++ 61%N :: 34%N :: snd p ++ [34%N]) ps.

Lemma val_nz v : val_okb c_dq v = true -> until_nul v = v.
Proof. intro H. apply until_nul_nz. eapply (val_okb_nz c_dq (length v)); auto. Qed.
Lemma id_nz v : identb v = true -> until_nul v = v.
Proof. intro H. apply until_nul_nz. apply identb_nz. exact H. Qed.

Lemma wrun_props ty : forall ps out,
  forallb pair_ok ps = true ->
  wrun (map (fun p => WProp (fst p) (snd p)) ps) (MkW out [(false, ty)])
  = Some (MkW (out ++ wprops ps) [(false, ty)]).
Proof.
  induction ps as [|[n v] ps IH]; intros out H; simpl.
  - rewrite app_nil_r. reflexivity.
  - simpl in H. apply andb_true_iff in H as [Hp H]. unfold pair_ok in Hp. simpl in Hp.
    apply andb_true_iff in Hp as [Hn Hv]. rewrite (id_nz _ Hn), (val_nz _ Hv).
    rewrite IH by exact H. simpl. repeat (rewrite <- app_assoc; simpl). reflexivity.
Qed.

Lemma render_lprops : forall ps,
  (match ps with [] => [] | _ => [32%N] end) ++ render_props (lprops_of ps) = wprops ps.
Proof.
  induction ps as [|[n v] ps IH]; [reflexivity|].
  cbn [lprops_of render_props wprops flat_map fst snd]. unfold render_prop. cbn [lp_name lp_w1 lp_w2 lp_dq lp_val lp_w3 quote].
  fold (wprops ps). rewrite <- IH. change c_eq with 61%N. change c_dq with 34%N.
  destruct ps as [|q ps]; simpl; repeat (rewrite <- app_assoc; simpl); reflexivity.
Qed.

Lemma wrun_node n out :
  wf_wnode n = true ->
  wrun (ops_of_node n) (MkW out []) = Some (MkW (out ++ render_node (lnode_of n) ++ [10%N]) []).
Proof.
  destruct n as [name ps]. unfold wf_wnode, ops_of_node. cbn [wn_name wn_props]. intro H.
  apply andb_true_iff in H as [Hn Hps]. cbn [wrun wstep w_stack w_out length indent repeat concat].
  rewrite (id_nz _ Hn). rewrite wrun_app, wrun_props by exact Hps. cbn [wrun wstep w_stack w_out].
  f_equal. f_equal. unfold lnode_of. cbn [wn_name wn_props render_node].
  change c_lt with 60%N. change c_slash with 47%N. change c_gt with 62%N.
  rewrite <- (render_lprops ps). repeat (rewrite <- app_assoc; simpl). reflexivity.
Qed.

Lemma wrun_nodes : forall ns out,
  forallb wf_wnode ns = true ->
  wrun (flat_map ops_of_node ns) (MkW out []) = Some (MkW (out ++ render_items (items_of ns)) []).
Proof.
  induction ns as [|n ns IH]; intros out H; cbn [flat_map items_of render_items wrun].
  - rewrite app_nil_r. reflexivity.
  - cbn [forallb] in H. apply andb_true_iff in H as [Hn H]. rewrite wrun_app, (wrun_node n out Hn).
    rewrite IH by exact H. repeat (rewrite <- app_assoc; simpl). reflexivity.
Qed.

Lemma writer_output_render d :
  wf_wdoc d = true -> writer_output (ops_of d) = Some (render_doc (ldoc_of d)).
Proof.
  destruct d as [[v|] ns]; unfold wf_wdoc, ops_of, writer_output, ldoc_of; cbn [wd_version wd_nodes]; intro H.
  - apply andb_true_iff in H as [Hv H]. cbn [app wrun wstep w_out w_stack]. rewrite (val_nz _ Hv).
    rewrite wrun_app, wrun_nodes by exact H. cbn [wrun wstep w_out]. f_equal.
    unfold render_doc. cbn [ld_header ld_ws ld_items render_header render_props]. unfold render_prop.
    cbn [lp_name lp_w1 lp_w2 lp_dq lp_val lp_w3 quote]. unfold w_hdr1, w_hdr2, w_xml_open, w_qgt, w_version.
    change c_lt with 60%N. change c_qm with 63%N. change c_eq with 61%N. change c_dq with 34%N. change c_gt with 62%N.
    repeat (rewrite <- app_assoc; simpl). reflexivity.
  - simpl in H. cbn [app]. rewrite wrun_app, wrun_nodes by exact H. cbn [wrun wstep w_out]. reflexivity.
Qed.

Lemma lprops_wf : forall ps, forallb pair_ok ps = true -> forallb wf_prop (lprops_of ps) = true.
Proof.
  induction ps as [|[n v] ps IH]; intro H; [reflexivity|].
  simpl in H. apply andb_true_iff in H as [Hp H]. unfold pair_ok in Hp. simpl in Hp.
  apply andb_true_iff in Hp as [Hn Hv]. cbn [lprops_of forallb]. rewrite (IH H), andb_true_r.
  unfold wf_prop. cbn [lp_name lp_w1 lp_w2 lp_dq lp_val lp_w3 quote forallb]. rewrite Hn, Hv.
  destruct ps; reflexivity.
Qed.

Lemma items_wf : forall ns, forallb wf_wnode ns = true -> wf_items false (items_of ns) = true.
Proof.
  induction ns as [|[name ps] ns IH]; intro H; [reflexivity|].
  simpl in H. apply andb_true_iff in H as [Hn H]. unfold wf_wnode in Hn. cbn [wn_name wn_props] in Hn.
  apply andb_true_iff in Hn as [Hname Hps].
  cbn [items_of wf_items lnode_of wn_name wn_props wf_node forallb]. rewrite (IH H), andb_true_r, andb_true_r.
  unfold wf_head. rewrite Hname, (lprops_wf ps Hps). destruct ps as [|[a b] ps]; reflexivity.
Qed.

Lemma ldoc_wf d : wf_wdoc d = true -> wf_doc (ldoc_of d) = true.
Proof.
  destruct d as [[v|] ns]; unfold wf_wdoc, ldoc_of, wf_doc; cbn [wd_version wd_nodes ld_header ld_ws ld_items]; intro H.
  - apply andb_true_iff in H as [Hv H]. rewrite (items_wf ns H).
    cbn [wf_header forallb]. unfold wf_prop. cbn [lp_name lp_w1 lp_w2 lp_dq lp_val lp_w3 quote forallb]. rewrite Hv. reflexivity.
  - simpl in H. rewrite (items_wf ns H). reflexivity.
Qed.

Lemma pm_of_lprops : forall ps acc,
  pm_of (lprops_of ps) acc = fold_left (fun m p => pm_insert (fst p) (snd p) m) ps acc.
Proof. induction ps as [|[n v] ps IH]; intro acc; [reflexivity|]. cbn [lprops_of]. unfold pm_of in *. simpl. apply IH. Qed.

Lemma children_items : forall ns,
  children_of (items_of ns) = map (fun n => Node (wn_name n) (pm_of_pairs (wn_props n)) [] []) ns.
Proof.
  induction ns as [|n ns IH]; [reflexivity|]. cbn [items_of children_of map]. rewrite IH. f_equal.
  unfold lnode_of. cbn [node_of]. unfold pm_of_pairs. rewrite pm_of_lprops. reflexivity.
Qed.

Lemma doc_of_ldoc d : doc_of (ldoc_of d) = tree_of d.
Proof. destruct d as [[v|] ns]; unfold ldoc_of, doc_of, tree_of; cbn [wd_version wd_nodes ld_items]; rewrite children_items; reflexivity. Qed.

Lemma writer_round_trip d :
  wf_wdoc d = true ->
  exists out, writer_output (ops_of d) = Some out /\ parse out = Ok (tree_of d) (length out).
Proof.
  intro H. exists (render_doc (ldoc_of d)). split; [apply writer_output_render; exact H|].
  rewrite <- doc_of_ldoc. apply parse_render. apply ldoc_wf. exact H.
Qed.

(* ---- hasProp / getProp on the parsed property map *)
Lemma last_prop_pairs k : forall ps,
  last_prop k (lprops_of ps) = fold_left (fun o p => if str_eqb k (fst p) then Some (snd p) else o) ps None.
Proof.
  unfold last_prop. generalize (@None str) as o. intros o ps. revert o.
  induction ps as [|[n v] ps IH]; intro o; [reflexivity|]. cbn [lprops_of fold_left lp_name lp_val fst snd]. apply IH.
Qed.

Definition last_pair (k : str) (ps : list (str * str)) : option str :=
  fold_left (fun o p => if str_eqb k (fst p) then Some (snd p) else o) ps None.

Lemma find_pairs k ps : pm_find k (pm_of_pairs ps) = last_pair k ps.
Proof. unfold pm_of_pairs, last_pair. rewrite <- pm_of_lprops, pm_of_lookup. apply last_prop_pairs. Qed.

Lemma has_prop_written k ps :
  has_prop k (pm_of_pairs ps) = match last_pair k ps with Some _ => true | None => false end.
Proof. unfold has_prop. rewrite find_pairs. reflexivity. Qed.

Lemma get_prop_written k fb ps :
  get_prop_or k fb (pm_of_pairs ps) = match last_pair k ps with Some v => v | None => fb end.
Proof. unfold get_prop_or. rewrite find_pairs. reflexivity. Qed.
