(* C16 -- model of rkcommon::xml::Writer (XML.cpp:301-387) as a state machine over the output bytes,
   and of Node::hasProp / getProp.  Definitions only.
   The Writer's state is the output written so far and the stack of open nodes (State: hasContent,
   type), as in the source.  [None] = an assert of the source fails (with NDEBUG: undefined).
   fprintf with %s of x.c_str() writes x up to its first NUL ([until_nul]).
   As in the source, NOTHING ever sets hasContent and openNode does not terminate the start tag of
   the enclosing node: see Properties.v (writer_nested_refuted). *)
From Common Require Import Prelude.
From C16 Require Import Model Render.
Local Open Scope N_scope.

Inductive wop :=
| WHeader (version : str)
| WFooter
| WOpen (ty : str)
| WProp (name value : str)
| WClose.

Record wst := MkW { w_out : str; w_stack : list (bool * str) }.

Definition indent (n : nat) : str := concat (repeat [32; 32] n).
Definition w_hdr1 : str := [60; 63; 120; 109; 108; 32; 118; 101; 114; 115; 105; 111; 110; 61; 34].  (* <?xml version=DQ *)
Definition w_hdr2 : str := [34; 63; 62; 10].                                                        (* DQ ?> LF *)

Definition wstep (op : wop) (st : wst) : option wst :=
  match op with
  | WHeader v => Some (MkW (w_out st ++ w_hdr1 ++ until_nul v ++ w_hdr2) (w_stack st))
  | WFooter => Some st
  | WOpen ty =>
      Some (MkW (w_out st ++ indent (length (w_stack st)) ++ 60 :: until_nul ty) ((false, ty) :: w_stack st))
  | WProp n v =>
      match w_stack st with
      | (false, _) :: _ => Some (MkW (w_out st ++ 32 :: until_nul n ++ 61 :: 34 :: until_nul v ++ [34]) (w_stack st))
      | _ => None
      end
  | WClose =>
      match w_stack st with
      | (h, ty) :: r =>
          Some (MkW (w_out st ++ (if h then 60 :: 47 :: until_nul ty ++ [62] else [47; 62; 10])) r)
      | [] => None
      end
  end.

Fixpoint wrun (ops : list wop) (st : wst) : option wst :=
  match ops with
  | [] => Some st
  | op :: r => match wstep op st with Some st' => wrun r st' | None => None end
  end.

Definition writer_output (ops : list wop) : option str :=
  match wrun ops (MkW [] []) with Some st => Some (w_out st) | None => None end.

(* ---- the op sequences the reader can read back: an optional header first, then nodes that are
   NOT nested, each with its properties, the footer last *)
Record wnode := MkWn { wn_name : str; wn_props : list (str * str) }.
Record wdoc := MkWd { wd_version : option str; wd_nodes : list wnode }.

Definition ops_of_node (n : wnode) : list wop :=
  WOpen (wn_name n) :: map (fun p => WProp (fst p) (snd p)) (wn_props n) ++ [WClose].
Definition ops_of (d : wdoc) : list wop :=
  (match wd_version d with Some v => [WHeader v] | None => [] end)
  ++ flat_map ops_of_node (wd_nodes d) ++ [WFooter].

Definition wf_wnode (n : wnode) : bool :=
  identb (wn_name n) && forallb (fun p => identb (fst p) && val_okb c_dq (snd p)) (wn_props n).
Definition wf_wdoc (d : wdoc) : bool :=
  (match wd_version d with Some v => val_okb c_dq v | None => true end) && forallb wf_wnode (wd_nodes d).

Definition pm_of_pairs (ps : list (str * str)) : pmap :=
  fold_left (fun m p => pm_insert (fst p) (snd p) m) ps [].
Definition tree_of (d : wdoc) : node :=
  Node [] [] [] (map (fun n => Node (wn_name n) (pm_of_pairs (wn_props n)) [] []) (wd_nodes d)).

(* the Writer's output as a laid-out document of Render.v *)
Fixpoint lprops_of (ps : list (str * str)) : list lprop :=
  match ps with
  | [] => []
  | (n, v) :: r => LProp n [] [] true v (match r with [] => [] | _ => [32] end) :: lprops_of r
  end.
Definition lnode_of (n : wnode) : lnode :=
  LSelf (wn_name n) (match wn_props n with [] => [] | _ => [32] end) (lprops_of (wn_props n)).
Fixpoint items_of (ns : list wnode) : litems :=
  match ns with
  | [] => INil
  | n :: r => IChild (lnode_of n) [10] (items_of r)
  end.
Definition w_version : str := [118; 101; 114; 115; 105; 111; 110].
Definition ldoc_of (d : wdoc) : ldoc :=
  match wd_version d with
  | Some v => LDoc (HProps 32 [] [LProp w_version [] [] true v []]) [10] (items_of (wd_nodes d))
  | None => LDoc HNone [] (items_of (wd_nodes d))
  end.

(* ---- Node::hasProp / getProp (std::map::find) *)
Definition has_prop (k : str) (m : pmap) : bool :=
  match pm_find k m with Some _ => true | None => false end.
Definition get_prop_or (k fallback : str) (m : pmap) : str :=
  match pm_find k m with Some v => v | None => fallback end.
Definition get_prop (k : str) (m : pmap) : str := get_prop_or k [] m.     (* getProp(name) = getProp(name, empty) *)

(* example data *)
Definition ex_wdoc : wdoc :=
  MkWd (Some [49; 46; 48])
       [MkWn [97] [([107], [118; 32; 119]); ([120], []); ([107], [50])]; MkWn [98] []].
Definition ex_nested : list wop := [WOpen [97]; WOpen [98]; WClose; WClose].
(* writeProperty(k, value) with value = x DQ SP z = DQ 1 *)
Definition ex_inject : list wop := [WOpen [97]; WProp [107] [120; 34; 32; 122; 61; 34; 49]; WClose].
