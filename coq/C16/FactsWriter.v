(* C16 -- meaning of the extracted Writer / Node-accessor programs (FactsDefs.v vocabulary) and the
   proofs that the expected programs denote WriterModel.v. *)
From Coq Require Import String.
From Common Require Import Prelude.
From C16 Require Import Model Render WriterModel FactsDefs.
Local Open Scope string_scope.
Local Open Scope list_scope.

(* fprintf: every %s is replaced by the next argument (a C string: up to its first NUL) *)
Fixpoint fmt_subst (f : str) (args : list str) : str :=
  match f with
  | [] => []
  | c :: f' =>
      match f' with
      | d :: f'' => if (N.eqb c 37 && N.eqb d 115)%bool
                    then until_nul (hd [] args) ++ fmt_subst f'' (tl args)
                    else c :: fmt_subst f' args
      | [] => [c]
      end
  end.

Inductive wres := WR (st : wst) | WFail | WStuck.

Definition arg_val (params : list (string * str)) (st : wst) (a : warg) : option str :=
  match a with
  | GParam x => Some (aget [] params x)
  | GTopType => match w_stack st with (_, ty) :: _ => Some ty | [] => None end
  | GUnk => None
  end.
Fixpoint arg_vals params st (l : list warg) : option (list str) :=
  match l with
  | [] => Some []
  | a :: l' => match arg_val params st a, arg_vals params st l' with
               | Some v, Some vs => Some (v :: vs) | _, _ => None end
  end.

Fixpoint nrepeat (n : nat) (f : wst -> wres) (st : wst) : wres :=
  match n with O => WR st | S k => match f st with WR st' => nrepeat k f st' | r => r end end.

Fixpoint wexec1 (params : list (string * str)) (s : wstmt) (st : wst) : wres :=
  match s with
  | WAssert AXml | WAssert ATopPtr | WNop => WR st
  | WAssert ANonEmpty => match w_stack st with [] => WFail | _ => WR st end
  | WAssert ANoContent => match w_stack st with (false, _) :: _ => WR st | (true, _) :: _ => WFail | [] => WStuck end
  | WAssert AUnk => WStuck
  | WTop => match w_stack st with [] => WFail | _ => WR st end
  | WPrintf f args => match arg_vals params st args with
                      | Some vs => WR (MkW (w_out st ++ fmt_subst f vs) (w_stack st))
                      | None => WStuck end
  | WSpaces => WR (MkW (w_out st ++ indent (length (w_stack st))) (w_stack st))
  | WRepeatDepth body => nrepeat (length (w_stack st)) (wexec1 params body) st
  | WPushNew x => WR (MkW (w_out st) ((false, aget [] params x) :: w_stack st))
  | WIfHasContent t e => match w_stack st with
                         | (true, _) :: _ => wexec1 params t st
                         | (false, _) :: _ => wexec1 params e st
                         | [] => WStuck end
  | WPop => match w_stack st with _ :: r => WR (MkW (w_out st) r) | [] => WStuck end
  | WUnkS _ => WStuck
  end.
Fixpoint wexec (params : list (string * str)) (p : list wstmt) (st : wst) : wres :=
  match p with
  | [] => WR st
  | s :: p' => match wexec1 params s st with WR st' => wexec params p' st' | r => r end
  end.

Definition of_model (o : option wst) : wres := match o with Some st => WR st | None => WFail end.

Lemma spaces_sem st : wexec [] x_w_spaces st = WR (MkW (w_out st ++ indent (length (w_stack st))) (w_stack st)).
Proof.
  unfold x_w_spaces. cbn [wexec wexec1]. destruct st as [out stack]. cbn [w_stack w_out].
  assert (H : forall n out0, nrepeat n (wexec1 [] (WPrintf [32%N; 32%N] [])) (MkW out0 stack)
                              = WR (MkW (out0 ++ indent n) stack)).
  { induction n as [|n IH]; intro out0; cbn [nrepeat indent repeat concat].
    - rewrite app_nil_r. reflexivity.
    - cbn [wexec1 arg_vals fmt_subst w_out w_stack N.eqb Pos.eqb andb]. rewrite IH.
      unfold indent. rewrite <- app_assoc. reflexivity. }
  rewrite H. reflexivity.
Qed.

Lemma writeHeader_sem v st : wexec [("version", v)] x_w_writeHeader st = of_model (wstep (WHeader v) st).
Proof. reflexivity. Qed.
Lemma writeFooter_sem st : wexec [] x_w_writeFooter st = of_model (wstep WFooter st).
Proof. reflexivity. Qed.
Lemma openNode_sem ty st : wexec [("type", ty)] x_w_openNode st = of_model (wstep (WOpen ty) st).
Proof.
  destruct st as [out stack]. cbn. rewrite app_nil_r, <- app_assoc. reflexivity.
Qed.
Lemma writeProperty_sem n v st :
  wexec [("name", n); ("value", v)] x_w_writeProperty st = of_model (wstep (WProp n v) st).
Proof.
  destruct st as [out [|[[|] ty] stack]]; cbn; try reflexivity.
Qed.
Lemma closeNode_sem st : wexec [] x_w_closeNode st = of_model (wstep WClose st).
Proof.
  destruct st as [out [|[[|] ty] stack]]; cbn; try reflexivity.
Qed.

(* Node::hasProp / getProp *)
Definition nf_has (f : nodefn) (k : str) (m : pmap) : option bool :=
  match f with NHasFind => Some (match pm_find k m with Some _ => true | None => false end) | _ => None end.
Definition nf_get (f : nodefn) (k fb : str) (m : pmap) : option str :=
  match f with
  | NGetFindOrFallback => Some (match pm_find k m with Some v => v | None => fb end)
  | NGetViaFallbackEmpty => Some (match pm_find k m with Some v => v | None => [] end)
  | _ => None
  end.
