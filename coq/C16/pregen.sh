#!/bin/bash
# Regenerates gen/Facts.v (the bodies of XML.cpp's static parsing functions as cursor programs) from the
# repository working tree so that the Coq project builds from clean (bin/setup); the check does the same
# on every run.
cd "$(dirname "$0")"
mkdir -p gen
exec python3 ../../props/C16/factgen.py --repo "${VERIF_REPO:-/repo}" --out gen/Facts.v --work ../../build/C16/ast 2>/dev/null
