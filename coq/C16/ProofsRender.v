(* C16 -- faithfulness: reading a rendered laid-out document gives back its tree.
   One "app" lemma per parsing function: when the text at the cursor is x ++ r, x being what
   the function is meant to consume and r starting with a suitable delimiter, the function
   returns x's value with the cursor on r.  Then mutual induction on nodes / item lists. *)
From Common Require Import Prelude.
From C16 Require Import Model Render Proofs.

Notation hd0 := (hd 0%N).

(* ------------------------------------------------- "the text at cursor i is r" *)
Definition sfx (s : str) (i : nat) (r : str) : Prop := i <= length s /\ skipn i s = r.

Lemma sfx_0 s : sfx s 0 s.
Proof. split; [lia | reflexivity]. Qed.

Lemma sfx_len s i r : sfx s i r -> length s = i + length r.
Proof. intros [Hi <-]. rewrite skipn_length. lia. Qed.

Lemma skipn_app_exact {A} (x r : list A) : skipn (length x) (x ++ r) = r.
Proof. induction x; simpl; auto. Qed.

Lemma skipn_add {A} (n : nat) : forall i (s : list A), skipn n (skipn i s) = skipn (i + n) s.
Proof. induction i as [|i IH]; intros [|a s]; simpl; auto. destruct n; reflexivity. Qed.

Lemma sfx_app s i x r : sfx s i (x ++ r) -> sfx s (i + length x) r.
Proof.
  intro H. pose proof (sfx_len _ _ _ H) as L. rewrite app_length in L. destruct H as [Hi E].
  split; [lia|]. rewrite <- skipn_add, E. apply skipn_app_exact.
Qed.

Lemma sfx_cons s i c r : sfx s i (c :: r) -> sfx s (S i) r.
Proof.
  intro H. replace (S i) with (i + length [c]) by (simpl; lia). apply sfx_app. exact H.
Qed.

Lemma sfx_uniq s i j r : sfx s i r -> sfx s j r -> i = j.
Proof. intros H1 H2. apply sfx_len in H1, H2. lia. Qed.

Lemma sfx_nil s j : sfx s j [] -> j = length s.
Proof. intro H. apply sfx_len in H. simpl in H. lia. Qed.

Lemma nth_skipn_hd (s : str) : forall i, nth i s 0%N = hd0 (skipn i s).
Proof. induction s as [|c s IH]; intros [|i]; simpl; auto. Qed.

Lemma sfx_peek s i r : sfx s i r -> peek s i = Some (hd0 r).
Proof.
  intros [Hi <-]. unfold peek. destruct (Nat.leb_spec i (length s)); [|lia].
  rewrite nth_skipn_hd. reflexivity.
Qed.

Lemma sfx_peek1 s i c r : sfx s i (c :: r) -> peek s (S i) = Some (hd0 r).
Proof. intro H. apply sfx_peek. eapply sfx_cons. exact H. Qed.

(* sfx s b (y ++ c :: r) and sfx s e r: e is one past the position of c *)
Lemma sfx_before s b y c r e :
  sfx s b (y ++ c :: r) -> sfx s e r -> exists e0, e = S e0 /\ sfx s e0 (c :: r).
Proof.
  intros Hb He. exists (b + length y). pose proof (sfx_app _ _ _ _ Hb) as H0.
  split; [|exact H0]. eapply sfx_uniq; [exact He|]. eapply sfx_cons. exact H0.
Qed.

(* ---------------------------------------------------------- character facts *)
Definition nz (x : str) : bool := forallb (fun c => negb (c =? 0)%N) x.

Lemma id_start_not_white c : is_id_start c = true -> is_white c = false.
Proof. unfold is_id_start, is_white, is_alpha, c_us. lia. Qed.
Lemma id_start_id_char c : is_id_start c = true -> is_id_char c = true.
Proof. unfold is_id_start, is_id_char, is_alpha, is_digit, c_us, c_dot. lia. Qed.
Lemma white_not_id_char c : is_white c = true -> is_id_char c = false.
Proof. unfold is_id_char, is_white, is_alpha, is_digit, c_us, c_dot. lia. Qed.
Lemma id_start_not c w : is_id_start c = true -> is_id_start w = false -> (c =? w)%N = false.
Proof. intros H1 H2. apply N.eqb_neq. intros ->. congruence. Qed.
Lemma id_char_nz0 c : is_id_char c = true -> negb (c =? 0)%N = true.
Proof. unfold is_id_char, is_alpha, is_digit, c_us, c_dot. lia. Qed.
Lemma space_not_stop c : is_space c = true -> negb (c =? c_lt)%N && negb (c =? 0)%N = true.
Proof. unfold is_space, c_lt. lia. Qed.
Lemma white_space c : is_white c = true -> is_space c = true.
Proof. unfold is_white, is_space. lia. Qed.
Lemma quote_not_white b : is_white (quote b) = false.
Proof. destruct b; reflexivity. Qed.

Lemma until_nul_nz x : nz x = true -> until_nul x = x.
Proof.
  induction x as [|c x IH]; simpl; [reflexivity|]. intro H. apply andb_true_iff in H as [H1 H2].
  destruct (c =? 0)%N; [discriminate|]. rewrite IH; auto.
Qed.

Lemma forallb_imp {A} (f g : A -> bool) l :
  (forall a, f a = true -> g a = true) -> forallb f l = true -> forallb g l = true.
Proof.
  intros Hfg. induction l as [|a l IH]; simpl; [auto|]. intro H. apply andb_true_iff in H as [H1 H2].
  rewrite (Hfg _ H1), IH; auto.
Qed.

(* ------------------------------------------------------------ leaf functions *)
Lemma consume_app s i c r : sfx s i (c :: r) -> consume s i c = Ok tt (S i).
Proof. intro H. unfold consume. rewrite (sfx_peek _ _ _ H). simpl. rewrite N.eqb_refl. reflexivity. Qed.

Lemma consume_word_app s : forall w i r,
  sfx s i (w ++ r) -> exists j, consume_word s i w = Ok tt j /\ sfx s j r.
Proof.
  induction w as [|c w IH]; intros i r H; simpl.
  - exists i. auto.
  - simpl in H. rewrite (consume_app _ _ _ _ H). apply IH. eapply sfx_cons. exact H.
Qed.

Lemma read_range_app s : forall x b r, sfx s b (x ++ r) -> read_range s b (length x) = Some x.
Proof.
  induction x as [|c x IH]; intros b r H; simpl; [reflexivity|].
  simpl in H. rewrite (sfx_peek _ _ _ H). simpl. rewrite (IH (S b) r); [reflexivity|].
  eapply sfx_cons. exact H.
Qed.

Lemma make_string_app s b e x r cur :
  sfx s b (x ++ r) -> sfx s e r -> nz x = true -> make_string s b e cur = Ok x cur.
Proof.
  intros Hb He Hx. assert (e = b + length x) as ->.
  { eapply sfx_uniq; [exact He|]. apply sfx_app. exact Hb. }
  unfold make_string. destruct (Nat.ltb_spec (b + length x) b); [lia|].
  replace (b + length x - b) with (length x) by lia.
  rewrite (read_range_app _ _ _ _ Hb), until_nul_nz; auto.
Qed.

(* ------------------------------------------------------------ scanning loops *)
Lemma white_scan_app s : forall w fuel i r,
  sfx s i (w ++ r) -> forallb is_white w = true -> is_white (hd0 r) = false -> length w < fuel ->
  exists j, white_scan fuel s i = Ok tt j /\ sfx s j r.
Proof.
  induction w as [|c w IH]; intros [|f] i r H Hw Hr Hf; try (simpl in Hf; lia); cbn [white_scan].
  - simpl in H. rewrite (sfx_peek _ _ _ H), Hr. exists i. auto.
  - simpl in H, Hw. apply andb_true_iff in Hw as [Hc Hw].
    rewrite (sfx_peek _ _ _ H). simpl hd. rewrite Hc.
    apply IH; auto; [eapply sfx_cons; exact H | simpl in Hf; lia].
Qed.

Lemma skip_whites_app s i w r :
  sfx s i (w ++ r) -> forallb is_white w = true -> is_white (hd0 r) = false ->
  exists j, skip_whites s i = Ok tt j /\ sfx s j r.
Proof.
  intros H Hw Hr. apply white_scan_app with (w := w); auto.
  apply sfx_len in H. rewrite app_length in H. unfold fuel_at. lia.
Qed.

Lemma ident_scan_app s : forall w fuel i r,
  sfx s i (w ++ r) -> forallb is_id_char w = true -> is_id_char (hd0 r) = false -> length w < fuel ->
  exists j, ident_scan fuel s i = Ok tt j /\ sfx s j r.
Proof.
  induction w as [|c w IH]; intros [|f] i r H Hw Hr Hf; try (simpl in Hf; lia); cbn [ident_scan].
  - simpl in H. rewrite (sfx_peek _ _ _ H), Hr. exists i. auto.
  - simpl in H, Hw. apply andb_true_iff in Hw as [Hc Hw].
    rewrite (sfx_peek _ _ _ H). simpl hd. rewrite Hc.
    apply IH; auto; [eapply sfx_cons; exact H | simpl in Hf; lia].
Qed.

Definition not_stop (c : N) : bool := negb (c =? c_lt)%N && negb (c =? 0)%N.

Lemma content_scan_app s : forall w fuel i r,
  sfx s i (w ++ r) -> forallb not_stop w = true -> not_stop (hd0 r) = false -> length w < fuel ->
  exists j, content_scan fuel s i = Ok tt j /\ sfx s j r.
Proof.
  induction w as [|c w IH]; intros [|f] i r H Hw Hr Hf; try (simpl in Hf; lia); cbn [content_scan].
  - simpl in H. rewrite (sfx_peek _ _ _ H). unfold not_stop in Hr.
    destruct ((hd0 r =? c_lt)%N || (hd0 r =? 0)%N) eqn:E; [exists i; auto | lia].
  - simpl in H, Hw. apply andb_true_iff in Hw as [Hc Hw].
    rewrite (sfx_peek _ _ _ H). simpl hd. unfold not_stop in Hc.
    destruct ((c =? c_lt)%N || (c =? 0)%N) eqn:E; [lia|].
    apply IH; auto; [eapply sfx_cons; exact H | simpl in Hf; lia].
Qed.

(* ------------------------------------------------------- parseIdentifier *)
Lemma identb_nz id : identb id = true -> nz id = true.
Proof.
  destruct id as [|c id]; simpl; [discriminate|]. intro H. apply andb_true_iff in H as [H1 H2].
  rewrite (id_char_nz0 c (id_start_id_char c H1)). simpl.
  eapply forallb_imp; [|exact H2]. apply id_char_nz0.
Qed.

Lemma parse_identifier_app s i id r :
  sfx s i (id ++ r) -> identb id = true -> is_id_char (hd0 r) = false ->
  exists j, parse_identifier s i = Ok (Some id) j /\ sfx s j r.
Proof.
  intros H Hid Hr. pose proof (identb_nz _ Hid) as Hnz.
  destruct id as [|c id]; [discriminate|]. simpl in Hid. apply andb_true_iff in Hid as [Hc Hid].
  unfold parse_identifier. simpl in H. rewrite (sfx_peek _ _ _ H). simpl hd. rewrite Hc.
  destruct (ident_scan_app s id (fuel_at s (S i)) (S i) r) as [e [E He]]; auto.
  { eapply sfx_cons; exact H. }
  { apply sfx_len in H. simpl in H. rewrite app_length in H. unfold fuel_at. lia. }
  rewrite E. rewrite (make_string_app s i e (c :: id) r e H He Hnz). exists e. auto.
Qed.

Lemma parse_identifier_none s i r :
  sfx s i r -> is_id_start (hd0 r) = false -> parse_identifier s i = Ok None i.
Proof. intros H Hr. unfold parse_identifier. rewrite (sfx_peek _ _ _ H), Hr. reflexivity. Qed.

(* ------------------------------------------------------------ parseString *)
Lemma val_okb_nz q : forall n v, length v <= n -> val_okb q v = true -> nz v = true.
Proof.
  induction n as [|n IH]; intros v Hn Hv.
  - destruct v; [reflexivity | simpl in Hn; lia].
  - destruct v as [|c v]; [reflexivity|]. simpl in Hv, Hn. destruct (c =? c_bs)%N eqn:B.
    + destruct v as [|c1 v]; [discriminate|]. apply andb_true_iff in Hv as [H1 H2].
      apply N.eqb_eq in B. subst c. simpl. rewrite H1. simpl. apply IH; [simpl in Hn; lia | exact H2].
    + apply andb_true_iff in Hv as [H1 H2]. apply andb_true_iff in H1 as [_ H1].
      simpl. rewrite H1. simpl. apply IH; [lia | exact H2].
Qed.

Lemma string_scan_app s dq : forall n v, length v <= n -> forall fuel i r,
  sfx s i (v ++ quote dq :: r) -> val_okb (quote dq) v = true -> length v < fuel ->
  exists j, string_scan fuel s i (quote dq) = Ok tt j /\ sfx s j (quote dq :: r).
Proof.
  induction n as [|n IH]; intros v Hn [|f] i r H Hv Hf; try lia; cbn [string_scan].
  - destruct v; [|simpl in Hn; lia]. simpl in H. rewrite (sfx_peek _ _ _ H). simpl hd.
    rewrite N.eqb_refl. simpl. exists i. auto.
  - destruct v as [|c v].
    + simpl in H. rewrite (sfx_peek _ _ _ H). simpl hd. rewrite N.eqb_refl. simpl. exists i. auto.
    + simpl in H, Hv, Hn, Hf. rewrite (sfx_peek _ _ _ H). simpl hd.
      destruct (c =? c_bs)%N eqn:B.
      * apply N.eqb_eq in B. subst c.
        destruct v as [|c1 v]; [discriminate|]. apply andb_true_iff in Hv as [H1 H2].
        replace ((c_bs =? quote dq)%N || (c_bs =? 0)%N) with false by (destruct dq; reflexivity).
        simpl app in H. rewrite (sfx_peek1 _ _ _ _ H). simpl hd.
        destruct (c1 =? 0)%N; [discriminate|].
        apply (IH v); auto; [simpl in Hn; lia | eapply sfx_cons, sfx_cons; exact H | simpl in Hf; lia].
      * apply andb_true_iff in Hv as [H1 H2]. apply andb_true_iff in H1 as [H0 H1].
        destruct (c =? quote dq)%N; [discriminate|]. destruct (c =? 0)%N; [discriminate|]. simpl.
        apply (IH v); auto; [lia | eapply sfx_cons; exact H | lia].
Qed.

Lemma parse_string_app s i dq v r :
  sfx s i (quote dq :: v ++ quote dq :: r) -> val_okb (quote dq) v = true ->
  exists j, parse_string s i = Ok v j /\ sfx s j r.
Proof.
  intros H Hv. unfold parse_string, parse_string_with. rewrite (sfx_peek _ _ _ H). simpl hd.
  replace (if (quote dq =? c_dq)%N then c_dq else c_sq) with (quote dq) by (destruct dq; reflexivity).
  rewrite (consume_app _ _ _ _ H). pose proof (sfx_cons _ _ _ _ H) as Hb.
  destruct (string_scan_app s dq (length v) v (le_n _) (fuel_at s (S i)) (S i) r) as [e [E He]]; auto.
  { apply sfx_len in Hb. rewrite app_length in Hb. unfold fuel_at. lia. }
  rewrite E.
  rewrite (make_string_app s (S i) e v (quote dq :: r) e Hb He (val_okb_nz _ _ v (le_n _) Hv)).
  rewrite (consume_app _ _ _ _ He). exists (S e). split; [reflexivity|]. eapply sfx_cons; exact He.
Qed.

(* -------------------------------------------------------------- parseProp *)
Lemma render_prop_app p r :
  render_prop p ++ r =
  lp_name p ++ lp_w1 p ++ c_eq :: lp_w2 p ++ quote (lp_dq p) :: lp_val p ++ quote (lp_dq p) :: lp_w3 p ++ r.
Proof. unfold render_prop. repeat (rewrite <- app_assoc; simpl). reflexivity. Qed.

Lemma hd_white_then w c r :
  forallb is_white w = true -> is_id_char c = false -> is_id_char (hd0 (w ++ c :: r)) = false.
Proof.
  destruct w as [|a w]; simpl; [auto|]. intros H _. apply andb_true_iff in H as [H _].
  apply white_not_id_char. exact H.
Qed.

Lemma parse_prop_app s i p r :
  sfx s i (render_prop p ++ r) -> wf_prop p = true ->
  exists j, parse_prop s i = Ok (Some (lp_name p, lp_val p)) j /\ sfx s j (lp_w3 p ++ r).
Proof.
  intros H Hp. rewrite render_prop_app in H. unfold wf_prop in Hp.
  apply andb_true_iff in Hp as [Hp Hw3]. apply andb_true_iff in Hp as [Hp Hv].
  apply andb_true_iff in Hp as [Hp Hw2]. apply andb_true_iff in Hp as [Hn Hw1].
  unfold parse_prop, parse_prop_with.
  destruct (parse_identifier_app _ _ _ _ H Hn) as [i1 [E1 H1]].
  { apply hd_white_then; auto. }
  rewrite E1.
  destruct (skip_whites_app _ _ _ _ H1 Hw1) as [i2 [E2 H2]]; [reflexivity|]. rewrite E2.
  rewrite (consume_app _ _ _ _ H2). pose proof (sfx_cons _ _ _ _ H2) as H3.
  destruct (skip_whites_app _ _ _ _ H3 Hw2) as [i4 [E4 H4]]; [apply quote_not_white|]. rewrite E4.
  unfold expect2. rewrite (sfx_peek _ _ _ H4). simpl hd.
  replace ((quote (lp_dq p) =? c_dq)%N || (quote (lp_dq p) =? c_sq)%N) with true
    by (destruct (lp_dq p); reflexivity).
  destruct (parse_string_app _ _ _ _ _ H4 Hv) as [i6 [E6 H6]]. rewrite E6.
  exists i6. auto.
Qed.

Lemma hd_props ps r (P : N -> bool) :
  (forall c, is_id_start c = true -> P c = false) ->
  forallb wf_prop ps = true -> P (hd0 r) = false -> P (hd0 (render_props ps ++ r)) = false.
Proof.
  intros HP. destruct ps as [|p ps]; simpl; [auto|]. intros H _.
  apply andb_true_iff in H as [H _]. unfold wf_prop in H.
  repeat (apply andb_true_iff in H as [H _]).
  unfold render_prop. destruct (lp_name p) as [|c n]; [discriminate|]. simpl.
  apply HP. simpl in H. apply andb_true_iff in H as [H _]. exact H.
Qed.

Lemma render_props_length ps : length ps <= length (render_props ps).
Proof.
  induction ps as [|p ps IH]; simpl; [lia|]. rewrite app_length. unfold render_prop.
  rewrite !app_length. simpl. lia.
Qed.

Lemma props_loop_app s : forall ps fuel i acc r,
  sfx s i (render_props ps ++ r) -> forallb wf_prop ps = true ->
  is_white (hd0 r) = false -> is_id_start (hd0 r) = false -> length ps < fuel ->
  exists j, props_loop fuel s i acc = Ok (pm_of ps acc) j /\ sfx s j r.
Proof.
  induction ps as [|p ps IH]; intros [|f] i acc r H Hps Hw Hi Hf; try (simpl in Hf; lia);
    unfold props_loop; cbn [props_loop_with]; fold (parse_prop s i).
  - simpl in H. unfold parse_prop, parse_prop_with. rewrite (parse_identifier_none _ _ _ H Hi).
    exists i. auto.
  - simpl in H, Hps. apply andb_true_iff in Hps as [Hp Hps]. rewrite <- app_assoc in H.
    destruct (parse_prop_app _ _ _ _ H Hp) as [i1 [E1 H1]]. rewrite E1.
    destruct (skip_whites_app _ _ _ _ H1) as [i2 [E2 H2]].
    { unfold wf_prop in Hp. apply andb_true_iff in Hp as [_ Hp]. exact Hp. }
    { apply hd_props; auto. apply id_start_not_white. }
    rewrite E2. apply IH; auto. simpl in Hf. lia.
Qed.

Lemma props_loop_app_at s ps i acc r :
  sfx s i (render_props ps ++ r) -> forallb wf_prop ps = true ->
  is_white (hd0 r) = false -> is_id_start (hd0 r) = false ->
  exists j, props_loop (fuel_at s i) s i acc = Ok (pm_of ps acc) j /\ sfx s j r.
Proof.
  intros H Hps Hw Hi. apply props_loop_app; auto.
  apply sfx_len in H. rewrite app_length in H. pose proof (render_props_length ps).
  unfold fuel_at. lia.
Qed.
