(* C16 -- faithfulness: reading a rendered laid-out document gives back its tree.
   One "app" lemma per parsing function: when the text at the cursor is x ++ r, x being what
   the function is meant to consume and r starting with a suitable delimiter, the function
   returns x's value with the cursor on r.  Then mutual induction on nodes / item lists. *)
From Common Require Import Prelude.
From C16 Require Import Model Render Proofs.

Notation hd0 := (hd 0%N).

(* ------------------------------------------------- "the text at cursor i is r" *)
Definition sfx (s : str) (i : nat) (r : str) : Prop := i <= length s /\ skipn i s = r.

Lemma sfx_0 s : sfx s 0 s.
Proof. split; [lia | reflexivity]. Qed.

Lemma sfx_len s i r : sfx s i r -> length s = i + length r.
Proof. intros [Hi <-]. rewrite skipn_length. lia. Qed.

Lemma skipn_app_exact {A} (x r : list A) : skipn (length x) (x ++ r) = r.
Proof. induction x; simpl; auto. Qed.

Lemma skipn_add {A} (n : nat) : forall i (s : list A), skipn n (skipn i s) = skipn (i + n) s.
Proof. induction i as [|i IH]; intros [|a s]; simpl; auto. destruct n; reflexivity. Qed.

Lemma sfx_app s i x r : sfx s i (x ++ r) -> sfx s (i + length x) r.
Proof.
  intro H. pose proof (sfx_len _ _ _ H) as L. rewrite app_length in L. destruct H as [Hi E].
  split; [lia|]. rewrite <- skipn_add, E. apply skipn_app_exact.
Qed.

Lemma sfx_cons s i c r : sfx s i (c :: r) -> sfx s (S i) r.
Proof.
  intro H. replace (S i) with (i + length [c]) by (simpl; lia). apply sfx_app. exact H.
Qed.

Ltac len_norm H := repeat (rewrite app_length in H || (progress cbn [length] in H)).
Ltac sfx_lens := repeat match goal with
  | H : sfx ?s ?i ?r |- _ =>
      lazymatch goal with
      | _ : length s = i + length r |- _ => fail
      | _ => let L := fresh "L" in pose proof (sfx_len s i r H) as L
      end
  end.

Lemma sfx_uniq s i j r : sfx s i r -> sfx s j r -> i = j.
Proof. intros H1 H2. apply sfx_len in H1, H2. lia. Qed.

Lemma sfx_nil s j : sfx s j [] -> j = length s.
Proof. intro H. apply sfx_len in H. simpl in H. lia. Qed.

Lemma nth_skipn_hd (s : str) : forall i, nth i s 0%N = hd0 (skipn i s).
Proof. induction s as [|c s IH]; intros [|i]; simpl; auto. Qed.

Lemma sfx_peek s i r : sfx s i r -> peek s i = Some (hd0 r).
Proof.
  intros [Hi <-]. unfold peek. destruct (Nat.leb_spec i (length s)); [|lia].
  rewrite nth_skipn_hd. reflexivity.
Qed.

Lemma sfx_peek1 s i c r : sfx s i (c :: r) -> peek s (S i) = Some (hd0 r).
Proof. intro H. apply sfx_peek. eapply sfx_cons. exact H. Qed.

(* sfx s b (y ++ c :: r) and sfx s e r: e is one past the position of c *)
Lemma sfx_before s b y c r e :
  sfx s b (y ++ c :: r) -> sfx s e r -> exists e0, e = S e0 /\ sfx s e0 (c :: r).
Proof.
  intros Hb He. exists (b + length y). pose proof (sfx_app _ _ _ _ Hb) as H0.
  split; [|exact H0]. eapply sfx_uniq; [exact He|]. eapply sfx_cons. exact H0.
Qed.

(* ---------------------------------------------------------- character facts *)
Definition nz (x : str) : bool := forallb (fun c => negb (c =? 0)%N) x.

Lemma id_start_not_white c : is_id_start c = true -> is_white c = false.
Proof. unfold is_id_start, is_white, is_alpha, c_us. lia. Qed.
Lemma id_start_id_char c : is_id_start c = true -> is_id_char c = true.
Proof. unfold is_id_start, is_id_char, is_alpha, is_digit, c_us, c_dot. lia. Qed.
Lemma white_not_id_char c : is_white c = true -> is_id_char c = false.
Proof. unfold is_id_char, is_white, is_alpha, is_digit, c_us, c_dot. lia. Qed.
Lemma id_start_not c w : is_id_start c = true -> is_id_start w = false -> (c =? w)%N = false.
Proof. intros H1 H2. apply N.eqb_neq. intros ->. congruence. Qed.
Lemma id_char_nz0 c : is_id_char c = true -> negb (c =? 0)%N = true.
Proof. unfold is_id_char, is_alpha, is_digit, c_us, c_dot. lia. Qed.
Lemma space_not_stop c : is_space c = true -> negb (c =? c_lt)%N && negb (c =? 0)%N = true.
Proof. unfold is_space, c_lt. lia. Qed.
Lemma white_space c : is_white c = true -> is_space c = true.
Proof. unfold is_white, is_space. lia. Qed.
Lemma quote_not_white b : is_white (quote b) = false.
Proof. destruct b; reflexivity. Qed.

Lemma until_nul_nz x : nz x = true -> until_nul x = x.
Proof.
  induction x as [|c x IH]; simpl; [reflexivity|]. intro H. apply andb_true_iff in H as [H1 H2].
  destruct (c =? 0)%N; [discriminate|]. rewrite IH; auto.
Qed.

Lemma forallb_imp {A} (f g : A -> bool) l :
  (forall a, f a = true -> g a = true) -> forallb f l = true -> forallb g l = true.
Proof.
  intros Hfg. induction l as [|a l IH]; simpl; [auto|]. intro H. apply andb_true_iff in H as [H1 H2].
  rewrite (Hfg _ H1), IH; auto.
Qed.

(* ------------------------------------------------------------ leaf functions *)
Lemma consume_app s i c r : sfx s i (c :: r) -> consume s i c = Ok tt (S i).
Proof. intro H. unfold consume. rewrite (sfx_peek _ _ _ H). simpl. rewrite N.eqb_refl. reflexivity. Qed.

Lemma consume_word_app s : forall w i r,
  sfx s i (w ++ r) -> exists j, consume_word s i w = Ok tt j /\ sfx s j r.
Proof.
  induction w as [|c w IH]; intros i r H; simpl.
  - exists i. auto.
  - simpl in H. rewrite (consume_app _ _ _ _ H). apply IH. eapply sfx_cons. exact H.
Qed.

Lemma read_range_app s : forall x b r, sfx s b (x ++ r) -> read_range s b (length x) = Some x.
Proof.
  induction x as [|c x IH]; intros b r H; simpl; [reflexivity|].
  simpl in H. rewrite (sfx_peek _ _ _ H). simpl. rewrite (IH (S b) r); [reflexivity|].
  eapply sfx_cons. exact H.
Qed.

Lemma make_string_app s b e x r cur :
  sfx s b (x ++ r) -> sfx s e r -> nz x = true -> make_string s b e cur = Ok x cur.
Proof.
  intros Hb He Hx. assert (e = b + length x) as ->.
  { eapply sfx_uniq; [exact He|]. apply sfx_app. exact Hb. }
  unfold make_string. destruct (Nat.ltb_spec (b + length x) b); [lia|].
  replace (b + length x - b) with (length x) by lia.
  rewrite (read_range_app _ _ _ _ Hb), until_nul_nz; auto.
Qed.

(* ------------------------------------------------------------ scanning loops *)
Lemma white_scan_app s : forall w fuel i r,
  sfx s i (w ++ r) -> forallb is_white w = true -> is_white (hd0 r) = false -> length w < fuel ->
  exists j, white_scan fuel s i = Ok tt j /\ sfx s j r.
Proof.
  induction w as [|c w IH]; intros [|f] i r H Hw Hr Hf; try (simpl in Hf; lia); cbn [white_scan].
  - simpl in H. rewrite (sfx_peek _ _ _ H), Hr. exists i. auto.
  - simpl in H, Hw. apply andb_true_iff in Hw as [Hc Hw].
    rewrite (sfx_peek _ _ _ H). simpl hd. rewrite Hc.
    apply IH; auto; [eapply sfx_cons; exact H | simpl in Hf; lia].
Qed.

Lemma skip_whites_app s i w r :
  sfx s i (w ++ r) -> forallb is_white w = true -> is_white (hd0 r) = false ->
  exists j, skip_whites s i = Ok tt j /\ sfx s j r.
Proof.
  intros H Hw Hr. apply white_scan_app with (w := w); auto.
  apply sfx_len in H. rewrite app_length in H. unfold fuel_at. lia.
Qed.

Lemma ident_scan_app s : forall w fuel i r,
  sfx s i (w ++ r) -> forallb is_id_char w = true -> is_id_char (hd0 r) = false -> length w < fuel ->
  exists j, ident_scan fuel s i = Ok tt j /\ sfx s j r.
Proof.
  induction w as [|c w IH]; intros [|f] i r H Hw Hr Hf; try (simpl in Hf; lia); cbn [ident_scan].
  - simpl in H. rewrite (sfx_peek _ _ _ H), Hr. exists i. auto.
  - simpl in H, Hw. apply andb_true_iff in Hw as [Hc Hw].
    rewrite (sfx_peek _ _ _ H). simpl hd. rewrite Hc.
    apply IH; auto; [eapply sfx_cons; exact H | simpl in Hf; lia].
Qed.

Definition not_stop (c : N) : bool := negb (c =? c_lt)%N && negb (c =? 0)%N.

Lemma content_scan_app s : forall w fuel i r,
  sfx s i (w ++ r) -> forallb not_stop w = true -> not_stop (hd0 r) = false -> length w < fuel ->
  exists j, content_scan fuel s i = Ok tt j /\ sfx s j r.
Proof.
  induction w as [|c w IH]; intros [|f] i r H Hw Hr Hf; try (simpl in Hf; lia); cbn [content_scan].
  - simpl in H. rewrite (sfx_peek _ _ _ H). unfold not_stop in Hr.
    destruct ((hd0 r =? c_lt)%N || (hd0 r =? 0)%N) eqn:E; [exists i; auto | lia].
  - simpl in H, Hw. apply andb_true_iff in Hw as [Hc Hw].
    rewrite (sfx_peek _ _ _ H). simpl hd. unfold not_stop in Hc.
    destruct ((c =? c_lt)%N || (c =? 0)%N) eqn:E; [lia|].
    apply IH; auto; [eapply sfx_cons; exact H | simpl in Hf; lia].
Qed.

(* ------------------------------------------------------- parseIdentifier *)
Lemma identb_nz id : identb id = true -> nz id = true.
Proof.
  destruct id as [|c id]; simpl; [discriminate|]. intro H. apply andb_true_iff in H as [H1 H2].
  rewrite (id_char_nz0 c (id_start_id_char c H1)). simpl.
  eapply forallb_imp; [|exact H2]. apply id_char_nz0.
Qed.

Lemma parse_identifier_app s i id r :
  sfx s i (id ++ r) -> identb id = true -> is_id_char (hd0 r) = false ->
  exists j, parse_identifier s i = Ok (Some id) j /\ sfx s j r.
Proof.
  intros H Hid Hr. pose proof (identb_nz _ Hid) as Hnz.
  destruct id as [|c id]; [discriminate|]. simpl in Hid. apply andb_true_iff in Hid as [Hc Hid].
  unfold parse_identifier. simpl in H. rewrite (sfx_peek _ _ _ H). simpl hd. rewrite Hc.
  destruct (ident_scan_app s id (fuel_at s (S i)) (S i) r) as [e [E He]]; auto.
  { eapply sfx_cons; exact H. }
  { apply sfx_len in H. simpl in H. rewrite app_length in H. unfold fuel_at. lia. }
  rewrite E. rewrite (make_string_app s i e (c :: id) r e H He Hnz). exists e. auto.
Qed.

Lemma parse_identifier_none s i r :
  sfx s i r -> is_id_start (hd0 r) = false -> parse_identifier s i = Ok None i.
Proof. intros H Hr. unfold parse_identifier. rewrite (sfx_peek _ _ _ H), Hr. reflexivity. Qed.

(* ------------------------------------------------------------ parseString *)
Lemma val_okb_nz q : forall n v, length v <= n -> val_okb q v = true -> nz v = true.
Proof.
  induction n as [|n IH]; intros v Hn Hv.
  - destruct v; [reflexivity | simpl in Hn; lia].
  - destruct v as [|c v]; [reflexivity|]. simpl in Hv, Hn. destruct (c =? c_bs)%N eqn:B.
    + destruct v as [|c1 v]; [discriminate|]. apply andb_true_iff in Hv as [H1 H2].
      apply N.eqb_eq in B. subst c. simpl. rewrite H1. simpl. apply IH; [simpl in Hn; lia | exact H2].
    + apply andb_true_iff in Hv as [H1 H2]. apply andb_true_iff in H1 as [_ H1].
      simpl. rewrite H1. simpl. apply IH; [lia | exact H2].
Qed.

Lemma string_scan_app s dq : forall n v, length v <= n -> forall fuel i r,
  sfx s i (v ++ quote dq :: r) -> val_okb (quote dq) v = true -> length v < fuel ->
  exists j, string_scan fuel s i (quote dq) = Ok tt j /\ sfx s j (quote dq :: r).
Proof.
  induction n as [|n IH]; intros v Hn [|f] i r H Hv Hf; try lia; cbn [string_scan].
  - destruct v; [|simpl in Hn; lia]. simpl in H. rewrite (sfx_peek _ _ _ H). simpl hd.
    rewrite N.eqb_refl. simpl. exists i. auto.
  - destruct v as [|c v].
    + simpl in H. rewrite (sfx_peek _ _ _ H). simpl hd. rewrite N.eqb_refl. simpl. exists i. auto.
    + simpl in H, Hv, Hn, Hf. rewrite (sfx_peek _ _ _ H). simpl hd.
      destruct (c =? c_bs)%N eqn:B.
      * apply N.eqb_eq in B. subst c.
        destruct v as [|c1 v]; [discriminate|]. apply andb_true_iff in Hv as [H1 H2].
        replace ((c_bs =? quote dq)%N || (c_bs =? 0)%N) with false by (destruct dq; reflexivity).
        simpl app in H. rewrite (sfx_peek1 _ _ _ _ H). simpl hd.
        destruct (c1 =? 0)%N; [discriminate|].
        apply (IH v); auto; [simpl in Hn; lia | eapply sfx_cons, sfx_cons; exact H | simpl in Hf; lia].
      * apply andb_true_iff in Hv as [H1 H2]. apply andb_true_iff in H1 as [H0 H1].
        destruct (c =? quote dq)%N; [discriminate|]. destruct (c =? 0)%N; [discriminate|]. simpl.
        apply (IH v); auto; [lia | eapply sfx_cons; exact H | lia].
Qed.

Lemma parse_string_app s i dq v r :
  sfx s i (quote dq :: v ++ quote dq :: r) -> val_okb (quote dq) v = true ->
  exists j, parse_string s i = Ok v j /\ sfx s j r.
Proof.
  intros H Hv. unfold parse_string, parse_string_with. rewrite (sfx_peek _ _ _ H). simpl hd.
  replace (if (quote dq =? c_dq)%N then c_dq else c_sq) with (quote dq) by (destruct dq; reflexivity).
  rewrite (consume_app _ _ _ _ H). pose proof (sfx_cons _ _ _ _ H) as Hb.
  destruct (string_scan_app s dq (length v) v (le_n _) (fuel_at s (S i)) (S i) r) as [e [E He]]; auto.
  { apply sfx_len in Hb. rewrite app_length in Hb. unfold fuel_at. lia. }
  rewrite E.
  rewrite (make_string_app s (S i) e v (quote dq :: r) e Hb He (val_okb_nz _ _ v (le_n _) Hv)).
  rewrite (consume_app _ _ _ _ He). exists (S e). split; [reflexivity|]. eapply sfx_cons; exact He.
Qed.

(* -------------------------------------------------------------- parseProp *)
Lemma render_prop_app p r :
  render_prop p ++ r =
  lp_name p ++ lp_w1 p ++ c_eq :: lp_w2 p ++ quote (lp_dq p) :: lp_val p ++ quote (lp_dq p) :: lp_w3 p ++ r.
Proof. unfold render_prop. repeat (rewrite <- app_assoc; simpl). reflexivity. Qed.

Lemma hd_white_then w c r :
  forallb is_white w = true -> is_id_char c = false -> is_id_char (hd0 (w ++ c :: r)) = false.
Proof.
  destruct w as [|a w]; simpl; [auto|]. intros H _. apply andb_true_iff in H as [H _].
  apply white_not_id_char. exact H.
Qed.

Lemma parse_prop_app s i p r :
  sfx s i (render_prop p ++ r) -> wf_prop p = true ->
  exists j, parse_prop s i = Ok (Some (lp_name p, lp_val p)) j /\ sfx s j (lp_w3 p ++ r).
Proof.
  intros H Hp. rewrite render_prop_app in H. unfold wf_prop in Hp.
  apply andb_true_iff in Hp as [Hp Hw3]. apply andb_true_iff in Hp as [Hp Hv].
  apply andb_true_iff in Hp as [Hp Hw2]. apply andb_true_iff in Hp as [Hn Hw1].
  unfold parse_prop, parse_prop_with.
  destruct (parse_identifier_app _ _ _ _ H Hn) as [i1 [E1 H1]].
  { apply hd_white_then; auto. }
  rewrite E1.
  destruct (skip_whites_app _ _ _ _ H1 Hw1) as [i2 [E2 H2]]; [reflexivity|]. rewrite E2.
  rewrite (consume_app _ _ _ _ H2). pose proof (sfx_cons _ _ _ _ H2) as H3.
  destruct (skip_whites_app _ _ _ _ H3 Hw2) as [i4 [E4 H4]]; [apply quote_not_white|]. rewrite E4.
  unfold expect2. rewrite (sfx_peek _ _ _ H4). simpl hd.
  replace ((quote (lp_dq p) =? c_dq)%N || (quote (lp_dq p) =? c_sq)%N) with true
    by (destruct (lp_dq p); reflexivity).
  destruct (parse_string_app _ _ _ _ _ H4 Hv) as [i6 [E6 H6]]. rewrite E6.
  exists i6. auto.
Qed.

Lemma hd_props ps r (P : N -> bool) :
  (forall c, is_id_start c = true -> P c = false) ->
  forallb wf_prop ps = true -> P (hd0 r) = false -> P (hd0 (render_props ps ++ r)) = false.
Proof.
  intros HP. destruct ps as [|p ps]; simpl; [auto|]. intros H _.
  apply andb_true_iff in H as [H _]. unfold wf_prop in H.
  repeat (apply andb_true_iff in H as [H _]).
  unfold render_prop. destruct (lp_name p) as [|c n]; [discriminate|]. simpl.
  apply HP. simpl in H. apply andb_true_iff in H as [H _]. exact H.
Qed.

Lemma render_props_length ps : length ps <= length (render_props ps).
Proof.
  induction ps as [|p ps IH]; simpl; [lia|]. rewrite app_length. unfold render_prop.
  rewrite !app_length. simpl. lia.
Qed.

Lemma props_loop_app s : forall ps fuel i acc r,
  sfx s i (render_props ps ++ r) -> forallb wf_prop ps = true ->
  is_white (hd0 r) = false -> is_id_start (hd0 r) = false -> length ps < fuel ->
  exists j, props_loop fuel s i acc = Ok (pm_of ps acc) j /\ sfx s j r.
Proof.
  induction ps as [|p ps IH]; intros [|f] i acc r H Hps Hw Hi Hf; try (simpl in Hf; lia);
    unfold props_loop; cbn [props_loop_with]; fold (parse_prop s i).
  - simpl in H. unfold parse_prop, parse_prop_with. rewrite (parse_identifier_none _ _ _ H Hi).
    exists i. auto.
  - simpl in H, Hps. apply andb_true_iff in Hps as [Hp Hps]. rewrite <- app_assoc in H.
    destruct (parse_prop_app _ _ _ _ H Hp) as [i1 [E1 H1]]. rewrite E1.
    destruct (skip_whites_app _ _ _ _ H1) as [i2 [E2 H2]].
    { unfold wf_prop in Hp. apply andb_true_iff in Hp as [_ Hp]. exact Hp. }
    { apply hd_props; auto. apply id_start_not_white. }
    rewrite E2. apply IH; auto. simpl in Hf. lia.
Qed.

Lemma props_loop_app_at s ps i acc r :
  sfx s i (render_props ps ++ r) -> forallb wf_prop ps = true ->
  is_white (hd0 r) = false -> is_id_start (hd0 r) = false ->
  exists j, props_loop (fuel_at s i) s i acc = Ok (pm_of ps acc) j /\ sfx s j r.
Proof.
  intros H Hps Hw Hi. apply props_loop_app; auto.
  apply sfx_len in H. rewrite app_length in H. pose proof (render_props_length ps).
  unfold fuel_at. lia.
Qed.

(* ---------------------------------------------- consumeComment / skipComment *)
Lemma comment_scan_step s i c t f :
  sfx s i (c :: t) -> (c =? 0)%N = false -> pfx_close (c :: t) = false ->
  comment_scan (S f) s i = comment_scan f s (S i).
Proof.
  intros H Hc Hp. cbn [comment_scan]. rewrite (sfx_peek _ _ _ H). simpl hd. rewrite Hc.
  destruct (c =? c_dash)%N eqn:D0; [|reflexivity].
  rewrite (sfx_peek1 _ _ _ _ H). destruct t as [|c1 t]; [reflexivity|]. simpl hd.
  destruct (c1 =? c_dash)%N eqn:D1; [|reflexivity].
  pose proof (sfx_cons _ _ _ _ H) as H'. rewrite (sfx_peek1 _ _ _ _ H').
  destruct t as [|c2 t]; [reflexivity|]. simpl hd. simpl in Hp. rewrite D0, D1 in Hp. simpl in Hp.
  rewrite Hp. reflexivity.
Qed.

Lemma pfx_close_app c b r :
  pfx_close (c :: b) = false -> pfx_close (c :: b ++ w_cclose ++ r) = false.
Proof.
  destruct b as [|c1 [|c2 b]]; simpl; auto; intros _.
  - rewrite andb_false_r. reflexivity.
  - rewrite andb_false_r. reflexivity.
Qed.

Lemma comment_scan_app s : forall b fuel i r,
  sfx s i (b ++ w_cclose ++ r) -> comment_okb b = true -> length b < fuel ->
  exists j, comment_scan fuel s i = Ok tt j /\ sfx s j (w_cclose ++ r).
Proof.
  induction b as [|c b IH]; intros [|f] i r H Hb Hf; try (simpl in Hf; lia).
  - simpl in H. cbn [comment_scan]. rewrite (sfx_peek _ _ _ H). simpl.
    rewrite (sfx_peek1 _ _ _ _ H). simpl.
    pose proof (sfx_cons _ _ _ _ H) as H'. rewrite (sfx_peek1 _ _ _ _ H'). simpl.
    exists i. auto.
  - cbn [comment_okb] in Hb. apply andb_true_iff in Hb as [Hb Hb']. apply andb_true_iff in Hb as [Hc Hp].
    change ((c :: b) ++ w_cclose ++ r) with (c :: b ++ w_cclose ++ r) in H.
    rewrite (comment_scan_step s i c (b ++ w_cclose ++ r) f H).
    + apply IH; auto; [eapply sfx_cons; exact H | simpl in Hf; lia].
    + destruct (c =? 0)%N; [discriminate | reflexivity].
    + apply pfx_close_app. destruct (pfx_close (c :: b)); [discriminate | reflexivity].
Qed.

Lemma consume_comment_app s i b r :
  sfx s i (c_lt :: c_bang :: b ++ w_cclose ++ r) -> comment_okb b = true ->
  exists j, consume_comment s i = Ok tt j /\ sfx s j r.
Proof.
  intros H Hb. unfold consume_comment. rewrite (consume_app _ _ _ _ H).
  pose proof (sfx_cons _ _ _ _ H) as H1. rewrite (consume_app _ _ _ _ H1).
  pose proof (sfx_cons _ _ _ _ H1) as H2.
  destruct (comment_scan_app s b (fuel_at s (S (S i))) _ r H2 Hb) as [i3 [E3 H3]].
  { apply sfx_len in H2. rewrite app_length in H2. unfold fuel_at. lia. }
  rewrite E3. simpl in H3. rewrite (consume_app _ _ _ _ H3).
  pose proof (sfx_cons _ _ _ _ H3) as H4. rewrite (consume_app _ _ _ _ H4).
  pose proof (sfx_cons _ _ _ _ H4) as H5. rewrite (consume_app _ _ _ _ H5).
  exists (S (S (S i3))). split; [reflexivity|]. eapply sfx_cons; exact H5.
Qed.

Lemma skip_comment_app s i b r :
  sfx s i (c_lt :: c_bang :: b ++ w_cclose ++ r) -> comment_okb b = true ->
  exists j, skip_comment s i = Ok true j /\ sfx s j r.
Proof.
  intros H Hb. unfold skip_comment. rewrite (sfx_peek _ _ _ H). simpl.
  rewrite (sfx_peek1 _ _ _ _ H). simpl.
  destruct (consume_comment_app _ _ _ _ H Hb) as [j [E Hj]]. rewrite E. exists j. auto.
Qed.

(* not a comment: the text does not start with "<!" *)
Lemma skip_comment_no s i r :
  sfx s i r -> (hd0 r =? c_lt)%N && (hd0 (tl r) =? c_bang)%N = false ->
  skip_comment s i = Ok false i.
Proof.
  intros H Hr. unfold skip_comment. rewrite (sfx_peek _ _ _ H).
  destruct (hd0 r =? c_lt)%N eqn:E; [|reflexivity]. simpl in Hr.
  destruct r as [|c r]; [discriminate|]. rewrite (sfx_peek1 _ _ _ _ H). simpl in Hr. rewrite Hr.
  reflexivity.
Qed.

(* --------------------------------------------------------- content trimming *)
Lemma trim_end_app s b x cur : forall w r e,
  sfx s b (x ++ w ++ r) -> sfx s e r -> x <> [] -> is_space (last x 0%N) = false ->
  forallb is_space w = true ->
  exists e', trim_end s e cur = Ok e' cur /\ sfx s e' (w ++ r).
Proof.
  induction w as [|c w IH] using rev_ind; intros r e Hb He Hx Hl Hw.
  - simpl in Hb. destruct (exists_last Hx) as [x' [l ->]]. rewrite last_last in Hl.
    rewrite <- app_assoc in Hb. simpl in Hb.
    destruct (sfx_before _ _ _ _ _ _ Hb He) as [e0 [-> H0]].
    cbn [trim_end]. rewrite (sfx_peek _ _ _ H0). simpl hd. rewrite Hl. exists (S e0). auto.
  - rewrite forallb_app in Hw. apply andb_true_iff in Hw as [Hw Hc]. simpl in Hc.
    apply andb_true_iff in Hc as [Hc _].
    assert (Hb' : sfx s b ((x ++ w) ++ c :: r)).
    { repeat rewrite <- app_assoc in *. simpl in Hb. exact Hb. }
    destruct (sfx_before _ _ _ _ _ _ Hb' He) as [e0 [-> H0]].
    cbn [trim_end]. rewrite (sfx_peek _ _ _ H0). simpl hd. rewrite Hc.
    destruct (IH (c :: r) e0) as [e' [E' H']]; auto.
    { rewrite <- app_assoc in Hb'. exact Hb'. }
    exists e'. rewrite <- app_assoc. simpl. auto.
Qed.

(* --------------------------------------------------------------- parseNode *)
Scheme lnode_ind2 := Induction for lnode Sort Prop
  with litems_ind2 := Induction for litems Sort Prop.
Combined Scheme lnode_litems_ind from lnode_ind2, litems_ind2.

Definition w_close (name : str) (r : str) : str := c_lt :: c_slash :: name ++ c_gt :: r.

Lemma wf_head_inv name ws0 props :
  wf_head name ws0 props = true ->
  identb name = true /\ forallb is_white ws0 = true /\ forallb wf_prop props = true /\
  (props = [] \/ ws0 <> []).
Proof.
  unfold wf_head. intro H. apply andb_true_iff in H as [H H4]. apply andb_true_iff in H as [H H3].
  apply andb_true_iff in H as [H1 H2]. repeat split; auto.
  destruct props; [left; reflexivity|]. destruct ws0; [discriminate|]. right. discriminate.
Qed.

(* what follows the name of a node is not an identifier character *)
Lemma hd_after_name ws0 props c r :
  forallb is_white ws0 = true -> (props = [] \/ ws0 <> []) -> is_id_char c = false ->
  is_id_char (hd0 (ws0 ++ render_props props ++ c :: r)) = false.
Proof.
  intros Hw Hp Hc. destruct ws0 as [|a ws0].
  - destruct Hp as [-> | Hp]; [simpl; exact Hc | congruence].
  - simpl in *. apply andb_true_iff in Hw as [Hw _]. apply white_not_id_char. exact Hw.
Qed.

Lemma render_node_head n :
  wf_node n = true -> exists c t, render_node n = c_lt :: c :: t /\ is_id_start c = true.
Proof.
  destruct n as [name ws0 props | name ws0 props wbody items]; simpl; intro H.
  - apply wf_head_inv in H as [H _]. destruct name as [|c name]; [discriminate|].
    simpl in H. apply andb_true_iff in H as [H _]. simpl. eauto.
  - apply andb_true_iff in H as [H _]. apply andb_true_iff in H as [H _].
    apply wf_head_inv in H as [H _]. destruct name as [|c name]; [discriminate|].
    simpl in H. apply andb_true_iff in H as [H _]. simpl. eauto.
Qed.

(* items that may not start with text start with '<' once something starting with '<' follows *)
Lemma hd_items_lt its X :
  wf_items false its = true -> exists t, render_items its ++ c_lt :: X = c_lt :: t.
Proof.
  destruct its as [|b ws r|n ws r|t tr r]; simpl; intro H.
  - eauto.
  - eauto.
  - apply andb_true_iff in H as [H _]. apply andb_true_iff in H as [H _].
    destruct (render_node_head n H) as [c [t [-> _]]]. simpl. eauto.
  - discriminate.
Qed.

(* the common part of parseNode: "<name ws0 props" up to '/' or '>' *)
Lemma node_head_app s i name ws0 props c r :
  sfx s i (c_lt :: name ++ ws0 ++ render_props props ++ c :: r) ->
  wf_head name ws0 props = true -> (c = c_slash \/ c = c_gt) ->
  exists i1 i2 i3 i4,
    consume s i c_lt = Ok tt i1 /\ parse_identifier s i1 = Ok (Some name) i2 /\
    skip_whites s i2 = Ok tt i3 /\ props_loop (fuel_at s i3) s i3 [] = Ok (pm_of props []) i4 /\
    sfx s i4 (c :: r).
Proof.
  intros H Hh Hc. apply wf_head_inv in Hh as [Hn [Hw [Hps Hne]]].
  assert (Hc1 : is_id_char c = false) by (destruct Hc; subst c; reflexivity).
  assert (Hc2 : is_white c = false) by (destruct Hc; subst c; reflexivity).
  assert (Hc3 : is_id_start c = false) by (destruct Hc; subst c; reflexivity).
  exists (S i). pose proof (sfx_cons _ _ _ _ H) as H1.
  destruct (parse_identifier_app _ _ _ _ H1 Hn) as [i2 [E2 H2]]; [apply hd_after_name; auto|].
  destruct (skip_whites_app _ _ _ _ H2 Hw) as [i3 [E3 H3]].
  { apply hd_props; auto. apply id_start_not_white. }
  destruct (props_loop_app_at _ _ _ [] _ H3 Hps) as [i4 [E4 H4]]; auto.
  exists i2, i3, i4. split; [eapply consume_app; exact H|]. auto.
Qed.

Lemma node_app :
  (forall n, forall fuel s i r,
      sfx s i (render_node n ++ r) -> wf_node n = true -> 2 * (length s - i) + 1 <= fuel ->
      exists j, parse_node fuel s i = Ok (node_of n) j /\ sfx s j r) /\
  (forall its, forall fuel s i w name props content children r ta,
      sfx s i (w ++ render_items its ++ w_close name r) ->
      forallb is_white w = true -> wf_items ta its = true -> (ta = true -> content = []) ->
      identb name = true -> 2 * (length s - i) + 2 <= fuel ->
      exists j, node_loop fuel s i name props content children
                = Ok (Node name props (content ++ content_of its) (children ++ children_of its)) j
                /\ sfx s j r).
Proof.
  apply lnode_litems_ind.
  - (* LSelf *)
    intros name ws0 props [|f] s i r H Hwf Hf; [lia|].
    simpl in H. repeat (rewrite <- app_assoc in H; simpl in H).
    destruct (node_head_app _ _ _ _ _ _ _ H Hwf (or_introl eq_refl)) as [i1 [i2 [i3 [i4 [E1 [E2 [E3 [E4 H4]]]]]]]].
    unfold parse_node. cbn [parse_node_with]. rewrite E1, E2, E3.
    unfold props_loop in E4. rewrite E4.
    rewrite (sfx_peek _ _ _ H4). simpl hd. simpl N.eqb. cbv iota.
    destruct (consume_word_app s [c_slash; c_gt] i4 r H4) as [j [E Hj]]. rewrite E.
    exists j. simpl. auto.
  - (* LOpen *)
    intros name ws0 props wbody items IH [|f] s i r H Hwf Hf; [lia|].
    simpl in Hwf. apply andb_true_iff in Hwf as [Hwf Hit]. apply andb_true_iff in Hwf as [Hh Hwb].
    simpl in H. repeat (rewrite <- app_assoc in H; simpl in H).
    destruct (node_head_app _ _ _ _ _ _ _ H Hh (or_intror eq_refl)) as [i1 [i2 [i3 [i4 [E1 [E2 [E3 [E4 H4]]]]]]]].
    unfold parse_node. cbn [parse_node_with]. rewrite E1, E2, E3.
    unfold props_loop in E4. rewrite E4.
    rewrite (sfx_peek _ _ _ H4). simpl hd. simpl N.eqb. cbv iota.
    destruct (consume_word_app s [c_gt] i4 _ H4) as [i5 [E5 H5]]. rewrite E5.
    pose proof (sfx_len _ _ _ H) as L0. pose proof (sfx_len _ _ _ H5) as L5.
    len_norm L0. len_norm L5.
    destruct (IH f s i5 wbody name (pm_of props []) [] [] r true) as [j [E Hj]]; auto.
    { apply wf_head_inv in Hh. tauto. }
    { lia. }
    fold (node_loop f s i5 name (pm_of props []) [] []). rewrite E. simpl. exists j. auto.
  - (* INil *)
    intros [|f] s i w name props content children r ta H Hw Hwf Hta Hn Hf; [lia|].
    simpl in H. unfold node_loop. cbn [node_loop_with].
    destruct (skip_whites_app _ _ _ _ H Hw) as [i1 [E1 H1]]; [reflexivity|]. rewrite E1.
    rewrite (skip_comment_no _ _ _ H1) by reflexivity.
    unfold w_close in H1. rewrite (sfx_peek _ _ _ H1). simpl hd. simpl N.eqb. cbv iota.
    rewrite (sfx_peek1 _ _ _ _ H1). simpl hd. simpl N.eqb. cbv iota.
    destruct (consume_word_app s [c_lt; c_slash] i1 _ H1) as [i3 [E3 H3]]. rewrite E3.
    destruct (parse_identifier_app _ _ _ _ H3 Hn) as [i4 [E4 H4]]; [reflexivity|]. rewrite E4.
    simpl opt_str. rewrite str_eqb_refl.
    destruct (consume_word_app s [c_gt] i4 _ H4) as [i5 [E5 H5]]. rewrite E5.
    exists i5. simpl. rewrite !app_nil_r. auto.
  - (* IComment *)
    intros body ws rest IH [|f] s i w name props content children r ta H Hw Hwf Hta Hn Hf; [lia|].
    simpl in Hwf. apply andb_true_iff in Hwf as [Hwf Hr]. apply andb_true_iff in Hwf as [Hb Hws].
    simpl in H. repeat (rewrite <- app_assoc in H; simpl in H).
    unfold node_loop. cbn [node_loop_with].
    destruct (skip_whites_app _ _ _ _ H Hw) as [i1 [E1 H1]]; [reflexivity|]. rewrite E1.
    destruct (skip_comment_app _ _ _ _ H1 Hb) as [i2 [E2 H2]]. rewrite E2.
    pose proof (sfx_len _ _ _ H) as L0. pose proof (sfx_len _ _ _ H2) as L2.
    len_norm L0. len_norm L2.
    apply (IH f s i2 ws name props content children r ta); auto. lia.
  - (* IChild *)
    intros n IHn ws rest IH [|f] s i w name props content children r ta H Hw Hwf Hta Hn Hf; [lia|].
    simpl in Hwf. apply andb_true_iff in Hwf as [Hwf Hr]. apply andb_true_iff in Hwf as [Hnode Hws].
    simpl in H. repeat (rewrite <- app_assoc in H; simpl in H).
    destruct (render_node_head n Hnode) as [c [t [En Hc]]].
    unfold node_loop. cbn [node_loop_with].
    destruct (skip_whites_app _ _ _ _ H Hw) as [i1 [E1 H1]]; [rewrite En; reflexivity|]. rewrite E1.
    rewrite (skip_comment_no _ _ _ H1).
    2:{ rewrite En. simpl. apply id_start_not; [exact Hc | reflexivity]. }
    rewrite (sfx_peek _ _ _ H1). rewrite En. simpl hd. simpl N.eqb. cbv iota.
    assert (H1' : sfx s i1 (c_lt :: (c :: t) ++ ws ++ render_items rest ++ w_close name r))
      by (rewrite En in H1; exact H1).
    rewrite (sfx_peek1 _ _ _ _ H1'). simpl hd.
    rewrite (id_start_not c c_slash Hc eq_refl).
    pose proof (sfx_len _ _ _ H) as L0. pose proof (sfx_len _ _ _ H1) as L1.
    len_norm L0. len_norm L1.
    destruct (IHn f s i1 _ H1 Hnode) as [i3 [E3 H3]]; [lia|].
    fold (parse_node f s i1). rewrite E3.
    pose proof (sfx_len _ _ _ H3) as L3. len_norm L3.
    assert (0 < length (render_node n)) by (rewrite En; simpl; lia).
    destruct (IH f s i3 ws name props content (children ++ [node_of n]) r ta) as [j [E Hj]]; auto.
    { lia. }
    fold (node_loop f s i3 name props content (children ++ [node_of n])). rewrite E.
    exists j. split; [|exact Hj]. simpl. rewrite <- app_assoc. reflexivity.
  - (* IText *)
    intros text trail rest IH [|f] s i w name props content children r ta H Hw Hwf Hta Hn Hf; [lia|].
    simpl in Hwf. apply andb_true_iff in Hwf as [Hwf Hr]. apply andb_true_iff in Hwf as [Hwf Htr].
    apply andb_true_iff in Hwf as [Hta' Htx]. subst ta. rewrite (Hta eq_refl) in *. clear Hta.
    unfold text_okb in Htx. apply andb_true_iff in Htx as [Htx Hlast]. apply andb_true_iff in Htx as [Hfirst Hall].
    destruct text as [|c0 text]; [discriminate|].
    assert (Hc0 : not_stop c0 = true) by (simpl in Hall; apply andb_true_iff in Hall as [Hall _]; exact Hall).
    simpl in H. repeat (rewrite <- app_assoc in H; simpl in H).
    unfold node_loop. cbn [node_loop_with].
    destruct (skip_whites_app _ _ _ _ H Hw) as [i1 [E1 H1]].
    { simpl. destruct (is_white c0); [discriminate | reflexivity]. }
    rewrite E1. unfold not_stop in Hc0.
    rewrite (skip_comment_no _ _ _ H1) by (simpl; destruct (c0 =? c_lt)%N; [discriminate | reflexivity]).
    rewrite (sfx_peek _ _ _ H1). simpl hd.
    destruct (c0 =? c_lt)%N eqn:Elt; [discriminate|]. destruct (c0 =? 0)%N eqn:Ez; [discriminate|].
    simpl is_nil. cbv iota. simpl negb. cbv iota.
    destruct (hd_items_lt rest (c_slash :: name ++ c_gt :: r) Hr) as [t' Et].
    assert (H1' : sfx s i1 (((c0 :: text) ++ trail) ++ c_lt :: t')).
    { rewrite <- Et. repeat (rewrite <- app_assoc; simpl). exact H1. }
    destruct (content_scan_app s _ (fuel_at s i1) i1 _ H1') as [e [Ee He]].
    { rewrite forallb_app. change (forallb not_stop (c0 :: text)) with
        (forallb (fun c => negb (c =? c_lt)%N && negb (c =? 0)%N) (c0 :: text)). rewrite Hall. simpl.
      eapply forallb_imp; [|exact Htr]. apply space_not_stop. }
    { reflexivity. }
    { apply sfx_len in H1'. rewrite app_length in H1'. unfold fuel_at. lia. }
    rewrite Ee.
    assert (H1'' : sfx s i1 ((c0 :: text) ++ trail ++ c_lt :: t')) by (rewrite <- app_assoc in H1'; exact H1').
    destruct (trim_end_app s i1 (c0 :: text) e trail _ e H1'' He) as [e' [Ee' He']]; auto.
    { discriminate. }
    { destruct (is_space (last (c0 :: text) 0%N)); [discriminate | reflexivity]. }
    rewrite Ee'.
    rewrite (make_string_app s i1 e' (c0 :: text) _ e H1'' He').
    2:{ unfold nz. eapply forallb_imp; [|exact Hall]. intros a Ha. apply andb_true_iff in Ha as [_ Ha]. exact Ha. }
    pose proof (sfx_len _ _ _ H) as L0. pose proof (sfx_len _ _ _ He) as Le. pose proof (sfx_len _ _ _ H1') as L1.
    pose proof (sfx_len _ _ _ H1) as L1o. len_norm L0. len_norm L1. len_norm Le. len_norm L1o.
    assert (Het : sfx s e ([] ++ render_items rest ++ w_close name r)).
    { simpl. unfold w_close. rewrite Et. exact He. }
    destruct (IH f s e [] name props (c0 :: text) children r false Het) as [j [E Hj]]; auto.
    { intro; discriminate. }
    { lia. }
    fold (node_loop f s e name props (c0 :: text) children). rewrite E.
    exists j. split; [|exact Hj]. reflexivity.
Qed.

Lemma parse_node_app n fuel s i r :
  sfx s i (render_node n ++ r) -> wf_node n = true -> 2 * (length s - i) + 1 <= fuel ->
  exists j, parse_node fuel s i = Ok (node_of n) j /\ sfx s j r.
Proof. apply (proj1 node_app). Qed.

(* ------------------------------------------------------------- parseHeader *)
Lemma white_not c w : is_white c = true -> is_white w = false -> (c =? w)%N = false.
Proof. intros H1 H2. apply N.eqb_neq. intros ->. congruence. Qed.

Lemma parse_header_app s i h r :
  sfx s i (render_header h ++ r) -> wf_header h = true -> h <> HNone ->
  exists j, parse_header s i = Ok true j /\ sfx s j r.
Proof.
  intros H Hwf Hh. unfold parse_header, parse_header_with.
  destruct h as [| | w ws props]; [congruence | |]; unfold render_header in H; rewrite <- app_assoc in H;
    destruct (consume_word_app s w_xml_open i _ H) as [i1 [E1 H1]]; rewrite E1.
  - simpl in H1. rewrite (sfx_peek _ _ _ H1). simpl hd. simpl N.eqb. cbv iota.
    rewrite (sfx_peek1 _ _ _ _ H1). simpl hd. simpl N.eqb. cbv iota.
    destruct (consume_word_app s w_qgt i1 r H1) as [i2 [E2 H2]]. rewrite E2. exists i2. auto.
  - simpl in Hwf. apply andb_true_iff in Hwf as [Hwf Hps]. apply andb_true_iff in Hwf as [Hw Hws].
    simpl in H1. repeat (rewrite <- app_assoc in H1; simpl in H1).
    rewrite (sfx_peek _ _ _ H1). simpl hd. rewrite (white_not w c_qm Hw eq_refl), Hw.
    pose proof (sfx_cons _ _ _ _ H1) as H1'.
    destruct (skip_whites_app _ _ _ _ H1' Hws) as [i2 [E2 H2]].
    { apply hd_props; auto. apply id_start_not_white. }
    rewrite E2.
    destruct (props_loop_app_at _ _ _ [] _ H2 Hps) as [i3 [E3 H3]]; auto.
    unfold props_loop in E3. rewrite E3.
    destruct (consume_word_app s w_qgt i3 r H3) as [i4 [E4 H4]]. rewrite E4. exists i4. auto.
Qed.

(* ---------------------------------------------------------------- parseXML *)
Lemma hd_items_not_white its :
  wf_items false its = true -> is_white (hd0 (render_items its)) = false.
Proof.
  destruct its as [|b ws r|n ws r|t tr r]; simpl; intro H; auto.
  - apply andb_true_iff in H as [H _]. apply andb_true_iff in H as [H _].
    destruct (render_node_head n H) as [c [t [-> _]]]. reflexivity.
  - discriminate.
Qed.

Lemma top_loop_app : forall its fuel s i children,
  sfx s i (render_items its) -> wf_items false its = true -> 2 * (length s - i) + 3 <= fuel ->
  exists j, top_loop fuel s i children = Ok (children ++ children_of its) j /\ sfx s j [].
Proof.
  induction its as [| | |body ws rest IH|n _ ws rest IH|text trail rest IH]
    using litems_ind2 with (P := fun _ => True); auto;
    intros [|f] s i children H Hwf Hf; try lia; unfold top_loop; cbn [top_loop_with].
  - simpl in H. rewrite (sfx_peek _ _ _ H). simpl. exists i. rewrite app_nil_r. auto.
  - simpl in Hwf. apply andb_true_iff in Hwf as [Hwf Hr]. apply andb_true_iff in Hwf as [Hb Hws].
    simpl in H. rewrite (sfx_peek _ _ _ H). simpl hd. simpl N.eqb. cbv iota.
    destruct (skip_comment_app _ _ _ _ H Hb) as [i1 [E1 H1]]. rewrite E1.
    destruct (skip_whites_app _ _ _ _ H1 Hws) as [i2 [E2 H2]]; [apply hd_items_not_white; exact Hr|].
    rewrite E2. pose proof (sfx_len _ _ _ H) as L. pose proof (sfx_len _ _ _ H2) as L2.
    len_norm L. len_norm L2.
    apply IH; auto. lia.
  - simpl in Hwf. apply andb_true_iff in Hwf as [Hwf Hr]. apply andb_true_iff in Hwf as [Hn Hws].
    simpl in H. destruct (render_node_head n Hn) as [c [t [En Hc]]].
    rewrite (sfx_peek _ _ _ H). rewrite En. simpl hd. simpl N.eqb. cbv iota.
    rewrite (skip_comment_no _ _ _ H).
    2:{ rewrite En. simpl. apply id_start_not; [exact Hc | reflexivity]. }
    destruct (parse_node_app n f s i _ H Hn) as [i2 [E2 H2]]; [lia|].
    fold (parse_node f s i). rewrite E2.
    destruct (skip_whites_app _ _ _ _ H2 Hws) as [i3 [E3 H3]]; [apply hd_items_not_white; exact Hr|].
    rewrite E3. pose proof (sfx_len _ _ _ H) as L. pose proof (sfx_len _ _ _ H3) as L3.
    rewrite En in L. len_norm L. len_norm L3.
    destruct (IH f s i3 (children ++ [node_of n]) H3 Hr) as [j [E Hj]]; [lia|].
    fold (top_loop f s i3 (children ++ [node_of n])). rewrite E. exists j. split; [|exact Hj].
    simpl. rewrite <- app_assoc. reflexivity.
  - discriminate.
Qed.

Lemma parse_xml_no_header pstr fuel s :
  (hd0 s =? c_lt)%N && (hd0 (tl s) =? c_qm)%N = false ->
  parse_xml_with pstr fuel s =
  match skip_whites s 0 with
  | Ok _ i1 => match top_loop_with pstr fuel s i1 [] with
               | Ok ch i2 => Ok (Node [] [] [] ch) i2
               | Throw => Throw | OOB => OOB | OutOfFuel => OutOfFuel
               end
  | Throw => Throw | OOB => OOB | OutOfFuel => OutOfFuel
  end.
Proof.
  intro Hs. unfold parse_xml_with. rewrite (sfx_peek s 0 s (sfx_0 s)).
  destruct (hd0 s =? c_lt)%N eqn:E; [|reflexivity].
  destruct s as [|c s']; [discriminate|]. rewrite (sfx_peek1 _ 0 c s' (sfx_0 _)).
  simpl in Hs. rewrite Hs. reflexivity.
Qed.

Lemma parse_xml_header pstr fuel t j :
  let s := c_lt :: c_qm :: t in
  parse_header_with pstr s 0 = Ok true j ->
  parse_xml_with pstr fuel s =
  match skip_whites s j with
  | Ok _ i1 => match top_loop_with pstr fuel s i1 [] with
               | Ok ch i2 => Ok (Node [] [] [] ch) i2
               | Throw => Throw | OOB => OOB | OutOfFuel => OutOfFuel
               end
  | Throw => Throw | OOB => OOB | OutOfFuel => OutOfFuel
  end.
Proof.
  intros s E. unfold parse_xml_with. rewrite (sfx_peek s 0 s (sfx_0 s)).
  unfold s at 1. simpl hd. simpl N.eqb. cbv iota.
  rewrite (sfx_peek1 s 0 c_lt (c_qm :: t) (sfx_0 _)). simpl hd. simpl N.eqb. cbv iota.
  rewrite E. reflexivity.
Qed.

Lemma no_header_start ws its :
  forallb is_white ws = true -> wf_items false its = true ->
  let s := ws ++ render_items its in
  (hd0 s =? c_lt)%N && (hd0 (tl s) =? c_qm)%N = false.
Proof.
  intros Hws Hit. destruct ws as [|a ws]; simpl.
  - destruct its as [|b w r|n w r|t tr r]; simpl in *; auto.
    + apply andb_true_iff in Hit as [H _]. apply andb_true_iff in H as [H _].
      destruct (render_node_head n H) as [c [t [-> Hc]]]. simpl.
      apply id_start_not; [exact Hc | reflexivity].
    + discriminate.
  - simpl in Hws. apply andb_true_iff in Hws as [Ha _].
    rewrite (white_not a c_lt Ha eq_refl). reflexivity.
Qed.

Lemma body_app s i ws its :
  sfx s i (ws ++ render_items its) -> forallb is_white ws = true -> wf_items false its = true ->
  match skip_whites s i with
  | Ok _ i1 => match top_loop (doc_fuel s) s i1 [] with
               | Ok ch i2 => Ok (Node [] [] [] ch) i2
               | Throw => Throw | OOB => OOB | OutOfFuel => OutOfFuel
               end
  | Throw => Throw | OOB => OOB | OutOfFuel => OutOfFuel
  end = Ok (Node [] [] [] (children_of its)) (length s).
Proof.
  intros H Hws Hit.
  destruct (skip_whites_app _ _ _ _ H Hws) as [i1 [E1 H1]]; [apply hd_items_not_white; exact Hit|].
  rewrite E1.
  destruct (top_loop_app its (doc_fuel s) s i1 [] H1 Hit) as [j [E Hj]]; [unfold doc_fuel; lia|].
  rewrite E. simpl. rewrite (sfx_nil _ _ Hj). reflexivity.
Qed.

(* ------------------------------------------------------------ the theorem *)
Lemma render_header_start h rest :
  h <> HNone -> exists t, render_header h ++ rest = c_lt :: c_qm :: t.
Proof. destruct h; [congruence | |]; intros _; simpl; eauto. Qed.

Lemma parse_with_header h ws its :
  h <> HNone -> wf_header h = true -> forallb is_white ws = true -> wf_items false its = true ->
  parse (render_header h ++ ws ++ render_items its)
  = Ok (Node [] [] [] (children_of its)) (length (render_header h ++ ws ++ render_items its)).
Proof.
  intros Hne Hh Hws Hit.
  destruct (render_header_start h (ws ++ render_items its) Hne) as [t Et].
  destruct (parse_header_app (render_header h ++ ws ++ render_items its) 0 h (ws ++ render_items its)
              (sfx_0 _) Hh Hne) as [j [E Hj]].
  revert E Hj. rewrite Et. intros E Hj. unfold parse.
  rewrite (parse_xml_header parse_string _ t j E). apply (body_app _ j ws its); auto.
Qed.

Lemma parse_render d :
  wf_doc d = true -> parse (render_doc d) = Ok (doc_of d) (length (render_doc d)).
Proof.
  destruct d as [h ws its]. unfold wf_doc, render_doc, doc_of. simpl.
  intro H. apply andb_true_iff in H as [H Hit]. apply andb_true_iff in H as [Hh Hws].
  destruct h as [| | w hws props].
  - unfold parse. simpl render_header. simpl app.
    rewrite parse_xml_no_header by (apply no_header_start; auto).
    apply (body_app _ 0 ws its); auto. apply sfx_0.
  - apply parse_with_header; auto. discriminate.
  - apply parse_with_header; auto. discriminate.
Qed.
