(* C16 -- termination and memory safety of the reader model: the cursor invariant
   i <= length s threaded through every function (post-condition style). *)
From Common Require Import Prelude.
From C16 Require Import Model.

(* post r Q : r is Ok a j with Q a j, or Throw; never OOB, never OutOfFuel *)
Definition post {A} (r : res A) (Q : A -> nat -> Prop) : Prop :=
  match r with
  | Ok a j => Q a j
  | Throw => True
  | OOB => False
  | OutOfFuel => False
  end.

Lemma post_bind {A B} (r : res A) (k : A -> nat -> res B) (Q : A -> nat -> Prop) (Q' : B -> nat -> Prop) :
  post r Q ->
  (forall a j, Q a j -> post (k a j) Q') ->
  post (match r with Ok a j => k a j | Throw => Throw | OOB => OOB | OutOfFuel => OutOfFuel end) Q'.
Proof. destruct r; simpl; intros H1 H2; auto. Qed.

Lemma post_weaken {A} (r : res A) (Q Q' : A -> nat -> Prop) :
  post r Q -> (forall a j, Q a j -> Q' a j) -> post r Q'.
Proof. destruct r; simpl; auto. Qed.

Lemma post_rd {B} s i (k : N -> res B) (Q : B -> nat -> Prop) :
  i <= length s ->
  (forall c, peek s i = Some c -> post (k c) Q) ->
  post (match peek s i with None => OOB | Some c => k c end) Q.
Proof.
  intros Hi H. destruct (peek s i) as [c|] eqn:E; [apply H; reflexivity|].
  unfold peek in E. destruct (Nat.leb_spec i (length s)); [discriminate | lia].
Qed.

Lemma peek_nz s i c : peek s i = Some c -> c <> 0%N -> i < length s.
Proof.
  unfold peek. destruct (Nat.leb_spec i (length s)) as [Hle|Hgt]; [|discriminate].
  intros [= <-] Hnz. destruct (Nat.eq_dec i (length s)) as [->|]; [|lia].
  rewrite nth_overflow in Hnz by lia. congruence.
Qed.

Lemma peek_nth s i c : peek s i = Some c -> nth i s 0%N = c.
Proof. unfold peek. destruct (i <=? length s); congruence. Qed.

Lemma eqb_nz c w : (c =? w)%N = true -> w <> 0%N -> c <> 0%N.
Proof. intros H Hw. apply N.eqb_eq in H. congruence. Qed.

Lemma is_white_nz c : is_white c = true -> c <> 0%N.
Proof. intros H ->. discriminate. Qed.
Lemma is_id_char_nz c : is_id_char c = true -> c <> 0%N.
Proof. intros H ->. discriminate. Qed.
Lemma is_id_start_nz c : is_id_start c = true -> c <> 0%N.
Proof. intros H ->. discriminate. Qed.

(* -------------------------------------------------------- leaf functions *)
Lemma expect2_post s i w0 w1 :
  i <= length s -> post (expect2 s i w0 w1) (fun _ j => j = i).
Proof.
  intro Hi. unfold expect2. apply post_rd; [assumption|]. intros c Hc.
  destruct ((c =? w0)%N || (c =? w1)%N); simpl; auto.
Qed.

Lemma consume_post s i w :
  i <= length s -> w <> 0%N -> post (consume s i w) (fun _ j => j = S i /\ S i <= length s).
Proof.
  intros Hi Hw. unfold consume. apply post_rd; [assumption|]. intros c Hc.
  destruct (c =? w)%N eqn:E; simpl; auto.
  split; [reflexivity|]. apply (peek_nz s i c Hc). eapply eqb_nz; eauto.
Qed.

Lemma consume_post_nth s i w :
  i <= length s -> w <> 0%N ->
  post (consume s i w) (fun _ j => j = S i /\ S i <= length s /\ nth i s 0%N = w).
Proof.
  intros Hi Hw. unfold consume. apply post_rd; [assumption|]. intros c Hc.
  destruct (c =? w)%N eqn:E; simpl; auto.
  split; [reflexivity|]. split.
  - apply (peek_nz s i c Hc). eapply eqb_nz; eauto.
  - apply peek_nth in Hc. apply N.eqb_eq in E. congruence.
Qed.

Lemma consume_word_post s w : forall i,
  i <= length s -> Forall (fun c => c <> 0%N) w ->
  post (consume_word s i w) (fun _ j => j = i + length w /\ j <= length s).
Proof.
  induction w as [|c w IH]; intros i Hi Hw; simpl.
  - lia.
  - inversion Hw; subst. eapply post_bind; [apply consume_post; assumption|].
    intros [] j [-> Hj]. eapply post_weaken; [apply IH; assumption|].
    simpl. intros [] j' [-> Hj']. lia.
Qed.

Lemma read_range_some s : forall n b, b + n <= S (length s) -> read_range s b n <> None.
Proof.
  induction n as [|n IH]; intros b Hb; simpl; [discriminate|].
  unfold peek at 1. destruct (Nat.leb_spec b (length s)); [|lia].
  specialize (IH (S b)). destruct (read_range s (S b) n); [discriminate|]. apply IH. lia.
Qed.

Lemma make_string_post s b e cur :
  e <= length s -> post (make_string s b e cur) (fun _ j => j = cur).
Proof.
  intro He. unfold make_string. destruct (Nat.ltb_spec e b); simpl; [trivial|].
  pose proof (read_range_some s (e - b) b) as HR.
  destruct (read_range s b (e - b)); simpl; [reflexivity|]. apply HR; [lia|reflexivity].
Qed.

(* ---------------------------------------------------------- scanning loops *)
Lemma white_scan_post s : forall fuel i,
  i <= length s -> length s + 2 <= i + fuel ->
  post (white_scan fuel s i) (fun _ j => i <= j <= length s).
Proof.
  induction fuel as [|f IH]; intros i Hi Hf; [lia|]. cbn [white_scan].
  apply post_rd; [assumption|]. intros c Hc.
  destruct (is_white c) eqn:W; simpl; [|lia].
  pose proof (peek_nz s i c Hc (is_white_nz c W)).
  eapply post_weaken; [apply IH; lia|]. simpl. intros; lia.
Qed.

Lemma skip_whites_post s i :
  i <= length s -> post (skip_whites s i) (fun _ j => i <= j <= length s).
Proof. intro Hi. apply white_scan_post; unfold fuel_at; lia. Qed.

Lemma ident_scan_post s : forall fuel i,
  i <= length s -> length s + 2 <= i + fuel ->
  post (ident_scan fuel s i) (fun _ j => i <= j <= length s).
Proof.
  induction fuel as [|f IH]; intros i Hi Hf; [lia|]. cbn [ident_scan].
  apply post_rd; [assumption|]. intros c Hc.
  destruct (is_id_char c) eqn:W; simpl; [|lia].
  pose proof (peek_nz s i c Hc (is_id_char_nz c W)).
  eapply post_weaken; [apply IH; lia|]. simpl. intros; lia.
Qed.

Lemma content_scan_post s : forall fuel i,
  i <= length s -> length s + 2 <= i + fuel ->
  post (content_scan fuel s i) (fun _ j => i <= j <= length s).
Proof.
  induction fuel as [|f IH]; intros i Hi Hf; [lia|]. cbn [content_scan].
  apply post_rd; [assumption|]. intros c Hc.
  destruct ((c =? c_lt)%N || (c =? 0)%N) eqn:W; simpl; [lia|].
  apply orb_false_iff in W as [_ W]. apply N.eqb_neq in W.
  pose proof (peek_nz s i c Hc W).
  eapply post_weaken; [apply IH; lia|]. simpl. intros; lia.
Qed.

Lemma string_scan_post s q : forall fuel i,
  i <= length s -> length s + 2 <= i + fuel ->
  post (string_scan fuel s i q) (fun _ j => i <= j <= length s).
Proof.
  induction fuel as [|f IH]; intros i Hi Hf; [lia|]. cbn [string_scan].
  apply post_rd; [assumption|]. intros c Hc.
  destruct ((c =? q)%N || (c =? 0)%N) eqn:W; simpl; [lia|].
  apply orb_false_iff in W as [_ W]. apply N.eqb_neq in W.
  pose proof (peek_nz s i c Hc W) as Hlt.
  destruct (c =? c_bs)%N.
  - apply post_rd; [lia|]. intros c1 Hc1.
    destruct (c1 =? 0)%N eqn:Z.
    + eapply post_weaken; [apply IH; lia|]. simpl. intros; lia.
    + apply N.eqb_neq in Z. pose proof (peek_nz s (S i) c1 Hc1 Z).
      eapply post_weaken; [apply IH; lia|]. simpl. intros; lia.
  - eapply post_weaken; [apply IH; lia|]. simpl. intros; lia.
Qed.

Lemma comment_scan_post s : forall fuel i,
  i <= length s -> length s + 2 <= i + fuel ->
  post (comment_scan fuel s i) (fun _ j => i <= j <= length s).
Proof.
  induction fuel as [|f IH]; intros i Hi Hf; [lia|]. cbn [comment_scan].
  apply post_rd; [assumption|]. intros c0 Hc0.
  destruct (c0 =? 0)%N eqn:Z; simpl; [lia|].
  apply N.eqb_neq in Z. pose proof (peek_nz s i c0 Hc0 Z) as Hlt.
  assert (Hrec : post (comment_scan f s (S i)) (fun _ j => i <= j <= length s)).
  { eapply post_weaken; [apply IH; lia|]. simpl. intros; lia. }
  destruct (c0 =? c_dash)%N; [|exact Hrec].
  apply post_rd; [lia|]. intros c1 Hc1.
  destruct (c1 =? c_dash)%N eqn:D1; [|exact Hrec].
  assert (c1 <> 0%N) by (eapply eqb_nz; [eassumption | discriminate]).
  pose proof (peek_nz s (S i) c1 Hc1 H).
  apply post_rd; [lia|]. intros c2 Hc2.
  destruct (c2 =? c_gt)%N; [simpl; lia | exact Hrec].
Qed.

(* ------------------------------------------------------- parseIdentifier *)
Definition id_post (i : nat) (s : str) (o : option str) (j : nat) : Prop :=
  match o with Some _ => i < j <= length s | None => j = i end.

Lemma parse_identifier_post s i :
  i <= length s -> post (parse_identifier s i) (id_post i s).
Proof.
  intro Hi. unfold parse_identifier. apply post_rd; [assumption|]. intros c Hc.
  destruct (is_id_start c) eqn:W; simpl; [|reflexivity].
  pose proof (peek_nz s i c Hc (is_id_start_nz c W)) as Hlt.
  eapply post_bind; [apply ident_scan_post; unfold fuel_at; lia|].
  intros [] e He. simpl in He.
  eapply post_bind; [apply make_string_post; lia|].
  intros id e' Ee. cbv beta in Ee. subst e'. simpl. lia.
Qed.

(* ------------------------------------------------------------ parseString *)
Lemma parse_string_post s i :
  i <= length s -> post (parse_string s i) (fun _ j => i < j <= length s).
Proof.
  intro Hi. unfold parse_string, parse_string_with. apply post_rd; [assumption|]. intros c Hc.
  set (q := if (c =? c_dq)%N then c_dq else c_sq).
  assert (Hq : q <> 0%N) by (subst q; destruct (c =? c_dq)%N; discriminate).
  eapply post_bind; [apply consume_post; assumption|].
  intros [] b [-> Hb].
  eapply post_bind; [apply string_scan_post; unfold fuel_at; lia|].
  intros [] e He. simpl in He.
  eapply post_bind; [apply make_string_post; lia|].
  intros v e' Ee. cbv beta in Ee. subst e'.
  eapply post_bind; [apply consume_post; [lia|assumption]|].
  intros [] j [-> Hj]. simpl. lia.
Qed.

(* everything above parseString is generic in the string reader *)
Section Generic.
  Variable pstr : str -> nat -> res str.
  Hypothesis pstr_post : forall s i,
    i <= length s -> post (pstr s i) (fun _ j => i < j <= length s).

  Definition opt_post {A} (i : nat) (s : str) (o : option A) (j : nat) : Prop :=
    match o with Some _ => i < j <= length s | None => j = i end.

  Lemma parse_prop_post s i :
    i <= length s -> post (parse_prop_with pstr s i) (opt_post i s).
  Proof.
    intro Hi. unfold parse_prop_with.
    eapply post_bind; [apply parse_identifier_post; assumption|].
    intros [name|] i1 H1; simpl in H1; [|simpl; assumption].
    eapply post_bind; [apply skip_whites_post; lia|]. intros [] i2 H2. simpl in H2.
    eapply post_bind; [apply consume_post; [lia|discriminate]|]. intros [] i3 [-> H3].
    eapply post_bind; [apply skip_whites_post; lia|]. intros [] i4 H4. simpl in H4.
    eapply post_bind; [apply expect2_post; lia|]. intros [] i5 Ei5. cbv beta in Ei5. subst i5.
    eapply post_bind; [apply pstr_post; lia|]. intros v i6 H6. simpl in H6.
    simpl. lia.
  Qed.

  Lemma props_loop_post s : forall fuel i acc,
    i <= length s -> length s + 2 <= i + fuel ->
    post (props_loop_with pstr fuel s i acc) (fun _ j => i <= j <= length s).
  Proof.
    induction fuel as [|f IH]; intros i acc Hi Hf; [lia|]. cbn [props_loop_with].
    eapply post_bind; [apply parse_prop_post; assumption|].
    intros [[k v]|] i1 H1; simpl in H1; [|simpl; lia].
    eapply post_bind; [apply skip_whites_post; lia|]. intros [] i2 H2. simpl in H2.
    eapply post_weaken; [apply IH; lia|]. simpl. intros; lia.
  Qed.

  Lemma consume_comment_post s i :
    i <= length s -> post (consume_comment s i) (fun _ j => i < j <= length s).
  Proof.
    intro Hi. unfold consume_comment.
    eapply post_bind; [apply consume_post; [lia|discriminate]|]. intros [] i1 [-> H1].
    eapply post_bind; [apply consume_post; [lia|discriminate]|]. intros [] i2 [-> H2].
    eapply post_bind; [apply comment_scan_post; unfold fuel_at; lia|]. intros ? i3 H3. simpl in H3.
    eapply post_bind; [apply consume_post; [lia|discriminate]|]. intros [] i4 [-> H4].
    eapply post_bind; [apply consume_post; [lia|discriminate]|]. intros [] i5 [-> H5].
    eapply post_weaken; [apply consume_post; [lia|discriminate]|]. simpl. intros [] j [-> H6]. lia.
  Qed.

  Lemma skip_comment_post s i :
    i <= length s ->
    post (skip_comment s i) (fun b j => if b then i < j <= length s else j = i).
  Proof.
    intro Hi. unfold skip_comment. apply post_rd; [assumption|]. intros c Hc.
    destruct (c =? c_lt)%N eqn:E; simpl; [|reflexivity].
    assert (c <> 0%N) by (eapply eqb_nz; [eassumption|discriminate]).
    pose proof (peek_nz s i c Hc H).
    apply post_rd; [lia|]. intros c1 Hc1.
    destruct (c1 =? c_bang)%N; simpl; [|reflexivity].
    eapply post_bind; [apply consume_comment_post; assumption|].
    intros [] j Hj. simpl. assumption.
  Qed.

  (* the backward trimming loop stops at the latest at a '<' seen earlier *)
  Lemma trim_end_post s cur : forall e,
    e <= S (length s) ->
    (exists k, k < e /\ nth k s 0%N = c_lt) ->
    post (trim_end s e cur) (fun e' j => j = cur /\ e' <= e).
  Proof.
    induction e as [|e IH]; intros He [k [Hk Hn]]; [lia|]. cbn [trim_end].
    apply post_rd; [lia|]. intros c Hc.
    destruct (is_space c) eqn:W; simpl; [|lia].
    apply peek_nth in Hc.
    assert (k <> e) by (intros ->; rewrite Hn in Hc; subst c; discriminate).
    eapply post_weaken; [apply IH; [lia | exists k; split; [lia|assumption]]|].
    simpl. intros; lia.
  Qed.

  Lemma content_scan_adv s i c f :
    peek s i = Some c -> ((c =? c_lt)%N || (c =? 0)%N) = false ->
    content_scan (S f) s i = content_scan f s (S i).
  Proof. intros Hc W. cbn [content_scan]. rewrite Hc, W. reflexivity. Qed.

  Definition seen_lt (s : str) (i : nat) : Prop := exists k, k < i /\ nth k s 0%N = c_lt.

  Lemma seen_lt_mono s i j : seen_lt s i -> i <= j -> seen_lt s j.
  Proof. intros [k [Hk Hn]] Hij. exists k. split; [lia|assumption]. Qed.

  Lemma node_post s : forall fuel,
    (forall i, i <= length s -> 2 * (length s - i) + 1 <= fuel ->
               post (parse_node_with pstr fuel s i) (fun _ j => i < j <= length s)) /\
    (forall i name props content children,
        i <= length s -> seen_lt s i -> 2 * (length s - i) + 2 <= fuel ->
        post (node_loop_with pstr fuel s i name props content children)
             (fun _ j => i <= j <= length s)).
  Proof.
    induction fuel as [|f [IHn IHl]]; [split; intros; lia|]. split.
    - intros i Hi Hf. cbn [parse_node_with].
      eapply post_bind; [apply consume_post_nth; [lia|discriminate]|].
      intros [] i1 [Ei1 [Hlt Hn]]. subst i1.
      assert (Hseen : seen_lt s (S i)) by (exists i; split; [lia|assumption]).
      eapply post_bind; [apply parse_identifier_post; lia|].
      intros [name|] i2 H2; simpl in H2; [|exact I].
      eapply post_bind; [apply skip_whites_post; lia|]. intros [] i3 H3. simpl in H3.
      eapply post_bind; [apply props_loop_post; unfold fuel_at; lia|]. intros props i4 H4. simpl in H4.
      apply post_rd; [lia|]. intros c Hc.
      destruct (c =? c_slash)%N.
      + eapply post_bind; [apply consume_word_post; [lia|repeat constructor; discriminate]|].
        intros [] i5 [-> H5]. simpl length in *. simpl. lia.
      + eapply post_bind; [apply consume_word_post; [lia|repeat constructor; discriminate]|].
        intros [] i5 [-> H5]. simpl length in *.
        eapply post_weaken; [apply IHl; [lia | eapply seen_lt_mono; [eassumption|lia] | lia]|].
        simpl. intros [] j Hj. lia.
    - intros i name props content children Hi Hseen Hf. cbn [node_loop_with].
      eapply post_bind; [apply skip_whites_post; lia|]. intros [] i1 H1. simpl in H1.
      eapply post_bind; [apply skip_comment_post; lia|]. intros [|] i2 H2.
      { eapply post_weaken; [apply IHl; [lia | eapply seen_lt_mono; [eassumption|lia] | lia]|].
        simpl. intros; lia. }
      subst i2.
      apply post_rd; [lia|]. intros c Hc.
      destruct (c =? c_lt)%N eqn:E.
      + assert (Hlt : i1 < length s).
        { apply (peek_nz s i1 c Hc). eapply eqb_nz; [eassumption|discriminate]. }
        apply post_rd; [lia|]. intros c1 Hc1.
        destruct (c1 =? c_slash)%N.
        * eapply post_bind; [apply consume_word_post; [lia|repeat constructor; discriminate]|].
          intros [] i3 [-> H3]. simpl length in *.
          eapply post_bind; [apply parse_identifier_post; lia|]. intros on i4 H4.
          assert (i1 + 2 <= i4 <= length s) by (destruct on; simpl in H4; simpl; lia).
          destruct (str_eqb (opt_str on) name); [|exact I].
          eapply post_bind; [apply consume_word_post; [lia|repeat constructor; discriminate]|].
          intros [] i5 [-> H5]. simpl length in *. simpl. lia.
        * eapply post_bind; [apply IHn; lia|]. intros ch i3 H3. simpl in H3.
          eapply post_weaken; [apply IHl; [lia | eapply seen_lt_mono; [eassumption|lia] | lia]|].
          simpl. intros; lia.
      + destruct (c =? 0)%N eqn:Z; [simpl; lia|].
        destruct (negb (is_nil content)); [exact I|].
        assert (W : ((c =? c_lt)%N || (c =? 0)%N) = false) by (rewrite E, Z; reflexivity).
        apply N.eqb_neq in Z. pose proof (peek_nz s i1 c Hc Z) as Hlt.
        assert (Hfa : fuel_at s i1 = S (fuel_at s (S i1))) by (unfold fuel_at; lia).
        rewrite Hfa, (content_scan_adv s i1 c _ Hc W).
        eapply post_bind; [apply content_scan_post; unfold fuel_at; lia|]. intros [] e He. simpl in He.
        eapply post_bind; [apply trim_end_post; [lia | eapply seen_lt_mono; [eassumption|lia]]|].
        intros e' x [Ex He']. subst x.
        eapply post_bind; [apply make_string_post; lia|]. intros txt x Ex. cbv beta in Ex. subst x.
        eapply post_weaken; [apply IHl; [lia | eapply seen_lt_mono; [eassumption|lia] | lia]|].
        simpl. intros; lia.
  Qed.

  Lemma parse_node_post s fuel i :
    i <= length s -> 2 * (length s - i) + 1 <= fuel ->
    post (parse_node_with pstr fuel s i) (fun _ j => i < j <= length s).
  Proof. apply node_post. Qed.

  Lemma parse_header_post s i :
    i <= length s -> post (parse_header_with pstr s i) (fun _ j => i <= j <= length s).
  Proof.
    intro Hi. unfold parse_header_with.
    eapply post_bind; [apply consume_word_post; [lia|repeat constructor; discriminate]|].
    intros [] i1 [-> H1]. simpl length in *.
    apply post_rd; [lia|]. intros c Hc.
    destruct (c =? c_qm)%N eqn:Q.
    - assert (c <> 0%N) by (eapply eqb_nz; [eassumption|discriminate]).
      pose proof (peek_nz s _ c Hc H).
      apply post_rd; [lia|]. intros c1 Hc1.
      destruct (c1 =? c_gt)%N; [|simpl; lia].
      eapply post_bind; [apply consume_word_post; [lia|repeat constructor; discriminate]|].
      intros [] i2 [-> H2]. simpl length in *. simpl. lia.
    - destruct (is_white c) eqn:W; [|simpl; lia].
      pose proof (peek_nz s _ c Hc (is_white_nz c W)).
      eapply post_bind; [apply skip_whites_post; lia|]. intros [] i2 H2. simpl in H2.
      eapply post_bind; [apply props_loop_post; unfold fuel_at; lia|]. intros ? i3 H3. simpl in H3.
      eapply post_bind; [apply consume_word_post; [lia|repeat constructor; discriminate]|].
      intros [] i4 [-> H4]. simpl length in *. simpl. lia.
  Qed.

  Lemma top_loop_post s : forall fuel i children,
    i <= length s -> 2 * (length s - i) + 3 <= fuel ->
    post (top_loop_with pstr fuel s i children) (fun _ j => i <= j <= length s).
  Proof.
    induction fuel as [|f IH]; intros i children Hi Hf; [lia|]. cbn [top_loop_with].
    apply post_rd; [assumption|]. intros c Hc.
    destruct (c =? 0)%N; [simpl; lia|].
    eapply post_bind; [apply skip_comment_post; lia|]. intros [|] i1 H1.
    - eapply post_bind; [apply skip_whites_post; lia|]. intros [] i2 H2. simpl in H2.
      eapply post_weaken; [apply IH; lia|]. simpl. intros; lia.
    - subst i1.
      eapply post_bind; [apply parse_node_post; lia|]. intros ch i2 H2. simpl in H2.
      eapply post_bind; [apply skip_whites_post; lia|]. intros [] i3 H3. simpl in H3.
      eapply post_weaken; [apply IH; lia|]. simpl. intros; lia.
  Qed.

  Lemma parse_xml_post s :
    post (parse_xml_with pstr (doc_fuel s) s) (fun _ j => j <= length s).
  Proof.
    unfold parse_xml_with.
    eapply post_bind with (Q := fun _ j => j <= length s).
    - apply post_rd; [lia|]. intros c0 Hc0.
      destruct (c0 =? c_lt)%N eqn:E; [|simpl; lia].
      assert (c0 <> 0%N) by (eapply eqb_nz; [eassumption|discriminate]).
      pose proof (peek_nz s _ c0 Hc0 H).
      apply post_rd; [lia|]. intros c1 Hc1.
      destruct (c1 =? c_qm)%N; [|simpl; lia].
      eapply post_bind; [apply parse_header_post; lia|]. intros [|] j Hj; simpl in *; [lia|exact I].
    - intros [] i0 H0.
      eapply post_bind; [apply skip_whites_post; lia|]. intros [] i1 H1. simpl in H1.
      eapply post_bind; [apply top_loop_post; unfold doc_fuel; lia|]. intros ch i2 H2. simpl in H2.
      simpl. lia.
  Qed.
End Generic.

(* ------------------------------------------------------------- the theorems *)
Lemma parse_post s : post (parse s) (fun _ j => j <= length s).
Proof. unfold parse. apply parse_xml_post. intros. apply parse_string_post. assumption. Qed.

Lemma parse_never_out_of_fuel s : parse s <> OutOfFuel.
Proof. pose proof (parse_post s) as H. intro E. rewrite E in H. exact H. Qed.

Lemma parse_never_oob s : parse s <> OOB.
Proof. pose proof (parse_post s) as H. intro E. rewrite E in H. exact H. Qed.

Lemma parse_outcome s :
  (exists d j, parse s = Ok d j /\ j <= length s) \/ parse s = Throw.
Proof.
  pose proof (parse_post s) as H. destruct (parse s) as [d j| | |]; simpl in H; try contradiction.
  - left. exists d, j. auto.
  - right. reflexivity.
Qed.

Lemma parse_cursor_final s d j : parse s = Ok d j -> j <= length s.
Proof. pose proof (parse_post s) as H. intro E. rewrite E in H. exact H. Qed.

Lemma parse_total s : (exists d j, parse s = Ok d j) \/ parse s = Throw.
Proof. destruct (parse_outcome s) as [[d [j [E _]]]|E]; [left; eauto | right; exact E]. Qed.
