(* C16 -- what the expected cursor programs of FactsDefs.v MEAN: the interpretation of each leaf
   function's body is the corresponding function of Model.v (for every buffer and cursor).
   Independent of gen/Facts.v (PropertiesFacts.v transports these lemmas to the extracted programs
   by conversion). *)
From Coq Require Import String.
From Common Require Import Prelude.
From C16 Require Import Model FactsDefs.
Local Open Scope string_scope.

Arguments peek : simpl never.
Arguments fuel_at : simpl never.
Arguments eval_c : simpl never.
Arguments make_string : simpl never.
Arguments consume : simpl never.
Arguments consume_word : simpl never.
Arguments skip_whites : simpl never.
Arguments consume_comment : simpl never.
Arguments skip_comment : simpl never.
Arguments parse_identifier : simpl never.
Arguments parse_string : simpl never.
Arguments parse_prop : simpl never.
Arguments expect2 : simpl never.
Arguments is_white : simpl never.
Arguments is_alpha : simpl never.
Arguments is_digit : simpl never.
Arguments is_space : simpl never.
Arguments N.eqb : simpl never.

Lemma exec_while s m b body σ :
  exec s (SWhile m b body) σ = wloop s b body (fuel_of s σ m) σ.
Proof.
  cbn [exec]. generalize (fuel_of s σ m) as fuel. intro fuel. revert σ.
  induction fuel as [|f IH]; intro σ; cbn [wloop]; [reflexivity|].
  destruct (eval_b s σ b) as [[|] σ'| | | | ]; try reflexivity.
  destruct (exec s body σ'); try reflexivity. apply IH.
Qed.

(* reads *)
Lemma eval_read0 s σ p :
  eval_c s σ (CRead p 0) = match peek s (getp σ p) with Some c => EV c | None => EOOB end.
Proof.
  unfold eval_c. destruct (Z.ltb_spec (Z.of_nat (getp σ p) + 0) 0); [lia|].
  replace (Z.to_nat (Z.of_nat (getp σ p) + 0)) with (getp σ p) by lia. reflexivity.
Qed.
Lemma eval_read1 s σ p :
  eval_c s σ (CRead p 1) = match peek s (S (getp σ p)) with Some c => EV c | None => EOOB end.
Proof.
  unfold eval_c. destruct (Z.ltb_spec (Z.of_nat (getp σ p) + 1) 0); [lia|].
  replace (Z.to_nat (Z.of_nat (getp σ p) + 1)) with (S (getp σ p)) by lia. reflexivity.
Qed.
Lemma eval_read2 s σ p :
  eval_c s σ (CRead p 2) = match peek s (S (S (getp σ p))) with Some c => EV c | None => EOOB end.
Proof.
  unfold eval_c. destruct (Z.ltb_spec (Z.of_nat (getp σ p) + 2) 0); [lia|].
  replace (Z.to_nat (Z.of_nat (getp σ p) + 2)) with (S (S (getp σ p))) by lia. reflexivity.
Qed.
Lemma eval_readm1 s σ p :
  eval_c s σ (CRead p (-1)) =
  match getp σ p with
  | O => EOOB
  | S n => match peek s n with Some c => EV c | None => EOOB end
  end.
Proof.
  unfold eval_c. destruct (getp σ p) as [|n].
  - reflexivity.
  - destruct (Z.ltb_spec (Z.of_nat (S n) + -1) 0); [lia|].
    replace (Z.to_nat (Z.of_nat (S n) + -1)) with n by lia. reflexivity.
Qed.
Lemma eval_lit s σ c : eval_c s σ (CLit c) = EV c.
Proof. reflexivity. Qed.
Lemma eval_var s σ x : eval_c s σ (CVar x) = EV (getc σ x).
Proof. reflexivity. Qed.

Ltac reads := repeat (rewrite ?eval_read0, ?eval_read1, ?eval_read2, ?eval_readm1, ?eval_lit, ?eval_var).

Ltac step := cbn; unfold cmp2, do_call; cbn; reads; cbn.

(* ------------------------------------------------------------ expect / consume *)
Lemma expect1_sem s i w : obs_unit (run s x_expect1 i [("w", w)]) = Some (expect1 s i w).
Proof.
  unfold run, x_expect1, expect1. step.
  destruct (peek s i) as [c|]; [|reflexivity]. cbn. destruct (N.eqb c w); reflexivity.
Qed.

Lemma expect2_sem s i w0 w1 :
  obs_unit (run s x_expect2 i [("w0", w0); ("w1", w1)]) = Some (expect2 s i w0 w1).
Proof.
  unfold run, x_expect2, expect2. step.
  destruct (peek s i) as [c|] eqn:E; [|reflexivity]. step. rewrite E. cbn.
  destruct (N.eqb c w0); cbn; [reflexivity|].
  destruct (N.eqb c w1); reflexivity.
Qed.

Lemma consume_sem s i w : obs_unit (run s x_consume i [("w", w)]) = Some (consume s i w).
Proof.
  unfold run, x_consume. step. unfold expect1, consume.
  destruct (peek s i) as [c|]; [|reflexivity]. cbn. destruct (N.eqb c w); reflexivity.
Qed.

(* ------------------------------------------------------------------ skipWhites *)
Lemma skipWhites_loop s strs0 cs : forall fuel i,
  obs_unit (wloop s (BPred "isWhite" (CRead "s" 0)) (SInc "s") fuel (MkSt [("s", i)] strs0 cs))
  = Some (white_scan fuel s i).
Proof.
  induction fuel as [|f IH]; intro i; [reflexivity|]. step.
  destruct (peek s i) as [c|]; [|reflexivity]. cbn.
  destruct (is_white c); cbn; [apply IH | reflexivity].
Qed.

Lemma skipWhites_sem s i : obs_unit (run s x_skipWhites i []) = Some (skip_whites s i).
Proof. unfold run, x_skipWhites. rewrite exec_while. cbn [fuel_of getp ptrs aget String.eqb Ascii.eqb Bool.eqb]. cbn. apply skipWhites_loop. Qed.

(* ------------------------------------------------ controlled symbolic execution *)
Lemma exec_seq s a b σ :
  exec s (SSeq a b) σ = match exec s a σ with ONormal σ' => exec s b σ' | o => o end.
Proof. reflexivity. Qed.
Lemma exec_if s b t e σ :
  exec s (SIf b t e) σ = match eval_b s σ b with
                         | BVal true σ' => exec s t σ' | BVal false σ' => exec s e σ'
                         | BThrow => OThrow | BOOB => OOOB | BFuel => OFuel | BStuck => OStuck end.
Proof. reflexivity. Qed.
Lemma exec_do s c σ :
  exec s (SDo c) σ = match do_call s σ c with
                     | CDone _ σ' => ONormal σ' | CThrow => OThrow | COOB => OOOB | CFuel => OFuel | CStuck => OStuck end.
Proof. reflexivity. Qed.
Lemma exec_inc s p σ : exec s (SInc p) σ = ONormal (setp σ p (S (getp σ p))).
Proof. reflexivity. Qed.
Lemma exec_setp s p q σ : exec s (SSetP p q) σ = ONormal (setp σ p (getp σ q)).
Proof. reflexivity. Qed.
Lemma exec_skip s σ : exec s SSkip σ = ONormal σ.
Proof. reflexivity. Qed.
Lemma exec_mk s x p q σ :
  exec s (SMakeStr x p q) σ = match make_string s (getp σ p) (getp σ q) 0 with
                              | Ok v _ => ONormal (sets σ x v) | Throw => OThrow | OOB => OOOB | OutOfFuel => OFuel end.
Proof. reflexivity. Qed.
Lemma exec_decl s x σ : exec s (SDeclStr x) σ = ONormal (sets σ x []).
Proof. reflexivity. Qed.
Lemma exec_retb s v σ : exec s (SRet (RBool v)) σ = OReturn (Some v) σ.
Proof. reflexivity. Qed.

Ltac stt := unfold setp, sets; cbn [getp setp gets sets getc ptrs strs chs aget aset String.eqb Ascii.eqb Bool.eqb andb bind_outs fuel_of
                 c_fn c_chars c_words c_outs eval_cs].
Ltac ex := repeat (rewrite ?exec_seq, ?exec_inc, ?exec_setp, ?exec_skip, ?exec_retb, ?exec_decl; stt).

Definition scan_out (r : res unit) (k : nat -> state) : out :=
  match r with Ok _ j => ONormal (k j) | Throw => OThrow | OOB => OOOB | OutOfFuel => OFuel end.

Lemma make_string_cur s b e c1 c2 :
  make_string s b e c1 = match make_string s b e c2 with Ok v _ => Ok v c1 | Throw => Throw | OOB => OOB | OutOfFuel => OutOfFuel end.
Proof.
  unfold make_string. destruct (e <? b)%nat; [reflexivity|]. destruct (read_range s b (e - b)); reflexivity.
Qed.

(* ------------------------------------------------------------------ parseString *)
Lemma string_loop s qc b st0 cs : forall fuel i,
  wloop s (x_string_cond qc) x_string_step fuel (MkSt [("s", i); ("begin", b)] st0 cs)
  = scan_out (string_scan fuel s i qc) (fun j => MkSt [("s", j); ("begin", b)] st0 cs).
Proof.
  induction fuel as [|f IH]; intro i; [reflexivity|].
  cbn [wloop string_scan x_string_cond eval_b]. unfold cmp2. reads. stt.
  destruct (peek s i) as [c|] eqn:E; [|reflexivity].
  destruct (N.eqb c qc) eqn:Q; cbn [negb orb]; [reflexivity|].
  unfold cmp2. reads. stt. rewrite E. destruct (N.eqb c 0) eqn:Z; cbn [negb orb]; [reflexivity|].
  unfold x_string_step. cbn [seq]. rewrite exec_seq, exec_if. cbn [eval_b]. unfold cmp2. reads. stt. rewrite E.
  change c_bs with 92%N. destruct (N.eqb c 92) eqn:B.
  - unfold cmp2. reads. stt. destruct (peek s (S i)) as [c1|]; [|reflexivity].
    destruct (N.eqb c1 0); cbn [negb]; ex; apply IH.
  - ex. apply IH.
Qed.

Definition quoted_model (s : str) (i : nat) (qc : N) : res str :=
  match consume s i qc with
  | Ok _ b => match string_scan (fuel_at s b) s b qc with
              | Ok _ e => match make_string s b e e with
                          | Ok v e' => match consume s e' qc with Ok _ j => Ok v j | Throw => Throw | OOB => OOB | OutOfFuel => OutOfFuel end
                          | Throw => Throw | OOB => OOB | OutOfFuel => OutOfFuel end
              | Throw => Throw | OOB => OOB | OutOfFuel => OutOfFuel end
  | Throw => Throw | OOB => OOB | OutOfFuel => OutOfFuel end.

Lemma quoted_sem s i qc :
  obs_str "value" (exec s (x_quoted qc) (MkSt [("s", i)] [] [])) = Some (quoted_model s i qc).
Proof.
  unfold x_quoted, quoted_model. cbn [seq]. rewrite exec_seq, exec_do. unfold do_call. stt. reads. cbn [call_model String.eqb Ascii.eqb Bool.eqb andb]. stt.
  destruct (consume s i qc) as [[] b| | |]; cbn [lift_unit]; try reflexivity. stt.
  ex. rewrite exec_while. stt.
  rewrite string_loop.
  destruct (string_scan (fuel_at s b) s b qc) as [[] e| | |]; cbn [scan_out]; try reflexivity.
  ex. rewrite exec_mk. stt. rewrite (make_string_cur s b e e 0).
  destruct (make_string s b e 0) as [v x| | |]; try reflexivity.
  rewrite exec_do. unfold do_call. stt. reads. cbn [call_model String.eqb Ascii.eqb Bool.eqb andb]. stt.
  destruct (consume s e qc) as [[] j| | |]; cbn [lift_unit]; reflexivity.
Qed.

Lemma parseString_sem s i : obs_str "value" (run s x_parseString i []) = Some (parse_string s i).
Proof.
  unfold run, x_parseString. rewrite exec_if. cbn [eval_b]. unfold cmp2. reads. stt.
  unfold parse_string, parse_string_with.
  destruct (peek s i) as [c|]; [|reflexivity]. change c_dq with 34%N. change c_sq with 39%N.
  destruct (N.eqb c 34); rewrite quoted_sem; reflexivity.
Qed.

(* --------------------------------------------------------------- parseIdentifier *)
Ltac bstep E := cbn [eval_b cls_sem]; unfold cmp2; reads; stt; try rewrite E.

Lemma ident_loop s b st0 cs : forall fuel i,
  wloop s x_id_char (SInc "s") fuel (MkSt [("s", i); ("begin", b)] st0 cs)
  = scan_out (ident_scan fuel s i) (fun j => MkSt [("s", j); ("begin", b)] st0 cs).
Proof.
  induction fuel as [|f IH]; intro i; [reflexivity|].
  cbn [wloop ident_scan]. unfold x_id_char, is_id_char. change c_us with 95%N. change c_dot with 46%N.
  bstep I. destruct (peek s i) as [c|] eqn:E; [|reflexivity].
  destruct (is_alpha c); cbn [orb]; [ex; apply IH|].
  bstep E. destruct (is_digit c); cbn [orb]; [ex; apply IH|].
  bstep E. destruct (N.eqb c 95); cbn [orb]; [ex; apply IH|].
  bstep E. destruct (N.eqb c 46); cbn [orb]; [ex; apply IH | reflexivity].
Qed.

Lemma parseIdentifier_sem s i :
  obs_opt_str "identifier" (run s x_parseIdentifier i []) = Some (parse_identifier s i).
Proof.
  unfold run, x_parseIdentifier, parse_identifier, x_id_start, is_id_start. change c_us with 95%N.
  cbn [seq]. rewrite exec_seq, exec_if.
  bstep I. destruct (peek s i) as [c|] eqn:E; [|reflexivity].
  assert (Hthen : obs_opt_str "identifier"
            match exec s (seq [SSetP "begin" "s"; SInc "s"; SWhile (MUp "s") x_id_char (SInc "s"); SSetP "end" "s";
                               SMakeStr "identifier" "begin" "end"; SRet (RBool true)]) (MkSt [("s", i)] [] [])
            with ONormal σ' => exec s (SRet (RBool false)) σ' | o => o end
          = Some (match ident_scan (fuel_at s (S i)) s (S i) with
                  | Ok _ e => match make_string s i e e with
                              | Ok id e' => Ok (Some id) e' | Throw => Throw | OOB => OOB | OutOfFuel => OutOfFuel end
                  | Throw => Throw | OOB => OOB | OutOfFuel => OutOfFuel end)).
  { cbn [seq]. ex. rewrite exec_while. stt. rewrite ident_loop.
    destruct (ident_scan (fuel_at s (S i)) s (S i)) as [[] e| | |]; cbn [scan_out]; try reflexivity.
    ex. rewrite exec_mk. stt. rewrite (make_string_cur s i e e 0).
    destruct (make_string s i e 0) as [v x| | |]; try reflexivity. }
  destruct (is_alpha c); cbn [orb]; [exact Hthen|].
  bstep E. destruct (N.eqb c 95); cbn [orb]; [exact Hthen|]. ex. reflexivity.
Qed.

(* ------------------------------------------------- content of a node: scan, trim, copy *)
Lemma content_loop s b st0 cs : forall fuel i,
  wloop s (BAnd (BNe (CRead "s" 0) (CLit 60%N)) (BNe (CRead "s" 0) (CLit 0%N))) (SInc "s") fuel
        (MkSt [("s", i); ("begin", b)] st0 cs)
  = scan_out (content_scan fuel s i) (fun j => MkSt [("s", j); ("begin", b)] st0 cs).
Proof.
  induction fuel as [|f IH]; intro i; [reflexivity|].
  cbn [wloop content_scan]. change c_lt with 60%N.
  bstep I. destruct (peek s i) as [c|] eqn:E; [|reflexivity].
  destruct (N.eqb c 60); cbn [negb orb]; [reflexivity|].
  bstep E. destruct (N.eqb c 0); cbn [negb orb]; [reflexivity|]. ex. apply IH.
Qed.

Definition trim_out (r : res nat) (k : nat -> state) : out :=
  match r with Ok e _ => ONormal (k e) | Throw => OThrow | OOB => OOOB | OutOfFuel => OFuel end.

Lemma trim_loop s b cur st0 cs : forall e,
  wloop s (BCls KSpace (CRead "end" (-1))) (SDec "end") (S e)
        (MkSt [("s", cur); ("begin", b); ("end", e)] st0 cs)
  = trim_out (trim_end s e cur) (fun e' => MkSt [("s", cur); ("begin", b); ("end", e')] st0 cs).
Proof.
  induction e as [|e IH].
  - cbn [wloop trim_end]. bstep I. reflexivity.
  - cbn [wloop trim_end]. bstep I. destruct (peek s e) as [c|]; [|reflexivity].
    destruct (is_space c); [|reflexivity]. cbn [exec]. stt. apply IH.
Qed.

Definition content_model (s : str) (i : nat) : res str :=
  match content_scan (fuel_at s i) s i with
  | Ok _ e => match trim_end s e e with
              | Ok e' _ => match make_string s i e' e with
                           | Ok txt _ => Ok txt e | Throw => Throw | OOB => OOB | OutOfFuel => OutOfFuel end
              | Throw => Throw | OOB => OOB | OutOfFuel => OutOfFuel end
  | Throw => Throw | OOB => OOB | OutOfFuel => OutOfFuel end.

Lemma content_sem s i : obs_str "node.content" (run s x_content i []) = Some (content_model s i).
Proof.
  unfold run, x_content, content_model. cbn [seq]. ex. rewrite exec_while. stt. rewrite content_loop.
  destruct (content_scan (fuel_at s i) s i) as [[] e| | |]; cbn [scan_out]; try reflexivity.
  ex. rewrite exec_while. stt. rewrite trim_loop.
  destruct (trim_end s e e) as [e' x| | |]; cbn [trim_out]; try reflexivity.
  rewrite exec_mk. stt. rewrite (make_string_cur s i e' e 0).
  destruct (make_string s i e' 0) as [v y| | |]; reflexivity.
Qed.

(* ------------------------------------------------- consumeComment / skipComment *)
Lemma comment_loop s st0 cs : forall fuel i,
  wloop s x_comment_cond (SInc "s") fuel (MkSt [("s", i)] st0 cs)
  = scan_out (comment_scan fuel s i) (fun j => MkSt [("s", j)] st0 cs).
Proof.
  induction fuel as [|f IH]; intro i; [reflexivity|].
  cbn [wloop comment_scan]. unfold x_comment_cond. change c_dash with 45%N. change c_gt with 62%N.
  bstep I. destruct (peek s i) as [c|] eqn:E; [|reflexivity].
  destruct (N.eqb c 0); cbn [negb]; [reflexivity|].
  bstep E. destruct (N.eqb c 45); cbn [negb]; [|ex; apply IH].
  bstep E. destruct (peek s (S i)) as [c1|] eqn:E1; [|reflexivity].
  destruct (N.eqb c1 45); cbn [negb]; [|ex; apply IH].
  bstep E. destruct (peek s (S (S i))) as [c2|]; [|reflexivity].
  destruct (N.eqb c2 62); cbn [negb]; [reflexivity | ex; apply IH].
Qed.

Ltac callm := rewrite exec_do; unfold do_call; stt; reads; cbn [call_model String.eqb Ascii.eqb Bool.eqb andb]; stt.

Lemma consumeComment_sem s i : obs_unit (run s x_consumeComment i []) = Some (consume_comment s i).
Proof.
  unfold run, x_consumeComment, consume_comment. cbn [seq]. change c_lt with 60%N. change c_bang with 33%N.
  change c_dash with 45%N. change c_gt with 62%N.
  rewrite exec_seq. callm. destruct (consume s i 60) as [[] i1| | |]; cbn [lift_unit]; try reflexivity. stt.
  rewrite exec_seq. callm. destruct (consume s i1 33) as [[] i2| | |]; cbn [lift_unit]; try reflexivity. stt.
  rewrite exec_seq, exec_while. stt. rewrite comment_loop.
  destruct (comment_scan (fuel_at s i2) s i2) as [[] i3| | |]; cbn [scan_out]; try reflexivity.
  rewrite exec_seq. callm. destruct (consume s i3 45) as [[] i4| | |]; cbn [lift_unit]; try reflexivity. stt.
  rewrite exec_seq. callm. destruct (consume s i4 45) as [[] i5| | |]; cbn [lift_unit]; try reflexivity. stt.
  callm. destruct (consume s i5 62) as [[] i6| | |]; cbn [lift_unit]; reflexivity.
Qed.

Lemma skipComment_sem s i : obs_bool (run s x_skipComment i []) = Some (skip_comment s i).
Proof.
  unfold run, x_skipComment. cbn [seq]. rewrite exec_seq, exec_if.
  assert (M : skip_comment s i =
              match peek s i with
              | None => OOB
              | Some c => if N.eqb c 60 then
                            match peek s (S i) with
                            | None => OOB
                            | Some c1 => if N.eqb c1 33 then
                                           match consume_comment s i with
                                           | Ok _ j => Ok true j | Throw => Throw | OOB => OOB | OutOfFuel => OutOfFuel end
                                         else Ok false i
                            end
                          else Ok false i
              end) by reflexivity.
  rewrite M. clear M.
  bstep I. destruct (peek s i) as [c|] eqn:E; [|reflexivity].
  destruct (N.eqb c 60); [|ex; reflexivity].
  bstep E. destruct (peek s (S i)) as [c1|]; [|reflexivity].
  destruct (N.eqb c1 33); [|ex; reflexivity].
  cbn [seq]. rewrite exec_seq. callm.
  destruct (consume_comment s i) as [[] j| | |]; cbn [lift_unit]; try reflexivity.
Qed.

(* -------------------------------------------------------------------- parseProp *)
Lemma parseProp_sem s i : obs_opt_pair "name" "value" (run s x_parseProp i []) = Some (parse_prop s i).
Proof.
  unfold run, x_parseProp. cbn [seq].
  assert (M : parse_prop s i =
     match parse_identifier s i with
     | Ok None i1 => Ok None i1
     | Ok (Some name) i1 =>
        match skip_whites s i1 with
        | Ok _ i2 => match consume s i2 61 with
          | Ok _ i3 => match skip_whites s i3 with
            | Ok _ i4 => match expect2 s i4 34 39 with
              | Ok _ i5 => match parse_string s i5 with
                | Ok v i6 => Ok (Some (name, v)) i6
                | Throw => Throw | OOB => OOB | OutOfFuel => OutOfFuel end
              | Throw => Throw | OOB => OOB | OutOfFuel => OutOfFuel end
            | Throw => Throw | OOB => OOB | OutOfFuel => OutOfFuel end
          | Throw => Throw | OOB => OOB | OutOfFuel => OutOfFuel end
        | Throw => Throw | OOB => OOB | OutOfFuel => OutOfFuel end
     | Throw => Throw | OOB => OOB | OutOfFuel => OutOfFuel end).
  { unfold parse_prop, parse_prop_with. destruct (parse_identifier s i) as [[name|] i1| | |]; reflexivity. }
  rewrite M. clear M.
  rewrite exec_seq, exec_if. cbn [eval_b]. unfold do_call. stt. cbn [call_model String.eqb Ascii.eqb Bool.eqb andb]. stt.
  destruct (parse_identifier s i) as [[name|] i1| | |]; try reflexivity; stt; cbn [negb].
  ex. callm. destruct (skip_whites s i1) as [[] i2| | |]; cbn [lift_unit]; try reflexivity. stt.
  rewrite exec_seq. callm. destruct (consume s i2 61) as [[] i3| | |]; cbn [lift_unit]; try reflexivity. stt.
  rewrite exec_seq. callm. destruct (skip_whites s i3) as [[] i4| | |]; cbn [lift_unit]; try reflexivity. stt.
  rewrite exec_seq. callm. destruct (expect2 s i4 34 39) as [[] i5| | |]; cbn [lift_unit]; try reflexivity. stt.
  rewrite exec_seq. callm. destruct (parse_string s i5) as [v i6| | |]; try reflexivity.
Qed.

(* ------------------------------------------------------------------- makeString *)
Lemma makeString_sem s b e cur : ms_sem x_makeString s b e cur = Some (make_string s b e cur).
Proof.
  unfold ms_sem, x_makeString, make_string. cbn [ms_throw_guards ms_copy existsb orb].
  destruct (e <? b)%nat; cbn [andb negb]; [reflexivity|].
  destruct (read_range s b (e - b)); reflexivity.
Qed.

(* ------------------------------------------------------------------ parseHeader *)
(* the property loop with the white-space skip INSIDE the body = Model.props_loop (cursor part) *)
Lemma header_loop s : forall fuel i st0 acc,
  match props_loop fuel s i acc with
  | Ok _ j => exists st', wloop s x_prop_cond (SDo (Call "skipWhites" [] [] [])) fuel (MkSt [("s", i)] st0 [])
                          = ONormal (MkSt [("s", j)] st' [])
  | Throw => wloop s x_prop_cond (SDo (Call "skipWhites" [] [] [])) fuel (MkSt [("s", i)] st0 []) = OThrow
  | OOB => wloop s x_prop_cond (SDo (Call "skipWhites" [] [] [])) fuel (MkSt [("s", i)] st0 []) = OOOB
  | OutOfFuel => wloop s x_prop_cond (SDo (Call "skipWhites" [] [] [])) fuel (MkSt [("s", i)] st0 []) = OFuel
  end.
Proof.
  induction fuel as [|f IH]; intros i st0 acc; [reflexivity|].
  unfold props_loop. cbn [wloop props_loop_with]. fold (parse_prop s i). fold (props_loop f s).
  unfold x_prop_cond. cbn [eval_b]. unfold do_call. stt. cbn [call_model String.eqb Ascii.eqb Bool.eqb andb]. stt.
  destruct (parse_prop s i) as [[[k v]|] i1| | |]; try reflexivity; stt.
  - callm. destruct (skip_whites s i1) as [[] i2| | |]; cbn [lift_unit]; try reflexivity. stt.
    apply IH.
  - eexists. reflexivity.
Qed.

Lemma parseHeader_sem s i : obs_bool (run s x_parseHeader i []) = Some (parse_header s i).
Proof.
  unfold run, x_parseHeader, parse_header, parse_header_with.
  change w_xml_open with [60; 63; 120; 109; 108]%N. change w_qgt with [63; 62]%N.
  change c_qm with 63%N. change c_gt with 62%N.
  rewrite exec_seq. callm.
  destruct (consume_word s i [60; 63; 120; 109; 108]%N) as [[] i1| | |]; cbn [lift_unit]; try reflexivity. stt.
  rewrite exec_seq, exec_if. bstep I. destruct (peek s i1) as [c|] eqn:E; [|reflexivity].
  assert (Hrest : obs_bool (exec s (SSeq (SIf (BNot (BPred "isWhite" (CRead "s" 0))) (SRet (RBool false)) SSkip) x_header_rest)
                                  (MkSt [("s", i1)] [] []))
          = Some (if is_white c then
                    match skip_whites s (S i1) with
                    | Ok _ i2 => match props_loop (fuel_at s i2) s i2 [] with
                                 | Ok _ i3 => match consume_word s i3 [63; 62]%N with
                                              | Ok _ i4 => Ok true i4 | Throw => Throw | OOB => OOB | OutOfFuel => OutOfFuel end
                                 | Throw => Throw | OOB => OOB | OutOfFuel => OutOfFuel end
                    | Throw => Throw | OOB => OOB | OutOfFuel => OutOfFuel end
                  else Ok false i1)).
  { rewrite exec_seq, exec_if. cbn [eval_b pred_model String.eqb Ascii.eqb Bool.eqb andb]. reads. stt. rewrite E.
    destruct (is_white c); cbn [negb]; [|ex; reflexivity].
    ex. unfold x_header_rest. cbn [seq]. ex. callm.
    destruct (skip_whites s (S i1)) as [[] i2| | |]; cbn [lift_unit]; try reflexivity. stt.
    ex. rewrite exec_while. stt.
    pose proof (header_loop s (fuel_at s i2) i2 [("name", ([] : str)); ("value", ([] : str))] []) as HL.
    destruct (props_loop (fuel_at s i2) s i2 []) as [pm i3| | |]; [destruct HL as [st' HL]| | |].
    all: rewrite HL; try reflexivity.
    rewrite exec_seq. callm.
    destruct (consume_word s i3 [63; 62]%N) as [[] i4| | |]; cbn [lift_unit]; try reflexivity. }
  destruct (N.eqb c 63) eqn:Q.
  - bstep E. destruct (peek s (S i1)) as [c1|]; [|reflexivity].
    destruct (N.eqb c1 62).
    + cbn [seq]. rewrite exec_seq. callm.
      destruct (consume_word s i1 [63; 62]%N) as [[] i2| | |]; cbn [lift_unit]; try reflexivity.
    + rewrite exec_skip. cbv iota. rewrite Hrest. apply N.eqb_eq in Q. subst c. reflexivity.
  - rewrite exec_skip. cbv iota. rewrite Hrest. reflexivity.
Qed.
