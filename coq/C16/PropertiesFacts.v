(* C16 -- source-derived obligations.  gen/Facts.v is regenerated from the working tree on every run
   (props/C16/factgen.py over the clang AST of rkcommon/xml/XML.cpp): the body of every static
   parsing function as a program of the cursor language of FactsDefs.v.  These theorems tie the
   extracted programs to Model.v.  Kept apart from Properties.v so that a change of the source breaks
   these and leaves the theorems about the model standing.

   Level reached per function
     semantic (the interpretation of the extracted body, every buffer read through Model.peek, IS the
       Model.v function, for all buffers and cursors):
         isWhite (all 256 byte values), expect (both), consume(char), skipWhites, parseString (both
         scanning loops: they stop at NUL, the escape step tests s[1] != 0), parseIdentifier, parseProp,
         consumeComment, skipComment, parseHeader (property loop with skipWhites inside), makeString
         (guards, copy up to a NUL), the content scan + isspace tail trim + copy of parseNode
     structural (the extracted program equals the expected one: call order, guard literals, loop
       conditions, where white space is skipped, what is stored):
         parseNode, parseXML, consume(const char * ), readXML's buffer set-up (size + 1, zero filled) *)
From Coq Require Import String.
From Common Require Import Prelude.
From C16 Require Import Model Render WriterModel FactsDefs FactsCheck FactsWriter.
From C16.gen Require Import Facts.
Local Open Scope string_scope.

(* isWhite is exactly the set {SP, TAB, LF, CR}: checked on every byte value, whatever the shape of
   the extracted condition *)
Theorem facts_isWhite_bytes :
  forallb (fun c => match pred_val f_isWhite "s" c with Some v => Bool.eqb v (is_white c) | None => false end)
          bytes256 = true.
Proof. vm_compute. reflexivity. Qed.
Print Assumptions facts_isWhite_bytes.

Theorem facts_expect1 : forall s i w, obs_unit (run s f_expect1 i [("w", w)]) = Some (expect1 s i w).
Proof. change f_expect1 with x_expect1. exact FactsCheck.expect1_sem. Qed.
Print Assumptions facts_expect1.

Theorem facts_expect2 : forall s i w0 w1,
  obs_unit (run s f_expect2 i [("w0", w0); ("w1", w1)]) = Some (expect2 s i w0 w1).
Proof. change f_expect2 with x_expect2. exact FactsCheck.expect2_sem. Qed.
Print Assumptions facts_expect2.

Theorem facts_consume : forall s i w, obs_unit (run s f_consume i [("w", w)]) = Some (consume s i w).
Proof. change f_consume with x_consume. exact FactsCheck.consume_sem. Qed.
Print Assumptions facts_consume.

Theorem facts_skipWhites : forall s i, obs_unit (run s f_skipWhites i []) = Some (skip_whites s i).
Proof. change f_skipWhites with x_skipWhites. exact FactsCheck.skipWhites_sem. Qed.
Print Assumptions facts_skipWhites.

(* both scanning loops of parseString test for the terminator, the escape step looks at s[1] first,
   the value is assigned for every literal (also the empty one) *)
Theorem facts_parseString : forall s i, obs_str "value" (run s f_parseString i []) = Some (parse_string s i).
Proof. change f_parseString with x_parseString. exact FactsCheck.parseString_sem. Qed.
Print Assumptions facts_parseString.

Theorem facts_parseIdentifier : forall s i,
  obs_opt_str "identifier" (run s f_parseIdentifier i []) = Some (parse_identifier s i).
Proof. change f_parseIdentifier with x_parseIdentifier. exact FactsCheck.parseIdentifier_sem. Qed.
Print Assumptions facts_parseIdentifier.

Theorem facts_parseProp : forall s i,
  obs_opt_pair "name" "value" (run s f_parseProp i []) = Some (parse_prop s i).
Proof. change f_parseProp with x_parseProp. exact FactsCheck.parseProp_sem. Qed.
Print Assumptions facts_parseProp.

Theorem facts_consumeComment : forall s i, obs_unit (run s f_consumeComment i []) = Some (consume_comment s i).
Proof. change f_consumeComment with x_consumeComment. exact FactsCheck.consumeComment_sem. Qed.
Print Assumptions facts_consumeComment.

Theorem facts_skipComment : forall s i, obs_bool (run s f_skipComment i []) = Some (skip_comment s i).
Proof. change f_skipComment with x_skipComment. exact FactsCheck.skipComment_sem. Qed.
Print Assumptions facts_skipComment.

(* the header: white space is skipped after EVERY header property *)
Theorem facts_parseHeader : forall s i, obs_bool (run s f_parseHeader i []) = Some (parse_header s i).
Proof. change f_parseHeader with x_parseHeader. exact FactsCheck.parseHeader_sem. Qed.
Print Assumptions facts_parseHeader.

(* makeString: throws on begin > end, otherwise copies [begin,end) up to a NUL; and its guards as written *)
Theorem facts_makeString :
  f_makeString = MkMs [GNullBegin; GNullEnd; GBeginGtEnd] true CopyCStr /\
  forall s b e cur, ms_sem f_makeString s b e cur = Some (make_string s b e cur).
Proof. split; [reflexivity|]. change f_makeString with x_makeString. exact FactsCheck.makeString_sem. Qed.
Print Assumptions facts_makeString.

(* parseNode: the extracted body is the expected program; its content branch (scan to '<' or NUL,
   trim the tail with isspace -- not isWhite --, copy) means Model.v's content_scan/trim_end/make_string *)
Theorem facts_parseNode :
  f_parseNode = x_parseNode /\
  forall s i, obs_str "node.content" (run s x_content i []) = Some (content_model s i).
Proof. split; [reflexivity | exact FactsCheck.content_sem]. Qed.
Print Assumptions facts_parseNode.

Theorem facts_parseXML : f_parseXML = x_parseXML.
Proof. reflexivity. Qed.
Print Assumptions facts_parseXML.

Theorem facts_consume_word : f_consume_word = x_consume_word.
Proof. reflexivity. Qed.
Print Assumptions facts_consume_word.

(* the file buffer has numBytes + 1 bytes, zero filled, numBytes of them read from the file: the
   terminator of Model.peek (index length s) *)
Theorem facts_readXML_buffer : f_readXML = MkRx 1 0 true true true true.
Proof. reflexivity. Qed.
Print Assumptions facts_readXML_buffer.

(* ---- Writer members and Node accessors: the extracted statement lists, interpreted (fprintf = %s
   substitution of C strings, the State stack as in the source), ARE the steps of WriterModel.v *)
Theorem facts_w_spaces : forall st,
  wexec [] f_w_spaces st = WR (MkW (w_out st ++ indent (length (w_stack st)))%list (w_stack st)).
Proof. change f_w_spaces with x_w_spaces. exact FactsWriter.spaces_sem. Qed.
Print Assumptions facts_w_spaces.

Theorem facts_w_writeHeader : forall v st, wexec [("version", v)] f_w_writeHeader st = of_model (wstep (WHeader v) st).
Proof. change f_w_writeHeader with x_w_writeHeader. exact FactsWriter.writeHeader_sem. Qed.
Print Assumptions facts_w_writeHeader.

Theorem facts_w_writeFooter : forall st, wexec [] f_w_writeFooter st = of_model (wstep WFooter st).
Proof. change f_w_writeFooter with x_w_writeFooter. exact FactsWriter.writeFooter_sem. Qed.
Print Assumptions facts_w_writeFooter.

Theorem facts_w_openNode : forall ty st, wexec [("type", ty)] f_w_openNode st = of_model (wstep (WOpen ty) st).
Proof. change f_w_openNode with x_w_openNode. exact FactsWriter.openNode_sem. Qed.
Print Assumptions facts_w_openNode.

Theorem facts_w_writeProperty : forall n v st,
  wexec [("name", n); ("value", v)] f_w_writeProperty st = of_model (wstep (WProp n v) st).
Proof. change f_w_writeProperty with x_w_writeProperty. exact FactsWriter.writeProperty_sem. Qed.
Print Assumptions facts_w_writeProperty.

Theorem facts_w_closeNode : forall st, wexec [] f_w_closeNode st = of_model (wstep WClose st).
Proof. change f_w_closeNode with x_w_closeNode. exact FactsWriter.closeNode_sem. Qed.
Print Assumptions facts_w_closeNode.

(* the constructor stores its two FILE pointers and starts with an empty stack; a new State has hasContent = false *)
Theorem facts_w_ctor : f_w_ctor = MkWc true true true.
Proof. reflexivity. Qed.
Print Assumptions facts_w_ctor.

(* hasProp = find != end; getProp(k, fallback) = found value or fallback; getProp(k) = getProp(k, empty) *)
Theorem facts_node_accessors : forall k fb m,
  nf_has f_n_hasProp k m = Some (has_prop k m) /\
  nf_get f_n_getProp2 k fb m = Some (get_prop_or k fb m) /\
  nf_get f_n_getProp1 k fb m = Some (get_prop k m).
Proof. intros. repeat split; reflexivity. Qed.
Print Assumptions facts_node_accessors.
