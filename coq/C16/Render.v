(* C16 -- the documented subset of XML as LAID-OUT documents, their rendering to bytes and the
   tree the property demands for them.  Definitions only (extracted: the check renders its
   generated documents with [render_doc], tests them with [wf_doc] and takes the expected
   result from [doc_of]).

   A laid-out document [ldoc] is a tree of named nodes with properties, text content and
   children TOGETHER WITH a layout, i.e. every choice the reader's grammar leaves open:
     - header: none | <?xml?> | <?xml W ws prop* ?>   (header properties are ignored by the reader)
     - white space (isWhite: SP TAB LF CR) after the header, after every top-level item, after a
       node's name, around '=' and after every property value, after '>' of an open tag, after
       every item of a node body; after the text content any isspace character (also VT, FF)
     - quote style per property (double or single), escapes (backslash + any non-NUL byte) in values
     - self-closing <n .../> versus open/close <n ...>items</n> form for a node without items
     - comments <! body --> (body: any bytes without NUL and without "-->"; "<!-- text -->" is
       the case body = "--" ++ text ++ ...) between the items of a node body and at top level
     - the position of the text content among the children and comments of its node.
   Quantifying over [ldoc] = quantifying over all pairs (tree, layout that fits the tree);
   [doc_of] forgets the layout.  The reader allows no white space / comments anywhere else
   (inside "</name>", between "/" and ">", inside "<?xml", before the header). *)
From Common Require Import Prelude.
From C16 Require Import Model.
Local Open Scope N_scope.

(* ------------------------------------------------------------ laid-out trees *)
(* name w1 = w2 Q value Q w3 *)
Record lprop := LProp { lp_name : str; lp_w1 : str; lp_w2 : str; lp_dq : bool; lp_val : str; lp_w3 : str }.

Inductive lnode :=
| LSelf (name ws0 : str) (props : list lprop)                       (* <name ws0 props/>                  *)
| LOpen (name ws0 : str) (props : list lprop) (wbody : str) (items : litems)
                                                                    (* <name ws0 props>wbody items</name> *)
with litems :=
| INil
| IComment (body ws : str) (rest : litems)                          (* <!body-->ws   *)
| IChild (n : lnode) (ws : str) (rest : litems)                     (* node ws       *)
| IText (text trail : str) (rest : litems).                         (* text trail    *)

Inductive lheader :=
| HNone
| HBare                                                             (* <?xml?>             *)
| HProps (w : N) (ws : str) (props : list lprop).                   (* <?xml W ws props ?> *)

Record ldoc := LDoc { ld_header : lheader; ld_ws : str; ld_items : litems }.

(* ------------------------------------------------------------------ rendering *)
Definition quote (dq : bool) : N := if dq then c_dq else c_sq.

Definition render_prop (p : lprop) : str :=
  lp_name p ++ lp_w1 p ++ c_eq :: lp_w2 p ++ quote (lp_dq p) :: lp_val p ++ quote (lp_dq p) :: lp_w3 p.

Fixpoint render_props (ps : list lprop) : str :=
  match ps with
  | [] => []
  | p :: ps' => render_prop p ++ render_props ps'
  end.

Definition w_cclose : list N := [c_dash; c_dash; c_gt].            (* --> *)

Fixpoint render_node (n : lnode) : str :=
  match n with
  | LSelf name ws0 props =>
      c_lt :: name ++ ws0 ++ render_props props ++ [c_slash; c_gt]
  | LOpen name ws0 props wbody items =>
      c_lt :: name ++ ws0 ++ render_props props ++ c_gt :: wbody ++ render_items items
        ++ c_lt :: c_slash :: name ++ [c_gt]
  end
with render_items (its : litems) : str :=
  match its with
  | INil => []
  | IComment body ws rest => c_lt :: c_bang :: body ++ w_cclose ++ ws ++ render_items rest
  | IChild n ws rest => render_node n ++ ws ++ render_items rest
  | IText text trail rest => text ++ trail ++ render_items rest
  end.

Definition render_header (h : lheader) : str :=
  match h with
  | HNone => []
  | HBare => w_xml_open ++ w_qgt
  | HProps w ws props => w_xml_open ++ w :: ws ++ render_props props ++ w_qgt
  end.

Definition render_doc (d : ldoc) : str :=
  render_header (ld_header d) ++ ld_ws d ++ render_items (ld_items d).

(* ------------------------------------------- the tree the property demands *)
(* properties as the reader stores them: std::map filled in document order
   (sorted by key, the last duplicate wins) *)
Definition pm_of (ps : list lprop) (acc : pmap) : pmap :=
  fold_left (fun m p => pm_insert (lp_name p) (lp_val p) m) ps acc.

Fixpoint content_of (its : litems) : str :=
  match its with
  | INil => []
  | IComment _ _ r => content_of r
  | IChild _ _ r => content_of r
  | IText t _ r => t ++ content_of r        (* wf: at most one text item, so this is t *)
  end.

Fixpoint node_of (n : lnode) : node :=
  match n with
  | LSelf name _ props => Node name (pm_of props []) [] []
  | LOpen name _ props _ items => Node name (pm_of props []) (content_of items) (children_of items)
  end
with children_of (its : litems) : list node :=
  match its with
  | INil => []
  | IComment _ _ r => children_of r
  | IChild n _ r => node_of n :: children_of r
  | IText _ _ r => children_of r
  end.

(* what "sorted by key, the last duplicate wins" means, independently of pm_insert *)
Fixpoint pm_find (k : str) (m : pmap) : option str :=
  match m with
  | [] => None
  | (k', v) :: m' => if str_eqb k k' then Some v else pm_find k m'
  end.
Fixpoint pm_sorted (m : pmap) : Prop :=
  match m with
  | [] => True
  | (k, _) :: m' => match m' with [] => True | (k', _) :: _ => str_cmp k k' = Lt end /\ pm_sorted m'
  end.
(* the value of the last property named k in document order *)
Definition last_prop (k : str) (ps : list lprop) : option str :=
  fold_left (fun o p => if str_eqb k (lp_name p) then Some (lp_val p) else o) ps None.

(* XMLDoc: a nameless root whose children are the top-level nodes *)
Definition doc_of (d : ldoc) : node := Node [] [] [] (children_of (ld_items d)).

(* --------------------------------------------------- the documented subset *)
(* names are identifiers *)
Definition identb (n : str) : bool :=
  match n with
  | [] => false
  | c :: r => is_id_start c && forallb is_id_char r
  end.

(* a property value between quotes q: plain bytes other than q, backslash, NUL; or an escape
   = backslash followed by any non-NUL byte (the reader keeps both bytes) *)
Fixpoint val_okb (q : N) (v : str) : bool :=
  match v with
  | [] => true
  | c :: v' =>
      if c =? c_bs then
        match v' with
        | [] => false
        | c1 :: v'' => negb (c1 =? 0) && val_okb q v''
        end
      else negb (c =? q) && negb (c =? 0) && val_okb q v'
  end.

Definition wf_prop (p : lprop) : bool :=
  identb (lp_name p) && forallb is_white (lp_w1 p) && forallb is_white (lp_w2 p)
  && val_okb (quote (lp_dq p)) (lp_val p) && forallb is_white (lp_w3 p).

(* comment body: no NUL, no "-->" *)
Definition pfx_close (b : str) : bool :=
  match b with
  | a :: b1 :: c :: _ => (a =? c_dash) && (b1 =? c_dash) && (c =? c_gt)
  | _ => false
  end.
Fixpoint comment_okb (b : str) : bool :=
  match b with
  | [] => true
  | c :: b' => negb (c =? 0) && negb (pfx_close b) && comment_okb b'
  end.

(* text content: non-empty, no '<', no NUL, does not start with isWhite, does not end with isspace *)
Definition text_okb (t : str) : bool :=
  match t with [] => false | c :: _ => negb (is_white c) end
  && forallb (fun c => negb (c =? c_lt) && negb (c =? 0)) t
  && negb (is_space (last t 0)).

(* white space is needed between the name and the first property *)
Definition wf_head (name ws0 : str) (props : list lprop) : bool :=
  identb name && forallb is_white ws0 && forallb wf_prop props
  && (is_nil props || negb (is_nil ws0)).

Fixpoint wf_node (n : lnode) : bool :=
  match n with
  | LSelf name ws0 props => wf_head name ws0 props
  | LOpen name ws0 props wbody items =>
      wf_head name ws0 props && forallb is_white wbody && wf_items true items
  end
with wf_items (text_allowed : bool) (its : litems) : bool :=
  match its with
  | INil => true
  | IComment body ws r => comment_okb body && forallb is_white ws && wf_items text_allowed r
  | IChild n ws r => wf_node n && forallb is_white ws && wf_items text_allowed r
  | IText t trail r => text_allowed && text_okb t && forallb is_space trail && wf_items false r
  end.

Definition wf_header (h : lheader) : bool :=
  match h with
  | HProps w ws props => is_white w && forallb is_white ws && forallb wf_prop props
  | _ => true
  end.

(* no text at top level *)
Definition wf_doc (d : ldoc) : bool :=
  wf_header (ld_header d) && forallb is_white (ld_ws d) && wf_items false (ld_items d).

(* the result of readXML on a rendered document, for the driver:
   (is it in the subset, its bytes, the demanded tree) *)
Definition render_case (d : ldoc) : bool * str * node := (wf_doc d, render_doc d, doc_of d).

(* ------------------------------------------- example data (non-vacuity Examples) *)
(* <?xml version="1.0" enc='u'?>\n<!-- top --> <r a="1" b = 'it\'s'\ta="2">\n <x/> text here\v<!-- in --><y k="v"></y></r>\n<s/> *)
Definition ex_doc : ldoc :=
  LDoc (HProps 32 [] [LProp [118; 101; 114; 115; 105; 111; 110] [] [] true [49; 46; 48] [32]; LProp [101; 110; 99] [] [] false [117] []]) [10] (IComment [45; 45; 32; 116; 111; 112; 32] [32] (IChild (LOpen [114] [32] [LProp [97] [] [] true [49] [32]; LProp [98] [32] [32] false [105; 116; 92; 39; 115] [9]; LProp [97] [] [] true [50] []] [10; 32] (IChild (LSelf [120] [] []) [32] (IText [116; 101; 120; 116; 32; 104; 101; 114; 101] [11] (IComment [45; 45; 32; 105; 110; 32] [] (IChild (LOpen [121] [32] [LProp [107] [] [] true [118] []] [] INil) [] INil))))) [10] (IChild (LSelf [115] [] []) [] INil))).
(* <a>x </a> : the text ends with a blank, outside the subset (the reader trims it) *)
Definition ex_doc_not_wf : ldoc :=
  LDoc HNone [] (IChild (LOpen [97] [] [] [] (IText [120; 32] [] INil)) [] INil).
