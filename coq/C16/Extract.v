From Coq Require Import Extraction ExtrOcamlBasic NArith List.
From C16 Require Import Model Render WriterModel.
Extraction "Model.ml" parse parse_old render_case writer_output has_prop get_prop get_prop_or.
