From Coq Require Import Extraction ExtrOcamlBasic NArith List.
From C16 Require Import Model Render.
Extraction "Model.ml" parse parse_old render_case.
