(* C12 - property theorems (TransactionalBuffer part and the documented finding).
   The lockset theorems about the regenerated table are in LocksetProp.v, the
   TransactionalValue theorems in PropertiesTVal.v. *)
From Common Require Import Prelude.
From C12 Require Import Model Proofs.

(* For ANY number of producers with ANY programs and ANY schedule: what the consumer
   has received so far (all batches, in order) followed by what is still in the buffer,
   restricted to producer p, is exactly what p has pushed so far, in p's order; and what
   p has pushed so far is a prefix of p's program. *)
Theorem tbuf_linear : forall progs sched p,
  let s := tb_run (tb_init progs) sched in
  by_prod p (tb_all s) = map (pair p) (nth p (ts_pushed s) [])
  /\ nth p (ts_pushed s) [] ++ nth p (ts_rem s) [] = nth p progs [].
Proof. exact tbuf_linear_proof. Qed.
Print Assumptions tbuf_linear.

(* nothing invented, nothing lost so far: an element is in a batch or still pending
   iff its producer has pushed it *)
Theorem tbuf_membership : forall progs sched e,
  let s := tb_run (tb_init progs) sched in
  In e (tb_all s) <-> In (snd e) (nth (fst e) (ts_pushed s) []).
Proof. exact Proofs.tbuf_membership. Qed.
Print Assumptions tbuf_membership.

(* exactly once: if no producer pushes the same payload twice (the harness pushes
   (producer, seq)), no element occurs twice in the concatenation of all batches and the
   residual buffer - so not twice in one batch, and not in two batches *)
Theorem tbuf_exactly_once : forall progs sched,
  (forall p, NoDup (nth p progs [])) ->
  NoDup (tb_all (tb_run (tb_init progs) sched)).
Proof. exact Proofs.tbuf_nodup. Qed.
Print Assumptions tbuf_exactly_once.

(* once producer p has finished and the buffer is drained, the batches restricted to p
   are p's whole program in order *)
Theorem tbuf_complete : forall progs sched p,
  let s := tb_run (tb_init progs) sched in
  nth p (ts_rem s) [] = [] -> ts_buf s = [] ->
  by_prod p (concat (ts_batches s)) = map (pair p) (nth p progs []).
Proof. exact Proofs.tbuf_complete. Qed.
Print Assumptions tbuf_complete.

(* size()/empty() never observe a torn state: every observation is the length (resp.
   emptiness) of the buffer in the state reached by a prefix of the schedule *)
Theorem tbuf_obs_linear : forall progs sched o,
  In o (ts_obs (tb_run (tb_init progs) sched)) ->
  exists pre c post, sched = pre ++ TCons c :: post /\ c <> KConsume /\
    o = snd (tb_step (ts_buf (tb_run (tb_init progs) pre)) (op_of c)) /\
    obs_of (ts_buf (tb_run (tb_init progs) pre)) o.
Proof. exact Proofs.tbuf_obs_proof. Qed.
Print Assumptions tbuf_obs_linear.

(* ... and is bounded by the number of pushes made so far, hence by the total *)
Theorem tbuf_size_bounded : forall progs sched,
  let s := tb_run (tb_init progs) sched in
  length (ts_buf s) <= list_sum (map (@length N) (ts_pushed s))
  /\ list_sum (map (@length N) (ts_pushed s)) <= list_sum (map (@length N) progs).
Proof. exact Proofs.tbuf_size_bound. Qed.
Print Assumptions tbuf_size_bounded.

(* one consumer round size(); empty(); consume() with any producer steps in between: the
   batch is at least as long as size() said and non-empty if empty() said false - this is
   what the extracted round_ok checks on every recorded round *)
Theorem tbuf_round_consistent : forall s ps1 ps2,
  forallb is_prod ps1 = true -> forallb is_prod ps2 = true ->
  let s' := tb_run s (TCons KSize :: ps1 ++ TCons KEmpty :: ps2 ++ [TCons KConsume]) in
  exists n e b, ts_obs s' = ts_obs s ++ [TONum n; TOBool e] /\ ts_batches s' = ts_batches s ++ [b]
                /\ ts_buf s' = [] /\ round_ok (n, e, b) = true.
Proof. exact Proofs.tbuf_round_proof. Qed.
Print Assumptions tbuf_round_consistent.

(* at a quiescent point (no producer step in between) size() and empty() describe exactly
   what consume() then returns - what the extracted round_exact checks on the rounds the
   harness records while all producers are parked *)
Theorem tbuf_quiescent_round : forall s,
  let s' := tb_run s [TCons KSize; TCons KEmpty; TCons KConsume] in
  let b := ts_buf s in
  ts_obs s' = ts_obs s ++ [TONum (N.of_nat (length b)); TOBool (match b with [] => true | _ => false end)]
  /\ ts_batches s' = ts_batches s ++ [b] /\ ts_buf s' = []
  /\ round_exact (N.of_nat (length b), match b with [] => true | _ => false end, b) = true.
Proof. exact Proofs.tbuf_quiescent_round_proof. Qed.
Print Assumptions tbuf_quiescent_round.

(* the acceptance function run (extracted) on the histories recorded by the stress harness:
   accepted histories are exactly the complete histories of the model *)
Theorem tbuf_accept_sound : forall progs bs,
  tb_accept progs bs = true ->
  exists sched, let s := tb_run (tb_init progs) sched in
    ts_batches s = bs /\ ts_buf s = [] /\ forall p, nth p (ts_rem s) [] = [].
Proof. exact Proofs.tb_accept_sound_proof. Qed.
Print Assumptions tbuf_accept_sound.

Theorem tbuf_accept_complete : forall progs sched,
  let s := tb_run (tb_init progs) sched in
  (forall p, nth p (ts_rem s) [] = []) -> ts_buf s = [] ->
  tb_accept progs (ts_batches s) = true.
Proof. exact Proofs.tb_accept_complete_proof. Qed.
Print Assumptions tbuf_accept_complete.

(* the reflective lockset check is sound and complete for the discipline *)
Theorem lockset_sound : forall t, lockset_ok t = true -> roles_total t /\ race_free t.
Proof. exact Proofs.lockset_ok_sound. Qed.
Print Assumptions lockset_sound.

Theorem lockset_complete : forall t, roles_total t -> race_free t -> lockset_ok t = true.
Proof. exact Proofs.lockset_ok_complete. Qed.
Print Assumptions lockset_complete.

(* the finding: in the tree before the repair, TransactionalValue::newValue (a plain bool)
   is written by operator= under the mutex and read by update() without it *)
Theorem tval_lockset_refuted : lockset_ok table_old = false /\ ~ race_free table_old.
Proof. exact Proofs.table_old_refuted. Qed.
Print Assumptions tval_lockset_refuted.

(* non-vacuity: 3 producers, an interleaving with two batches and a residue *)
Example tbuf_example :
  let s := tb_run (tb_init [[10; 11]; [20]; [30; 31; 32]]%N)
                  [TProd 0; TProd 2; TCons KSize; TProd 1; TCons KConsume; TProd 2; TProd 0;
                   TProd 1; TCons KEmpty; TCons KConsume; TProd 2; TCons KSize] in
  ts_batches s = [[(0, 10%N); (2, 30%N); (1, 20%N)]; [(2, 31%N); (0, 11%N)]]
  /\ ts_buf s = [(2, 32%N)]
  /\ ts_obs s = [TONum 2; TOBool false; TONum 1].
Proof. vm_compute. auto. Qed.

(* the acceptance function accepts that history's completion and rejects a lost, a duplicated
   and a reordered element *)
Example tbuf_accept_example :
  tb_accept [[10; 11]; [20]]%N [[(0, 10%N); (1, 20%N)]; []; [(0, 11%N)]] = true
  /\ tb_accept [[10; 11]; [20]]%N [[(0, 10%N); (1, 20%N)]] = false
  /\ tb_accept [[10; 11]; [20]]%N [[(0, 10%N); (1, 20%N)]; [(0, 10%N); (0, 11%N)]] = false
  /\ tb_accept [[10; 11]; [20]]%N [[(0, 11%N); (1, 20%N)]; [(0, 10%N)]] = false
  /\ tb_accept_obs [(2%N, false, [(0, 10%N); (1, 20%N)]); (0%N, true, [])] = true
  /\ tb_accept_obs [(2%N, false, [(0, 10%N)])] = false.
Proof. vm_compute. repeat split. Qed.
