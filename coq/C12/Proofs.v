(* C12 - proofs: lockset soundness and the TransactionalBuffer system. *)
From Common Require Import Prelude.
From Coq Require String FinFun.
From C12 Require Import Model.
Import String.StringSyntax.
Local Open Scope string_scope.

(* ----------------------------------------------------------------- lockset *)
Lemma seqb_eq a b : seqb a b = true <-> a = b.
Proof. apply String.eqb_eq. Qed.

Lemma lockset_ok_sound t : lockset_ok t = true -> roles_total t /\ race_free t.
Proof.
  unfold lockset_ok. intro H. apply andb_true_iff in H as [Hk Hp].
  rewrite forallb_forall in Hk, Hp. split.
  - intros a Ha. specialize (Hk a Ha). unfold known_method in Hk.
    apply orb_true_iff in Hk as [Hc|Hr]; [left; exact Hc|right].
    destruct (role_of a) as [r|]; [exists r; reflexivity|discriminate].
  - intros a1 a2 r1 r2 H1 H2 R1 R2 Hc Hf Hw Hcc.
    specialize (Hp a1 H1). rewrite forallb_forall in Hp. specialize (Hp a2 H2).
    unfold pair_ok in Hp. rewrite R1, R2 in Hp.
    assert (E1 : seqb (a_class a1) (a_class a2) = true) by (apply seqb_eq; exact Hc).
    assert (E2 : seqb (a_field a1) (a_field a2) = true) by (apply seqb_eq; exact Hf).
    assert (E3 : a_write a1 || a_write a2 = true)
      by (apply orb_true_iff; destruct Hw; [left|right]; assumption).
    rewrite E1, E2, E3, Hcc in Hp. cbn [andb] in Hp.
    unfold protected in Hp. apply orb_true_iff in Hp as [Ha|Hl].
    + left. apply andb_true_iff in Ha. exact Ha.
    + right. apply andb_true_iff in Hl as [Hn He]. split.
      * intro E. apply seqb_eq in E. rewrite E in Hn. discriminate.
      * apply seqb_eq. exact He.
Qed.

(* the converse: the check rejects only tables that break the discipline *)
Lemma lockset_ok_complete t : roles_total t -> race_free t -> lockset_ok t = true.
Proof.
  intros Ht Hr. unfold lockset_ok. apply andb_true_iff. split; apply forallb_forall.
  - intros a Ha. unfold known_method. destruct (Ht a Ha) as [Hc|[r Hr']].
    + rewrite Hc. reflexivity.
    + rewrite Hr'. apply orb_true_r.
  - intros a1 H1. apply forallb_forall. intros a2 H2. unfold pair_ok.
    destruct (role_of a1) as [r1|] eqn:R1; [|reflexivity].
    destruct (role_of a2) as [r2|] eqn:R2; [|reflexivity].
    destruct (seqb (a_class a1) (a_class a2)) eqn:E1; [|reflexivity].
    destruct (seqb (a_field a1) (a_field a2)) eqn:E2; [|reflexivity].
    destruct (a_write a1 || a_write a2) eqn:E3; [|reflexivity].
    destruct (concurrent (a_class a1) r1 r2) eqn:E4; [|reflexivity].
    cbn [andb]. apply seqb_eq in E1, E2. apply orb_true_iff in E3.
    destruct (Hr a1 a2 r1 r2 H1 H2 R1 R2 E1 E2 E3 E4) as [[A1 A2]|[N E]]; unfold protected.
    + rewrite A1, A2. reflexivity.
    + apply orb_true_iff. right. apply andb_true_iff. split.
      * destruct (seqb (a_lock a1) "") eqn:E5; [apply seqb_eq in E5; contradiction|reflexivity].
      * apply seqb_eq. exact E.
Qed.

Lemma tbuf_atomic_sound t : tbuf_atomic_ok t = true ->
  (forall a, In a t -> a_class a = "TransactionalBuffer" -> is_ctor a = false ->
             a_lock a <> "")
  /\ exists a, In a t /\ a_class a = "TransactionalBuffer".
Proof.
  unfold tbuf_atomic_ok. intro H. apply andb_true_iff in H as [Ha He]. split.
  - rewrite forallb_forall in Ha. intros a Hin Hc Hn E. specialize (Ha a Hin).
    rewrite Hc, Hn, E in Ha. cbn in Ha. discriminate.
  - apply existsb_exists in He as [a [Hin Hc]]. exists a. split; [exact Hin|].
    apply seqb_eq. exact Hc.
Qed.

(* ------------------------------------------------------ TransactionalBuffer *)
Lemma upd_length {A} (l : list A) i x : length (upd l i x) = length l.
Proof. revert i; induction l as [|h t IH]; intros [|i]; simpl; auto. Qed.

Lemma nth_upd_same {A} (l : list A) i x d : i < length l -> nth i (upd l i x) d = x.
Proof.
  revert i; induction l as [|h t IH]; intros [|i] H; simpl in *; try lia; auto.
  apply IH. lia.
Qed.

Lemma nth_upd_other {A} (l : list A) i j x d : i <> j -> nth j (upd l i x) d = nth j l d.
Proof.
  revert i j; induction l as [|h t IH]; intros [|i] [|j] H; simpl; auto; try congruence.
Qed.

Lemma by_prod_app p l1 l2 : by_prod p (l1 ++ l2) = by_prod p l1 ++ by_prod p l2.
Proof. apply filter_app. Qed.

Record tb_inv (progs : list (list N)) (s : tb_sys) : Prop := {
  inv_len_rem : length (ts_rem s) = length progs;
  inv_len_pushed : length (ts_pushed s) = length progs;
  inv_lin : forall p, by_prod p (tb_all s) = map (pair p) (nth p (ts_pushed s) []);
  inv_prog : forall p, nth p (ts_pushed s) [] ++ nth p (ts_rem s) [] = nth p progs [];
  inv_count : length (tb_all s) = list_sum (map (@length N) (ts_pushed s))
}.

Lemma nth_map_nil {A B} (l : list A) p : nth p (map (fun _ => @nil B) l) [] = [].
Proof. revert p; induction l; intros [|p]; simpl; auto. Qed.

Lemma tb_inv_init progs : tb_inv progs (tb_init progs).
Proof.
  constructor; cbn.
  - reflexivity.
  - apply map_length.
  - intro p. rewrite nth_map_nil. reflexivity.
  - intro p. rewrite nth_map_nil. reflexivity.
  - induction progs; simpl; auto.
Qed.

Lemma list_sum_upd (l : list (list N)) p v :
  p < length l ->
  list_sum (map (@length N) (upd l p (nth p l [] ++ [v]))) = S (list_sum (map (@length N) l)).
Proof.
  revert p; induction l as [|h t IH]; intros [|p] H; simpl in *; try lia.
  - rewrite app_length. simpl. lia.
  - rewrite IH by lia. lia.
Qed.

Lemma nth_overflow_nil {A} (l : list (list A)) p : length l <= p -> nth p l [] = [].
Proof. intro H. apply nth_overflow. exact H. Qed.

Lemma tb_inv_step progs s a : tb_inv progs s -> tb_inv progs (tb_sys_step s a).
Proof.
  intros [Hlr Hlp Hlin Hprog Hcnt]. destruct a as [p|o].
  - (* producer p *)
    cbn [tb_sys_step]. destruct (nth p (ts_rem s) []) as [|v r] eqn:Er.
    { constructor; assumption. }
    assert (Hp : p < length (ts_rem s)).
    { destruct (Nat.lt_ge_cases p (length (ts_rem s))) as [L|G]; [exact L|].
      rewrite nth_overflow in Er by exact G. discriminate. }
    constructor; cbn [ts_rem ts_pushed ts_buf ts_batches tb_step fst].
    + rewrite upd_length. exact Hlr.
    + rewrite upd_length. exact Hlp.
    + intro q. unfold tb_all in *. cbn [ts_batches ts_buf].
      rewrite app_assoc, by_prod_app, Hlin.
      destruct (Nat.eq_dec p q) as [E|N].
      * subst q. rewrite nth_upd_same by lia. rewrite map_app. cbn.
        rewrite Nat.eqb_refl. reflexivity.
      * rewrite nth_upd_other by exact N. cbn.
        destruct (Nat.eqb p q) eqn:E; [apply Nat.eqb_eq in E; contradiction|].
        rewrite app_nil_r. reflexivity.
    + intro q. destruct (Nat.eq_dec p q) as [E|N].
      * subst q. rewrite !nth_upd_same by lia. rewrite <- app_assoc. cbn.
        rewrite <- Er. apply Hprog.
      * rewrite !nth_upd_other by exact N. apply Hprog.
    + unfold tb_all in *. cbn [ts_batches ts_buf]. rewrite list_sum_upd by lia.
      rewrite <- Hcnt. rewrite !app_length. cbn. lia.
  - (* consumer-side call *)
    destruct o; constructor; cbn; try assumption; unfold tb_all in *; cbn;
      try (intro p; rewrite concat_app; cbn; rewrite !app_nil_r; apply Hlin).
    rewrite concat_app. cbn. rewrite !app_nil_r. exact Hcnt.
Qed.

Lemma tb_inv_run progs sched s : tb_inv progs s -> tb_inv progs (tb_run s sched).
Proof.
  revert s; induction sched as [|a l IH]; intros s H; cbn; [exact H|].
  apply IH. apply tb_inv_step. exact H.
Qed.

Lemma tb_reach_inv progs sched : tb_inv progs (tb_run (tb_init progs) sched).
Proof. apply tb_inv_run. apply tb_inv_init. Qed.

(* main statement *)
Lemma tbuf_linear_proof progs sched p :
  let s := tb_run (tb_init progs) sched in
  by_prod p (tb_all s) = map (pair p) (nth p (ts_pushed s) [])
  /\ nth p (ts_pushed s) [] ++ nth p (ts_rem s) [] = nth p progs [].
Proof.
  intro s. destruct (tb_reach_inv progs sched) as [_ _ Hlin Hprog _]. split; [apply Hlin|apply Hprog].
Qed.

(* consequences *)
Lemma in_by_prod e l : In e l <-> In e (by_prod (fst e) l).
Proof.
  unfold by_prod. rewrite filter_In. rewrite Nat.eqb_refl. tauto.
Qed.

Lemma tbuf_membership progs sched e :
  let s := tb_run (tb_init progs) sched in
  In e (tb_all s) <-> In (snd e) (nth (fst e) (ts_pushed s) []).
Proof.
  intro s. rewrite in_by_prod. destruct (tbuf_linear_proof progs sched (fst e)) as [H _].
  fold s in H. rewrite H. rewrite in_map_iff. destruct e as [p v]; cbn. split.
  - intros [x [E Hx]]. inversion E; subst. exact Hx.
  - intro Hx. exists v. auto.
Qed.

Lemma NoDup_by_prod l :
  (forall p, NoDup (by_prod p l)) -> NoDup l.
Proof.
  induction l as [|e l IH]; intro H; constructor.
  - intro Hin. specialize (H (fst e)). unfold by_prod in H. cbn in H.
    rewrite Nat.eqb_refl in H. inversion H as [|x y Hn Hd]; subst. apply Hn.
    apply filter_In. rewrite Nat.eqb_refl. auto.
  - apply IH. intro p. specialize (H p). unfold by_prod in *. cbn in H.
    destruct (Nat.eqb (fst e) p); [inversion H; assumption|exact H].
Qed.

Lemma NoDup_app_l {A} (l1 l2 : list A) : NoDup (l1 ++ l2) -> NoDup l1.
Proof.
  induction l1 as [|x l1 IH]; intro H; [constructor|].
  inversion H as [|y z Hn Hd]; subst. constructor.
  - intro Hin. apply Hn. apply in_or_app. left. exact Hin.
  - apply IH. exact Hd.
Qed.

Lemma tbuf_nodup progs sched :
  (forall p, NoDup (nth p progs [])) ->
  NoDup (tb_all (tb_run (tb_init progs) sched)).
Proof.
  intro Hnd. apply NoDup_by_prod. intro p.
  destruct (tbuf_linear_proof progs sched p) as [H1 H2]. rewrite H1.
  apply FinFun.Injective_map_NoDup.
  - intros x y E. inversion E. reflexivity.
  - specialize (Hnd p). rewrite <- H2 in Hnd. apply NoDup_app_l in Hnd. exact Hnd.
Qed.

(* when every producer has finished and the buffer has been drained, the batches hold
   exactly the programs *)
Lemma tbuf_complete progs sched p :
  let s := tb_run (tb_init progs) sched in
  nth p (ts_rem s) [] = [] -> ts_buf s = [] ->
  by_prod p (concat (ts_batches s)) = map (pair p) (nth p progs []).
Proof.
  intros s Hr Hb. destruct (tbuf_linear_proof progs sched p) as [H1 H2]. fold s in H1, H2.
  unfold tb_all in H1. rewrite Hb, app_nil_r in H1. rewrite H1. rewrite Hr, app_nil_r in H2.
  rewrite H2. reflexivity.
Qed.

(* size()/empty(): each observation is the length / emptiness of the buffer of the
   state reached by a prefix of the schedule, and never exceeds the number of pushes *)
Definition obs_of (b : tbuf) (o : tb_out) : Prop :=
  o = TONum (N.of_nat (length b)) \/ o = TOBool (match b with [] => true | _ => false end).

Lemma tb_run_app s l1 l2 : tb_run s (l1 ++ l2) = tb_run (tb_run s l1) l2.
Proof. apply fold_left_app. Qed.

Lemma tbuf_obs_proof progs sched o :
  In o (ts_obs (tb_run (tb_init progs) sched)) ->
  exists pre c post, sched = pre ++ TCons c :: post /\ c <> KConsume /\
    o = snd (tb_step (ts_buf (tb_run (tb_init progs) pre)) (op_of c)) /\
    obs_of (ts_buf (tb_run (tb_init progs) pre)) o.
Proof.
  induction sched as [|a l IH] using rev_ind; cbn; [tauto|].
  rewrite tb_run_app. cbn. set (s := tb_run (tb_init progs) l) in *. intro Hin.
  assert (Hold : In o (ts_obs s) ->
          exists pre c post, l ++ [a] = pre ++ TCons c :: post /\ c <> KConsume /\
            o = snd (tb_step (ts_buf (tb_run (tb_init progs) pre)) (op_of c)) /\
            obs_of (ts_buf (tb_run (tb_init progs) pre)) o).
  { intro H. destruct (IH H) as [pre [c [post [E [Hc [Ho Hob]]]]]].
    exists pre, c, (post ++ [a]). rewrite E. rewrite <- app_assoc. cbn. auto. }
  destruct a as [p|c].
  - cbn in Hin. destruct (nth p (ts_rem s) []); cbn in Hin; auto.
  - destruct c; cbn in Hin; auto.
    + apply in_app_or in Hin as [H|[H|[]]]; auto. subst o.
      exists l, KSize, []. fold s. cbn. repeat split; try congruence. left. reflexivity.
    + apply in_app_or in Hin as [H|[H|[]]]; auto. subst o.
      exists l, KEmpty, []. fold s. cbn. repeat split; try congruence. right. reflexivity.
Qed.

Lemma tbuf_size_bound progs sched :
  let s := tb_run (tb_init progs) sched in
  length (ts_buf s) <= list_sum (map (@length N) (ts_pushed s))
  /\ list_sum (map (@length N) (ts_pushed s)) <= list_sum (map (@length N) progs).
Proof.
  intro s. destruct (tb_reach_inv progs sched) as [Hlr Hlp _ Hprog Hcnt]. fold s in Hlr, Hlp, Hprog, Hcnt.
  split.
  - rewrite <- Hcnt. unfold tb_all. rewrite app_length. lia.
  - clear Hcnt. revert Hlp Hprog. generalize (ts_pushed s) (ts_rem s) Hlr. clear.
    induction progs as [|x progs IH]; intros pu re Hlr Hlp Hprog.
    + destruct pu; [cbn; lia|discriminate].
    + destruct pu as [|y pu]; [discriminate|]. destruct re as [|z re]; [discriminate|].
      cbn. assert (H0 := Hprog 0). cbn in H0. rewrite <- H0, app_length.
      assert (IH' := IH pu re). cbn in Hlr, Hlp.
      assert (list_sum (map (@length N) pu) <= list_sum (map (@length N) progs)).
      { apply IH'; try lia. intro p. apply (Hprog (S p)). }
      unfold list_sum in *. lia.
Qed.

(* -------------------------------------- acceptance of recorded consumer histories *)
Lemma all_nil_iff rem : all_nil rem = true <-> forall p, nth p rem [] = [].
Proof.
  unfold all_nil. induction rem as [|h t IH]; cbn.
  - split; [intros _ [|p]; reflexivity|reflexivity].
  - rewrite andb_true_iff, IH. split.
    + intros [H1 H2] [|p]; [destruct h; [reflexivity|discriminate]|apply H2].
    + intro H. split; [specialize (H 0); cbn in H; subst h; reflexivity|intro p; apply (H (S p))].
Qed.

Lemma take_elems_app rem l1 l2 :
  take_elems rem (l1 ++ l2) = match take_elems rem l1 with Some r => take_elems r l2 | None => None end.
Proof.
  revert rem; induction l1 as [|e t IH]; intro rem; cbn; [reflexivity|].
  destruct (take_elem rem e); [apply IH|reflexivity].
Qed.

Lemma take_batches_concat rem bs : take_batches rem bs = take_elems rem (concat bs).
Proof.
  revert rem; induction bs as [|b t IH]; intro rem; cbn; [reflexivity|].
  rewrite take_elems_app. destruct (take_elems rem b); [apply IH|reflexivity].
Qed.

(* soundness: an accepted history is produced by a schedule of the model *)
Lemma take_elems_sched b : forall s rem',
  take_elems (ts_rem s) b = Some rem' ->
  let s' := tb_run s (map (fun e => TProd (fst e)) b) in
  ts_buf s' = ts_buf s ++ b /\ ts_rem s' = rem' /\ ts_batches s' = ts_batches s /\ ts_obs s' = ts_obs s.
Proof.
  induction b as [|e t IH]; intros s rem' H; cbn in H.
  - inversion H. cbn. rewrite app_nil_r. auto.
  - unfold take_elem in H. destruct e as [p v]. cbn [fst snd] in H.
    destruct (nth p (ts_rem s) []) as [|w r] eqn:En; [discriminate|].
    destruct (N.eqb w v) eqn:Ev; [|discriminate]. apply N.eqb_eq in Ev. subst w.
    cbn [map tb_run fold_left fst]. change (fold_left tb_sys_step ?l ?x) with (tb_run x l).
    set (s1 := tb_sys_step s (TProd p)).
    assert (H1 : ts_buf s1 = ts_buf s ++ [(p, v)] /\ ts_rem s1 = upd (ts_rem s) p r
                 /\ ts_batches s1 = ts_batches s /\ ts_obs s1 = ts_obs s).
    { unfold s1. cbn [tb_sys_step]. rewrite En. cbn. auto. }
    destruct H1 as [B1 [R1 [C1 O1]]]. rewrite <- R1 in H.
    destruct (IH s1 rem' H) as [B2 [R2 [C2 O2]]]. cbn zeta.
    rewrite B2, R2, C2, O2, B1, C1, O1, <- app_assoc. cbn. auto.
Qed.

Definition sched_of (bs : list (list elem)) : list tb_actor :=
  concat (map (fun b => map (fun e => TProd (fst e)) b ++ [TCons KConsume]) bs).

Lemma take_batches_sched bs : forall s rem',
  ts_buf s = [] -> take_batches (ts_rem s) bs = Some rem' ->
  let s' := tb_run s (sched_of bs) in
  ts_buf s' = [] /\ ts_rem s' = rem' /\ ts_batches s' = ts_batches s ++ bs.
Proof.
  induction bs as [|b t IH]; intros s rem' Hb H; cbn in H.
  - inversion H. cbn. rewrite app_nil_r. auto.
  - destruct (take_elems (ts_rem s) b) as [r1|] eqn:E1; [|discriminate].
    destruct (take_elems_sched b s r1 E1) as [B1 [R1 [C1 _]]].
    unfold sched_of. cbn [map concat]. rewrite <- app_assoc. cbn zeta. rewrite !tb_run_app.
    fold (sched_of t).
    set (s1 := tb_run s (map (fun e => TProd (fst e)) b)) in *.
    set (s2 := tb_run s1 [TCons KConsume]).
    assert (H2 : ts_buf s2 = [] /\ ts_rem s2 = r1 /\ ts_batches s2 = ts_batches s ++ [b]).
    { unfold s2. cbn. rewrite B1, Hb, R1, C1. cbn. auto. }
    destruct H2 as [B2 [R2 C2]]. rewrite <- R2 in H.
    destruct (IH s2 rem' B2 H) as [B3 [R3 C3]]. cbn zeta in B3, R3, C3.
    rewrite B3, R3, C3, C2, <- app_assoc. cbn. auto.
Qed.

Lemma tb_accept_sound_proof progs bs :
  tb_accept progs bs = true ->
  exists sched, let s := tb_run (tb_init progs) sched in
    ts_batches s = bs /\ ts_buf s = [] /\ forall p, nth p (ts_rem s) [] = [].
Proof.
  unfold tb_accept. destruct (take_batches progs bs) as [rem|] eqn:E; [|discriminate]. intro Hn.
  exists (sched_of bs).
  destruct (take_batches_sched bs (tb_init progs) rem eq_refl E) as [B [R C]]. cbn zeta in *.
  rewrite B, R, C. cbn. split; [reflexivity|]. split; [reflexivity|]. apply all_nil_iff. exact Hn.
Qed.

(* completeness: every complete history of the model is accepted *)
Lemma by_prod_cons_same p v l : by_prod p ((p, v) :: l) = (p, v) :: by_prod p l.
Proof. unfold by_prod. cbn. rewrite Nat.eqb_refl. reflexivity. Qed.
Lemma by_prod_cons_other p q v l : q <> p -> by_prod p ((q, v) :: l) = by_prod p l.
Proof. intro H. unfold by_prod. cbn. destruct (Nat.eqb q p) eqn:E; [apply Nat.eqb_eq in E; contradiction|reflexivity]. Qed.

Lemma take_elems_complete l : forall rem,
  (forall p, exists post, nth p rem [] = map snd (by_prod p l) ++ post) ->
  exists rem', take_elems rem l = Some rem' /\
    forall p, nth p rem [] = map snd (by_prod p l) ++ nth p rem' [].
Proof.
  induction l as [|[p0 v] t IH]; intros rem H.
  - exists rem. split; [reflexivity|]. intro p. reflexivity.
  - destruct (H p0) as [post0 H0]. rewrite by_prod_cons_same in H0. cbn in H0.
    assert (Hlt : p0 < length rem).
    { destruct (Nat.lt_ge_cases p0 (length rem)) as [L|G]; [exact L|].
      rewrite nth_overflow in H0 by exact G. discriminate. }
    cbn [take_elems]. unfold take_elem. cbn [fst snd]. rewrite H0, N.eqb_refl.
    set (rem1 := upd rem p0 (map snd (by_prod p0 t) ++ post0)).
    assert (H1 : forall p, exists post, nth p rem1 [] = map snd (by_prod p t) ++ post).
    { intro p. unfold rem1. destruct (Nat.eq_dec p0 p) as [E|N].
      - subst p. rewrite nth_upd_same by exact Hlt. eauto.
      - rewrite nth_upd_other by exact N. destruct (H p) as [post Hp].
        rewrite by_prod_cons_other in Hp by exact N. eauto. }
    destruct (IH rem1 H1) as [rem' [T1 T2]]. exists rem'. split; [exact T1|].
    intro p. destruct (Nat.eq_dec p0 p) as [E|N].
    + subst p. rewrite H0, by_prod_cons_same. cbn. f_equal.
      specialize (T2 p0). unfold rem1 in T2. rewrite nth_upd_same in T2 by exact Hlt.
      apply app_inv_head in T2. rewrite T2. reflexivity.
    + specialize (T2 p). unfold rem1 in T2. rewrite nth_upd_other in T2 by exact N.
      rewrite by_prod_cons_other by exact N. exact T2.
Qed.

Lemma tb_accept_complete_proof progs sched :
  let s := tb_run (tb_init progs) sched in
  (forall p, nth p (ts_rem s) [] = []) -> ts_buf s = [] ->
  tb_accept progs (ts_batches s) = true.
Proof.
  intros s Hr Hb. unfold tb_accept. rewrite take_batches_concat.
  assert (Hc : forall p, by_prod p (concat (ts_batches s)) = map (pair p) (nth p progs []))
    by (intro p; apply (tbuf_complete progs sched p (Hr p) Hb)).
  assert (Hm : forall (p : nat) (l : list N), map (@snd nat N) (map (pair p) l) = l)
    by (intros p l; rewrite map_map; cbn; apply map_id).
  assert (H : forall p, exists post, nth p progs [] = map snd (by_prod p (concat (ts_batches s))) ++ post).
  { intro p. exists []. rewrite Hc, Hm, app_nil_r. reflexivity. }
  destruct (take_elems_complete _ _ H) as [rem' [T1 T2]]. rewrite T1. apply all_nil_iff. intro p.
  specialize (T2 p). rewrite Hc, Hm in T2.
  rewrite <- (app_nil_r (nth p progs [])) in T2 at 1.
  apply app_inv_head in T2. symmetry. exact T2.
Qed.

(* one consumer round: size(), then empty(), then consume(), with producers running in
   between: consume() returns at least what size() announced, and something if empty()
   said false (only the consumer removes elements) *)
Lemma prods_grow l : forall s, forallb is_prod l = true ->
  exists suf, ts_buf (tb_run s l) = ts_buf s ++ suf /\ ts_batches (tb_run s l) = ts_batches s
              /\ ts_obs (tb_run s l) = ts_obs s.
Proof.
  induction l as [|a t IH]; intros s H.
  - exists []. cbn. rewrite app_nil_r. auto.
  - cbn in H. apply andb_true_iff in H as [Ha Ht]. destruct a as [p|c]; [|discriminate].
    cbn [tb_run fold_left]. change (fold_left tb_sys_step t ?x) with (tb_run x t).
    destruct (IH (tb_sys_step s (TProd p)) Ht) as [suf [B [C O]]]. rewrite B, C, O.
    cbn [tb_sys_step]. destruct (nth p (ts_rem s) []) as [|v r].
    + exists suf. auto.
    + cbn. exists ((p, v) :: suf). rewrite <- app_assoc. auto.
Qed.

Lemma lenN_spec {A} (l : list A) acc : lenN l acc = (acc + N.of_nat (length l))%N.
Proof. revert acc; induction l as [|x t IH]; intro acc; cbn [lenN length]; [lia|]. rewrite IH. lia. Qed.

Lemma tbuf_round_proof s ps1 ps2 :
  forallb is_prod ps1 = true -> forallb is_prod ps2 = true ->
  let s' := tb_run s (TCons KSize :: ps1 ++ TCons KEmpty :: ps2 ++ [TCons KConsume]) in
  exists n e b, ts_obs s' = ts_obs s ++ [TONum n; TOBool e] /\ ts_batches s' = ts_batches s ++ [b]
                /\ ts_buf s' = [] /\ round_ok (n, e, b) = true.
Proof.
  intros H1 H2. cbn [tb_run fold_left]. change (fold_left tb_sys_step ?l ?x) with (tb_run x l).
  rewrite tb_run_app. cbn [tb_run fold_left]. change (fold_left tb_sys_step ?l ?x) with (tb_run x l).
  rewrite tb_run_app.
  set (s1 := tb_sys_step s (TCons KSize)).
  destruct (prods_grow ps1 s1 H1) as [suf1 [B1 [C1 O1]]]. set (s2 := tb_run s1 ps1) in *.
  set (s3 := tb_sys_step s2 (TCons KEmpty)).
  destruct (prods_grow ps2 s3 H2) as [suf2 [B2 [C2 O2]]]. set (s4 := tb_run s3 ps2) in *.
  exists (N.of_nat (length (ts_buf s))), (match ts_buf s2 with [] => true | _ => false end), (ts_buf s4).
  cbn. rewrite O2, C2. unfold s3. cbn. rewrite O1, C1. unfold s1. cbn. rewrite <- app_assoc. cbn.
  repeat split.
  apply andb_true_iff. split.
  - apply N.leb_le. rewrite lenN_spec, B2. unfold s3. cbn. rewrite B1. unfold s1. cbn.
    rewrite !app_length. lia.
  - rewrite B2. unfold s3. cbn. destruct (ts_buf s2); cbn; reflexivity.
Qed.

Lemma tbuf_quiescent_round_proof s :
  let s' := tb_run s [TCons KSize; TCons KEmpty; TCons KConsume] in
  let b := ts_buf s in
  ts_obs s' = ts_obs s ++ [TONum (N.of_nat (length b)); TOBool (match b with [] => true | _ => false end)]
  /\ ts_batches s' = ts_batches s ++ [b] /\ ts_buf s' = []
  /\ round_exact (N.of_nat (length b), match b with [] => true | _ => false end, b) = true.
Proof.
  cbn. rewrite <- app_assoc. repeat split.
  apply andb_true_iff. split.
  - apply N.eqb_eq. rewrite lenN_spec. lia.
  - destruct (ts_buf s); reflexivity.
Qed.

Lemma member_eqb_eq a b : member_eqb a b = true -> a = b.
Proof.
  unfold member_eqb. destruct a, b. cbn. rewrite !andb_true_iff, !seqb_eq. intros [[[H1 H2] H3] H4]. congruence.
Qed.

Lemma members_eqb_sound l1 : forall l2, members_eqb l1 l2 = true -> l1 = l2.
Proof.
  induction l1 as [|a t IH]; intros [|b t2] H; cbn in H; try discriminate; [reflexivity|].
  apply andb_true_iff in H as [H1 H2]. apply member_eqb_eq in H1. apply IH in H2. congruence.
Qed.

Lemma table_old_refuted : lockset_ok table_old = false /\ ~ race_free table_old.
Proof.
  split; [vm_compute; reflexivity|]. intro H.
  set (a1 := mk "TransactionalValue" "operator=" 61 "newValue" true false "mutex").
  set (a2 := mk "TransactionalValue" "update" 91 "newValue" false false "").
  assert (H1 : In a1 table_old) by (cbn; tauto).
  assert (H2 : In a2 table_old) by (cbn; tauto).
  destruct (H a1 a2 Producer Consumer H1 H2) as [[A _]|[_ E]]; try reflexivity; try discriminate.
  left. reflexivity.
Qed.
