(* C12 - executable models of rkcommon::containers::TransactionalBuffer<T> and
   rkcommon::utility::TransactionalValue<T>, plus the lockset discipline that is
   checked on the access table regenerated from the two headers on every run
   (gen/Locks.v, written by props/C12/lockgen.py).

   (a) TransactionalBuffer: every method body is one critical section over
       bufferMutex (theorem tbuf_methods_atomic checks this on the table), so a
       method is one atomic step on a shared list.
   (b) TransactionalValue: operator= and update() are split into the steps the
       C++ performs; the read of the flag in update() happens before the lock is
       taken and is its own step.
   (c) access table + reflective lockset check.
   Definitions only. *)
From Common Require Import Prelude.
From Coq Require String.
Local Open Scope N_scope.

(* ------------------------------------------------------- TransactionalBuffer *)
(* an element is (producer, payload); the harness pushes (producer, seq) *)
Definition elem := (nat * N)%type.
Definition tbuf := list elem.              (* std::vector<T> buffer *)

Inductive tb_op :=
| TPush (e : elem)        (* push_back(const T&) / push_back(T&&) *)
| TConsume                (* consume(): return std::move(buffer)  *)
| TSize                   (* size()                                *)
| TEmpty.                 (* empty()                               *)

Inductive tb_out :=
| TOUnit | TOBatch (l : list elem) | TONum (n : N) | TOBool (b : bool).

Definition tb_step (b : tbuf) (o : tb_op) : tbuf * tb_out :=
  match o with
  | TPush e => (b ++ [e], TOUnit)
  | TConsume => ([], TOBatch b)
  | TSize => (b, TONum (N.of_nat (length b)))
  | TEmpty => (b, TOBool (match b with [] => true | _ => false end))
  end.

(* the system: any number of producers (index = position in the lists), each
   with the payloads it still has to push; consumer-side calls are chosen by the
   schedule.  ts_pushed, ts_batches, ts_obs are history variables. *)
Inductive cons_op := KConsume | KSize | KEmpty.
Inductive tb_actor := TProd (p : nat) | TCons (o : cons_op).

Definition op_of (o : cons_op) : tb_op :=
  match o with KConsume => TConsume | KSize => TSize | KEmpty => TEmpty end.

Record tb_sys := {
  ts_buf : tbuf;
  ts_rem : list (list N);          (* per producer: payloads not yet pushed   *)
  ts_pushed : list (list N);       (* per producer: payloads pushed so far    *)
  ts_batches : list (list elem);   (* results of consume(), in order          *)
  ts_obs : list tb_out             (* results of size()/empty(), in order     *)
}.

Fixpoint upd {A} (l : list A) (i : nat) (x : A) : list A :=
  match l, i with
  | [], _ => []
  | _ :: t, O => x :: t
  | h :: t, S j => h :: upd t j x
  end.

Definition tb_init (progs : list (list N)) : tb_sys :=
  {| ts_buf := []; ts_rem := progs; ts_pushed := map (fun _ => []) progs;
     ts_batches := []; ts_obs := [] |}.

Definition tb_sys_step (s : tb_sys) (a : tb_actor) : tb_sys :=
  match a with
  | TProd p =>
      match nth p (ts_rem s) [] with
      | [] => s                                  (* producer p has finished *)
      | v :: r =>
          {| ts_buf := fst (tb_step (ts_buf s) (TPush (p, v)));
             ts_rem := upd (ts_rem s) p r;
             ts_pushed := upd (ts_pushed s) p (nth p (ts_pushed s) [] ++ [v]);
             ts_batches := ts_batches s; ts_obs := ts_obs s |}
      end
  | TCons o =>
      let r := tb_step (ts_buf s) (op_of o) in
      {| ts_buf := fst r; ts_rem := ts_rem s; ts_pushed := ts_pushed s;
         ts_batches := match snd r with TOBatch l => ts_batches s ++ [l] | _ => ts_batches s end;
         ts_obs := match snd r with TOBatch _ => ts_obs s | o' => ts_obs s ++ [o'] end |}
  end.

Definition tb_run (s : tb_sys) (sched : list tb_actor) : tb_sys :=
  fold_left tb_sys_step sched s.

(* everything handed to the consumer so far, followed by what is still pending *)
Definition tb_all (s : tb_sys) : list elem := concat (ts_batches s) ++ ts_buf s.
Definition by_prod (p : nat) (l : list elem) : list elem :=
  filter (fun e => Nat.eqb (fst e) p) l.

(* -------------------------------------------------------- TransactionalValue *)
Section TVal.
  Variable V : Type.

  (* the object.  tv_queued = None stands for a queuedValue that is
     default-constructed or moved-from: a value the producer never assigned. *)
  Record tval := { tv_new : bool; tv_queued : option V; tv_current : V }.

  (* method-level (sequential) semantics *)
  Definition tv_make (v0 : V) : tval :=
    {| tv_new := false; tv_queued := None; tv_current := v0 |}.
  Definition tv_assign (t : tval) (v : V) : tval :=
    {| tv_new := true; tv_queued := Some v; tv_current := tv_current t |}.
  Definition tv_get (t : tval) : V := tv_current t.
  (* a write through the reference returned by ref(): currentValue only (consumer side) *)
  Definition tv_setref (t : tval) (v : V) : tval :=
    {| tv_new := tv_new t; tv_queued := tv_queued t; tv_current := v |}.
  (* update(): None = it installed a queuedValue that was never assigned *)
  Definition tv_update (t : tval) : option (tval * bool) :=
    if tv_new t then
      match tv_queued t with
      | Some v => Some ({| tv_new := false; tv_queued := None; tv_current := v |}, true)
      | None => None
      end
    else Some (t, false).

  (* micro-step semantics: one producer thread running operator= for each value
     of p_rem in turn, one consumer thread calling update()/get()/ref(). *)
  Inductive who := Prod | Cons.
  Inductive ppc :=                 (* producer, inside operator=(v)        *)
  | PIdle                          (* not inside; next: lock_guard(mutex)  *)
  | PWriteQ (v : V)                (* holds mutex; next: queuedValue = v   *)
  | PSetFlag                       (* next: newValue = true                *)
  | PUnlock.                       (* next: ~lock_guard                    *)
  Inductive cpc :=                 (* consumer, inside update()            *)
  | CIdle                          (* not inside; next: if (newValue)      *)
  | CLock                          (* saw true; next: lock_guard(mutex)    *)
  | CInstall                       (* next: currentValue = move(queued)    *)
  | CClear                         (* next: newValue = false               *)
  | CUnlock.                       (* next: ~lock_guard, return true       *)
  Inductive cons_call := DoUpdate | DoGet.    (* DoGet: get() or ref() *)
  Inductive tv_actor := AProd | ACons (c : cons_call).
  (* what the consumer observes: the result of update() together with what get()
     returns immediately afterwards (only the consumer writes currentValue), and
     the result of get() *)
  Inductive event := EvUpdate (b : bool) (cur : V) | EvGet (v : V).

  Record tv_sys := {
    obj : tval;
    mutex : option who;
    p_pc : ppc;
    p_rem : list V;                (* values still to be assigned *)
    c_pc : cpc;
    log : list event;
    stale : bool                   (* a never-assigned queuedValue was installed *)
  }.

  Definition tv_init (v0 : V) (vs : list V) : tv_sys :=
    {| obj := tv_make v0; mutex := None; p_pc := PIdle; p_rem := vs; c_pc := CIdle;
       log := []; stale := false |}.

  Definition set_obj (s : tv_sys) (o : tval) (pp : ppc) (cp : cpc) : tv_sys :=
    {| obj := o; mutex := mutex s; p_pc := pp; p_rem := p_rem s; c_pc := cp;
       log := log s; stale := stale s |}.

  Definition tv_step (s : tv_sys) (a : tv_actor) : tv_sys :=
    let o := obj s in
    match a with
    | AProd =>
        match p_pc s with
        | PIdle =>
            match p_rem s with
            | [] => s                              (* producer has finished *)
            | v :: r =>
                match mutex s with
                | None => {| obj := o; mutex := Some Prod; p_pc := PWriteQ v; p_rem := r;
                             c_pc := c_pc s; log := log s; stale := stale s |}
                | Some _ => s                      (* blocked on the mutex *)
                end
            end
        | PWriteQ v =>
            set_obj s {| tv_new := tv_new o; tv_queued := Some v; tv_current := tv_current o |}
                    PSetFlag (c_pc s)
        | PSetFlag =>
            set_obj s {| tv_new := true; tv_queued := tv_queued o; tv_current := tv_current o |}
                    PUnlock (c_pc s)
        | PUnlock =>
            {| obj := o; mutex := None; p_pc := PIdle; p_rem := p_rem s; c_pc := c_pc s;
               log := log s; stale := stale s |}
        end
    | ACons c =>
        match c_pc s with
        | CIdle =>
            match c with
            | DoGet =>
                {| obj := o; mutex := mutex s; p_pc := p_pc s; p_rem := p_rem s; c_pc := CIdle;
                   log := log s ++ [EvGet (tv_current o)]; stale := stale s |}
            | DoUpdate =>
                if tv_new o                        (* read without the mutex *)
                then set_obj s o (p_pc s) CLock
                else {| obj := o; mutex := mutex s; p_pc := p_pc s; p_rem := p_rem s; c_pc := CIdle;
                        log := log s ++ [EvUpdate false (tv_current o)]; stale := stale s |}
            end
        | CLock =>
            match mutex s with
            | None => {| obj := o; mutex := Some Cons; p_pc := p_pc s; p_rem := p_rem s;
                         c_pc := CInstall; log := log s; stale := stale s |}
            | Some _ => s                          (* blocked on the mutex *)
            end
        | CInstall =>
            match tv_queued o with
            | Some v =>
                set_obj s {| tv_new := tv_new o; tv_queued := None; tv_current := v |}
                        (p_pc s) CClear
            | None =>
                {| obj := o; mutex := mutex s; p_pc := p_pc s; p_rem := p_rem s; c_pc := CClear;
                   log := log s; stale := true |}
            end
        | CClear =>
            set_obj s {| tv_new := false; tv_queued := tv_queued o; tv_current := tv_current o |}
                    (p_pc s) CUnlock
        | CUnlock =>
            {| obj := o; mutex := None; p_pc := p_pc s; p_rem := p_rem s; c_pc := CIdle;
               log := log s ++ [EvUpdate true (tv_current o)]; stale := stale s |}
        end
    end.

  Definition tv_run (s : tv_sys) (sched : list tv_actor) : tv_sys :=
    fold_left tv_step sched s.
End TVal.

Arguments tv_new {V}. Arguments tv_queued {V}. Arguments tv_current {V}.
Arguments tv_make {V}. Arguments tv_assign {V}. Arguments tv_get {V}. Arguments tv_update {V}. Arguments tv_setref {V}.
Arguments PIdle {V}. Arguments PWriteQ {V}. Arguments PSetFlag {V}. Arguments PUnlock {V}.
Arguments EvUpdate {V}. Arguments EvGet {V}.
Arguments obj {V}. Arguments mutex {V}. Arguments p_pc {V}. Arguments p_rem {V}.
Arguments c_pc {V}. Arguments log {V}. Arguments stale {V}.
Arguments tv_init {V}. Arguments tv_step {V}. Arguments tv_run {V}. Arguments set_obj {V}.

(* values tagged with their position in the producer's assignment sequence
   (0 = the initial currentValue); the tag is what "newer" means.  Tags are binary
   numbers so that the extracted acceptance function is linear. *)
Fixpoint tagN {A} (k : N) (l : list A) : list (N * A) :=
  match l with [] => [] | x :: t => (k, x) :: tagN (N.succ k) t end.

(* the tagged system started by the harness: currentValue = v0 (tag 0), the producer
   assigns vs (tags 1, 2, ...) *)
Definition tv_init_tagged {A} (v0 : A) (vs : list A) : tv_sys (N * A) :=
  tv_init (0, v0) (tagN 1 vs).

(* v is the value the producer assigned in position fst v (0: the initial value) *)
Definition tv_valid {A} (v0 : A) (vs : list A) (v : N * A) : Prop :=
  nth_error (v0 :: vs) (N.to_nat (fst v)) = Some (snd v).

(* the consumer's view is coherent: get() and a false update() return the value
   of the previous event, a true update() returns a strictly newer one *)
Fixpoint log_ok {A} (prev : N * A) (l : list (event (N * A))) : Prop :=
  match l with
  | [] => True
  | EvGet v :: l' => v = prev /\ log_ok prev l'
  | EvUpdate false v :: l' => v = prev /\ log_ok prev l'
  | EvUpdate true v :: l' => (fst prev < fst v) /\ log_ok v l'
  end.

Definition ev_val {A} (e : event A) : A :=
  match e with EvUpdate _ v => v | EvGet v => v end.

(* the value the consumer holds after the history l *)
Definition log_cur {A} (prev : A) (l : list (event A)) : A :=
  fold_left (fun _ e => ev_val e) l prev.

(* forgetting the tags (tv_step never inspects a value: tv_map_step in ProofsTVal.v) *)
Definition map_tval {A B} (f : A -> B) (t : tval A) : tval B :=
  {| tv_new := tv_new t; tv_queued := option_map f (tv_queued t); tv_current := f (tv_current t) |}.
Definition map_ppc {A B} (f : A -> B) (p : ppc A) : ppc B :=
  match p with PIdle => PIdle | PWriteQ v => PWriteQ (f v) | PSetFlag => PSetFlag | PUnlock => PUnlock end.
Definition map_event {A B} (f : A -> B) (e : event A) : event B :=
  match e with EvUpdate b v => EvUpdate b (f v) | EvGet v => EvGet (f v) end.
Definition map_sys {A B} (f : A -> B) (s : tv_sys A) : tv_sys B :=
  {| obj := map_tval f (obj s); mutex := mutex s; p_pc := map_ppc f (p_pc s); p_rem := map f (p_rem s);
     c_pc := c_pc s; log := map (map_event f) (log s); stale := stale s |}.

(* ------------------------------------------- acceptance of observed histories *)
(* (these run, extracted, on the histories recorded by the stress harness)     *)

(* TransactionalBuffer: the consumer's batches are replayed against the producers'
   programs; every element must be the next one its producer has to push *)
Definition take_elem (rem : list (list N)) (e : elem) : option (list (list N)) :=
  match nth (fst e) rem [] with
  | v :: r => if N.eqb v (snd e) then Some (upd rem (fst e) r) else None
  | [] => None
  end.
Fixpoint take_elems (rem : list (list N)) (l : list elem) : option (list (list N)) :=
  match l with
  | [] => Some rem
  | e :: t => match take_elem rem e with Some rem' => take_elems rem' t | None => None end
  end.
Fixpoint take_batches (rem : list (list N)) (bs : list (list elem)) : option (list (list N)) :=
  match bs with
  | [] => Some rem
  | b :: t => match take_elems rem b with Some rem' => take_batches rem' t | None => None end
  end.
Definition all_nil (rem : list (list N)) : bool :=
  forallb (fun l => match l with [] => true | _ => false end) rem.
(* a complete history: all producers have finished and the buffer was drained *)
Definition tb_accept (progs : list (list N)) (batches : list (list elem)) : bool :=
  match take_batches progs batches with Some rem => all_nil rem | None => false end.

(* one consumer round of the harness: size(), then empty(), then consume(), producers
   running in between; with a single consumer the batch cannot be smaller than what
   size()/empty() announced *)
Fixpoint lenN {A} (l : list A) (acc : N) : N :=
  match l with [] => acc | _ :: t => lenN t (N.succ acc) end.
Definition round_ok (r : N * bool * list elem) : bool :=
  let '(n, e, b) := r in
  N.leb n (lenN b 0) && (e || match b with [] => false | _ => true end).
Definition tb_accept_obs (rounds : list (N * bool * list elem)) : bool := forallb round_ok rounds.
(* a round at a quiescent point (no producer step between size(), empty() and consume()):
   the observations describe the batch exactly *)
Definition round_exact (r : N * bool * list elem) : bool :=
  let '(n, e, b) := r in
  N.eqb n (lenN b 0) && Bool.eqb e (match b with [] => true | _ => false end).
Definition tb_accept_quiet (rounds : list (N * bool * list elem)) : bool := forallb round_exact rounds.
Definition is_prod (a : tb_actor) : bool := match a with TProd _ => true | TCons _ => false end.

(* TransactionalValue: the consumer's events are replayed against the (tagged) values
   still to come *)
Notation tagv := (N * N)%type.
Definition eqv (a b : tagv) : bool := N.eqb (fst a) (fst b) && N.eqb (snd a) (snd b).
Fixpoint drop_to (v : tagv) (rest : list tagv) : option (list tagv) :=
  match rest with
  | [] => None
  | w :: t => if eqv w v then Some t else drop_to v t
  end.
(* what the harness records: the consumer's events, and quiescent points - HQuiet i after
   an update() event says: assignment i had completed and the producer was idle from before
   that update() began until it returned *)
Inductive hev := HEv (e : event tagv) | HQuiet (i : N).
Fixpoint tv_acc (rest : list tagv) (prev : tagv) (l : list hev) : option (list tagv) :=
  match l with
  | [] => Some rest
  | HEv (EvGet v) :: l' => if eqv v prev then tv_acc rest prev l' else None
  | HEv (EvUpdate false v) :: l' => if eqv v prev then tv_acc rest prev l' else None
  | HEv (EvUpdate true v) :: l' =>
      match drop_to v rest with Some rest' => tv_acc rest' v l' | None => None end
  | HQuiet i :: l' => if N.eqb (fst prev) i then tv_acc rest prev l' else None
  end.
(* a history so far *)
Definition tv_accept_prefix (v0 : N) (vs : list N) (l : list hev) : bool :=
  match tv_acc (tagN 1 vs) (0, v0) l with Some _ => true | None => false end.
(* a complete history: it ends with an update() begun after the last assignment, so the
   last value has been obtained *)
Definition tv_accept (v0 : N) (vs : list N) (l : list hev) : bool :=
  match tv_acc (tagN 1 vs) (0, v0) l with Some [] => true | _ => false end.

(* The consumer's history as the harness records it, produced by the model itself: the
   micro-step system plus ghost recording.  HArm: the consumer reads the producer's
   "quiet" announcement - possible when the producer is outside operator= (it then waits
   for the acknowledgement, i.e. takes no step until the consumer's update() has returned;
   any producer step disarms); the announced number is the count of completed assignments.
   When an armed update() returns, the marker becomes ready; HMark appends it to the history
   (get() calls may come in between; the next update() discards it).  n = length vs. *)
Definition is_cidle (c : cpc) : bool := match c with CIdle => true | _ => false end.
Definition is_pidle {V} (p : ppc V) : bool := match p with PIdle => true | _ => false end.
Definition is_update {V} (e : event V) : bool := match e with EvUpdate _ _ => true | EvGet _ => false end.
Record tvh := { h_sys : tv_sys tagv; h_hist : list hev; h_armed : option N; h_ready : option N }.
Inductive tvh_actor := HRun (a : tv_actor) | HArm | HMark.
Definition tvh_init (v0 : N) (vs : list N) : tvh :=
  {| h_sys := tv_init_tagged v0 vs; h_hist := []; h_armed := None; h_ready := None |}.
Definition tvh_step (n : nat) (h : tvh) (a : tvh_actor) : tvh :=
  let s := h_sys h in
  match a with
  | HRun AProd =>
      {| h_sys := tv_step s AProd; h_hist := h_hist h; h_armed := None; h_ready := h_ready h |}
  | HRun (ACons c) =>
      let s' := tv_step s (ACons c) in
      let ne := skipn (length (log s)) (log s') in
      if existsb is_update ne
      then {| h_sys := s'; h_hist := h_hist h ++ map HEv ne; h_armed := None; h_ready := h_armed h |}
      else {| h_sys := s'; h_hist := h_hist h ++ map HEv ne; h_armed := h_armed h;
              h_ready := if is_cidle (c_pc s) && is_cidle (c_pc s') then h_ready h else None |}
  | HArm =>
      if is_pidle (p_pc s) && is_cidle (c_pc s)
      then {| h_sys := s; h_hist := h_hist h;
              h_armed := Some (N.of_nat (n - length (p_rem s))); h_ready := h_ready h |}
      else h
  | HMark =>
      match h_ready h with
      | Some i => {| h_sys := s; h_hist := h_hist h ++ [HQuiet i]; h_armed := h_armed h; h_ready := None |}
      | None => h
      end
  end.
Definition tvh_run (n : nat) (h : tvh) (sched : list tvh_actor) : tvh := fold_left (tvh_step n) sched h.
(* the underlying schedule of the micro-step system *)
Fixpoint tvh_proj (sched : list tvh_actor) : list tv_actor :=
  match sched with [] => [] | HRun a :: t => a :: tvh_proj t | _ :: t => tvh_proj t end.

(* --------------------------------------------------------------- lockset *)
Import String.StringSyntax.
Local Open Scope string_scope.
(* One row per member-field access found in a method body of the two headers. *)
Record access := {
  a_class : String.string;     (* "TransactionalBuffer" / "TransactionalValue"        *)
  a_method : String.string;    (* "push_back", "operator=", "update", ... ("<ctor>")   *)
  a_line : N;                  (* source line of the access                            *)
  a_field : String.string;     (* member accessed                                      *)
  a_write : bool;              (* anything but a plain read                            *)
  a_atomic : bool;             (* the member is declared std::atomic<...>              *)
  a_lock : String.string       (* mutex member held by a lock_guard/unique_lock in
                                  scope at the access; "" = none                       *)
}.

Inductive role := Producer | Consumer.

Definition seqb := String.eqb.

(* the documented usage.  None = not callable concurrently (constructors: the
   object is not shared yet) or unknown method (rejected by lockset_ok). *)
Definition is_ctor (a : access) : bool :=
  seqb (a_method a) "<ctor>" || seqb (a_method a) "<dtor>".

Definition role_of (a : access) : option role :=
  if seqb (a_class a) "TransactionalBuffer" then
    if seqb (a_method a) "push_back" then Some Producer
    else if seqb (a_method a) "consume" || seqb (a_method a) "size" || seqb (a_method a) "empty"
    then Some Consumer else None
  else if seqb (a_class a) "TransactionalValue" then
    if seqb (a_method a) "operator=" then Some Producer
    else if seqb (a_method a) "update" || seqb (a_method a) "get" || seqb (a_method a) "ref"
    then Some Consumer else None
  else None.

(* may two threads be in these roles at the same time?  TransactionalBuffer has any
   number of producers; everything else is a single thread per role *)
Definition concurrent (cls : String.string) (r1 r2 : role) : bool :=
  match r1, r2 with
  | Producer, Producer => seqb cls "TransactionalBuffer"
  | Consumer, Consumer => false
  | _, _ => true
  end.

Definition protected (a1 a2 : access) : bool :=
  (a_atomic a1 && a_atomic a2)
  || (negb (seqb (a_lock a1) "") && seqb (a_lock a1) (a_lock a2)).

Definition pair_ok (a1 a2 : access) : bool :=
  match role_of a1, role_of a2 with
  | Some r1, Some r2 =>
      if seqb (a_class a1) (a_class a2) && seqb (a_field a1) (a_field a2)
         && (a_write a1 || a_write a2) && concurrent (a_class a1) r1 r2
      then protected a1 a2 else true
  | _, _ => true
  end.

Definition known_method (a : access) : bool :=
  is_ctor a || match role_of a with Some _ => true | None => false end.

Definition lockset_ok (t : list access) : bool :=
  forallb known_method t && forallb (fun a1 => forallb (pair_ok a1) t) t.

(* granularity of model (a): every access in a TransactionalBuffer method is made
   with the mutex held, and the table is not empty for that class *)
Definition tbuf_atomic_ok (t : list access) : bool :=
  forallb (fun a => negb (seqb (a_class a) "TransactionalBuffer") || is_ctor a
                    || negb (seqb (a_lock a) "")) t
  && existsb (fun a => seqb (a_class a) "TransactionalBuffer") t.

(* granularity of model (b): in operator= everything is under the mutex; in
   update() everything except reads of an atomic member is under the mutex *)
Definition tval_granularity_ok (t : list access) : bool :=
  forallb (fun a =>
    negb (seqb (a_class a) "TransactionalValue")
    || negb (seqb (a_method a) "operator=" || seqb (a_method a) "update")
    || negb (seqb (a_lock a) "")
    || (a_atomic a && negb (a_write a))) t
  && existsb (fun a => seqb (a_class a) "TransactionalValue" && seqb (a_method a) "update") t
  && existsb (fun a => seqb (a_class a) "TransactionalValue" && seqb (a_method a) "operator=") t.

(* what the reflective check establishes (lockset_ok_sound in Proofs.v) *)
Definition roles_total (t : list access) : Prop :=
  forall a, In a t -> is_ctor a = true \/ exists r, role_of a = Some r.

Definition race_free (t : list access) : Prop :=
  forall a1 a2 r1 r2, In a1 t -> In a2 t ->
    role_of a1 = Some r1 -> role_of a2 = Some r2 ->
    a_class a1 = a_class a2 -> a_field a1 = a_field a2 ->
    (a_write a1 = true \/ a_write a2 = true) ->
    concurrent (a_class a1) r1 r2 = true ->
    (a_atomic a1 = true /\ a_atomic a2 = true)
    \/ (a_lock a1 <> "" /\ a_lock a1 = a_lock a2).

(* the table of the tree before the repair of TransactionalValue::newValue (plain bool
   read outside the mutex in update()); kept to document the finding *)
Definition mk (c m : String.string) (l : N) (f : String.string) (w at_ : bool) (k : String.string) : access :=
  {| a_class := c; a_method := m; a_line := l; a_field := f; a_write := w; a_atomic := at_; a_lock := k |}.
Definition table_old : list access := [
  mk "TransactionalBuffer" "push_back" 45 "buffer" true false "bufferMutex";
  mk "TransactionalBuffer" "push_back" 52 "buffer" true false "bufferMutex";
  mk "TransactionalBuffer" "consume" 59 "buffer" true false "bufferMutex";
  mk "TransactionalBuffer" "size" 66 "buffer" false false "bufferMutex";
  mk "TransactionalBuffer" "empty" 73 "buffer" false false "bufferMutex";
  mk "TransactionalValue" "<ctor>" 51 "currentValue" true false "";
  mk "TransactionalValue" "operator=" 60 "queuedValue" true false "mutex";
  mk "TransactionalValue" "operator=" 61 "newValue" true false "mutex";
  mk "TransactionalValue" "operator=" 70 "queuedValue" true false "mutex";
  mk "TransactionalValue" "operator=" 71 "newValue" true false "mutex";
  mk "TransactionalValue" "ref" 78 "currentValue" true false "";
  mk "TransactionalValue" "get" 84 "currentValue" false false "";
  mk "TransactionalValue" "update" 91 "newValue" false false "";
  mk "TransactionalValue" "update" 93 "currentValue" true false "mutex";
  mk "TransactionalValue" "update" 93 "queuedValue" true false "mutex";
  mk "TransactionalValue" "update" 94 "newValue" true false "mutex" ].

(* ------------------------------------------------------ closed member list *)
(* every declaration written in the bodies of the two classes, as the models above cover
   them: a data member, a method, a changed signature or a default argument that is not
   listed here is outside the models (theorem interface_closed in LocksetProp.v, on the
   list regenerated from the clang AST on every run) *)
Record member := { m_class : String.string; m_kind : String.string; m_name : String.string; m_sig : String.string }.
Definition member_eqb (a b : member) : bool :=
  seqb (m_class a) (m_class b) && seqb (m_kind a) (m_kind b) && seqb (m_name a) (m_name b) && seqb (m_sig a) (m_sig b).
Fixpoint members_eqb (l1 l2 : list member) : bool :=
  match l1, l2 with
  | [], [] => true
  | a :: t1, b :: t2 => member_eqb a b && members_eqb t1 t2
  | _, _ => false
  end.
Definition mkm (c k n t : String.string) : member := {| m_class := c; m_kind := k; m_name := n; m_sig := t |}.
Definition expected_members : list member := [
  mkm "TransactionalBuffer" "field" "buffer" "std::vector<T>";
  mkm "TransactionalBuffer" "field" "bufferMutex" "std::mutex";
  mkm "TransactionalBuffer" "method" "<ctor>" "void () =default";
  mkm "TransactionalBuffer" "method" "consume" "std::vector<T> ()";
  mkm "TransactionalBuffer" "method" "empty" "bool () const";
  mkm "TransactionalBuffer" "method" "push_back" "void (T &&)";
  mkm "TransactionalBuffer" "method" "push_back" "void (const T &)";
  mkm "TransactionalBuffer" "method" "size" "size_t () const";
  mkm "TransactionalValue" "field" "currentValue" "T";
  mkm "TransactionalValue" "field" "mutex" "std::mutex";
  mkm "TransactionalValue" "field" "newValue" "std::atomic<bool>";
  mkm "TransactionalValue" "field" "queuedValue" "T";
  mkm "TransactionalValue" "method" "<ctor>" "template void (const OtherType &)";
  mkm "TransactionalValue" "method" "<ctor>" "void () =default";
  mkm "TransactionalValue" "method" "<dtor>" "void () =default";
  mkm "TransactionalValue" "method" "get" "T ()";
  mkm "TransactionalValue" "method" "operator=" "TransactionalValue<T> &(const TransactionalValue<T> &)";
  mkm "TransactionalValue" "method" "operator=" "template TransactionalValue<T> &(const OtherType &)";
  mkm "TransactionalValue" "method" "ref" "T &()";
  mkm "TransactionalValue" "method" "update" "bool ()" ].
