#!/bin/bash
# Regenerates gen/Locks.v (lockset access table + member list) from the repository working tree,
# so that the Coq project can be built from clean (bin/setup) - the check does the same on every run.
cd "$(dirname "$0")"
mkdir -p gen
exec python3 ../../props/C12/lockgen_ast.py --repo "${VERIF_REPO:-/repo}" --out gen/Locks.v >/dev/null 2>&1
