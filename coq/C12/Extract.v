From Coq Require Import Extraction ExtrOcamlBasic NArith List.
From C12 Require Import Model.
Extraction "Model.ml" tb_step tb_init tb_sys_step tb_run tv_make tv_assign tv_update tv_get tv_setref
  tv_init tv_step tv_run take_elems take_batches all_nil tb_accept round_ok tb_accept_obs round_exact tb_accept_quiet
  tagN tv_acc tv_accept tv_accept_prefix N.of_nat N.to_nat.
