(* C12 - theorems about the access table regenerated from the working tree
   (gen/Locks.v, written by props/C12/lockgen.py before every build). *)
From Common Require Import Prelude.
From C12 Require Import Model Proofs.
From C12.gen Require Import Locks.
Import String.StringSyntax.
Local Open Scope string_scope.

(* documented usage (producers: push_back / operator=; consumer: consume, size, empty /
   update, get, ref): every method in the headers has a role, and every member accessed
   by two threads that may run concurrently, at least one of them writing, is atomic or
   accessed only with the same mutex member held *)
Theorem lockset_race_free : roles_total table /\ race_free table.
Proof. apply lockset_ok_sound. vm_compute. reflexivity. Qed.
Print Assumptions lockset_race_free.

(* granularity of the TransactionalBuffer model: every member access of every method is
   made with the mutex held, so a method body is one critical section *)
Theorem tbuf_methods_atomic :
  (forall a, In a table -> a_class a = "TransactionalBuffer" -> is_ctor a = false -> a_lock a <> "")
  /\ exists a, In a table /\ a_class a = "TransactionalBuffer".
Proof. apply tbuf_atomic_sound. vm_compute. reflexivity. Qed.
Print Assumptions tbuf_methods_atomic.

(* granularity of the TransactionalValue model: operator= and update() touch members only
   under the mutex, except for reads of an atomic member (the flag test in update()) *)
Theorem tval_granularity : tval_granularity_ok table = true.
Proof. vm_compute. reflexivity. Qed.
Print Assumptions tval_granularity.

(* the classes consist of exactly the members the models cover: no data member, method,
   signature or default argument beyond (or different from) Model.expected_members *)
Theorem interface_closed : members = expected_members.
Proof. apply members_eqb_sound. vm_compute. reflexivity. Qed.
Print Assumptions interface_closed.
