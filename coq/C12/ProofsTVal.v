(* C12 - proofs about the TransactionalValue micro-step system (one producer, one consumer). *)
From Common Require Import Prelude.
From C12 Require Import Model.
Local Open Scope N_scope.

(* ------------------------------------------------------------------ helpers *)
Lemma tagN_cons_inv {A} j (l : list A) v r :
  tagN j l = v :: r -> exists x t, l = x :: t /\ v = (j, x) /\ r = tagN (N.succ j) t.
Proof. destruct l as [|x t]; cbn; intro H; [discriminate|]. inversion H. eauto. Qed.

Lemma skipn_cons {A} (l : list A) n x t :
  skipn n l = x :: t -> skipn (S n) l = t /\ nth_error l n = Some x /\ (n < length l)%nat.
Proof.
  revert n; induction l as [|h l IH]; intros [|n] H; cbn in *; try discriminate.
  - inversion H; subst. repeat split. lia.
  - destruct (IH n H) as [H1 [H2 H3]]. repeat split; auto. lia.
Qed.

Lemma log_cur_snoc {A} (p : A) l e : log_cur p (l ++ [e]) = ev_val e.
Proof. unfold log_cur. rewrite fold_left_app. reflexivity. Qed.

Definition snoc_ok {A} (c : N * A) (e : event (N * A)) : Prop :=
  match e with
  | EvGet v => v = c
  | EvUpdate false v => v = c
  | EvUpdate true v => fst c < fst v
  end.

Lemma log_ok_snoc {A} (p : N * A) l e :
  log_ok p l -> snoc_ok (log_cur p l) e -> log_ok p (l ++ [e]).
Proof.
  revert p; induction l as [|h t IH]; intros p Hl He.
  - cbn in *. destruct e as [[|] v|v]; cbn in *; auto.
  - destruct h as [[|] v|v]; cbn in Hl |- *; destruct Hl as [H1 H2].
    + split; [exact H1|]. apply IH; assumption.
    + subst v. split; [reflexivity|]. apply IH; assumption.
    + subst v. split; [reflexivity|]. apply IH; assumption.
Qed.

(* ---------------------------------------------------------------- invariant *)
Section TV.
  Context {A : Type}.
  Variable v0 : A.
  Variable vs : list A.
  Notation V := (N * A)%type.
  Notation valid := (tv_valid v0 vs).
  Notation first := (0, v0).

  Definition holds_p (pp : ppc V) : bool := match pp with PIdle => false | _ => true end.
  Definition holds_c (cp : cpc) : bool :=
    match cp with CInstall | CClear | CUnlock => true | _ => false end.
  Definition installed (cp : cpc) : bool :=
    match cp with CClear | CUnlock => true | _ => false end.
  (* tag of the latest assignment whose write of queuedValue has been executed *)
  Definition Lof (k : N) (pp : ppc V) : N := match pp with PWriteQ _ => N.pred k | _ => k end.

  Record tv_inv_k (k : N) (s : tv_sys V) : Prop := {
    r_rem : p_rem s = tagN (N.succ k) (skipn (N.to_nat k) vs);
    r_k : (N.to_nat k <= length vs)%nat;
    r_mutex : mutex s = if holds_p (p_pc s) then Some Prod else if holds_c (c_pc s) then Some Cons else None;
    r_excl : holds_p (p_pc s) && holds_c (c_pc s) = false;
    r_pw : forall v, p_pc s = PWriteQ v -> fst v = k /\ valid v /\ 0 < k;
    r_ps : p_pc s = PSetFlag -> tv_queued (obj s) <> None;
    r_q : match tv_queued (obj s) with
          | Some v => fst v = Lof k (p_pc s) /\ fst (tv_current (obj s)) < fst v /\ valid v
          | None => fst (tv_current (obj s)) = Lof k (p_pc s)
          end;
    r_cur : valid (tv_current (obj s));
    r_f1 : tv_new (obj s) = true -> tv_queued (obj s) <> None \/ c_pc s = CClear;
    r_f2 : tv_queued (obj s) <> None -> tv_new (obj s) = false -> p_pc s = PSetFlag;
    r_c1 : c_pc s = CLock \/ c_pc s = CInstall -> tv_new (obj s) = true;
    r_c2 : c_pc s = CClear -> tv_queued (obj s) = None;
    r_stale : stale s = false;
    r_log : log_ok first (log s);
    r_logv : Forall (fun e => valid (ev_val e)) (log s);
    r_logc : if installed (c_pc s)
             then fst (log_cur first (log s)) < fst (tv_current (obj s))
             else log_cur first (log s) = tv_current (obj s)
  }.

  Definition tv_inv (s : tv_sys V) : Prop := exists k, tv_inv_k k s.

  Lemma tv_inv_init : tv_inv (tv_init_tagged v0 vs).
  Proof.
    exists 0. constructor; cbn; auto; try discriminate; try lia.
    - intros H; discriminate.
    - intros [H|H]; discriminate.
  Qed.

  Lemma valid_succ k x : nth_error vs (N.to_nat k) = Some x -> valid (N.succ k, x).
  Proof. unfold tv_valid. cbn [fst snd]. rewrite Nnat.N2Nat.inj_succ. cbn. auto. Qed.

  Ltac fin := cbn in *; intuition (try congruence; try discriminate; try lia; eauto).

  Lemma tv_inv_step s a : tv_inv s -> tv_inv (tv_step s a).
  Proof.
    intros [k H]. destruct s as [o m pp pr cp lg st]. destruct o as [nw q cur].
    destruct H as [Hrem Hk Hm Hx Hpw Hps Hq Hcur Hf1 Hf2 Hc1 Hc2 Hst Hlog Hlogv Hlogc]. cbn in *.
    destruct a as [|c].
    - (* producer *)
      destruct pp as [|v| |]; cbn in *.
      + (* PIdle: take the mutex *)
        destruct pr as [|v r]; [exists k; constructor; fin|].
        destruct m as [w|]; [exists k; constructor; fin|].
        symmetry in Hrem. apply tagN_cons_inv in Hrem as [x [t [Hsk [Hv Hr]]]].
        apply skipn_cons in Hsk as [Hsk [Hnth Hlt]].
        assert (Hc : holds_c cp = false) by (destruct (holds_c cp); [discriminate|reflexivity]).
        exists (N.succ k). constructor; cbn.
        * rewrite Nnat.N2Nat.inj_succ, Hsk. exact Hr.
        * lia.
        * reflexivity.
        * exact Hc.
        * intros v' E. inversion E; subst v'. subst v. cbn. split; [reflexivity|]. split; [apply valid_succ; exact Hnth|lia].
        * discriminate.
        * rewrite N.pred_succ. exact Hq.
        * exact Hcur.
        * exact Hf1.
        * intros H1 H2. specialize (Hf2 H1 H2). discriminate.
        * exact Hc1.
        * exact Hc2.
        * exact Hst.
        * exact Hlog.
        * exact Hlogv.
        * exact Hlogc.
      + (* PWriteQ: queuedValue = v *)
        destruct (Hpw v eq_refl) as [Hfv [Hvv Hpos]].
        exists k. constructor; cbn; auto; try discriminate.
        * intros _; discriminate.
        * split; [exact Hfv|]. split; [|exact Hvv].
          destruct q as [w|]; [destruct Hq as [Hq1 [Hq2 _]]|]; lia.
        * intros _. left. discriminate.
        * intros Hcc. specialize (Hc2 Hcc). subst cp. cbn in Hx. discriminate.
      + (* PSetFlag: newValue = true *)
        exists k. constructor; cbn; auto; try discriminate.
        * intros _. left. apply Hps. reflexivity.
        * intros _ E. discriminate.
      + (* PUnlock *)
        assert (Hc : holds_c cp = false) by exact Hx.
        exists k. constructor; cbn; auto; try discriminate.
        * rewrite Hc. reflexivity.
        * intros H1 H2. specialize (Hf2 H1 H2). discriminate.
    - (* consumer *)
      destruct cp; cbn in *.
      + (* CIdle *)
        destruct c.
        * (* update(): test the flag *)
          destruct nw eqn:En; cbn.
          -- exists k. constructor; cbn; auto; try discriminate.
             ++ rewrite Bool.andb_false_r in *. exact Hx.
             ++ intros H1. destruct (Hf1 H1) as [H|H]; [left; exact H|discriminate].
          -- exists k. constructor; cbn; auto; try discriminate.
             ++ intros [H|H]; discriminate.
             ++ apply log_ok_snoc; [exact Hlog|]. cbn. symmetry. exact Hlogc.
             ++ apply Forall_app. split; [exact Hlogv|]. constructor; [exact Hcur|constructor].
             ++ apply log_cur_snoc.
        * (* get() / ref() *)
          exists k. constructor; cbn; auto; try discriminate.
          -- apply log_ok_snoc; [exact Hlog|]. cbn. symmetry. exact Hlogc.
          -- apply Forall_app. split; [exact Hlogv|]. constructor; [exact Hcur|constructor].
          -- apply log_cur_snoc.
      + (* CLock: take the mutex *)
        destruct m as [w|]; [exists k; constructor; fin|].
        assert (Hp : holds_p pp = false) by (destruct (holds_p pp); [discriminate|reflexivity]).
        exists k. constructor; cbn; auto; try discriminate.
        * rewrite Hp. reflexivity.
        * rewrite Hp. reflexivity.
        * intros H1. destruct (Hf1 H1) as [H|H]; [left; exact H|discriminate].
      + (* CInstall *)
        assert (Hnw : nw = true) by (apply Hc1; right; reflexivity).
        destruct q as [v|].
        * destruct Hq as [Hq1 [Hq2 Hq3]].
          exists k. constructor; cbn; auto; try discriminate.
          -- intros E. subst pp. cbn in Hx. discriminate.
          -- intros _. right. reflexivity.
          -- intros H; contradiction.
          -- intros [H|H]; discriminate.
          -- rewrite Hlogc. exact Hq2.
        * exfalso. destruct (Hf1 Hnw) as [H|H]; [apply H; reflexivity|discriminate].
      + (* CClear *)
        exists k. constructor; cbn; auto; try discriminate.
        * intros H _. rewrite (Hc2 eq_refl) in H. contradiction.
        * intros [H|H]; discriminate.
      + (* CUnlock *)
        assert (Hp : holds_p pp = false) by (rewrite Bool.andb_true_r in Hx; exact Hx).
        exists k. constructor; cbn; auto; try discriminate.
        * rewrite Hp. reflexivity.
        * rewrite Hp. reflexivity.
        * intros H1. destruct (Hf1 H1) as [H|H]; [left; exact H|discriminate].
        * intros [H|H]; discriminate.
        * apply log_ok_snoc; [exact Hlog|]. cbn. exact Hlogc.
        * apply Forall_app. split; [exact Hlogv|]. constructor; [exact Hcur|constructor].
        * apply log_cur_snoc.
  Qed.

  Lemma tv_inv_run sched s : tv_inv s -> tv_inv (tv_run s sched).
  Proof.
    revert s; induction sched as [|a l IH]; intros s H; cbn; [exact H|].
    apply IH. apply tv_inv_step. exact H.
  Qed.

  Lemma tv_reach sched : tv_inv (tv_run (tv_init_tagged v0 vs) sched).
  Proof. apply tv_inv_run. apply tv_inv_init. Qed.
End TV.
