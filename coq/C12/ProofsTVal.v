(* C12 - proofs about the TransactionalValue micro-step system (one producer, one consumer). *)
From Common Require Import Prelude.
From C12 Require Import Model.
Local Open Scope N_scope.

(* ------------------------------------------------------------------ helpers *)
Lemma tagN_cons_inv {A} j (l : list A) v r :
  tagN j l = v :: r -> exists x t, l = x :: t /\ v = (j, x) /\ r = tagN (N.succ j) t.
Proof. destruct l as [|x t]; cbn; intro H; [discriminate|]. inversion H. eauto. Qed.

Lemma skipn_cons {A} (l : list A) n x t :
  skipn n l = x :: t -> skipn (S n) l = t /\ nth_error l n = Some x /\ (n < length l)%nat.
Proof.
  revert n; induction l as [|h l IH]; intros [|n] H; cbn in *; try discriminate.
  - inversion H; subst. repeat split. lia.
  - destruct (IH n H) as [H1 [H2 H3]]. repeat split; auto. lia.
Qed.

Lemma log_cur_snoc {A} (p : A) l e : log_cur p (l ++ [e]) = ev_val e.
Proof. unfold log_cur. rewrite fold_left_app. reflexivity. Qed.

Definition snoc_ok {A} (c : N * A) (e : event (N * A)) : Prop :=
  match e with
  | EvGet v => v = c
  | EvUpdate false v => v = c
  | EvUpdate true v => fst c < fst v
  end.

Lemma log_ok_snoc {A} (p : N * A) l e :
  log_ok p l -> snoc_ok (log_cur p l) e -> log_ok p (l ++ [e]).
Proof.
  revert p; induction l as [|h t IH]; intros p Hl He.
  - cbn in *. destruct e as [[|] v|v]; cbn in *; auto.
  - destruct h as [[|] v|v]; cbn in Hl |- *; destruct Hl as [H1 H2].
    + split; [exact H1|]. apply IH; assumption.
    + subst v. split; [reflexivity|]. apply IH; assumption.
    + subst v. split; [reflexivity|]. apply IH; assumption.
Qed.

Arguments log_cur : simpl never.

(* ---------------------------------------------------------------- invariant *)
Section TV.
  Context {A : Type}.
  Variable v0 : A.
  Variable vs : list A.
  Notation V := (N * A)%type.
  Notation valid := (tv_valid v0 vs).
  Notation first := (0, v0).

  Definition holds_p (pp : ppc V) : bool := match pp with PIdle => false | _ => true end.
  Definition holds_c (cp : cpc) : bool :=
    match cp with CInstall | CClear | CUnlock => true | _ => false end.
  Definition installed (cp : cpc) : bool :=
    match cp with CClear | CUnlock => true | _ => false end.
  (* tag of the latest assignment whose write of queuedValue has been executed *)
  Definition Lof (k : N) (pp : ppc V) : N := match pp with PWriteQ _ => N.pred k | _ => k end.

  Record tv_inv_k (k : N) (s : tv_sys V) : Prop := {
    r_rem : p_rem s = tagN (N.succ k) (skipn (N.to_nat k) vs);
    r_k : (N.to_nat k <= length vs)%nat;
    r_mutex : mutex s = if holds_p (p_pc s) then Some Prod else if holds_c (c_pc s) then Some Cons else None;
    r_excl : holds_p (p_pc s) && holds_c (c_pc s) = false;
    r_pw : forall v, p_pc s = PWriteQ v -> fst v = k /\ valid v /\ 0 < k;
    r_ps : p_pc s = PSetFlag -> tv_queued (obj s) <> None;
    r_q : match tv_queued (obj s) with
          | Some v => fst v = Lof k (p_pc s) /\ fst (tv_current (obj s)) < fst v /\ valid v
          | None => fst (tv_current (obj s)) = Lof k (p_pc s)
          end;
    r_cur : valid (tv_current (obj s));
    r_f1 : tv_new (obj s) = true -> tv_queued (obj s) <> None \/ c_pc s = CClear;
    r_f2 : tv_queued (obj s) <> None -> tv_new (obj s) = false -> p_pc s = PSetFlag;
    r_c1 : c_pc s = CLock \/ c_pc s = CInstall -> tv_new (obj s) = true;
    r_c2 : c_pc s = CClear -> tv_queued (obj s) = None;
    r_stale : stale s = false;
    r_log : log_ok first (log s);
    r_logv : Forall (fun e => valid (ev_val e)) (log s);
    r_logc : if installed (c_pc s)
             then fst (log_cur first (log s)) < fst (tv_current (obj s))
             else log_cur first (log s) = tv_current (obj s)
  }.

  Definition tv_inv (s : tv_sys V) : Prop := exists k, tv_inv_k k s.

  Lemma tv_inv_init : tv_inv (tv_init_tagged v0 vs).
  Proof.
    exists 0. constructor; cbn; auto; try discriminate; try lia.
    - reflexivity.
    - intros H; contradiction.
    - intros [H|H]; discriminate.
  Qed.

  Lemma valid_succ k x : nth_error vs (N.to_nat k) = Some x -> valid (N.succ k, x).
  Proof. unfold tv_valid. cbn [fst snd]. rewrite Nnat.N2Nat.inj_succ. cbn. auto. Qed.

  Ltac fin := cbn in *; intuition (try congruence; try discriminate; try lia; eauto).

  Lemma tv_inv_step s a : tv_inv s -> tv_inv (tv_step s a).
  Proof.
    intros [k H]. destruct s as [o m pp pr cp lg st]. destruct o as [nw q cur].
    destruct H as [Hrem Hk Hm Hx Hpw Hps Hq Hcur Hf1 Hf2 Hc1 Hc2 Hst Hlog Hlogv Hlogc]. cbn in *.
    destruct a as [|c].
    - (* producer *)
      destruct pp as [|v| |]; cbn in *.
      + (* PIdle: take the mutex *)
        destruct pr as [|v r]; [exists k; constructor; fin|].
        destruct m as [w|]; [exists k; constructor; fin|].
        symmetry in Hrem. apply tagN_cons_inv in Hrem as [x [t [Hsk [Hv Hr]]]].
        apply skipn_cons in Hsk as [Hsk [Hnth Hlt]].
        assert (Hc : holds_c cp = false) by (destruct (holds_c cp); [discriminate|reflexivity]).
        exists (N.succ k). constructor; cbn.
        * rewrite Nnat.N2Nat.inj_succ, Hsk. exact Hr.
        * lia.
        * reflexivity.
        * exact Hc.
        * intros v' E. inversion E; subst v'. subst v. cbn. split; [reflexivity|]. split; [apply valid_succ; exact Hnth|lia].
        * discriminate.
        * rewrite N.pred_succ. exact Hq.
        * exact Hcur.
        * exact Hf1.
        * intros H1 H2. specialize (Hf2 H1 H2). discriminate.
        * exact Hc1.
        * exact Hc2.
        * exact Hst.
        * exact Hlog.
        * exact Hlogv.
        * exact Hlogc.
      + (* PWriteQ: queuedValue = v *)
        destruct (Hpw v eq_refl) as [Hfv [Hvv Hpos]].
        exists k. constructor; cbn; auto; try discriminate.
        all: try solve [ intros _; left; discriminate
                       | intros Hcc; specialize (Hc2 Hcc); subst cp; cbn in Hx; discriminate
                       | split; [exact Hfv|]; split; [|exact Hvv];
                         destruct q as [w|]; [destruct Hq as [Hq1 [Hq2 _]]|]; lia ].
      + (* PSetFlag: newValue = true *)
        exists k. constructor; cbn; auto; try discriminate.
        all: try solve [ intros _; left; apply Hps; reflexivity | intros _ E; discriminate ].
      + (* PUnlock *)
        assert (Hc : holds_c cp = false) by exact Hx.
        exists k. constructor; cbn; auto; try discriminate.
        all: try solve [ rewrite Hc; reflexivity
                       | intros H1 H2; specialize (Hf2 H1 H2); discriminate ].
    - (* consumer *)
      destruct cp; cbn in *.
      + (* CIdle *)
        destruct c.
        * (* update(): test the flag *)
          destruct nw eqn:En; cbn.
          -- exists k. constructor; cbn; auto; try discriminate.
             all: try solve [ rewrite Bool.andb_false_r in *; exact Hx
                            | intros H1; destruct (Hf1 H1) as [H|H]; [left; exact H|discriminate] ].
          -- exists k. constructor; cbn; auto; try discriminate.
             all: try solve [ intros [H|H]; discriminate
                            | apply log_ok_snoc; [exact Hlog|]; cbn; symmetry; exact Hlogc
                            | apply Forall_app; split; [exact Hlogv|]; constructor; [exact Hcur|constructor]
                            | apply log_cur_snoc ].
        * (* get() / ref() *)
          exists k. constructor; cbn; auto; try discriminate.
          all: try solve [ apply log_ok_snoc; [exact Hlog|]; cbn; symmetry; exact Hlogc
                         | apply Forall_app; split; [exact Hlogv|]; constructor; [exact Hcur|constructor]
                         | apply log_cur_snoc ].
      + (* CLock: take the mutex *)
        destruct m as [w|]; [exists k; constructor; fin|].
        assert (Hp : holds_p pp = false) by (destruct (holds_p pp); [discriminate|reflexivity]).
        exists k. constructor; cbn; auto; try discriminate.
        all: try solve [ rewrite Hp; reflexivity
                       | intros H1; destruct (Hf1 H1) as [H|H]; [left; exact H|discriminate] ].
      + (* CInstall *)
        assert (Hnw : nw = true) by (apply Hc1; right; reflexivity).
        destruct q as [v|].
        * destruct Hq as [Hq1 [Hq2 Hq3]].
          exists k. constructor; cbn; auto; try discriminate.
          all: try solve [ intros E; subst pp; cbn in Hx; discriminate
                         | intros _; right; reflexivity
                         | intros H; contradiction
                         | intros [H|H]; discriminate
                         | rewrite Hlogc; exact Hq2 ].
        * exfalso. destruct (Hf1 Hnw) as [H|H]; [apply H; reflexivity|discriminate].
      + (* CClear *)
        exists k. constructor; cbn; auto; try discriminate.
        all: try solve [ intros H _; rewrite (Hc2 eq_refl) in H; contradiction
                       | intros [H|H]; discriminate ].
      + (* CUnlock *)
        assert (Hp : holds_p pp = false) by (rewrite Bool.andb_true_r in Hx; exact Hx).
        exists k. constructor; cbn; auto; try discriminate.
        all: try solve [ rewrite Hp; reflexivity
                       | intros H1; destruct (Hf1 H1) as [H|H]; [left; exact H|discriminate]
                       | intros [H|H]; discriminate
                       | apply log_ok_snoc; [exact Hlog|]; cbn; exact Hlogc
                       | apply Forall_app; split; [exact Hlogv|]; constructor; [exact Hcur|constructor]
                       | apply log_cur_snoc ].
  Qed.

  Lemma tv_inv_run sched s : tv_inv s -> tv_inv (tv_run s sched).
  Proof.
    revert s; induction sched as [|a l IH]; intros s H; cbn; [exact H|].
    apply IH. apply tv_inv_step. exact H.
  Qed.

  Lemma tv_reach sched : tv_inv (tv_run (tv_init_tagged v0 vs) sched).
  Proof. apply tv_inv_run. apply tv_inv_init. Qed.

  (* --- what the consumer sees *)
  Lemma tv_order_proof sched :
    let s := tv_run (tv_init_tagged v0 vs) sched in
    stale s = false /\ log_ok first (log s) /\ Forall (fun e => valid (ev_val e)) (log s).
  Proof.
    intro s. destruct (tv_reach sched) as [k H]. fold s in H.
    split; [apply (r_stale _ _ H)|]. split; [apply (r_log _ _ H)|apply (r_logv _ _ H)].
  Qed.

  Lemma log_ok_mid (p : V) l1 e l2 : log_ok p (l1 ++ e :: l2) -> snoc_ok (log_cur p l1) e.
  Proof.
    revert p; induction l1 as [|h t IH]; intros p H.
    - cbn in *. destruct e as [[|] v|v]; cbn in *; tauto.
    - destruct h as [[|] v|v]; cbn in H; destruct H as [H1 H2].
      + apply (IH v H2).
      + subst v. apply (IH p H2).
      + subst v. apply (IH p H2).
  Qed.

  (* update() returns true exactly when it installed a newer value *)
  Lemma tv_update_iff_proof sched l1 b v l2 :
    log (tv_run (tv_init_tagged v0 vs) sched) = l1 ++ EvUpdate b v :: l2 ->
    (b = true <-> fst (log_cur first l1) < fst v) /\ (b = false -> v = log_cur first l1).
  Proof.
    intro E. destruct (tv_order_proof sched) as [_ [Hl _]]. rewrite E in Hl.
    apply log_ok_mid in Hl. destruct b; cbn in Hl.
    - split; [tauto|discriminate].
    - subst v. split; [|reflexivity]. split; [discriminate|lia].
  Qed.

  Lemma length_tagN {B} j (l : list B) : length (tagN j l) = length l.
  Proof. revert j; induction l; intro j; cbn; auto. Qed.

  (* an update() that runs while the producer is idle (between assignments, or finished)
     obtains the latest assigned value *)
  Lemma tv_quiescent_proof sched :
    let s := tv_run (tv_init_tagged v0 vs) sched in
    p_pc s = PIdle -> c_pc s = CIdle ->
    exists v n, (n = 1 \/ n = 5)%nat /\
      fst v = N.of_nat (length vs - length (p_rem s)) /\ valid v /\
      let s' := tv_run s (repeat (ACons DoUpdate) n) in
      c_pc s' = CIdle /\ p_pc s' = PIdle /\ p_rem s' = p_rem s /\ tv_current (obj s') = v /\
      log s' = log s ++ [EvUpdate (Nat.eqb n 5) v].
  Proof.
    intro s. destruct (tv_reach sched) as [k H]. fold s in H. clearbody s. intros Hp Hc.
    destruct s as [o m pp pr cp lg st]. destruct o as [nw q cur].
    destruct H as [Hrem Hk Hm Hx Hpw Hps Hq Hcur Hf1 Hf2 Hc1 Hc2 Hst Hlog Hlogv Hlogc]. cbn in *.
    subst pp cp. cbn in *. subst m.
    assert (Hlen : N.of_nat (length vs - length pr) = k).
    { rewrite Hrem, length_tagN, skipn_length. lia. }
    destruct q as [v|].
    - destruct Hq as [Hq1 [Hq2 Hq3]].
      assert (Hnw : nw = true).
      { destruct nw; [reflexivity|]. assert (E : @PIdle V = PSetFlag) by (apply Hf2; [discriminate|reflexivity]). discriminate. }
      subst nw. exists v, 5%nat. split; [right; reflexivity|]. split; [congruence|]. split; [exact Hq3|].
      cbn. repeat split; reflexivity.
    - assert (Hnw : nw = false).
      { destruct nw; [|reflexivity]. destruct (Hf1 eq_refl) as [E|E]; [contradiction|discriminate]. }
      subst nw. exists cur, 1%nat. split; [left; reflexivity|]. split; [congruence|]. split; [exact Hcur|].
      cbn. repeat split; reflexivity.
  Qed.

  Lemma nth_error_last (x : A) l : nth_error (x :: l) (length l) = Some (last l x).
  Proof.
    revert x; induction l as [|y t IH]; intro x; [reflexivity|].
    cbn [length nth_error]. rewrite IH. destruct t as [|z t]; [reflexivity|]. cbn.
    f_equal. clear. revert z; induction t as [|w t IH]; intro z; [reflexivity|]. cbn in *. destruct t; auto.
  Qed.

  (* once the producer has stopped, the next update() leaves the last assigned value *)
  Lemma tv_last_proof sched :
    let s := tv_run (tv_init_tagged v0 vs) sched in
    p_rem s = [] -> p_pc s = PIdle -> c_pc s = CIdle ->
    exists n, (n = 1 \/ n = 5)%nat /\
      let s' := tv_run s (repeat (ACons DoUpdate) n) in
      c_pc s' = CIdle /\ tv_current (obj s') = (N.of_nat (length vs), last vs v0) /\
      log s' = log s ++ [EvUpdate (Nat.eqb n 5) (N.of_nat (length vs), last vs v0)].
  Proof.
    intros s Hr Hp Hc. destruct (tv_quiescent_proof sched Hp Hc) as [v [n [Hn [Hf [Hv H]]]]].
    fold s in Hf, H. rewrite Hr in Hf. cbn [length] in Hf. rewrite Nat.sub_0_r in Hf.
    assert (E : v = (N.of_nat (length vs), last vs v0)).
    { destruct v as [i x]. cbn in Hf. subst i. unfold tv_valid in Hv. cbn [fst snd] in Hv.
      rewrite Nnat.Nat2N.id, nth_error_last in Hv. inversion Hv. reflexivity. }
    subst v. exists n. split; [exact Hn|]. cbn zeta in H. destruct H as [H1 [_ [_ [H4 H5]]]]. auto.
  Qed.
End TV.

(* the tags are ghost state: forgetting them commutes with every step *)
Lemma tv_map_step {A B} (f : A -> B) (s : tv_sys A) a :
  tv_step (map_sys f s) a = map_sys f (tv_step s a).
Proof.
  destruct s as [o m pp pr cp lg st]. destruct o as [nw q cur].
  destruct a as [|c].
  - destruct pp; [destruct pr; [|destruct m]| | |]; reflexivity.
  - destruct cp; [destruct c; [destruct nw|]|destruct m|destruct q| |];
      unfold map_sys; cbn; rewrite ?map_app; reflexivity.
Qed.

Lemma tv_map_run {A B} (f : A -> B) sched (s : tv_sys A) :
  tv_run (map_sys f s) sched = map_sys f (tv_run s sched).
Proof.
  revert s; induction sched as [|a l IH]; intro s; cbn; [reflexivity|].
  rewrite tv_map_step. apply IH.
Qed.

Lemma map_snd_tagN {A} k (l : list A) : map snd (tagN k l) = l.
Proof. revert k; induction l as [|x t IH]; intro k; cbn; [reflexivity|]. rewrite IH. reflexivity. Qed.

Lemma tv_erase_proof {A} (v0 : A) vs sched :
  tv_run (tv_init v0 vs) sched = map_sys snd (tv_run (tv_init_tagged v0 vs) sched).
Proof.
  rewrite <- tv_map_run. unfold tv_init_tagged, tv_init, map_sys, map_tval. cbn.
  rewrite map_snd_tagN. reflexivity.
Qed.

(* ---------------------------- acceptance function for recorded consumer histories *)
Lemma eqv_eq a b : eqv a b = true <-> a = b.
Proof.
  unfold eqv. destruct a as [a1 a2], b as [b1 b2]. cbn. rewrite andb_true_iff, !N.eqb_eq.
  split; [intros [H1 H2]; congruence|intro H; inversion H; auto].
Qed.

Lemma drop_to_tagN v : forall l j r,
  drop_to v (tagN j l) = Some r ->
  j <= fst v /\ In v (tagN j l) /\ exists l', r = tagN (N.succ (fst v)) l'.
Proof.
  induction l as [|x t IH]; intros j r H; cbn in H; [discriminate|].
  destruct (eqv (j, x) v) eqn:E.
  - apply eqv_eq in E. subst v. inversion H; subst r. cbn. split; [lia|]. split; [left; reflexivity|eauto].
  - destruct (IH _ _ H) as [H1 [H2 H3]]. split; [lia|]. split; [right; exact H2|exact H3].
Qed.

Fixpoint evs_of (l : list hev) : list (event tagv) :=
  match l with [] => [] | HEv e :: t => e :: evs_of t | HQuiet _ :: t => evs_of t end.
(* every quiescent point carries the tag of the value the consumer holds there *)
Fixpoint quiet_ok (prev : tagv) (l : list hev) : Prop :=
  match l with
  | [] => True
  | HEv e :: t => quiet_ok (ev_val e) t
  | HQuiet i :: t => fst prev = i /\ quiet_ok prev t
  end.

(* soundness: an accepted history is coherent in the sense of log_ok (the statement of
   tval_order), and at every quiescent point the consumer holds the value just assigned *)
Lemma tv_acc_sound_proof l : forall j r prev rest',
  fst prev < j -> tv_acc (tagN j r) prev l = Some rest' ->
  log_ok prev (evs_of l) /\ quiet_ok prev l.
Proof.
  induction l as [|h t IH]; intros j r prev rest' Hj H; [cbn; auto|].
  destruct h as [[[|] v|v]|i]; cbn in H |- *.
  - destruct (drop_to v (tagN j r)) as [r1|] eqn:D; [|discriminate].
    destruct (drop_to_tagN _ _ _ _ D) as [H1 [_ [l' Hr]]]. subst r1.
    destruct (IH _ _ _ _ (N.lt_succ_diag_r (fst v)) H) as [A1 A2].
    split; [split; [lia|exact A1]|exact A2].
  - destruct (eqv v prev) eqn:E; [|discriminate]. apply eqv_eq in E. subst v.
    destruct (IH _ _ _ _ Hj H) as [A1 A2]. auto.
  - destruct (eqv v prev) eqn:E; [|discriminate]. apply eqv_eq in E. subst v.
    destruct (IH _ _ _ _ Hj H) as [A1 A2]. auto.
  - destruct (N.eqb (fst prev) i) eqn:E; [|discriminate]. apply N.eqb_eq in E.
    destruct (IH _ _ _ _ Hj H) as [A1 A2]. auto.
Qed.

Lemma tv_accept_sound_proof v0 vs l :
  tv_accept v0 vs l = true -> log_ok (0, v0) (evs_of l) /\ quiet_ok (0, v0) l.
Proof.
  unfold tv_accept. destruct (tv_acc (tagN 1 vs) (0, v0) l) as [[|]|] eqn:E; try discriminate.
  intros _. apply (tv_acc_sound_proof l 1 vs (0, v0) [] ); [cbn; lia|exact E].
Qed.

(* ------------------------------------------------- method level (sequential) facts *)
Lemma tv_ctor_value_proof {A} (v0 : A) :
  tv_get (tv_make v0) = v0 /\ tv_update (tv_make v0) = Some (tv_make v0, false).
Proof. split; reflexivity. Qed.

Lemma tv_assign_update_proof {A} (t : tval A) v1 v2 :
  tv_update (tv_assign t v2) = Some ({| tv_new := false; tv_queued := None; tv_current := v2 |}, true)
  /\ tv_assign (tv_assign t v1) v2 = tv_assign t v2
  /\ tv_get (tv_assign t v2) = tv_get t.
Proof. repeat split. Qed.

Lemma tv_update_idem_proof {A} (t t' : tval A) b :
  tv_update t = Some (t', b) -> tv_update t' = Some (t', false) /\ (b = false -> t' = t).
Proof.
  unfold tv_update. destruct (tv_new t) eqn:E.
  - destruct (tv_queued t); [|discriminate]. intro H. inversion H; subst. split; [reflexivity|discriminate].
  - intro H. inversion H; subst. rewrite E. auto.
Qed.

Lemma tv_ref_write_proof {A} (t : tval A) v :
  tv_get (tv_setref t v) = v
  /\ tv_new (tv_setref t v) = tv_new t /\ tv_queued (tv_setref t v) = tv_queued t
  /\ (tv_new t = true -> tv_update (tv_setref t v) = tv_update t)
  /\ (tv_new t = false -> tv_update (tv_setref t v) = Some (tv_setref t v, false)).
Proof.
  repeat split.
  - intro H. unfold tv_update. cbn. rewrite H. reflexivity.
  - intro H. unfold tv_update. cbn. rewrite H. reflexivity.
Qed.
