From Common Require Import Prelude.
From C12 Require Import Model Proofs ProofsTVal.
