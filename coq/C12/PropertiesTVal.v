(* C12 - property theorems, TransactionalValue part: one producer executing operator= for
   each of vs in turn, one consumer calling update()/get()/ref(), every statement of
   operator= and update() its own step, the mutex explicit, ANY schedule.  Values carry
   their position in the assignment sequence as a ghost tag (0 = the initial value). *)
From Common Require Import Prelude.
From C12 Require Import Model Proofs ProofsTVal ProofsTValAcc.
Local Open Scope N_scope.

(* every value the consumer sees was assigned (or is the initial one), values are seen in
   assignment order (log_ok: get() and a false update() repeat the previous value, a true
   update() moves to a strictly later assignment), and update() never installs a
   queuedValue the producer did not assign (stale) *)
Theorem tval_order : forall (A : Type) (v0 : A) (vs : list A) sched,
  let s := tv_run (tv_init_tagged v0 vs) sched in
  stale s = false /\ log_ok (0, v0) (log s) /\ Forall (fun e => tv_valid v0 vs (ev_val e)) (log s).
Proof. exact @ProofsTVal.tv_order_proof. Qed.
Print Assumptions tval_order.

(* update() returns true exactly when it installed a newer value; after a false update()
   get() returns what it returned before *)
Theorem tval_update_true_iff_newer : forall (A : Type) (v0 : A) (vs : list A) sched l1 b v l2,
  log (tv_run (tv_init_tagged v0 vs) sched) = l1 ++ EvUpdate b v :: l2 ->
  (b = true <-> fst (log_cur (0, v0) l1) < fst v) /\ (b = false -> v = log_cur (0, v0) l1).
Proof. exact @ProofsTVal.tv_update_iff_proof. Qed.
Print Assumptions tval_update_true_iff_newer.

(* an update() call that runs while the producer is outside operator= (between two
   assignments or after the last) obtains the latest value assigned so far: n = 1, the flag
   was false and that value is already current; n = 5, the five steps of a true update() *)
Theorem tval_quiescent_update : forall (A : Type) (v0 : A) (vs : list A) sched,
  let s := tv_run (tv_init_tagged v0 vs) sched in
  p_pc s = PIdle -> c_pc s = CIdle ->
  exists v n, (n = 1 \/ n = 5)%nat /\
    fst v = N.of_nat (length vs - length (p_rem s)) /\ tv_valid v0 vs v /\
    let s' := tv_run s (repeat (ACons DoUpdate) n) in
    c_pc s' = CIdle /\ p_pc s' = PIdle /\ p_rem s' = p_rem s /\ tv_current (obj s') = v /\
    log s' = log s ++ [EvUpdate (Nat.eqb n 5) v].
Proof. exact @ProofsTVal.tv_quiescent_proof. Qed.
Print Assumptions tval_quiescent_update.

(* once the producer has stopped, the consumer's next update() leaves the last assigned value *)
Theorem tval_last_value : forall (A : Type) (v0 : A) (vs : list A) sched,
  let s := tv_run (tv_init_tagged v0 vs) sched in
  p_rem s = [] -> p_pc s = PIdle -> c_pc s = CIdle ->
  exists n, (n = 1 \/ n = 5)%nat /\
    let s' := tv_run s (repeat (ACons DoUpdate) n) in
    c_pc s' = CIdle /\ tv_current (obj s') = (N.of_nat (length vs), last vs v0) /\
    log s' = log s ++ [EvUpdate (Nat.eqb n 5) (N.of_nat (length vs), last vs v0)].
Proof. exact @ProofsTVal.tv_last_proof. Qed.
Print Assumptions tval_last_value.

(* the tags are ghost state: the untagged system is the tagged one with the tags erased *)
Theorem tval_tags_are_ghost : forall (A : Type) (v0 : A) vs sched,
  tv_run (tv_init v0 vs) sched = map_sys snd (tv_run (tv_init_tagged v0 vs) sched).
Proof. exact @ProofsTVal.tv_erase_proof. Qed.
Print Assumptions tval_tags_are_ghost.

(* ---- the acceptance function tv_accept run (extracted) on the recorded histories ----
   The recording model tvh_step is the micro-step system plus ghost recording of the
   consumer's events and of quiescent markers (Model.v).  It is faithful: *)
Theorem tval_recording_faithful : forall v0 vs sched,
  let h := tvh_run (length vs) (tvh_init v0 vs) sched in
  h_sys h = tv_run (tv_init_tagged v0 vs) (tvh_proj sched) /\ evs_of (h_hist h) = log (h_sys h).
Proof. exact ProofsTValAcc.tvh_faithful_proof. Qed.
Print Assumptions tval_recording_faithful.

(* completeness: EVERY history the model can produce, under any schedule, is accepted as a
   history so far ... *)
Theorem tval_accept_complete_prefix : forall v0 vs sched,
  tv_accept_prefix v0 vs (h_hist (tvh_run (length vs) (tvh_init v0 vs) sched)) = true.
Proof. exact ProofsTValAcc.tvh_complete_prefix_proof. Qed.
Print Assumptions tval_accept_complete_prefix.

(* ... and as a complete history once the consumer has obtained the last assigned value *)
Theorem tval_accept_complete : forall v0 vs sched,
  let h := tvh_run (length vs) (tvh_init v0 vs) sched in
  fst (log_cur (0, v0) (log (h_sys h))) = N.of_nat (length vs) ->
  tv_accept v0 vs (h_hist h) = true.
Proof. exact ProofsTValAcc.tvh_complete_proof. Qed.
Print Assumptions tval_accept_complete.

(* soundness: acceptance is exactly the specification hist_ok of a coherent history (get()
   and a false update() repeat the previous value, a true update() moves to a strictly
   later assigned value, a quiescent marker carries the tag of the value held) *)
Theorem tval_accept_prefix_iff_spec : forall v0 vs l,
  tv_accept_prefix v0 vs l = true <-> hist_ok v0 vs (0, v0) l.
Proof. exact ProofsTValAcc.tv_accept_prefix_iff_proof. Qed.
Print Assumptions tval_accept_prefix_iff_spec.

Theorem tval_accept_iff_spec : forall v0 vs l,
  tv_accept v0 vs l = true <->
  hist_ok v0 vs (0, v0) l /\ (length vs <= N.to_nat (fst (log_cur (0%N, v0) (evs_of l))))%nat.
Proof. exact ProofsTValAcc.tv_accept_iff_proof. Qed.
Print Assumptions tval_accept_iff_spec.

Theorem tval_accept_sound : forall v0 vs l,
  tv_accept v0 vs l = true -> log_ok (0, v0) (evs_of l) /\ quiet_ok (0, v0) l.
Proof. exact ProofsTVal.tv_accept_sound_proof. Qed.
Print Assumptions tval_accept_sound.

(* combined: model histories  =>  accepted  <=>  specification.
   (partial in one respect, hence the name: that every history satisfying the specification
   is produced by some schedule of the model - which would make acceptance literally
   membership - is not proved; the specification is what the property text demands.) *)
Theorem tval_acceptance_characterised_partial : forall v0 vs,
  (forall sched, tv_accept_prefix v0 vs (h_hist (tvh_run (length vs) (tvh_init v0 vs) sched)) = true)
  /\ (forall l, tv_accept_prefix v0 vs l = true <-> hist_ok v0 vs (0, v0) l)
  /\ (forall sched, hist_ok v0 vs (0, v0) (h_hist (tvh_run (length vs) (tvh_init v0 vs) sched))).
Proof.
  exact (fun v0 vs => conj (ProofsTValAcc.tvh_complete_prefix_proof v0 vs)
         (conj (ProofsTValAcc.tv_accept_prefix_iff_proof v0 vs)
               (fun sched => proj1 (ProofsTValAcc.tv_accept_prefix_iff_proof v0 vs _)
                                   (ProofsTValAcc.tvh_complete_prefix_proof v0 vs sched)))).
Qed.
Print Assumptions tval_acceptance_characterised_partial.

(* non-vacuity of the recording model: arm, update (installs 7), marker *)
Example tval_recording_example :
  h_hist (tvh_run 2 (tvh_init 5 [7; 9])
           [HRun AProd; HRun AProd; HRun AProd; HRun AProd; HArm; HRun (ACons DoUpdate); HRun (ACons DoUpdate);
            HRun (ACons DoUpdate); HRun (ACons DoUpdate); HRun (ACons DoUpdate); HRun (ACons DoGet); HMark;
            HRun AProd; HMark])
  = [HEv (EvUpdate true (1, 7)); HEv (EvGet (1, 7)); HQuiet 1].
Proof. vm_compute. reflexivity. Qed.

(* ---- method level (what the sequential differential compares) ----
   constructed from a value: get() returns it and update() has nothing to install *)
Theorem tval_ctor_value : forall (A : Type) (v0 : A),
  tv_get (tv_make v0) = v0 /\ tv_update (tv_make v0) = Some (tv_make v0, false).
Proof. exact @ProofsTVal.tv_ctor_value_proof. Qed.
Print Assumptions tval_ctor_value.

(* operator= then update(): the value is installed and reported; of several assignments
   the last one wins; get() is unaffected by an assignment until update() *)
Theorem tval_assign_then_update : forall (A : Type) (t : tval A) v1 v2,
  tv_update (tv_assign t v2) = Some ({| tv_new := false; tv_queued := None; tv_current := v2 |}, true)
  /\ tv_assign (tv_assign t v1) v2 = tv_assign t v2
  /\ tv_get (tv_assign t v2) = tv_get t.
Proof. exact @ProofsTVal.tv_assign_update_proof. Qed.
Print Assumptions tval_assign_then_update.

(* a second update() without a new assignment returns false and changes nothing *)
Theorem tval_update_idempotent : forall (A : Type) (t t' : tval A) b,
  tv_update t = Some (t', b) -> tv_update t' = Some (t', false) /\ (b = false -> t' = t).
Proof. exact @ProofsTVal.tv_update_idem_proof. Qed.
Print Assumptions tval_update_idempotent.

(* ref() aliases currentValue: a write through it is what get() returns next, it does not
   touch the queued value or the flag, and a pending assignment still replaces it *)
Theorem tval_ref_write : forall (A : Type) (t : tval A) v,
  tv_get (tv_setref t v) = v
  /\ tv_new (tv_setref t v) = tv_new t /\ tv_queued (tv_setref t v) = tv_queued t
  /\ (tv_new t = true -> tv_update (tv_setref t v) = tv_update t)
  /\ (tv_new t = false -> tv_update (tv_setref t v) = Some (tv_setref t v, false)).
Proof. exact @ProofsTVal.tv_ref_write_proof. Qed.
Print Assumptions tval_ref_write.

(* non-vacuity: the producer assigns 7 then 9; the consumer's first update() sees the flag
   after the first assignment, is overtaken by the second assignment while waiting for the
   mutex and installs 9 (7 is skipped, which the property allows); then a false update() *)
Example tval_example :
  let s := tv_run (tv_init_tagged 5 [7; 9])
             [ACons DoGet; AProd; AProd; AProd; ACons DoUpdate; AProd; AProd; ACons DoUpdate; AProd; AProd; AProd;
              ACons DoUpdate; ACons DoUpdate; ACons DoUpdate; ACons DoUpdate; ACons DoGet; ACons DoUpdate] in
  log s = [EvGet (0, 5); EvUpdate true (2, 9); EvGet (2, 9); EvUpdate false (2, 9)]
  /\ stale s = false /\ p_rem s = [] /\ p_pc s = PIdle /\ c_pc s = CIdle.
Proof. vm_compute. repeat split. Qed.

Example tval_accept_example :
  tv_accept 0 [1; 2; 3] [HEv (EvUpdate false (0, 0)); HEv (EvUpdate true (2, 2)); HEv (EvGet (2, 2)); HQuiet 2;
                         HEv (EvUpdate true (3, 3)); HQuiet 3] = true
  /\ tv_accept 0 [1; 2; 3] [HEv (EvUpdate true (2, 2)); HEv (EvUpdate true (1, 1)); HEv (EvUpdate true (3, 3))] = false
  /\ tv_accept 0 [1; 2; 3] [HEv (EvUpdate true (2, 2)); HEv (EvUpdate false (2, 2)); HQuiet 3] = false
  /\ tv_accept 0 [1; 2; 3] [HEv (EvUpdate true (2, 2))] = false
  /\ tv_accept 0 [1; 2; 3] [HEv (EvUpdate false (3, 3))] = false.
Proof. vm_compute. repeat split. Qed.
