(* C12 - completeness of the TransactionalValue acceptance function: every history the
   recording model (tvh_step: micro-step system + ghost recording of events and quiescent
   markers) can produce is accepted by tv_acc / tv_accept. *)
From Common Require Import Prelude.
From C12 Require Import Model ProofsTVal.
Local Open Scope N_scope.

Arguments log_cur : simpl never.

(* ----------------------------------------------------- shape of the steps *)
Lemma step_prod_frame {V} (s : tv_sys V) :
  let s' := tv_step s AProd in
  log s' = log s /\ c_pc s' = c_pc s /\ tv_current (obj s') = tv_current (obj s).
Proof.
  destruct s as [o m pp pr cp lg st]. destruct o as [nw q cur]. cbn.
  destruct pp; [destruct pr; [|destruct m]| | |]; cbn; auto.
Qed.

Inductive cstep_kind {V} (s s' : tv_sys V) : Prop :=
| KGet : c_pc s = CIdle -> c_pc s' = CIdle -> log s' = log s ++ [EvGet (tv_current (obj s))] ->
         tv_current (obj s') = tv_current (obj s) -> cstep_kind s s'
| KFalse : c_pc s = CIdle -> c_pc s' = CIdle -> tv_new (obj s) = false ->
         log s' = log s ++ [EvUpdate false (tv_current (obj s))] ->
         tv_current (obj s') = tv_current (obj s) -> cstep_kind s s'
| KTrue : c_pc s = CUnlock -> c_pc s' = CIdle ->
         log s' = log s ++ [EvUpdate true (tv_current (obj s))] ->
         tv_current (obj s') = tv_current (obj s) -> cstep_kind s s'
| KInstall : c_pc s = CInstall -> c_pc s' = CClear -> log s' = log s ->
         (forall v, tv_queued (obj s) = Some v -> tv_current (obj s') = v) -> cstep_kind s s'
| KOther : log s' = log s -> tv_current (obj s') = tv_current (obj s) ->
         is_cidle (c_pc s) && is_cidle (c_pc s') = false ->
         (installed (c_pc s') = true -> installed (c_pc s) = true) -> cstep_kind s s'.

Lemma step_cons_cases {V} (s : tv_sys V) c :
  let s' := tv_step s (ACons c) in
  p_pc s' = p_pc s /\ p_rem s' = p_rem s /\ cstep_kind s s'.
Proof.
  destruct s as [o m pp pr cp lg st]. destruct o as [nw q cur]. cbn.
  destruct cp; cbn.
  - destruct c; [destruct nw|]; cbn; (split; [reflexivity|]; split; [reflexivity|]).
    + apply KOther; cbn; auto; try discriminate.
    + apply KFalse; cbn; auto.
    + apply KGet; cbn; auto.
  - destruct m; cbn; (split; [reflexivity|]; split; [reflexivity|]); apply KOther; cbn; auto; try discriminate.
  - destruct q; cbn; (split; [reflexivity|]; split; [reflexivity|]).
    + apply KInstall; cbn; auto; try discriminate. intros w E. inversion E. reflexivity.
    + apply KInstall; cbn; auto; try discriminate.
  - split; [reflexivity|]; split; [reflexivity|]. apply KOther; cbn; auto; try discriminate.
  - split; [reflexivity|]; split; [reflexivity|]. apply KTrue; cbn; auto.
Qed.

(* ------------------------------------------------- tv_acc, one more event *)
Lemma evs_of_app l1 l2 : evs_of (l1 ++ l2) = evs_of l1 ++ evs_of l2.
Proof. induction l1 as [|[e|i] t IH]; cbn; [reflexivity| |]; rewrite ?IH; reflexivity. Qed.

Lemma evs_of_map_HEv l : evs_of (map HEv l) = l.
Proof. induction l as [|e t IH]; cbn; [reflexivity|]. rewrite IH. reflexivity. Qed.

Lemma log_cur_cons {V} (p : V) e l : log_cur p (e :: l) = log_cur (ev_val e) l.
Proof. reflexivity. Qed.

Lemma tv_acc_snoc l : forall rest prev h,
  tv_acc rest prev (l ++ [h]) =
  match tv_acc rest prev l with
  | Some r => tv_acc r (log_cur prev (evs_of l)) [h]
  | None => None
  end.
Proof.
  induction l as [|x t IH]; intros rest prev h; [reflexivity|].
  destruct x as [[[|] v|v]|i]; cbn [app tv_acc evs_of].
  - destruct (drop_to v rest) as [r1|]; [|reflexivity]. rewrite IH, log_cur_cons. reflexivity.
  - destruct (eqv v prev) eqn:E; [|reflexivity]. apply eqv_eq in E. subst v.
    rewrite IH, log_cur_cons. reflexivity.
  - destruct (eqv v prev) eqn:E; [|reflexivity]. apply eqv_eq in E. subst v.
    rewrite IH, log_cur_cons. reflexivity.
  - destruct (N.eqb (fst prev) i); [|reflexivity]. apply IH.
Qed.

Lemma eqv_refl v : eqv v v = true.
Proof. apply eqv_eq. reflexivity. Qed.

Section ACC.
  Variable v0 : N.
  Variable vs : list N.
  Notation first := (0, v0).
  Notation valid := (tv_valid v0 vs).

  (* what is left of the producer's (tagged) program after the value with tag j *)
  Definition rest_after (j : N) : list tagv := tagN (N.succ j) (skipn (N.to_nat j) vs).

  Lemma skipn_nth {B} (l : list B) n : (n < length l)%nat ->
    exists x t, skipn n l = x :: t /\ nth_error l n = Some x /\ skipn (S n) l = t.
  Proof.
    revert n; induction l as [|h l IH]; intros [|n] H; cbn in *; try lia.
    - eauto.
    - apply IH. lia.
  Qed.

  Lemma drop_to_valid d : forall j (v : tagv),
    N.to_nat (fst v) = (N.to_nat j + S d)%nat ->
    nth_error vs (N.to_nat (fst v) - 1) = Some (snd v) ->
    drop_to v (rest_after j) = Some (rest_after (fst v)).
  Proof.
    induction d as [|d IH]; intros j v H1 H2.
    - assert (Hlt : (N.to_nat j < length vs)%nat).
      { apply nth_error_Some. replace (N.to_nat j) with (N.to_nat (fst v) - 1)%nat by lia. congruence. }
      destruct (skipn_nth vs _ Hlt) as [x [t [Hs [Hn Ht]]]].
      unfold rest_after. rewrite Hs. cbn [tagN drop_to].
      assert (Ev : v = (N.succ j, x)).
      { destruct v as [i y]. cbn in *. replace (N.to_nat i - 1)%nat with (N.to_nat j) in H2 by lia.
        f_equal; [lia|congruence]. }
      subst v. rewrite eqv_refl. cbn [fst]. rewrite Nnat.N2Nat.inj_succ, Ht. reflexivity.
    - assert (Hlt : (N.to_nat j < length vs)%nat).
      { assert (N.to_nat (fst v) - 1 < length vs)%nat by (apply nth_error_Some; congruence). lia. }
      destruct (skipn_nth vs _ Hlt) as [x [t [Hs [Hn Ht]]]].
      unfold rest_after. rewrite Hs. cbn [tagN drop_to].
      assert (Ev : eqv (N.succ j, x) v = false).
      { unfold eqv. cbn [fst]. destruct (N.eqb (N.succ j) (fst v)) eqn:E; [|reflexivity].
        apply N.eqb_eq in E. lia. }
      rewrite Ev. specialize (IH (N.succ j) v).
      unfold rest_after in IH. rewrite Nnat.N2Nat.inj_succ, Ht in IH. apply IH; [lia|exact H2].
  Qed.

  Lemma drop_to_newer j (v : tagv) : j < fst v -> valid v ->
    drop_to v (rest_after j) = Some (rest_after (fst v)).
  Proof.
    intros Hj Hv. apply (drop_to_valid (N.to_nat (fst v) - N.to_nat j - 1)); [lia|].
    unfold tv_valid in Hv. destruct (N.to_nat (fst v)) as [|m] eqn:E; [lia|].
    cbn in Hv. cbn. rewrite Nat.sub_0_r. exact Hv.
  Qed.

  Lemma inv_count k (s : tv_sys tagv) : tv_inv_k v0 vs k s ->
    N.of_nat (length vs - length (p_rem s)) = k.
  Proof.
    intro H. rewrite (r_rem _ _ _ _ H), length_tagN, skipn_length.
    pose proof (r_k _ _ _ _ H). lia.
  Qed.

  (* ------------------------------------------------------------ invariant *)
  Record hinv (h : tvh) : Prop := {
    hi_inv : tv_inv v0 vs (h_sys h);
    hi_evs : evs_of (h_hist h) = log (h_sys h);
    hi_acc : tv_acc (tagN 1 vs) first (h_hist h)
             = Some (rest_after (fst (log_cur first (log (h_sys h)))));
    hi_arm : forall i, h_armed h = Some i ->
             p_pc (h_sys h) = PIdle /\ i = N.of_nat (length vs - length (p_rem (h_sys h)))
             /\ (installed (c_pc (h_sys h)) = true -> fst (tv_current (obj (h_sys h))) = i);
    hi_ready : forall i, h_ready h = Some i ->
             c_pc (h_sys h) = CIdle /\ fst (tv_current (obj (h_sys h))) = i
  }.

  Lemma hinv_init : hinv (tvh_init v0 vs).
  Proof.
    constructor; cbn; try discriminate; try reflexivity.
    apply tv_inv_init.
  Qed.

  Lemma skipn_len_app {B} (l : list B) x : skipn (length l) (l ++ x) = x.
  Proof. induction l; cbn; auto. Qed.

  (* appending one consumer event that the invariant of the new state justifies *)
  Lemma acc_event hist (s s' : tv_sys tagv) e :
    tv_inv v0 vs s -> tv_inv v0 vs s' ->
    log s' = log s ++ [e] -> ev_val e = tv_current (obj s') -> c_pc s' = CIdle ->
    evs_of hist = log s ->
    tv_acc (tagN 1 vs) first hist = Some (rest_after (fst (log_cur first (log s)))) ->
    tv_acc (tagN 1 vs) first (hist ++ [HEv e]) = Some (rest_after (fst (log_cur first (log s')))).
  Proof.
    intros [k Hi] [k' Hi'] Hl Hv Hc He Ha.
    rewrite tv_acc_snoc, Ha, He. rewrite Hl, log_cur_snoc.
    pose proof (r_log _ _ _ _ Hi') as Hlog. rewrite Hl in Hlog. apply log_ok_mid in Hlog.
    pose proof (r_logv _ _ _ _ Hi') as Hval. rewrite Hl in Hval. apply Forall_app in Hval as [_ Hval].
    inversion Hval as [|? ? Hve _]; subst.
    destruct e as [[|] v|v]; cbn in Hlog, Hve |- *.
    - rewrite (drop_to_newer _ v Hlog Hve). reflexivity.
    - subst v. rewrite eqv_refl. reflexivity.
    - subst v. rewrite eqv_refl. reflexivity.
  Qed.

  Lemma hinv_step h a : hinv h -> hinv (tvh_step (length vs) h a).
  Proof.
    intros [Hinv Hevs Hacc Harm Hready]. destruct h as [s hist armed ready]. cbn in *.
    destruct a as [[|c]| |]; cbn [tvh_step h_sys h_hist h_armed h_ready].
    - (* producer step *)
      destruct (step_prod_frame s) as [Hl [Hc Hcur]].
      constructor; cbn [h_sys h_hist h_armed h_ready].
      + apply tv_inv_step. exact Hinv.
      + rewrite Hl. exact Hevs.
      + rewrite Hl. exact Hacc.
      + discriminate.
      + intros i Hi. rewrite Hc, Hcur. apply Hready. exact Hi.
    - (* consumer step *)
      pose proof (tv_inv_step v0 vs s (ACons c) Hinv) as Hinv'.
      destruct (step_cons_cases s c) as [Hpp [Hpr K]].
      set (s' := tv_step s (ACons c)) in *.
      destruct Hinv as [k Hk].
      pose proof (inv_count _ _ Hk) as Hcnt.
      destruct K as [C1 C2 Hl Hcur|C1 C2 Hnw Hl Hcur|C1 C2 Hl Hcur|C1 C2 Hl Hq|Hl Hcur Hidle Hins].
      + (* get *)
        rewrite Hl, skipn_len_app. cbn [existsb is_update orb map]. rewrite C1, C2. cbn [is_cidle andb].
        constructor; cbn [h_sys h_hist h_armed h_ready].
        * exact Hinv'.
        * rewrite evs_of_app, Hevs, Hl. reflexivity.
        * apply (acc_event hist s s' _ (ex_intro _ k Hk) Hinv' Hl); [cbn; symmetry; exact Hcur|exact C2|exact Hevs|exact Hacc].
        * intros i Hi. rewrite Hpp, Hpr, C2. destruct (Harm i Hi) as [A1 [A2 _]]. cbn. repeat split; auto. discriminate.
        * intros i Hi. rewrite Hcur. split; [exact C2|]. apply Hready. exact Hi.
      + (* update() = false *)
        rewrite Hl, skipn_len_app. cbn [existsb is_update orb map].
        constructor; cbn [h_sys h_hist h_armed h_ready].
        * exact Hinv'.
        * rewrite evs_of_app, Hevs, Hl. reflexivity.
        * apply (acc_event hist s s' _ (ex_intro _ k Hk) Hinv' Hl); [cbn; symmetry; exact Hcur|exact C2|exact Hevs|exact Hacc].
        * discriminate.
        * intros i Hi. split; [exact C2|]. destruct (Harm i Hi) as [A1 [A2 _]]. rewrite Hcur.
          pose proof (r_q _ _ _ _ Hk) as Rq. pose proof (r_f2 _ _ _ _ Hk) as Rf2. rewrite A1 in Rq, Rf2.
          destruct (tv_queued (obj s)) as [w|].
          -- assert (E : @PIdle tagv = PSetFlag) by (apply Rf2; [discriminate|exact Hnw]). discriminate.
          -- cbn in Rq. congruence.
      + (* update() = true returns *)
        rewrite Hl, skipn_len_app. cbn [existsb is_update orb map].
        constructor; cbn [h_sys h_hist h_armed h_ready].
        * exact Hinv'.
        * rewrite evs_of_app, Hevs, Hl. reflexivity.
        * apply (acc_event hist s s' _ (ex_intro _ k Hk) Hinv' Hl); [cbn; symmetry; exact Hcur|exact C2|exact Hevs|exact Hacc].
        * discriminate.
        * intros i Hi. split; [exact C2|]. destruct (Harm i Hi) as [_ [_ A3]]. rewrite Hcur.
          apply A3. rewrite C1. reflexivity.
      + (* install *)
        rewrite Hl, skipn_all. cbn [existsb map]. rewrite app_nil_r, C1. cbn [is_cidle andb].
        constructor; cbn [h_sys h_hist h_armed h_ready].
        * exact Hinv'.
        * rewrite Hl. exact Hevs.
        * rewrite Hl. exact Hacc.
        * intros i Hi. rewrite Hpp, Hpr. destruct (Harm i Hi) as [A1 [A2 _]]. repeat split; auto.
          intros _.
          pose proof (r_q _ _ _ _ Hk) as Rq. pose proof (r_c1 _ _ _ _ Hk (or_intror C1)) as Rnw.
          pose proof (r_f1 _ _ _ _ Hk Rnw) as Rf1. rewrite A1 in Rq.
          destruct (tv_queued (obj s)) as [w|] eqn:Eq.
          -- rewrite (Hq w eq_refl). destruct Rq as [R1 _]. cbn in R1. congruence.
          -- destruct Rf1 as [R|R]; [contradiction|]. rewrite C1 in R. discriminate.
        * discriminate.
      + (* other steps of update() *)
        rewrite Hl, skipn_all. cbn [existsb map]. rewrite app_nil_r, Hidle.
        constructor; cbn [h_sys h_hist h_armed h_ready].
        * exact Hinv'.
        * rewrite Hl. exact Hevs.
        * rewrite Hl. exact Hacc.
        * intros i Hi. rewrite Hpp, Hpr, Hcur. destruct (Harm i Hi) as [A1 [A2 A3]]. repeat split; auto.
        * discriminate.
    - (* the consumer reads the producer's announcement *)
      destruct (is_pidle (p_pc s) && is_cidle (c_pc s)) eqn:E.
      + apply andb_true_iff in E as [E1 E2].
        constructor; cbn [h_sys h_hist h_armed h_ready]; auto.
        intros i Hi. inversion Hi; subst i.
        destruct (p_pc s); try discriminate. destruct (c_pc s); try discriminate.
        repeat split. discriminate.
      + constructor; cbn [h_sys h_hist h_armed h_ready]; auto.
    - (* the marker is recorded *)
      destruct ready as [i|].
      + destruct (Hready i eq_refl) as [C1 C2].
        constructor; cbn [h_sys h_hist h_armed h_ready]; auto.
        * rewrite evs_of_app. cbn. rewrite app_nil_r. exact Hevs.
        * rewrite tv_acc_snoc, Hacc, Hevs. cbn [tv_acc].
          destruct Hinv as [k Hk]. pose proof (r_logc _ _ _ _ Hk) as R. rewrite C1 in R. cbn in R.
          rewrite R, C2, N.eqb_refl. reflexivity.
        * discriminate.
      + constructor; cbn [h_sys h_hist h_armed h_ready]; auto.
  Qed.

  Lemma hinv_run sched : forall h, hinv h -> hinv (tvh_run (length vs) h sched).
  Proof.
    induction sched as [|a l IH]; intros h H; cbn; [exact H|]. apply IH. apply hinv_step. exact H.
  Qed.

  (* every history of the recording model is accepted as a history so far ... *)
  Lemma tvh_complete_prefix_proof sched :
    tv_accept_prefix v0 vs (h_hist (tvh_run (length vs) (tvh_init v0 vs) sched)) = true.
  Proof.
    pose proof (hinv_run sched _ hinv_init) as H. unfold tv_accept_prefix.
    rewrite (hi_acc _ H). reflexivity.
  Qed.

  (* ... and as a complete history once the consumer has obtained the last value *)
  Lemma tvh_complete_proof sched :
    let h := tvh_run (length vs) (tvh_init v0 vs) sched in
    fst (log_cur first (log (h_sys h))) = N.of_nat (length vs) ->
    tv_accept v0 vs (h_hist h) = true.
  Proof.
    intros h Hlast. pose proof (hinv_run sched _ hinv_init) as H. fold h in H. unfold tv_accept.
    rewrite (hi_acc _ H), Hlast. unfold rest_after. rewrite Nnat.Nat2N.id, skipn_all. reflexivity.
  Qed.

  (* the recording model is the micro-step system: same states, and the recorded events
     are exactly its log *)
  Lemma tvh_sys_run sched : forall h,
    h_sys (tvh_run (length vs) h sched) = tv_run (h_sys h) (tvh_proj sched).
  Proof.
    induction sched as [|a l IH]; intro h; [reflexivity|].
    change (tvh_run (length vs) h (a :: l)) with (tvh_run (length vs) (tvh_step (length vs) h a) l).
    rewrite IH. destruct a as [[|c]| |]; cbn [tvh_proj tvh_step].
    - reflexivity.
    - destruct (existsb _ _); reflexivity.
    - destruct (_ && _); reflexivity.
    - destruct (h_ready h); reflexivity.
  Qed.

  Lemma tvh_faithful_proof sched :
    let h := tvh_run (length vs) (tvh_init v0 vs) sched in
    h_sys h = tv_run (tv_init_tagged v0 vs) (tvh_proj sched) /\ evs_of (h_hist h) = log (h_sys h).
  Proof.
    intro h. split; [apply tvh_sys_run|]. apply (hi_evs _ (hinv_run sched _ hinv_init)).
  Qed.

  (* ------------------------- acceptance = the specification of a coherent history *)
  Fixpoint hist_ok (prev : tagv) (l : list hev) : Prop :=
    match l with
    | [] => True
    | HEv (EvGet v) :: t => v = prev /\ hist_ok prev t
    | HEv (EvUpdate false v) :: t => v = prev /\ hist_ok prev t
    | HEv (EvUpdate true v) :: t => fst prev < fst v /\ valid v /\ hist_ok v t
    | HQuiet i :: t => fst prev = i /\ hist_ok prev t
    end.

  Lemma In_tagN {B} (v : N * B) l : forall j, In v (tagN j l) ->
    exists m, nth_error l m = Some (snd v) /\ fst v = j + N.of_nat m.
  Proof.
    induction l as [|x t IH]; intros j H; cbn in H; [contradiction|]. destruct H as [H|H].
    - subst v. exists 0%nat. cbn. split; [reflexivity|lia].
    - destruct (IH _ H) as [m [H1 H2]]. exists (S m). cbn. split; [exact H1|lia].
  Qed.

  Lemma nth_error_skipn' {B} (l : list B) a m : nth_error (skipn a l) m = nth_error l (a + m).
  Proof. revert l; induction a as [|a IH]; intros [|h l]; cbn; auto. destruct m; reflexivity. Qed.

  Lemma In_rest_valid j v : In v (rest_after j) -> j < fst v /\ valid v.
  Proof.
    intro H. apply In_tagN in H as [m [H1 H2]]. rewrite nth_error_skipn' in H1. split; [lia|].
    unfold tv_valid. replace (N.to_nat (fst v)) with (S (N.to_nat j + m)) by lia. exact H1.
  Qed.

  Lemma tv_acc_spec l : forall prev,
    hist_ok prev l ->
    tv_acc (rest_after (fst prev)) prev l = Some (rest_after (fst (log_cur prev (evs_of l)))).
  Proof.
    induction l as [|h t IH]; intros prev H; [reflexivity|].
    destruct h as [[[|] v|v]|i]; cbn in H |- *.
    - destruct H as [H1 [H2 H3]]. rewrite (drop_to_newer _ v H1 H2), log_cur_cons. apply IH. exact H3.
    - destruct H as [H1 H2]. subst v. rewrite eqv_refl, log_cur_cons. apply IH. exact H2.
    - destruct H as [H1 H2]. subst v. rewrite eqv_refl, log_cur_cons. apply IH. exact H2.
    - destruct H as [H1 H2]. subst i. rewrite N.eqb_refl. apply IH. exact H2.
  Qed.

  Lemma tv_acc_hist_ok l : forall prev r,
    tv_acc (rest_after (fst prev)) prev l = Some r -> hist_ok prev l.
  Proof.
    induction l as [|h t IH]; intros prev r H; [exact I|].
    destruct h as [[[|] v|v]|i]; cbn in H |- *.
    - destruct (drop_to v (rest_after (fst prev))) as [r1|] eqn:D; [|discriminate].
      destruct (drop_to_tagN _ _ _ _ D) as [_ [Hin _]]. fold (rest_after (fst prev)) in Hin.
      destruct (In_rest_valid _ _ Hin) as [H1 H2].
      rewrite (drop_to_newer _ v H1 H2) in D. inversion D; subst r1.
      split; [exact H1|]. split; [exact H2|]. apply (IH v r). exact H.
    - destruct (eqv v prev) eqn:E; [|discriminate]. apply eqv_eq in E. split; [exact E|]. apply (IH prev r H).
    - destruct (eqv v prev) eqn:E; [|discriminate]. apply eqv_eq in E. split; [exact E|]. apply (IH prev r H).
    - destruct (N.eqb (fst prev) i) eqn:E; [|discriminate]. apply N.eqb_eq in E. split; [exact E|]. apply (IH prev r H).
  Qed.

  Lemma rest_after_0 : rest_after 0 = tagN 1 vs.
  Proof. reflexivity. Qed.

  Lemma tv_accept_prefix_iff_proof l : tv_accept_prefix v0 vs l = true <-> hist_ok first l.
  Proof.
    unfold tv_accept_prefix. rewrite <- rest_after_0. split.
    - destruct (tv_acc (rest_after 0) first l) as [r|] eqn:E; [|discriminate]. intros _.
      apply (tv_acc_hist_ok l first r). exact E.
    - intro H. pose proof (tv_acc_spec l first H) as E. cbn [fst] in E. rewrite E. reflexivity.
  Qed.

  Lemma rest_after_nil j : rest_after j = [] <-> (length vs <= N.to_nat j)%nat.
  Proof.
    unfold rest_after. split.
    - intro H. destruct (skipn (N.to_nat j) vs) eqn:E; [|discriminate].
      assert (L : length (skipn (N.to_nat j) vs) = 0%nat) by (rewrite E; reflexivity).
      rewrite skipn_length in L. lia.
    - intro H. rewrite skipn_all2 by exact H. reflexivity.
  Qed.

  Lemma tv_accept_iff_proof l :
    tv_accept v0 vs l = true <->
    hist_ok first l /\ (length vs <= N.to_nat (fst (log_cur first (evs_of l))))%nat.
  Proof.
    unfold tv_accept. rewrite <- rest_after_0. split.
    - destruct (tv_acc (rest_after 0) first l) as [[|w r]|] eqn:E; try discriminate. intros _.
      pose proof (tv_acc_hist_ok l first _ E) as H. split; [exact H|].
      pose proof (tv_acc_spec l first H) as E2. cbn [fst] in E2. rewrite E2 in E. inversion E as [E']. apply rest_after_nil. exact E'.
    - intros [H1 H2]. pose proof (tv_acc_spec l first H1) as E. cbn [fst] in E. rewrite E.
      apply rest_after_nil in H2. rewrite H2. reflexivity.
  Qed.
End ACC.
