(* C15 - proofs.  Part 3: FixedBufferWriter histories (available / capacity /
   getWrittenView always describe exactly what was written) and the refutations of the
   bounds checks as they were before the repair. *)
From Common Require Import Prelude.
From C15 Require Import Model Proofs ProofsCodec.
Local Open Scope Z_scope.

Definition accepted_b (o : fout) : bool :=
  match o with FOk | FPtr _ => true | _ => false end.

Lemma accepted_b_iff o : accepted_b o = true <-> accepted o.
Proof. destruct o; simpl; split; intro H; try reflexivity; try discriminate; try tauto. Qed.

(* the bytes an accepted call leaves in [cursor, cursor+size): the block passed, or - for a
   null pointer / a reservation the caller has not filled - whatever the buffer held there *)
Definition fop_data (w : fbw) (o : fop) : list N :=
  match fop_mem o with
  | Some bs => bs
  | None => firstn (Z.to_nat (fop_size o)) (skipn (Z.to_nat (f_cur w)) (f_bytes w))
  end.

(* run a history and collect the log of everything that was accepted, in order *)
Fixpoint fbw_trace (w : fbw) (log : list N) (ops : list fop) : fbw * list N :=
  match ops with
  | [] => (w, log)
  | o :: ops' =>
      let (w', out) := fbw_step w o in
      fbw_trace w' (if accepted_b out then log ++ fop_data w o else log) ops'
  end.

(* the invariant: the buffer is the log followed by the untouched rest of the initial storage *)
Definition view_ok (init : list N) (w : fbw) (log : list N) : Prop :=
  fbw_inv w /\ len init = f_cap w /\ len log = f_cur w /\
  f_bytes w = log ++ skipn (length log) init.

Lemma skipn_skipn_add {A} x y (l : list A) : skipn x (skipn y l) = skipn (y + x) l.
Proof.
  revert l; induction y as [|y IH]; intro l; [reflexivity|].
  destruct l as [|a l]; [now destruct x | apply IH].
Qed.

Lemma view_ok_obs init w log :
  view_ok init w log ->
  fbw_capacity w = len init /\ fbw_available w = len init - len log /\ f_cur w = len log /\
  fbw_view w = Some log.
Proof.
  intros ([Hc Hcap] & Hi & Hl & Hb). unfold fbw_capacity, fbw_available, fbw_view.
  split; [now symmetry|]. split; [rewrite wrap_small; lia|]. split; [now symmetry|].
  unfold fetch. pose proof (len_nonneg (f_bytes w)).
  destruct ((0 <=? 0) && (0 <=? f_cur w) && (0 + f_cur w <=? len (f_bytes w))) eqn:E;
    [|exfalso; unfold f_cap in *; lia].
  rewrite <- Hl, to_nat_len. cbn [Z.to_nat skipn]. rewrite Hb at 1. now rewrite firstn_length_app.
Qed.

Lemma fbw_step_log init w log o :
  view_ok init w log -> fop_ok o ->
  let (w', out) := fbw_step w o in
  view_ok init w' (if accepted_b out then log ++ fop_data w o else log) /\
  (accepted_b out = true <-> fop_size o <= f_cap w - f_cur w) /\
  (accepted_b out = false -> out = FThrow /\ w' = w).
Proof.
  intros Hv [Hsz Hmem]. assert (Hv' := Hv). destruct Hv' as (Hinv & Hi & Hl & Hb).
  assert (Hinv' := Hinv). destruct Hinv' as [Hc Hcap].
  destruct (fbw_step w o) as [w' out] eqn:E.
  unfold fbw_step, fbw_step_gen in E.
  assert (Hrej : fbw_rejects w (fop_size o) = true -> (w', out) = (w, FThrow)).
  { intro R. destruct o; cbn [fop_size] in R; rewrite R in E; now inversion E. }
  destruct (fbw_rejects w (fop_size o)) eqn:R.
  - specialize (Hrej eq_refl). inversion Hrej; subst. cbn [accepted_b].
    unfold fbw_rejects in R. split; [exact Hv|]. split; [split; [discriminate | intro; exfalso; lia] | tauto].
  - clear Hrej. unfold fbw_rejects in R.
    assert (Hfit : 0 <= fop_size o <= f_cap w - f_cur w) by lia.
    set (okv := match o with FWrite _ _ => FOk | FReserve _ _ => FPtr (f_cur w) end).
    assert (E' : fbw_put w (fop_mem o) (fop_size o) okv = (w', out)).
    { destruct o; cbn [fop_size fop_mem] in *; unfold fbw_rejects in E; rewrite R in E; exact E. }
    destruct (fbw_put_ok w (fop_mem o) (fop_size o) okv Hinv Hfit Hmem) as [b' (Hp & Hlb & F1 & F2 & F3)].
    rewrite Hp in E'. inversion E'; subst w' out. clear E'.
    assert (Hacc : accepted_b okv = true) by (unfold okv; destruct o; reflexivity).
    rewrite Hacc. split; [|split; [split; [intros _; lia | reflexivity] | discriminate]].
    (* the new buffer is (log ++ data) ++ untouched rest *)
    set (cn := Z.to_nat (f_cur w)). set (sn := Z.to_nat (fop_size o)).
    assert (Hcn : cn = length log) by (unfold cn; rewrite <- Hl; apply to_nat_len).
    assert (Hdata : fop_data w o = firstn sn (skipn cn b')).
    { unfold fop_data. symmetry. exact F3. }
    assert (Hdl : length (fop_data w o) = sn).
    { rewrite Hdata, firstn_length, skipn_length. unfold len, f_cap in *. lia. }
    assert (Hsplit : b' = firstn cn b' ++ firstn sn (skipn cn b') ++ skipn sn (skipn cn b')).
    { now rewrite !firstn_skipn. }
    assert (Hadd : Z.to_nat (f_cur w + fop_size o) = (cn + sn)%nat) by (unfold cn, sn; lia).
    unfold view_ok. cbn [f_cur f_bytes]. unfold fbw_inv, f_cap in *. cbn [f_cur f_bytes].
    split; [lia|]. split; [lia|]. split.
    + rewrite len_app. unfold len at 2. rewrite Hdl. unfold sn. lia.
    + rewrite Hsplit, <- Hdata. fold cn in F1. rewrite F1, Hb. rewrite Hcn at 1. rewrite firstn_length_app.
      rewrite <- app_assoc. f_equal. f_equal.
      rewrite skipn_skipn_add. rewrite Hadd in F2. rewrite F2, Hb.
      rewrite app_length, Hdl, <- Hcn.
      rewrite <- (skipn_skipn_add sn cn (log ++ _)). rewrite Hcn at 1. rewrite skipn_length_app.
      rewrite skipn_skipn_add. now rewrite Hcn.
Qed.

Lemma fbw_trace_inv init ops : forall w log,
  view_ok init w log -> Forall fop_ok ops ->
  view_ok init (fst (fbw_trace w log ops)) (snd (fbw_trace w log ops)).
Proof.
  induction ops as [|o ops IH]; intros w log Hv Hops; [exact Hv|].
  inversion Hops as [|? ? Ho Hops']; subst. cbn [fbw_trace].
  pose proof (fbw_step_log init w log o Hv Ho) as Hs.
  destruct (fbw_step w o) as [w' out]. destruct Hs as (Hv' & _). now apply IH.
Qed.

Lemma fbw_trace_run ops : forall w log, fst (fbw_trace w log ops) = fbw_run w ops.
Proof.
  unfold fbw_run. induction ops as [|o ops IH]; intros w log; [reflexivity|].
  cbn [fbw_trace fold_left]. destruct (fbw_step w o) as [w' out]. apply IH.
Qed.

Lemma view_ok_init cap bg : 0 <= cap < 2 ^ 64 -> view_ok (repeat bg (Z.to_nat cap)) (fbw_init cap bg) [].
Proof.
  intro H. unfold view_ok, fbw_init, fbw_inv, f_cap. cbn [f_cur f_bytes length skipn app].
  assert (len (repeat bg (Z.to_nat cap)) = cap) by (unfold len; rewrite repeat_length; lia).
  repeat split; try lia; reflexivity.
Qed.

(* over every history of write / reserve calls on a FixedBufferWriter(cap) *)
Lemma fixed_view_exact cap bg ops :
  0 <= cap < 2 ^ 64 -> Forall fop_ok ops ->
  let w := fbw_run (fbw_init cap bg) ops in
  let log := snd (fbw_trace (fbw_init cap bg) [] ops) in
  fbw_capacity w = cap /\ fbw_available w = cap - len log /\ f_cur w = len log /\
  fbw_view w = Some log /\
  f_bytes w = log ++ repeat bg (Z.to_nat (cap - len log)).
Proof.
  intros Hcap Hops. cbv zeta. rewrite <- (fbw_trace_run ops _ []).
  pose proof (fbw_trace_inv _ ops _ _ (view_ok_init cap bg Hcap) Hops) as Hv.
  destruct (fbw_trace (fbw_init cap bg) [] ops) as [w log]. cbn [fst snd] in *.
  destruct (view_ok_obs _ _ _ Hv) as (O1 & O2 & O3 & O4).
  assert (Hlen : len (repeat bg (Z.to_nat cap)) = cap) by (unfold len; rewrite repeat_length; lia).
  rewrite Hlen in *. repeat split; try assumption.
  destruct Hv as (Hinv & _ & Hl & Hb). rewrite Hb. f_equal.
  assert (Hle : (length log <= Z.to_nat cap)%nat).
  { destruct Hinv as [Hc _]. unfold fbw_capacity in O1. unfold len in *. lia. }
  replace (Z.to_nat cap) with (length log + Z.to_nat (cap - len log))%nat by (unfold len; lia).
  rewrite repeat_app. rewrite <- (repeat_length bg (length log)) at 1. apply skipn_length_app.
Qed.

(* ------------------------------------------------------------------ refutations *)
(* BufferReader before the repair: cursor = 8 in an 8-byte buffer, size = 2^64 - 4: the
   sum wraps to 4, the check passes and the copy / the view leaves the buffer *)
Lemma reader_wrap_old_refuted :
  exists r size,
    0 <= size < 2 ^ 64 /\ 0 <= r_cur r <= len (r_buf r) /\ r_cur r + size > len (r_buf r) /\
    rd_read_old r true size = ROob /\ rd_read r true size = RThrow /\
    (exists off sz r', rd_view_old r size = ROk (off, sz) r' /\ off + sz > len (r_buf r)) /\
    rd_view r size = RThrow.
Proof.
  exists {| r_buf := [1; 2; 3; 4; 5; 6; 7; 8]%N; r_cur := 8 |}, (2 ^ 64 - 4).
  split; [lia|]. split; [vm_compute; split; discriminate|]. split; [vm_compute; reflexivity|].
  split; [vm_compute; reflexivity|]. split; [vm_compute; reflexivity|]. split.
  - eexists _, _, _. split; [vm_compute; reflexivity | vm_compute; reflexivity].
  - vm_compute. reflexivity.
Qed.

(* FixedBufferWriter before the repair: 8 bytes into an empty writer of capacity 8 *)
Lemma fixed_exact_fit_old_refuted :
  exists w o,
    fbw_inv w /\ fop_ok o /\ fop_size o <= f_cap w - f_cur w /\
    fbw_step_old w o = (w, FThrow) /\ snd (fbw_step w o) = FOk.
Proof.
  exists (fbw_init 8 238%N), (FWrite (Some [1; 2; 3; 4; 5; 6; 7; 8]%N) 8).
  split; [vm_compute; repeat split; discriminate|].
  split; [vm_compute; repeat split; discriminate|].
  split; [vm_compute; discriminate|]. split; vm_compute; reflexivity.
Qed.
