(* C15 - proofs.  Part 6: readers and a writer interleaved over one shared buffer.  A reader's
   observations are functions of the buffer's CURRENT contents: what is appended after the reader
   was constructed is read back, end() compares with the current length, and no history of writes
   and reads ever leaves the buffer. *)
From Common Require Import Prelude.
From C15 Require Import Model Proofs ProofsCodec.
Local Open Scope Z_scope.

Lemma nth_set_nth l k z c : nth_error l k = Some c -> nth_error (set_nth l k z) k = Some z.
Proof.
  revert k; induction l as [|x l IH]; intros [|k] H; simpl in *; try discriminate; [reflexivity | now apply IH].
Qed.

Lemma set_nth_Forall (P : Z -> Prop) l k z : Forall P l -> P z -> Forall P (set_nth l k z).
Proof.
  intros Hl Hz. revert k; induction Hl as [|x l Hx Hl IH]; intros [|k]; simpl; constructor; auto.
Qed.

Lemma h_write_appends st bs :
  len (h_buf st) + len bs < 2 ^ 64 ->
  h_step st (HWrite (Some bs) (len bs)) = ({| h_buf := h_buf st ++ bs; h_curs := h_curs st |}, HOk).
Proof. intro H. cbn [h_step]. now rewrite bw_write_app. Qed.

Lemma bw_write_null buf n :
  0 <= n -> len buf + n < 2 ^ 64 -> bw_write buf None n = Some (buf ++ repeat 0%N (Z.to_nat n)).
Proof.
  intros Hn H. pose proof (len_nonneg buf). unfold bw_write. cbv zeta. rewrite wrap_small by lia.
  unfold resize. rewrite firstn_all2 by (unfold len; lia). do 3 f_equal. lia.
Qed.

(* reader_sees_later_writes: reader k has consumed everything; the writer appends bs; now end() is
   false (unless bs is empty), reading len bs bytes returns exactly bs, and end() is true again *)
Lemma reader_sees_later_writes st k c bs :
  nth_error (h_curs st) k = Some c -> c = len (h_buf st) -> len (h_buf st) + len bs < 2 ^ 64 ->
  let st1 := fst (h_step st (HWrite (Some bs) (len bs))) in
  h_buf st1 = h_buf st ++ bs /\
  snd (h_step st1 (HEnd k)) = HEndIs (len bs =? 0) /\
  h_step st1 (HRead k true (len bs)) =
    ({| h_buf := h_buf st ++ bs; h_curs := set_nth (h_curs st) k (c + len bs) |}, HBytes bs) /\
  snd (h_step (fst (h_step st1 (HRead k true (len bs)))) (HEnd k)) = HEndIs true.
Proof.
  intros Hk Hc Hl. cbv zeta. rewrite h_write_appends by assumption. cbn [fst].
  pose proof (len_nonneg (h_buf st)). pose proof (len_nonneg bs).
  split; [reflexivity|].
  assert (R : rd_read (h_reader {| h_buf := h_buf st ++ bs; h_curs := h_curs st |} c) true (len bs) =
              ROk bs (at_ (h_buf st ++ bs) (c + len bs))).
  { unfold h_reader. cbn [h_buf]. change {| r_buf := h_buf st ++ bs; r_cur := c |} with (at_ (h_buf st ++ bs) c).
    apply (read_ok (h_buf st ++ bs) (h_buf st) bs []); try assumption; try reflexivity.
    - now rewrite app_nil_r.
    - rewrite len_app. lia. }
  split; [|split].
  - cbn [h_step snd h_curs]. rewrite Hk. cbn [snd]. f_equal. unfold rd_end, h_reader. cbn [r_cur r_buf h_buf].
    rewrite len_app. destruct (Z.eqb_spec (len bs) 0); destruct (c >=? len (h_buf st) + len bs) eqn:E; try reflexivity; lia.
  - cbn [h_step h_curs]. rewrite Hk, R. reflexivity.
  - cbn [h_step h_curs]. rewrite Hk, R. cbn [fst h_step h_curs]. rewrite (nth_set_nth _ _ _ _ Hk). cbn [snd].
    f_equal. unfold rd_end, h_reader, at_. cbn [r_cur r_buf h_buf]. rewrite len_app.
    destruct (c + len bs >=? len (h_buf st) + len bs) eqn:E; [reflexivity | lia].
Qed.

(* end() is true exactly when the cursor equals the CURRENT length *)
Lemma end_iff_current_length st k c :
  nth_error (h_curs st) k = Some c -> 0 <= c <= len (h_buf st) ->
  exists b, snd (h_step st (HEnd k)) = HEndIs b /\ (b = true <-> c = len (h_buf st)).
Proof.
  intros Hk Hc. cbn [h_step]. rewrite Hk. cbn [snd]. eexists. split; [reflexivity|].
  unfold rd_end, h_reader. cbn [r_cur r_buf]. destruct (c >=? len (h_buf st)) eqn:E; split; intro; try lia; try discriminate; reflexivity.
Qed.

(* the bounds theorems over the current length *)
Lemma hist_read_in_bounds st k c mem size :
  nth_error (h_curs st) k = Some c -> 0 <= size -> 0 <= c ->
  snd (h_step st (HRead k mem size)) <> HOob /\
  (c <= len (h_buf st) -> (snd (h_step st (HRead k mem size)) = HThrow <-> c + size > len (h_buf st))).
Proof.
  intros Hk Hs Hc. cbn [h_step]. rewrite Hk.
  pose proof (rd_read_no_oob (h_reader st c) mem size Hs Hc) as N.
  split.
  - destruct (rd_read (h_reader st c) mem size); cbn [snd]; congruence.
  - intro Hle. pose proof (rd_read_throws_iff (h_reader st c) mem size Hs (conj Hc Hle)) as T. cbn [r_cur r_buf h_reader] in T.
    destruct (rd_read (h_reader st c) mem size) eqn:E; cbn [snd]; split; intro H; try discriminate; try reflexivity;
      try (apply T in H; discriminate); try (apply T; reflexivity); try contradiction.
Qed.

(* over whole histories: cursors stay inside the current buffer, so nothing ever leaves it *)
Definition h_inv (st : hstate) : Prop :=
  len (h_buf st) < 2 ^ 64 /\ Forall (fun c => 0 <= c <= len (h_buf st)) (h_curs st).

Definition hop_ok (st : hstate) (op : hop) : Prop :=
  match op with
  | HWrite mem size => 0 <= size /\ len (h_buf st) + size < 2 ^ 64 /\
                       match mem with Some bs => len bs = size | None => True end
  | HRead _ _ size => 0 <= size < 2 ^ 64
  | HView _ count => 0 <= count < 2 ^ 64
  | _ => True
  end.

Lemma h_step_inv st op :
  h_inv st -> hop_ok st op ->
  h_inv (fst (h_step st op)) /\ snd (h_step st op) <> HOob /\
  (exists tail, h_buf (fst (h_step st op)) = h_buf st ++ tail).
Proof.
  intros [Hl Hc] Hop. pose proof (len_nonneg (h_buf st)) as Hn.
  destruct op as [mem size | | kc | k mem size | k count | k]; cbn [hop_ok] in Hop.
  - destruct Hop as (Hs & Hsum & Hm). cbn [h_step].
    assert (E : exists tail, bw_write (h_buf st) mem size = Some (h_buf st ++ tail) /\ len tail = size).
    { destruct mem as [bs|].
      - subst size. exists bs. split; [now apply bw_write_app | reflexivity].
      - exists (repeat 0%N (Z.to_nat size)). split; [now apply bw_write_null|]. unfold len. rewrite repeat_length. lia. }
    destruct E as (tail & -> & Ht). cbn [fst snd h_buf h_curs]. split; [|split; [discriminate | now exists tail]].
    split; cbn [h_buf h_curs]; rewrite len_app; [lia|].
    eapply Forall_impl; [|exact Hc]. cbv beta. intros; lia.
  - cbn [h_step fst snd h_buf h_curs]. split; [|split; [discriminate | exists []; now rewrite app_nil_r]].
    split; cbn [h_buf h_curs]; [exact Hl|]. apply Forall_app. split; [exact Hc | constructor; [lia | constructor]].
  - cbn [h_step]. destruct (nth_error (h_curs st) kc) as [c|] eqn:Hk;
      [|cbn [fst snd]; split; [now split | split; [discriminate | exists []; now rewrite app_nil_r]]].
    cbn [fst snd h_buf h_curs]. split; [|split; [discriminate | exists []; now rewrite app_nil_r]].
    split; cbn [h_buf h_curs]; [exact Hl|]. apply Forall_app. split; [exact Hc|].
    constructor; [|constructor]. rewrite Forall_forall in Hc. exact (Hc c (nth_error_In _ _ Hk)).
  - cbn [h_step]. destruct (nth_error (h_curs st) k) as [c|] eqn:Hk;
      [|cbn [fst snd]; split; [now split | split; [discriminate | exists []; now rewrite app_nil_r]]].
    rewrite Forall_forall in Hc. assert (Hcc := Hc c (nth_error_In _ _ Hk)).
    pose proof (rd_read_no_oob (h_reader st c) mem size ltac:(lia) ltac:(cbn; lia)) as N.
    pose proof (rd_read_throws_iff (h_reader st c) mem size ltac:(lia) Hcc) as T. cbn [h_reader r_cur r_buf] in T.
    destruct (rd_read (h_reader st c) mem size) as [| |bs r'] eqn:E.
    + cbn [fst snd]. split; [split; [exact Hl | now apply Forall_forall]|]. split; [discriminate | exists []; now rewrite app_nil_r].
    + congruence.
    + cbn [fst snd h_buf h_curs]. split; [|split; [discriminate | exists []; now rewrite app_nil_r]].
      split; cbn [h_buf h_curs]; [exact Hl|].
      apply set_nth_Forall; [now apply Forall_forall|].
      assert (Hnt : ~ (c + size > len (h_buf st))) by (intro X; apply T in X; discriminate).
      unfold rd_read, rd_read_gen in E. destruct (rd_throws (h_reader st c) size); [discriminate|].
      assert (r_cur r' = wrap (c + size)).
      { destruct (mem && (size >? 0)); [destruct (fetch _ _ _); [|discriminate]|]; inversion E; reflexivity. }
      rewrite H. rewrite wrap_small by lia. lia.
  - cbn [h_step]. destruct (nth_error (h_curs st) k) as [c|] eqn:Hk;
      [|cbn [fst snd]; split; [now split | split; [discriminate | exists []; now rewrite app_nil_r]]].
    rewrite Forall_forall in Hc. assert (Hcc := Hc c (nth_error_In _ _ Hk)).
    destruct (rd_view (h_reader st c) count) as [| |[off sz] r'] eqn:E.
    + cbn [fst snd]. split; [split; [exact Hl | now apply Forall_forall]|]. split; [discriminate | exists []; now rewrite app_nil_r].
    + unfold rd_view, rd_view_gen in E. destruct (rd_throws _ _); discriminate.
    + pose proof (rd_view_in_bounds (h_reader st c) count off sz r' Hop ltac:(cbn; lia) Hl E) as (B1 & B2 & B3 & B4 & B5 & _).
      pose proof (rd_view_throws_iff (h_reader st c) count Hop Hcc) as T.
      assert (Hnt : ~ (c + count > len (h_buf st))) by (intro X; apply T in X; congruence).
      cbn [h_reader r_cur r_buf] in *.
      cbn [fst snd h_buf h_curs]. split; [|split; [discriminate | exists []; now rewrite app_nil_r]].
      split; cbn [h_buf h_curs]; [exact Hl|]. apply set_nth_Forall; [now apply Forall_forall | lia].
  - cbn [h_step]. destruct (nth_error (h_curs st) k); cbn [fst snd];
      (split; [now split | split; [discriminate | exists []; now rewrite app_nil_r]]).
Qed.

(* any history from the empty writer: never out of bounds, the invariant holds throughout *)
Fixpoint h_trace (st : hstate) (ops : list hop) : hstate * list hout :=
  match ops with
  | [] => (st, [])
  | op :: ops' => let (st', o) := h_step st op in let (st'', os) := h_trace st' ops' in (st'', o :: os)
  end.

Fixpoint hops_ok (st : hstate) (ops : list hop) : Prop :=
  match ops with
  | [] => True
  | op :: ops' => hop_ok st op /\ hops_ok (fst (h_step st op)) ops'
  end.

Lemma hist_never_oob ops : forall st,
  h_inv st -> hops_ok st ops -> h_inv (fst (h_trace st ops)) /\ ~ In HOob (snd (h_trace st ops)).
Proof.
  induction ops as [|op ops IH]; intros st Hinv Hok; cbn [h_trace].
  - split; [exact Hinv | intros []].
  - destruct Hok as [Ho Hok]. destruct (h_step_inv st op Hinv Ho) as (Hinv' & Hn & _).
    destruct (h_step st op) as [st' o]. cbn [fst snd] in *.
    destruct (IH st' Hinv' Hok) as [Hinv'' Hno]. destruct (h_trace st' ops) as [st'' os]. cbn [fst snd] in *.
    split; [exact Hinv''|]. intros [E|I]; [congruence | contradiction].
Qed.

(* readers are independent: a copy starts at the cursor of its original; what one reader does never
   moves another reader's cursor *)
Lemma nth_set_nth_other l k j z : j <> k -> nth_error (set_nth l k z) j = nth_error l j.
Proof.
  revert k j; induction l as [|x l IH]; intros [|k] [|j] H; simpl; try reflexivity; try congruence.
  apply IH. congruence.
Qed.

Lemma reader_copy_and_independence st k c :
  nth_error (h_curs st) k = Some c ->
  (let st' := fst (h_step st (HCopy k)) in
   h_buf st' = h_buf st /\ nth_error (h_curs st') (length (h_curs st)) = Some c /\ nth_error (h_curs st') k = Some c) /\
  (forall op j, j <> k ->
     match op with HRead k' _ _ | HView k' _ | HEnd k' => k' = k | _ => False end ->
     nth_error (h_curs (fst (h_step st op))) j = nth_error (h_curs st) j).
Proof.
  intro Hk. split.
  - cbv zeta. cbn [h_step]. rewrite Hk. cbn [fst h_buf h_curs]. split; [reflexivity|]. split.
    + rewrite nth_error_app2 by lia. now rewrite Nat.sub_diag.
    + rewrite nth_error_app1; [exact Hk|]. apply nth_error_Some. congruence.
  - intros op j Hj Hop. destruct op as [| | |k' m sz|k' cnt|k']; try contradiction; subst k'; cbn [h_step]; rewrite Hk.
    + destruct (rd_read (h_reader st c) m sz); cbn [fst h_curs]; try reflexivity. now apply nth_set_nth_other.
    + destruct (rd_view (h_reader st c) cnt) as [| |[off sz] r']; cbn [fst h_curs]; try reflexivity. now apply nth_set_nth_other.
    + reflexivity.
Qed.

(* ------------------------------------------------- handoff of the writer's buffer, reset *)
(* after the buffer was moved out the writer restarts at 0: the next message is exactly what is
   written next (no stale prefix), the handed-off message is what had been written, and the size
   seen by a WriteSizeCalculator restarted at the handoff is the buffer size *)
Lemma handoff_restarts_writer st bs :
  len bs < 2 ^ 64 ->
  let st1 := fst (x_step st XHandoff) in
  h_buf (x_h st1) = [] /\ x_msgs st1 = x_msgs st ++ [h_buf (x_h st)] /\ h_curs (x_h st1) = h_curs (x_h st) /\
  let st2 := fst (x_step st1 (XH (HWrite (Some bs) (len bs)))) in
  h_buf (x_h st2) = bs /\ x_msgs st2 = x_msgs st1 /\ len (h_buf (x_h st2)) = wrap (0 + len bs).
Proof.
  intro Hl. cbv zeta. cbn [x_step fst x_h x_msgs h_buf h_curs].
  split; [reflexivity|]. split; [reflexivity|]. split; [reflexivity|].
  pose proof (len_nonneg bs).
  rewrite h_write_appends by (cbn [h_buf]; rewrite len_nil; lia). cbn [fst x_h x_msgs h_buf].
  split; [reflexivity|]. split; [reflexivity|]. rewrite wrap_small by lia. reflexivity.
Qed.

(* messages that were handed off are never touched again *)
Lemma handoff_messages_stable st op : exists tail, x_msgs (fst (x_step st op)) = x_msgs st ++ tail.
Proof.
  destruct op as [o | | |]; cbn [x_step].
  - destruct (h_step (x_h st) o). exists []. now rewrite app_nil_r.
  - eexists. reflexivity.
  - exists []. now rewrite app_nil_r.
  - exists []. now rewrite app_nil_r.
Qed.

(* a reader constructed on the writer's buffer before a handoff / reset is stale: it sees the
   empty buffer - every non-empty read throws, end() is true, nothing is read out of bounds *)
Lemma stale_reader_after_handoff st k c mem size op :
  op = XHandoff \/ op = XReset ->
  nth_error (h_curs (x_h st)) k = Some c -> 0 <= c -> 0 <= size -> (0 < size \/ 0 < c) ->
  let st1 := fst (x_step st op) in
  snd (x_step st1 (XH (HRead k mem size))) = HThrow /\ snd (x_step st1 (XH (HEnd k))) = HEndIs true.
Proof.
  intros Hop Hk Hc Hs Hpos. cbv zeta.
  assert (E : x_h (fst (x_step st op)) = {| h_buf := []; h_curs := h_curs (x_h st) |}) by (destruct Hop as [-> | ->]; reflexivity).
  cbn [x_step]. rewrite E. cbn [h_step h_curs]. rewrite Hk. split.
  - unfold rd_read, rd_read_gen, rd_throws, h_reader. cbn [r_cur r_buf h_buf]. rewrite len_nil.
    destruct ((c >? 0) || (size >? 0 - c)) eqn:T; [reflexivity | exfalso; lia].
  - cbn [snd]. f_equal. unfold rd_end, h_reader. cbn [r_cur r_buf h_buf]. rewrite len_nil.
    destruct (c >=? 0) eqn:T; [reflexivity | lia].
Qed.

(* self-assignment of the buffer changes nothing *)
Lemma self_assign_identity st : x_step st XSelfAssign = (st, HOk).
Proof. reflexivity. Qed.
