(* C15 - the language of the source-derived facts (gen/Facts.v, regenerated from the working
   tree by props/C15/factgen.py on every run), its machine semantics in terms of the primitives
   of Model.v, a comparison normaliser, and the hand-proved lemmas that tie the EXPECTED
   statement lists to the functions the property theorems are about.  FactsCheck.v then shows
   that what was extracted normalises to the expected lists. *)
From Common Require Import Prelude.
From C15 Require Import Model Proofs ProofsCodec ProofsFixed ProofsInto ProofsLife.
Local Open Scope Z_scope.

(* size_t expressions over the cursor member, the size/count parameter and buffer->size() *)
Inductive sx :=
| XCursor | XSize | XBufSize | XConst (z : Z)
| XAdd (a b : sx) | XSub (a b : sx) | XMul (a b : sx) | XUnknown.

Inductive bx :=
| BGt (a b : sx) | BGe (a b : sx) | BLt (a b : sx) | BLe (a b : sx) | BEq (a b : sx) | BNe (a b : sx)
| BOr (a b : bx) | BAnd (a b : bx) | BNot (a : bx)
| BMem                         (* the pointer parameter is not null *)
| BUnknown.

Inductive stmt :=
| SThrowIf (c : bx)                       (* if (c) throw ...;                                   *)
| SCopyOutIf (g : bx) (off n : sx)        (* if (g) memcpy(mem, buffer->begin() + off, n);       *)
| SCopyInIf (g : bx) (off n : sx)         (* if (g) memcpy(buffer->begin() + off, mem, n);       *)
| SAdvance (e : sx)                       (* cursor += e;                                        *)
| SPtr (off : sx)                         (* void *p = buffer->begin() + off;  (returned)        *)
| SView (off n : sx)                      (* view = make_shared<ArrayView>(begin() + off, n);    *)
| SReturn
| SUnknown.

Record env := { e_cur : Z; e_size : Z; e_bsz : Z; e_mem : bool }.

(* every operation is performed in size_t *)
Fixpoint seval (e : env) (x : sx) : Z :=
  match x with
  | XCursor => e_cur e | XSize => e_size e | XBufSize => e_bsz e | XConst z => z
  | XAdd a b => wrap (seval e a + seval e b)
  | XSub a b => wrap (seval e a - seval e b)
  | XMul a b => wrap (seval e a * seval e b)
  | XUnknown => 0
  end.

Fixpoint beval (e : env) (b : bx) : bool :=
  match b with
  | BGt x y => seval e x >? seval e y | BGe x y => seval e x >=? seval e y
  | BLt x y => seval e x <? seval e y | BLe x y => seval e x <=? seval e y
  | BEq x y => seval e x =? seval e y | BNe x y => negb (seval e x =? seval e y)
  | BOr x y => beval e x || beval e y | BAnd x y => beval e x && beval e y
  | BNot x => negb (beval e x)
  | BMem => e_mem e
  | BUnknown => false
  end.

(* comparisons are oriented: a < b becomes b > a, a <= b becomes b >= a *)
Fixpoint nb (b : bx) : bx :=
  match b with
  | BLt x y => BGt y x | BLe x y => BGe y x
  | BOr x y => BOr (nb x) (nb y) | BAnd x y => BAnd (nb x) (nb y) | BNot x => BNot (nb x)
  | _ => b
  end.

Definition nstmt (s : stmt) : stmt :=
  match s with
  | SThrowIf c => SThrowIf (nb c)
  | SCopyOutIf g o n => SCopyOutIf (nb g) o n
  | SCopyInIf g o n => SCopyInIf (nb g) o n
  | _ => s
  end.

Lemma nb_sound e b : beval e (nb b) = beval e b.
Proof.
  induction b; cbn [nb beval]; try reflexivity; try congruence.
  - apply Z.gtb_ltb.
  - apply Z.geb_leb.
Qed.

(* ------------------------------------------------------------ BufferReader::read *)
Definition renv (r : reader) (mem : bool) (size : Z) : env :=
  {| e_cur := r_cur r; e_size := size; e_bsz := len (r_buf r); e_mem := mem |}.

Fixpoint exec_rd (ss : list stmt) (mem : bool) (size : Z) (r : reader) (got : list N) : rres (list N) :=
  match ss with
  | [] => ROk got r
  | s :: ss' =>
      let e := renv r mem size in
      match s with
      | SThrowIf c => if beval e c then RThrow else exec_rd ss' mem size r got
      | SCopyOutIf g off n =>
          if beval e g then
            match fetch (r_buf r) (seval e off) (seval e n) with
            | None => ROob
            | Some bs => exec_rd ss' mem size r bs
            end
          else exec_rd ss' mem size r got
      | SAdvance x => exec_rd ss' mem size {| r_buf := r_buf r; r_cur := wrap (r_cur r + seval e x) |} got
      | SReturn => ROk got r
      | _ => ROob
      end
  end.

Lemma exec_rd_norm ss mem size : forall r got, exec_rd (map nstmt ss) mem size r got = exec_rd ss mem size r got.
Proof.
  induction ss as [|s ss IH]; intros r got; [reflexivity|].
  destruct s; cbn [map nstmt exec_rd]; rewrite ?nb_sound;
    repeat match goal with |- context [match ?x with _ => _ end] => destruct x end;
    rewrite ?IH; reflexivity.
Qed.

Definition chk_tree (sz : sx) : bx := BOr (BGt XCursor XBufSize) (BGt sz (XSub XBufSize XCursor)).
Definition guard_tree : bx := BAnd BMem (BGt XSize (XConst 0)).

Definition exp_read : list stmt :=
  [SThrowIf (chk_tree XSize); SCopyOutIf guard_tree XCursor XSize; SAdvance XSize].

Lemma chk_wrap c s L : 0 <= c -> 0 <= L < 2 ^ 64 ->
  (c >? L) || (s >? wrap (L - c)) = (c >? L) || (s >? L - c).
Proof.
  intros Hc HL. destruct (c >? L) eqn:E; [reflexivity|]. cbn [orb]. rewrite wrap_small by lia. reflexivity.
Qed.

Lemma exp_read_ok r mem size :
  0 <= r_cur r -> len (r_buf r) < 2 ^ 64 ->
  exec_rd exp_read mem size r [] = rd_read r mem size.
Proof.
  intros Hc HL. pose proof (len_nonneg (r_buf r)).
  unfold exp_read, chk_tree, guard_tree, rd_read, rd_read_gen, rd_throws, rd_advance.
  cbn [exec_rd beval seval renv e_cur e_size e_bsz e_mem].
  rewrite chk_wrap by lia.
  destruct ((r_cur r >? len (r_buf r)) || (size >? len (r_buf r) - r_cur r)); [reflexivity|].
  destruct (mem && (size >? 0)); [|reflexivity].
  destruct (fetch (r_buf r) (r_cur r) size); reflexivity.
Qed.

(* --------------------------------------------------- BufferReader::getView<uint8_t> *)
Fixpoint exec_vw (ss : list stmt) (count : Z) (r : reader) (ext : Z * Z) : rres (Z * Z) :=
  match ss with
  | [] => ROk ext r
  | s :: ss' =>
      let e := renv r false count in
      match s with
      | SThrowIf c => if beval e c then RThrow else exec_vw ss' count r ext
      | SView off n => exec_vw ss' count r (seval e off, seval e n)
      | SAdvance x => exec_vw ss' count {| r_buf := r_buf r; r_cur := wrap (r_cur r + seval e x) |} ext
      | SReturn => ROk ext r
      | _ => ROob
      end
  end.

Lemma exec_vw_norm ss count : forall r ext, exec_vw (map nstmt ss) count r ext = exec_vw ss count r ext.
Proof.
  induction ss as [|s ss IH]; intros r ext; [reflexivity|].
  destruct s; cbn [map nstmt exec_vw]; rewrite ?nb_sound;
    repeat match goal with |- context [match ?x with _ => _ end] => destruct x end;
    rewrite ?IH; reflexivity.
Qed.

Definition view_size : sx := XMul XSize (XConst 1).       (* count * sizeof(uint8_t) *)
Definition exp_view : list stmt :=
  [SThrowIf (chk_tree view_size); SView XCursor view_size; SAdvance view_size; SReturn].

Lemma exp_view_ok r count :
  0 <= r_cur r -> len (r_buf r) < 2 ^ 64 ->
  exec_vw exp_view count r (0, 0) = rd_view r count.
Proof.
  intros Hc HL. pose proof (len_nonneg (r_buf r)).
  unfold exp_view, chk_tree, view_size, rd_view, rd_view_gen, rd_throws, rd_advance.
  cbn [exec_vw beval seval renv e_cur e_size e_bsz e_mem]. cbv zeta.
  rewrite chk_wrap by lia.
  destruct ((r_cur r >? len (r_buf r)) || (wrap (count * 1) >? len (r_buf r) - r_cur r)); reflexivity.
Qed.

(* ------------------------------------------------ FixedBufferWriter::write / reserve *)
Definition fenv (w : fbw) (m : option (list N)) (size : Z) : env :=
  {| e_cur := f_cur w; e_size := size; e_bsz := f_cap w;
     e_mem := match m with Some _ => true | None => false end |}.

Fixpoint exec_fw (ss : list stmt) (m : option (list N)) (size : Z) (w : fbw) (out : fout) : fbw * fout :=
  match ss with
  | [] => (w, out)
  | s :: ss' =>
      let e := fenv w m size in
      match s with
      | SThrowIf c => if beval e c then (w, FThrow) else exec_fw ss' m size w out
      | SCopyInIf g off n =>
          if beval e g then
            match m with
            | Some bs =>
                match store (f_bytes w) (seval e off) (firstn (Z.to_nat (seval e n)) bs) with
                | None => (w, FOob)
                | Some b' => exec_fw ss' m size {| f_bytes := b'; f_cur := f_cur w |} out
                end
            | None => exec_fw ss' m size w out
            end
          else exec_fw ss' m size w out
      | SPtr off => exec_fw ss' m size w (FPtr (seval e off))
      | SAdvance x => exec_fw ss' m size {| f_bytes := f_bytes w; f_cur := wrap (f_cur w + seval e x) |} out
      | SReturn => (w, out)
      | _ => (w, FOob)
      end
  end.

Lemma exec_fw_norm ss m size : forall w out, exec_fw (map nstmt ss) m size w out = exec_fw ss m size w out.
Proof.
  induction ss as [|s ss IH]; intros w out; [reflexivity|].
  destruct s; cbn [map nstmt exec_fw]; rewrite ?nb_sound;
    repeat match goal with |- context [match ?x with _ => _ end] => destruct x end;
    rewrite ?IH; reflexivity.
Qed.

Definition exp_fwrite : list stmt :=
  [SThrowIf (chk_tree XSize); SCopyInIf guard_tree XCursor XSize; SAdvance XSize].
Definition exp_freserve : list stmt :=
  [SThrowIf (chk_tree XSize); SPtr XCursor; SAdvance XSize; SReturn].

Lemma exp_fwrite_ok w m size :
  0 <= f_cur w -> f_cap w < 2 ^ 64 -> 0 <= size ->
  match m with Some bs => len bs = size | None => True end ->
  exec_fw exp_fwrite m size w FOk = fbw_step w (FWrite m size).
Proof.
  intros Hc HL Hs Hm. assert (0 <= f_cap w) by (unfold f_cap; apply len_nonneg).
  unfold exp_fwrite, chk_tree, guard_tree, fbw_step, fbw_step_gen, fbw_rejects, fbw_put, fbw_advance.
  cbn [exec_fw beval seval fenv e_cur e_size e_bsz e_mem].
  rewrite chk_wrap by lia.
  destruct ((f_cur w >? f_cap w) || (size >? f_cap w - f_cur w)); [reflexivity|].
  destruct m as [bs|]; cbn [andb]; [|reflexivity].
  destruct (size >? 0); [|reflexivity].
  rewrite firstn_all2 by (unfold len in Hm; lia).
  destruct (store (f_bytes w) (f_cur w) bs); reflexivity.
Qed.

Lemma exp_freserve_ok w size :
  0 <= f_cur w -> f_cap w < 2 ^ 64 ->
  exec_fw exp_freserve None size w FOk = fbw_step w (FReserve size None).
Proof.
  intros Hc HL. assert (0 <= f_cap w) by (unfold f_cap; apply len_nonneg).
  unfold exp_freserve, chk_tree, fbw_step, fbw_step_gen, fbw_rejects, fbw_put, fbw_advance.
  cbn [exec_fw beval seval fenv e_cur e_size e_bsz e_mem].
  rewrite chk_wrap by lia.
  destruct ((f_cur w >? f_cap w) || (size >? f_cap w - f_cur w)); reflexivity.
Qed.

(* ------------------------------------------------- end / available / capacity *)
Definition exp_end : bx := BGe XCursor XBufSize.
Lemma exp_end_ok r : beval (renv r false 0) exp_end = rd_end r.
Proof. reflexivity. Qed.

Definition exp_available : sx := XSub XBufSize XCursor.
Lemma exp_available_ok w : seval (fenv w None 0) exp_available = fbw_available w.
Proof. reflexivity. Qed.

Definition exp_capacity : sx := XBufSize.
Lemma exp_capacity_ok w : seval (fenv w None 0) exp_capacity = fbw_capacity w.
Proof. reflexivity. Qed.

(* --------------------------------------------------------------- length prefixes *)
(* the overloads whose first streamed item is the length: 1 vector<<  2 vector>>
   3 AbstractArray<<  4 string<<  5 const char*<<  6 string>> ; the model frames with le_bytes 8 *)
Definition prefix_ids : list N := [1; 2; 3; 4; 5; 6]%N.
Definition prefix_ok (l : list (N * Z)) : bool :=
  (if list_eq_dec N.eq_dec (map fst l) prefix_ids then true else false) && forallb (fun p => snd p =? 8) l.

Lemma prefix_ok_spec l : prefix_ok l = true ->
  map fst l = prefix_ids /\ forall id w x, In (id, w) l -> le_bytes (Z.to_nat w) x = le_bytes 8 x.
Proof.
  unfold prefix_ok. rewrite andb_true_iff. intros [H1 H2]. split.
  - destruct (list_eq_dec N.eq_dec (map fst l) prefix_ids); [assumption | discriminate].
  - intros id w x I. rewrite forallb_forall in H2. specialize (H2 _ I). cbn in H2.
    apply Z.eqb_eq in H2. now subst.
Qed.

Definition overload_ids : list N := [1; 2; 3; 4]%N.
Definition overload_ok (l : list (N * bool)) : bool :=
  (if list_eq_dec N.eq_dec (map fst l) overload_ids then true else false) && forallb (fun p => snd p) l.

(* ---------------------------------- operator>> for std::vector<T> and std::string *)
(* statement shapes of the two read overloads that own a destination *)
Inductive rstmt :=
| RReadLen          (* buf >> sz;                                               *)
| RResize           (* rh.resize(sz);                                           *)
| RReserve          (* rh.reserve(sz);                                          *)
| RClear            (* rh.clear();                                              *)
| RFillLoop         (* for (i = 0; i < sz; ++i) buf >> rh[i];                   *)
| RAppendLoop       (* for (i = 0; i < sz; ++i) { T x; buf >> x; rh.push_back(x); } *)
| RReadBytes        (* buf.read(rh.data(), sz);                                 *)
| RReturn
| RUnknown.

(* vector: the destination is the list of elements it holds *)
Fixpoint exec_vecread (ss : list rstmt) (sh' : shape) (sz : Z) (dst : list value) (r : reader) : rres value :=
  match ss with
  | [] => ROk (VVec dst) r
  | s :: ss' =>
      match s with
      | RReadLen => rbind (rd_read r true 8) (fun szb r1 => exec_vecread ss' sh' (le_val szb) dst r1)
      | RResize => exec_vecread ss' sh' sz (resize_list dst (Z.to_nat sz) (default_value sh')) r
      | RReserve => exec_vecread ss' sh' sz dst r
      | RClear => exec_vecread ss' sh' sz [] r
      | RFillLoop =>
          if Nat.ltb (length dst) (Z.to_nat sz) then ROob        (* rh[i] past the end *)
          else rbind (rep_into (get_into sh') (firstn (Z.to_nat sz) dst) r) (fun vs r2 =>
               exec_vecread ss' sh' sz (vs ++ skipn (Z.to_nat sz) dst) r2)
      | RAppendLoop =>
          rbind (rep_get (get sh') (Z.to_nat sz) r) (fun vs r2 => exec_vecread ss' sh' sz (dst ++ vs) r2)
      | RReturn => ROk (VVec dst) r
      | _ => ROob
      end
  end.

Definition exp_vec_read : list rstmt := [RReadLen; RResize; RFillLoop; RReturn].

Lemma exp_vec_read_ok sh' old r :
  exec_vecread exp_vec_read sh' 0 (old_elems old) r = get_into (SVec sh') old r.
Proof.
  unfold exp_vec_read. cbn [exec_vecread get_into].
  destruct (rd_read r true 8) as [| |szb r1]; cbn [rbind]; try reflexivity. cbv zeta.
  set (olds := resize_list (old_elems old) (Z.to_nat (le_val szb)) (default_value sh')).
  assert (L : length olds = Z.to_nat (le_val szb)) by apply resize_list_length.
  rewrite L, Nat.ltb_irrefl. rewrite <- L, firstn_all, skipn_all.
  destruct (rep_into (get_into sh') olds r1) as [| |vs r2]; cbn [rbind]; try reflexivity.
  now rewrite app_nil_r.
Qed.

(* the append-based shape is get_into_vec_append, i.e. NOT the specified reader *)
Lemma append_shape_is_append sh' old r :
  exec_vecread [RReadLen; RReserve; RAppendLoop; RReturn] sh' 0 (old_elems old) r = get_into_vec_append sh' old r.
Proof.
  unfold get_into_vec_append. cbn [exec_vecread].
  destruct (rd_read r true 8) as [| |szb r1]; cbn [rbind]; try reflexivity.
Qed.

(* string: the destination is its characters *)
Fixpoint exec_strread (ss : list rstmt) (sz : Z) (dst : list N) (r : reader) : rres value :=
  match ss with
  | [] => ROk (VStr dst) r
  | s :: ss' =>
      match s with
      | RReadLen => rbind (rd_read r true 8) (fun szb r1 => exec_strread ss' (le_val szb) dst r1)
      | RResize => exec_strread ss' sz (resize_list dst (Z.to_nat sz) 0%N) r
      | RReserve => exec_strread ss' sz dst r
      | RClear => exec_strread ss' sz [] r
      | RReadBytes => rbind (rd_read r true sz) (fun bs r2 => exec_strread ss' sz (overwrite dst bs) r2)
      | RReturn => ROk (VStr dst) r
      | _ => ROob
      end
  end.

Definition exp_str_read : list rstmt := [RReadLen; RResize; RReadBytes; RReturn].

Lemma exp_str_read_ok old r : exec_strread exp_str_read 0 (old_bytes old) r = get_into SStr old r.
Proof.
  unfold exp_str_read. cbn [exec_strread get_into].
  destruct (rd_read r true 8) as [| |szb r1]; cbn [rbind]; reflexivity.
Qed.

(* -------------------------------------------- getWrittenView / FixedArrayView ownership *)
(* how FixedArrayView's constructor initialises its member [data] *)
Inductive fav_init :=
| FShareCopy        (* data(std::make_shared<FixedArray<T>>(DEREF _data)) : an own FixedArray sharing the allocation *)
| FShareSame        (* data(_data)                                   : the same shared_ptr                       *)
| FNone             (* not initialised: the view is a bare pointer                                              *)
| FUnknown.
(* where the pointer handed to setPtr comes from *)
Inductive fav_ptr := PMember | PParam | PUnknown.

(* the view holds a share of the allocation it points into: the [own] flag of Model.l_step *)
Definition fav_owns (i : fav_init) (p : fav_ptr) (shared_storage : bool) : bool :=
  match i, p with
  | (FShareCopy | FShareSame), (PMember | PParam) => shared_storage
  | _, _ => false
  end.

Lemma owning_view_is_model i p s st op : fav_owns i p s = true -> l_step (fav_owns i p s) st op = l_step true st op.
Proof. now intros ->. Qed.

(* getWrittenView() = make_shared<View>(buffer, off, size) *)
Lemma exp_wview_ok w :
  fetch (f_bytes w) (seval (fenv w None 0) (XConst 0)) (seval (fenv w None 0) XCursor) = fbw_view w.
Proof. reflexivity. Qed.

(* ------------------------------------------------ the overload set and overload selection *)
(* the eight stream operators of DataStreaming.h, by exact signature; anything else is OvOther *)
Inductive ovl :=
| OvGenericOut      (* enable_if<!is_abstract_array<T>, WriteStream&>::type operator<<(WriteStream&, const T&) *)
| OvGenericIn       (* ReadStream& operator>>(ReadStream&, T&)                                                *)
| OvVecOut          (* WriteStream& operator<<(WriteStream&, const std::vector<T>&)                           *)
| OvVecIn           (* ReadStream& operator>>(ReadStream&, std::vector<T>&)                                   *)
| OvArrOut          (* WriteStream& operator<<(WriteStream&, const utility::AbstractArray<T>&)                *)
| OvStrOut          (* WriteStream& operator<<(WriteStream&, const std::string&)                              *)
| OvCStrOut         (* WriteStream& operator<<(WriteStream&, const char* )                                    *)
| OvStrIn           (* ReadStream& operator>>(ReadStream&, std::string&)                                      *)
| OvOther.

Definition exp_overloads : list ovl :=
  [OvGenericOut; OvGenericIn; OvVecOut; OvVecIn; OvArrOut; OvStrOut; OvCStrOut; OvStrIn].

(* the write() calls an output overload issues for a value: the chunks of the model *)
Definition ovl_chunks (o : ovl) (v : value) : option (list (list N)) :=
  match o, v with
  | OvGenericOut, VRaw bs => Some [bs]
  | OvStrOut, VStr s => Some [le_bytes 8 (len s); s]
  | OvCStrOut, VStr s => Some [le_bytes 8 (len s); s]
  | OvVecOut, VVec vs => Some (le_bytes 8 (len vs) :: flat_map chunks vs)
  | OvArrOut, VArr e c bs => Some [le_bytes 8 c; bs]
  | _, _ => None
  end.

(* what an input overload computes for a static type: the get of the model *)
Definition ovl_get (o : ovl) (sh : shape) (r : reader) : option (rres value) :=
  match o, sh with
  | OvGenericIn, SRaw n => Some (get (SRaw n) r)
  | OvStrIn, SStr => Some (get SStr r)
  | OvVecIn, SVec sh' => Some (get (SVec sh') r)
  | _, _ => None
  end.

Local Open Scope N_scope.
(* value kinds of the selection matrix: 1 int  2 std::string  3 const char*  4 vector<int>
   5 vector<string>  6 vector<vector<int>>  7 AbstractArray<int>&  8 OwnedArray<int> *)
Definition out_kinds : list N := [1; 2; 3; 4; 5; 6; 7; 8].
Definition in_kinds : list N := [1; 2; 4; 5; 6].
Definition exp_out (k : N) : ovl :=
  if k =? 1 then OvGenericOut else if k =? 2 then OvStrOut else if k =? 3 then OvCStrOut
  else if k <=? 6 then OvVecOut else OvArrOut.
Definition exp_in (k : N) : ovl := if k =? 1 then OvGenericIn else if k =? 2 then OvStrIn else OvVecIn.
(* streams: 1 WriteStream&  2 BufferWriter  3 FixedBufferWriter  4 WriteSizeCalculator  5 ReadStream&  6 BufferReader *)
Definition exp_selection : list (N * N * ovl) :=
  flat_map (fun s => map (fun k => (s, k, exp_out k)) out_kinds) [1; 2; 3; 4] ++
  flat_map (fun s => map (fun k => (s, k, exp_in k)) in_kinds) [5; 6].

Definition kind_value (k : N) (v : value) : bool :=
  match v with
  | VRaw _ => k =? 1
  | VStr _ => (k =? 2) || (k =? 3)
  | VVec _ => (4 <=? k) && (k <=? 6)
  | VArr _ _ _ => (7 <=? k) && (k <=? 8)
  end.
Definition kind_shape (k : N) (sh : shape) : bool :=
  match sh with
  | SRaw _ => k =? 1
  | SStr => k =? 2
  | SVec _ => (4 <=? k) && (k <=? 6)
  | SArr _ => false
  end.

Lemma exp_selection_out s k o :
  In (s, k, o) exp_selection -> s <= 4 ->
  forall v, kind_value k v = true -> ovl_chunks o v = Some (chunks v).
Proof.
  intros I Hs v Hv. unfold exp_selection in I. apply in_app_or in I as [I | I].
  - apply in_flat_map in I as (s' & _ & I). apply in_map_iff in I as (k' & E & Ik). inversion E; subst. clear E.
    unfold out_kinds in Ik. cbn [In] in Ik.
    destruct Ik as [<-|[<-|[<-|[<-|[<-|[<-|[<-|[<-|[]]]]]]]]]; destruct v; cbn in Hv; try discriminate; reflexivity.
  - apply in_flat_map in I as (s' & Is & I). apply in_map_iff in I as (k' & E & _). inversion E; subst.
    cbn [In] in Is. lia.
Qed.

Lemma exp_selection_in s k o :
  In (s, k, o) exp_selection -> 5 <= s ->
  forall sh r, kind_shape k sh = true -> ovl_get o sh r = Some (get sh r).
Proof.
  intros I Hs sh r Hk. unfold exp_selection in I. apply in_app_or in I as [I | I].
  - apply in_flat_map in I as (s' & Is & I). apply in_map_iff in I as (k' & E & _). inversion E; subst.
    cbn [In] in Is. lia.
  - apply in_flat_map in I as (s' & _ & I). apply in_map_iff in I as (k' & E & Ik). inversion E; subst. clear E.
    unfold in_kinds in Ik. cbn [In] in Ik.
    destruct Ik as [<-|[<-|[<-|[<-|[<-|[]]]]]]; destruct sh; cbn in Hk; try discriminate; reflexivity.
Qed.
Local Close Scope N_scope.
