(* C15 - proofs.  Part 2: the codec.  Reading back what was written returns the values and
   consumes exactly their bytes; every truncated stream ends in a throw; the size calculator
   and the growing writer agree with the wire format. *)
From Common Require Import Prelude.
From C15 Require Import Model Proofs.
Local Open Scope Z_scope.

(* ------------------------------------------------------------------- lists, len *)
Lemma len_app {A} (a b : list A) : len (a ++ b) = len a + len b.
Proof. unfold len. rewrite app_length. lia. Qed.

Lemma len_nil {A} : len (@nil A) = 0.
Proof. reflexivity. Qed.

Lemma len_pos {A} (l : list A) : l <> [] -> 0 < len l.
Proof. destruct l; [congruence | unfold len; simpl; lia]. Qed.

Lemma len_zero {A} (l : list A) : len l = 0 -> l = [].
Proof. destruct l; [reflexivity | unfold len; simpl; lia]. Qed.

Lemma to_nat_len {A} (l : list A) : Z.to_nat (len l) = length l.
Proof. unfold len. apply Nat2Z.id. Qed.

Lemma skipn_length_app {A} (a b : list A) : skipn (length a) (a ++ b) = b.
Proof. induction a; simpl; [reflexivity | assumption]. Qed.

Lemma firstn_length_app {A} (a b : list A) : firstn (length a) (a ++ b) = a.
Proof. induction a; simpl; [reflexivity | now f_equal]. Qed.

Lemma prefix_split {A} (a b t q : list A) :
  a ++ b = t ++ q ->
  (exists l, l <> [] /\ a = t ++ l) \/ (exists l, t = a ++ l /\ b = l ++ q).
Proof.
  revert t; induction a as [|x a IH]; intros t H.
  - right. exists t. split; [reflexivity | exact H].
  - destruct t as [|y t].
    + left. exists (x :: a). split; [discriminate | reflexivity].
    + simpl in H. injection H as -> H. destruct (IH t H) as [(l & Hl & ->) | (l & -> & ->)].
      * left. exists l. split; [assumption | reflexivity].
      * right. exists l. split; reflexivity.
Qed.

(* ---------------------------------------------------------------- size_t framing *)
Lemma le_bytes_length k x : length (le_bytes k x) = k.
Proof. revert x; induction k as [|k IH]; intro x; simpl; [reflexivity | now rewrite IH]. Qed.

Lemma le_bytes_len8 x : len (le_bytes 8 x) = 8.
Proof. unfold len. now rewrite le_bytes_length. Qed.

Lemma le_val_le_bytes k x : 0 <= x < 256 ^ Z.of_nat k -> le_val (le_bytes k x) = x.
Proof.
  revert x; induction k as [|k IH]; intros x H.
  - simpl in *. lia.
  - rewrite Nat2Z.inj_succ, Z.pow_succ_r in H by lia.
    cbn [le_bytes le_val]. rewrite IH by lia. rewrite Z2N.id by lia. lia.
Qed.

Lemma le_val_le_bytes8 x : 0 <= x < 2 ^ 64 -> le_val (le_bytes 8 x) = x.
Proof. intro H. apply le_val_le_bytes. exact H. Qed.

Lemma le_bytes8_nonnil x : le_bytes 8 x <> [].
Proof. discriminate. Qed.

(* ------------------------------------------------------------- one read, two ways *)
Definition at_ (buf : list N) (c : Z) : reader := {| r_buf := buf; r_cur := c |}.

Lemma read_ok buf pre bs rest c size :
  buf = pre ++ bs ++ rest -> len buf < 2 ^ 64 -> c = len pre -> size = len bs ->
  rd_read (at_ buf c) true size = ROk bs (at_ buf (c + size)).
Proof.
  intros Hb Hl -> ->.
  assert (Hlen : len buf = len pre + len bs + len rest) by (rewrite Hb, !len_app; lia).
  pose proof (len_nonneg pre). pose proof (len_nonneg bs). pose proof (len_nonneg rest).
  unfold rd_read, rd_read_gen, rd_throws, rd_advance, at_. cbn [r_buf r_cur].
  destruct ((len pre >? len buf) || (len bs >? len buf - len pre)) eqn:E; [exfalso; lia|].
  rewrite wrap_small by lia.
  destruct (len bs >? 0) eqn:Epos; cbn [andb].
  - unfold fetch.
    destruct ((0 <=? len pre) && (0 <=? len bs) && (len pre + len bs <=? len buf)) eqn:Ef; [|exfalso; lia].
    rewrite !to_nat_len. rewrite Hb at 1. rewrite skipn_length_app, firstn_length_app. reflexivity.
  - assert (bs = []) as -> by (apply len_zero; lia). reflexivity.
Qed.

Lemma read_throw buf c mem size :
  0 <= c <= len buf -> size > len buf - c -> rd_read (at_ buf c) mem size = RThrow.
Proof.
  intros Hc Hs. unfold rd_read, rd_read_gen, rd_throws, at_. cbn [r_buf r_cur].
  destruct ((c >? len buf) || (size >? len buf - c)) eqn:E; [reflexivity | exfalso; lia].
Qed.

(* --------------------------------------------------------- induction over values *)
Fixpoint value_ind' (P : value -> Prop)
  (hraw : forall bs, P (VRaw bs)) (hstr : forall s, P (VStr s))
  (hvec : forall vs, Forall P vs -> P (VVec vs))
  (harr : forall e c bs, P (VArr e c bs)) (v : value) {struct v} : P v :=
  match v with
  | VRaw bs => hraw bs
  | VStr s => hstr s
  | VVec vs => hvec vs ((fix go (l : list value) : Forall P l :=
                           match l with
                           | [] => Forall_nil P
                           | x :: l' => Forall_cons x (value_ind' P hraw hstr hvec harr x) (go l')
                           end) vs)
  | VArr e c bs => harr e c bs
  end.

Definition tyrel (sh : shape) (v : value) : Prop := typed sh v = true.

(* reading v where its encoding sits in the buffer returns v and advances by its size *)
Definition P_ok (v : value) : Prop :=
  forall sh buf pre rest c, tyrel sh v -> buf = pre ++ encode v ++ rest -> len buf < 2 ^ 64 -> c = len pre ->
    get sh (at_ buf c) = ROk v (at_ buf (c + len (encode v))).

(* reading v from a buffer that ends inside its encoding throws *)
Definition P_tr (v : value) : Prop :=
  forall sh buf pre t q c, tyrel sh v -> encode v = t ++ q -> q <> [] -> buf = pre ++ t -> len buf < 2 ^ 64 ->
    c = len pre -> get sh (at_ buf c) = RThrow.

Lemma rep_get_seq g n r : rep_get g n r =
  (fix loop (n : nat) (r : reader) : rres (list value) :=
     match n with
     | O => ROk [] r
     | S n' => rbind (g r) (fun v r1 => rbind (loop n' r1) (fun vs r2 => ROk (v :: vs) r2))
     end) n r.
Proof. reflexivity. Qed.

Lemma rep_get_repeat sh n r : rep_get (get sh) n r = get_seq (repeat sh n) r.
Proof.
  revert r; induction n as [|n IH]; intro r; [reflexivity|].
  cbn [rep_get repeat get_seq]. destruct (get sh r) as [| |v r1]; cbn [rbind]; try reflexivity.
  now rewrite IH.
Qed.

Ltac sd :=
  first [ assumption | reflexivity | lia
        | (repeat rewrite <- app_assoc; reflexivity)
        | (repeat rewrite len_app; rewrite ?le_bytes_len8; lia)
        | (rewrite le_bytes_len8; reflexivity) ].

Lemma seq_ok vs : Forall P_ok vs -> forall shs buf pre rest c,
  Forall2 tyrel shs vs -> buf = pre ++ encode_seq vs ++ rest -> len buf < 2 ^ 64 -> c = len pre ->
  get_seq shs (at_ buf c) = ROk vs (at_ buf (c + len (encode_seq vs))).
Proof.
  induction 1 as [|v vs Hv _ IH]; intros shs buf pre rest c Hty Hb Hl Hc.
  - inversion Hty; subst. cbn [get_seq encode_seq flat_map]. now rewrite len_nil, Z.add_0_r.
  - inversion Hty as [|sh ? shs' ? Hsh Hty']; subst shs. cbn [get_seq].
    change (encode_seq (v :: vs)) with (encode v ++ encode_seq vs) in *. subst buf.
    rewrite (Hv sh _ pre (encode_seq vs ++ rest) c Hsh) by sd.
    cbn [rbind].
    rewrite (IH shs' _ (pre ++ encode v) rest (c + len (encode v)) Hty') by sd.
    cbn [rbind]. rewrite len_app. do 2 f_equal. lia.
Qed.

Lemma seq_tr vs : Forall P_ok vs -> Forall P_tr vs -> forall shs buf pre t q c,
  Forall2 tyrel shs vs -> encode_seq vs = t ++ q -> q <> [] -> buf = pre ++ t -> len buf < 2 ^ 64 ->
  c = len pre -> get_seq shs (at_ buf c) = RThrow.
Proof.
  intros Hok. induction Hok as [|v vs Hv _ IH]; intros Htr shs buf pre t q c Hty He Hq Hb Hl Hc.
  - cbn in He. destruct t; [|discriminate]. simpl in He. congruence.
  - inversion Htr as [|? ? Hvt Htr']; subst.
    inversion Hty as [|sh ? shs' ? Hsh Hty']; subst shs. cbn [get_seq].
    change (encode_seq (v :: vs)) with (encode v ++ encode_seq vs) in He.
    destruct (prefix_split _ _ _ _ He) as [(l & Hl0 & Hel) | (l & Htl & Hrest)].
    + rewrite (Hvt sh (pre ++ t) pre t l (len pre) Hsh Hel Hl0 eq_refl Hl eq_refl). reflexivity.
    + subst t. rewrite (Hv sh _ pre l (len pre) Hsh) by sd.
      cbn [rbind].
      rewrite (IH Htr' shs' _ (pre ++ encode v) l q (len pre + len (encode v)) Hty' Hrest Hq) by sd.
      reflexivity.
Qed.

Lemma typed_vec_forall2 sh vs : forallb (typed sh) vs = true -> Forall2 tyrel (repeat sh (length vs)) vs.
Proof.
  induction vs as [|v vs IH]; simpl; intro H; [constructor|].
  apply andb_true_iff in H as [H1 H2]. constructor; [exact H1 | now apply IH].
Qed.

Lemma value_all v : P_ok v /\ P_tr v.
Proof.
  induction v as [bs | s | vs IHvs | e cnt bs] using value_ind'.
  - (* raw bytes *)
    split.
    + intros sh buf pre rest c Hty Hb Hl Hc. destruct sh as [n| | |]; try discriminate Hty.
      unfold tyrel in Hty. cbn [typed] in Hty. cbn [get encode] in *.
      rewrite (read_ok buf pre bs rest c n Hb Hl Hc) by lia. cbn [rbind]. do 2 f_equal. lia.
    + intros sh buf pre t q c Hty He Hq Hb Hl Hc. destruct sh as [n| | |]; try discriminate Hty.
      unfold tyrel in Hty. cbn [typed] in Hty. cbn [get encode] in *.
      pose proof (len_pos q Hq). pose proof (len_nonneg pre). pose proof (len_nonneg t).
      assert (len bs = len t + len q) by (rewrite He, len_app; lia).
      assert (len buf = len pre + len t) by (rewrite Hb, len_app; lia).
      rewrite read_throw by lia. reflexivity.
  - (* string *)
    split.
    + intros sh buf pre rest c Hty Hb Hl Hc. destruct sh; try discriminate Hty.
      unfold tyrel in Hty. cbn [typed] in Hty. cbn [get encode] in *.
      pose proof (len_nonneg s). subst buf.
      rewrite (read_ok _ pre (le_bytes 8 (len s)) (s ++ rest) c 8) by sd.
      cbn [rbind]. rewrite le_val_le_bytes8 by lia.
      rewrite (read_ok _ (pre ++ le_bytes 8 (len s)) s rest (c + 8) (len s)) by sd.
      cbn [rbind]. rewrite len_app, le_bytes_len8. do 2 f_equal. lia.
    + intros sh buf pre t q c Hty He Hq Hb Hl Hc. destruct sh; try discriminate Hty.
      unfold tyrel in Hty. cbn [typed] in Hty. cbn [get encode] in *.
      pose proof (len_pos q Hq). pose proof (len_nonneg pre). pose proof (len_nonneg t). pose proof (len_nonneg s).
      assert (Hlb : len buf = len pre + len t) by (rewrite Hb, len_app; lia).
      destruct (prefix_split _ _ _ _ He) as [(l & Hl0 & Hel) | (l & Htl & Hrest)].
      * apply len_pos in Hl0. assert (8 = len t + len l) by (rewrite <- (le_bytes_len8 (len s)), Hel, len_app; lia).
        rewrite read_throw by lia. reflexivity.
      * subst t buf. rewrite (len_app (le_bytes 8 _) l), le_bytes_len8 in Hlb. pose proof (len_nonneg l).
        rewrite (read_ok _ pre (le_bytes 8 (len s)) l c 8) by sd.
        cbn [rbind]. rewrite le_val_le_bytes8 by lia.
        assert (len s = len l + len q) by (rewrite Hrest, len_app; lia).
        rewrite read_throw by lia. reflexivity.
  - (* vector *)
    assert (Hoks : Forall P_ok vs) by (eapply Forall_impl; [|exact IHvs]; now intros a [H _]).
    assert (Htrs : Forall P_tr vs) by (eapply Forall_impl; [|exact IHvs]; now intros a [_ H]).
    split.
    + intros sh buf pre rest c Hty Hb Hl Hc. destruct sh as [| |sh'|]; try discriminate Hty.
      unfold tyrel in Hty. cbn [typed] in Hty. apply andb_true_iff in Hty as [Hn Hall].
      apply typed_vec_forall2 in Hall.
      cbn [get encode] in *. pose proof (len_nonneg vs). subst buf.
      rewrite (read_ok _ pre (le_bytes 8 (len vs)) (flat_map encode vs ++ rest) c 8) by sd.
      cbn [rbind]. rewrite le_val_le_bytes8 by lia. rewrite to_nat_len, rep_get_repeat.
      rewrite (seq_ok vs Hoks (repeat sh' (length vs)) _ (pre ++ le_bytes 8 (len vs)) rest (c + 8)) by sd.
      cbn [rbind]. unfold encode_seq. rewrite len_app, le_bytes_len8. do 2 f_equal. lia.
    + intros sh buf pre t q c Hty He Hq Hb Hl Hc. destruct sh as [| |sh'|]; try discriminate Hty.
      unfold tyrel in Hty. cbn [typed] in Hty. apply andb_true_iff in Hty as [Hn Hall].
      apply typed_vec_forall2 in Hall.
      cbn [get encode] in *.
      pose proof (len_pos q Hq). pose proof (len_nonneg pre). pose proof (len_nonneg t). pose proof (len_nonneg vs).
      assert (Hlb : len buf = len pre + len t) by (rewrite Hb, len_app; lia).
      destruct (prefix_split _ _ _ _ He) as [(l & Hl0 & Hel) | (l & Htl & Hrest)].
      * apply len_pos in Hl0. assert (8 = len t + len l) by (rewrite <- (le_bytes_len8 (len vs)), Hel, len_app; lia).
        rewrite read_throw by lia. reflexivity.
      * subst t buf.
        rewrite (read_ok _ pre (le_bytes 8 (len vs)) l c 8) by sd.
        cbn [rbind]. rewrite le_val_le_bytes8 by lia. rewrite to_nat_len, rep_get_repeat.
        rewrite (seq_tr vs Hoks Htrs (repeat sh' (length vs)) _ (pre ++ le_bytes 8 (len vs)) l q (c + 8)) by sd.
        reflexivity.
  - (* array wrapper *)
    split.
    + intros sh buf pre rest c Hty Hb Hl Hc. destruct sh as [| | |e']; try discriminate Hty.
      unfold tyrel in Hty. cbn [typed] in Hty. cbn [get encode] in *.
      assert (He : e = e') by lia. subst e'.
      assert (Hcnt : 0 <= cnt < 2 ^ 64) by nia. subst buf.
      rewrite (read_ok _ pre (le_bytes 8 cnt) (bs ++ rest) c 8) by sd.
      cbn [rbind]. cbv zeta. rewrite le_val_le_bytes8 by lia.
      rewrite (wrap_small (e * cnt)) by lia.
      rewrite (read_ok _ (pre ++ le_bytes 8 cnt) bs rest (c + 8) (e * cnt)) by sd.
      cbn [rbind]. rewrite len_app, le_bytes_len8. do 2 f_equal. lia.
    + intros sh buf pre t q c Hty He Hq Hb Hl Hc. destruct sh as [| | |e']; try discriminate Hty.
      unfold tyrel in Hty. cbn [typed] in Hty. cbn [get encode] in *.
      assert (Hee : e = e') by lia. subst e'.
      assert (Hcnt : 0 <= cnt < 2 ^ 64) by nia.
      pose proof (len_pos q Hq). pose proof (len_nonneg pre). pose proof (len_nonneg t).
      assert (Hlb : len buf = len pre + len t) by (rewrite Hb, len_app; lia).
      destruct (prefix_split _ _ _ _ He) as [(l & Hl0 & Hel) | (l & Htl & Hrest)].
      * apply len_pos in Hl0. assert (8 = len t + len l) by (rewrite <- (le_bytes_len8 cnt), Hel, len_app; lia).
        rewrite read_throw by lia. reflexivity.
      * subst t buf. rewrite (len_app (le_bytes 8 _) l), le_bytes_len8 in Hlb. pose proof (len_nonneg l).
        rewrite (read_ok _ pre (le_bytes 8 cnt) l c 8) by sd.
        cbn [rbind]. cbv zeta. rewrite le_val_le_bytes8 by lia. rewrite (wrap_small (e * cnt)) by lia.
        assert (len bs = len l + len q) by (rewrite Hrest, len_app; lia).
        rewrite read_throw by lia. reflexivity.
Qed.

Lemma all_ok vs : Forall P_ok vs.
Proof. apply Forall_forall. intros v _. apply value_all. Qed.
Lemma all_tr vs : Forall P_tr vs.
Proof. apply Forall_forall. intros v _. apply value_all. Qed.

(* ------------------------------------------------------------------ the theorems *)
Lemma decode_encode sh v r :
  typed sh v = true -> len (encode v ++ r) < 2 ^ 64 -> decode sh (encode v ++ r) = Some (v, r).
Proof.
  intros Hty Hl. unfold decode, reader_of.
  destruct (value_all v) as [Hok _].
  change {| r_buf := encode v ++ r; r_cur := 0 |} with (at_ (encode v ++ r) 0).
  rewrite (Hok sh (encode v ++ r) [] r 0 Hty eq_refl Hl eq_refl).
  unfold at_. cbn [r_cur]. rewrite Z.add_0_l, to_nat_len, skipn_length_app. reflexivity.
Qed.

Lemma seq_roundtrip shs vs r :
  Forall2 (fun sh v => typed sh v = true) shs vs -> len (encode_seq vs ++ r) < 2 ^ 64 ->
  decode_seq shs (encode_seq vs ++ r) = Some (vs, r) /\
  exists rd, get_seq shs (reader_of (encode_seq vs ++ r)) = ROk vs rd /\
             r_buf rd = encode_seq vs ++ r /\ r_cur rd = len (encode_seq vs).
Proof.
  intros Hty Hl. unfold decode_seq, reader_of.
  change {| r_buf := encode_seq vs ++ r; r_cur := 0 |} with (at_ (encode_seq vs ++ r) 0).
  rewrite (seq_ok vs (all_ok vs) shs (encode_seq vs ++ r) [] r 0 Hty eq_refl Hl eq_refl).
  unfold at_. cbn [r_cur]. rewrite Z.add_0_l, to_nat_len, skipn_length_app. split; [reflexivity|].
  eexists. split; [reflexivity|]. split; reflexivity.
Qed.

Lemma typed_encode_nonnil sh v : typed sh v = true -> encode v <> [].
Proof.
  destruct v as [bs| s | vs | e c bs]; destruct sh; try discriminate; cbn [typed encode]; intro H.
  intro E. subst bs. rewrite len_nil in H. lia.
Qed.

Lemma encode_seq_nil_iff shs vs :
  Forall2 (fun sh v => typed sh v = true) shs vs -> (encode_seq vs = [] <-> vs = []).
Proof.
  intro H. split; [|now intros ->].
  destruct H as [|sh v shs vs Hv _]; [reflexivity|].
  intro E. change (encode_seq (v :: vs)) with (encode v ++ encode_seq vs) in E.
  apply app_eq_nil in E as [E _]. now apply typed_encode_nonnil in Hv.
Qed.

(* end() becomes true exactly after the last value: after reading the first values vs1 of
   vs1 ++ vs2, end() holds iff nothing is left to read *)
Lemma end_iff_consumed shs1 shs2 vs1 vs2 :
  Forall2 (fun sh v => typed sh v = true) shs1 vs1 ->
  Forall2 (fun sh v => typed sh v = true) shs2 vs2 ->
  len (encode_seq (vs1 ++ vs2)) < 2 ^ 64 ->
  exists rd, get_seq shs1 (reader_of (encode_seq (vs1 ++ vs2))) = ROk vs1 rd /\
             r_cur rd = len (encode_seq vs1) /\
             (rd_end rd = true <-> vs2 = []) /\
             get_seq shs2 rd = ROk vs2 {| r_buf := r_buf rd; r_cur := len (encode_seq (vs1 ++ vs2)) |}.
Proof.
  intros H1 H2 Hl.
  assert (E : encode_seq (vs1 ++ vs2) = encode_seq vs1 ++ encode_seq vs2) by (unfold encode_seq; apply flat_map_app).
  rewrite E in *.
  destruct (seq_roundtrip shs1 vs1 (encode_seq vs2) H1 Hl) as (_ & rd & Hg & Hb & Hc).
  exists rd. split; [exact Hg|]. split; [exact Hc|]. split.
  - unfold rd_end. rewrite Hb, Hc, len_app.
    rewrite <- (encode_seq_nil_iff shs2 vs2 H2). pose proof (len_nonneg (encode_seq vs2)).
    split; intro Hx.
    + apply len_zero. lia.
    + rewrite Hx, len_nil. lia.
  - destruct rd as [b c]. cbn [r_buf r_cur] in *. subst b c.
    change {| r_buf := encode_seq vs1 ++ encode_seq vs2; r_cur := len (encode_seq vs1) |}
      with (at_ (encode_seq vs1 ++ encode_seq vs2) (len (encode_seq vs1))).
    rewrite (seq_ok vs2 (all_ok vs2) shs2 _ (encode_seq vs1) [] (len (encode_seq vs1)) H2)
      by (try assumption; try reflexivity; now rewrite app_nil_r).
    rewrite len_app. reflexivity.
Qed.

(* every strict prefix of the stream: the same reading sequence ends in a throw *)
Lemma truncated_throws shs vs p q :
  Forall2 (fun sh v => typed sh v = true) shs vs ->
  encode_seq vs = p ++ q -> q <> [] -> len p < 2 ^ 64 ->
  get_seq shs (reader_of p) = RThrow /\ decode_seq shs p = None.
Proof.
  intros Hty He Hq Hl.
  assert (G : get_seq shs (reader_of p) = RThrow).
  { unfold reader_of. change {| r_buf := p; r_cur := 0 |} with (at_ ([] ++ p) (len (@nil N))).
    apply (seq_tr vs (all_ok vs) (all_tr vs) shs ([] ++ p) [] p q); try assumption; reflexivity. }
  split; [exact G|]. unfold decode_seq. now rewrite G.
Qed.

(* --------------------------------------------- WriteSizeCalculator / BufferWriter *)
Lemma chunks_concat v : concat (chunks v) = encode v.
Proof.
  induction v as [bs | s | vs IH | e c bs] using value_ind'; cbn [chunks encode concat].
  - apply app_nil_r.
  - now rewrite app_nil_r.
  - f_equal. induction IH as [|v vs Hv _ IHl]; [reflexivity|].
    cbn [flat_map]. now rewrite concat_app, Hv, IHl.
  - now rewrite app_nil_r.
Qed.

Lemma chunks_seq_concat vs : concat (flat_map chunks vs) = encode_seq vs.
Proof.
  induction vs as [|v vs IH]; [reflexivity|].
  cbn [flat_map]. rewrite concat_app, chunks_concat, IH. reflexivity.
Qed.

Lemma wrap_add_l a b : wrap (wrap a + b) = wrap (a + b).
Proof. unfold wrap. apply Zplus_mod_idemp_l. Qed.

Lemma wsc_fold (cs : list (list N)) t :
  fold_left (fun t c => wsc_write t (len c)) cs (wrap t) = wrap (t + len (concat cs)).
Proof.
  revert t; induction cs as [|c cs IH]; intro t; cbn [fold_left concat].
  - now rewrite len_nil, Z.add_0_r.
  - unfold wsc_write at 2. rewrite wrap_add_l, IH, len_app. f_equal. lia.
Qed.

Lemma size_calculator vs :
  wsc_put_seq vs = wrap (len (encode_seq vs)) /\
  (len (encode_seq vs) < 2 ^ 64 -> wsc_put_seq vs = len (encode_seq vs)).
Proof.
  assert (E : wsc_put_seq vs = wrap (len (encode_seq vs))).
  { unfold wsc_put_seq. change 0 with (wrap 0) at 1. rewrite wsc_fold, chunks_seq_concat. reflexivity. }
  split; [exact E|]. intro H. rewrite E. apply wrap_small. pose proof (len_nonneg (encode_seq vs)). lia.
Qed.

Lemma bw_write_app buf c :
  len buf + len c < 2 ^ 64 -> bw_write buf (Some c) (len c) = Some (buf ++ c).
Proof.
  intro H. pose proof (len_nonneg buf). pose proof (len_nonneg c).
  unfold bw_write. cbv zeta. rewrite wrap_small by lia.
  assert (R : resize buf (len buf + len c) = buf ++ repeat 0%N (length c)).
  { unfold resize. rewrite firstn_all2 by (unfold len; lia). f_equal. f_equal. unfold len. lia. }
  rewrite R. destruct (len c >? 0) eqn:Ec.
  - unfold store.
    assert (Hl : len (buf ++ repeat 0%N (length c)) = len buf + len c).
    { rewrite len_app. unfold len at 2 3. now rewrite repeat_length. }
    destruct ((0 <=? len buf) && (len buf + len c <=? len (buf ++ repeat 0%N (length c)))) eqn:Es; [|exfalso; lia].
    rewrite to_nat_len, firstn_length_app.
    rewrite skipn_all2 by (rewrite app_length, repeat_length; unfold len; lia).
    now rewrite app_nil_r.
  - assert (c = []) as -> by (apply len_zero; lia). simpl. now rewrite !app_nil_r.
Qed.

Lemma bw_chunks_app cs buf :
  len buf + len (concat cs) < 2 ^ 64 -> bw_write_chunks cs buf = Some (buf ++ concat cs).
Proof.
  unfold bw_write_chunks. revert buf; induction cs as [|c cs IH]; intros buf H; cbn [fold_left concat].
  - now rewrite app_nil_r.
  - cbn [concat] in H. rewrite len_app in H. pose proof (len_nonneg (concat cs)). pose proof (len_nonneg c).
    rewrite bw_write_app by lia. rewrite IH by (rewrite len_app; lia). now rewrite app_assoc.
Qed.

(* BufferWriter holds exactly the wire format of what was streamed into it *)
Lemma writer_emits_encoding vs :
  len (encode_seq vs) < 2 ^ 64 -> bw_put_seq vs = Some (encode_seq vs).
Proof.
  intro H. unfold bw_put_seq. rewrite bw_chunks_app by (rewrite chunks_seq_concat; unfold len at 1; simpl; lia).
  now rewrite chunks_seq_concat.
Qed.

(* write then read: the composition the property speaks about *)
Lemma write_read_roundtrip shs vs :
  Forall2 (fun sh v => typed sh v = true) shs vs -> len (encode_seq vs) < 2 ^ 64 ->
  exists bytes rd,
    bw_put_seq vs = Some bytes /\ wsc_put_seq vs = len bytes /\
    get_seq shs (reader_of bytes) = ROk vs rd /\ r_cur rd = len bytes /\ rd_end rd = true.
Proof.
  intros Hty Hl. exists (encode_seq vs).
  assert (Hl' : len (encode_seq vs ++ []) < 2 ^ 64) by now rewrite app_nil_r.
  destruct (seq_roundtrip shs vs [] Hty Hl') as (_ & rd & Hg & Hb & Hc). rewrite app_nil_r in *.
  exists rd. split; [now apply writer_emits_encoding|]. split; [now apply size_calculator|].
  split; [exact Hg|]. split; [exact Hc|]. unfold rd_end. rewrite Hb, Hc. lia.
Qed.
