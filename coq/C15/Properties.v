(* C15 - property theorems only.  Each is closed by [exact] of a lemma from the Proofs
   files and followed by Print Assumptions; Examples pin the statements to concrete
   inputs and show that the hypotheses are satisfiable. *)
From Common Require Import Prelude.
From C15 Require Import Model Proofs ProofsCodec ProofsFixed ProofsInto ProofsLife ProofsHist.
Local Open Scope Z_scope.

(* ================================================================= round trip *)

(* decode_encode: for a value v of the static type sh (raw bytes of sizeof(T) / string /
   vector, nested, of strings / array wrapper) reading back its wire format returns v and
   leaves exactly the bytes that follow it *)
Theorem decode_encode : forall sh v r,
  typed sh v = true -> len (encode v ++ r) < 2 ^ 64 -> decode sh (encode v ++ r) = Some (v, r).
Proof. exact ProofsCodec.decode_encode. Qed.
Print Assumptions decode_encode.

(* seq_roundtrip: the same for a sequence of values read back in the same order; the cursor
   ends exactly behind the bytes written *)
Theorem seq_roundtrip : forall shs vs r,
  Forall2 (fun sh v => typed sh v = true) shs vs -> len (encode_seq vs ++ r) < 2 ^ 64 ->
  decode_seq shs (encode_seq vs ++ r) = Some (vs, r) /\
  exists rd, get_seq shs (reader_of (encode_seq vs ++ r)) = ROk vs rd /\
             r_buf rd = encode_seq vs ++ r /\ r_cur rd = len (encode_seq vs).
Proof. exact ProofsCodec.seq_roundtrip. Qed.
Print Assumptions seq_roundtrip.

(* end_iff_consumed: after reading the first values vs1 of the stream of vs1 ++ vs2, end() is
   true exactly when no value is left; the remaining values are then read up to the last byte *)
Theorem end_iff_consumed : forall shs1 shs2 vs1 vs2,
  Forall2 (fun sh v => typed sh v = true) shs1 vs1 ->
  Forall2 (fun sh v => typed sh v = true) shs2 vs2 ->
  len (encode_seq (vs1 ++ vs2)) < 2 ^ 64 ->
  exists rd, get_seq shs1 (reader_of (encode_seq (vs1 ++ vs2))) = ROk vs1 rd /\
             r_cur rd = len (encode_seq vs1) /\
             (rd_end rd = true <-> vs2 = []) /\
             get_seq shs2 rd = ROk vs2 {| r_buf := r_buf rd; r_cur := len (encode_seq (vs1 ++ vs2)) |}.
Proof. exact ProofsCodec.end_iff_consumed. Qed.
Print Assumptions end_iff_consumed.

(* size_calculator: WriteSizeCalculator predicts the byte count *)
Theorem size_calculator : forall vs,
  wsc_put_seq vs = wrap (len (encode_seq vs)) /\
  (len (encode_seq vs) < 2 ^ 64 -> wsc_put_seq vs = len (encode_seq vs)).
Proof. exact ProofsCodec.size_calculator. Qed.
Print Assumptions size_calculator.

(* the growing BufferWriter holds exactly the wire format (resize + memcpy per chunk) *)
Theorem writer_emits_encoding : forall vs,
  len (encode_seq vs) < 2 ^ 64 -> bw_put_seq vs = Some (encode_seq vs).
Proof. exact ProofsCodec.writer_emits_encoding. Qed.
Print Assumptions writer_emits_encoding.

(* the composition the property speaks about: write through a WriteStream, read back *)
Theorem write_read_roundtrip : forall shs vs,
  Forall2 (fun sh v => typed sh v = true) shs vs -> len (encode_seq vs) < 2 ^ 64 ->
  exists bytes rd,
    bw_put_seq vs = Some bytes /\ wsc_put_seq vs = len bytes /\
    get_seq shs (reader_of bytes) = ROk vs rd /\ r_cur rd = len bytes /\ rd_end rd = true.
Proof. exact ProofsCodec.write_read_roundtrip. Qed.
Print Assumptions write_read_roundtrip.

(* truncated_throws: for every strict prefix of the byte stream the same reading sequence
   ends in a throw (never in an out-of-bounds access, never in a value) *)
Theorem truncated_throws : forall shs vs p q,
  Forall2 (fun sh v => typed sh v = true) shs vs ->
  encode_seq vs = p ++ q -> q <> [] -> len p < 2 ^ 64 ->
  get_seq shs (reader_of p) = RThrow /\ decode_seq shs p = None.
Proof. exact ProofsCodec.truncated_throws. Qed.
Print Assumptions truncated_throws.

(* a string, a vector of strings (one empty), a nested vector, an array of three 2-byte
   elements and a raw u32 *)
Definition ex_shapes : list shape := [SStr; SVec SStr; SVec (SVec (SRaw 1)); SArr 2; SRaw 4].
Definition ex_values : list value :=
  [VStr [104; 105]%N; VVec [VStr []; VStr [97]%N];
   VVec [VVec [VRaw [1]%N; VRaw [2]%N]; VVec []]; VArr 2 3 [1; 2; 3; 4; 5; 6]%N; VRaw [9; 8; 7; 6]%N].
Example roundtrip_example :
  forallb (fun p => typed (fst p) (snd p)) (combine ex_shapes ex_values) = true /\
  len (encode_seq ex_values) = 79 /\ wsc_put_seq ex_values = 79 /\
  bw_put_seq ex_values = Some (encode_seq ex_values) /\
  decode_seq ex_shapes (encode_seq ex_values) = Some (ex_values, []) /\
  decode_seq ex_shapes (firstn 78 (encode_seq ex_values)) = None /\
  decode_seq ex_shapes (firstn 17 (encode_seq ex_values)) = None.
Proof. vm_compute. repeat split; reflexivity. Qed.

(* ============================================== reading into existing objects *)

(* destination_independent: operator>> reads INTO the object it is given (memcpy over a POD,
   resize-then-fill for strings and vectors - element by element into the elements the
   destination holds after the resize -, reset for array wrappers); whatever that object held
   before, the result is what the fresh reader returns *)
Theorem destination_independent : forall sh old r, get_into sh old r = get sh r.
Proof. exact ProofsInto.get_into_eq. Qed.
Print Assumptions destination_independent.

(* read_into old (encode v ++ r) = (v, r) for EVERY old: stale content is gone *)
Theorem read_into_encode : forall sh v r old,
  typed sh v = true -> len (encode v ++ r) < 2 ^ 64 -> read_into sh old (encode v ++ r) = Some (v, r).
Proof. exact ProofsInto.read_into_encode. Qed.
Print Assumptions read_into_encode.

(* a sequence read into pre-filled destinations [olds], and the same stream read a second time
   into the same destination objects (now holding [olds2], whatever the first pass left) *)
Theorem seq_read_into : forall shs vs r olds olds2,
  Forall2 (fun sh v => typed sh v = true) shs vs -> len (encode_seq vs ++ r) < 2 ^ 64 ->
  exists rd, get_into_seq shs olds (reader_of (encode_seq vs ++ r)) = ROk vs rd /\
             r_cur rd = len (encode_seq vs) /\
             get_into_seq shs olds2 (reader_of (encode_seq vs ++ r)) = ROk vs rd.
Proof. exact ProofsInto.seq_read_into. Qed.
Print Assumptions seq_read_into.

(* reserve + push_back instead of resize + rh[i]: correct only for an empty destination ... *)
Theorem vec_append_fresh_ok : forall sh' r, get_into_vec_append sh' (VVec []) r = get (SVec sh') r.
Proof. exact ProofsInto.vec_append_fresh_ok. Qed.
Print Assumptions vec_append_fresh_ok.

(* ... and wrong for a reused one: [7] read over by the stream of [1] gives [7; 1] *)
Theorem vec_append_refuted :
  exists sh' old v, typed (SVec sh') v = true /\ typed (SVec sh') old = true /\
    get_into (SVec sh') old (reader_of (encode v)) = ROk v {| r_buf := encode v; r_cur := len (encode v) |} /\
    exists v', get_into_vec_append sh' old (reader_of (encode v)) = ROk v' {| r_buf := encode v; r_cur := len (encode v) |} /\ v' <> v.
Proof. exact ProofsInto.vec_append_refuted. Qed.
Print Assumptions vec_append_refuted.

(* a vector of two strings read into a destination that held three longer ones; an empty
   vector read into a non-empty one *)
Example read_into_example :
  read_into (SVec SStr) (VVec [VStr [1; 2; 3]%N; VStr [4; 5; 6; 7]%N; VStr [8]%N])
            (encode (VVec [VStr [97]%N; VStr []])) = Some (VVec [VStr [97]%N; VStr []], []) /\
  read_into (SVec (SRaw 1)) (VVec [VRaw [9]%N]) (encode (VVec [])) = Some (VVec [], []).
Proof. vm_compute. split; reflexivity. Qed.

(* ====================================================================== reader *)

(* reads_in_bounds: an accepted read never touches memory outside the buffer,
   for every requested size (up to 2^64-1) and every cursor *)
Theorem reads_in_bounds : forall r mem size,
  0 <= size -> 0 <= r_cur r -> rd_read r mem size <> ROob.
Proof. exact rd_read_no_oob. Qed.
Print Assumptions reads_in_bounds.

Theorem read_throws_iff : forall r mem size,
  0 <= size -> 0 <= r_cur r <= len (r_buf r) ->
  (rd_read r mem size = RThrow <-> r_cur r + size > len (r_buf r)).
Proof. exact rd_read_throws_iff. Qed.
Print Assumptions read_throws_iff.

(* view_in_bounds: the extent of a view that getView hands out lies inside the buffer *)
Theorem view_in_bounds : forall r count off sz r',
  0 <= count < 2 ^ 64 -> 0 <= r_cur r -> len (r_buf r) < 2 ^ 64 ->
  rd_view r count = ROk (off, sz) r' ->
  0 <= off /\ 0 <= sz /\ off + sz <= len (r_buf r) /\ sz = count /\
  r_cur r' = r_cur r + count /\ r_buf r' = r_buf r.
Proof. exact rd_view_in_bounds. Qed.
Print Assumptions view_in_bounds.

Theorem view_throws_iff : forall r count,
  0 <= count < 2 ^ 64 -> 0 <= r_cur r <= len (r_buf r) ->
  (rd_view r count = RThrow <-> r_cur r + count > len (r_buf r)).
Proof. exact rd_view_throws_iff. Qed.
Print Assumptions view_throws_iff.

(* the check of /repo before the repair (cursor + size > size(), computed in size_t) let a
   request of 2^64-4 bytes at cursor 8 through *)
Theorem reader_wrap_old_refuted :
  exists r size,
    0 <= size < 2 ^ 64 /\ 0 <= r_cur r <= len (r_buf r) /\ r_cur r + size > len (r_buf r) /\
    rd_read_old r true size = ROob /\ rd_read r true size = RThrow /\
    (exists off sz r', rd_view_old r size = ROk (off, sz) r' /\ off + sz > len (r_buf r)) /\
    rd_view r size = RThrow.
Proof. exact ProofsFixed.reader_wrap_old_refuted. Qed.
Print Assumptions reader_wrap_old_refuted.

(* ============================================================ FixedBufferWriter *)

(* fixed_accept_iff_fits: write/reserve succeed exactly when size <= cap - cursor;
   a rejected call throws and changes nothing; an accepted one advances the cursor
   by exactly size and writes inside the buffer *)
Theorem fixed_accept_iff_fits : forall w o,
  fbw_inv w -> fop_ok o ->
  let (w', out) := fbw_step w o in
  (accepted out <-> fop_size o <= f_cap w - f_cur w) /\
  (~ accepted out -> out = FThrow /\ w' = w) /\
  (accepted out -> f_cur w' = f_cur w + fop_size o /\ f_cap w' = f_cap w /\ fbw_inv w' /\
                   out = match o with FWrite _ _ => FOk | FReserve _ _ => FPtr (f_cur w) end).
Proof. exact fbw_step_spec. Qed.
Print Assumptions fixed_accept_iff_fits.

(* one step of the invariant: the buffer is the log of accepted data followed by the
   untouched rest of the initial storage; an accepted call appends its data to the log, a
   rejected one changes nothing *)
Theorem fixed_step_log : forall init w log o,
  view_ok init w log -> fop_ok o ->
  let (w', out) := fbw_step w o in
  view_ok init w' (if accepted_b out then log ++ fop_data w o else log) /\
  (accepted_b out = true <-> fop_size o <= f_cap w - f_cur w) /\
  (accepted_b out = false -> out = FThrow /\ w' = w).
Proof. exact ProofsFixed.fbw_step_log. Qed.
Print Assumptions fixed_step_log.

(* fixed_view_exact: after EVERY history of write/reserve calls on FixedBufferWriter(cap):
   capacity() = cap, available() = cap - cursor, getWrittenView() = the first cursor bytes =
   the data of the accepted calls in order, and the bytes behind the cursor are untouched *)
Theorem fixed_view_exact : forall cap bg ops,
  0 <= cap < 2 ^ 64 -> Forall fop_ok ops ->
  let w := fbw_run (fbw_init cap bg) ops in
  let log := snd (fbw_trace (fbw_init cap bg) [] ops) in
  fbw_capacity w = cap /\ fbw_available w = cap - len log /\ f_cur w = len log /\
  fbw_view w = Some log /\
  f_bytes w = log ++ repeat bg (Z.to_nat (cap - len log)).
Proof. exact ProofsFixed.fixed_view_exact. Qed.
Print Assumptions fixed_view_exact.

(* the check of /repo before the repair (cursor + size >= size()) rejected an exact fit *)
Theorem fixed_exact_fit_old_refuted :
  exists w o,
    fbw_inv w /\ fop_ok o /\ fop_size o <= f_cap w - f_cur w /\
    fbw_step_old w o = (w, FThrow) /\ snd (fbw_step w o) = FOk.
Proof. exact ProofsFixed.fixed_exact_fit_old_refuted. Qed.
Print Assumptions fixed_exact_fit_old_refuted.

(* capacity 4: write 3 bytes, a 2-byte write is rejected, reserve 1 (exact fit), then full *)
Example fixed_history_example :
  let ops := [FWrite (Some [1; 2; 3]%N) 3; FWrite (Some [4; 5]%N) 2; FReserve 1 (Some [6]%N); FWrite None 1] in
  Forall fop_ok ops /\
  fbw_trace (fbw_init 4 238%N) [] ops = ({| f_bytes := [1; 2; 3; 6]%N; f_cur := 4 |}, [1; 2; 3; 6]%N) /\
  fbw_available (fbw_run (fbw_init 4 238%N) ops) = 0 /\
  fbw_view (fbw_run (fbw_init 4 238%N) ops) = Some [1; 2; 3; 6]%N.
Proof.
  split; [repeat constructor; vm_compute; try discriminate; reflexivity|].
  vm_compute. repeat split; reflexivity.
Qed.

(* ================================================ lifetime of getWrittenView() results *)

(* one step of any history (write, reserve, getWrittenView, destruction of the writer, a re-seated
   buffer): the ownership invariant is kept - every view points into a live allocation - and every
   view handed out before reads exactly what it read before *)
Theorem view_step_stable : forall st op,
  l_inv st -> lop_ok op ->
  let st' := fst (l_step true st op) in
  l_inv st' /\
  (forall v, In v (l_views st) -> In v (l_views st') /\ l_read_view st' v = l_read_view st v).
Proof. exact ProofsLife.l_step_views. Qed.
Print Assumptions view_step_stable.

(* view_alive -> buffer_alive: a view that exists never reads released storage *)
Theorem view_reads_live_storage : forall st v, l_inv st -> In v (l_views st) ->
  exists bs, l_read_view st v = Some bs /\ len bs = snd v.
Proof. exact ProofsLife.l_inv_read. Qed.
Print Assumptions view_reads_live_storage.

(* view_outlives_writer: after ANY history ops1 on FixedBufferWriter(cap), v = getWrittenView() taken
   at cursor cur, then ANY further history ops2 (incl. destroying the writer or re-seating its
   buffer): v still reads exactly what getWrittenView described - the first cur bytes written *)
Theorem view_outlives_writer : forall cap bg ops1 ops2 i cur bytes,
  0 <= cap < 2 ^ 64 -> Forall lop_ok ops1 -> Forall lop_ok ops2 ->
  let st1 := l_run true (l_init cap bg) ops1 in
  l_wr st1 = Some (i, cur) -> l_heap st1 i = Some bytes ->
  let st2 := l_run true (fst (l_step true st1 LView)) ops2 in
  In (i, cur) (l_views st2) /\
  l_read_view st2 (i, cur) = fbw_view {| f_bytes := bytes; f_cur := cur |} /\
  exists bs, l_read_view st2 (i, cur) = Some bs /\ len bs = cur.
Proof. exact ProofsLife.view_outlives_writer. Qed.
Print Assumptions view_outlives_writer.

(* a non-owning view (a bare pointer into the writer's storage) dangles once the writer is gone *)
Theorem view_nonowning_refuted :
  exists cap bg ops v,
    Forall lop_ok ops /\ In v (l_views (l_run false (l_init cap bg) ops)) /\
    l_read_view (l_run false (l_init cap bg) ops) v = None /\
    l_read_view (l_run true (l_init cap bg) ops) v = Some [65%N].
Proof. exact ProofsLife.view_nonowning_refuted. Qed.
Print Assumptions view_nonowning_refuted.

(* write "AB", take a view, re-seat the buffer, write "C", take a second view, destroy the writer:
   the first view still reads "AB", the second "C" *)
Example view_lifetime_example :
  let ops := [LStep (FWrite (Some [65; 66]%N) 2); LView; LReseat 3 119%N; LStep (FWrite (Some [67%N]) 1); LView; LKill] in
  let st := l_run true (l_init 2 238%N) ops in
  Forall lop_ok ops /\ l_views st = [(0%nat, 2); (1%nat, 1)] /\ l_wr st = None /\
  map (l_read_view st) (l_views st) = [Some [65; 66]%N; Some [67%N]].
Proof.
  split; [repeat constructor; vm_compute; try discriminate; reflexivity|].
  vm_compute. repeat split; reflexivity.
Qed.

(* ===================================== readers and a writer over one shared buffer *)

(* reader_sees_later_writes: a reader that has consumed everything (whenever it was constructed);
   the writer appends bs to the shared buffer; now end() is false (unless bs is empty), reading
   len bs bytes returns exactly bs, and end() is true again *)
Theorem reader_sees_later_writes : forall st k c bs,
  nth_error (h_curs st) k = Some c -> c = len (h_buf st) -> len (h_buf st) + len bs < 2 ^ 64 ->
  let st1 := fst (h_step st (HWrite (Some bs) (len bs))) in
  h_buf st1 = h_buf st ++ bs /\
  snd (h_step st1 (HEnd k)) = HEndIs (len bs =? 0) /\
  h_step st1 (HRead k true (len bs)) =
    ({| h_buf := h_buf st ++ bs; h_curs := set_nth (h_curs st) k (c + len bs) |}, HBytes bs) /\
  snd (h_step (fst (h_step st1 (HRead k true (len bs)))) (HEnd k)) = HEndIs true.
Proof. exact ProofsHist.reader_sees_later_writes. Qed.
Print Assumptions reader_sees_later_writes.

(* end() <-> cursor = CURRENT length of the shared buffer *)
Theorem end_iff_current_length : forall st k c,
  nth_error (h_curs st) k = Some c -> 0 <= c <= len (h_buf st) ->
  exists b, snd (h_step st (HEnd k)) = HEndIs b /\ (b = true <-> c = len (h_buf st)).
Proof. exact ProofsHist.end_iff_current_length. Qed.
Print Assumptions end_iff_current_length.

(* the bounds theorems over the current length: never outside the buffer; throws iff the request
   extends past what the buffer holds NOW *)
Theorem hist_read_in_bounds : forall st k c mem size,
  nth_error (h_curs st) k = Some c -> 0 <= size -> 0 <= c ->
  snd (h_step st (HRead k mem size)) <> HOob /\
  (c <= len (h_buf st) -> (snd (h_step st (HRead k mem size)) = HThrow <-> c + size > len (h_buf st))).
Proof. exact ProofsHist.hist_read_in_bounds. Qed.
Print Assumptions hist_read_in_bounds.

(* every history of writes, reader constructions, reads, views and end() calls: the cursors stay
   inside the current buffer and no step leaves it; the buffer only grows by appending *)
Theorem hist_step_inv : forall st op,
  h_inv st -> hop_ok st op ->
  h_inv (fst (h_step st op)) /\ snd (h_step st op) <> HOob /\
  (exists tail, h_buf (fst (h_step st op)) = h_buf st ++ tail).
Proof. exact ProofsHist.h_step_inv. Qed.
Print Assumptions hist_step_inv.

Theorem hist_never_oob : forall ops st,
  h_inv st -> hops_ok st ops -> h_inv (fst (h_trace st ops)) /\ ~ In HOob (snd (h_trace st ops)).
Proof. exact ProofsHist.hist_never_oob. Qed.
Print Assumptions hist_never_oob.

(* BufferReader's implicit copy: same buffer, same cursor; afterwards the readers are independent *)
Theorem reader_copy_and_independence : forall st k c,
  nth_error (h_curs st) k = Some c ->
  (let st' := fst (h_step st (HCopy k)) in
   h_buf st' = h_buf st /\ nth_error (h_curs st') (length (h_curs st)) = Some c /\ nth_error (h_curs st') k = Some c) /\
  (forall op j, j <> k ->
     match op with HRead k' _ _ | HView k' _ | HEnd k' => k' = k | _ => False end ->
     nth_error (h_curs (fst (h_step st op))) j = nth_error (h_curs st) j).
Proof. exact ProofsHist.reader_copy_and_independence. Qed.
Print Assumptions reader_copy_and_independence.

(* the reader is constructed on the empty buffer, "AB" is written, the reader reads it; a second
   reader constructed later starts at 0 *)
Example shared_buffer_example :
  snd (h_trace h_init [HNew; HWrite (Some [65; 66]%N) 2; HEnd 0; HRead 0 true 2; HEnd 0; HNew; HRead 1 true 1]) =
  [HReader 0; HOk; HEndIs false; HBytes [65; 66]%N; HEndIs true; HReader 1; HBytes [65%N]].
Proof. vm_compute. reflexivity. Qed.

(* ======================== handing the writer's buffer off (move), reset, self-assignment *)

(* a moved-from OwnedArray is empty (C11), so after the handoff the writer restarts at 0: the next
   message is exactly the bytes written next, the handed-off message is what had been written *)
Theorem handoff_restarts_writer : forall st bs,
  len bs < 2 ^ 64 ->
  let st1 := fst (x_step st XHandoff) in
  h_buf (x_h st1) = [] /\ x_msgs st1 = x_msgs st ++ [h_buf (x_h st)] /\ h_curs (x_h st1) = h_curs (x_h st) /\
  let st2 := fst (x_step st1 (XH (HWrite (Some bs) (len bs)))) in
  h_buf (x_h st2) = bs /\ x_msgs st2 = x_msgs st1 /\ len (h_buf (x_h st2)) = wrap (0 + len bs).
Proof. exact ProofsHist.handoff_restarts_writer. Qed.
Print Assumptions handoff_restarts_writer.

Theorem handoff_messages_stable : forall st op, exists tail, x_msgs (fst (x_step st op)) = x_msgs st ++ tail.
Proof. exact ProofsHist.handoff_messages_stable. Qed.
Print Assumptions handoff_messages_stable.

(* a reader left over the writer's buffer sees the empty buffer: throws / end(), never out of bounds *)
Theorem stale_reader_after_handoff : forall st k c mem size op,
  op = XHandoff \/ op = XReset ->
  nth_error (h_curs (x_h st)) k = Some c -> 0 <= c -> 0 <= size -> (0 < size \/ 0 < c) ->
  let st1 := fst (x_step st op) in
  snd (x_step st1 (XH (HRead k mem size))) = HThrow /\ snd (x_step st1 (XH (HEnd k))) = HEndIs true.
Proof. exact ProofsHist.stale_reader_after_handoff. Qed.
Print Assumptions stale_reader_after_handoff.

(* message 1, handoff, message 2: two separate messages, no stale prefix *)
Example handoff_example :
  let st := fold_left (fun s o => fst (x_step s o))
              [XH (HWrite (Some [65; 66]%N) 2); XHandoff; XH (HWrite (Some [67%N]) 1); XSelfAssign; XHandoff; XReset] x_init in
  x_msgs st = [[65; 66]%N; [67%N]] /\ h_buf (x_h st) = [].
Proof. vm_compute. split; reflexivity. Qed.
