(* C15 - property theorems only.  Each is closed by [exact] of a lemma from
   Proofs.v and followed by Print Assumptions. *)
From Common Require Import Prelude.
From C15 Require Import Model Proofs.
Local Open Scope Z_scope.

(* reads_in_bounds: an accepted read never touches memory outside the buffer,
   for every requested size (up to 2^64-1) and every cursor *)
Theorem reads_in_bounds : forall r mem size,
  0 <= size -> 0 <= r_cur r -> rd_read r mem size <> ROob.
Proof. exact rd_read_no_oob. Qed.
Print Assumptions reads_in_bounds.

(* fixed_accept_iff_fits: write/reserve succeed exactly when size <= cap - cursor;
   a rejected call throws and changes nothing; an accepted one advances the cursor
   by exactly size and writes inside the buffer *)
Theorem fixed_accept_iff_fits : forall w o,
  fbw_inv w -> fop_ok o ->
  let (w', out) := fbw_step w o in
  (accepted out <-> fop_size o <= f_cap w - f_cur w) /\
  (~ accepted out -> out = FThrow /\ w' = w) /\
  (accepted out -> f_cur w' = f_cur w + fop_size o /\ f_cap w' = f_cap w /\ fbw_inv w' /\
                   out = match o with FWrite _ _ => FOk | FReserve _ _ => FPtr (f_cur w) end).
Proof. exact fbw_step_spec. Qed.
Print Assumptions fixed_accept_iff_fits.
