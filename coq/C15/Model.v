(* C15 - executable byte-level model of rkcommon/networking/DataStreaming.{h,cpp}
   (hand-written, Tie B).  Definitions only.

   Bytes are N codes (list N); every size / cursor is a Z and the places where the
   C++ computes in size_t are written with an explicit [wrap] (mod 2^64).

   The definitions without suffix mirror the REPAIRED code (handoff patches fix-1,
   fix-2: bounds checks of BufferReader::read/getView and FixedBufferWriter::write/
   reserve written as  cursor > size() || n > size() - cursor ).  The checks of the
   code as found are kept as [.._old] and refuted in Properties.v. *)
From Common Require Import Prelude.
Local Open Scope Z_scope.

Definition len {A} (l : list A) : Z := Z.of_nat (length l).
Definition wrap (z : Z) : Z := z mod 2 ^ 64.

(* ------------------------------------------------------------ size_t framing *)
(* object representation of an unsigned integer, little endian, k bytes *)
Fixpoint le_bytes (k : nat) (x : Z) : list N :=
  match k with
  | O => []
  | S k' => Z.to_N (x mod 256) :: le_bytes k' (x / 256)
  end.

Fixpoint le_val (l : list N) : Z :=
  match l with
  | [] => 0
  | b :: l' => Z.of_N b + 256 * le_val l'
  end.

(* --------------------------------------------------------------- typed values *)
Inductive value :=
| VRaw (bs : list N)                  (* any T going through the generic template: sizeof(T) raw bytes *)
| VStr (s : list N)                   (* std::string / const char*                      *)
| VVec (vs : list value)              (* std::vector<T>                                 *)
| VArr (esz cnt : Z) (bs : list N).   (* AbstractArray<T>: sizeof(T), size(), the bytes *)

Inductive shape :=
| SRaw (n : Z) | SStr | SVec (s : shape) | SArr (esz : Z).

(* v is a value of the C++ type described by sh; the size bounds are the
   representation invariants of the C++ types (every size() is a size_t,
   sizeof(T) >= 1) *)
Fixpoint typed (sh : shape) (v : value) {struct v} : bool :=
  match v, sh with
  | VRaw bs, SRaw n => (len bs =? n) && (1 <=? n) && (n <? 2 ^ 64)
  | VStr s, SStr => len s <? 2 ^ 64
  | VVec vs, SVec sh' => (len vs <? 2 ^ 64) && forallb (typed sh') vs
  | VArr esz cnt bs, SArr e =>
      (esz =? e) && (1 <=? esz) && (0 <=? cnt) && (len bs =? esz * cnt) && (esz * cnt <? 2 ^ 64)
  | _, _ => false
  end.

(* the write(mem, size) calls operator<< issues, in order (DataStreaming.h:105-172);
   each chunk is the memory block passed, its length the size argument *)
Fixpoint chunks (v : value) : list (list N) :=
  match v with
  | VRaw bs => [bs]
  | VStr s => [le_bytes 8 (len s); s]
  | VVec vs => le_bytes 8 (len vs) :: flat_map chunks vs
  | VArr esz cnt bs => [le_bytes 8 cnt; bs]
  end.

(* the wire format *)
Fixpoint encode (v : value) : list N :=
  match v with
  | VRaw bs => bs
  | VStr s => le_bytes 8 (len s) ++ s
  | VVec vs => le_bytes 8 (len vs) ++ flat_map encode vs
  | VArr esz cnt bs => le_bytes 8 cnt ++ bs
  end.

Definition encode_seq (vs : list value) : list N := flat_map encode vs.

(* ------------------------------------------------- raw memory access (checked) *)
(* memcpy out of / into a buffer of known extent.  None = the access leaves the
   buffer (what ASan reports); addresses are unbounded integers here. *)
Definition fetch (buf : list N) (off size : Z) : option (list N) :=
  if (0 <=? off) && (0 <=? size) && (off + size <=? len buf)
  then Some (firstn (Z.to_nat size) (skipn (Z.to_nat off) buf))
  else None.

Definition store (buf : list N) (off : Z) (bs : list N) : option (list N) :=
  if (0 <=? off) && (off + len bs <=? len buf)
  then Some (firstn (Z.to_nat off) buf ++ bs ++ skipn (Z.to_nat (off + len bs)) buf)
  else None.

(* --------------------------------------------------------------- BufferReader *)
Record reader := { r_buf : list N; r_cur : Z }.

Inductive rres (A : Type) :=
| RThrow                      (* std::runtime_error                      *)
| ROob                        (* memory outside the buffer was accessed  *)
| ROk (a : A) (r : reader).
Arguments RThrow {A}. Arguments ROob {A}. Arguments ROk {A} a r.

Definition rbind {A B} (x : rres A) (f : A -> reader -> rres B) : rres B :=
  match x with RThrow => RThrow | ROob => ROob | ROk a r => f a r end.

(* repaired:  if (cursor > buffer->size() || size > buffer->size() - cursor) throw *)
Definition rd_throws (r : reader) (size : Z) : bool :=
  (r_cur r >? len (r_buf r)) || (size >? len (r_buf r) - r_cur r).
(* as found:  if (cursor + size > buffer->size()) throw   -- the sum is a size_t *)
Definition rd_throws_old (r : reader) (size : Z) : bool :=
  wrap (r_cur r + size) >? len (r_buf r).

Definition rd_advance (r : reader) (size : Z) : reader :=
  {| r_buf := r_buf r; r_cur := wrap (r_cur r + size) |}.     (* cursor += size *)

(* read(mem, size); [mem] = the destination pointer is not null *)
Definition rd_read_gen (chk : reader -> Z -> bool) (r : reader) (mem : bool) (size : Z) : rres (list N) :=
  if chk r size then RThrow
  else if mem && (size >? 0) then
    match fetch (r_buf r) (r_cur r) size with
    | None => ROob
    | Some bs => ROk bs (rd_advance r size)
    end
  else ROk [] (rd_advance r size).

Definition rd_read := rd_read_gen rd_throws.
Definition rd_read_old := rd_read_gen rd_throws_old.

(* getView<uint8_t>(count): no memory is touched; the result is the extent
   (offset, size) of the view handed to the caller, who may read all of it *)
Definition rd_view_gen (chk : reader -> Z -> bool) (r : reader) (count : Z) : rres (Z * Z) :=
  let size := wrap (count * 1) in
  if chk r size then RThrow else ROk (r_cur r, size) (rd_advance r size).
Definition rd_view := rd_view_gen rd_throws.
Definition rd_view_old := rd_view_gen rd_throws_old.

Definition rd_end (r : reader) : bool := r_cur r >=? len (r_buf r).

(* for (i < sz) buf >> rh[i] *)
Definition rep_get (g : reader -> rres value) : nat -> reader -> rres (list value) :=
  fix loop (n : nat) (r : reader) : rres (list value) :=
    match n with
    | O => ROk [] r
    | S n' => rbind (g r) (fun v r1 => rbind (loop n' r1) (fun vs r2 => ROk (v :: vs) r2))
    end.

(* operator>> by static type.  For AbstractArray there is no operator>>; the
   reading idiom is  size_t n; buf >> n;  then one read (or view) of n*sizeof(T) bytes *)
Fixpoint get (sh : shape) (r : reader) {struct sh} : rres value :=
  match sh with
  | SRaw n => rbind (rd_read r true n) (fun bs r1 => ROk (VRaw bs) r1)
  | SStr =>
      rbind (rd_read r true 8) (fun szb r1 =>
      rbind (rd_read r1 true (le_val szb)) (fun s r2 => ROk (VStr s) r2))
  | SVec sh' =>
      rbind (rd_read r true 8) (fun szb r1 =>
      rbind (rep_get (get sh') (Z.to_nat (le_val szb)) r1) (fun vs r2 => ROk (VVec vs) r2))
  | SArr esz =>
      rbind (rd_read r true 8) (fun szb r1 =>
      let cnt := le_val szb in
      rbind (rd_read r1 true (wrap (esz * cnt))) (fun bs r2 => ROk (VArr esz cnt bs) r2))
  end.

Fixpoint get_seq (shs : list shape) (r : reader) : rres (list value) :=
  match shs with
  | [] => ROk [] r
  | sh :: shs' => rbind (get sh r) (fun v r1 => rbind (get_seq shs' r1) (fun vs r2 => ROk (v :: vs) r2))
  end.

Definition reader_of (bs : list N) : reader := {| r_buf := bs; r_cur := 0 |}.

(* list form: decode by shape, returning the value and the unread rest *)
Definition decode (sh : shape) (bs : list N) : option (value * list N) :=
  match get sh (reader_of bs) with
  | ROk v r => Some (v, skipn (Z.to_nat (r_cur r)) bs)
  | _ => None
  end.

Definition decode_seq (shs : list shape) (bs : list N) : option (list value * list N) :=
  match get_seq shs (reader_of bs) with
  | ROk vs r => Some (vs, skipn (Z.to_nat (r_cur r)) bs)
  | _ => None
  end.

(* ------------------------------------------------ reading into an existing object *)
(* operator>> does not create its result: it reads INTO the object the caller passes, which
   already holds some value [old] (stale content of a reused or pre-filled destination).
   [get_into] makes that destination explicit and mirrors what each overload does with it:
     POD         memcpy of sizeof(T) bytes over the object
     string      rh.resize(sz) (keeps a prefix of the old characters / pads), then read()
                 overwrites the sz characters
     vector      rh.resize(sz) (keeps a prefix of the old elements / appends value-initialised
                 ones), then  buf >> rh[i]  reads into each of those elements in turn
     array       the destination is reset to a fresh block of the announced size *)
Definition old_bytes (v : value) : list N :=
  match v with VRaw bs => bs | VStr s => s | VArr _ _ bs => bs | VVec _ => [] end.
Definition old_elems (v : value) : list value :=
  match v with VVec vs => vs | _ => [] end.

(* std::vector / std::string ::resize(n) *)
Definition resize_list {A} (l : list A) (n : nat) (dflt : A) : list A :=
  firstn n l ++ repeat dflt (n - length l).

(* memcpy of [bs] over the beginning of [dst] *)
Definition overwrite (dst bs : list N) : list N := bs ++ skipn (length bs) dst.

(* T() *)
Definition default_value (sh : shape) : value :=
  match sh with
  | SRaw n => VRaw (repeat 0%N (Z.to_nat n))
  | SStr => VStr []
  | SVec _ => VVec []
  | SArr e => VArr e 0 []
  end.

(* for (i < sz) buf >> rh[i]   over the elements the destination holds after the resize *)
Definition rep_into (g : value -> reader -> rres value) : list value -> reader -> rres (list value) :=
  fix loop (olds : list value) (r : reader) : rres (list value) :=
    match olds with
    | [] => ROk [] r
    | o :: os => rbind (g o r) (fun v r1 => rbind (loop os r1) (fun vs r2 => ROk (v :: vs) r2))
    end.

Fixpoint get_into (sh : shape) (old : value) (r : reader) {struct sh} : rres value :=
  match sh with
  | SRaw n =>
      rbind (rd_read r true n) (fun bs r1 =>
      ROk (VRaw (overwrite (firstn (Z.to_nat n) (old_bytes old)) bs)) r1)
  | SStr =>
      rbind (rd_read r true 8) (fun szb r1 =>
      let sz := le_val szb in
      let s0 := resize_list (old_bytes old) (Z.to_nat sz) 0%N in
      rbind (rd_read r1 true sz) (fun s r2 => ROk (VStr (overwrite s0 s)) r2))
  | SVec sh' =>
      rbind (rd_read r true 8) (fun szb r1 =>
      let olds := resize_list (old_elems old) (Z.to_nat (le_val szb)) (default_value sh') in
      rbind (rep_into (get_into sh') olds r1) (fun vs r2 => ROk (VVec vs) r2))
  | SArr esz =>
      rbind (rd_read r true 8) (fun szb r1 =>
      let cnt := le_val szb in
      rbind (rd_read r1 true (wrap (esz * cnt))) (fun bs r2 => ROk (VArr esz cnt bs) r2))
  end.

(* the rewrite that was seeded: reserve(sz), then push_back of freshly read elements - the old
   elements stay in front *)
Definition get_into_vec_append (sh' : shape) (old : value) (r : reader) : rres value :=
  rbind (rd_read r true 8) (fun szb r1 =>
  rbind (rep_get (get sh') (Z.to_nat (le_val szb)) r1) (fun vs r2 => ROk (VVec (old_elems old ++ vs)) r2)).

Fixpoint get_into_seq (shs : list shape) (olds : list value) (r : reader) : rres (list value) :=
  match shs with
  | [] => ROk [] r
  | sh :: shs' =>
      let o := match olds with o :: _ => o | [] => default_value sh end in
      rbind (get_into sh o r) (fun v r1 =>
      rbind (get_into_seq shs' (tl olds) r1) (fun vs r2 => ROk (v :: vs) r2))
  end.

Definition read_into (sh : shape) (old : value) (bs : list N) : option (value * list N) :=
  match get_into sh old (reader_of bs) with
  | ROk v r => Some (v, skipn (Z.to_nat (r_cur r)) bs)
  | _ => None
  end.

(* ---------------------------------------------------------------- BufferWriter *)
(* OwnedArray::resize(n, 0) *)
Definition resize (buf : list N) (n : Z) : list N :=
  firstn (Z.to_nat n) buf ++ repeat 0%N (Z.to_nat (n - len buf)).

(* write(mem, size): mem = None is a null pointer, Some bs a block of size bytes.
   None as result = the memcpy left the buffer. *)
Definition bw_write (buf : list N) (mem : option (list N)) (size : Z) : option (list N) :=
  let bsize := len buf in
  let buf1 := resize buf (wrap (bsize + size)) in
  match mem with
  | Some bs => if size >? 0 then store buf1 bsize bs else Some buf1
  | None => Some buf1
  end.

Definition bw_write_chunks (cs : list (list N)) (buf : list N) : option (list N) :=
  fold_left (fun b c => match b with Some b' => bw_write b' (Some c) (len c) | None => None end) cs (Some buf).

Definition bw_put_seq (vs : list value) : option (list N) :=
  bw_write_chunks (flat_map chunks vs) [].

(* ---------------------------------------------------------- WriteSizeCalculator *)
Definition wsc_write (total size : Z) : Z := wrap (total + size).      (* writtenSize += size *)
Definition wsc_put_seq (vs : list value) : Z :=
  fold_left (fun t c => wsc_write t (len c)) (flat_map chunks vs) 0.

(* ------------------------------------------------------------ FixedBufferWriter *)
(* capacity = buffer->size() = len f_bytes *)
Record fbw := { f_bytes : list N; f_cur : Z }.
Definition f_cap (w : fbw) : Z := len (f_bytes w).

Inductive fout :=
| FOk                         (* write returned                       *)
| FPtr (off : Z)              (* reserve returned buffer->begin()+off *)
| FThrow
| FOob.                       (* memory outside the buffer was written *)

(* repaired:  if (cursor > buffer->size() || size > buffer->size() - cursor) throw *)
Definition fbw_rejects (w : fbw) (size : Z) : bool :=
  (f_cur w >? f_cap w) || (size >? f_cap w - f_cur w).
(* as found:  if (cursor + size >= buffer->size()) throw *)
Definition fbw_rejects_old (w : fbw) (size : Z) : bool :=
  wrap (f_cur w + size) >=? f_cap w.

Definition fbw_advance (w : fbw) (bytes : list N) (size : Z) : fbw :=
  {| f_bytes := bytes; f_cur := wrap (f_cur w + size) |}.             (* cursor += size *)

Inductive fop :=
| FWrite (mem : option (list N)) (size : Z)      (* write(mem, size); Some bs: len bs = size  *)
| FReserve (size : Z) (fill : option (list N)).  (* p = reserve(size); the caller then stores
                                                    fill (len = size) through p             *)

Definition fbw_put (w : fbw) (mem : option (list N)) (size : Z) (ok : fout) : fbw * fout :=
  match mem with
  | Some bs =>
      if size >? 0 then
        match store (f_bytes w) (f_cur w) bs with
        | None => (w, FOob)
        | Some b' => (fbw_advance w b' size, ok)
        end
      else (fbw_advance w (f_bytes w) size, ok)
  | None => (fbw_advance w (f_bytes w) size, ok)
  end.

Definition fbw_step_gen (chk : fbw -> Z -> bool) (w : fbw) (o : fop) : fbw * fout :=
  match o with
  | FWrite mem size => if chk w size then (w, FThrow) else fbw_put w mem size FOk
  | FReserve size fill => if chk w size then (w, FThrow) else fbw_put w fill size (FPtr (f_cur w))
  end.

Definition fbw_step := fbw_step_gen fbw_rejects.
Definition fbw_step_old := fbw_step_gen fbw_rejects_old.

Definition fbw_available (w : fbw) : Z := wrap (f_cap w - f_cur w).     (* buffer->size() - cursor *)
Definition fbw_capacity (w : fbw) : Z := f_cap w.
(* getWrittenView(): View(buffer, 0, cursor); None = the view extends past the buffer *)
Definition fbw_view (w : fbw) : option (list N) := fetch (f_bytes w) 0 (f_cur w).

(* FixedBufferWriter(size): uninitialised storage; the harness fills it with a
   background byte so that it can be compared *)
Definition fbw_init (cap : Z) (bg : N) : fbw :=
  {| f_bytes := repeat bg (Z.to_nat cap); f_cur := 0 |}.

Definition fbw_run (w : fbw) (ops : list fop) : fbw :=
  fold_left (fun w o => fst (fbw_step w o)) ops w.

(* typed values through a FixedBufferWriter (it is a WriteStream): the chunks in
   order, stopping at the first throw *)
Fixpoint fbw_write_chunks (w : fbw) (cs : list (list N)) : fbw * fout :=
  match cs with
  | [] => (w, FOk)
  | c :: cs' =>
      match fbw_step w (FWrite (Some c) (len c)) with
      | (w', FOk) => fbw_write_chunks w' cs'
      | (w', o) => (w', o)
      end
  end.

(* ------------------------------------------- lifetime of getWrittenView() results *)
(* FixedBufferWriter::buffer is a shared_ptr<FixedArray<uint8_t>>; the FixedArray holds its
   storage in a shared_ptr<T>.  getWrittenView() builds a FixedArrayView(buffer, 0, cursor) whose
   member [data] is a FixedArray copy-constructed from *buffer: it SHARES the allocation (it is not
   a copy of the bytes) and keeps it alive.  Allocations are numbered; an allocation is released
   as soon as no owner is left.  [own] = the views hold a share (the code as it is); [own = false]
   is the non-owning variant (a bare pointer into the writer's storage). *)
Record lstate := {
  l_heap : nat -> option (list N);       (* None = not allocated / released               *)
  l_next : nat;                          (* next fresh allocation number                  *)
  l_wr : option (nat * Z);               (* the writer, if alive: its allocation, cursor  *)
  l_views : list (nat * Z)               (* views handed out so far: allocation, size     *)
}.

Inductive lop :=
| LStep (o : fop)                        (* write / reserve on the writer                 *)
| LView                                  (* v = getWrittenView()                          *)
| LKill                                  (* the FixedBufferWriter is destroyed            *)
| LReseat (n : Z) (b : N).               (* *writer.buffer = vector(n, b); cursor = 0     *)

Definition hupd (h : nat -> option (list N)) (i : nat) (v : option (list N)) : nat -> option (list N) :=
  fun j => if Nat.eqb j i then v else h j.

Definition l_owned (own : bool) (wr : option (nat * Z)) (views : list (nat * Z)) (j : nat) : bool :=
  match wr with Some (i, _) => Nat.eqb i j | None => false end ||
  (own && existsb (fun v => Nat.eqb (fst v) j) views).

(* release every allocation that no owner holds any more *)
Definition l_gc (own : bool) (st : lstate) : lstate :=
  {| l_heap := fun j => if l_owned own (l_wr st) (l_views st) j then l_heap st j else None;
     l_next := l_next st; l_wr := l_wr st; l_views := l_views st |}.

Inductive lout := LOut (o : fout) | LViewed (size : Z) | LDone | LDead.

Definition l_step (own : bool) (st : lstate) (op : lop) : lstate * lout :=
  match op with
  | LStep o =>
      match l_wr st with
      | Some (i, cur) =>
          match l_heap st i with
          | Some bytes =>
              let (w', out) := fbw_step {| f_bytes := bytes; f_cur := cur |} o in
              ({| l_heap := hupd (l_heap st) i (Some (f_bytes w')); l_next := l_next st;
                  l_wr := Some (i, f_cur w'); l_views := l_views st |}, LOut out)
          | None => (st, LDead)
          end
      | None => (st, LDead)
      end
  | LView =>
      match l_wr st with
      | Some (i, cur) =>
          ({| l_heap := l_heap st; l_next := l_next st; l_wr := l_wr st;
              l_views := l_views st ++ [(i, cur)] |}, LViewed cur)
      | None => (st, LDead)
      end
  | LKill =>
      match l_wr st with
      | Some _ =>
          (l_gc own {| l_heap := l_heap st; l_next := l_next st; l_wr := None; l_views := l_views st |}, LDone)
      | None => (st, LDead)
      end
  | LReseat n b =>
      match l_wr st with
      | Some _ =>
          let j := l_next st in
          (l_gc own {| l_heap := hupd (l_heap st) j (Some (repeat b (Z.to_nat n))); l_next := S j;
                       l_wr := Some (j, 0); l_views := l_views st |}, LDone)
      | None => (st, LDead)
      end
  end.

(* reading all bytes of a view; None = the storage it points into was released *)
Definition l_read_view (st : lstate) (v : nat * Z) : option (list N) :=
  match l_heap st (fst v) with
  | Some bytes => fetch bytes 0 (snd v)
  | None => None
  end.

(* FixedBufferWriter w(cap) with the storage filled by the background byte *)
Definition l_init (cap : Z) (bg : N) : lstate :=
  {| l_heap := hupd (fun _ => None) O (Some (repeat bg (Z.to_nat cap))); l_next := 1%nat;
     l_wr := Some (O, 0); l_views := [] |}.

Definition l_run (own : bool) (st : lstate) (ops : list lop) : lstate :=
  fold_left (fun st op => fst (l_step own st op)) ops st.

(* ------------------------------- readers and a writer interleaved over one shared buffer *)
(* A BufferReader holds (a shared reference to the buffer, its own cursor); a BufferWriter appends to
   the same buffer object.  The reader does not snapshot anything: every observation (read, getView,
   end) is a function of the buffer's CURRENT contents and the reader's cursor. *)
Record hstate := { h_buf : list N; h_curs : list Z }.       (* the shared buffer; cursor of reader k *)

Inductive hop :=
| HWrite (mem : option (list N)) (size : Z)      (* writer.write(mem, size)                *)
| HNew                                           (* BufferReader r_k(writer.buffer)        *)
| HCopy (k : nat)                                (* BufferReader r_n(r_k): implicit copy   *)
| HRead (k : nat) (mem : bool) (size : Z)        (* r_k.read(mem, size)                    *)
| HView (k : nat) (count : Z)                    (* r_k.getView<uint8_t>(count)            *)
| HEnd (k : nat).                                (* r_k.end()                              *)

Inductive hout :=
| HOk | HOob | HThrow | HBad
| HReader (k : nat) | HBytes (bs : list N) | HViewed (off size : Z) | HEndIs (b : bool).

Fixpoint set_nth (l : list Z) (k : nat) (z : Z) : list Z :=
  match l, k with
  | [], _ => []
  | _ :: l', O => z :: l'
  | x :: l', S k' => x :: set_nth l' k' z
  end.

Definition h_reader (st : hstate) (c : Z) : reader := {| r_buf := h_buf st; r_cur := c |}.

Definition h_step (st : hstate) (op : hop) : hstate * hout :=
  match op with
  | HWrite mem size =>
      match bw_write (h_buf st) mem size with
      | Some b' => ({| h_buf := b'; h_curs := h_curs st |}, HOk)
      | None => (st, HOob)
      end
  | HNew => ({| h_buf := h_buf st; h_curs := h_curs st ++ [0] |}, HReader (length (h_curs st)))
  | HCopy k =>
      match nth_error (h_curs st) k with
      | Some c => ({| h_buf := h_buf st; h_curs := h_curs st ++ [c] |}, HReader (length (h_curs st)))
      | None => (st, HBad)
      end
  | HRead k mem size =>
      match nth_error (h_curs st) k with
      | Some c =>
          match rd_read (h_reader st c) mem size with
          | ROk bs r' => ({| h_buf := h_buf st; h_curs := set_nth (h_curs st) k (r_cur r') |}, HBytes bs)
          | RThrow => (st, HThrow)
          | ROob => (st, HOob)
          end
      | None => (st, HBad)
      end
  | HView k count =>
      match nth_error (h_curs st) k with
      | Some c =>
          match rd_view (h_reader st c) count with
          | ROk (off, sz) r' => ({| h_buf := h_buf st; h_curs := set_nth (h_curs st) k (r_cur r') |}, HViewed off sz)
          | RThrow => (st, HThrow)
          | ROob => (st, HOob)
          end
      | None => (st, HBad)
      end
  | HEnd k =>
      match nth_error (h_curs st) k with
      | Some c => (st, HEndIs (rd_end (h_reader st c)))
      | None => (st, HBad)
      end
  end.

Definition h_init : hstate := {| h_buf := []; h_curs := [] |}.

(* ---------------------------------------------- handoff of the writer's buffer, reset *)
(* A finished message is handed off by MOVING the OwnedArray out of the writer's buffer object
   (move construction or move assignment); the writer keeps writing into the same object.  A
   moved-from OwnedArray is empty (C11: OwnedArray move leaves the source empty), so the writer
   restarts at size 0; readers constructed on the writer's buffer earlier now see that empty buffer;
   handed-off messages are separate arrays that nothing writes to any more. *)
Record xstate := { x_h : hstate; x_msgs : list (list N) }.

Inductive xop :=
| XH (op : hop)                  (* any op of the shared-buffer histories                         *)
| XHandoff                       (* msg = OwnedArray(std::move( *writer.buffer))  or  msg = std::move(..) *)
| XReset                         (* writer.buffer->reset()                                        *)
| XSelfAssign.                   (* *writer.buffer = *writer.buffer (copy and move form)          *)

Definition x_step (st : xstate) (op : xop) : xstate * hout :=
  match op with
  | XH o => let (h', out) := h_step (x_h st) o in ({| x_h := h'; x_msgs := x_msgs st |}, out)
  | XHandoff =>
      ({| x_h := {| h_buf := []; h_curs := h_curs (x_h st) |}; x_msgs := x_msgs st ++ [h_buf (x_h st)] |}, HOk)
  | XReset => ({| x_h := {| h_buf := []; h_curs := h_curs (x_h st) |}; x_msgs := x_msgs st |}, HOk)
  | XSelfAssign => (st, HOk)
  end.

Definition x_init : xstate := {| x_h := h_init; x_msgs := [] |}.
