(* C15 - what props/C15/factgen.py extracted from the working tree (gen/Facts.v) normalises to
   the expected statement lists of FactsModel.v; hence the semantic statements below hold for
   the EXTRACTED bodies.  Each vm_compute equality is the obligation that breaks when the source
   changes in a way that is not behaviour-preserving (a different comparison, a moved cursor
   update, cursor + size re-introduced, end() reused as the bounds test ...). *)
From Common Require Import Prelude.
From C15 Require Import Model Proofs ProofsCodec ProofsFixed ProofsInto ProofsLife ProofsHist FactsModel.
From C15.gen Require Import Facts.
Local Open Scope Z_scope.

Lemma gen_read_norm : map nstmt gen_read = exp_read.
Proof. vm_compute. reflexivity. Qed.
Lemma gen_view_norm : map nstmt gen_view = exp_view.
Proof. vm_compute. reflexivity. Qed.
Lemma gen_fwrite_norm : map nstmt gen_fwrite = exp_fwrite.
Proof. vm_compute. reflexivity. Qed.
Lemma gen_freserve_norm : map nstmt gen_freserve = exp_freserve.
Proof. vm_compute. reflexivity. Qed.

(* BufferReader::read as extracted IS the rd_read of the model (check, guarded copy, cursor update,
   in this order, with these expressions) *)
Lemma src_read_is_model r mem size :
  0 <= r_cur r -> len (r_buf r) < 2 ^ 64 ->
  exec_rd gen_read mem size r [] = rd_read r mem size.
Proof. intros. rewrite <- exec_rd_norm, gen_read_norm. now apply exp_read_ok. Qed.

(* ... hence the extracted body never leaves the buffer, for every size *)
Lemma src_read_in_bounds r mem size :
  0 <= size -> 0 <= r_cur r -> len (r_buf r) < 2 ^ 64 ->
  exec_rd gen_read mem size r [] <> ROob.
Proof. intros Hs Hc HL. rewrite src_read_is_model by assumption. now apply rd_read_no_oob. Qed.

Lemma src_view_is_model r count :
  0 <= r_cur r -> len (r_buf r) < 2 ^ 64 ->
  exec_vw gen_view count r (0, 0) = rd_view r count.
Proof. intros. rewrite <- exec_vw_norm, gen_view_norm. now apply exp_view_ok. Qed.

Lemma src_view_throws_iff r count :
  0 <= count < 2 ^ 64 -> 0 <= r_cur r <= len (r_buf r) -> len (r_buf r) < 2 ^ 64 ->
  (exec_vw gen_view count r (0, 0) = RThrow <-> r_cur r + count > len (r_buf r)).
Proof. intros Hc Hr HL. rewrite src_view_is_model by lia. now apply rd_view_throws_iff. Qed.

Lemma src_fwrite_is_model w m size :
  0 <= f_cur w -> f_cap w < 2 ^ 64 -> 0 <= size ->
  match m with Some bs => len bs = size | None => True end ->
  exec_fw gen_fwrite m size w FOk = fbw_step w (FWrite m size).
Proof. intros. rewrite <- exec_fw_norm, gen_fwrite_norm. now apply exp_fwrite_ok. Qed.

Lemma src_freserve_is_model w size :
  0 <= f_cur w -> f_cap w < 2 ^ 64 ->
  exec_fw gen_freserve None size w FOk = fbw_step w (FReserve size None).
Proof. intros. rewrite <- exec_fw_norm, gen_freserve_norm. now apply exp_freserve_ok. Qed.

(* ... hence the extracted write accepts exactly what fits and otherwise changes nothing *)
Lemma src_fwrite_accept_iff_fits w m size :
  fbw_inv w -> fop_ok (FWrite m size) ->
  let (w', out) := exec_fw gen_fwrite m size w FOk in
  (accepted out <-> size <= f_cap w - f_cur w) /\ (~ accepted out -> out = FThrow /\ w' = w).
Proof.
  intros Hinv Hop. assert (Hinv' := Hinv). destruct Hinv' as [Hc Hcap]. assert (Hop' := Hop). destruct Hop' as [Hs Hm].
  cbn [fop_size fop_mem] in *.
  rewrite src_fwrite_is_model by (try assumption; lia).
  pose proof (fbw_step_spec w (FWrite m size) Hinv Hop) as H.
  destruct (fbw_step w (FWrite m size)) as [w' out]. cbn [fop_size] in H. tauto.
Qed.

Lemma src_end_is_model r : beval (renv r false 0) (nb gen_end) = rd_end r.
Proof. replace (nb gen_end) with exp_end by (vm_compute; reflexivity). apply exp_end_ok. Qed.

Lemma src_available_is_model w : seval (fenv w None 0) gen_available = fbw_available w.
Proof. replace gen_available with exp_available by (vm_compute; reflexivity). apply exp_available_ok. Qed.

Lemma src_capacity_is_model w : seval (fenv w None 0) gen_capacity = fbw_capacity w.
Proof. replace gen_capacity with exp_capacity by (vm_compute; reflexivity). apply exp_capacity_ok. Qed.

(* every length prefix is a size_t: 8 bytes, as le_bytes 8 in encode/get *)
Lemma src_prefix_is_size_t :
  map fst gen_prefix = prefix_ids /\
  forall id w x, In (id, w) gen_prefix -> le_bytes (Z.to_nat w) x = le_bytes 8 x.
Proof. apply prefix_ok_spec. vm_compute. reflexivity. Qed.

(* the generic template is disabled for the array wrappers and `stream << wrapper` selects the
   AbstractArray overload for each of the four derived static types *)
Lemma src_array_overload : gen_guard = true /\ overload_ok gen_overload = true.
Proof. split; vm_compute; reflexivity. Qed.

(* operator>>(ReadStream&, std::vector<T>&) as extracted: resize(sz), then read into the elements
   rh[i] - so it is get_into, hence (get_into_eq) independent of what the destination held and
   equal to the specified reader.  An append-based rewrite (reserve + push_back) breaks this. *)
Lemma src_vector_read_is_model sh' old r :
  exec_vecread gen_vec_read sh' 0 (old_elems old) r = get (SVec sh') r.
Proof.
  replace gen_vec_read with exp_vec_read by (vm_compute; reflexivity).
  rewrite exp_vec_read_ok. apply get_into_eq.
Qed.

Lemma src_string_read_is_model old r :
  exec_strread gen_str_read 0 (old_bytes old) r = get SStr r.
Proof.
  replace gen_str_read with exp_str_read by (vm_compute; reflexivity).
  rewrite exp_str_read_ok. apply (get_into_eq SStr).
Qed.

(* FixedArrayView (what getWrittenView returns) initialises its member [data] with a share of the
   viewed allocation, so the ownership flag of the lifetime model is the one of the source; an
   initialiser that is dropped (a bare pointer into the writer's storage) breaks this *)
Lemma src_view_owns_share :
  fav_owns gen_fav_init gen_fav_ptr gen_fixedarray_shared_storage = true /\
  forall st op, l_step (fav_owns gen_fav_init gen_fav_ptr gen_fixedarray_shared_storage) st op = l_step true st op.
Proof.
  assert (H : fav_owns gen_fav_init gen_fav_ptr gen_fixedarray_shared_storage = true) by (vm_compute; reflexivity).
  split; [exact H|]. intros st op. now apply owning_view_is_model.
Qed.

(* getWrittenView() as extracted is View(buffer, 0, cursor): fbw_view of the model *)
Lemma src_written_view_is_model :
  gen_wview_from_buffer = true /\
  forall w, fetch (f_bytes w) (seval (fenv w None 0) gen_wview_off) (seval (fenv w None 0) gen_wview_size) = fbw_view w.
Proof.
  split; [vm_compute; reflexivity|]. intro w.
  replace gen_wview_off with (XConst 0) by (vm_compute; reflexivity).
  replace gen_wview_size with XCursor by (vm_compute; reflexivity).
  apply exp_wview_ok.
Qed.

(* the set of stream operators declared in DataStreaming.h is exactly the eight the model knows: an
   added overload (e.g. one taking WriteSizeCalculator& that wins for `calc << v`) or a changed
   signature / enable_if guard breaks this *)
Lemma src_overload_set_closed : gen_overloads = exp_overloads.
Proof. vm_compute. reflexivity. Qed.

(* for the FIRST operand of a chain, whatever static type the stream is used through (WriteStream&,
   BufferWriter, FixedBufferWriter, WriteSizeCalculator; ReadStream&, BufferReader), clang selects the
   overload whose write() calls are the chunks of the model's encode / whose result is the model's get *)
Lemma src_overload_selection :
  (forall s k o, In (s, k, o) gen_selection -> (s <= 4)%N ->
     forall v, kind_value k v = true -> ovl_chunks o v = Some (chunks v)) /\
  (forall s k o, In (s, k, o) gen_selection -> (5 <= s)%N ->
     forall sh r, kind_shape k sh = true -> ovl_get o sh r = Some (get sh r)) /\
  map (fun t => fst t) gen_selection = map (fun t => fst t) exp_selection.
Proof.
  assert (E : gen_selection = exp_selection) by (vm_compute; reflexivity).
  rewrite E. split; [exact exp_selection_out | split; [exact exp_selection_in | reflexivity]].
Qed.

(* the reader's whole state is (shared buffer reference, cursor): together with src_read_is_model /
   src_view_is_model / src_end_is_model - whose expressions mention only cursor, the size parameter
   and buffer->size() / buffer->begin() - every observation is a function of the buffer's CURRENT
   contents, which is what Model.h_step says.  A cached extent (numBytes, a base pointer) breaks this. *)
Lemma src_reader_state_is_buffer_and_cursor :
  gen_reader_state = true /\
  forall st k c mem size, nth_error (h_curs st) k = Some c -> 0 <= c -> len (h_buf st) < 2 ^ 64 ->
    match exec_rd gen_read mem size (h_reader st c) [] with
    | ROk bs r' => h_step st (HRead k mem size) = ({| h_buf := h_buf st; h_curs := set_nth (h_curs st) k (r_cur r') |}, HBytes bs)
    | RThrow => h_step st (HRead k mem size) = (st, HThrow)
    | ROob => h_step st (HRead k mem size) = (st, HOob)
    end.
Proof.
  split; [vm_compute; reflexivity|]. intros st k c mem size Hk Hc Hl.
  rewrite src_read_is_model by assumption. cbn [h_step]. rewrite Hk.
  destruct (rd_read (h_reader st c) mem size); reflexivity.
Qed.
