(* C15 - proofs.  Part 5: lifetime of the views handed out by getWrittenView().  A view holds a
   share of the allocation it points into; therefore, whatever happens to the writer afterwards
   (more writes, reservations, destruction, a re-seated buffer), a view taken at cursor c keeps
   reading exactly the first c bytes that had been written when it was taken. *)
From Common Require Import Prelude.
From C15 Require Import Model Proofs ProofsCodec ProofsFixed.
Local Open Scope Z_scope.

(* one write/reserve never changes what lies below the cursor, nor the capacity *)
Lemma fbw_step_prefix w o :
  fbw_inv w -> fop_ok o ->
  let w' := fst (fbw_step w o) in
  fbw_inv w' /\ f_cap w' = f_cap w /\ f_cur w <= f_cur w' /\
  firstn (Z.to_nat (f_cur w)) (f_bytes w') = firstn (Z.to_nat (f_cur w)) (f_bytes w).
Proof.
  intros Hinv Ho. cbv zeta. assert (Hinv' := Hinv). destruct Hinv' as [Hc Hcap].
  set (log := firstn (Z.to_nat (f_cur w)) (f_bytes w)).
  assert (Llog : length log = Z.to_nat (f_cur w)).
  { unfold log. rewrite firstn_length. unfold f_cap, len in *. lia. }
  assert (Hv : view_ok (f_bytes w) w log).
  { unfold view_ok. split; [exact Hinv|]. split; [reflexivity|]. split.
    - unfold len. rewrite Llog. lia.
    - rewrite Llog. unfold log. symmetry. apply firstn_skipn. }
  pose proof (fbw_step_log (f_bytes w) w log o Hv Ho) as H.
  destruct (fbw_step w o) as [w' out]. cbn [fst].
  destruct H as ((Hi' & Hcap' & Hl' & Hb') & _).
  split; [exact Hi'|]. split; [unfold f_cap in *; lia|].
  assert (Lle : forall (X : list N), len log <= len (log ++ X)).
  { intro X. rewrite len_app. pose proof (len_nonneg X). lia. }
  assert (Lcur : len log = f_cur w) by (unfold len; rewrite Llog; lia).
  split.
  - destruct (accepted_b out); [specialize (Lle (fop_data w o))|]; lia.
  - rewrite <- Llog. rewrite Hb'. destruct (accepted_b out).
    + rewrite <- app_assoc. apply firstn_length_app.
    + apply firstn_length_app.
Qed.

Definition lop_ok (op : lop) : Prop :=
  match op with
  | LStep o => fop_ok o
  | LReseat n _ => 0 <= n < 2 ^ 64
  | _ => True
  end.

(* every owner points at a live allocation; a view never extends past the writer's cursor *)
Definition view_inv (st : lstate) (v : nat * Z) : Prop :=
  (fst v < l_next st)%nat /\
  exists bytes, l_heap st (fst v) = Some bytes /\ 0 <= snd v <= len bytes /\
                forall cur, l_wr st = Some (fst v, cur) -> snd v <= cur.

Definition l_inv (st : lstate) : Prop :=
  match l_wr st with
  | Some (i, cur) => (i < l_next st)%nat /\
                     exists bytes, l_heap st i = Some bytes /\ fbw_inv {| f_bytes := bytes; f_cur := cur |}
  | None => True
  end /\
  Forall (view_inv st) (l_views st).

Lemma fetch0_firstn (b b' : list N) c :
  len b' = len b -> firstn (Z.to_nat c) b' = firstn (Z.to_nat c) b -> fetch b' 0 c = fetch b 0 c.
Proof.
  intros Hl Hf. unfold fetch. rewrite Hl. cbn [Z.to_nat skipn]. now rewrite Hf.
Qed.

Lemma owned_view own wr views v : In v views -> l_owned true wr views (fst v) = true \/ own = false.
Proof.
  intro I. left. unfold l_owned. apply orb_true_iff. right. cbn [andb].
  apply existsb_exists. exists v. split; [assumption | apply Nat.eqb_refl].
Qed.

(* one step: the invariant is kept and every view already handed out reads what it read before *)
Lemma l_step_views st op :
  l_inv st -> lop_ok op ->
  let st' := fst (l_step true st op) in
  l_inv st' /\
  (forall v, In v (l_views st) -> In v (l_views st') /\ l_read_view st' v = l_read_view st v).
Proof.
  intros [Hw Hvs] Hop. cbv zeta. rewrite Forall_forall in Hvs.
  destruct op as [o | | | n b]; cbn [l_step lop_ok] in *.
  - (* write / reserve *)
    destruct (l_wr st) as [[i cur]|] eqn:Ew; [|cbn [fst]; split; [split; [now rewrite Ew | now apply Forall_forall] | intros v I; split; [assumption | reflexivity]]].
    destruct Hw as (Hi & bytes & Hh & Hinv). rewrite Hh.
    pose proof (fbw_step_prefix {| f_bytes := bytes; f_cur := cur |} o Hinv Hop) as P. cbv zeta in P.
    destruct (fbw_step {| f_bytes := bytes; f_cur := cur |} o) as [w' out]. cbn [fst f_cur f_bytes] in *.
    destruct P as (Hinv' & Hcap & Hle & Hpre). unfold f_cap in Hcap. cbn [f_bytes] in Hcap.
    assert (Hw' : w' = {| f_bytes := f_bytes w'; f_cur := f_cur w' |}) by now destruct w'.
    split.
    + split; cbn [l_wr l_next l_heap l_views].
      * split; [exact Hi|]. exists (f_bytes w'). split; [unfold hupd; now rewrite Nat.eqb_refl | now rewrite <- Hw'].
      * apply Forall_forall. intros v I. destruct (Hvs v I) as (Hn & bv & Hbv & Hr & Hc).
        unfold view_inv. cbn [l_wr l_next l_heap]. split; [exact Hn|].
        unfold hupd. destruct (Nat.eqb_spec (fst v) i) as [E|NE].
        -- exists (f_bytes w'). rewrite E in Hbv. rewrite Hh in Hbv. inversion Hbv; subst bv.
           split; [reflexivity|]. split; [lia|]. intros c' Hc'. inversion Hc'; subst.
           specialize (Hc cur Ew). lia.
        -- exists bv. split; [exact Hbv|]. split; [exact Hr|]. intros c' Hc'. inversion Hc'. congruence.
    + intros v I. split; [exact I|]. unfold l_read_view. cbn [l_heap]. unfold hupd.
      destruct (Nat.eqb_spec (fst v) i) as [E|NE]; [|reflexivity].
      destruct (Hvs v I) as (_ & bv & Hbv & Hr & Hc). rewrite E in *. rewrite Hh in *. inversion Hbv; subst bv.
      specialize (Hc cur). rewrite Ew in Hc. specialize (Hc eq_refl).
      apply fetch0_firstn; [exact Hcap|].
      assert (M : Z.to_nat (snd v) = Nat.min (Z.to_nat (snd v)) (Z.to_nat cur)) by lia.
      rewrite M, <- !firstn_firstn. now rewrite Hpre.
  - (* getWrittenView *)
    destruct (l_wr st) as [[i cur]|] eqn:Ew; [|cbn [fst]; split; [split; [now rewrite Ew | now apply Forall_forall] | intros v I; split; [assumption | reflexivity]]].
    cbn [fst]. destruct Hw as (Hi & bytes & Hh & Hinv). split.
    + split; cbn [l_wr l_next l_heap l_views]; rewrite ?Ew.
      * split; [exact Hi|]. now exists bytes.
      * apply Forall_forall. intros v I. apply in_app_or in I as [I | [<- | []]].
        -- destruct (Hvs v I) as (Hn & bv & Hbv & Hr & Hc). rewrite Ew in Hc. split; [exact Hn|]. exists bv. cbn [l_heap l_wr]. now repeat split.
        -- split; [exact Hi|]. exists bytes. cbn [fst snd l_heap l_wr]. split; [exact Hh|].
           destruct Hinv as [Hc _]. unfold f_cap in Hc. cbn [f_cur f_bytes] in Hc. split; [lia|].
           intros c' Hc'. inversion Hc'. lia.
    + intros v I. split; [cbn [l_views]; apply in_or_app; now left | reflexivity].
  - (* the writer is destroyed *)
    destruct (l_wr st) as [[i cur]|] eqn:Ew; [|cbn [fst]; split; [split; [now rewrite Ew | now apply Forall_forall] | intros v I; split; [assumption | reflexivity]]].
    cbn [fst]. unfold l_gc. cbn [l_wr l_views l_heap l_next].
    assert (K : forall v, In v (l_views st) -> l_owned true None (l_views st) (fst v) = true).
    { intros v I. destruct (owned_view true None (l_views st) v I); [assumption | discriminate]. }
    split.
    + split; cbn [l_wr l_views l_heap l_next]; [exact I|].
      apply Forall_forall. intros v I. destruct (Hvs v I) as (Hn & bv & Hbv & Hr & Hc).
      split; [exact Hn|]. exists bv. cbn [l_heap l_wr]. rewrite (K v I). split; [exact Hbv|]. split; [exact Hr|]. discriminate.
    + intros v I. split; [exact I|]. unfold l_read_view. cbn [l_heap]. now rewrite (K v I).
  - (* the writer's buffer is re-seated *)
    destruct (l_wr st) as [[i cur]|] eqn:Ew; [|cbn [fst]; split; [split; [now rewrite Ew | now apply Forall_forall] | intros v I; split; [assumption | reflexivity]]].
    cbn [fst]. unfold l_gc. cbn [l_wr l_views l_heap l_next].
    set (j := l_next st).
    assert (K : forall v, In v (l_views st) ->
                l_owned true (Some (j, 0)) (l_views st) (fst v) = true /\ hupd (l_heap st) j (Some (repeat b (Z.to_nat n))) (fst v) = l_heap st (fst v)).
    { intros v I. split.
      - destruct (owned_view true (Some (j, 0)) (l_views st) v I); [assumption | discriminate].
      - destruct (Hvs v I) as (Hn & _). unfold hupd. destruct (Nat.eqb_spec (fst v) j); [unfold j in *; lia | reflexivity]. }
    split.
    + split; cbn [l_wr l_views l_heap l_next].
      * split; [lia|]. exists (repeat b (Z.to_nat n)). split.
        -- unfold l_owned. rewrite Nat.eqb_refl. cbn [orb]. unfold hupd. now rewrite Nat.eqb_refl.
        -- unfold fbw_inv, f_cap. cbn [f_cur f_bytes]. unfold len. rewrite repeat_length. lia.
      * apply Forall_forall. intros v I. destruct (Hvs v I) as (Hn & bv & Hbv & Hr & Hc). destruct (K v I) as [K1 K2].
        split; [cbn [l_next]; lia|]. exists bv. cbn [l_heap l_wr]. rewrite K1, K2. split; [exact Hbv|]. split; [exact Hr|].
        intros c' Hc'. inversion Hc'. unfold j in *. lia.
    + intros v I. destruct (K v I) as [K1 K2]. split; [exact I|]. unfold l_read_view. cbn [l_heap]. now rewrite K1, K2.
Qed.

Lemma l_run_views ops : forall st,
  l_inv st -> Forall lop_ok ops ->
  l_inv (l_run true st ops) /\
  forall v, In v (l_views st) -> In v (l_views (l_run true st ops)) /\ l_read_view (l_run true st ops) v = l_read_view st v.
Proof.
  unfold l_run. induction ops as [|op ops IH]; intros st Hinv Hops; cbn [fold_left].
  - split; [exact Hinv | intros v I; split; [exact I | reflexivity]].
  - inversion Hops as [|? ? Ho Hops']; subst.
    destruct (l_step_views st op Hinv Ho) as [Hinv' Hv]. cbv zeta in *.
    destruct (IH _ Hinv' Hops') as [Hinv'' Hv']. split; [exact Hinv''|].
    intros v I. destruct (Hv v I) as [I' E']. destruct (Hv' v I') as [I'' E'']. split; [exact I''|]. congruence.
Qed.

Lemma l_init_inv cap bg : 0 <= cap < 2 ^ 64 -> l_inv (l_init cap bg).
Proof.
  intro H. unfold l_inv, l_init. cbn [l_wr l_views l_next l_heap]. split; [|constructor].
  split; [lia|]. exists (repeat bg (Z.to_nat cap)). split; [reflexivity|].
  unfold fbw_inv, f_cap. cbn [f_cur f_bytes]. unfold len. rewrite repeat_length. lia.
Qed.

(* a view that exists reads its bytes: never a released allocation *)
Lemma l_inv_read st v : l_inv st -> In v (l_views st) ->
  exists bs, l_read_view st v = Some bs /\ len bs = snd v.
Proof.
  intros [_ Hvs] I. rewrite Forall_forall in Hvs. destruct (Hvs v I) as (_ & bytes & Hb & Hr & _).
  unfold l_read_view. rewrite Hb. unfold fetch.
  destruct ((0 <=? 0) && (0 <=? snd v) && (0 + snd v <=? len bytes)) eqn:E; [|exfalso; lia].
  eexists. split; [reflexivity|]. cbn [Z.to_nat skipn]. unfold len. rewrite firstn_length. unfold len in Hr. lia.
Qed.

(* THE statement: history ops1, then v = getWrittenView(), then ANY history ops2 (writes,
   reservations, more views, destruction of the writer, re-seating of its buffer): reading v gives
   exactly what getWrittenView described when it was taken - the first cursor bytes written *)
Lemma view_outlives_writer cap bg ops1 ops2 i cur bytes :
  0 <= cap < 2 ^ 64 -> Forall lop_ok ops1 -> Forall lop_ok ops2 ->
  let st1 := l_run true (l_init cap bg) ops1 in
  l_wr st1 = Some (i, cur) -> l_heap st1 i = Some bytes ->
  let st2 := l_run true (fst (l_step true st1 LView)) ops2 in
  In (i, cur) (l_views st2) /\
  l_read_view st2 (i, cur) = fbw_view {| f_bytes := bytes; f_cur := cur |} /\
  exists bs, l_read_view st2 (i, cur) = Some bs /\ len bs = cur.
Proof.
  intros Hcap H1 H2. cbv zeta. intros Hw Hh.
  destruct (l_run_views ops1 _ (l_init_inv cap bg Hcap) H1) as [Hinv1 _].
  set (st1 := l_run true (l_init cap bg) ops1) in *.
  destruct (l_step_views st1 LView Hinv1 I) as [HinvV _]. cbv zeta in HinvV.
  assert (InV : In (i, cur) (l_views (fst (l_step true st1 LView)))).
  { cbn [l_step]. rewrite Hw. cbn [fst l_views]. apply in_or_app. right. now left. }
  destruct (l_run_views ops2 _ HinvV H2) as [Hinv2 Hv]. destruct (Hv _ InV) as [In2 E2].
  split; [exact In2|]. split.
  - rewrite E2. cbn [l_step]. rewrite Hw. unfold l_read_view, fbw_view. cbn [fst snd l_heap f_bytes f_cur]. now rewrite Hh.
  - exact (l_inv_read _ _ Hinv2 In2).
Qed.

(* the non-owning variant (own = false): write one byte, take the view, destroy the writer -
   the view now points into released storage *)
Lemma view_nonowning_refuted :
  exists cap bg ops v,
    Forall lop_ok ops /\ In v (l_views (l_run false (l_init cap bg) ops)) /\
    l_read_view (l_run false (l_init cap bg) ops) v = None /\
    l_read_view (l_run true (l_init cap bg) ops) v = Some [65%N].
Proof.
  exists 2, 238%N, [LStep (FWrite (Some [65%N]) 1); LView; LKill], (O, 1).
  split; [repeat constructor; vm_compute; try discriminate; reflexivity|].
  split; [vm_compute; now left|]. split; vm_compute; reflexivity.
Qed.
