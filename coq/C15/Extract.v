From Coq Require Import Extraction ExtrOcamlBasic ZArith NArith List.
From C15 Require Import Model.
Extraction "Model.ml" len wrap le_bytes le_val typed chunks encode encode_seq
  fetch store rd_read rd_view rd_end get get_seq reader_of decode decode_seq get_into get_into_seq read_into default_value l_step l_read_view l_init l_heap l_wr l_views h_step h_init h_buf h_curs x_step x_init x_h x_msgs
  bw_write bw_put_seq wsc_write wsc_put_seq
  fbw_step fbw_available fbw_capacity fbw_view fbw_init fbw_write_chunks f_cap
  Z.of_nat Z.to_nat Z.of_N Z.to_N N.of_nat N.to_nat.
