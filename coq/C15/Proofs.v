(* C15 - proofs.  Part 1: single-call facts about the bounds checks. *)
From Common Require Import Prelude.
From C15 Require Import Model.
Local Open Scope Z_scope.

Lemma len_nonneg {A} (l : list A) : 0 <= len l.
Proof. unfold len. lia. Qed.

Lemma two64_pos : 0 < 2 ^ 64.
Proof. reflexivity. Qed.

Lemma wrap_small z : 0 <= z < 2 ^ 64 -> wrap z = z.
Proof. intro H. unfold wrap. apply Z.mod_small. exact H. Qed.

(* ------------------------------------------------------------ reader, one call *)
Lemma rd_read_no_oob r mem size :
  0 <= size -> 0 <= r_cur r -> rd_read r mem size <> ROob.
Proof.
  intros Hs Hc. unfold rd_read, rd_read_gen, rd_throws.
  destruct (_ || _) eqn:Echk; [discriminate|].
  destruct (mem && (size >? 0)) eqn:Em; [|discriminate].
  unfold fetch.
  destruct ((0 <=? r_cur r) && (0 <=? size) && (r_cur r + size <=? len (r_buf r))) eqn:Ef;
    [discriminate|].
  exfalso. lia.
Qed.

Lemma rd_read_throws_iff r mem size :
  0 <= size -> 0 <= r_cur r <= len (r_buf r) ->
  (rd_read r mem size = RThrow <-> r_cur r + size > len (r_buf r)).
Proof.
  intros Hs Hc. unfold rd_read, rd_read_gen, rd_throws.
  destruct (_ || _) eqn:Echk.
  - split; [intros _; lia | reflexivity].
  - split; [|intro; exfalso; lia].
    destruct (mem && (size >? 0)); [|discriminate].
    unfold fetch. destruct (_ && _ && _); discriminate.
Qed.

Lemma rd_view_in_bounds r count off sz r' :
  0 <= count < 2 ^ 64 -> 0 <= r_cur r -> len (r_buf r) < 2 ^ 64 ->
  rd_view r count = ROk (off, sz) r' ->
  0 <= off /\ 0 <= sz /\ off + sz <= len (r_buf r) /\ sz = count /\
  r_cur r' = r_cur r + count /\ r_buf r' = r_buf r.
Proof.
  intros Hc H0 Hlen. unfold rd_view, rd_view_gen, rd_throws, rd_advance.
  rewrite Z.mul_1_r. rewrite (wrap_small count Hc).
  destruct (_ || _) eqn:E; [discriminate|].
  intro H. injection H as Ho Hs Hr. subst off sz r'. cbn [r_cur r_buf].
  assert (Hle : r_cur r + count <= len (r_buf r)) by lia.
  pose proof (len_nonneg (r_buf r)).
  rewrite wrap_small by lia. repeat split; try reflexivity; lia.
Qed.

Lemma rd_view_throws_iff r count :
  0 <= count < 2 ^ 64 -> 0 <= r_cur r <= len (r_buf r) ->
  (rd_view r count = RThrow <-> r_cur r + count > len (r_buf r)).
Proof.
  intros Hc H0. unfold rd_view, rd_view_gen, rd_throws.
  rewrite Z.mul_1_r, (wrap_small count Hc).
  destruct (_ || _) eqn:E.
  - split; [intros _; lia | reflexivity].
  - split; [discriminate | intro; exfalso; lia].
Qed.

(* ------------------------------------------------------ fixed writer, one call *)
Definition fop_size (o : fop) : Z :=
  match o with FWrite _ s => s | FReserve s _ => s end.
Definition fop_mem (o : fop) : option (list N) :=
  match o with FWrite m _ => m | FReserve _ m => m end.
(* the caller's side of the contract: a non-null block has the stated size *)
Definition fop_ok (o : fop) : Prop :=
  0 <= fop_size o < 2 ^ 64 /\
  match fop_mem o with Some bs => len bs = fop_size o | None => True end.

Definition fbw_inv (w : fbw) : Prop := 0 <= f_cur w <= f_cap w /\ f_cap w < 2 ^ 64.

Definition accepted (out : fout) : Prop :=
  match out with FOk | FPtr _ => True | _ => False end.

Lemma fbw_put_ok w mem size ok :
  fbw_inv w -> 0 <= size <= f_cap w - f_cur w ->
  match mem with Some bs => len bs = size | None => True end ->
  exists b', fbw_put w mem size ok = ({| f_bytes := b'; f_cur := f_cur w + size |}, ok) /\
             len b' = f_cap w /\
             firstn (Z.to_nat (f_cur w)) b' = firstn (Z.to_nat (f_cur w)) (f_bytes w) /\
             skipn (Z.to_nat (f_cur w + size)) b' = skipn (Z.to_nat (f_cur w + size)) (f_bytes w) /\
             firstn (Z.to_nat size) (skipn (Z.to_nat (f_cur w)) b') =
               match mem with Some bs => bs
                            | None => firstn (Z.to_nat size) (skipn (Z.to_nat (f_cur w)) (f_bytes w)) end.
Proof.
  intros [Hc Hcap] Hs Hm. unfold fbw_put, fbw_advance, f_cap in *.
  assert (Hw : wrap (f_cur w + size) = f_cur w + size) by (apply wrap_small; lia).
  rewrite Hw.
  assert (Hsame : exists b', (({| f_bytes := f_bytes w; f_cur := f_cur w + size |}, ok) =
                   ({| f_bytes := b'; f_cur := f_cur w + size |}, ok)) /\
             len b' = len (f_bytes w) /\
             firstn (Z.to_nat (f_cur w)) b' = firstn (Z.to_nat (f_cur w)) (f_bytes w) /\
             skipn (Z.to_nat (f_cur w + size)) b' = skipn (Z.to_nat (f_cur w + size)) (f_bytes w) /\
             firstn (Z.to_nat size) (skipn (Z.to_nat (f_cur w)) b') =
               firstn (Z.to_nat size) (skipn (Z.to_nat (f_cur w)) (f_bytes w))).
  { exists (f_bytes w). repeat split; reflexivity. }
  destruct mem as [bs|]; [|exact Hsame].
  destruct (size >? 0) eqn:Es.
  2:{ destruct Hsame as [b' (H1 & H2 & H3 & H4 & H5)]. exists b'. repeat split; try assumption.
      rewrite H5. assert (Hz : size = 0) by lia. rewrite Hz in *.
      destruct bs; [reflexivity | unfold len in Hm; simpl in Hm; lia]. }
  unfold store.
  destruct ((0 <=? f_cur w) && (f_cur w + len bs <=? len (f_bytes w))) eqn:Est; [|exfalso; lia].
  eexists. split; [reflexivity|].
  set (B := f_bytes w) in *. set (c := f_cur w) in *.
  assert (Hlf : length (firstn (Z.to_nat c) B) = Z.to_nat c).
  { rewrite firstn_length. unfold len in *. lia. }
  repeat split.
  - unfold len in *. rewrite !app_length, Hlf, skipn_length. lia.
  - rewrite firstn_app, Hlf, Nat.sub_diag. simpl. rewrite app_nil_r.
    rewrite firstn_firstn, Nat.min_id. reflexivity.
  - rewrite Hm. rewrite app_assoc.
    assert (Hl2 : length (firstn (Z.to_nat c) B ++ bs) = Z.to_nat (c + size)).
    { rewrite app_length, Hlf. unfold len in *. lia. }
    rewrite skipn_app, Hl2, Nat.sub_diag. simpl.
    rewrite (skipn_all2 (firstn (Z.to_nat c) B ++ bs)) by lia. reflexivity.
  - rewrite skipn_app, Hlf, Nat.sub_diag. simpl.
    rewrite (skipn_all2 (firstn (Z.to_nat c) B)) by lia. simpl.
    rewrite firstn_app. assert (Hlb : length bs = Z.to_nat size) by (unfold len in *; lia).
    rewrite <- Hlb, Nat.sub_diag, firstn_all. simpl. apply app_nil_r.
Qed.

(* accept exactly when it fits; a rejected call changes nothing; an accepted one
   advances the cursor by size, keeps the capacity, never leaves the buffer *)
Lemma fbw_step_spec w o :
  fbw_inv w -> fop_ok o ->
  let (w', out) := fbw_step w o in
  (accepted out <-> fop_size o <= f_cap w - f_cur w) /\
  (~ accepted out -> out = FThrow /\ w' = w) /\
  (accepted out -> f_cur w' = f_cur w + fop_size o /\ f_cap w' = f_cap w /\ fbw_inv w' /\
                   out = match o with FWrite _ _ => FOk | FReserve _ _ => FPtr (f_cur w) end).
Proof.
  intros Hinv [Hsz Hmem].
  assert (Hinv' := Hinv). destruct Hinv' as [Hc Hcap].
  destruct (fbw_step w o) as [w' out] eqn:E.
  unfold fbw_step, fbw_step_gen, fbw_rejects in E.
  destruct o as [mem size | size mem]; cbn [fop_size fop_mem] in *.
  - destruct (_ || _) eqn:Echk.
    + inversion E; subst. cbn. repeat split; try tauto; intros; try lia; tauto.
    + destruct (fbw_put_ok w mem size FOk Hinv ltac:(lia) Hmem) as [b' (Hp & Hl & _)].
      rewrite Hp in E. inversion E; subst. cbn [accepted f_cur f_cap f_bytes].
      unfold fbw_inv, f_cap in *. cbn [f_cur f_bytes].
      repeat split; intros; try lia; try tauto.
  - destruct (_ || _) eqn:Echk.
    + inversion E; subst. cbn. repeat split; try tauto; intros; try lia; tauto.
    + destruct (fbw_put_ok w mem size (FPtr (f_cur w)) Hinv ltac:(lia) Hmem) as [b' (Hp & Hl & _)].
      rewrite Hp in E. inversion E; subst. cbn [accepted f_cur f_cap f_bytes].
      unfold fbw_inv, f_cap in *. cbn [f_cur f_bytes].
      repeat split; intros; try lia; try tauto.
Qed.
