(* C15 - proofs.  Part 4: operator>> reads INTO an existing object.  Whatever the destination
   held before (a reused vector, a pre-filled string, stale POD bytes), the result is the value
   that was written: get_into does not depend on its destination. *)
From Common Require Import Prelude.
From C15 Require Import Model Proofs ProofsCodec.
Local Open Scope Z_scope.

Lemma rd_read_length r size bs r1 : rd_read r true size = ROk bs r1 -> length bs = Z.to_nat size.
Proof.
  unfold rd_read, rd_read_gen. destruct (rd_throws r size); [discriminate|]. cbn [andb].
  destruct (size >? 0) eqn:E.
  - unfold fetch. destruct ((0 <=? r_cur r) && (0 <=? size) && (r_cur r + size <=? len (r_buf r))) eqn:F; [|discriminate].
    intro H. inversion H; subst. rewrite firstn_length, skipn_length. unfold len in F. lia.
  - intro H. inversion H; subst. simpl. lia.
Qed.

Lemma overwrite_full dst bs : (length dst <= length bs)%nat -> overwrite dst bs = bs.
Proof. intro H. unfold overwrite. rewrite skipn_all2 by exact H. apply app_nil_r. Qed.

Lemma resize_list_length {A} (l : list A) n d : length (resize_list l n d) = n.
Proof. unfold resize_list. rewrite app_length, firstn_length, repeat_length. lia. Qed.

Lemma rep_into_eq (gi : value -> reader -> rres value) (g : reader -> rres value) :
  (forall o r, gi o r = g r) -> forall olds r, rep_into gi olds r = rep_get g (length olds) r.
Proof.
  intros H olds. induction olds as [|o os IH]; intro r; [reflexivity|].
  cbn [rep_into rep_get length]. rewrite H. destruct (g r) as [| |v r1]; cbn [rbind]; try reflexivity.
  now rewrite IH.
Qed.

(* destination-independence: the object read into does not influence the result *)
Lemma get_into_eq sh : forall old r, get_into sh old r = get sh r.
Proof.
  induction sh as [n | | sh' IH | e]; intros old r; cbn [get_into get].
  - destruct (rd_read r true n) as [| |bs r1] eqn:E; cbn [rbind]; try reflexivity.
    apply rd_read_length in E. rewrite overwrite_full; [reflexivity|]. rewrite firstn_length. lia.
  - destruct (rd_read r true 8) as [| |szb r1]; cbn [rbind]; try reflexivity. cbv zeta.
    destruct (rd_read r1 true (le_val szb)) as [| |s r2] eqn:E; cbn [rbind]; try reflexivity.
    apply rd_read_length in E. rewrite overwrite_full; [reflexivity|]. rewrite resize_list_length. lia.
  - destruct (rd_read r true 8) as [| |szb r1]; cbn [rbind]; try reflexivity. cbv zeta.
    rewrite (rep_into_eq (get_into sh') (get sh') IH), resize_list_length. reflexivity.
  - reflexivity.
Qed.

Lemma get_into_seq_eq shs : forall olds r, get_into_seq shs olds r = get_seq shs r.
Proof.
  induction shs as [|sh shs IH]; intros olds r; [reflexivity|].
  cbn [get_into_seq get_seq]. rewrite get_into_eq. destruct (get sh r) as [| |v r1]; cbn [rbind]; try reflexivity.
  now rewrite IH.
Qed.

(* read_into old (encode v ++ r) = (v, r) for EVERY old *)
Lemma read_into_encode sh v r old :
  typed sh v = true -> len (encode v ++ r) < 2 ^ 64 -> read_into sh old (encode v ++ r) = Some (v, r).
Proof.
  intros Hty Hl. unfold read_into. rewrite get_into_eq.
  exact (decode_encode sh v r Hty Hl).
Qed.

(* sequences, pre-filled destinations, and the same destinations used again for a second
   pass over the same stream (olds2 = whatever the first pass left, or anything else) *)
Lemma seq_read_into shs vs r olds olds2 :
  Forall2 (fun sh v => typed sh v = true) shs vs -> len (encode_seq vs ++ r) < 2 ^ 64 ->
  exists rd, get_into_seq shs olds (reader_of (encode_seq vs ++ r)) = ROk vs rd /\
             r_cur rd = len (encode_seq vs) /\
             get_into_seq shs olds2 (reader_of (encode_seq vs ++ r)) = ROk vs rd.
Proof.
  intros Hty Hl. destruct (seq_roundtrip shs vs r Hty Hl) as (_ & rd & Hg & _ & Hc).
  exists rd. rewrite !get_into_seq_eq. repeat split; assumption.
Qed.

(* the append-based rewrite (reserve + push_back) keeps the old elements in front: it is the
   specified reader only for an EMPTY destination - which is why a run that always reads into
   fresh objects cannot see the difference *)
Lemma vec_append_fresh_ok sh' r : get_into_vec_append sh' (VVec []) r = get (SVec sh') r.
Proof.
  unfold get_into_vec_append. cbn [get old_elems app].
  destruct (rd_read r true 8) as [| |szb r1]; reflexivity.
Qed.

Lemma vec_append_refuted :
  exists sh' old v, typed (SVec sh') v = true /\ typed (SVec sh') old = true /\
    get_into (SVec sh') old (reader_of (encode v)) = ROk v {| r_buf := encode v; r_cur := len (encode v) |} /\
    exists v', get_into_vec_append sh' old (reader_of (encode v)) = ROk v' {| r_buf := encode v; r_cur := len (encode v) |} /\ v' <> v.
Proof.
  exists (SRaw 1), (VVec [VRaw [7%N]]), (VVec [VRaw [1%N]]).
  split; [reflexivity|]. split; [reflexivity|]. split; [vm_compute; reflexivity|].
  eexists. split; [vm_compute; reflexivity | discriminate].
Qed.
