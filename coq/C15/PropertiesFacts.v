(* C15 - source-derived obligations.  gen/Facts.v is regenerated from the working tree's
   DataStreaming.{h,cpp} (clang JSON AST) by props/C15/factgen.py on every run; the theorems
   below are about the EXTRACTED statement lists and expression trees, and connect them to the
   functions of Model.v that the theorems of Properties.v are about.  Kept apart from
   Properties.v so that a broken fact does not take the hand theorems down. *)
From Common Require Import Prelude.
From C15 Require Import Model Proofs ProofsCodec ProofsFixed ProofsInto ProofsLife ProofsHist FactsModel FactsCheck.
From C15.gen Require Import Facts.
Local Open Scope Z_scope.

Theorem src_read_is_model : forall r mem size,
  0 <= r_cur r -> len (r_buf r) < 2 ^ 64 ->
  exec_rd gen_read mem size r [] = rd_read r mem size.
Proof. exact FactsCheck.src_read_is_model. Qed.
Print Assumptions src_read_is_model.

Theorem src_read_in_bounds : forall r mem size,
  0 <= size -> 0 <= r_cur r -> len (r_buf r) < 2 ^ 64 ->
  exec_rd gen_read mem size r [] <> ROob.
Proof. exact FactsCheck.src_read_in_bounds. Qed.
Print Assumptions src_read_in_bounds.

Theorem src_view_is_model : forall r count,
  0 <= r_cur r -> len (r_buf r) < 2 ^ 64 ->
  exec_vw gen_view count r (0, 0) = rd_view r count.
Proof. exact FactsCheck.src_view_is_model. Qed.
Print Assumptions src_view_is_model.

Theorem src_view_throws_iff : forall r count,
  0 <= count < 2 ^ 64 -> 0 <= r_cur r <= len (r_buf r) -> len (r_buf r) < 2 ^ 64 ->
  (exec_vw gen_view count r (0, 0) = RThrow <-> r_cur r + count > len (r_buf r)).
Proof. exact FactsCheck.src_view_throws_iff. Qed.
Print Assumptions src_view_throws_iff.

Theorem src_fwrite_is_model : forall w m size,
  0 <= f_cur w -> f_cap w < 2 ^ 64 -> 0 <= size ->
  match m with Some bs => len bs = size | None => True end ->
  exec_fw gen_fwrite m size w FOk = fbw_step w (FWrite m size).
Proof. exact FactsCheck.src_fwrite_is_model. Qed.
Print Assumptions src_fwrite_is_model.

Theorem src_freserve_is_model : forall w size,
  0 <= f_cur w -> f_cap w < 2 ^ 64 ->
  exec_fw gen_freserve None size w FOk = fbw_step w (FReserve size None).
Proof. exact FactsCheck.src_freserve_is_model. Qed.
Print Assumptions src_freserve_is_model.

Theorem src_fwrite_accept_iff_fits : forall w m size,
  fbw_inv w -> fop_ok (FWrite m size) ->
  let (w', out) := exec_fw gen_fwrite m size w FOk in
  (accepted out <-> size <= f_cap w - f_cur w) /\ (~ accepted out -> out = FThrow /\ w' = w).
Proof. exact FactsCheck.src_fwrite_accept_iff_fits. Qed.
Print Assumptions src_fwrite_accept_iff_fits.

Theorem src_end_is_model : forall r, beval (renv r false 0) (nb gen_end) = rd_end r.
Proof. exact FactsCheck.src_end_is_model. Qed.
Print Assumptions src_end_is_model.

Theorem src_available_is_model : forall w, seval (fenv w None 0) gen_available = fbw_available w.
Proof. exact FactsCheck.src_available_is_model. Qed.
Print Assumptions src_available_is_model.

Theorem src_capacity_is_model : forall w, seval (fenv w None 0) gen_capacity = fbw_capacity w.
Proof. exact FactsCheck.src_capacity_is_model. Qed.
Print Assumptions src_capacity_is_model.

Theorem src_prefix_is_size_t :
  map fst gen_prefix = prefix_ids /\
  forall id w x, In (id, w) gen_prefix -> le_bytes (Z.to_nat w) x = le_bytes 8 x.
Proof. exact FactsCheck.src_prefix_is_size_t. Qed.
Print Assumptions src_prefix_is_size_t.

Theorem src_array_overload : gen_guard = true /\ overload_ok gen_overload = true.
Proof. exact FactsCheck.src_array_overload. Qed.
Print Assumptions src_array_overload.

(* the statement shapes of the vector / string read overloads (resize(sz) before the element loop /
   before read()) make them the specified readers for EVERY previous content of the destination *)
Theorem src_vector_read_is_model : forall sh' old r,
  exec_vecread gen_vec_read sh' 0 (old_elems old) r = get (SVec sh') r.
Proof. exact FactsCheck.src_vector_read_is_model. Qed.
Print Assumptions src_vector_read_is_model.

Theorem src_string_read_is_model : forall old r,
  exec_strread gen_str_read 0 (old_bytes old) r = get SStr r.
Proof. exact FactsCheck.src_string_read_is_model. Qed.
Print Assumptions src_string_read_is_model.

(* FixedArrayView's constructor gives the view its own share of the allocation (init list of the
   member [data], FixedArray's storage is a shared_ptr): the lifetime model runs with own = true *)
Theorem src_view_owns_share :
  fav_owns gen_fav_init gen_fav_ptr gen_fixedarray_shared_storage = true /\
  forall st op, l_step (fav_owns gen_fav_init gen_fav_ptr gen_fixedarray_shared_storage) st op = l_step true st op.
Proof. exact FactsCheck.src_view_owns_share. Qed.
Print Assumptions src_view_owns_share.

Theorem src_written_view_is_model :
  gen_wview_from_buffer = true /\
  forall w, fetch (f_bytes w) (seval (fenv w None 0) gen_wview_off) (seval (fenv w None 0) gen_wview_size) = fbw_view w.
Proof. exact FactsCheck.src_written_view_is_model. Qed.
Print Assumptions src_written_view_is_model.

(* the CLOSED list of stream operators of DataStreaming.h *)
Theorem src_overload_set_closed : gen_overloads = exp_overloads.
Proof. exact FactsCheck.src_overload_set_closed. Qed.
Print Assumptions src_overload_set_closed.

(* overload selection per (stream static type, value kind), first operand of a chain: the selected
   overload issues the chunks of encode / computes get; all 4 x 8 + 2 x 5 pairs are covered *)
Theorem src_overload_selection :
  (forall s k o, In (s, k, o) gen_selection -> (s <= 4)%N ->
     forall v, kind_value k v = true -> ovl_chunks o v = Some (chunks v)) /\
  (forall s k o, In (s, k, o) gen_selection -> (5 <= s)%N ->
     forall sh r, kind_shape k sh = true -> ovl_get o sh r = Some (get sh r)) /\
  map (fun t => fst t) gen_selection = map (fun t => fst t) exp_selection.
Proof. exact FactsCheck.src_overload_selection. Qed.
Print Assumptions src_overload_selection.

(* BufferReader keeps nothing but (buffer, cursor); the extracted read() run on the reader of the
   history model IS the history step: observations depend on the buffer's current contents only *)
Theorem src_reader_state_is_buffer_and_cursor :
  gen_reader_state = true /\
  forall st k c mem size, nth_error (h_curs st) k = Some c -> 0 <= c -> len (h_buf st) < 2 ^ 64 ->
    match exec_rd gen_read mem size (h_reader st c) [] with
    | ROk bs r' => h_step st (HRead k mem size) = ({| h_buf := h_buf st; h_curs := set_nth (h_curs st) k (r_cur r') |}, HBytes bs)
    | RThrow => h_step st (HRead k mem size) = (st, HThrow)
    | ROob => h_step st (HRead k mem size) = (st, HOob)
    end.
Proof. exact FactsCheck.src_reader_state_is_buffer_and_cursor. Qed.
Print Assumptions src_reader_state_is_buffer_and_cursor.
