(* C11 — step-local theorems about the repaired operations (corollaries of WF). *)
From Common Require Import Prelude.
From C11 Require Import Model Spec Lists Proofs Inv Inv2 Inv3 Inv4 Inv5 Inv6 InvCor.

Lemma elems_eq st i :
  elems st i = match slot_arr st (slot_at st i) with Some a => Some (arr_iter (heap st) a) | None => None end.
Proof. unfold elems, observe_slot. destruct (slot_arr st (slot_at st i)); reflexivity. Qed.

Lemma slot_at_set st i s : i < length (slots st) -> slot_at (set_slot st i s) i = s.
Proof. intro H. unfold slot_at, set_slot. cbn [slots]. rewrite nth_error_upd_eq; auto. Qed.
Lemma slot_at_inv st i s : slot_at st i = s -> s <> SEmpty -> nth_error (slots st) i = Some s.
Proof. intros H N. subst s. apply slot_at_nonempty. exact N. Qed.

(* whole-buffer iteration *)
Lemma iter_whole h b bu : nth_error h b = Some bu -> b_alive bu = true ->
  arr_iter h (set_ptr (Some (b, 0)) (length (b_cells bu))) = map RVal (b_cells bu).
Proof.
  intros Hb Ha. unfold set_ptr. destruct (Nat.eqb_spec (length (b_cells bu)) 0) as [E|E].
  - rewrite E. destruct (b_cells bu); [reflexivity | discriminate].
  - rewrite (iter_live h b 0 _ bu Hb Ha) by lia. cbn [skipn]. rewrite firstn_all. reflexivity.
Qed.

Lemma rc_alive h b bu : nth_error h b = Some bu -> rc_of h b <> 0 -> b_alive bu = true.
Proof.
  intros H R. rewrite (rc_of_some _ _ _ H) in R. unfold b_alive. destruct (Nat.eqb_spec (b_rc bu) 0); [contradiction | reflexivity].
Qed.

Lemma owned_iter st i a vb : WF st -> nth_error (slots st) i = Some (SOwned a vb) ->
  arr_iter (heap st) a = map RVal (vec_cells st vb) /\ a_len a = length (vec_cells st vb).
Proof.
  intros W Hs. pose proof (wf_slot st W _ _ Hs) as S. destruct vb as [b|]; simpl in S.
  - destruct S as [n [S1 S2]]. apply len_of_inv in S1. destruct S1 as [bu [Q1 Q2]].
    unfold vec_cells. rewrite Q1. subst a n. split.
    + apply iter_whole; auto. eapply rc_alive; eauto.
      rewrite (wf_rc st W b). pose proof (wf_excl_owned st i _ b W Hs). lia.
    + unfold set_ptr; reflexivity.
  - subst a. split; reflexivity.
Qed.

Lemma elems_owned st i a vb : WF st -> nth_error (slots st) i = Some (SOwned a vb) ->
  elems st i = Some (map RVal (vec_cells st vb)).
Proof.
  intros W Hs. rewrite elems_eq. rewrite (slot_at_some _ _ _ Hs). cbn [slot_arr].
  rewrite (proj1 (owned_iter st i a vb W Hs)). reflexivity.
Qed.

(* ------------------------------------------------------------ 3a: resize *)
Lemma vec_resize_cells st vb n v st1 vb' :
  (forall b, vb = Some b -> exists bu, nth_error (heap st) b = Some bu) ->
  vec_resize st vb n v = (st1, vb') ->
  vec_cells st1 vb' = firstn n (vec_cells st vb) ++ repeat v (n - length (vec_cells st vb)).
Proof.
  intros Hin H. unfold vec_resize in H. destruct vb as [b|].
  - destruct (Hin b eq_refl) as [bu Eb]. rewrite Eb in H. unfold vec_cells at 2 3. rewrite Eb.
    destruct (Nat.leb_spec n (length (b_cells bu))) as [L1|L1]; [|destruct (Nat.leb_spec n (b_cap bu)) as [L2|L2]].
    + inversion H; subst st1 vb'. unfold vec_cells, with_heap, hset. cbn [heap].
      rewrite nth_error_hmod, Nat.eqb_refl, Eb. cbn.
      replace (n - length (b_cells bu)) with 0 by lia. cbn. rewrite app_nil_r. reflexivity.
    + inversion H; subst st1 vb'. unfold vec_cells, with_heap, hset. cbn [heap].
      rewrite nth_error_hmod, Nat.eqb_refl, Eb. cbn. rewrite firstn_all2 by lia. reflexivity.
    + unfold alloc in H. inversion H; subst st1 vb'. unfold vec_cells, release_buf, with_heap. cbn [heap].
      unfold hdec. rewrite nth_error_hmod. apply nth_error_lt in Eb.
      destruct (Nat.eqb_spec b (length (heap st))); [lia|]. rewrite nth_error_snoc_eq. cbn.
      rewrite firstn_all2 by lia. reflexivity.
  - cbn [vec_cells length]. destruct n as [|n].
    + inversion H; subst. reflexivity.
    + unfold alloc in H. inversion H; subst st1 vb'. unfold vec_cells, with_heap. cbn [heap].
      rewrite nth_error_snoc_eq. cbn [b_cells]. rewrite firstn_nil. rewrite Nat.sub_0_r. reflexivity.
Qed.

Lemma vec_resize_slots st vb n v st1 vb' : vec_resize st vb n v = (st1, vb') -> slots st1 = slots st.
Proof.
  unfold vec_resize. destruct vb as [b|].
  - destruct (nth_error (heap st) b) as [bu|]; [|intro H; inversion H; reflexivity].
    destruct (n <=? length (b_cells bu)); [|destruct (n <=? b_cap bu)]; intro H; inversion H; reflexivity.
  - destruct n; intro H; inversion H; reflexivity.
Qed.

Lemma resize_tracks_lemma st i a vb n v st1 : WF st ->
  slot_at st i = SOwned a vb -> step_new st (Resize i n v) = Some st1 ->
  exists a' vb', slot_at st1 i = SOwned a' vb' /\ a' = vec_arr st1 vb' /\ a_len a' = n /\
    arr_iter (heap st1) a' = map RVal (firstn n (vec_cells st vb) ++ repeat v (n - length (vec_cells st vb))).
Proof.
  intros W Hs H. pose proof (wf_step st _ st1 W H) as W1.
  assert (Hi : nth_error (slots st) i = Some (SOwned a vb)) by (apply slot_at_inv; [exact Hs | discriminate]).
  unfold step_new in H. cbn [step] in H. unfold op_resize in H. rewrite Hs in H.
  destruct (vec_resize st vb n v) as [st' vb'] eqn:Er. inversion H; subst st1; clear H.
  assert (Hin : forall b, vb = Some b -> exists bu, nth_error (heap st) b = Some bu).
  { intros b E. subst vb. apply rc_in_heap. rewrite (wf_rc st W b). pose proof (wf_excl_owned st i _ b W Hi). lia. }
  pose proof (vec_resize_cells st vb n v st' vb' Hin Er) as Hc.
  pose proof (vec_resize_slots st vb n v st' vb' Er) as Hsl.
  assert (Hat : slot_at (set_slot st' i (SOwned (vec_arr st' vb') vb')) i = SOwned (vec_arr st' vb') vb').
  { apply slot_at_set. rewrite Hsl. eapply nth_error_lt; eauto. }
  assert (Hi1 := slot_at_inv _ _ _ Hat ltac:(discriminate)).
  destruct (owned_iter _ i _ _ W1 Hi1) as [I1 I2].
  assert (Hvc : forall s, vec_cells (set_slot st' i s) vb' = vec_cells st' vb') by reflexivity.
  assert (Hva : forall s, vec_arr (set_slot st' i s) vb' = vec_arr st' vb') by reflexivity.
  exists (vec_arr st' vb'), vb'. split; [exact Hat|]. split; [rewrite Hva; reflexivity|].
  rewrite Hvc in I1, I2. rewrite Hc in I1, I2. split; [|exact I1].
  rewrite I2. rewrite app_length, repeat_length, firstn_length. lia.
Qed.

(* ------------------------------------------------------------ stability of an owning wrapper's elements *)
Definition cells_kept (h h' : list buffer) (b : nat) :=
  forall bu, nth_error h b = Some bu -> exists bu', nth_error h' b = Some bu' /\ b_cells bu' = b_cells bu.

Lemma cells_kept_refl h b : cells_kept h h b. Proof. intros bu H. eauto. Qed.
Lemma cells_kept_trans h1 h2 h3 b : cells_kept h1 h2 b -> cells_kept h2 h3 b -> cells_kept h1 h3 b.
Proof.
  intros A B bu H. destruct (A bu H) as [bu2 [H2 E2]]. destruct (B bu2 H2) as [bu3 [H3 E3]].
  exists bu3. split; auto. congruence.
Qed.
Lemma cells_kept_hdec h b0 b : cells_kept h (hdec h b0) b.
Proof. intros bu H. unfold hdec. rewrite nth_error_hmod. destruct (Nat.eqb b0 b); rewrite H; cbn; eauto. Qed.
Lemma cells_kept_hinc h b0 b : cells_kept h (hinc h b0) b.
Proof. intros bu H. unfold hinc. rewrite nth_error_hmod. destruct (Nat.eqb b0 b); rewrite H; cbn; eauto. Qed.
Lemma cells_kept_app h x b : cells_kept h (h ++ [x]) b.
Proof. intros bu H. exists bu. split; auto. rewrite nth_error_app1; auto. eapply nth_error_lt; eauto. Qed.
Lemma cells_kept_hset h b0 c b : b <> b0 -> cells_kept h (hset h b0 c) b.
Proof.
  intros N bu H. unfold hset. rewrite nth_error_hmod. destruct (Nat.eqb_spec b0 b); [congruence|]. eauto.
Qed.
Ltac ck := repeat first [apply cells_kept_refl | apply cells_kept_hdec | apply cells_kept_hinc | apply cells_kept_app
                        | eapply cells_kept_trans; [|first [apply cells_kept_hdec | apply cells_kept_hinc | apply cells_kept_app]]].

Lemma iter_stable h1 h2 a :
  (forall b off, a_ptr a = Some (b, off) -> cells_kept h1 h2 b) ->
  (forall j, j < a_len a -> exists v, arr_index h1 a j = RVal v) ->
  (forall j, j < a_len a -> exists v, arr_index h2 a j = RVal v) ->
  arr_iter h2 a = arr_iter h1 a.
Proof.
  intros Hc H1 H2. unfold arr_iter. apply map_ext_in. intros j Hj. apply in_seq in Hj.
  destruct (H1 j ltac:(lia)) as [v1 E1]. destruct (H2 j ltac:(lia)) as [v2 E2]. rewrite E1, E2.
  unfold arr_index, read_cell in E1, E2. destruct (a_ptr a) as [[b off]|] eqn:Ep; [|discriminate].
  destruct (nth_error h1 b) as [bu|] eqn:Eb; [|discriminate].
  destruct (Hc b off eq_refl bu Eb) as [bu' [Eb' Ec]]. rewrite Eb' in E2.
  destruct (b_alive bu); [|discriminate]. destruct (b_alive bu'); [|discriminate].
  rewrite Ec in E2. destruct (nth_error (b_cells bu) (off + j)); [|discriminate]. congruence.
Qed.

Lemma elems_stable st1 st2 i1 i2 s1 s2 a : WF st1 -> WF st2 ->
  nth_error (slots st1) i1 = Some s1 -> nth_error (slots st2) i2 = Some s2 -> owning s1 -> owning s2 ->
  slot_arr st1 s1 = Some a -> slot_arr st2 s2 = Some a ->
  (forall b off, a_ptr a = Some (b, off) -> cells_kept (heap st1) (heap st2) b) ->
  elems st2 i2 = elems st1 i1.
Proof.
  intros W1 W2 H1 H2 O1 O2 A1 A2 Hc. rewrite !elems_eq.
  rewrite (slot_at_some _ _ _ H1), (slot_at_some _ _ _ H2), A1, A2. f_equal.
  apply iter_stable; auto.
  - destruct (array_inv_wf st1 i1 s1 a W1 H1 A1) as [_ R]. destruct s1; try contradiction; exact R.
  - destruct (array_inv_wf st2 i2 s2 a W2 H2 A2) as [_ R]. destruct s2; try contradiction; exact R.
Qed.

(* the buffer an owning wrapper designates is not a source container's *)
Lemma owning_not_src st i s a b off k : WF st ->
  nth_error (slots st) i = Some s -> owning s -> slot_arr st s = Some a -> a_ptr a = Some (b, off) ->
  nth_error (srcs st) k = Some (Some b) -> False.
Proof.
  intros W Hs O Ha Hp Hk. pose proof (wf_excl_src st k b W Hk) as X1. pose proof (wf_rc st W b) as RC.
  pose proof (csum_ge1 (w_opt b) (srcs st) k _ Hk) as G1. cbn in G1. rewrite Nat.eqb_refl in G1.
  unfold refs_buf in *. pose proof (wf_slot st W _ _ Hs) as S.
  destruct s as [|a0|a0 vb|f|a0 g]; try contradiction; simpl in Ha.
  - inversion Ha; subst a0. destruct vb as [b'|]; simpl in S.
    + destruct S as [n [S1 S2]]. subst a. unfold set_ptr in Hp. cbn in Hp. destruct (Nat.eqb n 0); [discriminate|].
      inversion Hp; subst b' off.
      pose proof (csum_ge1 (w_slot_buf b) (slots st) i _ Hs) as G2. cbn in G2. rewrite Nat.eqb_refl in G2. lia.
    + subst a. discriminate.
  - destruct (nth_error (fobjs st) f) as [fo|] eqn:Ef; [|discriminate]. inversion Ha; subst a.
    pose proof (wf_excl_fixed st i f W Hs) as X. rewrite <- (wf_rc_fobj st f fo W Ef) in X.
    assert (L : fo_live fo = true) by (unfold fo_live; rewrite X; reflexivity).
    destruct (wf_fobj st W _ _ Ef L) as [A|[b' [n [A [B C]]]]].
    + rewrite A in Hp. discriminate.
    + rewrite C in Hp. unfold set_ptr in Hp. cbn in Hp. destruct (Nat.eqb n 0); [discriminate|].
      inversion Hp; subst b' off. pose proof (live_fobj_buf st f fo b W Ef ltac:(lia) A) as LB.
      pose proof (csum_ge1 (w_fobj b) (fobjs st) f _ Ef) as G2.
      assert (Wf : w_fobj b fo = 1) by (unfold w_fobj; rewrite L, A; cbn; rewrite Nat.eqb_refl; reflexivity).
      lia.
  - inversion Ha; subst a0. destruct g as [g|]; simpl in S.
    + destruct S as [S1 [[o S2] S3]]. destruct (S3 b off Hp) as [P1 _].
      destruct (fobj_ref (slots st) (fobjs st) i _ g (wf_frc st W) Hs) as [fo [Ef Hge]];
        [cbn; rewrite Nat.eqb_refl; reflexivity|].
      rewrite (own_of_some _ _ _ Ef) in P1. inversion P1 as [P1'].
      pose proof (csum_ge1 (w_fobj b) (fobjs st) g _ Ef) as G2.
      assert (Wf : w_fobj b fo = 1).
      { unfold w_fobj, fo_live. destruct (Nat.eqb_spec (fo_rc fo) 0); [lia|]. cbn [negb]. rewrite P1'. cbn.
        rewrite Nat.eqb_refl. reflexivity. }
      lia.
    + subst a. discriminate.
Qed.

(* operations on source container [k] *)

Lemma src_op_frame st k o st2 : src_op k o -> step_new st o = Some st2 ->
  slots st2 = slots st /\ fobjs st2 = fobjs st /\
  forall b, nth_error (srcs st) k <> Some (Some b) -> cells_kept (heap st) (heap st2) b.
Proof.
  intros So H. unfold step_new in H. destruct So as [j v|c|]; cbn [step] in H.
  - destruct (src_buf st k) as [[b0 bu0]|] eqn:Es; [|discriminate]. apply src_buf_inv in Es. destruct Es as [E1 [E2 E3]].
    destruct (j <? length (b_cells bu0)); [|discriminate]. inversion H; subst st2. cbn.
    split; auto. split; auto. intros b Hb. apply cells_kept_hset. congruence.
  - destruct (k <? length (srcs st)); [|discriminate].
    destruct (nth_error (srcs st) k) as [[b0|]|]; cbn in H; inversion H; subst st2; cbn;
      (split; auto; split; auto; intros b Hb; ck).
  - destruct (nth_error (srcs st) k) as [[b0|]|]; try discriminate. cbn in H. inversion H; subst st2; cbn.
    split; auto. split; auto. intros b Hb; ck.
Qed.

Lemma slot_arr_same st1 st2 s : fobjs st2 = fobjs st1 -> slot_arr st2 s = slot_arr st1 s.
Proof. intro E. destruct s; simpl; auto. rewrite E. reflexivity. Qed.

Lemma owning_src_stable st1 st2 i k o e : WF st1 -> src_op k o -> step_new st1 o = Some st2 ->
  owning (slot_at st1 i) -> elems st1 i = Some e -> elems st2 i = Some e.
Proof.
  intros W1 So H O E. pose proof (wf_step st1 _ st2 W1 H) as W2.
  destruct (src_op_frame st1 k o st2 So H) as [F1 [F2 F3]].
  assert (Hs : nth_error (slots st1) i = Some (slot_at st1 i)).
  { apply slot_at_nonempty. intro Z. rewrite Z in O. exact O. }
  rewrite elems_eq in E. destruct (slot_arr st1 (slot_at st1 i)) as [a|] eqn:Ea; [|discriminate].
  rewrite <- E.
  transitivity (elems st1 i); [|rewrite elems_eq, Ea; reflexivity].
  eapply elems_stable with (s1 := slot_at st1 i) (s2 := slot_at st1 i) (a := a); eauto.
  - rewrite F1. exact Hs.
  - rewrite (slot_arr_same st1 st2 _ F2). exact Ea.
  - intros b off Hp. apply F3. intro Hk. eapply (owning_not_src st1 i (slot_at st1 i) a b off k); eauto.
Qed.

(* ------------------------------------------------------------ 3b: owning arrays are independent of the source *)
Lemma from_src_elems st i kd k st1 c : WF st -> (kd = KOwned \/ kd = KFixed) ->
  step_new st (FromSrc i kd k) = Some st1 -> src_cells st k = Some c ->
  owning (slot_at st1 i) /\ elems st1 i = Some (map RVal c).
Proof.
  intros W Hk H Hc. pose proof (wf_step st _ st1 W H) as W1.
  unfold step_new in H. cbn [step] in H. unfold whole in H. unfold src_cells in Hc.
  destruct (src_buf st k) as [[b bu]|]; [|discriminate]. cbn in Hc. inversion Hc; subst c; clear Hc.
  unfold build in H. destruct (slot_free st i) eqn:Hf; [|discriminate].
  assert (Hlt : i < length (slots st)).
  { apply slot_free_inv in Hf. eapply nth_error_lt; eauto. }
  destruct Hk; subst kd.
  - destruct (vec_alloc st (b_cells bu)) as [st' vb'] eqn:Ev. inversion H; subst st1; clear H.
    assert (Hsl : slots st' = slots st /\ vec_cells st' vb' = b_cells bu).
    { unfold vec_alloc in Ev. destruct (b_cells bu) as [|x c0] eqn:Ec.
      - inversion Ev; subst. split; reflexivity.
      - unfold alloc in Ev. inversion Ev; subst st' vb'. split; [reflexivity|].
        unfold vec_cells, with_heap. cbn [heap]. rewrite nth_error_snoc_eq. reflexivity. }
    destruct Hsl as [Hsl Hvc].
    assert (Hat : slot_at (set_slot st' i (SOwned (vec_arr st' vb') vb')) i = SOwned (vec_arr st' vb') vb').
    { apply slot_at_set. rewrite Hsl. exact Hlt. }
    split; [rewrite Hat; exact I|].
    assert (Hi1 := slot_at_inv _ _ _ Hat ltac:(discriminate)).
    rewrite (elems_owned _ i _ _ W1 Hi1).
    change (vec_cells (set_slot st' i (SOwned (vec_arr st' vb') vb')) vb') with (vec_cells st' vb').
    rewrite Hvc. reflexivity.
  - unfold fixed_new, alloc in H. inversion H; subst st1; clear H.
    set (nb := {| b_cells := b_cells bu; b_cap := length (b_cells bu); b_rc := 1 |}) in *.
    rewrite elems_eq. rewrite slot_at_set by exact Hlt. split; [exact I|].
    cbn [slot_arr set_slot with_fobjs with_heap fobjs heap]. rewrite nth_error_snoc_eq. cbn [fo_arr].
    f_equal. apply (iter_whole (heap st ++ [nb]) (length (heap st)) nb); [apply nth_error_snoc_eq | reflexivity].
Qed.

Lemma owned_independent_lemma st i kd k st1 c : WF st -> (kd = KOwned \/ kd = KFixed) ->
  step_new st (FromSrc i kd k) = Some st1 -> src_cells st k = Some c ->
  elems st1 i = Some (map RVal c) /\
  forall o st2, src_op k o -> step_new st1 o = Some st2 -> elems st2 i = Some (map RVal c).
Proof.
  intros W Hk H Hc. destruct (from_src_elems st i kd k st1 c W Hk H Hc) as [O E].
  split; [exact E|]. intros o st2 So H2.
  pose proof (wf_step st _ st1 W H) as W1.
  eapply (owning_src_stable st1 st2 i k o); eauto.
Qed.

(* ------------------------------------------------------------ 3e: a FixedArrayView keeps its allocation *)
Lemma skipn_seq' off : forall s len, skipn off (seq s len) = seq (s + off) (len - off).
Proof.
  induction off as [|off IH]; intros s len.
  - rewrite Nat.add_0_r, Nat.sub_0_r. reflexivity.
  - destruct len as [|len]; [reflexivity|]. cbn [seq skipn]. rewrite IH. f_equal; lia.
Qed.
Lemma firstn_seq' n : forall s len, n <= len -> firstn n (seq s len) = seq s n.
Proof.
  induction n as [|n IH]; intros s len H; [reflexivity|].
  destruct len as [|len]; [lia|]. cbn [seq firstn]. f_equal. apply IH. lia.
Qed.

Lemma sub_iter h fa off n : off + n <= a_len fa -> null_iff fa ->
  arr_iter h (mk_fview_arr fa off n) = firstn n (skipn off (arr_iter h fa)).
Proof.
  intros Hn Hnull. unfold arr_iter at 2. rewrite skipn_map, firstn_map, skipn_seq', firstn_seq' by lia.
  unfold mk_fview_arr, set_ptr, arr_iter. cbn [a_len a_ptr Nat.add].
  destruct (Nat.eqb_spec n 0) as [E|E]; [subst n; reflexivity|].
  destruct (a_ptr fa) as [[b o]|] eqn:Ep; [| destruct Hnull as [Hz _]; specialize (Hz Ep); lia].
  assert (G : forall m s, map (arr_index h {| a_ptr := Some (b, o + off); a_len := n |}) (seq s m)
                        = map (arr_index h fa) (seq (off + s) m)).
  { induction m as [|m IH]; intro s; [reflexivity|]. cbn [seq map]. f_equal.
    - unfold arr_index, read_cell. cbn [a_ptr]. rewrite Ep. replace (o + off + s) with (o + (off + s)) by lia. reflexivity.
    - rewrite IH. replace (off + S s) with (S (off + s)) by lia. reflexivity. }
  rewrite G. rewrite Nat.add_0_r. reflexivity.
Qed.

Lemma acquire_buf_frame st o :
  slots (acquire_buf st o) = slots st /\ fobjs (acquire_buf st o) = fobjs st /\
  forall b, cells_kept (heap st) (heap (acquire_buf st o)) b.
Proof. destruct o as [b0|]; cbn; repeat split; intros; ck. Qed.
Lemma release_buf_frame st o :
  slots (release_buf st o) = slots st /\ fobjs (release_buf st o) = fobjs st /\
  forall b, cells_kept (heap st) (heap (release_buf st o)) b.
Proof. destruct o as [b0|]; cbn; repeat split; intros; ck. Qed.

Lemma release_fobj_frame st o :
  slots (release_fobj st o) = slots st /\ (forall b, cells_kept (heap st) (heap (release_fobj st o)) b) /\
  (forall g, o <> Some g -> nth_error (fobjs (release_fobj st o)) g = nth_error (fobjs st) g).
Proof.
  unfold release_fobj. destruct o as [f|]; [|repeat split; intros; ck].
  destruct (nth_error (fobjs st) f) as [fo|] eqn:Ef; [|repeat split; intros; ck].
  destruct (Nat.eqb (fo_rc fo) 1); [destruct (fo_own fo) as [b0|]|]; cbn; repeat split; intros; ck;
    rewrite nth_error_upd_neq; auto; congruence.
Qed.

Lemma mkfview_elems st i j f off n st1 e : WF st ->
  slot_at st j = SFixed f -> elems st j = Some e -> step_new st (MkFView i j off n) = Some st1 ->
  i <> j /\ (exists a g, nth_error (slots st1) i = Some (SFView a (Some g))) /\
  nth_error (slots st1) j = Some (SFixed f) /\ elems st1 i = Some (firstn n (skipn off e)).
Proof.
  intros W Hs He H. pose proof (wf_step st _ st1 W H) as W1.
  assert (Hj : nth_error (slots st) j = Some (SFixed f)) by (apply slot_at_inv; [exact Hs | discriminate]).
  unfold step_new in H. cbn [step] in H. unfold op_mk_fview in H.
  destruct (slot_free st i) eqn:Hf; [|discriminate]. apply slot_free_inv in Hf.
  assert (Nij : i <> j) by (intro; subst; congruence).
  rewrite Hs in H. destruct (nth_error (fobjs st) f) as [fo|] eqn:Ef; [|discriminate].
  destruct (off + n <=? a_len (fo_arr fo)) eqn:Hle; [|discriminate]. apply Nat.leb_le in Hle.
  unfold fixed_clone in H. destruct (acquire_buf_frame st (fo_own fo)) as [A1 [A2 A3]].
  set (st' := acquire_buf st (fo_own fo)) in *. inversion H; subst st1; clear H.
  rewrite elems_eq, Hs in He. cbn [slot_arr] in He. rewrite Ef in He. inversion He; subst e; clear He.
  assert (Hlt : i < length (slots st')) by (rewrite A1; eapply nth_error_lt; eauto).
  set (a := mk_fview_arr (fo_arr fo) off n) in *.
  set (st1 := set_slot _ i _) in *.
  assert (Hi1 : nth_error (slots st1) i = Some (SFView a (Some (length (fobjs st'))))).
  { unfold st1, set_slot. cbn [slots]. apply nth_error_upd_eq. exact Hlt. }
  assert (Hj1 : nth_error (slots st1) j = Some (SFixed f)).
  { unfold st1, set_slot. cbn [slots with_fobjs]. rewrite nth_error_upd_neq by auto. rewrite A1. exact Hj. }
  assert (Ef1 : slot_arr st1 (SFixed f) = Some (fo_arr fo)).
  { unfold st1. cbn [slot_arr set_slot with_fobjs fobjs]. rewrite A2.
    rewrite nth_error_app1 by (eapply nth_error_lt; eauto). rewrite Ef. reflexivity. }
  assert (Ej : elems st1 j = elems st j).
  { eapply (elems_stable st st1 j j (SFixed f) (SFixed f) (fo_arr fo)); eauto; try exact I;
      try (intros b o _; apply A3).
    cbn [slot_arr]. rewrite Ef. reflexivity. }
  split; [exact Nij|]. split; [eauto|]. split; [exact Hj1|].
  rewrite elems_eq. rewrite (slot_at_some _ _ _ Hi1). cbn [slot_arr]. f_equal.
  unfold a. rewrite sub_iter; auto.
  - rewrite !elems_eq in Ej. rewrite (slot_at_some _ _ _ Hj1), Ef1, Hs in Ej. cbn [slot_arr] in Ej. rewrite Ef in Ej.
    inversion Ej as [Ej']. change (heap st1) with (heap st'). rewrite Ej'. reflexivity.
  - apply (array_inv_wf st j (SFixed f) (fo_arr fo) W Hj). cbn [slot_arr]. rewrite Ef. reflexivity.
Qed.


Lemma fixed_kill_frame st j f o st2 : nth_error (slots st) j = Some (SFixed f) -> fixed_kill j o ->
  step_new st o = Some st2 ->
  (forall i, i <> j -> nth_error (slots st2) i = nth_error (slots st) i) /\
  (forall b, cells_kept (heap st) (heap st2) b) /\
  (forall g, g <> f -> nth_error (fobjs st2) g = nth_error (fobjs st) g).
Proof.
  intros Hj K H. pose proof (slot_at_some _ _ _ Hj) as Hs. destruct K as [|k].
  - assert (H' : step_new st (Destroy j) = Some (set_slot (release_fobj st (Some f)) j SEmpty))
      by (unfold step_new; cbn [step]; rewrite Hs; reflexivity).
    rewrite H' in H. clear H'.
    assert (E2 : st2 = set_slot (release_fobj st (Some f)) j SEmpty) by congruence. subst st2. clear H.
    destruct (release_fobj_frame st (Some f)) as [R1 [R2 R3]].
    remember (release_fobj st (Some f)) as st' eqn:Est'. clear Est'.
    cbn [set_slot slots heap fobjs]. split; [|split].
    + intros i Ni. rewrite nth_error_upd_neq by auto. rewrite R1. reflexivity.
    + exact R2.
    + intros g Ng. apply R3. congruence.
  - unfold step_new in H. cbn [step] in H.
    destruct (whole st k) as [[p c]|]; [|discriminate]. unfold assign_from in H. rewrite Hs in H.
    unfold fixed_assign in H. destruct (nth_error (fobjs st) f) as [fo|] eqn:Ef; [|discriminate].
    unfold alloc in H. inversion H; subst st2; clear H.
    destruct (fo_own fo) as [b0|]; cbn; (split; [auto | split; [intros; ck | intros g Ng; rewrite nth_error_upd_neq; auto]]).
Qed.

Lemma owned_survives_fview_lemma st i j f off n st1 e o st2 : WF st ->
  slot_at st j = SFixed f -> elems st j = Some e -> step_new st (MkFView i j off n) = Some st1 ->
  fixed_kill j o -> step_new st1 o = Some st2 ->
  elems st1 i = Some (firstn n (skipn off e)) /\ elems st2 i = Some (firstn n (skipn off e)).
Proof.
  intros W Hs He H K H2. pose proof (wf_step st _ st1 W H) as W1. pose proof (wf_step st1 _ st2 W1 H2) as W2.
  destruct (mkfview_elems st i j f off n st1 e W Hs He H) as [Nij [[a [g Hi1]] [Hj1 E1]]].
  split; [exact E1|]. rewrite <- E1.
  destruct (fixed_kill_frame st1 j f o st2 Hj1 K H2) as [F1 [F2 F3]].
  eapply (elems_stable st1 st2 i i (SFView a (Some g)) (SFView a (Some g)) a); eauto; try exact I; try reflexivity.
  rewrite F1; auto.
Qed.

(* ------------------------------------------------------------ 3d: a copy survives the original *)
Lemma vec_alloc_frame st c st' vb' : vec_alloc st c = (st', vb') ->
  slots st' = slots st /\ fobjs st' = fobjs st /\ vec_cells st' vb' = c /\
  forall b, cells_kept (heap st) (heap st') b.
Proof.
  unfold vec_alloc. destruct c as [|x c0].
  - intro H; inversion H; subst. repeat split. intro; ck.
  - unfold alloc. intro H; inversion H; subst st' vb'. cbn. repeat split.
    + unfold vec_cells. cbn [heap]. rewrite nth_error_snoc_eq. reflexivity.
    + intro; ck.
Qed.

Lemma owned_survives_copy_lemma st i j e st1 st2 : WF st ->
  (match slot_at st j with SOwned _ _ | SFixed _ => True | _ => False end) ->
  elems st j = Some e -> step_new st (CopyCtor i j) = Some st1 -> step_new st1 (Destroy j) = Some st2 ->
  elems st1 i = Some e /\ elems st2 i = Some e.
Proof.
  intros W Hk He H H2. pose proof (wf_step st _ st1 W H) as W1. pose proof (wf_step st1 _ st2 W1 H2) as W2.
  unfold step_new in H. cbn [step] in H. unfold op_copy_ctor in H.
  destruct (slot_free st i) eqn:Hf; [|discriminate]. apply slot_free_inv in Hf.
  assert (Hlt : i < length (slots st)) by (eapply nth_error_lt; eauto).
  destruct (slot_at st j) as [|a0|a0 vb|f|a0 g] eqn:Es; try contradiction.
  - assert (Hj : nth_error (slots st) j = Some (SOwned a0 vb)) by (apply slot_at_inv; [exact Es | discriminate]).
    assert (Nij : i <> j) by (intro; subst; congruence).
    destruct (vec_alloc st (vec_cells st vb)) as [st' vb'] eqn:Ev.
    destruct (vec_alloc_frame _ _ _ _ Ev) as [V1 [V2 [V3 V4]]].
    assert (E1 : st1 = set_slot st' i (SOwned (vec_arr st' vb') vb')) by congruence. clear H. subst st1.
    set (s := SOwned (vec_arr st' vb') vb') in *.
    assert (Hi1 : nth_error (slots (set_slot st' i s)) i = Some s).
    { unfold set_slot. cbn [slots]. apply nth_error_upd_eq. rewrite V1. exact Hlt. }
    assert (Hj1 : nth_error (slots (set_slot st' i s)) j = Some (SOwned a0 vb)).
    { unfold set_slot. cbn [slots]. rewrite nth_error_upd_neq by auto. rewrite V1. exact Hj. }
    assert (E1 : elems (set_slot st' i s) i = Some e).
    { unfold s in Hi1. rewrite (elems_owned _ i _ _ W1 Hi1).
      unfold vec_cells at 1. cbn [heap set_slot]. fold (vec_cells st' vb').
      rewrite V3. rewrite <- He. symmetry. eapply elems_owned; eauto. }
    split; [exact E1|]. rewrite <- E1.
    assert (H2' : step_new (set_slot st' i s) (Destroy j) = Some (set_slot (release_buf (set_slot st' i s) vb) j SEmpty)).
    { unfold step_new. cbn [step]. rewrite (slot_at_some _ _ _ Hj1). reflexivity. }
    rewrite H2' in H2. clear H2'.
    assert (E2 : st2 = set_slot (release_buf (set_slot st' i s) vb) j SEmpty) by congruence. clear H2. subst st2.
    destruct (release_buf_frame (set_slot st' i s) vb) as [R1 [R2 R3]].
    eapply (elems_stable _ _ i i s s (vec_arr st' vb')); eauto; try exact I; try reflexivity.
    unfold set_slot at 1. cbn [slots]. rewrite nth_error_upd_neq by auto. rewrite R1. exact Hi1.
  - assert (Hj : nth_error (slots st) j = Some (SFixed f)) by (apply slot_at_inv; [exact Es | discriminate]).
    assert (Nij : i <> j) by (intro; subst; congruence).
    destruct (nth_error (fobjs st) f) as [fo|] eqn:Ef; [|discriminate].
    unfold fixed_clone in H. destruct (acquire_buf_frame st (fo_own fo)) as [A1 [A2 A3]].
    set (st' := acquire_buf st (fo_own fo)) in *.
    set (fo' := {| fo_arr := fo_arr fo; fo_own := fo_own fo; fo_rc := 1 |}) in *.
    assert (E1 : st1 = set_slot (with_fobjs st' (fobjs st' ++ [fo'])) i (SFixed (length (fobjs st')))) by congruence.
    clear H. subst st1. set (st1 := set_slot _ i _) in *.
    assert (Hi1 : nth_error (slots st1) i = Some (SFixed (length (fobjs st')))).
    { unfold st1, set_slot. cbn [slots with_fobjs]. apply nth_error_upd_eq. rewrite A1. exact Hlt. }
    assert (Hj1 : nth_error (slots st1) j = Some (SFixed f)).
    { unfold st1, set_slot. cbn [slots with_fobjs]. rewrite nth_error_upd_neq by auto. rewrite A1. exact Hj. }
    assert (Ea1 : slot_arr st1 (SFixed (length (fobjs st'))) = Some (fo_arr fo)).
    { unfold st1. cbn [slot_arr set_slot with_fobjs fobjs]. rewrite nth_error_snoc_eq. reflexivity. }
    assert (E1 : elems st1 i = Some e).
    { rewrite <- He. eapply (elems_stable st st1 j i (SFixed f) (SFixed (length (fobjs st'))) (fo_arr fo)); eauto;
        try exact I; try (intros b o _; apply A3).
      cbn [slot_arr]. rewrite Ef. reflexivity. }
    split; [exact E1|]. rewrite <- E1.
    destruct (fixed_kill_frame st1 j f (Destroy j) st2 Hj1 (fk_destroy j) H2) as [F1 [F2 F3]].
    eapply (elems_stable st1 st2 i i (SFixed (length (fobjs st'))) (SFixed (length (fobjs st'))) (fo_arr fo)); eauto;
      try exact I.
    + rewrite F1; auto.
    + cbn [slot_arr]. rewrite F3.
      * exact Ea1.
      * rewrite A2. apply nth_error_lt in Ef. lia.
Qed.

(* ------------------------------------------------------------ 3c: a non-owning view reads the source *)
Lemma view_aliases_lemma st i k j v st1 st2 : WF st ->
  step_new st (FromSrc i KView k) = Some st1 -> step_new st1 (SrcWrite k j v) = Some st2 ->
  exists c2, src_cells st2 k = Some c2 /\ elems st2 i = Some (map RVal c2) /\ nth_error c2 j = Some v.
Proof.
  intros _ H H2. unfold step_new in H. cbn [step] in H. unfold whole in H.
  destruct (src_buf st k) as [[b bu]|] eqn:Es; [|discriminate].
  unfold build in H. destruct (slot_free st i) eqn:Hf; [|discriminate]. apply slot_free_inv in Hf.
  assert (Hlt : i < length (slots st)) by (eapply nth_error_lt; eauto).
  set (a := set_ptr (Some (b, 0)) (length (b_cells bu))) in *.
  assert (E1 : st1 = set_slot st i (SView a)) by congruence. clear H. subst st1.
  assert (Es1 : src_buf (set_slot st i (SView a)) k = Some (b, bu)) by exact Es.
  unfold step_new in H2. cbn [step] in H2. rewrite Es1 in H2.
  destruct (Nat.ltb_spec j (length (b_cells bu))) as [Hj|Hj]; [|discriminate].
  set (c2 := upd j v (b_cells bu)) in *.
  change (heap (set_slot st i (SView a))) with (heap st) in H2.
  assert (E2 : st2 = with_heap (set_slot st i (SView a)) (hset (heap st) b c2)) by congruence. clear H2. subst st2.
  apply src_buf_inv in Es. destruct Es as [S1 [S2 S3]].
  set (bu' := {| b_cells := c2; b_cap := b_cap bu; b_rc := b_rc bu |}).
  assert (Hb : nth_error (hset (heap st) b c2) b = Some bu').
  { unfold hset. rewrite nth_error_hmod, Nat.eqb_refl, S2. reflexivity. }
  assert (Ha : b_alive bu' = true) by exact S3.
  exists c2. split; [|split].
  - unfold src_cells, src_buf. cbn [srcs heap with_heap set_slot]. rewrite S1, Hb, Ha. reflexivity.
  - rewrite elems_eq. unfold slot_at. cbn [slots with_heap set_slot heap].
    rewrite nth_error_upd_eq by exact Hlt. cbn [slot_arr]. f_equal.
    unfold a. replace (length (b_cells bu)) with (length (b_cells bu')) by (cbn [b_cells]; unfold c2; apply upd_length).
    apply iter_whole; auto.
  - unfold c2. apply nth_error_upd_eq. exact Hj.
Qed.

(* ------------------------------------------------------------ 3d': a moved-to OwnedArray survives the source *)
Lemma owned_survives_move_lemma st i j a vb e st1 st2 : WF st ->
  slot_at st j = SOwned a vb ->
  elems st j = Some e -> step_new st (MoveCtor i j) = Some st1 -> step_new st1 (Destroy j) = Some st2 ->
  elems st1 i = Some e /\ elems st2 i = Some e.
Proof.
  intros W Es He H H2. pose proof (wf_step st _ st1 W H) as W1. pose proof (wf_step st1 _ st2 W1 H2) as W2.
  assert (Hj : nth_error (slots st) j = Some (SOwned a vb)) by (apply slot_at_inv; [exact Es | discriminate]).
  unfold step_new in H. cbn [step] in H. unfold op_move_ctor in H. rewrite Es in H.
  destruct (slot_free st i) eqn:Hf; [|discriminate]. apply slot_free_inv in Hf.
  assert (Hlt : i < length (slots st)) by (eapply nth_error_lt; eauto).
  assert (Nij : i <> j) by (intro; subst; congruence).
  set (s := SOwned (vec_arr st vb) vb) in *. set (z := SOwned (set_ptr None 0) None) in *.
  assert (E1 : st1 = set_slot (set_slot st i s) j z) by congruence. clear H. subst st1.
  set (st1 := set_slot (set_slot st i s) j z) in *.
  assert (Hi1 : nth_error (slots st1) i = Some s).
  { unfold st1, set_slot. cbn [slots]. rewrite nth_error_upd_neq by auto. apply nth_error_upd_eq. exact Hlt. }
  assert (Hj1 : nth_error (slots st1) j = Some z).
  { unfold st1, set_slot. cbn [slots]. apply nth_error_upd_eq. rewrite upd_length. eapply nth_error_lt; eauto. }
  assert (E1 : elems st1 i = Some e).
  { unfold s in Hi1. rewrite (elems_owned _ i _ _ W1 Hi1). rewrite <- He.
    change (vec_cells st1 vb) with (vec_cells st vb). symmetry. eapply elems_owned; eauto. }
  split; [exact E1|]. rewrite <- E1.
  assert (H2' : step_new st1 (Destroy j) = Some (set_slot st1 j SEmpty)).
  { unfold step_new. cbn [step]. rewrite (slot_at_some _ _ _ Hj1). reflexivity. }
  rewrite H2' in H2. clear H2'. assert (E2 : st2 = set_slot st1 j SEmpty) by congruence. clear H2. subst st2.
  eapply (elems_stable _ _ i i s s (vec_arr st vb)); eauto; try exact I; try reflexivity.
  - unfold set_slot at 1. cbn [slots]. rewrite nth_error_upd_neq by auto. exact Hi1.
  - intros b o _. apply cells_kept_refl.
Qed.

(* ------------------------------------------------------------ no leak *)
Lemma no_leak_lemma st : WF st ->
  (forall i s, nth_error (slots st) i = Some s -> s = SEmpty \/ exists a, s = SView a) ->
  (forall k o, nth_error (srcs st) k = Some o -> o = None) ->
  (forall b bu, nth_error (heap st) b = Some bu -> b_rc bu = 0) /\
  (forall f fo, nth_error (fobjs st) f = Some fo -> fo_rc fo = 0).
Proof.
  intros W Hs Hk.
  assert (F : forall f fo, nth_error (fobjs st) f = Some fo -> fo_rc fo = 0).
  { intros f fo Hf. rewrite (wf_rc_fobj st f fo W Hf). unfold refs_fobj. apply csum_zero.
    intros i s Hi. destruct (Hs i s Hi) as [E|[a E]]; subst s; reflexivity. }
  split; [|exact F].
  intros b bu Hb. rewrite (wf_rc_buf st b bu W Hb). unfold refs_buf.
  rewrite (csum_zero (w_opt b) (srcs st)), (csum_zero (w_slot_buf b) (slots st)), (csum_zero (w_fobj b) (fobjs st)); auto.
  - intros f fo Hf. unfold w_fobj, fo_live. rewrite (F f fo Hf). reflexivity.
  - intros i s Hi. destruct (Hs i s Hi) as [E|[a E]]; subst s; reflexivity.
  - intros k o Ho. rewrite (Hk k o Ho). reflexivity.
Qed.

Print Assumptions resize_tracks_lemma.
Print Assumptions owned_independent_lemma.
Print Assumptions view_aliases_lemma.
Print Assumptions owned_survives_copy_lemma.
Print Assumptions owned_survives_fview_lemma.
Print Assumptions owned_survives_move_lemma.
Print Assumptions no_leak_lemma.
