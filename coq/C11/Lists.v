(* C11 — list helpers: point update, weighted counting. *)
From Common Require Import Prelude.
From C11 Require Import Model.

Lemma upd_length {A} i (x : A) l : length (upd i x l) = length l.
Proof. revert i; induction l as [|y l IH]; intros [|i]; simpl; auto. Qed.

Lemma nth_error_upd_eq {A} i (x : A) l : i < length l -> nth_error (upd i x l) i = Some x.
Proof.
  revert i; induction l as [|y l IH]; intros [|i] H; simpl in *; try lia; auto.
  apply IH. lia.
Qed.

Lemma nth_error_upd_neq {A} i j (x : A) l : i <> j -> nth_error (upd i x l) j = nth_error l j.
Proof.
  revert i j; induction l as [|y l IH]; intros [|i] [|j] H; simpl; auto; try congruence.
Qed.

Lemma nth_error_upd {A} i j (x : A) l :
  nth_error (upd i x l) j = if Nat.eqb i j then (match nth_error l j with Some _ => Some x | None => None end) else nth_error l j.
Proof.
  destruct (Nat.eqb i j) eqn:E.
  - apply Nat.eqb_eq in E; subst j. destruct (nth_error l i) eqn:F.
    + apply nth_error_upd_eq. apply nth_error_Some. congruence.
    + apply nth_error_None. rewrite upd_length. apply nth_error_None. exact F.
  - apply Nat.eqb_neq in E. apply nth_error_upd_neq; exact E.
Qed.

Lemma upd_out {A} i (x : A) l : length l <= i -> upd i x l = l.
Proof. revert i; induction l as [|y l IH]; intros [|i] H; simpl in *; auto; try lia. f_equal. apply IH. lia. Qed.

Lemma nth_error_snoc_lt {A} (l : list A) x i : i < length l -> nth_error (l ++ [x]) i = nth_error l i.
Proof. intro H. apply nth_error_app1. exact H. Qed.

Lemma nth_error_snoc_eq {A} (l : list A) x : nth_error (l ++ [x]) (length l) = Some x.
Proof. rewrite nth_error_app2 by lia. rewrite Nat.sub_diag. reflexivity. Qed.

Lemma nth_error_snoc {A} (l : list A) x i :
  nth_error (l ++ [x]) i = if Nat.eqb i (length l) then Some x else nth_error l i.
Proof.
  destruct (Nat.eqb i (length l)) eqn:E.
  - apply Nat.eqb_eq in E; subst. apply nth_error_snoc_eq.
  - apply Nat.eqb_neq in E. destruct (Nat.lt_ge_cases i (length l)).
    + apply nth_error_snoc_lt; auto.
    + transitivity (@None A); [apply nth_error_None; rewrite app_length; simpl; lia | symmetry; apply nth_error_None; lia].
Qed.

Lemma nth_error_lt {A} (l : list A) i x : nth_error l i = Some x -> i < length l.
Proof. intro H. apply nth_error_Some. congruence. Qed.

(* weighted count *)
Fixpoint csum {A} (w : A -> nat) (l : list A) : nat :=
  match l with [] => 0 | x :: t => w x + csum w t end.

Lemma csum_app {A} (w : A -> nat) l x : csum w (l ++ [x]) = csum w l + w x.
Proof. induction l; simpl; lia. Qed.

Lemma csum_upd {A} (w : A -> nat) i x old l :
  nth_error l i = Some old -> csum w (upd i x l) + w old = csum w l + w x.
Proof.
  revert i; induction l as [|y l IH]; intros [|i] H; simpl in *; try discriminate.
  - inversion H; subst. lia.
  - specialize (IH _ H). lia.
Qed.

Lemma csum_ge1 {A} (w : A -> nat) l i x : nth_error l i = Some x -> w x <= csum w l.
Proof.
  revert i; induction l as [|y l IH]; intros [|i] H; simpl in *; try discriminate.
  - inversion H; subst. lia.
  - specialize (IH _ H). lia.
Qed.

Lemma csum_ge2 {A} (w : A -> nat) l i j x y :
  i <> j -> nth_error l i = Some x -> nth_error l j = Some y -> w x + w y <= csum w l.
Proof.
  revert i j; induction l as [|z l IH]; intros [|i] [|j] N Hi Hj; simpl in *; try discriminate; try congruence.
  - inversion Hi; subst. pose proof (csum_ge1 w _ _ _ Hj). lia.
  - inversion Hj; subst. pose proof (csum_ge1 w _ _ _ Hi). lia.
  - assert (i <> j) by congruence. specialize (IH _ _ H Hi Hj). lia.
Qed.

Lemma csum_zero {A} (w : A -> nat) l :
  (forall i x, nth_error l i = Some x -> w x = 0) -> csum w l = 0.
Proof.
  induction l as [|y l IH]; intro H; simpl; auto.
  rewrite (H 0 y eq_refl). rewrite IH; auto. intros i x Hx. apply (H (S i) x Hx).
Qed.

Lemma csum_ext {A} (w w' : A -> nat) l :
  (forall i x, nth_error l i = Some x -> w x = w' x) -> csum w l = csum w' l.
Proof.
  induction l as [|y l IH]; intro H; simpl; auto.
  rewrite (H 0 y eq_refl). rewrite IH; auto. intros i x Hx. apply (H (S i) x Hx).
Qed.

Lemma csum_repeat {A} (w : A -> nat) x n : w x = 0 -> csum w (repeat x n) = 0.
Proof. intro H. induction n; simpl; lia. Qed.

Lemma nth_error_repeat {A} (x y : A) n i : nth_error (repeat x n) i = Some y -> y = x.
Proof. revert i; induction n; intros [|i] H; simpl in *; try discriminate; [congruence | eauto]. Qed.

(* hmod *)
Lemma nth_error_hmod h b f b' :
  nth_error (hmod h b f) b' = if Nat.eqb b b' then option_map f (nth_error h b') else nth_error h b'.
Proof.
  unfold hmod. destruct (nth_error h b) eqn:E.
  - rewrite nth_error_upd. destruct (Nat.eqb b b') eqn:F; auto.
    apply Nat.eqb_eq in F; subst. rewrite E. reflexivity.
  - destruct (Nat.eqb b b') eqn:F; auto. apply Nat.eqb_eq in F; subst. rewrite E. reflexivity.
Qed.

Lemma hmod_length h b f : length (hmod h b f) = length h.
Proof. unfold hmod. destruct (nth_error h b); auto. apply upd_length. Qed.
