(* C11 — vocabulary of the property theorems (definitions only). *)
From Common Require Import Prelude.
From C11 Require Import Model.

(* the states the repaired code can be in: any history of operations from the empty state
   (ns wrapper slots, nk source containers); an operation whose precondition fails is skipped *)
Definition reachable (st : state) : Prop := exists ns nk ops, st = run_new (init ns nk) ops.

(* what iterating over the wrapper in slot i yields / what source container k holds *)
Definition elems st i := option_map o_elems (observe_slot st (slot_at st i)).
Definition src_cells st k := option_map (fun p : nat * buffer => b_cells (snd p)) (src_buf st k).

(* anything that can happen to source container k: overwrite an element, replace it, destroy it *)
Inductive src_op (k : nat) : op -> Prop :=
| so_write j v : src_op k (SrcWrite k j v)
| so_set c : src_op k (SrcSet k c)
| so_kill : src_op k (SrcKill k).

(* what ends the viewed FixedArray's hold on its allocation: destroying it, assigning to it *)
Inductive fixed_kill (j : nat) : op -> Prop :=
| fk_destroy : fixed_kill j (Destroy j)
| fk_assign k : fixed_kill j (AssignSrc j k).

(* at(j) on the wrapper a slot holds *)
Definition arr_at_slot st (s : slot) (j : nat) : option outcome :=
  match slot_arr st s with Some a => Some (arr_at (heap st) a j) | None => None end.

(* an owning wrapper: OwnedArray, FixedArray, FixedArrayView *)
Definition owning (s : slot) : Prop := match s with SEmpty | SView _ => False | _ => True end.

(* ---- vocabulary of the frame theorem ---- *)
(* the wrapper slots an operation constructs, assigns, resets, resizes, moves from or destroys *)
Definition targets (o : op) : list nat :=
  match o with
  | SrcSet _ _ | SrcKill _ | SrcWrite _ _ _ => []
  | Default i _ | FromSrc i _ _ | FromPtr i _ _ _ | FixedN i _ | MkFView i _ _ _ => [i]
  | AssignSrc i _ | Reset i | ResetPtr i _ _ | Resize i _ _ | Destroy i => [i]
  | CopyCtor i _ | CopyAssign i _ => [i]
  | MoveCtor i j | MoveAssign i j => [i; j]
  | Write i _ _ => [i]
  | FromWrap i _ _ _ _ => [i]
  | ResetWrap i _ _ _ => [i]
  | ResizeRef i _ _ _ => [i]
  end.
(* the buffer a slot's wrapper designates *)
Definition buf_of st i : option nat :=
  match slot_arr st (slot_at st i) with Some a => option_map fst (a_ptr a) | None => None end.
(* Write through wrapper i also changes what every wrapper sharing i's buffer shows (FixedArray copies and
   FixedArrayViews share the allocation by design; an ArrayView aliases its source) *)
Definition aliased_write st (o : op) (j : nat) : Prop :=
  match o with Write i _ _ => buf_of st i <> None /\ buf_of st i = buf_of st j | _ => False end.
(* no operation of the history targets j or writes through an alias of j *)
Fixpoint untouched (st : state) (ops : list op) (j : nat) : Prop :=
  match ops with
  | [] => True
  | o :: t => ~ In j (targets o) /\ ~ aliased_write st o j /\ untouched (step' true true st o) t j
  end.

