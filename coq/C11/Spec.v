(* C11 — vocabulary of the property theorems (definitions only). *)
From Common Require Import Prelude.
From C11 Require Import Model.

(* the states the repaired code can be in: any history of operations from the empty state
   (ns wrapper slots, nk source containers); an operation whose precondition fails is skipped *)
Definition reachable (st : state) : Prop := exists ns nk ops, st = run_new (init ns nk) ops.

(* what iterating over the wrapper in slot i yields / what source container k holds *)
Definition elems st i := option_map o_elems (observe_slot st (slot_at st i)).
Definition src_cells st k := option_map (fun p : nat * buffer => b_cells (snd p)) (src_buf st k).

(* anything that can happen to source container k: overwrite an element, replace it, destroy it *)
Inductive src_op (k : nat) : op -> Prop :=
| so_write j v : src_op k (SrcWrite k j v)
| so_set c : src_op k (SrcSet k c)
| so_kill : src_op k (SrcKill k).

(* what ends the viewed FixedArray's hold on its allocation: destroying it, assigning to it *)
Inductive fixed_kill (j : nat) : op -> Prop :=
| fk_destroy : fixed_kill j (Destroy j)
| fk_assign k : fixed_kill j (AssignSrc j k).

(* at(j) on the wrapper a slot holds *)
Definition arr_at_slot st (s : slot) (j : nat) : option outcome :=
  match slot_arr st s with Some a => Some (arr_at (heap st) a j) | None => None end.
