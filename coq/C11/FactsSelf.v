(* C11 — the fact checker accepts the table Model.v assumes (so a failure on the generated table is about the source). *)
From Common Require Import Prelude.
From C11 Require Import Model FactsModel FactsCheck.

Lemma model_facts_consistent : check model_special model_table model_exprs = true.
Proof. vm_compute. reflexivity. Qed.

(* ... and it is not vacuous: each of these realistic slips is rejected *)
Definition tbl_with (m : member) (ops : list mop) (m' : member) : list mop :=
  if match m, m' with
     | OA_ResetPtr, OA_ResetPtr | OA_Resize, OA_Resize | OA_Copy, OA_Copy | OA_Reset, OA_Reset | FV_C, FV_C | OA_Move, OA_Move | FA_AVec, FA_AVec => true
     | _, _ => false end
  then ops else model_table m'.
Lemma checker_rejects_slips :
  check_table (tbl_with OA_Resize [MBufResize]) = false /\
  failing_configs (tbl_with OA_Resize [MBufReserve; MBufResize; MSetPtr PBufData NBufSize])
    = [(OA_Resize, ResizeRef 0 5 0 1); (OA_Resize, ResizeRef 0 9 0 2); (OA_Resize, ResizeRef 1 7 1 0); (OA_Resize, Resize 0 5 9%N)] /\
  check_table (tbl_with OA_ResetPtr [MSelfReset; MBufRange; MSetPtr PBufData NBufSize]) = false /\
  failing_configs (tbl_with OA_ResetPtr [MSelfReset; MBufRange; MSetPtr PBufData NBufSize])
    = [(OA_ResetPtr, ResetWrap 0 0 0 3); (OA_ResetPtr, ResetWrap 0 0 1 2); (OA_ResetPtr, ResetWrap 0 0 1 1); (OA_ResetPtr, ResetWrap 1 1 0 1)] /\
  check_table (tbl_with OA_Copy [MBufCopyOther]) = false /\
  check_table (tbl_with OA_Reset [MBufClear; MBufShrink]) = false /\
  check_table (tbl_with OA_Move [MBufMoveOther; MSetPtr PBufData NBufSize]) = false /\
  check_table (tbl_with FV_C [MHoldArg; MSetPtr PHeldBeginOff NArg]) = false /\
  check_table (tbl_with FA_AVec [MSetPtr PArrGet NArg; MMemcpy true true]) = false /\
  check_special (fun c s => match c, s with COwned, SCopyCtor => StMemberwise | _, _ => model_special c s end) = false /\
  check_exprs {| e_size := e_size model_exprs; e_begin := e_begin model_exprs; e_end := e_end model_exprs;
                 e_data := e_data model_exprs; e_cbegin := e_cbegin model_exprs; e_cend := e_cend model_exprs;
                 e_index := e_index model_exprs; e_bool := e_bool model_exprs;
                 e_at_throw := GLt (TVar VNumItems) (TVar VOffset); e_at_ret := e_at_ret model_exprs;
                 e_setptr_ptr := e_setptr_ptr model_exprs; e_setptr_n := e_setptr_n model_exprs;
                 e_dv_ctor_ptr := e_dv_ctor_ptr model_exprs; e_dv_ctor_stride := e_dv_ctor_stride model_exprs;
                 e_dv_reset_ptr := e_dv_reset_ptr model_exprs; e_dv_reset_stride := e_dv_reset_stride model_exprs;
                 e_dv_index := e_dv_index model_exprs |} = false /\
  check_exprs {| e_size := e_size model_exprs; e_begin := e_begin model_exprs; e_end := e_end model_exprs;
                 e_data := e_data model_exprs; e_cbegin := e_cbegin model_exprs; e_cend := e_cend model_exprs;
                 e_index := e_index model_exprs; e_bool := e_bool model_exprs;
                 e_at_throw := e_at_throw model_exprs; e_at_ret := e_at_ret model_exprs;
                 e_setptr_ptr := e_setptr_ptr model_exprs; e_setptr_n := e_setptr_n model_exprs;
                 e_dv_ctor_ptr := e_dv_ctor_ptr model_exprs; e_dv_ctor_stride := e_dv_ctor_stride model_exprs;
                 e_dv_reset_ptr := e_dv_reset_ptr model_exprs; e_dv_reset_stride := e_dv_reset_stride model_exprs;
                 e_dv_index := TAdd (TVar VDPtr) (TMul (TVar VIndex) (TVar VSizeofT)) |} = false.
Proof. vm_compute. repeat split; reflexivity. Qed.
