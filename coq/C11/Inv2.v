(* C11 — WF is preserved by every operation of the repaired model. *)
From Common Require Import Prelude.
From C11 Require Import Model Lists Proofs Inv.

Ltac brk2 :=
  repeat (match goal with
  | H : context[Nat.eqb ?a ?b] |- _ => destruct (Nat.eqb_spec a b)
  | |- context[Nat.eqb ?a ?b] => destruct (Nat.eqb_spec a b)
  | H : context[Nat.ltb ?a ?b] |- _ => destruct (Nat.ltb_spec a b)
  | |- context[Nat.ltb ?a ?b] => destruct (Nat.ltb_spec a b)
  end; cbn [negb] in *; try subst).
Ltac own_rw := repeat match goal with Eo : fo_own ?x = ?y |- _ => rewrite ?Eo in *; revert Eo end; intros.
Ltac wfin2 := unfold w_fobj, fo_live in *; own_rw; wcbn; brk2; try lia.

Ltac wf_open st W :=
  destruct st as [h fs sl sr];
  destruct W as [Hrc Hfrc Hxb Hxf Hsl Hfo];
  unfold refs_buf, refs_fobj, xrefs, xfix in *; cbn [heap fobjs slots srcs] in *.

Ltac scbn :=
  cbn [heap fobjs slots srcs with_heap with_fobjs set_slot set_src alloc release_buf acquire_buf fst snd].
Ltac scbn_in H :=
  cbn [heap fobjs slots srcs with_heap with_fobjs set_slot set_src alloc release_buf acquire_buf fst snd] in H.

Ltac wf_split := constructor; unfold refs_buf, refs_fobj, xrefs, xfix; scbn;
  rewrite ?length_hdec, ?length_hinc, ?length_hset.

(* instantiate the counting hypotheses at a point *)
Ltac at_b Hrc Hxb h b :=
  let A := fresh "A" in let B := fresh "B" in
  pose proof (Hrc b) as A; pose proof (Hxb b) as B.

Lemma wf_init ns nk : WF (init ns nk).
Proof.
  constructor; unfold refs_buf, refs_fobj, xrefs, xfix, init; cbn [heap fobjs slots srcs].
  - intro b. rewrite !csum_repeat by reflexivity. unfold rc_of. destruct b; reflexivity.
  - intro f. rewrite !csum_repeat by reflexivity. unfold frc_of. destruct f; reflexivity.
  - intro b. rewrite !csum_repeat by reflexivity. simpl. lia.
  - intro f. rewrite !csum_repeat by reflexivity. lia.
  - intros i s H. apply nth_error_repeat in H. subst. exact I.
  - intros f fo H. destruct f; discriminate.
Qed.

Lemma wf_step_SrcSet st k c st' : WF st -> step true true st (SrcSet k c) = Some st' -> WF st'.
Proof.
  intros W H. wf_open st W. cbn [step srcs] in H.
  destruct (k <? length sr) eqn:Hk; [|discriminate]. apply Nat.ltb_lt in Hk.
  destruct (nth_error sr k) as [ob|] eqn:Ek; [| apply nth_error_None in Ek; lia].
  assert (Hout := rc_of_out h (length h) (le_n _)).
  destruct ob as [b0|]; scbn_in H; inversion H; subst st'; clear H; wf_split.
  - intro b. rewrite rc_of_app, rc_of_hdec, ?length_hdec. pose_csum. at_b Hrc Hxb h b. pose proof (Hrc (length h)). wfin2.
  - exact Hfrc.
  - intro b. pose_csum. at_b Hrc Hxb h b. pose proof (Hrc (length h)). wfin2.
  - exact Hxf.
  - intros i s Hs. eapply slot_ok_mono; [eapply Hsl; eauto| |apply own_mono_refl].
    eapply len_mono_trans; [apply len_mono_hdec | apply len_mono_app].
  - intros f fo Hf. eapply fobj_ok_mono; [eapply Hfo; eauto|].
    eapply len_mono_trans; [apply len_mono_hdec | apply len_mono_app].
  - intro b. rewrite rc_of_app. pose_csum. at_b Hrc Hxb h b. pose proof (Hrc (length h)). wfin2.
  - exact Hfrc.
  - intro b. pose_csum. at_b Hrc Hxb h b. pose proof (Hrc (length h)). wfin2.
  - exact Hxf.
  - intros i s Hs. eapply slot_ok_mono; [eapply Hsl; eauto| |apply own_mono_refl]. apply len_mono_app.
  - intros f fo Hf. eapply fobj_ok_mono; [eapply Hfo; eauto|]. apply len_mono_app.
Qed.

(* ------------------------------------------------------------ automation *)
Lemma csum_le {A} (w w' : A -> nat) l : (forall x, w x <= w' x) -> csum w l <= csum w' l.
Proof. intro H. induction l as [|y l IH]; simpl; auto. specialize (H y). lia. Qed.
Lemma fix_le_fobj sl f : csum (w_slot_fix f) sl <= csum (w_slot_fobj f) sl.
Proof. apply csum_le. intros [|a|a vb|g|a g]; simpl; lia. Qed.
Lemma len_mono_s_hdec h h1 b : len_mono h h1 -> len_mono h (hdec h1 b).
Proof. intro H. eapply len_mono_trans; [exact H | apply len_mono_hdec]. Qed.
Lemma len_mono_s_hinc h h1 b : len_mono h h1 -> len_mono h (hinc h1 b).
Proof. intro H. eapply len_mono_trans; [exact H | apply len_mono_hinc]. Qed.
Lemma len_mono_s_app h h1 nb : len_mono h h1 -> len_mono h (h1 ++ [nb]).
Proof. intro H. eapply len_mono_trans; [exact H | apply len_mono_app]. Qed.
Ltac lm := repeat first [apply len_mono_refl | apply len_mono_s_hdec | apply len_mono_s_hinc | apply len_mono_s_app].

Ltac heap_rw :=
  repeat first [rewrite rc_of_app | rewrite rc_of_hdec | rewrite rc_of_hset | rewrite rc_of_hinc
               | rewrite length_hdec | rewrite length_hinc | rewrite length_hset ].
Ltac cnt_b Hrc Hxb h :=
  let b := fresh "b" in
  intro b; heap_rw; pose_csum;
  pose proof (Hrc b); pose proof (Hxb b); pose proof (Hrc (length h)); pose proof (Hxb (length h));
  pose proof (rc_of_out h (length h) (le_n _));
  wfin2.
Ltac cnt_f Hfrc Hxf fs sl :=
  let f := fresh "f" in
  intro f; rewrite ?frc_of_app; pose_csum; pose proof (fix_le_fobj sl f);
  pose proof (Hfrc f); pose proof (Hxf f); pose proof (Hfrc (length fs)); pose proof (Hxf (length fs));
  pose proof (frc_of_out fs (length fs) (le_n _));
  wfin2.
(* all slots / control blocks keep their shape when lengths and allocations are kept *)
Ltac keep_slots Hsl :=
  let i := fresh "i" in let s := fresh "s" in let Hs := fresh "Hs" in
  intros i s Hs; eapply slot_ok_mono; [eapply Hsl; eauto | lm | try apply own_mono_refl].
Ltac keep_fobjs Hfo :=
  let f := fresh "f" in let fo := fresh "fo" in let Hf := fresh "Hf" in
  intros f fo Hf; eapply fobj_ok_mono; [eapply Hfo; eauto | lm].

Lemma wf_step_SrcKill st k st' : WF st -> step true true st (SrcKill k) = Some st' -> WF st'.
Proof.
  intros W H. wf_open st W. cbn [step srcs] in H.
  destruct (nth_error sr k) as [[b0|]|] eqn:Ek; try discriminate.
  scbn_in H; inversion H; subst st'; clear H; wf_split.
  - cnt_b Hrc Hxb h.
  - exact Hfrc.
  - cnt_b Hrc Hxb h.
  - exact Hxf.
  - keep_slots Hsl.
  - keep_fobjs Hfo.
Qed.

Lemma src_buf_inv st k b bu : src_buf st k = Some (b, bu) ->
  nth_error (srcs st) k = Some (Some b) /\ nth_error (heap st) b = Some bu /\ b_alive bu = true.
Proof.
  unfold src_buf. destruct (nth_error (srcs st) k) as [[b0|]|]; try discriminate.
  destruct (nth_error (heap st) b0) as [bu0|] eqn:E; try discriminate.
  destruct (b_alive bu0) eqn:A; try discriminate. intro H. inversion H; subst. auto.
Qed.

Lemma upd_len_mono h b bu i (v : N) : nth_error h b = Some bu -> len_mono h (hset h b (upd i v (b_cells bu))).
Proof.
  intro H. eapply len_mono_hset; [apply len_of_some; exact H | apply upd_length].
Qed.

Lemma wf_step_SrcWrite st k i v st' : WF st -> step true true st (SrcWrite k i v) = Some st' -> WF st'.
Proof.
  intros W H. cbn [step] in H. destruct (src_buf st k) as [[b0 bu]|] eqn:Es; [|discriminate].
  apply src_buf_inv in Es. destruct Es as [E1 [E2 E3]].
  destruct (i <? length (b_cells bu)); [|discriminate].
  wf_open st W. scbn_in H; inversion H; subst st'; clear H; wf_split.
  - cnt_b Hrc Hxb h.
  - exact Hfrc.
  - exact Hxb.
  - exact Hxf.
  - intros j s Hs. eapply slot_ok_mono; [eapply Hsl; eauto | apply upd_len_mono; auto | apply own_mono_refl].
  - intros f fo Hf. eapply fobj_ok_mono; [eapply Hfo; eauto | apply upd_len_mono; auto].
Qed.

(* slots: the new slot is checked directly, the others are kept *)
Ltac new_slot Hsl i :=
  let j := fresh "j" in let s := fresh "s" in let Hs := fresh "Hs" in
  intros j s Hs; rewrite nth_error_upd in Hs;
  destruct (Nat.eqb_spec i j);
  [ subst j; match type of Hs with context[nth_error ?l i] =>
      match goal with H : nth_error l i = Some _ |- _ => rewrite H in Hs end end;
    inversion Hs; subst s; clear Hs
  | eapply slot_ok_mono; [eapply Hsl; eauto | lm | try apply own_mono_refl] ].

Lemma wf_step_Default st i kd st' : WF st -> step true true st (Default i kd) = Some st' -> WF st'.
Proof.
  intros W H. cbn [step] in H. destruct (slot_free st i) eqn:Hf; [|discriminate].
  apply slot_free_inv in Hf. wf_open st W.
  destruct kd; unfold fixed_clone in H; scbn_in H; inversion H; subst st'; clear H; wf_split.
  - cnt_b Hrc Hxb h. - cnt_f Hfrc Hxf fs sl. - cnt_b Hrc Hxb h. - cnt_f Hfrc Hxf fs sl.
  - new_slot Hsl i. apply null_iff_null.
  - keep_fobjs Hfo.
  - cnt_b Hrc Hxb h. - cnt_f Hfrc Hxf fs sl. - cnt_b Hrc Hxb h. - cnt_f Hfrc Hxf fs sl.
  - new_slot Hsl i. reflexivity.
  - keep_fobjs Hfo.
  - cnt_b Hrc Hxb h. - cnt_f Hfrc Hxf fs sl. - cnt_b Hrc Hxb h. - cnt_f Hfrc Hxf fs sl.
  - new_slot Hsl i. exact I. apply own_mono_app.
  - intros f fo Hfo'. rewrite nth_error_snoc in Hfo'. destruct (Nat.eqb_spec f (length fs)).
    + inversion Hfo'; subst fo. intros _. left. reflexivity.
    + eapply Hfo; eauto.
  - cnt_b Hrc Hxb h. - cnt_f Hfrc Hxf fs sl. - cnt_b Hrc Hxb h. - cnt_f Hfrc Hxf fs sl.
  - new_slot Hsl i. reflexivity.
  - keep_fobjs Hfo.
Qed.

Lemma len_of_new h nb : len_of (h ++ [nb]) (length h) = Some (length (b_cells nb)).
Proof. rewrite len_of_app, Nat.eqb_refl. reflexivity. Qed.

Ltac new_fobj Hfo fs :=
  let f := fresh "f" in let fo := fresh "fo" in let Hf := fresh "Hf" in
  intros f fo Hf; rewrite nth_error_snoc in Hf; destruct (Nat.eqb_spec f (length fs));
  [ inversion Hf; subst fo; clear Hf | eapply fobj_ok_mono; [eapply Hfo; eauto | lm] ].

Lemma wf_build st i kd ptr c st' :
  WF st -> (kd = KView -> length c <> 0 -> ptr <> None) -> build st i kd ptr c = Some st' -> WF st'.
Proof.
  intros W Hp H. unfold build in H. destruct (slot_free st i) eqn:Hf; [|discriminate].
  apply slot_free_inv in Hf. wf_open st W.
  destruct kd; try discriminate.
  - scbn_in H; inversion H; subst st'; clear H; wf_split.
    + cnt_b Hrc Hxb h. + cnt_f Hfrc Hxf fs sl. + cnt_b Hrc Hxb h. + cnt_f Hfrc Hxf fs sl.
    + new_slot Hsl i. apply null_iff_set_ptr. auto.
    + keep_fobjs Hfo.
  - unfold vec_alloc in H. destruct c as [|x c0].
    + scbn_in H; inversion H; subst st'; clear H; wf_split.
      * cnt_b Hrc Hxb h. * cnt_f Hfrc Hxf fs sl. * cnt_b Hrc Hxb h. * cnt_f Hfrc Hxf fs sl.
      * new_slot Hsl i. reflexivity.
      * keep_fobjs Hfo.
    + set (c := x :: c0) in *. clearbody c.
      scbn_in H; inversion H; subst st'; clear H; wf_split.
      * cnt_b Hrc Hxb h. * cnt_f Hfrc Hxf fs sl. * cnt_b Hrc Hxb h. * cnt_f Hfrc Hxf fs sl.
      * new_slot Hsl i. exists (length c). split; [apply len_of_new|].
        rewrite nth_error_snoc_eq. reflexivity.
      * keep_fobjs Hfo.
  - unfold fixed_new in H. scbn_in H; inversion H; subst st'; clear H; wf_split.
    + cnt_b Hrc Hxb h. + cnt_f Hfrc Hxf fs sl. + cnt_b Hrc Hxb h. + cnt_f Hfrc Hxf fs sl.
    + new_slot Hsl i. exact I. apply own_mono_app.
    + new_fobj Hfo fs. intros _. right. exists (length h), (length c). split; [reflexivity|].
      split; [apply len_of_new | reflexivity].
Qed.

Lemma whole_inv st k p c : whole st k = Some (p, c) ->
  exists b bu, src_buf st k = Some (b, bu) /\ p = Some (b, 0) /\ c = b_cells bu.
Proof.
  unfold whole. destruct (src_buf st k) as [[b bu]|]; [|discriminate].
  intro H. inversion H; subst. eauto.
Qed.
Lemma resolve_ptr st p n q c : resolve st p n = Some (q, c) -> length c <> 0 -> q <> None.
Proof.
  unfold resolve. destruct p as [[k off]|].
  - destruct (src_buf st k) as [[b bu]|]; [|discriminate].
    destruct (off + n <=? length (b_cells bu)); [|discriminate]. intro H; inversion H; subst. discriminate.
  - destruct (Nat.eqb n 0); [|discriminate]. intro H; inversion H; subst. simpl. lia.
Qed.

Lemma wf_step_FromSrc st i kd k st' : WF st -> step true true st (FromSrc i kd k) = Some st' -> WF st'.
Proof.
  intros W H. cbn [step] in H. destruct (whole st k) as [[p c]|] eqn:Ew; [|discriminate].
  apply whole_inv in Ew. destruct Ew as [b [bu [_ [Ep _]]]]. subst p.
  eapply wf_build; [exact W| |exact H]. intros; discriminate.
Qed.
Lemma wf_step_FromPtr st i kd p n st' : WF st -> step true true st (FromPtr i kd p n) = Some st' -> WF st'.
Proof.
  intros W H. cbn [step] in H. destruct (resolve st p n) as [[q c]|] eqn:Ew; [|discriminate].
  eapply wf_build; [exact W| |exact H]. intros _. eapply resolve_ptr; eauto.
Qed.
Lemma wf_step_FixedN st i c st' : WF st -> step true true st (FixedN i c) = Some st' -> WF st'.
Proof.
  intros W H. cbn [step] in H. eapply wf_build; [exact W| |exact H]. intros; discriminate.
Qed.

Lemma vec_len_raw h b n : len_of h b = Some n ->
  length (match nth_error h b with Some bu => b_cells bu | None => [] end) = n.
Proof. unfold len_of. destruct (nth_error h b); intro H; inversion H; reflexivity. Qed.

Lemma slot_ok_mono_f h fs h' fs' s fx :
  slot_ok h fs s -> len_mono h h' ->
  (forall g o, g <> fx -> own_of fs g = Some o -> own_of fs' g = Some o) ->
  (forall a, s <> SFView a (Some fx)) ->
  slot_ok h' fs' s.
Proof.
  intros Hs Hl Ho Hn. destruct s as [|a|a [b|]|f|a [g|]]; simpl in *; auto.
  - destruct Hs as [n [H1 H2]]. exists n. split; auto.
  - destruct Hs as [Hnl [[o Hg] Hp]].
    assert (g <> fx) by (intro E; subst; eapply Hn; eauto).
    split; auto. split; [exists o; apply Ho; auto|].
    intros b off Hab. destruct (Hp b off Hab) as [P1 [n [P2 P3]]].
    split; [apply Ho; auto|]. exists n. split; auto.
Qed.

(* a FixedArray slot is the only reference to its control block *)
Lemma fixed_sole sl fs i f :
  (forall f, frc_of fs f = csum (w_slot_fobj f) sl) ->
  (forall f, csum (w_slot_fix f) sl <> 0 -> csum (w_slot_fobj f) sl = 1) ->
  nth_error sl i = Some (SFixed f) ->
  csum (w_slot_fobj f) sl = 1 /\ frc_of fs f = 1 /\
  forall j a, nth_error sl j = Some (SFView a (Some f)) -> False.
Proof.
  intros Hfrc Hxf Hi.
  pose proof (csum_ge1 (w_slot_fix f) sl i _ Hi) as G. cbn [w_slot_fix] in G. rewrite Nat.eqb_refl in G.
  assert (E : csum (w_slot_fobj f) sl = 1) by (apply Hxf; lia).
  split; auto. split; [rewrite Hfrc; auto|].
  intros j a Hj. assert (i <> j) by (intro; subst; congruence).
  pose proof (csum_ge2 (w_slot_fobj f) sl i j _ _ H Hi Hj) as G2. cbn [w_slot_fobj w_opt] in G2.
  rewrite Nat.eqb_refl in G2. lia.
Qed.

Ltac len_goal := rewrite ?len_of_hdec, ?len_of_hinc; apply len_of_new.
Ltac own_shape n :=
  exists n; split; [len_goal | first [apply vec_arr_len; scbn; len_goal | rewrite (vec_len_raw _ _ n); [reflexivity | len_goal]]].

Lemma wf_assign_from st i af ptr c st' :
  WF st -> (length c <> 0 -> ptr <> None) -> assign_from st i af ptr c = Some st' -> WF st'.
Proof.
  intros W Hp H. unfold assign_from in H.
  destruct (slot_at st i) as [|a0|a0 vb|f|a0 g] eqn:Es; try discriminate.
  - assert (Hi : nth_error (slots st) i = Some (SView a0)) by (rewrite <- Es; apply slot_at_nonempty; congruence).
    wf_open st W. scbn_in H; inversion H; subst st'; clear H; wf_split.
    + cnt_b Hrc Hxb h. + cnt_f Hfrc Hxf fs sl. + cnt_b Hrc Hxb h. + cnt_f Hfrc Hxf fs sl.
    + new_slot Hsl i. apply null_iff_set_ptr. auto.
    + keep_fobjs Hfo.
  - assert (Hi : nth_error (slots st) i = Some (SOwned a0 vb)) by (rewrite <- Es; apply slot_at_nonempty; congruence).
    wf_open st W. unfold vec_alloc in H. destruct c as [|x c0]; [|set (c := x :: c0) in *; clearbody c];
    destruct vb as [b0|]; scbn_in H; inversion H; subst st'; clear H; wf_split.
    + cnt_b Hrc Hxb h. + cnt_f Hfrc Hxf fs sl. + cnt_b Hrc Hxb h. + cnt_f Hfrc Hxf fs sl.
    + new_slot Hsl i. reflexivity.
    + keep_fobjs Hfo.
    + cnt_b Hrc Hxb h. + cnt_f Hfrc Hxf fs sl. + cnt_b Hrc Hxb h. + cnt_f Hfrc Hxf fs sl.
    + new_slot Hsl i. reflexivity.
    + keep_fobjs Hfo.
    + cnt_b Hrc Hxb h. + cnt_f Hfrc Hxf fs sl. + cnt_b Hrc Hxb h. + cnt_f Hfrc Hxf fs sl.
    + new_slot Hsl i. own_shape (length c).
    + keep_fobjs Hfo.
    + cnt_b Hrc Hxb h. + cnt_f Hfrc Hxf fs sl. + cnt_b Hrc Hxb h. + cnt_f Hfrc Hxf fs sl.
    + new_slot Hsl i. own_shape (length c).
    + keep_fobjs Hfo.
  - destruct af; [|discriminate].
    assert (Hi : nth_error (slots st) i = Some (SFixed f)) by (rewrite <- Es; apply slot_at_nonempty; congruence).
    unfold fixed_assign in H. destruct (nth_error (fobjs st) f) as [fo|] eqn:Ef; [|discriminate].
    wf_open st W.
    destruct (fixed_sole sl fs i f Hfrc Hxf Hi) as [S1 [S2 S3]].
    rewrite (frc_of_some _ _ _ Ef) in S2.
    destruct (fo_own fo) as [b0|] eqn:Eo; scbn_in H; inversion H; subst st'; clear H; wf_split.
    + cnt_b Hrc Hxb h.
    + intro f'. rewrite (frc_of_upd _ _ _ _ _ Ef). pose proof (Hfrc f'). pose proof (frc_of_some _ _ _ Ef). wfin2.
    + cnt_b Hrc Hxb h.
    + exact Hxf.
    + intros j s Hs. eapply slot_ok_mono_f with (fx := f); [eapply Hsl; eauto | lm | |].
      * intros g o Hg. rewrite (own_of_upd _ _ _ _ _ Ef). destruct (Nat.eqb_spec f g); congruence.
      * intros a E. subst s. eapply S3; eauto.
    + intros f' fo' Hf'. rewrite nth_error_upd in Hf'. destruct (Nat.eqb_spec f f').
      * subst f'. rewrite Ef in Hf'. inversion Hf'; subst fo'. intros _. right.
        exists (length h), (length c). split; [reflexivity|]. split; [len_goal | reflexivity].
      * eapply fobj_ok_mono; [eapply Hfo; eauto | lm].
    + cnt_b Hrc Hxb h.
    + intro f'. rewrite (frc_of_upd _ _ _ _ _ Ef). pose proof (Hfrc f'). pose proof (frc_of_some _ _ _ Ef). wfin2.
    + cnt_b Hrc Hxb h.
    + exact Hxf.
    + intros j s Hs. eapply slot_ok_mono_f with (fx := f); [eapply Hsl; eauto | lm | |].
      * intros g o Hg. rewrite (own_of_upd _ _ _ _ _ Ef). destruct (Nat.eqb_spec f g); congruence.
      * intros a E. subst s. eapply S3; eauto.
    + intros f' fo' Hf'. rewrite nth_error_upd in Hf'. destruct (Nat.eqb_spec f f').
      * subst f'. rewrite Ef in Hf'. inversion Hf'; subst fo'. intros _. right.
        exists (length h), (length c). split; [reflexivity|]. split; [len_goal | reflexivity].
      * eapply fobj_ok_mono; [eapply Hfo; eauto | lm].
Qed.

Lemma wf_step_AssignSrc st i k st' : WF st -> step true true st (AssignSrc i k) = Some st' -> WF st'.
Proof.
  intros W H. cbn [step] in H. destruct (whole st k) as [[p c]|] eqn:Ew; [|discriminate].
  apply whole_inv in Ew. destruct Ew as [b [bu [_ [Ep _]]]]. subst p.
  eapply wf_assign_from; [exact W| |exact H]. intros; discriminate.
Qed.
Lemma wf_step_ResetPtr st i p n st' : WF st -> step true true st (ResetPtr i p n) = Some st' -> WF st'.
Proof.
  intros W H. cbn [step] in H. destruct (resolve st p n) as [[q c]|] eqn:Ew; [|discriminate].
  eapply wf_assign_from; [exact W| |exact H]. eapply resolve_ptr; eauto.
Qed.

Lemma wf_step_Reset st i st' : WF st -> step true true st (Reset i) = Some st' -> WF st'.
Proof.
  intros W H. cbn [step] in H. unfold op_reset in H.
  destruct (slot_at st i) as [|a0|a0 vb|f|a0 g] eqn:Es; try discriminate.
  - assert (Hi : nth_error (slots st) i = Some (SView a0)) by (rewrite <- Es; apply slot_at_nonempty; congruence).
    wf_open st W. scbn_in H; inversion H; subst st'; clear H; wf_split.
    + cnt_b Hrc Hxb h. + cnt_f Hfrc Hxf fs sl. + cnt_b Hrc Hxb h. + cnt_f Hfrc Hxf fs sl.
    + new_slot Hsl i. apply null_iff_null.
    + keep_fobjs Hfo.
  - assert (Hi : nth_error (slots st) i = Some (SOwned a0 vb)) by (rewrite <- Es; apply slot_at_nonempty; congruence).
    wf_open st W. destruct vb as [b0|]; scbn_in H; inversion H; subst st'; clear H; wf_split.
    + cnt_b Hrc Hxb h. + cnt_f Hfrc Hxf fs sl. + cnt_b Hrc Hxb h. + cnt_f Hfrc Hxf fs sl.
    + new_slot Hsl i. reflexivity.
    + keep_fobjs Hfo.
    + cnt_b Hrc Hxb h. + cnt_f Hfrc Hxf fs sl. + cnt_b Hrc Hxb h. + cnt_f Hfrc Hxf fs sl.
    + new_slot Hsl i. reflexivity.
    + keep_fobjs Hfo.
Qed.

(* a referenced control block exists and is live *)
Lemma fobj_ref sl fs i s g :
  (forall f, frc_of fs f = csum (w_slot_fobj f) sl) ->
  nth_error sl i = Some s -> w_slot_fobj g s = 1 ->
  exists fo, nth_error fs g = Some fo /\ 1 <= fo_rc fo.
Proof.
  intros Hfrc Hi Hw. pose proof (csum_ge1 (w_slot_fobj g) sl i _ Hi) as G. rewrite Hw in G.
  rewrite <- Hfrc in G. unfold frc_of in G. destruct (nth_error fs g) as [fo|]; [|lia]. eauto.
Qed.

Ltac upd_fobj Hfo Ef f :=
  let f' := fresh "f'" in let fo' := fresh "fo'" in let Hf' := fresh "Hf'" in
  intros f' fo' Hf'; rewrite nth_error_upd in Hf'; destruct (Nat.eqb_spec f f');
  [ subst f'; rewrite Ef in Hf'; inversion Hf'; subst fo'; clear Hf'
  | eapply fobj_ok_mono; [eapply Hfo; eauto | lm] ].

Lemma w_fobj_live_ge b fo fs f : nth_error fs f = Some fo -> w_fobj b fo <= csum (w_fobj b) fs.
Proof. intro H. eapply csum_ge1; eauto. Qed.

Lemma fview_excl sl i a f : nth_error sl i = Some (SFView a (Some f)) ->
  csum (w_slot_fix f) sl + 1 <= csum (w_slot_fobj f) sl.
Proof.
  revert i; induction sl as [|y l IH]; intros [|i] H; simpl in *; try discriminate.
  - inversion H; subst. simpl. rewrite Nat.eqb_refl. pose proof (fix_le_fobj l f). lia.
  - specialize (IH _ H). assert (w_slot_fix f y <= w_slot_fobj f y) by (destruct y; simpl; lia). lia.
Qed.

Lemma wf_step_Destroy st i st' : WF st -> step true true st (Destroy i) = Some st' -> WF st'.
Proof.
  intros W H. cbn [step] in H.
  destruct (slot_at st i) as [|a0|a0 vb|f|a0 g] eqn:Es; try discriminate.
  - assert (Hi : nth_error (slots st) i = Some (SView a0)) by (rewrite <- Es; apply slot_at_nonempty; congruence).
    wf_open st W. cbn [drop] in H. scbn_in H; inversion H; subst st'; clear H; wf_split.
    + cnt_b Hrc Hxb h. + cnt_f Hfrc Hxf fs sl. + cnt_b Hrc Hxb h. + cnt_f Hfrc Hxf fs sl.
    + new_slot Hsl i. exact I.
    + keep_fobjs Hfo.
  - assert (Hi : nth_error (slots st) i = Some (SOwned a0 vb)) by (rewrite <- Es; apply slot_at_nonempty; congruence).
    wf_open st W. cbn [drop] in H. destruct vb as [b0|]; scbn_in H; inversion H; subst st'; clear H; wf_split.
    + cnt_b Hrc Hxb h. + cnt_f Hfrc Hxf fs sl. + cnt_b Hrc Hxb h. + cnt_f Hfrc Hxf fs sl.
    + new_slot Hsl i. exact I.
    + keep_fobjs Hfo.
    + cnt_b Hrc Hxb h. + cnt_f Hfrc Hxf fs sl. + cnt_b Hrc Hxb h. + cnt_f Hfrc Hxf fs sl.
    + new_slot Hsl i. exact I.
    + keep_fobjs Hfo.
  - assert (Hi : nth_error (slots st) i = Some (SFixed f)) by (rewrite <- Es; apply slot_at_nonempty; congruence).
    wf_open st W. cbn [drop] in H. unfold release_fobj in H. cbn [fobjs] in H.
    destruct (fixed_sole sl fs i f Hfrc Hxf Hi) as [S1 [S2 S3]].
    destruct (nth_error fs f) as [fo|] eqn:Ef; [|unfold frc_of in S2; rewrite Ef in S2; discriminate].
    rewrite (frc_of_some _ _ _ Ef) in S2. rewrite S2 in H. cbn [Nat.eqb] in H.
    destruct (fo_own fo) as [b0|] eqn:Eo; scbn_in H; inversion H; subst st'; clear H; wf_split.
    + cnt_b Hrc Hxb h.
    + intro f'. rewrite (frc_of_upd _ _ _ _ _ Ef). pose_csum. pose proof (Hfrc f'). pose proof (Hxf f'). wfin2.
    + cnt_b Hrc Hxb h.
    + cnt_f Hfrc Hxf fs sl.
    + new_slot Hsl i. exact I. eapply own_mono_upd; eauto.
    + upd_fobj Hfo Ef f. intro L. unfold fo_live in L. cbn [fo_rc] in L. rewrite ?S2 in L. discriminate.
    + cnt_b Hrc Hxb h.
    + intro f'. rewrite (frc_of_upd _ _ _ _ _ Ef). pose_csum. pose proof (Hfrc f'). pose proof (Hxf f'). wfin2.
    + cnt_b Hrc Hxb h.
    + cnt_f Hfrc Hxf fs sl.
    + new_slot Hsl i. exact I. eapply own_mono_upd; eauto.
    + upd_fobj Hfo Ef f. intro L. unfold fo_live in L. cbn [fo_rc] in L. rewrite ?S2 in L. discriminate.
  - assert (Hi : nth_error (slots st) i = Some (SFView a0 g)) by (rewrite <- Es; apply slot_at_nonempty; congruence).
    wf_open st W. cbn [drop] in H. unfold release_fobj in H. cbn [fobjs] in H.
    destruct g as [g|].
    2:{ scbn_in H; inversion H; subst st'; clear H; wf_split.
        + cnt_b Hrc Hxb h. + cnt_f Hfrc Hxf fs sl. + cnt_b Hrc Hxb h. + cnt_f Hfrc Hxf fs sl.
        + new_slot Hsl i. exact I.
        + keep_fobjs Hfo. }
    destruct (fobj_ref sl fs i _ g Hfrc Hi) as [fo [Ef Hge]]; [cbn; rewrite Nat.eqb_refl; reflexivity|].
    rewrite Ef in H. pose proof (fview_excl _ _ _ _ Hi) as FX.
    destruct (Nat.eqb_spec (fo_rc fo) 1) as [R|R]; destruct (fo_own fo) as [b0|] eqn:Eo;
      scbn_in H; inversion H; subst st'; clear H; wf_split.
    + cnt_b Hrc Hxb h.
    + intro f'. rewrite (frc_of_upd _ _ _ _ _ Ef). pose_csum. pose proof (Hfrc f'). pose proof (Hxf f').
      pose proof (frc_of_some _ _ _ Ef). wfin2.
    + cnt_b Hrc Hxb h.
    + cnt_f Hfrc Hxf fs sl.
    + new_slot Hsl i. exact I. eapply own_mono_upd; eauto.
    + upd_fobj Hfo Ef g. intro L. unfold fo_live in L. cbn [fo_rc] in L. rewrite ?R in L. discriminate.
    + cnt_b Hrc Hxb h.
    + intro f'. rewrite (frc_of_upd _ _ _ _ _ Ef). pose_csum. pose proof (Hfrc f'). pose proof (Hxf f').
      pose proof (frc_of_some _ _ _ Ef). wfin2.
    + cnt_b Hrc Hxb h.
    + cnt_f Hfrc Hxf fs sl.
    + new_slot Hsl i. exact I. eapply own_mono_upd; eauto.
    + upd_fobj Hfo Ef g. intro L. unfold fo_live in L. cbn [fo_rc] in L. rewrite ?R in L. discriminate.
    + cnt_b Hrc Hxb h.
    + intro f'. rewrite (frc_of_upd _ _ _ _ _ Ef). pose_csum. pose proof (Hfrc f'). pose proof (Hxf f').
      pose proof (frc_of_some _ _ _ Ef). wfin2.
    + cnt_b Hrc Hxb h.
    + cnt_f Hfrc Hxf fs sl.
    + new_slot Hsl i. exact I. eapply own_mono_upd; eauto.
    + upd_fobj Hfo Ef g. eapply fobj_ok_rc; [eapply Hfo; eauto | | reflexivity | cbn [fo_own]; congruence].
      unfold fo_live. destruct (Nat.eqb_spec (fo_rc fo) 0); auto. lia.
    + cnt_b Hrc Hxb h.
    + intro f'. rewrite (frc_of_upd _ _ _ _ _ Ef). pose_csum. pose proof (Hfrc f'). pose proof (Hxf f').
      pose proof (frc_of_some _ _ _ Ef). wfin2.
    + cnt_b Hrc Hxb h.
    + cnt_f Hfrc Hxf fs sl.
    + new_slot Hsl i. exact I. eapply own_mono_upd; eauto.
    + upd_fobj Hfo Ef g. eapply fobj_ok_rc; [eapply Hfo; eauto | | reflexivity | cbn [fo_own]; congruence].
      unfold fo_live. destruct (Nat.eqb_spec (fo_rc fo) 0); auto. lia.
Qed.
