(* C11 — property theorems only (closed by [exact] of lemmas from the proof files). *)
From Common Require Import Prelude.
From C11 Require Import Model Lists Proofs.

(* at(i) succeeds exactly for i < size() and throws otherwise; when it succeeds it is operator[] *)
Theorem at_ok_iff : forall h a i,
  ((exists r, arr_at h a i = ORet r) <-> i < a_len a) /\
  (arr_at h a i = OThrow <-> a_len a <= i) /\
  (i < a_len a -> arr_at h a i = ORet (arr_index h a i)).
Proof. intros h a i. split; [apply at_ok_iff_lemma | split; [apply at_throws_iff | apply at_is_index]]. Qed.
Print Assumptions at_ok_iff.

(* iteration begin()..end() covers exactly size() elements, the i-th being operator[](i) *)
Theorem iteration_exact : forall h a,
  length (arr_iter h a) = a_len a /\
  (forall i, i < a_len a -> nth_error (arr_iter h a) i = Some (arr_index h a i)) /\
  (forall i, a_len a <= i -> nth_error (arr_iter h a) i = None).
Proof. intros h a. split; [apply iter_length | split; intro i; [apply iter_nth | apply iter_beyond]]. Qed.
Print Assumptions iteration_exact.

(* DataView<T>[i] reads exactly the sizeof(T) bytes at byte offset i*stride from the pointer *)
Theorem dataview_offset : forall h b off stride sz i bu,
  nth_error h b = Some bu -> b_alive bu = true ->
  off + i * stride + sz <= length (b_cells bu) ->
  dv_index h {| d_ptr := Some (b, off); d_stride := stride |} sz i
  = map RVal (firstn sz (skipn (off + i * stride) (b_cells bu))).
Proof. exact dv_index_live. Qed.
Print Assumptions dataview_offset.

Example dataview_example :
  dv_index [{| b_cells := [1;2;3;4;5;6;7;8;9;10;11;12]%N; b_cap := 12; b_rc := 1 |}]
           {| d_ptr := Some (0, 2); d_stride := 3 |} 2 3
  = [RVal 12%N; ROob].
Proof. vm_compute. reflexivity. Qed.

(* ------------------------------------------------------- the code before the repairs *)
(* implicit OwnedArray copy: A := OwnedArray(src 0); B := copy of A; destroy A; B's elements dangle *)
Theorem ownedarray_copy_refuted :
  exists ops i o, nth_error (observe (run_old_owned (init 4 3) ops)) i = Some (Some o) /\
                  o_kind o = KOwned /\ In RDangling (o_elems o).
Proof.
  exists [SrcSet 0 [1;2;3]%N; FromSrc 0 KOwned 0; CopyCtor 1 0; Destroy 0], 1.
  eexists. vm_compute. split; [reflexivity | split; [reflexivity | left; reflexivity]].
Qed.

(* FixedArrayView holding the caller's FixedArray object: assigning to that object frees the viewed data *)
Theorem fixedarrayview_reassign_refuted :
  exists ops i o, nth_error (observe (run_old_fview (init 4 3) ops)) i = Some (Some o) /\
                  o_kind o = KFView /\ In RDangling (o_elems o).
Proof.
  exists [SrcSet 0 [1;2;3]%N; SrcSet 1 [7;8]%N; FromSrc 0 KFixed 0; MkFView 1 0 1 2; AssignSrc 0 1], 1.
  eexists. vm_compute. split; [reflexivity | split; [reflexivity | left; reflexivity]].
Qed.

(* the same histories on the repaired code read the original contents *)
Example ownedarray_copy_repaired :
  map (option_map o_elems) (observe (run_new (init 4 3) [SrcSet 0 [1;2;3]%N; FromSrc 0 KOwned 0; CopyCtor 1 0; Destroy 0]))
  = [None; Some [RVal 1; RVal 2; RVal 3]%N; None; None].
Proof. vm_compute. reflexivity. Qed.

Example fixedarrayview_reassign_repaired :
  map (option_map o_elems)
      (observe (run_new (init 4 3) [SrcSet 0 [1;2;3]%N; SrcSet 1 [7;8]%N; FromSrc 0 KFixed 0; MkFView 1 0 1 2; AssignSrc 0 1]))
  = [Some [RVal 7; RVal 8]%N; Some [RVal 2; RVal 3]%N; None; None].
Proof. vm_compute. reflexivity. Qed.
