(* C11 — property theorems only (closed by [exact] of lemmas from the proof files).

   Vocabulary (Model.v / Spec.v): a state is a heap of buffers with reference counts (alive iff the count is
   positive; ids are never reused), FixedArray objects in shared_ptr control blocks, wrapper slots and source
   containers.  A wrapper designates (buffer, offset, len).  [step_new] is one operation of the REPAIRED code
   (OwnedArray with user-defined copy/move, FixedArrayView holding its own share of the allocation), None when
   the C++ precondition of the call fails; [reachable st] = st is the result of any history from the empty state;
   [elems st i] = what iterating over the wrapper in slot i yields ([RVal v] a value, [RDangling] freed storage,
   [ROob] outside the buffer, [RNull] through a null pointer). *)
From Common Require Import Prelude.
From C11 Require Import Model Spec Lists Proofs Inv Inv2 Inv6 InvCor InvStep ProofsReach Frame Alias FactsModel FactsCheck FactsSelf.

(* ---------------------------------------------------------------------------------- the invariant *)
(* For every history: every live wrapper has ptr = nullptr <-> size() = 0, and every live OWNING wrapper
   (OwnedArray, FixedArray, FixedArrayView — originals and copies alike) designates size() cells of a live
   buffer: each index below size() reads a value (never freed storage, never outside the buffer, never null). *)
Theorem array_inv : forall st i s a, reachable st ->
  nth_error (slots st) i = Some s -> slot_arr st s = Some a ->
  (a_ptr a = None <-> a_len a = 0) /\
  (match s with SView _ => True | _ => forall j, j < a_len a -> exists v, arr_index (heap st) a j = RVal v end).
Proof. exact array_inv_reach. Qed.
Print Assumptions array_inv.

(* the same, in terms of what is observable: size()/data()==nullptr/iteration/at() of an owning wrapper *)
Theorem owning_wrapper_observations_valid : forall st i s o, reachable st ->
  nth_error (slots st) i = Some s -> observe_slot st s = Some o -> o_kind o <> KView ->
  length (o_elems o) = o_len o /\ (o_null o = true <-> o_len o = 0) /\
  (forall j, j < o_len o -> exists v, nth_error (o_elems o) j = Some (RVal v) /\ arr_at_slot st s j = Some (ORet (RVal v))) /\
  arr_at_slot st s (o_len o) = Some OThrow.
Proof. exact owning_elems_valid. Qed.
Print Assumptions owning_wrapper_observations_valid.

(* the inductive invariant behind it is preserved by every operation (18 kinds), and holds initially *)
Theorem invariant_initial : forall ns nk, WF (init ns nk).
Proof. exact wf_init. Qed.
Print Assumptions invariant_initial.

Theorem invariant_preserved : forall st o st', WF st -> step_new st o = Some st' -> WF st'.
Proof. exact wf_step. Qed.
Print Assumptions invariant_preserved.

(* ownership as documented: in every reachable state each buffer's reference count is exactly the number of
   owners that hold it (source containers, OwnedArray vectors, live FixedArray objects), each FixedArray object's
   count is the number of shared_ptrs to it (FixedArray slots, FixedArrayViews); nothing refers to an unallocated id *)
Theorem refcounts_exact : forall st, reachable st ->
  (forall b bu, nth_error (heap st) b = Some bu -> b_rc bu = refs_buf st b) /\
  (forall f fo, nth_error (fobjs st) f = Some fo -> fo_rc fo = refs_fobj st f) /\
  (forall b, length (heap st) <= b -> refs_buf st b = 0) /\
  (forall f, length (fobjs st) <= f -> refs_fobj st f = 0).
Proof. exact refcounts_exact_reach. Qed.
Print Assumptions refcounts_exact.

(* ... hence once every owner is gone every allocation has been released *)
Theorem no_leak : forall st, reachable st ->
  (forall i s, nth_error (slots st) i = Some s -> s = SEmpty \/ exists a, s = SView a) ->
  (forall k o, nth_error (srcs st) k = Some o -> o = None) ->
  (forall b bu, nth_error (heap st) b = Some bu -> b_rc bu = 0) /\
  (forall f fo, nth_error (fobjs st) f = Some fo -> fo_rc fo = 0).
Proof. exact no_leak_reach. Qed.
Print Assumptions no_leak.

(* ------------------------------------------------------------------------------ at() and iteration *)
(* at(i) succeeds exactly for i < size() and throws otherwise; when it succeeds it is operator[] *)
Theorem at_ok_iff : forall h a i,
  ((exists r, arr_at h a i = ORet r) <-> i < a_len a) /\
  (arr_at h a i = OThrow <-> a_len a <= i) /\
  (i < a_len a -> arr_at h a i = ORet (arr_index h a i)).
Proof. exact at_ok_iff_all. Qed.
Print Assumptions at_ok_iff.

(* iteration begin()..end() covers exactly size() elements, the i-th being operator[](i) *)
Theorem iteration_exact : forall h a,
  length (arr_iter h a) = a_len a /\
  (forall i, i < a_len a -> nth_error (arr_iter h a) i = Some (arr_index h a i)) /\
  (forall i, a_len a <= i -> nth_error (arr_iter h a) i = None).
Proof. exact iteration_exact_all. Qed.
Print Assumptions iteration_exact.

(* -------------------------------------------------------------- accessors return locations of the source *)
(* operator[](i), at(i), begin()+i, data()+i all denote ONE location, arr_loc a i = cell off+i of the buffer the wrapper
   designates.  It depends on the wrapper only: it is the same whatever the heap holds and however many further accessor
   calls are made (accessors change nothing), so two references can be held at once; and what is read through a held
   reference in any LATER heap h is what operator[](i) yields in h — the reference follows the source. *)
Theorem accessor_returns_source_cell : forall a i,
  (forall h, arr_index h a i = read_loc h (arr_loc a i)) /\
  (forall h, i < a_len a -> arr_at h a i = ORet (read_loc h (arr_loc a i))) /\
  (forall h, i < a_len a -> nth_error (arr_iter h a) i = Some (read_loc h (arr_loc a i))) /\
  (forall off b, a_ptr a = Some (b, off) -> arr_loc a i = Some (b, off + i)) /\
  (a_ptr a = None -> arr_loc a i = None).
Proof. exact accessor_loc_lemma. Qed.
Print Assumptions accessor_returns_source_cell.

(* DataView::operator[](i) returns the location of byte i*stride of the wrapped range (not of a copy) *)
Theorem dataview_returns_source_cell : forall d sz i,
  (forall h, dv_index h d sz i = map (fun j => read_cell h (dv_loc d i) j) (seq 0 sz)) /\
  (forall b off, d_ptr d = Some (b, off) -> dv_loc d i = Some (b, off + i * d_stride d)).
Proof. exact dv_loc_lemma. Qed.
Print Assumptions dataview_returns_source_cell.

(* for a view over source container k these locations are the container's own cells ... *)
Theorem view_location : forall st i k st1 b,
  step_new st (FromSrc i KView k) = Some st1 -> nth_error (srcs st) k = Some (Some b) ->
  exists a, slot_at st1 i = SView a /\ forall j, j < a_len a -> arr_loc a j = Some (b, j).
Proof. exact view_location_lemma. Qed.
Print Assumptions view_location.

(* ... and a write to the container's element j shows through a reference held to that location *)
Theorem held_reference_follows_source : forall st k j v st2 b,
  step_new st (SrcWrite k j v) = Some st2 -> nth_error (srcs st) k = Some (Some b) ->
  read_loc (heap st2) (Some (b, j)) = RVal v.
Proof. exact held_reference_follows_source. Qed.
Print Assumptions held_reference_follows_source.

(* ----------------------------------------------------------------------------------- ownership *)
(* An owning array (OwnedArray or FixedArray) built from source container k holds k's elements, and whatever
   happens to k afterwards — an element overwritten, the container replaced, the container destroyed — leaves
   the array's contents unchanged and valid. *)
Theorem owned_independent : forall st i kd k st1 c, reachable st -> (kd = KOwned \/ kd = KFixed) ->
  step_new st (FromSrc i kd k) = Some st1 -> src_cells st k = Some c ->
  elems st1 i = Some (map RVal c) /\
  forall o st2, src_op k o -> step_new st1 o = Some st2 -> elems st2 i = Some (map RVal c).
Proof. exact owned_independent_reach. Qed.
Print Assumptions owned_independent.

(* A copy of an owning array has the original's contents, and keeps them when the original is destroyed. *)
Theorem owned_survives_copy : forall st i j e st1 st2, reachable st ->
  (match slot_at st j with SOwned _ _ | SFixed _ => True | _ => False end) ->
  elems st j = Some e -> step_new st (CopyCtor i j) = Some st1 -> step_new st1 (Destroy j) = Some st2 ->
  elems st1 i = Some e /\ elems st2 i = Some e.
Proof. exact owned_survives_copy_reach. Qed.
Print Assumptions owned_survives_copy.

(* the same for an OwnedArray move-constructed from the original *)
Theorem owned_survives_move : forall st i j a vb e st1 st2, reachable st ->
  slot_at st j = SOwned a vb ->
  elems st j = Some e -> step_new st (MoveCtor i j) = Some st1 -> step_new st1 (Destroy j) = Some st2 ->
  elems st1 i = Some e /\ elems st2 i = Some e.
Proof. exact owned_survives_move_reach. Qed.
Print Assumptions owned_survives_move.

(* A FixedArrayView (off, n) onto a FixedArray shows elements off..off+n of it, and keeps showing them when the
   viewed FixedArray is destroyed or assigned to: the view keeps the allocation alive. *)
Theorem owned_survives_fview : forall st i j f off n st1 e o st2, reachable st ->
  slot_at st j = SFixed f -> elems st j = Some e -> step_new st (MkFView i j off n) = Some st1 ->
  fixed_kill j o -> step_new st1 o = Some st2 ->
  elems st1 i = Some (firstn n (skipn off e)) /\ elems st2 i = Some (firstn n (skipn off e)).
Proof. exact owned_survives_fview_reach. Qed.
Print Assumptions owned_survives_fview.

(* A non-owning ArrayView aliases its source exactly: after the source is written, the view reads what the
   source holds now. *)
Theorem view_aliases : forall st i k j v st1 st2, reachable st ->
  step_new st (FromSrc i KView k) = Some st1 -> step_new st1 (SrcWrite k j v) = Some st2 ->
  exists c2, src_cells st2 k = Some c2 /\ elems st2 i = Some (map RVal c2) /\ nth_error c2 j = Some v.
Proof. exact view_aliases_reach. Qed.
Print Assumptions view_aliases.

(* OwnedArray::resize(n, v): afterwards the base pointer designates the vector's CURRENT allocation (also after a
   growth past the capacity, which moves the elements to a new buffer and frees the old one), size() = n, the old
   elements are kept up to n and the new ones are v. *)
Theorem resize_tracks : forall st i a vb n v st1, reachable st ->
  slot_at st i = SOwned a vb -> step_new st (Resize i n v) = Some st1 ->
  exists a' vb', slot_at st1 i = SOwned a' vb' /\ a' = vec_arr st1 vb' /\ a_len a' = n /\
    arr_iter (heap st1) a' = map RVal (firstn n (vec_cells st vb) ++ repeat v (n - length (vec_cells st vb))).
Proof. exact resize_tracks_reach. Qed.
Print Assumptions resize_tracks.

(* ---------------------------------------------------------------------- self-aliasing (pointer, size) sources *)
(* A (T *data, size_t n) argument may point into a wrapper's own storage: w_i.reset(w_j.data() + off, n) with j = i
   ("drop the first off elements"), or through a view over the array itself.  The result is the copy of the source
   range AS IT WAS BEFORE THE CALL: elements off .. off+n of the old contents — although the call releases the very
   buffer the source lies in. *)
Theorem reset_from_wrapper : forall st i j a vb off n e st1, reachable st ->
  slot_at st i = SOwned a vb -> owning (slot_at st j) -> elems st j = Some e ->
  step_new st (ResetWrap i j off n) = Some st1 ->
  elems st1 i = Some (firstn n (skipn off e)).
Proof. exact reset_from_wrapper_reach. Qed.
Print Assumptions reset_from_wrapper.

Theorem reset_from_own_range : forall st i a vb off n e st1, reachable st ->
  slot_at st i = SOwned a vb -> elems st i = Some e ->
  step_new st (ResetWrap i i off n) = Some st1 ->
  elems st1 i = Some (firstn n (skipn off e)).
Proof. exact reset_from_own_range_reach. Qed.
Print Assumptions reset_from_own_range.

(* a.reset(a.data(), a.size()) changes nothing observable *)
Theorem reset_from_self_whole : forall st i a vb e st1, reachable st ->
  slot_at st i = SOwned a vb -> elems st i = Some e ->
  step_new st (ResetWrap i i 0 (length e)) = Some st1 ->
  elems st1 i = Some e.
Proof. exact reset_from_self_whole_reach. Qed.
Print Assumptions reset_from_self_whole.

(* an owning array built from a sub-range of another wrapper's storage copies it and leaves that wrapper unchanged;
   a view built over it aliases exactly that sub-range *)
Theorem from_wrapper : forall st i kd j off n e st1, reachable st -> (kd = KOwned \/ kd = KFixed) ->
  owning (slot_at st j) -> elems st j = Some e ->
  step_new st (FromWrap i kd j off n) = Some st1 ->
  elems st1 i = Some (firstn n (skipn off e)) /\ elems st1 j = Some e.
Proof. exact from_wrapper_reach. Qed.
Print Assumptions from_wrapper.

Theorem view_of_wrapper : forall st i j off n e st1, reachable st ->
  owning (slot_at st j) -> elems st j = Some e ->
  step_new st (FromWrap i KView j off n) = Some st1 ->
  elems st1 i = Some (firstn n (skipn off e)).
Proof. exact view_of_wrapper_reach. Qed.
Print Assumptions view_of_wrapper.

(* the precondition of these operations is exactly "the range lies inside the wrapper" *)
Theorem wrapper_range_defined : forall st j off n e, reachable st -> owning (slot_at st j) ->
  elems st j = Some e -> off + n <= length e -> exists q c, resolve_wrap st j off n = Some (q, c).
Proof. exact resolve_wrap_defined_reach. Qed.
Print Assumptions wrapper_range_defined.

(* a `const T &` parameter bound to an element of a wrapper — of the very array the call is made on, j = i:
   arr.resize(n, arr[idx]).  The fill value is the value that element had BEFORE the call, although the call may move
   or free the storage the reference points into (growth past the capacity) or destroy the element (shrinking). *)
Theorem resize_from_own_element : forall st i a vb n j idx e v st1, reachable st ->
  slot_at st i = SOwned a vb -> elems st j = Some e -> nth_error e idx = Some (RVal v) ->
  step_new st (ResizeRef i n j idx) = Some st1 ->
  elems st1 i = Some (map RVal (firstn n (vec_cells st vb) ++ repeat v (n - length (vec_cells st vb)))).
Proof. exact resize_ref_reach. Qed.
Print Assumptions resize_from_own_element.

(* -------------------------------------------------------------------------------- the frame theorem *)
(* An operation leaves every owning wrapper it does not target exactly as it was: the operation's targets are the
   slots it constructs, assigns, resets, resizes, moves from or destroys; a write through a wrapper additionally
   shows in every wrapper designating the same buffer (FixedArray copies and FixedArrayViews share their allocation
   by design), and in nothing else.  Whatever is done to the source containers or to other wrappers — including the
   ones j was copied from or built from — j's slot and the elements it yields are unchanged. *)
Theorem frame_step : forall st o st' j,
  reachable st -> step_new st o = Some st' ->
  owning (slot_at st j) -> ~ In j (targets o) -> ~ aliased_write st o j ->
  slot_at st' j = slot_at st j /\ elems st' j = elems st j.
Proof. exact frame_step_reach. Qed.
Print Assumptions frame_step.

(* ... hence over any history that does not touch it (a skipped operation changes nothing) *)
Theorem frame_run : forall ops st j, reachable st -> owning (slot_at st j) -> untouched st ops j ->
  elems (run_new st ops) j = elems st j.
Proof. exact frame_run_reach. Qed.
Print Assumptions frame_run.

(* "the contents of an owning array ... stay valid for as long as that array is alive": through any history that
   neither targets nor writes through an alias of wrapper j, j keeps yielding the same elements, all of them values *)
Theorem valid_while_alive : forall ops st j e, reachable st -> owning (slot_at st j) -> elems st j = Some e ->
  untouched st ops j ->
  elems (run_new st ops) j = Some e /\ Forall (fun r => exists v, r = RVal v) e.
Proof. exact valid_while_alive_reach. Qed.
Print Assumptions valid_while_alive.

(* ------------------------------------------------------------------------------------- DataView *)
(* DataView<T>[i] reads exactly the sizeof(T) bytes at byte offset i*stride from the pointer *)
Theorem dataview_offset : forall h b off stride sz i bu,
  nth_error h b = Some bu -> b_alive bu = true ->
  off + i * stride + sz <= length (b_cells bu) ->
  dv_index h {| d_ptr := Some (b, off); d_stride := stride |} sz i
  = map RVal (firstn sz (skipn (off + i * stride) (b_cells bu))).
Proof. exact dv_index_live. Qed.
Print Assumptions dataview_offset.

(* ------------------------------------------------------------------- the source-derived fact check *)
(* The reflective checker of PropertiesFacts.v accepts the table Model.v assumes (special members, micro-operation
   lists interpreted over the model's heap on 105 configurations vs step_new, accessor / at() / setPtr / DataView
   expressions on a grid vs set_ptr / arr_at / arr_iter / dv_index) — so a failure of PropertiesFacts.facts_match on
   the table generated from the working tree is about the source — and it rejects realistic slips: resize, the copy
   constructor or reset() without setPtr, a move constructor that does not reset its source, a FixedArrayView
   holding the caller's FixedArray, a FixedArray assignment that keeps the old allocation, an implicit OwnedArray
   copy constructor, at() throwing only for offset > size(), DataView[i] at i*sizeof(T). *)
Theorem fact_checker_accepts_model : check model_special model_table model_exprs = true.
Proof. exact model_facts_consistent. Qed.
Print Assumptions fact_checker_accepts_model.

(* ------------------------------------------------------- the code before the repairs (findings) *)
(* implicit OwnedArray copy: A := OwnedArray(src 0); B := copy of A; destroy A; B's elements dangle *)
Theorem ownedarray_copy_refuted :
  exists ops i o, nth_error (observe (run_old_owned (init 4 3) ops)) i = Some (Some o) /\
                  o_kind o = KOwned /\ In RDangling (o_elems o).
Proof. exact ownedarray_copy_refuted_witness. Qed.

(* FixedArrayView holding the caller's FixedArray object: assigning to that object frees the viewed data *)
Theorem fixedarrayview_reassign_refuted :
  exists ops i o, nth_error (observe (run_old_fview (init 4 3) ops)) i = Some (Some o) /\
                  o_kind o = KFView /\ In RDangling (o_elems o).
Proof. exact fixedarrayview_reassign_refuted_witness. Qed.

(* ------------------------------------------------------------------------- non-vacuity examples *)
Definition ex_hist : list op :=
  [SrcSet 0 [1;2;3]%N; SrcSet 1 [7;8]%N; FromSrc 0 KOwned 0; FromSrc 1 KFixed 0].
Definition ex_st := run_new (init 4 3) ex_hist.

Example ex_reachable : reachable ex_st.
Proof. exists 4, 3, ex_hist. reflexivity. Qed.

(* array_inv / owning_wrapper_observations_valid: an owning wrapper with 3 elements exists in a reachable state *)
Example array_inv_nonvacuous :
  exists s o, nth_error (slots ex_st) 1 = Some s /\ observe_slot ex_st s = Some o /\ o_kind o = KFixed /\
              o_len o = 3 /\ o_elems o = [RVal 1; RVal 2; RVal 3]%N.
Proof. vm_compute. eexists. eexists. repeat split; reflexivity. Qed.

(* the same histories as in the two findings, on the repaired code, read the original contents *)
Example ownedarray_copy_repaired :
  map (option_map o_elems) (observe (run_new (init 4 3) [SrcSet 0 [1;2;3]%N; FromSrc 0 KOwned 0; CopyCtor 1 0; Destroy 0]))
  = [None; Some [RVal 1; RVal 2; RVal 3]%N; None; None].
Proof. vm_compute. reflexivity. Qed.

Example fixedarrayview_reassign_repaired :
  map (option_map o_elems)
      (observe (run_new (init 4 3) [SrcSet 0 [1;2;3]%N; SrcSet 1 [7;8]%N; FromSrc 0 KFixed 0; MkFView 1 0 1 2; AssignSrc 0 1]))
  = [Some [RVal 7; RVal 8]%N; Some [RVal 2; RVal 3]%N; None; None].
Proof. vm_compute. reflexivity. Qed.

(* owned_independent: premises satisfiable, and all three kinds of source operation succeed afterwards *)
Example owned_independent_nonvacuous :
  exists st1, step_new ex_st (FromSrc 2 KOwned 0) = Some st1 /\ src_cells ex_st 0 = Some [1;2;3]%N /\
    (exists st2, step_new st1 (SrcWrite 0 1 9%N) = Some st2 /\ elems st2 2 = Some [RVal 1; RVal 2; RVal 3]%N) /\
    (exists st2, step_new st1 (SrcSet 0 [5]%N) = Some st2 /\ elems st2 2 = Some [RVal 1; RVal 2; RVal 3]%N) /\
    (exists st2, step_new st1 (SrcKill 0) = Some st2 /\ elems st2 2 = Some [RVal 1; RVal 2; RVal 3]%N).
Proof. vm_compute. eexists. repeat split; eexists; split; reflexivity. Qed.

Example owned_survives_copy_nonvacuous :
  exists st1 st2, step_new ex_st (CopyCtor 2 1) = Some st1 /\ step_new st1 (Destroy 1) = Some st2 /\
                  elems ex_st 1 = Some [RVal 1; RVal 2; RVal 3]%N /\ elems st2 2 = Some [RVal 1; RVal 2; RVal 3]%N.
Proof. vm_compute. eexists. eexists. repeat split; reflexivity. Qed.

Example owned_survives_move_nonvacuous :
  exists st1 st2, step_new ex_st (MoveCtor 2 0) = Some st1 /\ step_new st1 (Destroy 0) = Some st2 /\
                  elems st1 0 = Some [] /\ elems st2 2 = Some [RVal 1; RVal 2; RVal 3]%N.
Proof. vm_compute. eexists. eexists. repeat split; reflexivity. Qed.

Example owned_survives_fview_nonvacuous :
  exists st1 st2 st2', step_new ex_st (MkFView 2 1 1 2) = Some st1 /\
     step_new st1 (AssignSrc 1 1) = Some st2 /\ elems st2 1 = Some [RVal 7; RVal 8]%N /\ elems st2 2 = Some [RVal 2; RVal 3]%N /\
     step_new st1 (Destroy 1) = Some st2' /\ elems st2' 2 = Some [RVal 2; RVal 3]%N.
Proof. vm_compute. eexists. eexists. eexists. repeat split; reflexivity. Qed.

Example view_aliases_nonvacuous :
  exists st1 st2, step_new ex_st (FromSrc 2 KView 0) = Some st1 /\ step_new st1 (SrcWrite 0 1 9%N) = Some st2 /\
                  elems st2 2 = Some [RVal 1; RVal 9; RVal 3]%N.
Proof. vm_compute. eexists. eexists. repeat split; reflexivity. Qed.

(* resize past the capacity (3 -> 9): new allocation (buffer 4, the old buffer 2 is freed), contents kept + filled *)
Example resize_tracks_nonvacuous :
  exists st1, step_new ex_st (Resize 0 9 4%N) = Some st1 /\
    slot_at st1 0 = SOwned {| a_ptr := Some (4, 0); a_len := 9 |} (Some 4) /\
    option_map b_rc (nth_error (heap st1) 2) = Some 0 /\
    elems st1 0 = Some (map RVal [1;2;3;4;4;4;4;4;4]%N).
Proof. vm_compute. eexists. repeat split; reflexivity. Qed.

(* frame_run / valid_while_alive: a history that copies, writes through the copy's alias, overwrites and destroys the
   source, destroys the original FixedArray and resizes another array satisfies [untouched] for slot 0 *)
Definition frame_hist : list op :=
  [CopyCtor 2 1; Write 2 0 9%N; SrcWrite 0 1 7%N; SrcKill 0; Destroy 1; FromSrc 3 KOwned 1; Resize 3 5 0%N].
Example frame_nonvacuous :
  untouched ex_st frame_hist 0 /\ owning (slot_at ex_st 0) /\
  elems (run_new ex_st frame_hist) 0 = Some [RVal 1; RVal 2; RVal 3]%N /\
  elems (run_new ex_st frame_hist) 2 = Some [RVal 9; RVal 2; RVal 3]%N.
Proof.
  split; [|split; [exact I | split; vm_compute; reflexivity]].
  vm_compute. repeat split; try (intros [H|H]; [discriminate H | try destruct H as [H|H]; try discriminate H; try contradiction]);
    try (intro H; exact H); try (intros [H1 H2]; discriminate H2).
Qed.

(* self-aliasing: drop the first element through the array's own data(), then the same through a view over itself *)
Example self_reset_nonvacuous :
  exists st1 st2 st3, step_new ex_st (ResetWrap 0 0 1 2) = Some st1 /\ elems st1 0 = Some [RVal 2; RVal 3]%N /\
     step_new st1 (FromWrap 2 KView 0 0 2) = Some st2 /\ elems st2 2 = Some [RVal 2; RVal 3]%N /\
     step_new st2 (ResetWrap 0 2 1 1) = Some st3 /\ elems st3 0 = Some [RVal 3]%N /\
     elems st3 2 = Some [RDangling; RDangling].
Proof. vm_compute. eexists. eexists. eexists. repeat split; reflexivity. Qed.

(* resize(n, a[idx]) with the reference into the array itself: past the capacity (reallocation frees the referenced
   storage), and shrinking below idx (the referenced element is destroyed) followed by growth *)
Example resize_ref_nonvacuous :
  exists st1 st2 st3, step_new ex_st (ResizeRef 0 9 0 1) = Some st1 /\
     elems st1 0 = Some (map RVal [1;2;3;2;2;2;2;2;2]%N) /\
     step_new st1 (ResizeRef 0 1 0 8) = Some st2 /\ elems st2 0 = Some [RVal 1]%N /\
     step_new st2 (ResizeRef 0 3 0 0) = Some st3 /\ elems st3 0 = Some (map RVal [1;1;1]%N).
Proof. vm_compute. eexists. eexists. eexists. repeat split; reflexivity. Qed.

(* two references held at once into a view over source 0, then a write to the source *)
Example held_references_nonvacuous :
  exists st1 st2 a, step_new ex_st (FromSrc 2 KView 0) = Some st1 /\ slot_at st1 2 = SView a /\
     arr_loc a 0 = Some (0, 0) /\ arr_loc a 2 = Some (0, 2) /\
     read_loc (heap st1) (arr_loc a 0) = RVal 1%N /\ read_loc (heap st1) (arr_loc a 2) = RVal 3%N /\
     step_new st1 (SrcWrite 0 2 9%N) = Some st2 /\
     read_loc (heap st2) (arr_loc a 0) = RVal 1%N /\ read_loc (heap st2) (arr_loc a 2) = RVal 9%N.
Proof. vm_compute. eexists. eexists. eexists. repeat split; reflexivity. Qed.

Example dataview_example :
  dv_index [{| b_cells := [1;2;3;4;5;6;7;8;9;10;11;12]%N; b_cap := 12; b_rc := 1 |}]
           {| d_ptr := Some (0, 2); d_stride := 3 |} 2 3
  = [RVal 12%N; ROob].
Proof. vm_compute. reflexivity. Qed.

Example at_example :
  let h := [{| b_cells := [5;6]%N; b_cap := 2; b_rc := 1 |}] in
  let a := {| a_ptr := Some (0, 0); a_len := 2 |} in
  arr_at h a 1 = ORet (RVal 6%N) /\ arr_at h a 2 = OThrow /\ arr_iter h a = [RVal 5; RVal 6]%N.
Proof. vm_compute. repeat split; reflexivity. Qed.
