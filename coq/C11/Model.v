(* C11 — executable model of rkcommon::utility::AbstractArray / ArrayView /
   OwnedArray / FixedArray / FixedArrayView / DataView  (hand-written, Tie B).

   Memory is a heap of buffers with explicit liveness.  A buffer is live while
   its owner count is positive: 1 for a std::vector / std::array allocation
   (unique owner), the use_count for a std::shared_ptr<T> allocation.  Ids are
   never reused, so a pointer into a freed buffer is recognisably dangling
   ([RDangling]) instead of silently reading something else.

   Element values are N codes; the harness maps them to uint8_t / int / a
   24-byte struct.  Indices, lengths, ids are nat (all small). *)
From Common Require Import Prelude.

(* ------------------------------------------------------------------ heap *)
Record buffer := { b_cells : list N; b_cap : nat; b_rc : nat }.
Definition b_alive (bu : buffer) : bool := negb (Nat.eqb (b_rc bu) 0).

Fixpoint upd {A} (i : nat) (x : A) (l : list A) : list A :=
  match l, i with
  | [], _ => []
  | _ :: t, O => x :: t
  | y :: t, S j => y :: upd j x t
  end.

Definition hmod (h : list buffer) (b : nat) (f : buffer -> buffer) : list buffer :=
  match nth_error h b with Some bu => upd b (f bu) h | None => h end.
Definition hinc h b := hmod h b (fun bu => {| b_cells := b_cells bu; b_cap := b_cap bu; b_rc := S (b_rc bu) |}).
Definition hdec h b := hmod h b (fun bu => {| b_cells := b_cells bu; b_cap := b_cap bu; b_rc := pred (b_rc bu) |}).
Definition hset h b c := hmod h b (fun bu => {| b_cells := c; b_cap := b_cap bu; b_rc := b_rc bu |}).

(* --------------------------------------------------------- AbstractArray *)
(* ptr = Some (buffer id, element offset) | None (nullptr);  numItems *)
Record arr := { a_ptr : option (nat * nat); a_len : nat }.

(* AbstractArray::setPtr : ptr = numItems > 0 ? ptr : nullptr *)
Definition set_ptr (p : option (nat * nat)) (n : nat) : arr :=
  {| a_ptr := if Nat.eqb n 0 then None else p; a_len := n |}.
Definition null_arr : arr := {| a_ptr := None; a_len := 0 |}.

Inductive rd := RVal (v : N) | RDangling | ROob | RNull.

(* *(p + i) *)
Definition read_cell (h : list buffer) (p : option (nat * nat)) (i : nat) : rd :=
  match p with
  | None => RNull
  | Some (b, off) =>
      match nth_error h b with
      | None => RDangling
      | Some bu => if b_alive bu
                   then match nth_error (b_cells bu) (off + i) with Some v => RVal v | None => ROob end
                   else RDangling
      end
  end.

(* the LOCATION an accessor returns a reference / pointer to: &a[i] = &a.at(i) = begin() + i = data() + i is cell
   off + i of the designated buffer (None: a null pointer) *)
Definition arr_loc (a : arr) (i : nat) : option (nat * nat) :=
  match a_ptr a with Some (b, off) => Some (b, off + i) | None => None end.
(* reading through a held reference / pointer in heap h *)
Definition read_loc (h : list buffer) (l : option (nat * nat)) : rd := read_cell h l 0.

(* operator[] : *(begin() + offset) *)
Definition arr_index h (a : arr) (i : nat) : rd := read_cell h (a_ptr a) i.

Inductive outcome := OThrow | ORet (r : rd).
(* at() : if (offset >= size()) throw; return *(begin() + offset) *)
Definition arr_at h (a : arr) (i : nat) : outcome :=
  if a_len a <=? i then OThrow else ORet (arr_index h a i).
(* for (p = begin(); p != end(); ++p) *)
Definition arr_iter h (a : arr) : list rd := map (arr_index h a) (seq 0 (a_len a)).
Definition arr_is_null (a : arr) : bool := match a_ptr a with None => true | Some _ => false end.

(* ---------------------------------------------------------------- DataView *)
Record dview := { d_ptr : option (nat * nat); d_stride : nat }.   (* byte buffer, byte offset *)
(* &dv[i] : byte i*stride of the wrapped range *)
Definition dv_loc (d : dview) (i : nat) : option (nat * nat) :=
  match d_ptr d with Some (b, off) => Some (b, off + i * d_stride d) | None => None end.
(* operator[](i) : *reinterpret_cast<const T*>(ptr + i*stride), sizeof(T) = sz *)
Definition dv_index h (d : dview) (sz i : nat) : list rd :=
  map (fun j => read_cell h (d_ptr d) (i * d_stride d + j)) (seq 0 sz).

(* ------------------------------------------------------------------ state *)
Inductive kind := KView | KOwned | KFixed | KFView.

(* a FixedArray<T> object held in a std::shared_ptr control block *)
Record fobj := { fo_arr : arr; fo_own : option nat (* shared_ptr<T> array *); fo_rc : nat }.

Inductive slot :=
| SEmpty                                  (* no object *)
| SView (a : arr)                         (* ArrayView<T> *)
| SOwned (a : arr) (vb : option nat)      (* OwnedArray<T>: base, dataBuf's allocation *)
| SFixed (f : nat)                        (* std::shared_ptr<FixedArray<T>> (sole owner of the object) *)
| SFView (a : arr) (f : option nat).      (* FixedArrayView<T>: base, shared_ptr<FixedArray<T>> data *)

Record state := { heap : list buffer; fobjs : list fobj; slots : list slot; srcs : list (option nat) }.

Definition with_heap st h := {| heap := h; fobjs := fobjs st; slots := slots st; srcs := srcs st |}.
Definition with_fobjs st fs := {| heap := heap st; fobjs := fs; slots := slots st; srcs := srcs st |}.
Definition set_slot st i s := {| heap := heap st; fobjs := fobjs st; slots := upd i s (slots st); srcs := srcs st |}.
Definition set_src st k v := {| heap := heap st; fobjs := fobjs st; slots := slots st; srcs := upd k v (srcs st) |}.

Definition init (nslots nsrcs : nat) : state :=
  {| heap := []; fobjs := []; slots := repeat SEmpty nslots; srcs := repeat None nsrcs |}.

Definition alloc st (c : list N) (cap : nat) : state * nat :=
  (with_heap st (heap st ++ [{| b_cells := c; b_cap := cap; b_rc := 1 |}]), length (heap st)).

(* ~shared_ptr<T> / ~vector<T> : give up one ownership of a buffer *)
Definition release_buf st (ob : option nat) : state :=
  match ob with None => st | Some b => with_heap st (hdec (heap st) b) end.
Definition acquire_buf st (ob : option nat) : state :=
  match ob with None => st | Some b => with_heap st (hinc (heap st) b) end.

(* ~shared_ptr<FixedArray<T>> : the last owner destroys the object, whose member releases the allocation *)
Definition release_fobj st (of : option nat) : state :=
  match of with
  | None => st
  | Some f =>
      match nth_error (fobjs st) f with
      | None => st
      | Some fo =>
          let st1 := with_fobjs st (upd f {| fo_arr := fo_arr fo; fo_own := fo_own fo; fo_rc := pred (fo_rc fo) |} (fobjs st)) in
          if Nat.eqb (fo_rc fo) 1 then release_buf st1 (fo_own fo) else st1
      end
  end.
Definition acquire_fobj st (of : option nat) : state :=
  match of with
  | None => st
  | Some f =>
      match nth_error (fobjs st) f with
      | None => st
      | Some fo => with_fobjs st (upd f {| fo_arr := fo_arr fo; fo_own := fo_own fo; fo_rc := S (fo_rc fo) |} (fobjs st))
      end
  end.

(* destructor of what a slot holds *)
Definition drop st (s : slot) : state :=
  match s with
  | SEmpty | SView _ => st
  | SOwned _ vb => release_buf st vb
  | SFixed f => release_fobj st (Some f)
  | SFView _ f => release_fobj st f
  end.

(* std::vector<T>(first, last) / copy of a vector: exact-size allocation, none for an empty range *)
Definition vec_alloc st (c : list N) : state * option nat :=
  match c with
  | [] => (st, None)
  | _ => let '(st1, b) := alloc st c (length c) in (st1, Some b)
  end.
Definition vec_cells st (vb : option nat) : list N :=
  match vb with
  | None => []
  | Some b => match nth_error (heap st) b with Some bu => b_cells bu | None => [] end
  end.
(* setPtr(dataBuf.data(), dataBuf.size()) *)
Definition vec_arr st (vb : option nat) : arr :=
  match vb with None => null_arr | Some b => set_ptr (Some (b, 0)) (length (vec_cells st vb)) end.

(* new FixedArray<T>(data, n) in a fresh control block: array(new T[n]) (always an allocation), setPtr, memcpy *)
Definition fixed_new st (c : list N) : state * nat :=
  let '(st1, b) := alloc st c (length c) in
  (with_fobjs st1 (fobjs st1 ++ [{| fo_arr := set_ptr (Some (b, 0)) (length c); fo_own := Some b; fo_rc := 1 |}]),
   length (fobjs st1)).
(* new FixedArray<T>(other) (implicit copy: base and shared_ptr copied) / FixedArray<T>() *)
Definition fixed_clone st (a : arr) (own : option nat) : state * nat :=
  let st1 := acquire_buf st own in
  (with_fobjs st1 (fobjs st1 ++ [{| fo_arr := a; fo_own := own; fo_rc := 1 |}]), length (fobjs st1)).

Definition slot_at st i : slot := match nth_error (slots st) i with Some s => s | None => SEmpty end.
Definition slot_in_range st i : bool := i <? length (slots st).
Definition slot_free st i : bool := slot_in_range st i && match slot_at st i with SEmpty => true | _ => false end.

(* what AbstractArray's accessors of the object in a slot see *)
Definition slot_arr st (s : slot) : option arr :=
  match s with
  | SEmpty => None
  | SView a | SOwned a _ | SFView a _ => Some a
  | SFixed f => match nth_error (fobjs st) f with Some fo => Some (fo_arr fo) | None => None end
  end.

(* a live source container *)
Definition src_buf st k : option (nat * buffer) :=
  match nth_error (srcs st) k with
  | Some (Some b) =>
      match nth_error (heap st) b with
      | Some bu => if b_alive bu then Some (b, bu) else None
      | None => None
      end
  | _ => None
  end.

(* a (T *data, size_t n) argument: nullptr (only with n = 0) or source k's data() + off;
   result: the designation and the n elements it covers.  None = caller broke the precondition *)
Definition resolve st (p : option (nat * nat)) (n : nat) : option (option (nat * nat) * list N) :=
  match p with
  | None => if Nat.eqb n 0 then Some (None, []) else None
  | Some (k, off) =>
      match src_buf st k with
      | Some (b, bu) => if off + n <=? length (b_cells bu)
                        then Some (Some (b, off), firstn n (skipn off (b_cells bu))) else None
      | None => None
      end
  end.
(* a (T *data, size_t n) argument taken from a WRAPPER: slot j's data() + off — possibly the very wrapper the call
   is made on (a.reset(a.data() + k, a.size() - k)), or a view over it.  The n elements are the ones the range
   holds BEFORE the call.  None = caller broke the precondition (range outside the wrapper, or the wrapper does not designate a_len live cells) *)
Definition resolve_wrap st (j off n : nat) : option (option (nat * nat) * list N) :=
  match slot_arr st (slot_at st j) with
  | None => None
  | Some a =>
      if off + n <=? a_len a then
        match a_ptr a with
        | None => Some (None, [])
        | Some (b, o) =>
            match nth_error (heap st) b with
            | Some bu => if b_alive bu && (o + a_len a <=? length (b_cells bu))
                         then Some (Some (b, o + off), firstn n (skipn (o + off) (b_cells bu))) else None
            | None => None
            end
        end
      else None
  end.
Definition whole st k : option (option (nat * nat) * list N) :=
  match src_buf st k with Some (b, bu) => Some (Some (b, 0), b_cells bu) | None => None end.

(* ------------------------------------------------------------- operations *)
Inductive op :=
| SrcSet (k : nat) (c : list N)        (* source k := a fresh container holding c; the old one is destroyed *)
| SrcKill (k : nat)
| SrcWrite (k i : nat) (v : N)
| Default (i : nat) (kd : kind)        (* T() *)
| FromSrc (i : nat) (kd : kind) (k : nat)                         (* T(std::vector<T>&) / T(std::array<T,N>&) *)
| FromPtr (i : nat) (kd : kind) (p : option (nat * nat)) (n : nat) (* T(data, n) *)
| FixedN (i : nat) (c : list N)        (* FixedArray<T> a(n); a[j] = c_j *)
| MkFView (i j off n : nat)            (* FixedArrayView<T>(slot j, off, n) *)
| AssignSrc (i k : nat)                (* w = vector / array *)
| Reset (i : nat)                      (* w.reset() *)
| ResetPtr (i : nat) (p : option (nat * nat)) (n : nat)           (* w.reset(data, n) *)
| Resize (i n : nat) (v : N)           (* OwnedArray::resize(n, v) *)
| CopyCtor (i j : nat)                 (* slot i := T(slot j) *)
| CopyAssign (i j : nat)               (* slot i = slot j *)
| MoveCtor (i j : nat)                 (* slot i := T(std::move(slot j)) *)
| MoveAssign (i j : nat)               (* slot i = std::move(slot j) *)
| Destroy (i : nat)
| Write (i idx : nat) (v : N)          (* w[idx] = v *)
| FromWrap (i : nat) (kd : kind) (j off n : nat)   (* slot i := T(w_j.data() + off, n) *)
| ResetWrap (i j off n : nat)          (* w_i.reset(w_j.data() + off, n), j = i allowed (self-aliasing source) *)
| ResizeRef (i n j idx : nat).         (* w_i.resize(n, w_j[idx]): the fill value passed BY REFERENCE to an element of a
                                          wrapper, j = i allowed (an element of the array being resized) *)

(* construct a T in the free slot i from (data, the n elements there) *)
Definition build st i (kd : kind) (ptr : option (nat * nat)) (c : list N) : option state :=
  if slot_free st i then
    match kd with
    | KView => Some (set_slot st i (SView (set_ptr ptr (length c))))
    | KOwned => let '(st1, vb) := vec_alloc st c in Some (set_slot st1 i (SOwned (vec_arr st1 vb) vb))
    | KFixed => let '(st1, f) := fixed_new st c in Some (set_slot st1 i (SFixed f))
    | KFView => None
    end
  else None.

(* FixedArray::operator=(vector&) on object f: array = shared_ptr(new T[n]); setPtr; memcpy *)
Definition fixed_assign st (f : nat) (c : list N) : option state :=
  match nth_error (fobjs st) f with
  | None => None
  | Some fo =>
      let '(st1, b) := alloc st c (length c) in
      let st2 := release_buf st1 (fo_own fo) in
      Some (with_fobjs st2 (upd f {| fo_arr := set_ptr (Some (b, 0)) (length c); fo_own := Some b; fo_rc := fo_rc fo |} (fobjs st2)))
  end.

(* w = rhs / w.reset(data, n) *)
Definition assign_from st i (allow_fixed : bool) (ptr : option (nat * nat)) (c : list N) : option state :=
  match slot_at st i with
  | SView _ => Some (set_slot st i (SView (set_ptr ptr (length c))))
  | SOwned _ vb =>
      (* dataBuf = std::vector<T>(first, last): temporary built first, then move-assigned *)
      let '(st1, vb') := vec_alloc st c in
      let st2 := release_buf st1 vb in
      Some (set_slot st2 i (SOwned (vec_arr st2 vb') vb'))
  | SFixed f => if allow_fixed then fixed_assign st f c else None
  | _ => None
  end.

Definition op_reset st i : option state :=
  match slot_at st i with
  | SView _ => Some (set_slot st i (SView (set_ptr None 0)))
  | SOwned _ vb =>       (* clear(); shrink_to_fit(); setPtr(nullptr, 0) *)
      Some (set_slot (release_buf st vb) i (SOwned (set_ptr None 0) None))
  | _ => None
  end.

(* dataBuf.resize(n, v) as libstdc++ does it: shrink and growth within the capacity stay in place,
   growth past the capacity moves to a new allocation of size + max(size, n - size) *)
Definition vec_resize st (vb : option nat) (n : nat) (v : N) : state * option nat :=
  match vb with
  | None => match n with
            | O => (st, None)
            | _ => let '(st1, b) := alloc st (repeat v n) n in (st1, Some b)
            end
  | Some b =>
      match nth_error (heap st) b with
      | None => (st, vb)
      | Some bu =>
          let sz := length (b_cells bu) in
          if n <=? sz then (with_heap st (hset (heap st) b (firstn n (b_cells bu))), vb)
          else if n <=? b_cap bu then (with_heap st (hset (heap st) b (b_cells bu ++ repeat v (n - sz))), vb)
          else let '(st1, b') := alloc st (b_cells bu ++ repeat v (n - sz)) (sz + Nat.max sz (n - sz)) in
               (release_buf st1 vb, Some b')
      end
  end.

Definition op_resize st i n v : option state :=
  match slot_at st i with
  | SOwned _ vb => let '(st1, vb') := vec_resize st vb n v in
                   Some (set_slot st1 i (SOwned (vec_arr st1 vb') vb'))
  | _ => None
  end.

(* dataBuf = other.dataBuf as libstdc++ does it: reuse the allocation when the capacity suffices *)
Definition vec_copy_assign st (vb : option nat) (c : list N) : state * option nat :=
  match vb with
  | None => vec_alloc st c
  | Some b =>
      match nth_error (heap st) b with
      | None => (st, vb)
      | Some bu =>
          if length c <=? b_cap bu then (with_heap st (hset (heap st) b c), vb)
          else let '(st1, b') := alloc st c (length c) in (release_buf st1 vb, Some b')
      end
  end.

Definition mk_fview_arr (fa : arr) (off n : nat) : arr :=    (* setPtr(data->begin() + offset, size) *)
  set_ptr (match a_ptr fa with Some (b, o) => Some (b, o + off) | None => None end) n.

(* ofix: OwnedArray has user-defined copy/move operations that re-aim the base at its own dataBuf
   (false: the implicit memberwise ones, which copy the base's ptr).
   vfix: FixedArrayView keeps its own FixedArray sharing the allocation
   (false: it keeps the caller's FixedArray object, which can be re-assigned under it). *)
Section Step.
Variables ofix vfix : bool.

Definition op_mk_fview st i j off n : option state :=
  if slot_free st i then
    match slot_at st j with
    | SFixed f =>
        match nth_error (fobjs st) f with
        | Some fo =>
            if off + n <=? a_len (fo_arr fo) then
              if vfix then
                let '(st1, g) := fixed_clone st (fo_arr fo) (fo_own fo) in
                Some (set_slot st1 i (SFView (mk_fview_arr (fo_arr fo) off n) (Some g)))
              else
                Some (set_slot (acquire_fobj st (Some f)) i (SFView (mk_fview_arr (fo_arr fo) off n) (Some f)))
            else None
        | None => None
        end
    | _ => None
    end
  else None.

Definition op_copy_ctor st i j : option state :=
  if slot_free st i then
    match slot_at st j with
    | SEmpty => None
    | SView a => Some (set_slot st i (SView a))
    | SOwned a vb =>
        let '(st1, vb') := vec_alloc st (vec_cells st vb) in
        Some (set_slot st1 i (SOwned (if ofix then vec_arr st1 vb' else a) vb'))
    | SFixed f =>
        match nth_error (fobjs st) f with
        | Some fo => let '(st1, g) := fixed_clone st (fo_arr fo) (fo_own fo) in Some (set_slot st1 i (SFixed g))
        | None => None
        end
    | SFView a f => Some (set_slot (acquire_fobj st f) i (SFView a f))
    end
  else None.

Definition op_copy_assign st i j : option state :=
  if Nat.eqb i j then (match slot_at st i with SEmpty => None | _ => Some st end) else
  match slot_at st i, slot_at st j with
  | SView _, SView a => Some (set_slot st i (SView a))
  | SOwned _ vbi, SOwned aj vbj =>
      let '(st1, vb') := vec_copy_assign st vbi (vec_cells st vbj) in
      Some (set_slot st1 i (SOwned (if ofix then vec_arr st1 vb' else aj) vb'))
  | SFixed fi, SFixed fj =>
      match nth_error (fobjs st) fi, nth_error (fobjs st) fj with
      | Some foi, Some foj =>
          let st1 := acquire_buf st (fo_own foj) in
          let st2 := release_buf st1 (fo_own foi) in
          Some (with_fobjs st2 (upd fi {| fo_arr := fo_arr foj; fo_own := fo_own foj; fo_rc := fo_rc foi |} (fobjs st2)))
      | _, _ => None
      end
  | SFView _ fi, SFView aj fj =>
      Some (set_slot (release_fobj (acquire_fobj st fj) fi) i (SFView aj fj))
  | _, _ => None
  end.

(* only OwnedArray (once repaired) has move operations; the other classes declare a destructor and so
   have no implicit move: std::move(x) selects the copy *)
Definition op_move_ctor st i j : option state :=
  match slot_at st j with
  | SOwned a vb =>
      if ofix then
        if slot_free st i then
          Some (set_slot (set_slot st i (SOwned (vec_arr st vb) vb)) j (SOwned (set_ptr None 0) None))
        else None
      else op_copy_ctor st i j
  | _ => op_copy_ctor st i j
  end.

Definition op_move_assign st i j : option state :=
  match slot_at st i, slot_at st j with
  | SOwned _ vbi, SOwned a vbj =>
      if ofix then
        if Nat.eqb i j then Some st else
        let st1 := release_buf st vbi in
        Some (set_slot (set_slot st1 i (SOwned (vec_arr st1 vbj) vbj)) j (SOwned (set_ptr None 0) None))
      else op_copy_assign st i j
  | _, _ => op_copy_assign st i j
  end.

Definition op_write st i idx v : option state :=
  match slot_arr st (slot_at st i) with
  | Some a =>
      if idx <? a_len a then
        match a_ptr a, arr_index (heap st) a idx with
        | Some (b, off), RVal _ =>
            Some (with_heap st (hset (heap st) b (upd (off + idx) v (vec_cells st (Some b)))))
        | _, _ => None
        end
      else None
  | None => None
  end.

(* a `const T &` argument bound to element idx of wrapper j: its current value; None = not a valid element *)
Definition elem_ref st (j idx : nat) : option N :=
  match slot_arr st (slot_at st j) with
  | Some a => if idx <? a_len a then match arr_index (heap st) a idx with RVal v => Some v | _ => None end else None
  | None => None
  end.

Definition step (st : state) (o : op) : option state :=
  match o with
  | SrcSet k c =>
      if k <? length (srcs st) then
        let st1 := release_buf st (match nth_error (srcs st) k with Some ob => ob | None => None end) in
        let '(st2, b) := alloc st1 c (length c) in
        Some (set_src st2 k (Some b))
      else None
  | SrcKill k =>
      match nth_error (srcs st) k with
      | Some (Some b) => Some (set_src (release_buf st (Some b)) k None)
      | _ => None
      end
  | SrcWrite k i v =>
      match src_buf st k with
      | Some (b, bu) => if i <? length (b_cells bu)
                        then Some (with_heap st (hset (heap st) b (upd i v (b_cells bu)))) else None
      | None => None
      end
  | Default i kd =>
      if slot_free st i then
        match kd with
        | KView => Some (set_slot st i (SView null_arr))
        | KOwned => Some (set_slot st i (SOwned null_arr None))
        | KFixed => let '(st1, f) := fixed_clone st null_arr None in Some (set_slot st1 i (SFixed f))
        | KFView => Some (set_slot st i (SFView null_arr None))
        end
      else None
  | FromSrc i kd k =>
      match whole st k with Some (p, c) => build st i kd p c | None => None end
  | FromPtr i kd p n =>
      match resolve st p n with Some (q, c) => build st i kd q c | None => None end
  | FixedN i c => build st i KFixed None c
  | MkFView i j off n => op_mk_fview st i j off n
  | AssignSrc i k =>
      match whole st k with Some (p, c) => assign_from st i true p c | None => None end
  | Reset i => op_reset st i
  | ResetPtr i p n =>
      match resolve st p n with Some (q, c) => assign_from st i false q c | None => None end
  | Resize i n v => op_resize st i n v
  | CopyCtor i j => op_copy_ctor st i j
  | CopyAssign i j => op_copy_assign st i j
  | MoveCtor i j => op_move_ctor st i j
  | MoveAssign i j => op_move_assign st i j
  | Destroy i =>
      match slot_at st i with
      | SEmpty => None
      | s => Some (set_slot (drop st s) i SEmpty)
      end
  | Write i idx v => op_write st i idx v
  | FromWrap i kd j off n =>
      match resolve_wrap st j off n with Some (q, c) => build st i kd q c | None => None end
  | ResetWrap i j off n =>
      match resolve_wrap st j off n with Some (q, c) => assign_from st i false q c | None => None end
  | ResizeRef i n j idx =>
      (* the value the reference designates BEFORE the call is the fill value, whatever the call does to that storage *)
      match elem_ref st j idx with Some v => op_resize st i n v | None => None end
  end.

(* an operation whose precondition fails is skipped (state unchanged) *)
Definition step' st o : state := match step st o with Some st' => st' | None => st end.
Definition run (st : state) (ops : list op) : state := fold_left step' ops st.
End Step.

(* the repaired code *)
Definition step_new := step true true.
Definition run_new := run true true.
(* the code before the repairs *)
Definition run_old_owned := run false true.
Definition run_old_fview := run true false.

(* --------------------------------------------------------------- observing *)
Record obs := { o_kind : kind; o_len : nat; o_null : bool; o_elems : list rd;
                o_at_end : outcome; o_at_last : outcome }.
Definition slot_kind (s : slot) : kind :=
  match s with SView _ | SEmpty => KView | SOwned _ _ => KOwned | SFixed _ => KFixed | SFView _ _ => KFView end.
Definition observe_slot st (s : slot) : option obs :=
  match slot_arr st s with
  | None => None
  | Some a => Some {| o_kind := slot_kind s; o_len := a_len a; o_null := arr_is_null a;
                      o_elems := arr_iter (heap st) a;
                      o_at_end := arr_at (heap st) a (a_len a);
                      o_at_last := arr_at (heap st) a (pred (a_len a)) |}
  end.
Definition observe st : list (option obs) := map (observe_slot st) (slots st).
Definition observe_srcs st : list (option (list N)) :=
  map (fun k => match src_buf st k with Some (_, bu) => Some (b_cells bu) | None => None end)
      (seq 0 (length (srcs st))).
