(* C11 — the global invariant WF of the repaired array wrappers: definitions and frame lemmas. *)
From Common Require Import Prelude.
From C11 Require Import Model Lists Proofs.

(* ------------------------------------------------------------ reference weights *)
Definition w_opt (b : nat) (o : option nat) : nat :=
  match o with Some b' => if Nat.eqb b' b then 1 else 0 | None => 0 end.
Definition w_slot_buf b (s : slot) := match s with SOwned _ vb => w_opt b vb | _ => 0 end.
Definition fo_live fo := negb (Nat.eqb (fo_rc fo) 0).
Definition w_fobj b (fo : fobj) := if fo_live fo then w_opt b (fo_own fo) else 0.
Definition refs_buf st b :=
  csum (w_opt b) (srcs st) + csum (w_slot_buf b) (slots st) + csum (w_fobj b) (fobjs st).
Definition w_slot_fobj f (s : slot) :=
  match s with SFixed g => if Nat.eqb g f then 1 else 0 | SFView _ og => w_opt f og | _ => 0 end.
Definition refs_fobj st f := csum (w_slot_fobj f) (slots st).
(* the exclusive owners: source containers and OwnedArray vectors; FixedArray slots *)
Definition xrefs st b := csum (w_opt b) (srcs st) + csum (w_slot_buf b) (slots st).
Definition w_slot_fix f (s : slot) := match s with SFixed g => if Nat.eqb g f then 1 else 0 | _ => 0 end.
Definition xfix st f := csum (w_slot_fix f) (slots st).

(* pointwise views of the heap and of the control blocks *)
Definition rc_of (h : list buffer) b := match nth_error h b with Some bu => b_rc bu | None => 0 end.
Definition len_of (h : list buffer) b :=
  match nth_error h b with Some bu => Some (length (b_cells bu)) | None => None end.
Definition frc_of (fs : list fobj) f := match nth_error fs f with Some fo => fo_rc fo | None => 0 end.
Definition own_of (fs : list fobj) f := match nth_error fs f with Some fo => Some (fo_own fo) | None => None end.

Definition null_iff (a : arr) := a_ptr a = None <-> a_len a = 0.

Definition slot_ok (h : list buffer) (fs : list fobj) (s : slot) : Prop :=
  match s with
  | SEmpty => True
  | SFixed _ => True
  | SView a => null_iff a
  | SOwned a None => a = null_arr
  | SOwned a (Some b) => exists n, len_of h b = Some n /\ a = set_ptr (Some (b, 0)) n
  | SFView a None => a = null_arr
  | SFView a (Some g) =>
      null_iff a /\ (exists o, own_of fs g = Some o) /\
      (forall b off, a_ptr a = Some (b, off) ->
         own_of fs g = Some (Some b) /\ exists n, len_of h b = Some n /\ off + a_len a <= n)
  end.

Definition fobj_ok (h : list buffer) (fo : fobj) : Prop :=
  fo_live fo = true ->
  fo_arr fo = null_arr \/
  exists b n, fo_own fo = Some b /\ len_of h b = Some n /\ fo_arr fo = set_ptr (Some (b, 0)) n.

Record WF (st : state) : Prop := {
  wf_rc : forall b, rc_of (heap st) b = refs_buf st b;
  wf_frc : forall f, frc_of (fobjs st) f = refs_fobj st f;
  wf_xb : forall b, xrefs st b <> 0 -> refs_buf st b = 1;
  wf_xf : forall f, xfix st f <> 0 -> refs_fobj st f = 1;
  wf_slot : forall i s, nth_error (slots st) i = Some s -> slot_ok (heap st) (fobjs st) s;
  wf_fobj : forall f fo, nth_error (fobjs st) f = Some fo -> fobj_ok (heap st) fo }.

(* ------------------------------------------------------------ pointwise heap lemmas *)
Lemma rc_of_out h b : length h <= b -> rc_of h b = 0.
Proof. intro H. unfold rc_of. apply nth_error_None in H. rewrite H. reflexivity. Qed.
Lemma rc_of_lt h b : rc_of h b <> 0 -> b < length h.
Proof. intro H. destruct (Nat.lt_ge_cases b (length h)) as [L|L]; auto. apply rc_of_out in L. lia. Qed.
Lemma len_of_lt h b n : len_of h b = Some n -> b < length h.
Proof. unfold len_of. destruct (nth_error h b) eqn:E; [|discriminate]. intros _. eapply nth_error_lt; eauto. Qed.
Lemma len_of_in h b : b < length h -> exists n, len_of h b = Some n.
Proof. intro H. unfold len_of. destruct (nth_error h b) eqn:E; eauto. apply nth_error_None in E. lia. Qed.
Lemma frc_of_out fs f : length fs <= f -> frc_of fs f = 0.
Proof. intro H. unfold frc_of. apply nth_error_None in H. rewrite H. reflexivity. Qed.
Lemma frc_of_lt fs f : frc_of fs f <> 0 -> f < length fs.
Proof. intro H. destruct (Nat.lt_ge_cases f (length fs)) as [L|L]; auto. apply frc_of_out in L. lia. Qed.

Lemma rc_of_app h nb b : rc_of (h ++ [nb]) b = if Nat.eqb b (length h) then b_rc nb else rc_of h b.
Proof. unfold rc_of. rewrite nth_error_snoc. destruct (Nat.eqb b (length h)); reflexivity. Qed.
Lemma len_of_app h nb b :
  len_of (h ++ [nb]) b = if Nat.eqb b (length h) then Some (length (b_cells nb)) else len_of h b.
Proof. unfold len_of. rewrite nth_error_snoc. destruct (Nat.eqb b (length h)); reflexivity. Qed.

Lemma rc_of_hinc h b b' :
  rc_of (hinc h b) b' = if Nat.eqb b b' then (if b' <? length h then S (rc_of h b') else 0) else rc_of h b'.
Proof.
  unfold rc_of, hinc. rewrite nth_error_hmod. destruct (Nat.eqb b b'); auto.
  destruct (nth_error h b') eqn:E; simpl.
  - apply nth_error_lt in E. apply Nat.ltb_lt in E. rewrite E. reflexivity.
  - apply nth_error_None in E. apply Nat.ltb_ge in E. rewrite E. reflexivity.
Qed.
Lemma rc_of_hdec h b b' : rc_of (hdec h b) b' = if Nat.eqb b b' then pred (rc_of h b') else rc_of h b'.
Proof.
  unfold rc_of, hdec. rewrite nth_error_hmod. destruct (Nat.eqb b b'); auto.
  destruct (nth_error h b'); reflexivity.
Qed.
Lemma rc_of_hset h b c b' : rc_of (hset h b c) b' = rc_of h b'.
Proof.
  unfold rc_of, hset. rewrite nth_error_hmod. destruct (Nat.eqb b b'); auto.
  destruct (nth_error h b'); reflexivity.
Qed.
Lemma len_of_hinc h b b' : len_of (hinc h b) b' = len_of h b'.
Proof.
  unfold len_of, hinc. rewrite nth_error_hmod. destruct (Nat.eqb b b'); auto.
  destruct (nth_error h b'); reflexivity.
Qed.
Lemma len_of_hdec h b b' : len_of (hdec h b) b' = len_of h b'.
Proof.
  unfold len_of, hdec. rewrite nth_error_hmod. destruct (Nat.eqb b b'); auto.
  destruct (nth_error h b'); reflexivity.
Qed.
Lemma len_of_hset h b c b' :
  len_of (hset h b c) b' =
  if Nat.eqb b b' then (match len_of h b' with Some _ => Some (length c) | None => None end) else len_of h b'.
Proof.
  unfold len_of, hset. rewrite nth_error_hmod. destruct (Nat.eqb b b'); auto.
  destruct (nth_error h b'); reflexivity.
Qed.
Lemma length_hinc h b : length (hinc h b) = length h. Proof. apply hmod_length. Qed.
Lemma length_hdec h b : length (hdec h b) = length h. Proof. apply hmod_length. Qed.
Lemma length_hset h b c : length (hset h b c) = length h. Proof. apply hmod_length. Qed.

(* control blocks *)
Lemma frc_of_upd fs f fo fo' f' : nth_error fs f = Some fo ->
  frc_of (upd f fo' fs) f' = if Nat.eqb f f' then fo_rc fo' else frc_of fs f'.
Proof.
  intro H. unfold frc_of. rewrite nth_error_upd. destruct (Nat.eqb_spec f f'); auto. subst. rewrite H. reflexivity.
Qed.
Lemma own_of_upd fs f fo fo' f' : nth_error fs f = Some fo ->
  own_of (upd f fo' fs) f' = if Nat.eqb f f' then Some (fo_own fo') else own_of fs f'.
Proof.
  intro H. unfold own_of. rewrite nth_error_upd. destruct (Nat.eqb_spec f f'); auto. subst. rewrite H. reflexivity.
Qed.
Lemma frc_of_app fs fo f : frc_of (fs ++ [fo]) f = if Nat.eqb f (length fs) then fo_rc fo else frc_of fs f.
Proof. unfold frc_of. rewrite nth_error_snoc. destruct (Nat.eqb f (length fs)); reflexivity. Qed.
Lemma own_of_app fs fo f : own_of (fs ++ [fo]) f = if Nat.eqb f (length fs) then Some (fo_own fo) else own_of fs f.
Proof. unfold own_of. rewrite nth_error_snoc. destruct (Nat.eqb f (length fs)); reflexivity. Qed.
Lemma own_of_some fs f fo : nth_error fs f = Some fo -> own_of fs f = Some (fo_own fo).
Proof. intro H. unfold own_of. rewrite H. reflexivity. Qed.
Lemma frc_of_some fs f fo : nth_error fs f = Some fo -> frc_of fs f = fo_rc fo.
Proof. intro H. unfold frc_of. rewrite H. reflexivity. Qed.
Lemma rc_of_some h b bu : nth_error h b = Some bu -> rc_of h b = b_rc bu.
Proof. intro H. unfold rc_of. rewrite H. reflexivity. Qed.
Lemma len_of_some h b bu : nth_error h b = Some bu -> len_of h b = Some (length (b_cells bu)).
Proof. intro H. unfold len_of. rewrite H. reflexivity. Qed.

(* ------------------------------------------------------------ monotonicity of the shape predicates *)
Definition len_mono (h h' : list buffer) := forall b n, len_of h b = Some n -> len_of h' b = Some n.
Definition own_mono (fs fs' : list fobj) := forall g o, own_of fs g = Some o -> own_of fs' g = Some o.

Lemma len_mono_refl h : len_mono h h. Proof. intros b n H; exact H. Qed.
Lemma own_mono_refl fs : own_mono fs fs. Proof. intros b n H; exact H. Qed.
Lemma len_mono_trans h1 h2 h3 : len_mono h1 h2 -> len_mono h2 h3 -> len_mono h1 h3.
Proof. intros A B b n H. apply B, A, H. Qed.
Lemma len_mono_app h nb : len_mono h (h ++ [nb]).
Proof.
  intros b n H. rewrite len_of_app. destruct (Nat.eqb_spec b (length h)); auto.
  apply len_of_lt in H. lia.
Qed.
Lemma len_mono_hinc h b : len_mono h (hinc h b).
Proof. intros b' n H. rewrite len_of_hinc. exact H. Qed.
Lemma len_mono_hdec h b : len_mono h (hdec h b).
Proof. intros b' n H. rewrite len_of_hdec. exact H. Qed.
Lemma len_mono_hset h b c n : len_of h b = Some n -> length c = n -> len_mono h (hset h b c).
Proof.
  intros Hb Hc b' n' H. rewrite len_of_hset. destruct (Nat.eqb_spec b b'); auto. subst b'.
  rewrite H. congruence.
Qed.
Lemma own_mono_app fs fo : own_mono fs (fs ++ [fo]).
Proof.
  intros g o H. rewrite own_of_app. destruct (Nat.eqb_spec g (length fs)); auto.
  unfold own_of in H. destruct (nth_error fs g) eqn:E; [|discriminate]. apply nth_error_lt in E. lia.
Qed.
Lemma own_mono_upd fs f fo fo' : nth_error fs f = Some fo -> fo_own fo' = fo_own fo -> own_mono fs (upd f fo' fs).
Proof.
  intros Hf Ho g o H. rewrite (own_of_upd _ _ _ _ _ Hf). destruct (Nat.eqb_spec f g); auto. subst g.
  rewrite (own_of_some _ _ _ Hf) in H. congruence.
Qed.
Lemma own_mono_trans h1 h2 h3 : own_mono h1 h2 -> own_mono h2 h3 -> own_mono h1 h3.
Proof. intros A B b n H. apply B, A, H. Qed.

(* with exceptions: the buffer [bx] may change its length, the control block [fx] its allocation *)
Lemma slot_ok_mono_x h fs h' fs' s bx fx :
  slot_ok h fs s ->
  (forall b n, b <> bx -> len_of h b = Some n -> len_of h' b = Some n) ->
  (forall g o, g <> fx -> own_of fs g = Some o -> own_of fs' g = Some o) ->
  w_slot_buf bx s = 0 ->
  (forall a g, s = SFView a (Some g) -> g <> fx /\ own_of fs g <> Some (Some bx)) ->
  slot_ok h' fs' s.
Proof.
  intros Hs Hl Ho Hw Hv. destruct s as [|a|a [b|]|f|a [g|]]; simpl in *; auto.
  - destruct Hs as [n [H1 H2]]. exists n. split; auto. apply Hl; auto.
    intro E. subst. rewrite Nat.eqb_refl in Hw. discriminate.
  - destruct Hs as [Hn [[o Hg] Hp]]. destruct (Hv a g eq_refl) as [Hgx Hbx].
    split; auto. split; [exists o; apply Ho; auto|].
    intros b off Hab. destruct (Hp b off Hab) as [P1 [n [P2 P3]]].
    split; [apply Ho; auto|]. exists n. split; auto. apply Hl; auto. intro E. subst. contradiction.
Qed.

Lemma slot_ok_mono h fs h' fs' s :
  slot_ok h fs s -> len_mono h h' -> own_mono fs fs' -> slot_ok h' fs' s.
Proof.
  intros Hs Hl Ho. destruct s as [|a|a [b|]|f|a [g|]]; simpl in *; auto.
  - destruct Hs as [n [H1 H2]]. exists n. split; auto.
  - destruct Hs as [Hn [[o Hg] Hp]].
    split; auto. split; [exists o; apply Ho; auto|].
    intros b off Hab. destruct (Hp b off Hab) as [P1 [n [P2 P3]]].
    split; [apply Ho; auto|]. exists n. split; auto.
Qed.

Lemma fobj_ok_mono h h' fo : fobj_ok h fo -> len_mono h h' -> fobj_ok h' fo.
Proof.
  intros H Hl Hlive. destruct (H Hlive) as [A|[b [n [A [B C]]]]]; [left; auto|].
  right. exists b, n. auto.
Qed.
Lemma fobj_ok_mono_x h h' fo bx :
  fobj_ok h fo -> (forall b n, b <> bx -> len_of h b = Some n -> len_of h' b = Some n) ->
  w_fobj bx fo = 0 -> fobj_ok h' fo.
Proof.
  intros H Hl Hw Hlive. destruct (H Hlive) as [A|[b [n [A [B C]]]]]; [left; auto|].
  right. exists b, n. split; auto. split; auto. apply Hl; auto.
  intro E. subst. unfold w_fobj in Hw. rewrite Hlive, A in Hw. simpl in Hw. rewrite Nat.eqb_refl in Hw. discriminate.
Qed.
(* same shape for a control block with the same fields but another count *)
Lemma fobj_ok_rc h fo fo' : fobj_ok h fo -> fo_live fo = true -> fo_arr fo' = fo_arr fo -> fo_own fo' = fo_own fo -> fobj_ok h fo'.
Proof. intros H Hl Ha Ho _. rewrite Ha, Ho. apply H. exact Hl. Qed.

(* ------------------------------------------------------------ small facts *)
Lemma null_iff_set_ptr p n : (n <> 0 -> p <> None) -> null_iff (set_ptr p n).
Proof.
  intro H. unfold null_iff, set_ptr. simpl. destruct (Nat.eqb_spec n 0); split; intro E; auto; try lia.
  exfalso. apply H; auto.
Qed.
Lemma null_iff_null : null_iff null_arr. Proof. unfold null_iff; simpl; tauto. Qed.

Lemma vec_arr_len st b n : len_of (heap st) b = Some n -> vec_arr st (Some b) = set_ptr (Some (b, 0)) n.
Proof.
  unfold len_of, vec_arr, vec_cells. destruct (nth_error (heap st) b); [|discriminate].
  intro H. inversion H. reflexivity.
Qed.

Lemma slot_at_some st i s : nth_error (slots st) i = Some s -> slot_at st i = s.
Proof. intro H. unfold slot_at. rewrite H. reflexivity. Qed.
Lemma slot_free_inv st i : slot_free st i = true -> nth_error (slots st) i = Some SEmpty.
Proof.
  unfold slot_free, slot_in_range, slot_at. intro H. apply andb_true_iff in H as [H1 H2].
  apply Nat.ltb_lt in H1. destruct (nth_error (slots st) i) eqn:E.
  - destruct s; try discriminate. reflexivity.
  - apply nth_error_None in E. lia.
Qed.
Lemma slot_at_nonempty st i : slot_at st i <> SEmpty -> nth_error (slots st) i = Some (slot_at st i).
Proof. unfold slot_at. destruct (nth_error (slots st) i); auto. congruence. Qed.

(* ------------------------------------------------------------ tactics *)
Ltac pose_csum :=
  repeat match goal with
  | |- context[csum ?w (?l ++ [?x])] => rewrite (csum_app w l x)
  | |- context[csum ?w (upd ?i ?x ?l)] =>
      match goal with
      | H : nth_error l i = Some ?old |- _ =>
          let E := fresh "E" in let v := fresh "v" in let Ev := fresh "Ev" in
          pose proof (csum_upd w i x old l H) as E;
          (let G := fresh "G" in pose proof (csum_ge1 w l i old H) as G; revert G);
          remember (csum w (upd i x l)) as v eqn:Ev; clear Ev; revert E
      end
  end; intros.

Ltac brk :=
  repeat (match goal with
  | H : context[Nat.eqb ?a ?b] |- _ => destruct (Nat.eqb_spec a b)
  | |- context[Nat.eqb ?a ?b] => destruct (Nat.eqb_spec a b)
  | H : context[Nat.ltb ?a ?b] |- _ => destruct (Nat.ltb_spec a b)
  | |- context[Nat.ltb ?a ?b] => destruct (Nat.ltb_spec a b)
  end; cbn [negb] in *).

Ltac wcbn := cbn [w_opt w_slot_buf w_slot_fobj w_slot_fix fo_rc fo_own fo_arr b_rc b_cells b_cap] in *.
Ltac wfin := unfold w_fobj, fo_live in *; wcbn; brk; try lia.
