(* C11 — the source-derived fact table (gen/Facts.v, regenerated from the working tree on every run by
   props/C11/factgen.py) agrees with what Model.v assumes about the code. *)
From Common Require Import Prelude.
From C11 Require Import Model FactsModel FactsCheck FactsProof.
From C11.gen Require Import Facts.

(* (1) every wrapper class has exactly the special members the model's copy/move operations assume (OwnedArray:
   user-provided copy and move construction/assignment; the others: memberwise copies, no move);
   (2) every constructor and mutating member of ArrayView / OwnedArray / FixedArray / FixedArrayView, as the ordered
   list of micro-operations extracted from its body and interpreted over the model's heap with the model's own
   primitives, produces on each of the 105 configurations of FactsCheck.configs exactly the state Model.step_new
   produces for the corresponding operation (so e.g. every mutation of dataBuf is followed by
   setPtr(dataBuf.data(), dataBuf.size()), and FixedArrayView holds its own FixedArray sharing the allocation);
   (3) AbstractArray's accessors, setPtr and at() and DataView's constructor, reset and operator[], as the
   expressions extracted from their bodies, evaluate on a grid of field/parameter values to what Model.set_ptr,
   arr_at, arr_index, arr_iter and dv_index compute (at() throws exactly for offset >= size(); DataView[i] reads at
   ptr + i*stride). *)
Theorem facts_match : check gen_special gen_table gen_exprs = true.
Proof. exact facts_match_lemma. Qed.
Print Assumptions facts_match.
