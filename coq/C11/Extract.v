From Coq Require Import Extraction ExtrOcamlBasic NArith List.
From C11 Require Import Model.
Extraction "Model.ml" step init observe observe_srcs dv_index.
