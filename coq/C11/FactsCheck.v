(* C11 — the reflective check of a fact table against Model.v.

   (2) Each member's micro-operation list is INTERPRETED over the model's own state (heap of buffers with
       reference counts, control blocks, slots) with the model's own primitives (vec_alloc, vec_resize,
       vec_copy_assign, release_buf, alloc, fixed_clone, set_ptr ...), on a list of concrete configurations, and the
       resulting state must be the one Model.step_new produces for the corresponding operation.
   (3) The extracted expressions are EVALUATED on a grid of field / parameter values and must give what
       Model.set_ptr / arr_at / arr_index / arr_iter / dv_index compute.
   (1) The special-member statuses must be the ones Model.v's copy/move operations assume.
   Definitions only; the theorem about the generated table is in FactsProof.v / PropertiesFacts.v. *)
From Common Require Import Prelude.
From C11 Require Import Model FactsModel.

(* ------------------------------------------------------------------ decidable equalities *)
Definition opt_eqb {A} (e : A -> A -> bool) (a b : option A) : bool :=
  match a, b with Some x, Some y => e x y | None, None => true | _, _ => false end.
Fixpoint list_eqb {A} (e : A -> A -> bool) (a b : list A) : bool :=
  match a, b with [], [] => true | x :: s, y :: t => e x y && list_eqb e s t | _, _ => false end.
Definition pair_eqb (a b : nat * nat) := Nat.eqb (fst a) (fst b) && Nat.eqb (snd a) (snd b).
Definition arr_eqb (a b : arr) := opt_eqb pair_eqb (a_ptr a) (a_ptr b) && Nat.eqb (a_len a) (a_len b).
(* the cells and the capacity of a freed buffer are not observable *)
Definition buffer_eqb (a b : buffer) :=
  Nat.eqb (b_rc a) (b_rc b) &&
  (Nat.eqb (b_rc a) 0 || (list_eqb N.eqb (b_cells a) (b_cells b) && Nat.eqb (b_cap a) (b_cap b))).
Definition fobj_eqb (a b : fobj) :=
  arr_eqb (fo_arr a) (fo_arr b) && opt_eqb Nat.eqb (fo_own a) (fo_own b) && Nat.eqb (fo_rc a) (fo_rc b).
Definition slot_eqb (a b : slot) :=
  match a, b with
  | SEmpty, SEmpty => true
  | SView x, SView y => arr_eqb x y
  | SOwned x v, SOwned y w => arr_eqb x y && opt_eqb Nat.eqb v w
  | SFixed f, SFixed g => Nat.eqb f g
  | SFView x f, SFView y g => arr_eqb x y && opt_eqb Nat.eqb f g
  | _, _ => false
  end.
Definition state_eqb (a b : state) :=
  list_eqb buffer_eqb (heap a) (heap b) && list_eqb fobj_eqb (fobjs a) (fobjs b) &&
  list_eqb slot_eqb (slots a) (slots b) && list_eqb (opt_eqb Nat.eqb) (srcs a) (srcs b).

(* ------------------------------------------------------------------ (2) interpreting micro-operations *)
(* cx_valp: the `const T & val` argument is bound to cell (buffer, index) — None: to a temporary holding cx_v *)
Record callctx := { cx_i : nat; cx_j : nat; cx_argp : option (nat * nat); cx_argc : list N;
                    cx_n : nat; cx_v : N; cx_off : nat; cx_valp : option (nat * nat) }.

(* the object under construction / being mutated, whichever class it is, and the `other` OwnedArray *)
Record mach := { m_st : state; m_arr : arr; m_vb : option nat; m_own : option nat; m_held : option nat;
                 m_oarr : arr; m_ovb : option nat; m_bad : bool }.
Definition mk st a vb own held oa ovb bad :=
  {| m_st := st; m_arr := a; m_vb := vb; m_own := own; m_held := held; m_oarr := oa; m_ovb := ovb; m_bad := bad |}.
Definition with_st (m : mach) st := mk st (m_arr m) (m_vb m) (m_own m) (m_held m) (m_oarr m) (m_ovb m) (m_bad m).
Definition bad (m : mach) := mk (m_st m) (m_arr m) (m_vb m) (m_own m) (m_held m) (m_oarr m) (m_ovb m) true.
Definition swap (m : mach) := mk (m_st m) (m_oarr m) (m_ovb m) (m_own m) (m_held m) (m_arr m) (m_vb m) (m_bad m).

Definition held_arr (m : mach) : option arr :=
  match m_held m with
  | Some g => match nth_error (fobjs (m_st m)) g with Some fo => Some (fo_arr fo) | None => None end
  | None => None
  end.
Definition poison : option (nat * nat) := Some (999, 0).
Definition eval_p (cx : callctx) (m : mach) (p : psym) : option (nat * nat) :=
  match p with
  | PNull => None
  | PArg => cx_argp cx
  | PBufData => match m_vb m with Some b => Some (b, 0) | None => None end
  | PArrGet => match m_own m with Some b => Some (b, 0) | None => None end
  | PHeldBeginOff =>
      match held_arr m with
      | Some fa => match a_ptr fa with Some (b, o) => Some (b, o + cx_off cx) | None => None end
      | None => poison
      end
  | PUnknownP => poison
  end.
Definition eval_n (cx : callctx) (m : mach) (n : nsym) : nat :=
  match n with
  | NZero => 0
  | NArg => cx_n cx
  | NBufSize => length (vec_cells (m_st m) (m_vb m))
  | NUnknownN => 999
  end.

(* the argument's elements are read WHEN the micro-operation that copies them executes: if the member has released
   the storage the argument points into by then, the read is a use-after-free (None) *)
Definition read_arg (cx : callctx) (st : state) : option (list N) :=
  match cx_argp cx, cx_argc cx with
  | None, _ => Some (cx_argc cx)
  | _, [] => Some []                (* an empty range is not read *)
  | Some (b, off), _ =>
      match nth_error (heap st) b with
      | Some bu => if b_alive bu && (off + length (cx_argc cx) <=? length (b_cells bu))
                   then Some (firstn (length (cx_argc cx)) (skipn off (b_cells bu))) else None
      | None => None
      end
  end.

(* the value a `const T &` argument designates when it is read: use-after-free (None) if its storage is gone *)
Definition read_val (cx : callctx) (st : state) : option N :=
  match cx_valp cx with
  | None => Some (cx_v cx)
  | Some (b, k) =>
      match nth_error (heap st) b with
      | Some bu => if b_alive bu then nth_error (b_cells bu) k else None
      | None => None
      end
  end.

Definition exec1 (cx : callctx) (o : mop) (m : mach) : mach :=
  let st := m_st m in
  match o with
  | MSetPtr p n => mk st (set_ptr (eval_p cx m p) (eval_n cx m n)) (m_vb m) (m_own m) (m_held m) (m_oarr m) (m_ovb m) (m_bad m)
  | MBufRange =>
      match read_arg cx st with
      | Some c =>
          let '(st1, vb') := vec_alloc st c in
          mk (release_buf st1 (m_vb m)) (m_arr m) vb' (m_own m) (m_held m) (m_oarr m) (m_ovb m) (m_bad m)
      | None => bad m
      end
  | MBufCopyOther =>
      let '(st1, vb') := vec_copy_assign st (m_vb m) (vec_cells st (m_ovb m)) in
      mk st1 (m_arr m) vb' (m_own m) (m_held m) (m_oarr m) (m_ovb m) (m_bad m)
  | MBufMoveOther =>
      mk (release_buf st (m_vb m)) (m_arr m) (m_ovb m) (m_own m) (m_held m) (m_oarr m) None (m_bad m)
  | MBufClear =>
      match m_vb m with
      | Some b => with_st m (with_heap st (hset (heap st) b []))
      | None => m
      end
  | MBufShrink =>
      match m_vb m with
      | Some b =>
          match nth_error (heap st) b with
          | Some bu =>
              match b_cells bu with
              | [] => mk (release_buf st (Some b)) (m_arr m) None (m_own m) (m_held m) (m_oarr m) (m_ovb m) (m_bad m)
              | c => if length c <? b_cap bu
                     then let '(st1, b') := alloc st c (length c) in
                          mk (release_buf st1 (Some b)) (m_arr m) (Some b') (m_own m) (m_held m) (m_oarr m) (m_ovb m) (m_bad m)
                     else m
              end
          | None => bad m
          end
      | None => m
      end
  | MBufResize =>
      (* std::vector::resize(n, val) itself copes with val referring to one of its own elements (libstdc++ copies the
         value / constructs the new elements before it releases the old storage): the value is read here *)
      match read_val cx st with
      | Some v =>
          let '(st1, vb') := vec_resize st (m_vb m) (cx_n cx) v in
          mk st1 (m_arr m) vb' (m_own m) (m_held m) (m_oarr m) (m_ovb m) (m_bad m)
      | None => bad m
      end
  | MBufReserve =>
      match m_vb m with
      | Some b =>
          match nth_error (heap st) b with
          | Some bu => if cx_n cx <=? b_cap bu then m
                       else let '(st1, b') := alloc st (b_cells bu) (cx_n cx) in
                            mk (release_buf st1 (Some b)) (m_arr m) (Some b') (m_own m) (m_held m) (m_oarr m) (m_ovb m) (m_bad m)
          | None => bad m
          end
      | None => match cx_n cx with
                | O => m
                | _ => let '(st1, b') := alloc st [] (cx_n cx) in
                       mk st1 (m_arr m) (Some b') (m_own m) (m_held m) (m_oarr m) (m_ovb m) (m_bad m)
                end
      end
  | MArrNew =>
      let '(st1, b) := alloc st (repeat 0%N (cx_n cx)) (cx_n cx) in
      mk (release_buf st1 (m_own m)) (m_arr m) (m_vb m) (Some b) (m_held m) (m_oarr m) (m_ovb m) (m_bad m)
  | MMemcpy guarded bytes_ok =>
      if negb (guarded && bytes_ok) then bad m
      else match cx_n cx with
           | O => m
           | _ => match m_own m with
                  | Some b => match read_arg cx st with
                              | Some c => if Nat.eqb (length c) (cx_n cx)
                                          then with_st m (with_heap st (hset (heap st) b c)) else bad m
                              | None => bad m
                              end
                  | None => bad m
                  end
           end
  | MHoldCopy =>
      match slot_at st (cx_j cx) with
      | SFixed f => match nth_error (fobjs st) f with
                    | Some fo => let '(st1, g) := fixed_clone st (fo_arr fo) (fo_own fo) in
                                 mk st1 (m_arr m) (m_vb m) (m_own m) (Some g) (m_oarr m) (m_ovb m) (m_bad m)
                    | None => bad m
                    end
      | _ => bad m
      end
  | MHoldArg =>
      match slot_at st (cx_j cx) with
      | SFixed f => mk (acquire_fobj st (Some f)) (m_arr m) (m_vb m) (m_own m) (Some f) (m_oarr m) (m_ovb m) (m_bad m)
      | _ => bad m
      end
  | MOtherReset | MSelfReset | MDelegate _ | MIfNotSelf _ => m      (* handled by exec *)
  | MUnknown => bad m
  end.

Section Exec.
Variable tbl : member -> list mop.
Variable cx : callctx.
Fixpoint exec (fuel : nat) (ops : list mop) (m : mach) : mach :=
  match fuel with
  | O => bad m
  | S fuel' =>
      match ops with
      | [] => m
      | o :: rest =>
          let m1 :=
            match o with
            | MOtherReset => swap (exec fuel' (tbl OA_Reset) (swap m))
            | MSelfReset => exec fuel' (tbl OA_Reset) m
            | MDelegate d => exec fuel' (tbl d) m
            | MIfNotSelf body => if Nat.eqb (cx_i cx) (cx_j cx) then m else exec fuel' body m
            | _ => exec1 cx o m
            end in
          exec fuel' rest m1
      end
  end.
End Exec.

Inductive okind := KCtorOwned | KMutOwned | KCtorView | KMutView | KCtorFixed | KMutFixed | KCtorFView.
Definition kind_of_member (m : member) : okind :=
  match m with
  | OA_CPtr | OA_CArr | OA_CVec | OA_Copy | OA_Move => KCtorOwned
  | OA_CopyA | OA_MoveA | OA_AArr | OA_AVec | OA_Reset | OA_ResetPtr | OA_Resize => KMutOwned
  | AV_CPtr | AV_CArr | AV_CVec => KCtorView
  | AV_Reset | AV_ResetPtr | AV_AArr | AV_AVec => KMutView
  | FA_CN | FA_CPtr | FA_CArr | FA_CVec => KCtorFixed
  | FA_AArr | FA_AVec => KMutFixed
  | FV_C => KCtorFView
  end.
Definition uses_other (m : member) : bool :=
  match m with OA_Copy | OA_Move | OA_CopyA | OA_MoveA => true | _ => false end.

(* run member [mb] of the table on state [st] in the context [cx]; None = the table is not executable *)
Definition interp (tbl : member -> list mop) (mb : member) (st : state) (cx : callctx) : option state :=
  let i := cx_i cx in
  let other := match slot_at st (cx_j cx) with SOwned a vb => (a, vb) | _ => (null_arr, None) end in
  let start a vb own := mk st a vb own None (fst other) (snd other) false in
  let finish_owned (m : mach) :=
    let st1 := set_slot (m_st m) i (SOwned (m_arr m) (m_vb m)) in
    if uses_other mb && negb (Nat.eqb i (cx_j cx)) then set_slot st1 (cx_j cx) (SOwned (m_oarr m) (m_ovb m)) else st1 in
  let run m0 := exec tbl cx 40 (tbl mb) m0 in
  match kind_of_member mb with
  | KCtorOwned => let m := run (start null_arr None None) in if m_bad m then None else Some (finish_owned m)
  | KMutOwned =>
      match slot_at st i with
      | SOwned a vb => let m := run (start a vb None) in if m_bad m then None else Some (finish_owned m)
      | _ => None
      end
  | KCtorView => let m := run (start null_arr None None) in
                 if m_bad m then None else Some (set_slot (m_st m) i (SView (m_arr m)))
  | KMutView =>
      match slot_at st i with
      | SView a => let m := run (start a None None) in
                   if m_bad m then None else Some (set_slot (m_st m) i (SView (m_arr m)))
      | _ => None
      end
  | KCtorFixed =>
      let m := run (start null_arr None None) in
      if m_bad m then None else
      let st1 := m_st m in
      Some (set_slot (with_fobjs st1 (fobjs st1 ++ [{| fo_arr := m_arr m; fo_own := m_own m; fo_rc := 1 |}])) i
                     (SFixed (length (fobjs st1))))
  | KMutFixed =>
      match slot_at st i with
      | SFixed f =>
          match nth_error (fobjs st) f with
          | Some fo =>
              let m := run (start (fo_arr fo) None (fo_own fo)) in
              if m_bad m then None else
              let st1 := m_st m in
              Some (with_fobjs st1 (upd f {| fo_arr := m_arr m; fo_own := m_own m; fo_rc := fo_rc fo |} (fobjs st1)))
          | None => None
          end
      | _ => None
      end
  | KCtorFView => let m := run (start null_arr None None) in
                  if m_bad m then None else Some (set_slot (m_st m) i (SFView (m_arr m) (m_held m)))
  end.

(* ------------------------------------------------------------------ configurations *)
Definition hA : list op :=
  [SrcSet 0 [1;2;3]%N; SrcSet 1 [7;8]%N; SrcSet 2 []; FromSrc 0 KOwned 0; FromSrc 1 KOwned 1; Resize 1 1 5%N;
   FromSrc 2 KFixed 0; FromSrc 3 KView 0].
Definition stA := run_new (init 6 3) hA.           (* 0: Owned [1,2,3]  1: Owned [7] (capacity 2)  2: Fixed [1,2,3]  3: View *)
Definition stB := run_new (init 6 3) (hA ++ [Reset 0; FromSrc 4 KFixed 2]).   (* 0: empty Owned, 4: Fixed of size 0 *)

Definition cx0 i j := {| cx_i := i; cx_j := j; cx_argp := None; cx_argc := []; cx_n := 0; cx_v := 0%N; cx_off := 0; cx_valp := None |}.
Definition cx_src st i k :=
  match whole st k with
  | Some (p, c) => {| cx_i := i; cx_j := i; cx_argp := p; cx_argc := c; cx_n := length c; cx_v := 0%N; cx_off := 0; cx_valp := None |}
  | None => cx0 i i
  end.
Definition cx_ptr st i p n :=
  match resolve st p n with
  | Some (q, c) => {| cx_i := i; cx_j := i; cx_argp := q; cx_argc := c; cx_n := n; cx_v := 0%N; cx_off := 0; cx_valp := None |}
  | None => cx0 i i
  end.
Definition cx_wrap st i j off n :=
  match resolve_wrap st j off n with
  | Some (q, c) => {| cx_i := i; cx_j := i; cx_argp := q; cx_argc := c; cx_n := n; cx_v := 0%N; cx_off := 0; cx_valp := None |}
  | None => cx0 i i
  end.
Definition cx_resize i n v := {| cx_i := i; cx_j := i; cx_argp := None; cx_argc := []; cx_n := n; cx_v := v; cx_off := 0; cx_valp := None |}.
(* w_i.resize(n, w_j[idx]) *)
Definition cx_resize_ref st i n j idx :=
  match slot_arr st (slot_at st j), elem_ref st j idx with
  | Some a, Some v =>
      {| cx_i := i; cx_j := i; cx_argp := None; cx_argc := []; cx_n := n; cx_v := v; cx_off := 0;
         cx_valp := match a_ptr a with Some (b, o) => Some (b, o + idx) | None => None end |}
  | _, _ => cx0 i i
  end.
Definition cx_fixn i n := {| cx_i := i; cx_j := i; cx_argp := None; cx_argc := []; cx_n := n; cx_v := 0%N; cx_off := 0; cx_valp := None |}.
Definition cx_fview i j off n := {| cx_i := i; cx_j := j; cx_argp := None; cx_argc := []; cx_n := n; cx_v := 0%N; cx_off := off; cx_valp := None |}.

(* (state, member, context, the model operation it implements) *)
Definition configs : list (state * member * callctx * op) :=
  let S := stA in let T := stB in
  [ (S, OA_CPtr, cx_ptr S 4 (Some (0, 1)) 2, FromPtr 4 KOwned (Some (0, 1)) 2);
    (S, OA_CPtr, cx_ptr S 4 None 0, FromPtr 4 KOwned None 0);
    (S, OA_CPtr, cx_ptr S 4 (Some (0, 3)) 0, FromPtr 4 KOwned (Some (0, 3)) 0);
    (S, OA_CArr, cx_src S 4 0, FromSrc 4 KOwned 0); (S, OA_CArr, cx_src S 4 2, FromSrc 4 KOwned 2);
    (S, OA_CVec, cx_src S 4 1, FromSrc 4 KOwned 1); (S, OA_CVec, cx_src S 4 2, FromSrc 4 KOwned 2);
    (S, OA_Copy, cx0 4 0, CopyCtor 4 0); (S, OA_Copy, cx0 4 1, CopyCtor 4 1); (T, OA_Copy, cx0 5 0, CopyCtor 5 0);
    (S, OA_Move, cx0 4 0, MoveCtor 4 0); (S, OA_Move, cx0 4 1, MoveCtor 4 1); (T, OA_Move, cx0 5 0, MoveCtor 5 0);
    (S, OA_CopyA, cx0 1 0, CopyAssign 1 0); (S, OA_CopyA, cx0 0 1, CopyAssign 0 1); (S, OA_CopyA, cx0 0 0, CopyAssign 0 0);
    (T, OA_CopyA, cx0 0 1, CopyAssign 0 1); (T, OA_CopyA, cx0 1 0, CopyAssign 1 0);
    (S, OA_MoveA, cx0 1 0, MoveAssign 1 0); (S, OA_MoveA, cx0 0 1, MoveAssign 0 1); (S, OA_MoveA, cx0 0 0, MoveAssign 0 0);
    (T, OA_MoveA, cx0 0 1, MoveAssign 0 1); (T, OA_MoveA, cx0 1 0, MoveAssign 1 0);
    (S, OA_AArr, cx_src S 0 1, AssignSrc 0 1); (S, OA_AArr, cx_src S 0 2, AssignSrc 0 2); (S, OA_AArr, cx_src S 1 0, AssignSrc 1 0);
    (S, OA_AVec, cx_src S 0 1, AssignSrc 0 1); (S, OA_AVec, cx_src S 0 2, AssignSrc 0 2); (T, OA_AVec, cx_src T 0 0, AssignSrc 0 0);
    (S, OA_Reset, cx0 0 0, Reset 0); (S, OA_Reset, cx0 1 1, Reset 1); (T, OA_Reset, cx0 0 0, Reset 0);
    (S, OA_ResetPtr, cx_ptr S 0 (Some (1, 0)) 1, ResetPtr 0 (Some (1, 0)) 1); (S, OA_ResetPtr, cx_ptr S 0 None 0, ResetPtr 0 None 0);
    (* self-aliasing sources: the array's own storage, whole / tail / middle / empty range, and another wrapper's *)
    (S, OA_ResetPtr, cx_wrap S 0 0 0 3, ResetWrap 0 0 0 3); (S, OA_ResetPtr, cx_wrap S 0 0 1 2, ResetWrap 0 0 1 2);
    (S, OA_ResetPtr, cx_wrap S 0 0 1 1, ResetWrap 0 0 1 1); (S, OA_ResetPtr, cx_wrap S 0 0 3 0, ResetWrap 0 0 3 0);
    (S, OA_ResetPtr, cx_wrap S 1 1 0 1, ResetWrap 1 1 0 1); (S, OA_ResetPtr, cx_wrap S 0 2 1 2, ResetWrap 0 2 1 2);
    (S, OA_ResetPtr, cx_wrap S 1 0 0 3, ResetWrap 1 0 0 3); (T, OA_ResetPtr, cx_wrap T 0 0 0 0, ResetWrap 0 0 0 0);
    (S, AV_ResetPtr, cx_wrap S 3 3 1 2, ResetWrap 3 3 1 2); (S, AV_ResetPtr, cx_wrap S 3 0 0 3, ResetWrap 3 0 0 3);
    (S, OA_CPtr, cx_wrap S 4 0 1 2, FromWrap 4 KOwned 0 1 2); (S, OA_CPtr, cx_wrap S 4 2 0 3, FromWrap 4 KOwned 2 0 3);
    (S, AV_CPtr, cx_wrap S 4 0 0 3, FromWrap 4 KView 0 0 3); (S, AV_CPtr, cx_wrap S 4 2 1 1, FromWrap 4 KView 2 1 1);
    (S, FA_CPtr, cx_wrap S 4 0 1 2, FromWrap 4 KFixed 0 1 2); (S, FA_CPtr, cx_wrap S 4 2 0 3, FromWrap 4 KFixed 2 0 3);
    (* the fill value passed by reference to an element of the array itself / of another wrapper:
       growth past the capacity, within the capacity, no change, shrinking below the referenced element *)
    (S, OA_Resize, cx_resize_ref S 0 5 0 1, ResizeRef 0 5 0 1); (S, OA_Resize, cx_resize_ref S 0 9 0 2, ResizeRef 0 9 0 2);
    (S, OA_Resize, cx_resize_ref S 1 2 1 0, ResizeRef 1 2 1 0); (S, OA_Resize, cx_resize_ref S 1 7 1 0, ResizeRef 1 7 1 0);
    (S, OA_Resize, cx_resize_ref S 0 3 0 2, ResizeRef 0 3 0 2); (S, OA_Resize, cx_resize_ref S 0 1 0 2, ResizeRef 0 1 0 2);
    (S, OA_Resize, cx_resize_ref S 0 0 0 0, ResizeRef 0 0 0 0); (S, OA_Resize, cx_resize_ref S 0 6 2 1, ResizeRef 0 6 2 1);
    (S, OA_Resize, cx_resize_ref S 1 5 0 2, ResizeRef 1 5 0 2);
    (S, OA_Resize, cx_resize 0 5 9%N, Resize 0 5 9%N); (S, OA_Resize, cx_resize 1 2 9%N, Resize 1 2 9%N);
    (S, OA_Resize, cx_resize 0 1 9%N, Resize 0 1 9%N); (S, OA_Resize, cx_resize 0 0 9%N, Resize 0 0 9%N);
    (S, OA_Resize, cx_resize 0 3 9%N, Resize 0 3 9%N); (S, OA_Resize, cx_resize 1 3 9%N, Resize 1 3 9%N);
    (T, OA_Resize, cx_resize 0 2 4%N, Resize 0 2 4%N); (T, OA_Resize, cx_resize 0 0 4%N, Resize 0 0 4%N);
    (S, AV_CPtr, cx_ptr S 4 (Some (0, 1)) 2, FromPtr 4 KView (Some (0, 1)) 2); (S, AV_CPtr, cx_ptr S 4 None 0, FromPtr 4 KView None 0);
    (S, AV_CPtr, cx_ptr S 4 (Some (0, 1)) 0, FromPtr 4 KView (Some (0, 1)) 0);
    (S, AV_CArr, cx_src S 4 0, FromSrc 4 KView 0); (S, AV_CArr, cx_src S 4 2, FromSrc 4 KView 2);
    (S, AV_CVec, cx_src S 4 1, FromSrc 4 KView 1); (S, AV_CVec, cx_src S 4 2, FromSrc 4 KView 2);
    (S, AV_Reset, cx0 3 3, Reset 3);
    (S, AV_ResetPtr, cx_ptr S 3 (Some (1, 1)) 1, ResetPtr 3 (Some (1, 1)) 1); (S, AV_ResetPtr, cx_ptr S 3 None 0, ResetPtr 3 None 0);
    (S, AV_AArr, cx_src S 3 1, AssignSrc 3 1); (S, AV_AArr, cx_src S 3 2, AssignSrc 3 2);
    (S, AV_AVec, cx_src S 3 1, AssignSrc 3 1); (S, AV_AVec, cx_src S 3 2, AssignSrc 3 2);
    (S, FA_CN, cx_fixn 4 3, FixedN 4 [0;0;0]%N); (S, FA_CN, cx_fixn 4 0, FixedN 4 []);
    (S, FA_CPtr, cx_ptr S 4 (Some (0, 1)) 2, FromPtr 4 KFixed (Some (0, 1)) 2); (S, FA_CPtr, cx_ptr S 4 None 0, FromPtr 4 KFixed None 0);
    (S, FA_CArr, cx_src S 4 0, FromSrc 4 KFixed 0); (S, FA_CArr, cx_src S 4 2, FromSrc 4 KFixed 2);
    (S, FA_CVec, cx_src S 4 1, FromSrc 4 KFixed 1); (S, FA_CVec, cx_src S 4 2, FromSrc 4 KFixed 2);
    (S, FA_AArr, cx_src S 2 1, AssignSrc 2 1); (S, FA_AArr, cx_src S 2 2, AssignSrc 2 2); (S, FA_AArr, cx_src S 2 0, AssignSrc 2 0);
    (S, FA_AVec, cx_src S 2 1, AssignSrc 2 1); (S, FA_AVec, cx_src S 2 2, AssignSrc 2 2); (T, FA_AVec, cx_src T 4 0, AssignSrc 4 0);
    (S, FV_C, cx_fview 4 2 1 2, MkFView 4 2 1 2); (S, FV_C, cx_fview 4 2 0 0, MkFView 4 2 0 0);
    (S, FV_C, cx_fview 4 2 3 0, MkFView 4 2 3 0); (S, FV_C, cx_fview 4 2 0 3, MkFView 4 2 0 3);
    (T, FV_C, cx_fview 5 4 0 0, MkFView 5 4 0 0) ].

Definition config_ok (tbl : member -> list mop) (c : state * member * callctx * op) : bool :=
  let '(st, mb, cx, o) := c in
  match step_new st o, interp tbl mb st cx with
  | Some s1, Some s2 => state_eqb s1 s2
  | _, _ => false
  end.
(* the configurations on which the table disagrees with the model (empty = agreement) *)
Definition failing_configs (tbl : member -> list mop) : list (member * op) :=
  map (fun c => let '(_, mb, _, o) := c in (mb, o)) (filter (fun c => negb (config_ok tbl c)) configs).
Definition check_table (tbl : member -> list mop) : bool := forallb (config_ok tbl) configs.

(* ------------------------------------------------------------------ (1) special members *)
Definition status_eqb (a b : status) : bool :=
  match a, b with StUser, StUser | StMemberwise, StMemberwise | StNone, StNone | StDeleted, StDeleted => true | _, _ => false end.
Definition all_cls := [CAbstract; CView; COwned; CFixed; CFView].
Definition all_special := [SCopyCtor; SMoveCtor; SCopyAssign; SMoveAssign; SDtor].
Definition check_special (sp : cls -> special -> status) : bool :=
  forallb (fun c => forallb (fun s => status_eqb (sp c s) (model_special c s)) all_special) all_cls.

(* ------------------------------------------------------------------ (3) expressions *)
Definition env := var -> nat.
Fixpoint teval (e : env) (t : term) : option nat :=
  match t with
  | TVar v => Some (e v)
  | TConst n => Some n
  | TAdd a b => match teval e a, teval e b with Some x, Some y => Some (x + y) | _, _ => None end
  | TMul a b => match teval e a, teval e b with Some x, Some y => Some (x * y) | _, _ => None end
  | TCond g a b => match geval e g with Some true => teval e a | Some false => teval e b | None => None end
  | TUnknown => None
  end
with geval (e : env) (g : guard) : option bool :=
  match g with
  | GLt a b => match teval e a, teval e b with Some x, Some y => Some (x <? y) | _, _ => None end
  | GLe a b => match teval e a, teval e b with Some x, Some y => Some (x <=? y) | _, _ => None end
  | GEq a b => match teval e a, teval e b with Some x, Some y => Some (Nat.eqb x y) | _, _ => None end
  | GNot h => option_map negb (geval e h)
  | GAnd h k => match geval e h, geval e k with Some x, Some y => Some (x && y) | _, _ => None end
  | GOr h k => match geval e h, geval e k with Some x, Some y => Some (x || y) | _, _ => None end
  | GUnknown => None
  end.

(* addresses: buffer 0 holds the cells 0, 1, 2, ... (cell value = its own index), so a read through the model
   returns the offset it read at; a pointer is the offset, the null pointer is 0 and real offsets start at 10 *)
Definition idcells : list N := map N.of_nat (seq 0 64).
Definition idheap : list buffer := [{| b_cells := idcells; b_cap := 64; b_rc := 1 |}].
Definition dec (x : nat) : option (nat * nat) := match x with O => None | _ => Some (0, x) end.
Definition rdval (x : option nat) : rd := match x with Some n => RVal (N.of_nat n) | None => RNull end.
Definition rd_eqb (a b : rd) : bool :=
  match a, b with RVal x, RVal y => N.eqb x y | RDangling, RDangling | ROob, ROob | RNull, RNull => true | _, _ => false end.
Definition outcome_eqb (a b : outcome) : bool :=
  match a, b with OThrow, OThrow => true | ORet x, ORet y => rd_eqb x y | _, _ => false end.

Definition env_arr (p n off : nat) : env :=
  fun v => match v with VPtr => p | VNumItems => n | VOffset => off | _ => 0 end.
Definition env_set (pp n : nat) : env :=
  fun v => match v with VParamPtr => pp | VParamN => n | _ => 0 end.
Definition env_dv (p s i z : nat) : env :=
  fun v => match v with VDPtr => p | VDStride => s | VIndex => i | VSizeofT => z | _ => 0 end.

Definition opt_nat_eqb := opt_eqb Nat.eqb.
Definition check_arr_at (x : exprfacts) (p n off : nat) : bool :=
  let e := env_arr p n off in
  let a := {| a_ptr := dec p; a_len := n |} in
  (* at(): throws exactly when the model's arr_at does, otherwise dereferences the same address *)
  match geval e (e_at_throw x) with
  | Some true => outcome_eqb (arr_at idheap a off) OThrow
  | Some false => outcome_eqb (arr_at idheap a off) (ORet (rdval (teval e (e_at_ret x))))
  | None => false
  end &&
  (* operator[], size(), begin()/data()/cbegin(), end()/cend(), operator bool *)
  (if off <? n then rd_eqb (arr_index idheap a off) (rdval (teval e (e_index x))) else true) &&
  opt_nat_eqb (teval e (e_size x)) (Some (a_len a)) &&
  opt_nat_eqb (teval e (e_begin x)) (Some p) && opt_nat_eqb (teval e (e_data x)) (Some p) &&
  opt_nat_eqb (teval e (e_cbegin x)) (Some p) &&
  opt_nat_eqb (teval e (e_end x)) (Some (p + length (arr_iter idheap a))) &&
  opt_nat_eqb (teval e (e_cend x)) (Some (p + length (arr_iter idheap a))) &&
  opt_eqb Bool.eqb (geval e (e_bool x)) (Some (negb (Nat.eqb (a_len a) 0))).

Definition check_setptr (x : exprfacts) (pp n : nat) : bool :=
  let e := env_set pp n in
  let a := set_ptr (dec pp) n in
  match teval e (e_setptr_ptr x), teval e (e_setptr_n x) with
  | Some q, Some m => arr_eqb a {| a_ptr := dec q; a_len := m |}
  | _, _ => false
  end.

Definition check_dv (x : exprfacts) (p s i z : nat) : bool :=
  let d := {| d_ptr := dec p; d_stride := s |} in
  (* the constructor and reset store their two arguments *)
  opt_nat_eqb (teval (env_set p s) (e_dv_ctor_ptr x)) (Some p) && opt_nat_eqb (teval (env_set p s) (e_dv_ctor_stride x)) (Some s) &&
  opt_nat_eqb (teval (env_set p s) (e_dv_reset_ptr x)) (Some p) && opt_nat_eqb (teval (env_set p s) (e_dv_reset_stride x)) (Some s) &&
  (* operator[](i) reads the sizeof(T) bytes the model's dv_index reads *)
  match teval (env_dv p s i z) (e_dv_index x) with
  | Some addr => list_eqb rd_eqb (dv_index idheap d z i) (map (fun j => RVal (N.of_nat (addr + j))) (seq 0 z))
  | None => false
  end.

Definition grid (l : list nat) (f : nat -> bool) : bool := forallb f l.
Definition check_exprs (x : exprfacts) : bool :=
  grid [10; 13] (fun p => grid [0; 1; 2; 3; 4] (fun n => grid [0; 1; 2; 3; 4; 5; 40] (fun off => check_arr_at x p n off))) &&
  grid [0; 10; 13] (fun pp => grid [0; 1; 2; 3] (fun n => check_setptr x pp n)) &&
  grid [10; 13] (fun p => grid [0; 1; 2; 3; 5; 8] (fun s => grid [0; 1; 2; 3; 4] (fun i => grid [1; 2; 3; 4] (fun z => check_dv x p s i z)))).

(* ------------------------------------------------------------------ all together *)
Definition check (sp : cls -> special -> status) (tbl : member -> list mop) (x : exprfacts) : bool :=
  check_special sp && check_table tbl && check_exprs x.
