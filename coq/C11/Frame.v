(* C11 — the general frame theorem: an operation leaves the observable contents of every owning
   wrapper it does not target unchanged; lifted to arbitrary histories. *)
From Common Require Import Prelude.
From C11 Require Import Model Spec Lists Proofs Inv Inv2 Inv3 Inv4 Inv5 Inv6 InvCor InvStep ProofsReach.

(* ------------------------------------------------------------ footprints *)
(* the control block keeps its array designation *)
Definition farr_kept (fs fs' : list fobj) (f : nat) :=
  forall fo, nth_error fs f = Some fo -> exists fo', nth_error fs' f = Some fo' /\ fo_arr fo' = fo_arr fo.

Lemma farr_kept_refl fs f : farr_kept fs fs f.
Proof. intros fo H. eauto. Qed.
Lemma farr_kept_trans fs1 fs2 fs3 f : farr_kept fs1 fs2 f -> farr_kept fs2 fs3 f -> farr_kept fs1 fs3 f.
Proof.
  intros A B fo H. destruct (A fo H) as [fo2 [H2 E2]]. destruct (B fo2 H2) as [fo3 [H3 E3]].
  exists fo3. split; auto. congruence.
Qed.
Lemma farr_kept_app fs x f : farr_kept fs (fs ++ [x]) f.
Proof. intros fo H. exists fo. split; auto. rewrite nth_error_app1; auto. eapply nth_error_lt; eauto. Qed.
Lemma farr_kept_upd_neq fs g x f : f <> g -> farr_kept fs (upd g x fs) f.
Proof. intros N fo H. exists fo. split; auto. rewrite nth_error_upd_neq; auto. Qed.
Lemma farr_kept_upd_same fs g fo x f : nth_error fs g = Some fo -> fo_arr x = fo_arr fo -> farr_kept fs (upd g x fs) f.
Proof.
  intros Hg E fo' H. destruct (Nat.eq_dec g f) as [->|N].
  - exists x. split; [apply nth_error_upd_eq; eapply nth_error_lt; eauto | congruence].
  - exists fo'. split; auto. rewrite nth_error_upd_neq; auto.
Qed.

Section Fr.
Variables T F B : nat -> Prop.

(* outside the slots T, the control blocks F and the buffers B, the state keeps what wrappers show *)
Definition fr (st st' : state) : Prop :=
  (forall j, ~ T j -> nth_error (slots st') j = nth_error (slots st) j) /\
  (forall f, ~ F f -> farr_kept (fobjs st) (fobjs st') f) /\
  (forall b, ~ B b -> cells_kept (heap st) (heap st') b).

Lemma fr_refl st : fr st st.
Proof. split; [|split]; intros; [reflexivity | apply farr_kept_refl | apply cells_kept_refl]. Qed.
Lemma fr_trans st1 st2 st3 : fr st1 st2 -> fr st2 st3 -> fr st1 st3.
Proof.
  intros [A1 [A2 A3]] [B1 [B2 B3]]. split; [|split].
  - intros j Hj. rewrite B1, A1; auto.
  - intros f Hf. eapply farr_kept_trans; eauto.
  - intros b Hb. eapply cells_kept_trans; eauto.
Qed.

Lemma fr_set_slot st0 st i s : T i -> fr st0 st -> fr st0 (set_slot st i s).
Proof.
  intros Ti H. eapply fr_trans; [exact H|]. split; [|split]; cbn [set_slot slots fobjs heap]; intros.
  - apply nth_error_upd_neq. intro; subst; contradiction.
  - apply farr_kept_refl.
  - apply cells_kept_refl.
Qed.
Lemma fr_set_src st0 st k v : fr st0 st -> fr st0 (set_src st k v).
Proof.
  intro H. eapply fr_trans; [exact H|]. split; [|split]; cbn [set_src slots fobjs heap]; intros;
    [reflexivity | apply farr_kept_refl | apply cells_kept_refl].
Qed.
Lemma fr_heap_app st0 st x : fr st0 st -> fr st0 (with_heap st (heap st ++ [x])).
Proof.
  intro H. eapply fr_trans; [exact H|]. split; [|split]; cbn [with_heap slots fobjs heap]; intros;
    [reflexivity | apply farr_kept_refl | apply cells_kept_app].
Qed.
Lemma fr_hdec st0 st b : fr st0 st -> fr st0 (with_heap st (hdec (heap st) b)).
Proof.
  intro H. eapply fr_trans; [exact H|]. split; [|split]; cbn [with_heap slots fobjs heap]; intros;
    [reflexivity | apply farr_kept_refl | apply cells_kept_hdec].
Qed.
Lemma fr_hinc st0 st b : fr st0 st -> fr st0 (with_heap st (hinc (heap st) b)).
Proof.
  intro H. eapply fr_trans; [exact H|]. split; [|split]; cbn [with_heap slots fobjs heap]; intros;
    [reflexivity | apply farr_kept_refl | apply cells_kept_hinc].
Qed.
Lemma fr_hset st0 st b c : B b -> fr st0 st -> fr st0 (with_heap st (hset (heap st) b c)).
Proof.
  intros Bb H. eapply fr_trans; [exact H|]. split; [|split]; cbn [with_heap slots fobjs heap]; intros;
    [reflexivity | apply farr_kept_refl | apply cells_kept_hset; intro; subst; contradiction].
Qed.
Lemma fr_release_buf st0 st o : fr st0 st -> fr st0 (release_buf st o).
Proof. intro H. destruct o as [b|]; [apply fr_hdec|]; exact H. Qed.
Lemma fr_acquire_buf st0 st o : fr st0 st -> fr st0 (acquire_buf st o).
Proof. intro H. destruct o as [b|]; [apply fr_hinc|]; exact H. Qed.
Lemma fr_fobjs_app st0 st x : fr st0 st -> fr st0 (with_fobjs st (fobjs st ++ [x])).
Proof.
  intro H. eapply fr_trans; [exact H|]. split; [|split]; cbn [with_fobjs slots fobjs heap]; intros;
    [reflexivity | apply farr_kept_app | apply cells_kept_refl].
Qed.
Lemma fr_fobjs_upd_tgt st0 st f x : F f -> fr st0 st -> fr st0 (with_fobjs st (upd f x (fobjs st))).
Proof.
  intros Ff H. eapply fr_trans; [exact H|]. split; [|split]; cbn [with_fobjs slots fobjs heap]; intros;
    [reflexivity | apply farr_kept_upd_neq; intro; subst; contradiction | apply cells_kept_refl].
Qed.
Lemma fr_fobjs_upd_same st0 st f fo x : nth_error (fobjs st) f = Some fo -> fo_arr x = fo_arr fo ->
  fr st0 st -> fr st0 (with_fobjs st (upd f x (fobjs st))).
Proof.
  intros Hf E H. eapply fr_trans; [exact H|]. split; [|split]; cbn [with_fobjs slots fobjs heap]; intros;
    [reflexivity | eapply farr_kept_upd_same; eauto | apply cells_kept_refl].
Qed.
Lemma fr_release_fobj st0 st o : fr st0 st -> fr st0 (release_fobj st o).
Proof.
  intro H. unfold release_fobj. destruct o as [f|]; [|exact H].
  destruct (nth_error (fobjs st) f) as [fo|] eqn:Ef; [|exact H].
  destruct (Nat.eqb (fo_rc fo) 1); [apply fr_release_buf|]; eapply fr_fobjs_upd_same; eauto.
Qed.
Lemma fr_acquire_fobj st0 st o : fr st0 st -> fr st0 (acquire_fobj st o).
Proof.
  intro H. unfold acquire_fobj. destruct o as [f|]; [|exact H].
  destruct (nth_error (fobjs st) f) as [fo|] eqn:Ef; [|exact H].
  eapply fr_fobjs_upd_same; eauto.
Qed.
Lemma fr_vec_alloc st0 st c st1 vb : vec_alloc st c = (st1, vb) -> fr st0 st -> fr st0 st1.
Proof.
  unfold vec_alloc, alloc. destruct c as [|x c0]; intros E H; inversion E; subst; [exact H | apply fr_heap_app; exact H].
Qed.
Lemma fr_fixed_clone st0 st a own st1 g : fixed_clone st a own = (st1, g) -> fr st0 st -> fr st0 st1.
Proof.
  unfold fixed_clone. intros E H. inversion E; subst.
  apply (fr_fobjs_app st0 (acquire_buf st own)). apply fr_acquire_buf. exact H.
Qed.
Lemma fr_fixed_new st0 st c st1 g : fixed_new st c = (st1, g) -> fr st0 st -> fr st0 st1.
Proof.
  unfold fixed_new, alloc. intros E H. inversion E; subst.
  apply (fr_fobjs_app st0 (with_heap st (heap st ++ [{| b_cells := c; b_cap := length c; b_rc := 1 |}]))).
  apply fr_heap_app. exact H.
Qed.
End Fr.

(* ------------------------------------------------------------ the footprint of each operation *)
Definition tfobj st (o : op) (f : nat) : Prop := exists i, In i (targets o) /\ slot_at st i = SFixed f.
Definition wbuf st (o : op) (b : nat) : Prop :=
  match o with Write i _ _ => buf_of st i = Some b | _ => False end.
Definition tbuf st (o : op) (b : nat) : Prop :=
  (exists i a, In i (targets o) /\ slot_at st i = SOwned a (Some b)) \/
  (exists k, nth_error (srcs st) k = Some (Some b)) \/ wbuf st o b.
Definition footprint st (o : op) st' : Prop :=
  fr (fun j => In j (targets o)) (tfobj st o) (tbuf st o) st st'.

Ltac tgt := cbn [targets In]; auto.

Lemma fp_build (T F B : nat -> Prop) st i kd p c st' : T i -> build st i kd p c = Some st' -> fr T F B st st'.
Proof.
  intros Ti. unfold build. destruct (slot_free st i); [|discriminate]. destruct kd.
  - intro H; injection H as <-. apply fr_set_slot; auto. apply fr_refl.
  - destruct (vec_alloc st c) as [st1 vb] eqn:Ev. intro H; injection H as <-.
    apply fr_set_slot; auto. eapply fr_vec_alloc; eauto. apply fr_refl.
  - destruct (fixed_new st c) as [st1 f] eqn:Ev. intro H; injection H as <-.
    apply fr_set_slot; auto. eapply fr_fixed_new; eauto. apply fr_refl.
  - discriminate.
Qed.

Lemma fp_assign_from (T F B : nat -> Prop) st i af p c st' : T i -> (forall f, slot_at st i = SFixed f -> F f) ->
  assign_from st i af p c = Some st' -> fr T F B st st'.
Proof.
  intros Ti Fi. unfold assign_from. destruct (slot_at st i) as [|a0|a0 vb|f|a0 g] eqn:Es; try discriminate.
  - intro H; injection H as <-. apply fr_set_slot; auto. apply fr_refl.
  - destruct (vec_alloc st c) as [st1 vb'] eqn:Ev. intro H; injection H as <-.
    apply fr_set_slot; auto. apply fr_release_buf. eapply fr_vec_alloc; eauto. apply fr_refl.
  - destruct af; [|discriminate]. unfold fixed_assign, alloc.
    destruct (nth_error (fobjs st) f) as [fo|]; [|discriminate]. cbv beta iota. intro H; injection H as <-.
    apply fr_fobjs_upd_tgt; auto. apply fr_release_buf. apply fr_heap_app. apply fr_refl.
Qed.

Lemma fp_SrcSet st k c st' : step_new st (SrcSet k c) = Some st' -> footprint st (SrcSet k c) st'.
Proof.
  unfold step_new, footprint. cbn [step]. destruct (k <? length (srcs st)); [|discriminate].
  unfold alloc. cbv beta iota. intro H; injection H as <-.
  apply fr_set_src. apply fr_heap_app. apply fr_release_buf. apply fr_refl.
Qed.
Lemma fp_SrcKill st k st' : step_new st (SrcKill k) = Some st' -> footprint st (SrcKill k) st'.
Proof.
  unfold step_new, footprint. cbn [step]. destruct (nth_error (srcs st) k) as [[b|]|]; try discriminate.
  intro H; injection H as <-. apply fr_set_src. apply fr_hdec. apply fr_refl.
Qed.
Lemma fp_SrcWrite st k i v st' : step_new st (SrcWrite k i v) = Some st' -> footprint st (SrcWrite k i v) st'.
Proof.
  unfold step_new, footprint. cbn [step]. destruct (src_buf st k) as [[b bu]|] eqn:Es; [|discriminate].
  apply src_buf_inv in Es. destruct Es as [E1 [E2 E3]].
  destruct (i <? length (b_cells bu)); [|discriminate]. intro H; injection H as <-.
  apply fr_hset; [|apply fr_refl]. right; left. eauto.
Qed.
Lemma fp_Default st i kd st' : step_new st (Default i kd) = Some st' -> footprint st (Default i kd) st'.
Proof.
  unfold step_new, footprint. cbn [step]. destruct (slot_free st i); [|discriminate]. destruct kd.
  - intro H; injection H as <-. apply fr_set_slot; [tgt|apply fr_refl].
  - intro H; injection H as <-. apply fr_set_slot; [tgt|apply fr_refl].
  - destruct (fixed_clone st null_arr None) as [st1 f] eqn:Ev. intro H; injection H as <-.
    apply fr_set_slot; [tgt|]. eapply fr_fixed_clone; eauto. apply fr_refl.
  - intro H; injection H as <-. apply fr_set_slot; [tgt|apply fr_refl].
Qed.
Lemma fp_FromSrc st i kd k st' : step_new st (FromSrc i kd k) = Some st' -> footprint st (FromSrc i kd k) st'.
Proof.
  unfold step_new, footprint. cbn [step]. destruct (whole st k) as [[p c]|]; [|discriminate].
  apply fp_build. tgt.
Qed.
Lemma fp_FromPtr st i kd p n st' : step_new st (FromPtr i kd p n) = Some st' -> footprint st (FromPtr i kd p n) st'.
Proof.
  unfold step_new, footprint. cbn [step]. destruct (resolve st p n) as [[q c]|]; [|discriminate].
  apply fp_build. tgt.
Qed.
Lemma fp_FixedN st i c st' : step_new st (FixedN i c) = Some st' -> footprint st (FixedN i c) st'.
Proof. unfold step_new, footprint. cbn [step]. apply fp_build. tgt. Qed.
Lemma fp_MkFView st i j off n st' : step_new st (MkFView i j off n) = Some st' -> footprint st (MkFView i j off n) st'.
Proof.
  unfold step_new, footprint. cbn [step]. unfold op_mk_fview. destruct (slot_free st i); [|discriminate].
  destruct (slot_at st j) as [|a0|a0 vb|f|a0 g]; try discriminate.
  destruct (nth_error (fobjs st) f) as [fo|]; [|discriminate].
  destruct (off + n <=? a_len (fo_arr fo)); [|discriminate].
  destruct (fixed_clone st (fo_arr fo) (fo_own fo)) as [st1 g] eqn:Ev. intro H; injection H as <-.
  apply fr_set_slot; [tgt|]. eapply fr_fixed_clone; eauto. apply fr_refl.
Qed.
Lemma fp_AssignSrc st i k st' : step_new st (AssignSrc i k) = Some st' -> footprint st (AssignSrc i k) st'.
Proof.
  unfold step_new, footprint. cbn [step]. destruct (whole st k) as [[p c]|]; [|discriminate].
  apply fp_assign_from; [tgt|]. intros f Hf. exists i. split; [tgt | exact Hf].
Qed.
Lemma fp_ResetPtr st i p n st' : step_new st (ResetPtr i p n) = Some st' -> footprint st (ResetPtr i p n) st'.
Proof.
  unfold step_new, footprint. cbn [step]. destruct (resolve st p n) as [[q c]|]; [|discriminate].
  apply fp_assign_from; [tgt|]. intros f Hf. exists i. split; [tgt | exact Hf].
Qed.
Lemma fp_Reset st i st' : step_new st (Reset i) = Some st' -> footprint st (Reset i) st'.
Proof.
  unfold step_new, footprint. cbn [step]. unfold op_reset.
  destruct (slot_at st i) as [|a0|a0 vb|f|a0 g]; try discriminate; intro H; injection H as <-.
  - apply fr_set_slot; [tgt|apply fr_refl].
  - apply fr_set_slot; [tgt|]. apply fr_release_buf. apply fr_refl.
Qed.

Lemma fp_vec_resize (T F B : nat -> Prop) st vb n v st1 vb' : (forall b, vb = Some b -> B b) ->
  vec_resize st vb n v = (st1, vb') -> fr T F B st st1.
Proof.
  intros Bb. unfold vec_resize. destruct vb as [b|].
  - destruct (nth_error (heap st) b) as [bu|]; [|intro H; injection H as <- _; apply fr_refl].
    destruct (n <=? length (b_cells bu)); [|destruct (n <=? b_cap bu)].
    + intro H; injection H as <- _. apply fr_hset; [auto | apply fr_refl].
    + intro H; injection H as <- _. apply fr_hset; [auto | apply fr_refl].
    + unfold alloc. cbv beta iota. intro H; injection H as <- _.
      apply (fr_hdec T F B st (with_heap st (heap st ++ [_])) b). apply fr_heap_app. apply fr_refl.
  - destruct n as [|n].
    + intro H; injection H as <- _; apply fr_refl.
    + unfold alloc. cbv beta iota. intro H; injection H as <- _. apply fr_heap_app. apply fr_refl.
Qed.
Lemma fp_vec_copy_assign (T F B : nat -> Prop) st vb c st1 vb' : (forall b, vb = Some b -> B b) ->
  vec_copy_assign st vb c = (st1, vb') -> fr T F B st st1.
Proof.
  intros Bb. unfold vec_copy_assign. destruct vb as [b|].
  - destruct (nth_error (heap st) b) as [bu|]; [|intro H; injection H as <- _; apply fr_refl].
    destruct (length c <=? b_cap bu).
    + intro H; injection H as <- _. apply fr_hset; [auto | apply fr_refl].
    + unfold alloc. cbv beta iota. intro H; injection H as <- _.
      apply (fr_hdec T F B st (with_heap st (heap st ++ [_])) b). apply fr_heap_app. apply fr_refl.
  - intro H. eapply fr_vec_alloc; eauto. apply fr_refl.
Qed.

Lemma fp_Resize st i n v st' : step_new st (Resize i n v) = Some st' -> footprint st (Resize i n v) st'.
Proof.
  unfold step_new, footprint. cbn [step]. unfold op_resize.
  destruct (slot_at st i) as [|a0|a0 vb|f|a0 g] eqn:Ei; try discriminate.
  destruct (vec_resize st vb n v) as [st1 vb'] eqn:Ev. intro H; injection H as <-.
  apply fr_set_slot; [tgt|]. eapply fp_vec_resize; [|exact Ev].
  intros b ->. left. exists i, a0. split; [tgt | exact Ei].
Qed.

Lemma fp_copy_ctor (T F B : nat -> Prop) st i j st' : T i -> op_copy_ctor true st i j = Some st' -> fr T F B st st'.
Proof.
  intros Ti. unfold op_copy_ctor. destruct (slot_free st i); [|discriminate].
  destruct (slot_at st j) as [|a0|a0 vb|f|a0 g]; try discriminate.
  - intro H; injection H as <-. apply fr_set_slot; auto. apply fr_refl.
  - destruct (vec_alloc st (vec_cells st vb)) as [st1 vb'] eqn:Ev. intro H; injection H as <-.
    apply fr_set_slot; auto. eapply fr_vec_alloc; eauto. apply fr_refl.
  - destruct (nth_error (fobjs st) f) as [fo|]; [|discriminate].
    destruct (fixed_clone st (fo_arr fo) (fo_own fo)) as [st1 g] eqn:Ev. intro H; injection H as <-.
    apply fr_set_slot; auto. eapply fr_fixed_clone; eauto. apply fr_refl.
  - intro H; injection H as <-. apply fr_set_slot; auto. apply fr_acquire_fobj. apply fr_refl.
Qed.

Lemma fp_copy_assign (T F B : nat -> Prop) st i j st' : T i ->
  (forall f, slot_at st i = SFixed f -> F f) -> (forall a b, slot_at st i = SOwned a (Some b) -> B b) ->
  op_copy_assign true st i j = Some st' -> fr T F B st st'.
Proof.
  intros Ti Fi Bi. unfold op_copy_assign. destruct (Nat.eqb i j).
  { destruct (slot_at st i); try discriminate; intro H; injection H as <-; apply fr_refl. }
  destruct (slot_at st i) as [|ai|ai vbi|fi|ai gi] eqn:Ei; destruct (slot_at st j) as [|aj|aj vbj|fj|aj gj] eqn:Ej;
    try discriminate.
  - intro H; injection H as <-. apply fr_set_slot; auto. apply fr_refl.
  - destruct (vec_copy_assign st vbi (vec_cells st vbj)) as [st1 vb'] eqn:Ev. intro H; injection H as <-.
    apply fr_set_slot; auto. eapply fp_vec_copy_assign; [|exact Ev]. intros b ->. eapply Bi; reflexivity.
  - destruct (nth_error (fobjs st) fi) as [foi|]; [|discriminate].
    destruct (nth_error (fobjs st) fj) as [foj|]; [|discriminate]. cbv beta iota zeta.
    intro H; injection H as <-. apply fr_fobjs_upd_tgt; [apply Fi; reflexivity|].
    apply fr_release_buf. apply fr_acquire_buf. apply fr_refl.
  - intro H; injection H as <-. apply fr_set_slot; auto. apply fr_release_fobj. apply fr_acquire_fobj. apply fr_refl.
Qed.

Lemma fp_CopyCtor st i j st' : step_new st (CopyCtor i j) = Some st' -> footprint st (CopyCtor i j) st'.
Proof. unfold step_new, footprint. cbn [step]. apply fp_copy_ctor. tgt. Qed.
Lemma fp_CopyAssign st i j st' : step_new st (CopyAssign i j) = Some st' -> footprint st (CopyAssign i j) st'.
Proof.
  unfold step_new, footprint. cbn [step]. apply fp_copy_assign; [tgt| |].
  - intros f Hf. exists i. split; [tgt | exact Hf].
  - intros a b Hb. left. exists i, a. split; [tgt | exact Hb].
Qed.
Lemma fp_MoveCtor st i j st' : step_new st (MoveCtor i j) = Some st' -> footprint st (MoveCtor i j) st'.
Proof.
  unfold step_new, footprint. cbn [step]. unfold op_move_ctor.
  destruct (slot_at st j) as [|a0|a0 vb|f|a0 g]; try (apply fp_copy_ctor; tgt).
  destruct (slot_free st i); [|discriminate]. intro H; injection H as <-.
  apply fr_set_slot; [tgt|]. apply fr_set_slot; [tgt|]. apply fr_refl.
Qed.
Lemma fp_MoveAssign st i j st' : step_new st (MoveAssign i j) = Some st' -> footprint st (MoveAssign i j) st'.
Proof.
  unfold step_new, footprint. cbn [step]. unfold op_move_assign.
  assert (Fi : forall f, slot_at st i = SFixed f -> tfobj st (MoveAssign i j) f).
  { intros f Hf. exists i. split; [tgt | exact Hf]. }
  assert (Bi : forall a b, slot_at st i = SOwned a (Some b) -> tbuf st (MoveAssign i j) b).
  { intros a b Hb. left. exists i, a. split; [tgt | exact Hb]. }
  destruct (slot_at st i) as [|ai|ai vbi|fi|ai gi] eqn:Ei; destruct (slot_at st j) as [|aj|aj vbj|fj|aj gj] eqn:Ej;
    try (apply fp_copy_assign; [tgt | rewrite Ei; exact Fi | rewrite Ei; exact Bi]).
  cbv beta iota zeta. destruct (Nat.eqb i j); intro H; injection H as <-; [apply fr_refl|].
  apply fr_set_slot; [tgt|]. apply fr_set_slot; [tgt|]. apply fr_release_buf. apply fr_refl.
Qed.
Lemma fp_Destroy st i st' : step_new st (Destroy i) = Some st' -> footprint st (Destroy i) st'.
Proof.
  unfold step_new, footprint. cbn [step].
  destruct (slot_at st i) as [|a0|a0 vb|f|a0 g]; try discriminate; intro H; injection H as <-;
    (apply fr_set_slot; [tgt|]).
  - apply fr_refl.
  - apply (fr_release_buf _ _ _ st st vb). apply fr_refl.
  - apply (fr_release_fobj _ _ _ st st (Some f)). apply fr_refl.
  - apply (fr_release_fobj _ _ _ st st g). apply fr_refl.
Qed.
Lemma fp_Write st i idx v st' : step_new st (Write i idx v) = Some st' -> footprint st (Write i idx v) st'.
Proof.
  unfold step_new, footprint. cbn [step]. unfold op_write.
  destruct (slot_arr st (slot_at st i)) as [a|] eqn:Ea; [|discriminate].
  destruct (idx <? a_len a); [|discriminate]. destruct (a_ptr a) as [[b off]|] eqn:Ep; [|discriminate].
  destruct (arr_index (heap st) a idx); try discriminate. intro H; injection H as <-.
  apply fr_hset; [|apply fr_refl]. right; right. cbn [wbuf]. unfold buf_of. rewrite Ea, Ep. reflexivity.
Qed.

Lemma fp_FromWrap st i kd j off n st' : step_new st (FromWrap i kd j off n) = Some st' -> footprint st (FromWrap i kd j off n) st'.
Proof.
  unfold step_new, footprint. cbn [step]. destruct (resolve_wrap st j off n) as [[q c]|]; [|discriminate].
  apply fp_build. tgt.
Qed.
Lemma fp_ResetWrap st i j off n st' : step_new st (ResetWrap i j off n) = Some st' -> footprint st (ResetWrap i j off n) st'.
Proof.
  unfold step_new, footprint. cbn [step]. destruct (resolve_wrap st j off n) as [[q c]|]; [|discriminate].
  apply fp_assign_from; [tgt|]. intros f Hf. exists i. split; [tgt | exact Hf].
Qed.

Lemma fp_ResizeRef st i n j idx st' :
  step_new st (ResizeRef i n j idx) = Some st' -> footprint st (ResizeRef i n j idx) st'.
Proof.
  intro H. unfold step_new in H. destruct (elem_ref st j idx) as [v|] eqn:E.
  - rewrite (resize_ref_is_resize _ _ _ _ _ _ E) in H. exact (fp_Resize st i n v st' H).
  - cbn [step] in H. rewrite E in H. discriminate.
Qed.

Lemma footprint_step st o st' : step_new st o = Some st' -> footprint st o st'.
Proof.
  destruct o.
  - apply fp_SrcSet.
  - apply fp_SrcKill.
  - apply fp_SrcWrite.
  - apply fp_Default.
  - apply fp_FromSrc.
  - apply fp_FromPtr.
  - apply fp_FixedN.
  - apply fp_MkFView.
  - apply fp_AssignSrc.
  - apply fp_Reset.
  - apply fp_ResetPtr.
  - apply fp_Resize.
  - apply fp_CopyCtor.
  - apply fp_CopyAssign.
  - apply fp_MoveCtor.
  - apply fp_MoveAssign.
  - apply fp_Destroy.
  - apply fp_Write.
  - apply fp_FromWrap.
  - apply fp_ResetWrap.
  - apply fp_ResizeRef.
Qed.

(* ------------------------------------------------------------ exclusivity, as needed by the frame theorem *)
Lemma owning_slot_some st j : WF st -> owning (slot_at st j) ->
  nth_error (slots st) j = Some (slot_at st j) /\ exists a, slot_arr st (slot_at st j) = Some a.
Proof.
  intros W O.
  assert (Hs : nth_error (slots st) j = Some (slot_at st j)).
  { apply slot_at_nonempty. intro Z. rewrite Z in O. exact O. }
  split; [exact Hs|]. destruct (slot_at st j) as [|a0|a0 vb|f|a0 g] eqn:Es; try contradiction; cbn [slot_arr]; eauto.
  pose proof (wf_excl_fixed st j f W Hs) as X. rewrite <- (wf_frc st W f) in X. unfold frc_of in X.
  destruct (nth_error (fobjs st) f) as [fo|]; [eauto | discriminate].
Qed.

Lemma excl_fixed st i j f : WF st -> i <> j ->
  nth_error (slots st) i = Some (SFixed f) -> nth_error (slots st) j = Some (SFixed f) -> False.
Proof.
  intros W N Hi Hj. pose proof (wf_excl_fixed st i f W Hi) as X. unfold refs_fobj in X.
  pose proof (csum_ge2 (w_slot_fobj f) (slots st) i j _ _ N Hi Hj) as G. cbn in G. rewrite Nat.eqb_refl in G. lia.
Qed.

Lemma owning_buf_ref st i s a b off : WF st ->
  nth_error (slots st) i = Some s -> owning s -> slot_arr st s = Some a -> a_ptr a = Some (b, off) ->
  s = SOwned a (Some b) \/ 1 <= csum (w_fobj b) (fobjs st).
Proof.
  intros W Hs O Ha Hp. pose proof (wf_slot st W _ _ Hs) as S.
  destruct s as [|a0|a0 vb|f|a0 g]; try contradiction; simpl in Ha.
  - inversion Ha; subst a0. destruct vb as [b'|]; simpl in S.
    + destruct S as [n [S1 S2]]. left. subst a. unfold set_ptr in Hp. cbn in Hp. destruct (Nat.eqb n 0); [discriminate|].
      inversion Hp; subst b' off. reflexivity.
    + subst a. discriminate.
  - right. destruct (nth_error (fobjs st) f) as [fo|] eqn:Ef; [|discriminate]. inversion Ha; subst a.
    pose proof (wf_excl_fixed st i f W Hs) as X. rewrite <- (wf_rc_fobj st f fo W Ef) in X.
    assert (L : fo_live fo = true) by (unfold fo_live; rewrite X; reflexivity).
    destruct (wf_fobj st W _ _ Ef L) as [A|[b' [n [A [B C]]]]].
    + rewrite A in Hp. discriminate.
    + rewrite C in Hp. unfold set_ptr in Hp. cbn in Hp. destruct (Nat.eqb n 0); [discriminate|].
      inversion Hp; subst b' off.
      pose proof (csum_ge1 (w_fobj b) (fobjs st) f _ Ef) as G2.
      assert (Wf : w_fobj b fo = 1) by (unfold w_fobj; rewrite L, A; cbn; rewrite Nat.eqb_refl; reflexivity).
      lia.
  - right. inversion Ha; subst a0. destruct g as [g|]; simpl in S.
    + destruct S as [S1 [[o S2] S3]]. destruct (S3 b off Hp) as [P1 _].
      destruct (fobj_ref (slots st) (fobjs st) i _ g (wf_frc st W) Hs) as [fo [Ef Hge]];
        [cbn; rewrite Nat.eqb_refl; reflexivity|].
      rewrite (own_of_some _ _ _ Ef) in P1. inversion P1 as [P1'].
      pose proof (csum_ge1 (w_fobj b) (fobjs st) g _ Ef) as G2.
      assert (Wf : w_fobj b fo = 1).
      { unfold w_fobj, fo_live. destruct (Nat.eqb_spec (fo_rc fo) 0); [lia|]. cbn [negb]. rewrite P1'. cbn.
        rewrite Nat.eqb_refl. reflexivity. }
      lia.
    + subst a. discriminate.
Qed.

(* the buffer an owning wrapper designates is not another OwnedArray's vector *)
Lemma owning_vs_owned st i j s a b off a0 : WF st -> i <> j ->
  nth_error (slots st) j = Some s -> owning s -> slot_arr st s = Some a -> a_ptr a = Some (b, off) ->
  nth_error (slots st) i = Some (SOwned a0 (Some b)) -> False.
Proof.
  intros W N Hs O Ha Hp Hi. pose proof (wf_excl_owned st i a0 b W Hi) as X. unfold refs_buf in X.
  destruct (owning_buf_ref st j s a b off W Hs O Ha Hp) as [E|G].
  - subst s. pose proof (csum_ge2 (w_slot_buf b) (slots st) i j _ _ N Hi Hs) as G. cbn in G. rewrite Nat.eqb_refl in G. lia.
  - pose proof (csum_ge1 (w_slot_buf b) (slots st) i _ Hi) as G1. cbn in G1. rewrite Nat.eqb_refl in G1. lia.
Qed.

(* ------------------------------------------------------------ the frame theorem, one step *)
Lemma buf_of_eq st j a : slot_arr st (slot_at st j) = Some a -> buf_of st j = option_map fst (a_ptr a).
Proof. intro H. unfold buf_of. rewrite H. reflexivity. Qed.

Lemma frame_step_full st o st' j : WF st -> step_new st o = Some st' ->
  owning (slot_at st j) -> ~ In j (targets o) -> ~ aliased_write st o j ->
  slot_at st' j = slot_at st j /\ elems st' j = elems st j /\ buf_of st' j = buf_of st j.
Proof.
  intros W H O NT NA. pose proof (wf_step st _ st' W H) as W'.
  destruct (footprint_step st o st' H) as [S1 [S2 S3]].
  destruct (owning_slot_some st j W O) as [Hs [a Ha]].
  assert (Hs' : nth_error (slots st') j = Some (slot_at st j)) by (rewrite S1; auto).
  assert (Es' : slot_at st' j = slot_at st j) by (apply slot_at_some; exact Hs').
  assert (Ha' : slot_arr st' (slot_at st j) = Some a).
  { destruct (slot_at st j) as [|a0|a0 vb|f|a0 g] eqn:Es; try contradiction; try exact Ha.
    cbn [slot_arr] in *. destruct (nth_error (fobjs st) f) as [fo|] eqn:Ef; [|discriminate].
    assert (NF : ~ tfobj st o f).
    { intros [i [Hi Hsi]]. assert (N : i <> j) by (intro; subst; contradiction).
      apply (excl_fixed st i j f W N); [|exact Hs]. apply slot_at_inv; [exact Hsi | discriminate]. }
    destruct (S2 f NF fo Ef) as [fo' [Ef' Ea']]. rewrite Ef'. congruence. }
  split; [exact Es'|]. split.
  - eapply (elems_stable st st' j j (slot_at st j) (slot_at st j) a); eauto.
    intros b off Hp. apply S3. intros [[i [a0 [Hi Hsi]]] | [[k Hk] | Hw]].
    + assert (N : i <> j) by (intro; subst; contradiction).
      apply (owning_vs_owned st i j (slot_at st j) a b off a0 W N Hs O Ha Hp).
      apply slot_at_inv; [exact Hsi | discriminate].
    + exact (owning_not_src st j (slot_at st j) a b off k W Hs O Ha Hp Hk).
    + destruct o; try contradiction. cbn [wbuf] in Hw. apply NA. cbn [aliased_write].
      rewrite (buf_of_eq st j a Ha), Hp, Hw. split; [discriminate | reflexivity].
  - unfold buf_of. rewrite Es', Ha, Ha'. reflexivity.
Qed.

Theorem frame_step_lemma : forall st o st' j,
  WF st -> step_new st o = Some st' ->
  owning (slot_at st j) -> ~ In j (targets o) -> ~ aliased_write st o j ->
  slot_at st' j = slot_at st j /\ elems st' j = elems st j.
Proof.
  intros st o st' j W H O NT NA. destruct (frame_step_full st o st' j W H O NT NA) as [A [B _]]. split; assumption.
Qed.

(* ------------------------------------------------------------ arbitrary histories *)
Theorem frame_run_lemma : forall ops st j, WF st -> owning (slot_at st j) -> untouched st ops j ->
  elems (run_new st ops) j = elems st j.
Proof.
  induction ops as [|o t IH]; intros st j W O U; [reflexivity|].
  destruct U as [NT [NA U]]. unfold run_new, run. cbn [fold_left]. fold (run true true (step' true true st o) t).
  fold (run_new (step' true true st o) t). unfold step' in *.
  destruct (step true true st o) as [st'|] eqn:H.
  - destruct (frame_step_full st o st' j W H O NT NA) as [A [B _]].
    rewrite <- B. apply IH; [exact (wf_step st o st' W H) | rewrite A; exact O | exact U].
  - apply IH; assumption.
Qed.

Theorem frame_step_reach : forall st o st' j,
  reachable st -> step_new st o = Some st' ->
  owning (slot_at st j) -> ~ In j (targets o) -> ~ aliased_write st o j ->
  slot_at st' j = slot_at st j /\ elems st' j = elems st j.
Proof. intros st o st' j R. apply frame_step_lemma. apply reach_wf; exact R. Qed.
Theorem frame_run_reach : forall ops st j, reachable st -> owning (slot_at st j) -> untouched st ops j ->
  elems (run_new st ops) j = elems st j.
Proof. intros ops st j R. apply frame_run_lemma. apply reach_wf; exact R. Qed.

(* the history version also carries the wrapper itself and the buffer it designates *)
Lemma frame_run_full : forall ops st j, WF st -> owning (slot_at st j) -> untouched st ops j ->
  slot_at (run_new st ops) j = slot_at st j /\ elems (run_new st ops) j = elems st j /\
  buf_of (run_new st ops) j = buf_of st j.
Proof.
  induction ops as [|o t IH]; intros st j W O U; [repeat split|].
  destruct U as [NT [NA U]]. unfold run_new, run. cbn [fold_left]. fold (run true true (step' true true st o) t).
  fold (run_new (step' true true st o) t). unfold step' in *.
  destruct (step true true st o) as [st'|] eqn:H.
  - destruct (frame_step_full st o st' j W H O NT NA) as [A [B C]].
    rewrite <- A, <- B, <- C. apply IH; [exact (wf_step st o st' W H) | rewrite A; exact O | exact U].
  - apply IH; assumption.
Qed.

(* ------------------------------------------------------------ corollaries *)
(* InvStep.owned_independent_lemma (second half) is the instance "operations on a source container have no targets" *)
Lemma src_op_targets k o : src_op k o -> targets o = [].
Proof. intros []; reflexivity. Qed.
Lemma src_op_no_alias st k o j : src_op k o -> ~ aliased_write st o j.
Proof. intros [] H; exact H. Qed.

Theorem owned_independent_from_frame : forall st i kd k st1 c, WF st -> (kd = KOwned \/ kd = KFixed) ->
  step_new st (FromSrc i kd k) = Some st1 -> src_cells st k = Some c ->
  forall o st2, src_op k o -> step_new st1 o = Some st2 -> elems st2 i = Some (map RVal c).
Proof.
  intros st i kd k st1 c W Hk H Hc o st2 So H2.
  destruct (from_src_elems st i kd k st1 c W Hk H Hc) as [O E].
  pose proof (wf_step st _ st1 W H) as W1. rewrite <- E.
  apply (frame_step_lemma st1 o st2 i W1 H2 O).
  - rewrite (src_op_targets k o So). intros [].
  - apply (src_op_no_alias st1 k o i So).
Qed.

(* InvStep.owned_survives_copy_lemma / owned_survives_move_lemma (second half): Destroy j targets only j *)
Theorem survives_destroy_from_frame : forall st i j st2, WF st -> owning (slot_at st i) -> i <> j ->
  step_new st (Destroy j) = Some st2 -> elems st2 i = elems st i.
Proof.
  intros st i j st2 W O N H. apply (frame_step_lemma st (Destroy j) st2 i W H O).
  - cbn [targets In]. intros [E|[]]. congruence.
  - intros [].
Qed.

(* the contents of an owning wrapper stay what they are, and valid, for as long as no operation targets it *)
Lemma owning_elems_vals st j e : WF st -> owning (slot_at st j) -> elems st j = Some e ->
  Forall (fun r => exists v, r = RVal v) e.
Proof.
  intros W O E. destruct (owning_slot_some st j W O) as [Hs [a Ha]].
  rewrite elems_eq, Ha in E. inversion E; subst e; clear E.
  destruct (array_inv_wf st j (slot_at st j) a W Hs Ha) as [_ R].
  assert (R' : forall idx, idx < a_len a -> exists v, arr_index (heap st) a idx = RVal v).
  { destruct (slot_at st j); try contradiction; exact R. }
  apply Forall_forall. intros r Hr. unfold arr_iter in Hr. apply in_map_iff in Hr. destruct Hr as [idx [Er Hi]].
  apply in_seq in Hi. destruct (R' idx ltac:(lia)) as [v Ev]. exists v. congruence.
Qed.

Theorem valid_while_alive : forall ops st j e, WF st -> owning (slot_at st j) -> elems st j = Some e ->
  untouched st ops j ->
  elems (run_new st ops) j = Some e /\ Forall (fun r => exists v, r = RVal v) e.
Proof.
  intros ops st j e W O E U. split.
  - rewrite (frame_run_lemma ops st j W O U). exact E.
  - exact (owning_elems_vals st j e W O E).
Qed.
Theorem valid_while_alive_reach : forall ops st j e, reachable st -> owning (slot_at st j) -> elems st j = Some e ->
  untouched st ops j ->
  elems (run_new st ops) j = Some e /\ Forall (fun r => exists v, r = RVal v) e.
Proof. intros ops st j e R. apply valid_while_alive. apply reach_wf; exact R. Qed.

Print Assumptions frame_step_lemma.
Print Assumptions frame_run_lemma.
Print Assumptions frame_step_reach.
Print Assumptions frame_run_reach.
Print Assumptions frame_run_full.
Print Assumptions owned_independent_from_frame.
Print Assumptions survives_destroy_from_frame.
Print Assumptions valid_while_alive.
Print Assumptions valid_while_alive_reach.
