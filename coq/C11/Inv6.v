(* C11 — WF preservation: remaining operations and the main theorem. *)
From Common Require Import Prelude.
From C11 Require Import Model Lists Proofs Inv Inv2 Inv3 Inv4 Inv5.

Lemma wf_copy_assign st i j st' : WF st -> op_copy_assign true st i j = Some st' -> WF st'.
Proof.
  intros W H. unfold op_copy_assign in H. destruct (Nat.eqb_spec i j) as [E|Nij].
  - destruct (slot_at st i); inversion H; subst; exact W.
  - destruct (slot_at st i) as [|ai|ai vbi|fi|ai fi] eqn:Ei; try discriminate;
    destruct (slot_at st j) as [|aj|aj vbj|fj|aj fj] eqn:Ej; try discriminate.
    + assert (Hi : nth_error (slots st) i = Some (SView ai)) by (rewrite <- Ei; apply slot_at_nonempty; congruence).
      assert (Hj : nth_error (slots st) j = Some (SView aj)) by (rewrite <- Ej; apply slot_at_nonempty; congruence).
      wf_open st W. scbn_in H; inversion H; subst st'; clear H; wf_split.
      * cnt_b Hrc Hxb h. * cnt_f Hfrc Hxf fs sl. * cnt_b Hrc Hxb h. * cnt_f Hfrc Hxf fs sl.
      * new_slot Hsl i. apply (Hsl _ _ Hj).
      * keep_fobjs Hfo.
    + assert (Hi : nth_error (slots st) i = Some (SOwned ai vbi)) by (rewrite <- Ei; apply slot_at_nonempty; congruence).
      assert (Hj : nth_error (slots st) j = Some (SOwned aj vbj)) by (rewrite <- Ej; apply slot_at_nonempty; congruence).
      eapply wf_copy_assign_owned; eauto.
    + assert (Hi : nth_error (slots st) i = Some (SFixed fi)) by (rewrite <- Ei; apply slot_at_nonempty; congruence).
      assert (Hj : nth_error (slots st) j = Some (SFixed fj)) by (rewrite <- Ej; apply slot_at_nonempty; congruence).
      destruct (nth_error (fobjs st) fi) as [foi|] eqn:Efi; [|discriminate].
      destruct (nth_error (fobjs st) fj) as [foj|] eqn:Efj; [|discriminate].
      eapply wf_copy_assign_fixed with (i := i) (j := j); eauto.
    + assert (Hi : nth_error (slots st) i = Some (SFView ai fi)) by (rewrite <- Ei; apply slot_at_nonempty; congruence).
      assert (Hj : nth_error (slots st) j = Some (SFView aj fj)) by (rewrite <- Ej; apply slot_at_nonempty; congruence).
      eapply wf_copy_assign_fview with (i := i) (j := j); eauto.
Qed.

Lemma wf_step_MoveAssign st i j st' : WF st -> step true true st (MoveAssign i j) = Some st' -> WF st'.
Proof.
  intros W H. cbn [step] in H. unfold op_move_assign in H.
  destruct (slot_at st i) as [|ai|ai vbi|fi|ai fi] eqn:Ei; try (eapply wf_copy_assign; eauto; fail).
  destruct (slot_at st j) as [|aj|aj vbj|fj|aj fj] eqn:Ej; try (eapply wf_copy_assign; eauto; fail).
  destruct (Nat.eqb_spec i j) as [E|Nij]; [inversion H; subst; exact W|].
  assert (Hi : nth_error (slots st) i = Some (SOwned ai vbi)) by (rewrite <- Ei; apply slot_at_nonempty; congruence).
  assert (Hj : nth_error (slots st) j = Some (SOwned aj vbj)) by (rewrite <- Ej; apply slot_at_nonempty; congruence).
  wf_open st W.
  assert (Hj' : forall s1, nth_error (upd i s1 sl) j = Some (SOwned aj vbj)) by (intro; rewrite nth_error_upd_neq; auto).
  destruct vbi as [b0|].
  - pose proof (slot_ok_vec_arr {| heap := hdec h b0; fobjs := fs; slots := sl; srcs := sr |} aj vbj) as Hnew.
    cbn [heap fobjs] in Hnew.
    assert (Hnew' := Hnew (slot_ok_mono _ _ _ _ _ (Hsl _ _ Hj) (len_mono_hdec h b0) (own_mono_refl fs))). clear Hnew.
    scbn_in H.
    set (s1 := SOwned (vec_arr _ vbj) vbj) in *.
    pose proof (Hj' s1) as Hj1.
    inversion H; subst st'; clear H; wf_split.
    + subst s1. cnt_b Hrc Hxb h.
    + subst s1. cnt_f Hfrc Hxf fs sl.
    + subst s1. cnt_b Hrc Hxb h.
    + subst s1. cnt_f Hfrc Hxf fs sl.
    + intros k s Hs. rewrite nth_error_upd in Hs. destruct (Nat.eqb_spec j k).
      * subst k. rewrite Hj1 in Hs. inversion Hs; subst s. reflexivity.
      * rewrite nth_error_upd in Hs. destruct (Nat.eqb_spec i k).
        -- subst k. rewrite Hi in Hs. inversion Hs; subst s. exact Hnew'.
        -- eapply slot_ok_mono; [eapply Hsl; eauto | lm | apply own_mono_refl].
    + keep_fobjs Hfo.
  - pose proof (slot_ok_vec_arr {| heap := h; fobjs := fs; slots := sl; srcs := sr |} aj vbj (Hsl _ _ Hj)) as Hnew'.
    scbn_in H.
    set (s1 := SOwned (vec_arr _ vbj) vbj) in *.
    pose proof (Hj' s1) as Hj1.
    inversion H; subst st'; clear H; wf_split.
    + subst s1. cnt_b Hrc Hxb h.
    + subst s1. cnt_f Hfrc Hxf fs sl.
    + subst s1. cnt_b Hrc Hxb h.
    + subst s1. cnt_f Hfrc Hxf fs sl.
    + intros k s Hs. rewrite nth_error_upd in Hs. destruct (Nat.eqb_spec j k).
      * subst k. rewrite Hj1 in Hs. inversion Hs; subst s. reflexivity.
      * rewrite nth_error_upd in Hs. destruct (Nat.eqb_spec i k).
        -- subst k. rewrite Hi in Hs. inversion Hs; subst s. exact Hnew'.
        -- eapply Hsl; eauto.
    + keep_fobjs Hfo.
Qed.

Lemma mk_fview_shape h fo off n : fobj_ok h fo -> fo_live fo = true -> off + n <= a_len (fo_arr fo) ->
  null_iff (mk_fview_arr (fo_arr fo) off n) /\
  forall b off', a_ptr (mk_fview_arr (fo_arr fo) off n) = Some (b, off') ->
    fo_own fo = Some b /\ exists m, len_of h b = Some m /\ off' + a_len (mk_fview_arr (fo_arr fo) off n) <= m.
Proof.
  intros Hok Hl Hn. destruct (Hok Hl) as [E|[b [m [E1 [E2 E3]]]]].
  - rewrite E in *. cbn in Hn. assert (n = 0) by lia. subst n. split.
    + unfold null_iff, mk_fview_arr, set_ptr; cbn. tauto.
    + intros b off'. unfold mk_fview_arr, set_ptr; cbn. discriminate.
  - rewrite E3 in *. unfold mk_fview_arr, set_ptr in *. cbn [a_ptr a_len] in *.
    destruct (Nat.eqb_spec n 0) as [N|N].
    + split; [unfold null_iff; cbn; tauto|]. intros b' off'. discriminate.
    + destruct (Nat.eqb_spec m 0) as [M|M]; [lia|]. split.
      * unfold null_iff; cbn [a_ptr a_len]. split; [discriminate | lia].
      * intros b' off' Hp. inversion Hp; subst b' off'. split; auto. exists m. split; [auto | lia].
Qed.

Lemma wf_step_MkFView st i j off n st' : WF st -> step true true st (MkFView i j off n) = Some st' -> WF st'.
Proof.
  intros W H. cbn [step] in H. unfold op_mk_fview in H.
  destruct (slot_free st i) eqn:Hf; [|discriminate]. apply slot_free_inv in Hf.
  destruct (slot_at st j) as [|a0|a0 vb|f|a0 g] eqn:Es; try discriminate.
  assert (Hj : nth_error (slots st) j = Some (SFixed f)) by (rewrite <- Es; apply slot_at_nonempty; congruence).
  destruct (nth_error (fobjs st) f) as [fo|] eqn:Ef; [|discriminate].
  destruct (off + n <=? a_len (fo_arr fo)) eqn:Hle; [|discriminate]. apply Nat.leb_le in Hle.
  wf_open st W. unfold fixed_clone in H.
  destruct (fixed_sole sl fs j f Hfrc Hxf Hj) as [S1 [S2 S3]].
  rewrite (frc_of_some _ _ _ Ef) in S2.
  assert (Lv : fo_live fo = true) by (unfold fo_live; rewrite S2; reflexivity).
  destruct (mk_fview_shape h fo off n (Hfo _ _ Ef) Lv Hle) as [SN SP].
  set (a := mk_fview_arr (fo_arr fo) off n) in *. clearbody a.
  destruct (fo_own fo) as [b0|] eqn:Eo; scbn_in H; inversion H; subst st'; clear H; wf_split.
  - pose proof (w_fobj_live_ge b0 fo fs f Ef) as Wg. pose proof (Hrc b0) as Rb. pose proof (rc_of_out h b0) as Ro.
    cnt_b Hrc Hxb h.
  - cnt_f Hfrc Hxf fs sl.
  - pose proof (w_fobj_live_ge b0 fo fs f Ef) as Wg. cnt_b Hrc Hxb h.
  - cnt_f Hfrc Hxf fs sl.
  - new_slot Hsl i; [|apply own_mono_app]. split; [exact SN|]. split.
    + rewrite own_of_app, Nat.eqb_refl. eauto.
    + intros b off' Hp. destruct (SP b off' Hp) as [P1 [m [P2 P3]]]. split.
      * rewrite own_of_app, Nat.eqb_refl. cbn [fo_own]. congruence.
      * exists m. split; auto. rewrite len_of_hinc. exact P2.
  - new_fobj Hfo fs. eapply fobj_ok_rc; [eapply fobj_ok_mono; [eapply Hfo; eauto | lm] | exact Lv | reflexivity | cbn [fo_own]; congruence].
  - cnt_b Hrc Hxb h.
  - cnt_f Hfrc Hxf fs sl.
  - cnt_b Hrc Hxb h.
  - cnt_f Hfrc Hxf fs sl.
  - new_slot Hsl i; [|apply own_mono_app]. split; [exact SN|]. split.
    + rewrite own_of_app, Nat.eqb_refl. eauto.
    + intros b off' Hp. destruct (SP b off' Hp) as [P1 [m [P2 P3]]]. discriminate.
  - new_fobj Hfo fs. eapply fobj_ok_rc; [eapply fobj_ok_mono; [eapply Hfo; eauto | lm] | exact Lv | reflexivity | cbn [fo_own]; congruence].
Qed.

(* ------------------------------------------------------------ arguments taken from a wrapper *)
Lemma resolve_wrap_ptr st j off n q c : resolve_wrap st j off n = Some (q, c) -> length c <> 0 -> q <> None.
Proof.
  unfold resolve_wrap. destruct (slot_arr st (slot_at st j)) as [a|]; [|discriminate].
  destruct (off + n <=? a_len a); [|discriminate].
  destruct (a_ptr a) as [[b o]|].
  - destruct (nth_error (heap st) b) as [bu|]; [|discriminate].
    destruct (b_alive bu && (o + a_len a <=? length (b_cells bu))); [|discriminate].
    intro H; inversion H; subst. intros _; discriminate.
  - intro H; inversion H; subst. simpl. intro E; congruence.
Qed.

Lemma wf_step_FromWrap st i kd j off n st' : WF st -> step true true st (FromWrap i kd j off n) = Some st' -> WF st'.
Proof.
  intros W H. cbn [step] in H. destruct (resolve_wrap st j off n) as [[q c]|] eqn:Ew; [|discriminate].
  eapply wf_build; [exact W| |exact H]. intros _. eapply resolve_wrap_ptr; eauto.
Qed.

Lemma wf_step_ResetWrap st i j off n st' : WF st -> step true true st (ResetWrap i j off n) = Some st' -> WF st'.
Proof.
  intros W H. cbn [step] in H. destruct (resolve_wrap st j off n) as [[q c]|] eqn:Ew; [|discriminate].
  eapply wf_assign_from; [exact W| |exact H]. eapply resolve_wrap_ptr; eauto.
Qed.

(* ------------------------------------------------------------ the main theorem *)
Lemma resize_ref_is_resize st i n j idx v :
  elem_ref st j idx = Some v -> step true true st (ResizeRef i n j idx) = step true true st (Resize i n v).
Proof. intro H. cbn [step]. rewrite H. reflexivity. Qed.

Lemma wf_step_ResizeRef st i n j idx st' : WF st -> step true true st (ResizeRef i n j idx) = Some st' -> WF st'.
Proof.
  intros W H. destruct (elem_ref st j idx) as [v|] eqn:E.
  - rewrite (resize_ref_is_resize _ _ _ _ _ _ E) in H. eapply wf_step_Resize; eauto.
  - cbn [step] in H. rewrite E in H. discriminate.
Qed.

Theorem wf_step st o st' : WF st -> step true true st o = Some st' -> WF st'.
Proof.
  intros W H. destruct o.
  - eapply wf_step_SrcSet; eauto.
  - eapply wf_step_SrcKill; eauto.
  - eapply wf_step_SrcWrite; eauto.
  - eapply wf_step_Default; eauto.
  - eapply wf_step_FromSrc; eauto.
  - eapply wf_step_FromPtr; eauto.
  - eapply wf_step_FixedN; eauto.
  - eapply wf_step_MkFView; eauto.
  - eapply wf_step_AssignSrc; eauto.
  - eapply wf_step_Reset; eauto.
  - eapply wf_step_ResetPtr; eauto.
  - eapply wf_step_Resize; eauto.
  - eapply wf_copy_ctor; eauto.
  - eapply wf_copy_assign; eauto.
  - eapply wf_step_MoveCtor; eauto.
  - eapply wf_step_MoveAssign; eauto.
  - eapply wf_step_Destroy; eauto.
  - eapply wf_step_Write; eauto.
  - eapply wf_step_FromWrap; eauto.
  - eapply wf_step_ResetWrap; eauto.
  - eapply wf_step_ResizeRef; eauto.
Qed.

Lemma wf_step' st o : WF st -> WF (step' true true st o).
Proof. intro W. unfold step'. destruct (step true true st o) eqn:E; auto. eapply wf_step; eauto. Qed.

Lemma wf_run_from st ops : WF st -> WF (run_new st ops).
Proof.
  revert st. induction ops as [|o ops IH]; intros st W; simpl; auto.
  apply IH. apply wf_step'. exact W.
Qed.

Lemma wf_run : forall ns nk ops, WF (run_new (init ns nk) ops).
Proof. intros. apply wf_run_from. apply wf_init. Qed.
Print Assumptions wf_run.
