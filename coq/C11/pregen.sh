#!/bin/bash
# Regenerates gen/Facts.v (special members, micro-operation table of the wrappers' members, accessor / at() /
# DataView expressions) from the repository working tree, so that the Coq project builds from clean (bin/setup);
# the check does the same on every run.
cd "$(dirname "$0")"
mkdir -p gen
exec python3 ../../props/C11/factgen.py --repo "${VERIF_REPO:-/repo}" --inc ../../build/include --out gen/Facts.v --work ../../build/C11/ast 2>/dev/null
