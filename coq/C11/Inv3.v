(* C11 — WF preservation, continued: Write, Resize, moves. *)
From Common Require Import Prelude.
From C11 Require Import Model Lists Proofs Inv Inv2.

Lemma slot_ok_mono_b h fs h' s bx :
  slot_ok h fs s ->
  (forall b n, b <> bx -> len_of h b = Some n -> len_of h' b = Some n) ->
  w_slot_buf bx s = 0 ->
  (forall a g, s = SFView a (Some g) -> own_of fs g <> Some (Some bx)) ->
  slot_ok h' fs s.
Proof.
  intros Hs Hl Hw Hv. destruct s as [|a|a [b|]|f|a [g|]]; simpl in *; auto.
  - destruct Hs as [n [H1 H2]]. exists n. split; auto. apply Hl; auto.
    intro E. subst. rewrite Nat.eqb_refl in Hw. discriminate.
  - destruct Hs as [Hn [[o Hg] Hp]]. pose proof (Hv a g eq_refl) as Hbx.
    split; auto. split; [exists o; auto|].
    intros b off Hab. destruct (Hp b off Hab) as [P1 [n [P2 P3]]].
    split; auto. exists n. split; auto. apply Hl; auto. intro E. subst. contradiction.
Qed.

(* an OwnedArray's vector allocation has no other reference *)
Lemma owned_sole h fs sl sr i a b0 :
  (forall b, rc_of h b = csum (w_opt b) sr + csum (w_slot_buf b) sl + csum (w_fobj b) fs) ->
  (forall b, csum (w_opt b) sr + csum (w_slot_buf b) sl <> 0 ->
             csum (w_opt b) sr + csum (w_slot_buf b) sl + csum (w_fobj b) fs = 1) ->
  nth_error sl i = Some (SOwned a (Some b0)) ->
  rc_of h b0 = 1 /\ csum (w_opt b0) sr = 0 /\ csum (w_slot_buf b0) sl = 1 /\ csum (w_fobj b0) fs = 0 /\
  (forall j s, j <> i -> nth_error sl j = Some s -> w_slot_buf b0 s = 0) /\
  (forall g fo, nth_error fs g = Some fo -> w_fobj b0 fo = 0).
Proof.
  intros Hrc Hxb Hi.
  pose proof (csum_ge1 (w_slot_buf b0) sl i _ Hi) as G. cbn [w_slot_buf w_opt] in G. rewrite Nat.eqb_refl in G.
  pose proof (Hxb b0) as X. pose proof (Hrc b0) as R.
  repeat split; try lia.
  - intros j s Hj Hs. pose proof (csum_ge2 (w_slot_buf b0) sl i j _ _ (not_eq_sym Hj) Hi Hs) as G2.
    cbn [w_slot_buf w_opt] in G2. rewrite Nat.eqb_refl in G2. lia.
  - intros g fo Hg. pose proof (csum_ge1 (w_fobj b0) fs g _ Hg). lia.
Qed.

Lemma rc_in_heap h b : rc_of h b <> 0 -> exists bu, nth_error h b = Some bu.
Proof. unfold rc_of. destruct (nth_error h b); eauto. congruence. Qed.

(* the other slots and control blocks keep their shape when only [b0]'s length changes *)
Lemma others_keep_b h fs sl sr i a b0 h' :
  (forall b, rc_of h b = csum (w_opt b) sr + csum (w_slot_buf b) sl + csum (w_fobj b) fs) ->
  (forall f, frc_of fs f = csum (w_slot_fobj f) sl) ->
  (forall b, csum (w_opt b) sr + csum (w_slot_buf b) sl <> 0 ->
             csum (w_opt b) sr + csum (w_slot_buf b) sl + csum (w_fobj b) fs = 1) ->
  (forall i s, nth_error sl i = Some s -> slot_ok h fs s) ->
  (forall f fo, nth_error fs f = Some fo -> fobj_ok h fo) ->
  nth_error sl i = Some (SOwned a (Some b0)) ->
  (forall b n, b <> b0 -> len_of h b = Some n -> len_of h' b = Some n) ->
  (forall j s, j <> i -> nth_error sl j = Some s -> slot_ok h' fs s) /\
  (forall f fo, nth_error fs f = Some fo -> fobj_ok h' fo).
Proof.
  intros Hrc Hfrc Hxb Hsl Hfo Hi Hl.
  destruct (owned_sole h fs sl sr i a b0 Hrc Hxb Hi) as [S1 [S2 [S3 [S4 [S5 S6]]]]].
  split.
  - intros j s Hj Hs. eapply slot_ok_mono_b; [eapply Hsl; eauto | exact Hl | eapply S5; eauto |].
    intros a' g E Ho. subst s.
    destruct (fobj_ref sl fs j _ g Hfrc Hs) as [fo [Ef Hge]]; [cbn; rewrite Nat.eqb_refl; reflexivity|].
    rewrite (own_of_some _ _ _ Ef) in Ho. pose proof (S6 g fo Ef) as Z.
    unfold w_fobj, fo_live in Z. destruct (Nat.eqb_spec (fo_rc fo) 0); [lia|]. cbn [negb] in Z.
    inversion Ho as [Ho']. rewrite Ho' in Z. cbn in Z. rewrite Nat.eqb_refl in Z. discriminate.
  - intros f fo Hf. eapply fobj_ok_mono_x; [eapply Hfo; eauto | exact Hl | eapply S6; eauto].
Qed.

Lemma hset_len_x h b0 c : forall b n, b <> b0 -> len_of h b = Some n -> len_of (hset h b0 c) b = Some n.
Proof. intros b n Hb H. rewrite len_of_hset. destruct (Nat.eqb_spec b0 b); [congruence | exact H]. Qed.

Lemma hset_len_at h b0 bu c : nth_error h b0 = Some bu -> len_of (hset h b0 c) b0 = Some (length c).
Proof. intro H. rewrite len_of_hset, Nat.eqb_refl. rewrite (len_of_some _ _ _ H). reflexivity. Qed.

Ltac new_slot_x OK i :=
  let j := fresh "j" in let s := fresh "s" in let Hs := fresh "Hs" in
  intros j s Hs; rewrite nth_error_upd in Hs;
  destruct (Nat.eqb_spec i j);
  [ subst j; match type of Hs with context[nth_error ?l i] =>
      match goal with H : nth_error l i = Some _ |- _ => rewrite H in Hs end end;
    inversion Hs; subst s; clear Hs
  | eapply (proj1 OK); eauto ].

Lemma wf_step_Resize st i n v st' : WF st -> step true true st (Resize i n v) = Some st' -> WF st'.
Proof.
  intros W H. cbn [step] in H. unfold op_resize in H.
  destruct (slot_at st i) as [|a0|a0 vb|f|a0 g] eqn:Es; try discriminate.
  assert (Hi : nth_error (slots st) i = Some (SOwned a0 vb)) by (rewrite <- Es; apply slot_at_nonempty; congruence).
  wf_open st W. unfold vec_resize in H. destruct vb as [b0|].
  - destruct (owned_sole h fs sl sr i a0 b0 Hrc Hxb Hi) as [S1 _].
    destruct (rc_in_heap h b0) as [bu Eb]; [lia|]. cbn [heap] in H. rewrite Eb in H.
    destruct (n <=? length (b_cells bu)); [|destruct (n <=? b_cap bu)].
    + pose proof (others_keep_b h fs sl sr i a0 b0 _ Hrc Hfrc Hxb Hsl Hfo Hi (hset_len_x h b0 (firstn n (b_cells bu)))) as OK.
      scbn_in H; inversion H; subst st'; clear H; wf_split.
      * cnt_b Hrc Hxb h. * cnt_f Hfrc Hxf fs sl. * cnt_b Hrc Hxb h. * cnt_f Hfrc Hxf fs sl.
      * new_slot_x OK i. eexists. split; [eapply hset_len_at; eauto|].
        rewrite (vec_len_raw _ _ _ (hset_len_at _ _ _ _ Eb)). reflexivity.
      * apply (proj2 OK).
    + pose proof (others_keep_b h fs sl sr i a0 b0 _ Hrc Hfrc Hxb Hsl Hfo Hi (hset_len_x h b0 (b_cells bu ++ repeat v (n - length (b_cells bu))))) as OK.
      scbn_in H; inversion H; subst st'; clear H; wf_split.
      * cnt_b Hrc Hxb h. * cnt_f Hfrc Hxf fs sl. * cnt_b Hrc Hxb h. * cnt_f Hfrc Hxf fs sl.
      * new_slot_x OK i. eexists. split; [eapply hset_len_at; eauto|].
        rewrite (vec_len_raw _ _ _ (hset_len_at _ _ _ _ Eb)). reflexivity.
      * apply (proj2 OK).
    + scbn_in H; inversion H; subst st'; clear H; wf_split.
      * cnt_b Hrc Hxb h. * cnt_f Hfrc Hxf fs sl. * cnt_b Hrc Hxb h. * cnt_f Hfrc Hxf fs sl.
      * new_slot Hsl i. eexists. split; [len_goal|]. rewrite (vec_len_raw _ _ (length (b_cells bu ++ repeat v (n - length (b_cells bu))))); [reflexivity | len_goal].
      * keep_fobjs Hfo.
  - destruct n as [|n].
    + scbn_in H; inversion H; subst st'; clear H; wf_split.
      * cnt_b Hrc Hxb h. * cnt_f Hfrc Hxf fs sl. * cnt_b Hrc Hxb h. * cnt_f Hfrc Hxf fs sl.
      * new_slot Hsl i. reflexivity.
      * keep_fobjs Hfo.
    + scbn_in H; inversion H; subst st'; clear H; wf_split.
      * cnt_b Hrc Hxb h. * cnt_f Hfrc Hxf fs sl. * cnt_b Hrc Hxb h. * cnt_f Hfrc Hxf fs sl.
      * new_slot Hsl i. eexists. split; [len_goal|]. rewrite (vec_len_raw _ _ (length (repeat v (S n)))); [reflexivity | len_goal].
      * keep_fobjs Hfo.
Qed.

Lemma arr_index_val h a idx v : arr_index h a idx = RVal v ->
  exists b off bu, a_ptr a = Some (b, off) /\ nth_error h b = Some bu.
Proof.
  unfold arr_index, read_cell. destruct (a_ptr a) as [[b off]|]; [|discriminate].
  destruct (nth_error h b) as [bu|] eqn:E; [|discriminate]. intros _. eauto.
Qed.

Lemma wf_step_Write st i idx v st' : WF st -> step true true st (Write i idx v) = Some st' -> WF st'.
Proof.
  intros W H. cbn [step] in H. unfold op_write in H.
  destruct (slot_arr st (slot_at st i)) as [a|]; [|discriminate].
  destruct (idx <? a_len a); [|discriminate].
  destruct (a_ptr a) as [[b off]|] eqn:Ea; [|discriminate].
  destruct (arr_index (heap st) a idx) as [v0| | |] eqn:Ei; try discriminate.
  apply arr_index_val in Ei. destruct Ei as [b' [off' [bu [E1 E2]]]]. rewrite Ea in E1. inversion E1; subst b' off'.
  unfold vec_cells in H. rewrite E2 in H.
  wf_open st W. scbn_in H; inversion H; subst st'; clear H; wf_split.
  - cnt_b Hrc Hxb h.
  - exact Hfrc.
  - exact Hxb.
  - exact Hxf.
  - intros j s Hs. eapply slot_ok_mono; [eapply Hsl; eauto | apply upd_len_mono; auto | apply own_mono_refl].
  - intros f fo Hf. eapply fobj_ok_mono; [eapply Hfo; eauto | apply upd_len_mono; auto].
Qed.

Lemma wf_copy_ctor st i j st' : WF st -> op_copy_ctor true st i j = Some st' -> WF st'.
Proof.
  intros W H. unfold op_copy_ctor in H. destruct (slot_free st i) eqn:Hf; [|discriminate].
  apply slot_free_inv in Hf.
  destruct (slot_at st j) as [|a0|a0 vb|f|a0 g] eqn:Es; try discriminate.
  - assert (Hj : nth_error (slots st) j = Some (SView a0)) by (rewrite <- Es; apply slot_at_nonempty; congruence).
    wf_open st W. scbn_in H; inversion H; subst st'; clear H; wf_split.
    + cnt_b Hrc Hxb h. + cnt_f Hfrc Hxf fs sl. + cnt_b Hrc Hxb h. + cnt_f Hfrc Hxf fs sl.
    + new_slot Hsl i. apply (Hsl _ _ Hj).
    + keep_fobjs Hfo.
  - assert (Hj : nth_error (slots st) j = Some (SOwned a0 vb)) by (rewrite <- Es; apply slot_at_nonempty; congruence).
    wf_open st W. unfold vec_alloc in H.
    destruct (vec_cells {| heap := h; fobjs := fs; slots := sl; srcs := sr |} vb) as [|x c0];
      [|set (c := x :: c0) in *; clearbody c]; scbn_in H; inversion H; subst st'; clear H; wf_split.
    + cnt_b Hrc Hxb h. + cnt_f Hfrc Hxf fs sl. + cnt_b Hrc Hxb h. + cnt_f Hfrc Hxf fs sl.
    + new_slot Hsl i. reflexivity.
    + keep_fobjs Hfo.
    + cnt_b Hrc Hxb h. + cnt_f Hfrc Hxf fs sl. + cnt_b Hrc Hxb h. + cnt_f Hfrc Hxf fs sl.
    + new_slot Hsl i. own_shape (length c).
    + keep_fobjs Hfo.
  - assert (Hj : nth_error (slots st) j = Some (SFixed f)) by (rewrite <- Es; apply slot_at_nonempty; congruence).
    destruct (nth_error (fobjs st) f) as [fo|] eqn:Ef; [|discriminate].
    wf_open st W. unfold fixed_clone in H.
    destruct (fixed_sole sl fs j f Hfrc Hxf Hj) as [S1 [S2 S3]].
    rewrite (frc_of_some _ _ _ Ef) in S2.
    assert (Lv : fo_live fo = true) by (unfold fo_live; rewrite S2; reflexivity).
    destruct (fo_own fo) as [b0|] eqn:Eo; scbn_in H; inversion H; subst st'; clear H; wf_split.
    + pose proof (w_fobj_live_ge b0 fo fs f Ef) as Wg. pose proof (Hrc b0) as Rb. pose proof (rc_of_out h b0) as Ro.
      cnt_b Hrc Hxb h.
    + cnt_f Hfrc Hxf fs sl.
    + pose proof (w_fobj_live_ge b0 fo fs f Ef) as Wg. cnt_b Hrc Hxb h.
    + cnt_f Hfrc Hxf fs sl.
    + new_slot Hsl i. exact I. apply own_mono_app.
    + new_fobj Hfo fs. eapply fobj_ok_rc; [eapply fobj_ok_mono; [eapply Hfo; eauto | lm] | exact Lv | reflexivity | cbn [fo_own]; congruence].
    + cnt_b Hrc Hxb h.
    + cnt_f Hfrc Hxf fs sl.
    + cnt_b Hrc Hxb h.
    + cnt_f Hfrc Hxf fs sl.
    + new_slot Hsl i. exact I. apply own_mono_app.
    + new_fobj Hfo fs. eapply fobj_ok_rc; [eapply fobj_ok_mono; [eapply Hfo; eauto | lm] | exact Lv | reflexivity | cbn [fo_own]; congruence].
  - assert (Hj : nth_error (slots st) j = Some (SFView a0 g)) by (rewrite <- Es; apply slot_at_nonempty; congruence).
    wf_open st W. unfold acquire_fobj in H. cbn [fobjs] in H. destruct g as [g|].
    2:{ scbn_in H; inversion H; subst st'; clear H; wf_split.
        + cnt_b Hrc Hxb h. + cnt_f Hfrc Hxf fs sl. + cnt_b Hrc Hxb h. + cnt_f Hfrc Hxf fs sl.
        + new_slot Hsl i. apply (Hsl _ _ Hj).
        + keep_fobjs Hfo. }
    destruct (fobj_ref sl fs j _ g Hfrc Hj) as [fo [Ef Hge]]; [cbn; rewrite Nat.eqb_refl; reflexivity|].
    rewrite Ef in H. pose proof (fview_excl _ _ _ _ Hj) as FX.
    scbn_in H; inversion H; subst st'; clear H; wf_split.
    + cnt_b Hrc Hxb h.
    + intro f'. rewrite (frc_of_upd _ _ _ _ _ Ef). pose_csum. pose proof (Hfrc f'). pose proof (Hxf f').
      pose proof (frc_of_some _ _ _ Ef). wfin2.
    + cnt_b Hrc Hxb h.
    + cnt_f Hfrc Hxf fs sl.
    + new_slot Hsl i.
      * eapply slot_ok_mono; [eapply (Hsl _ _ Hj) | lm | eapply own_mono_upd; eauto].
      * eapply own_mono_upd; eauto.
    + upd_fobj Hfo Ef g. eapply fobj_ok_rc; [eapply Hfo; eauto | | reflexivity | reflexivity].
      unfold fo_live. destruct (Nat.eqb_spec (fo_rc fo) 0); auto. lia.
Qed.

Lemma slot_ok_vec_arr st a vb :
  slot_ok (heap st) (fobjs st) (SOwned a vb) -> slot_ok (heap st) (fobjs st) (SOwned (vec_arr st vb) vb).
Proof.
  destruct vb as [b|]; simpl; auto. intros [n [H1 H2]]. exists n. split; auto. apply vec_arr_len; auto.
Qed.

Lemma wf_step_MoveCtor st i j st' : WF st -> step true true st (MoveCtor i j) = Some st' -> WF st'.
Proof.
  intros W H. cbn [step] in H. unfold op_move_ctor in H.
  destruct (slot_at st j) as [|a0|a0 vb|f|a0 g] eqn:Es; try (eapply wf_copy_ctor; eauto; fail).
  assert (Hj : nth_error (slots st) j = Some (SOwned a0 vb)) by (rewrite <- Es; apply slot_at_nonempty; congruence).
  destruct (slot_free st i) eqn:Hf; [|discriminate]. apply slot_free_inv in Hf.
  assert (Nij : i <> j) by (intro; subst; congruence).
  pose proof (slot_ok_vec_arr st a0 vb (wf_slot st W _ _ Hj)) as Hnew.
  wf_open st W.
  assert (Hj' : forall s1, nth_error (upd i s1 sl) j = Some (SOwned a0 vb)) by (intro; rewrite nth_error_upd_neq; auto).
  set (s1 := SOwned (vec_arr {| heap := h; fobjs := fs; slots := sl; srcs := sr |} vb) vb) in *.
  pose proof (Hj' s1) as Hj1.
  scbn_in H; inversion H; subst st'; clear H; wf_split.
  - subst s1. cnt_b Hrc Hxb h.
  - subst s1. cnt_f Hfrc Hxf fs sl.
  - subst s1. cnt_b Hrc Hxb h.
  - subst s1. cnt_f Hfrc Hxf fs sl.
  - intros k s Hs. rewrite nth_error_upd in Hs. destruct (Nat.eqb_spec j k).
    + subst k. rewrite Hj1 in Hs. inversion Hs; subst s. reflexivity.
    + rewrite nth_error_upd in Hs. destruct (Nat.eqb_spec i k).
      * subst k. rewrite Hf in Hs. inversion Hs; subst s. exact Hnew.
      * eapply Hsl; eauto.
  - exact Hfo.
Qed.

Lemma wf_copy_assign_owned st i j ai vbi aj vbj st' : WF st -> i <> j ->
  nth_error (slots st) i = Some (SOwned ai vbi) -> nth_error (slots st) j = Some (SOwned aj vbj) ->
  (let '(st1, vb') := vec_copy_assign st vbi (vec_cells st vbj) in
   Some (set_slot st1 i (SOwned (vec_arr st1 vb') vb'))) = Some st' -> WF st'.
Proof.
  intros W Nij Hi Hj H. wf_open st W. unfold vec_copy_assign in H.
  remember (vec_cells {| heap := h; fobjs := fs; slots := sl; srcs := sr |} vbj) as c eqn:Ec. clear Ec.
  destruct vbi as [b0|].
  - destruct (owned_sole h fs sl sr i ai b0 Hrc Hxb Hi) as [S1 _].
    destruct (rc_in_heap h b0) as [bu Eb]; [lia|]. cbn [heap] in H. rewrite Eb in H.
    destruct (length c <=? b_cap bu).
    + pose proof (others_keep_b h fs sl sr i ai b0 _ Hrc Hfrc Hxb Hsl Hfo Hi (hset_len_x h b0 c)) as OK.
      scbn_in H; inversion H; subst st'; clear H; wf_split.
      * cnt_b Hrc Hxb h. * cnt_f Hfrc Hxf fs sl. * cnt_b Hrc Hxb h. * cnt_f Hfrc Hxf fs sl.
      * new_slot_x OK i. eexists. split; [eapply hset_len_at; eauto|].
        rewrite (vec_len_raw _ _ _ (hset_len_at _ _ _ _ Eb)). reflexivity.
      * apply (proj2 OK).
    + scbn_in H; inversion H; subst st'; clear H; wf_split.
      * cnt_b Hrc Hxb h. * cnt_f Hfrc Hxf fs sl. * cnt_b Hrc Hxb h. * cnt_f Hfrc Hxf fs sl.
      * new_slot Hsl i. own_shape (length c).
      * keep_fobjs Hfo.
  - unfold vec_alloc in H. destruct c as [|x c0]; [|set (c := x :: c0) in *; clearbody c];
      scbn_in H; inversion H; subst st'; clear H; wf_split.
    + cnt_b Hrc Hxb h. + cnt_f Hfrc Hxf fs sl. + cnt_b Hrc Hxb h. + cnt_f Hfrc Hxf fs sl.
    + new_slot Hsl i. reflexivity.
    + keep_fobjs Hfo.
    + cnt_b Hrc Hxb h. + cnt_f Hfrc Hxf fs sl. + cnt_b Hrc Hxb h. + cnt_f Hfrc Hxf fs sl.
    + new_slot Hsl i. own_shape (length c).
    + keep_fobjs Hfo.
Qed.
