(* C11 — arguments taken from a wrapper: T(w.data() + off, n) and w.reset(w'.data() + off, n), in particular the
   self-aliasing a.reset(a.data() + off, n).  The range is read before the call, so the result holds the
   sub-list of the OLD contents although the call releases the old buffer. *)
From Common Require Import Prelude.
From C11 Require Import Model Spec Lists Proofs Inv Inv2 Inv3 Inv4 Inv5 Inv6 InvCor InvStep ProofsReach Frame.

(* ------------------------------------------------------------ lists *)
Lemma skipn_skipn' {A} (l : list A) a b : skipn a (skipn b l) = skipn (b + a) l.
Proof.
  revert l; induction b as [|b IH]; intro l; [reflexivity|].
  cbn [Nat.add skipn]. destruct l as [|x l]; [destruct a; reflexivity | apply IH].
Qed.

Lemma firstn_skipn_firstn {A} (l : list A) : forall off n L, off + n <= L ->
  firstn n (skipn off (firstn L l)) = firstn n (skipn off l).
Proof.
  induction l as [|x l IH]; intros off n L H.
  - rewrite firstn_nil. reflexivity.
  - destruct L as [|L].
    + assert (off = 0) by lia. assert (n = 0) by lia. subst. reflexivity.
    + destruct off as [|off]; cbn [firstn skipn].
      * destruct n as [|n]; [reflexivity|]. cbn [firstn]. f_equal.
        apply (IH 0 n L). lia.
      * apply IH. lia.
Qed.

(* ------------------------------------------------------------ the argument range *)
Lemma resolve_wrap_inv st j off n q c : resolve_wrap st j off n = Some (q, c) ->
  exists a, slot_arr st (slot_at st j) = Some a /\ off + n <= a_len a /\
    ((a_ptr a = None /\ q = None /\ c = []) \/
     (exists b o bu, a_ptr a = Some (b, o) /\ nth_error (heap st) b = Some bu /\ b_alive bu = true /\
        o + a_len a <= length (b_cells bu) /\ q = Some (b, o + off) /\
        c = firstn n (skipn (o + off) (b_cells bu)))).
Proof.
  unfold resolve_wrap. destruct (slot_arr st (slot_at st j)) as [a|]; [|discriminate].
  destruct (Nat.leb_spec (off + n) (a_len a)) as [L|L]; [|discriminate].
  intro H. exists a. split; [reflexivity|]. split; [exact L|].
  destruct (a_ptr a) as [[b o]|] eqn:Ep.
  - destruct (nth_error (heap st) b) as [bu|] eqn:Eb; [|discriminate].
    destruct (b_alive bu) eqn:Al; [|discriminate].
    destruct (Nat.leb_spec (o + a_len a) (length (b_cells bu))) as [L2|L2]; [|discriminate].
    cbn [andb] in H. inversion H; subst q c. right. exists b, o, bu. repeat split; auto.
  - inversion H; subst q c. left. auto.
Qed.

Lemma slot_arr_nth st j a : slot_arr st (slot_at st j) = Some a -> nth_error (slots st) j = Some (slot_at st j).
Proof. intro H. apply slot_at_nonempty. intro Z. rewrite Z in H. discriminate. Qed.

(* holds for a view as well: the test in resolve_wrap makes the whole designated range live *)
Lemma resolve_wrap_elems_gen st j off n q c e : WF st ->
  elems st j = Some e -> resolve_wrap st j off n = Some (q, c) ->
  map RVal c = firstn n (skipn off e) /\ off + n <= length e.
Proof.
  intros W He Hr. destruct (resolve_wrap_inv st j off n q c Hr) as [a [Ha [L D]]].
  rewrite elems_eq, Ha in He. inversion He; subst e; clear He.
  rewrite iter_length. split; [|exact L].
  destruct D as [[Pn [Eq Ec]] | [b [o [bu [Pp [Hb [Al [L2 [Eq Ec]]]]]]]]].
  - subst c. pose proof (slot_arr_nth st j a Ha) as Hs.
    destruct (array_inv_wf st j _ a W Hs Ha) as [[Z _] _]. specialize (Z Pn).
    assert (n = 0) by lia. subst n. reflexivity.
  - subst c. destruct a as [p len]. cbn [a_ptr a_len] in *. subst p.
    rewrite (iter_live (heap st) b o len bu Hb Al L2).
    rewrite skipn_map, firstn_map. f_equal.
    rewrite (firstn_skipn_firstn _ off n len L). rewrite skipn_skipn'. reflexivity.
Qed.

Theorem resolve_wrap_elems : forall st j off n q c e, WF st -> owning (slot_at st j) ->
  elems st j = Some e -> resolve_wrap st j off n = Some (q, c) ->
  map RVal c = firstn n (skipn off e) /\ off + n <= length e.
Proof. intros st j off n q c e W _. apply resolve_wrap_elems_gen. exact W. Qed.

(* the precondition is exactly "the range lies inside the wrapper" when the wrapper owns its elements *)
Theorem resolve_wrap_defined : forall st j off n e, WF st -> owning (slot_at st j) ->
  elems st j = Some e -> off + n <= length e -> exists q c, resolve_wrap st j off n = Some (q, c).
Proof.
  intros st j off n e W O He L. destruct (owning_slot_some st j W O) as [Hs [a Ha]].
  rewrite elems_eq, Ha in He. inversion He; subst e; clear He. rewrite iter_length in L.
  destruct (array_inv_wf st j _ a W Hs Ha) as [Hn R].
  assert (R' : forall idx, idx < a_len a -> exists v, arr_index (heap st) a idx = RVal v).
  { destruct (slot_at st j); try contradiction; exact R. }
  unfold resolve_wrap. rewrite Ha. apply Nat.leb_le in L. rewrite L.
  destruct (a_ptr a) as [[b o]|] eqn:Ep; [|eauto].
  assert (Z : a_len a <> 0) by (intro Z; apply Hn in Z; discriminate).
  destruct (R' (a_len a - 1) ltac:(lia)) as [v Ev]. unfold arr_index, read_cell in Ev. rewrite Ep in Ev.
  destruct (nth_error (heap st) b) as [bu|]; [|discriminate].
  destruct (b_alive bu); [|discriminate]. cbn [andb].
  destruct (nth_error (b_cells bu) (o + (a_len a - 1))) eqn:En; [|discriminate].
  apply nth_error_lt in En.
  destruct (Nat.leb_spec (o + a_len a) (length (b_cells bu))) as [L2|L2]; [eauto | lia].
Qed.

(* a view built over the range shows exactly the range *)
Lemma resolve_wrap_view st j off n q c : resolve_wrap st j off n = Some (q, c) ->
  arr_iter (heap st) (set_ptr q (length c)) = map RVal c.
Proof.
  intro Hr. destruct (resolve_wrap_inv st j off n q c Hr) as [a [Ha [L D]]].
  destruct D as [[Pn [Eq Ec]] | [b [o [bu [Pp [Hb [Al [L2 [Eq Ec]]]]]]]]].
  - subst q c. reflexivity.
  - assert (Hl : length c = n).
    { subst c. rewrite firstn_length, skipn_length. lia. }
    rewrite Hl. subst q. unfold set_ptr. destruct (Nat.eqb_spec n 0) as [Z|Z].
    + clear Hl. subst n c. reflexivity.
    + rewrite (iter_live (heap st) b (o + off) n bu Hb Al) by lia. subst c. reflexivity.
Qed.

(* ------------------------------------------------------------ what assignment / construction stores *)
Lemma vec_cells_release st o vb : vec_cells (release_buf st o) vb = vec_cells st vb.
Proof.
  destruct o as [b0|]; [|reflexivity]. destruct vb as [b|]; [|reflexivity].
  unfold vec_cells, release_buf, with_heap, hdec. cbn [heap]. rewrite nth_error_hmod.
  destruct (Nat.eqb b0 b); [|reflexivity]. destruct (nth_error (heap st) b); reflexivity.
Qed.

Lemma assign_owned_elems st i af a vb p c st1 : WF st1 -> slot_at st i = SOwned a vb ->
  assign_from st i af p c = Some st1 -> elems st1 i = Some (map RVal c).
Proof.
  intros W1 Hs H.
  assert (Hi : nth_error (slots st) i = Some (SOwned a vb)) by (apply slot_at_inv; [exact Hs | discriminate]).
  assert (Hlt : i < length (slots st)) by (eapply nth_error_lt; eauto).
  unfold assign_from in H. rewrite Hs in H.
  destruct (vec_alloc st c) as [st' vb'] eqn:Ev.
  destruct (vec_alloc_frame _ _ _ _ Ev) as [V1 [V2 [V3 V4]]].
  destruct (release_buf_frame st' vb) as [R1 [R2 R3]].
  pose proof (vec_cells_release st' vb vb') as VR.
  set (st2 := release_buf st' vb) in *.
  assert (E1 : st1 = set_slot st2 i (SOwned (vec_arr st2 vb') vb')) by congruence. clear H. subst st1.
  assert (Hat : slot_at (set_slot st2 i (SOwned (vec_arr st2 vb') vb')) i = SOwned (vec_arr st2 vb') vb').
  { apply slot_at_set. rewrite R1, V1. exact Hlt. }
  assert (Hi1 := slot_at_inv _ _ _ Hat ltac:(discriminate)).
  rewrite (elems_owned _ i _ _ W1 Hi1).
  change (vec_cells (set_slot st2 i (SOwned (vec_arr st2 vb') vb')) vb') with (vec_cells st2 vb').
  rewrite VR, V3. reflexivity.
Qed.

Lemma build_owning_elems st i kd p c st1 : WF st1 -> (kd = KOwned \/ kd = KFixed) ->
  build st i kd p c = Some st1 -> owning (slot_at st1 i) /\ elems st1 i = Some (map RVal c).
Proof.
  intros W1 Hk H. unfold build in H. destruct (slot_free st i) eqn:Hf; [|discriminate].
  assert (Hlt : i < length (slots st)).
  { apply slot_free_inv in Hf. eapply nth_error_lt; eauto. }
  destruct Hk; subst kd.
  - destruct (vec_alloc st c) as [st' vb'] eqn:Ev. inversion H; subst st1; clear H.
    destruct (vec_alloc_frame _ _ _ _ Ev) as [V1 [V2 [V3 V4]]].
    assert (Hat : slot_at (set_slot st' i (SOwned (vec_arr st' vb') vb')) i = SOwned (vec_arr st' vb') vb').
    { apply slot_at_set. rewrite V1. exact Hlt. }
    split; [rewrite Hat; exact I|].
    assert (Hi1 := slot_at_inv _ _ _ Hat ltac:(discriminate)).
    rewrite (elems_owned _ i _ _ W1 Hi1).
    change (vec_cells (set_slot st' i (SOwned (vec_arr st' vb') vb')) vb') with (vec_cells st' vb').
    rewrite V3. reflexivity.
  - unfold fixed_new, alloc in H. inversion H; subst st1; clear H.
    set (nb := {| b_cells := c; b_cap := length c; b_rc := 1 |}) in *.
    rewrite elems_eq. rewrite slot_at_set by exact Hlt. split; [exact I|].
    cbn [slot_arr set_slot with_fobjs with_heap fobjs heap]. rewrite nth_error_snoc_eq. cbn [fo_arr].
    f_equal. apply (iter_whole (heap st ++ [nb]) (length (heap st)) nb); [apply nth_error_snoc_eq | reflexivity].
Qed.

Lemma build_view_elems st i p c st1 : build st i KView p c = Some st1 ->
  elems st1 i = Some (arr_iter (heap st) (set_ptr p (length c))).
Proof.
  intro H. unfold build in H. destruct (slot_free st i) eqn:Hf; [|discriminate].
  assert (Hlt : i < length (slots st)).
  { apply slot_free_inv in Hf. eapply nth_error_lt; eauto. }
  inversion H; subst st1; clear H. rewrite elems_eq. rewrite slot_at_set by exact Hlt. reflexivity.
Qed.

(* ------------------------------------------------------------ (b) w_i.reset(w_j.data() + off, n) *)
Theorem reset_from_wrapper_lemma : forall st i j a vb off n e st1, WF st ->
  slot_at st i = SOwned a vb -> owning (slot_at st j) -> elems st j = Some e ->
  step_new st (ResetWrap i j off n) = Some st1 ->
  elems st1 i = Some (firstn n (skipn off e)).
Proof.
  intros st i j a vb off n e st1 W Hs O He H. pose proof (wf_step st _ st1 W H) as W1.
  unfold step_new in H. cbn [step] in H.
  destruct (resolve_wrap st j off n) as [[q c]|] eqn:Er; [|discriminate].
  destruct (resolve_wrap_elems st j off n q c e W O He Er) as [Ec _].
  rewrite <- Ec. eapply assign_owned_elems; eauto.
Qed.

(* the self-aliasing call a.reset(a.data() + off, n) *)
Theorem reset_from_own_range_lemma : forall st i a vb off n e st1, WF st ->
  slot_at st i = SOwned a vb -> elems st i = Some e ->
  step_new st (ResetWrap i i off n) = Some st1 ->
  elems st1 i = Some (firstn n (skipn off e)).
Proof.
  intros st i a vb off n e st1 W Hs He H.
  apply (reset_from_wrapper_lemma st i i a vb off n e st1 W Hs); auto. rewrite Hs. exact I.
Qed.

Theorem reset_from_self_whole : forall st i a vb e st1, WF st ->
  slot_at st i = SOwned a vb -> elems st i = Some e ->
  step_new st (ResetWrap i i 0 (length e)) = Some st1 ->
  elems st1 i = Some e.
Proof.
  intros st i a vb e st1 W Hs He H.
  rewrite (reset_from_own_range_lemma st i a vb 0 (length e) e st1 W Hs He H).
  cbn [skipn]. rewrite firstn_all. reflexivity.
Qed.

(* ------------------------------------------------------------ (c) T(w_j.data() + off, n), T owning *)
Lemma from_wrap_neq st i kd j off n st1 : owning (slot_at st j) ->
  step_new st (FromWrap i kd j off n) = Some st1 -> i <> j.
Proof.
  intros O H. unfold step_new in H. cbn [step] in H.
  destruct (resolve_wrap st j off n) as [[q c]|]; [|discriminate].
  unfold build in H. destruct (slot_free st i) eqn:Hf; [|discriminate]. apply slot_free_inv in Hf.
  intro E. subst j. rewrite (slot_at_some _ _ _ Hf) in O. exact O.
Qed.

Theorem from_wrapper_lemma : forall st i kd j off n e st1, WF st -> (kd = KOwned \/ kd = KFixed) ->
  owning (slot_at st j) -> elems st j = Some e ->
  step_new st (FromWrap i kd j off n) = Some st1 ->
  elems st1 i = Some (firstn n (skipn off e)) /\ elems st1 j = Some e.
Proof.
  intros st i kd j off n e st1 W Hk O He H. pose proof (wf_step st _ st1 W H) as W1.
  pose proof (from_wrap_neq st i kd j off n st1 O H) as Nij. split.
  - unfold step_new in H. cbn [step] in H.
    destruct (resolve_wrap st j off n) as [[q c]|] eqn:Er; [|discriminate].
    destruct (resolve_wrap_elems st j off n q c e W O He Er) as [Ec _].
    rewrite <- Ec. eapply build_owning_elems; eauto.
  - rewrite <- He. apply (frame_step_lemma st (FromWrap i kd j off n) st1 j W H O).
    + cbn [targets In]. intros [E|[]]. congruence.
    + intros [].
Qed.

(* ------------------------------------------------------------ (d) ArrayView(w_j.data() + off, n) *)
Theorem view_of_wrapper_lemma : forall st i j off n e st1, WF st ->
  owning (slot_at st j) -> elems st j = Some e ->
  step_new st (FromWrap i KView j off n) = Some st1 ->
  elems st1 i = Some (firstn n (skipn off e)).
Proof.
  intros st i j off n e st1 W O He H. unfold step_new in H. cbn [step] in H.
  destruct (resolve_wrap st j off n) as [[q c]|] eqn:Er; [|discriminate].
  destruct (resolve_wrap_elems st j off n q c e W O He Er) as [Ec _].
  rewrite (build_view_elems st i q c st1 H), (resolve_wrap_view st j off n q c Er), Ec. reflexivity.
Qed.

(* ------------------------------------------------------------ (f) for every reachable state *)
Theorem reset_from_wrapper_reach : forall st i j a vb off n e st1, reachable st ->
  slot_at st i = SOwned a vb -> owning (slot_at st j) -> elems st j = Some e ->
  step_new st (ResetWrap i j off n) = Some st1 ->
  elems st1 i = Some (firstn n (skipn off e)).
Proof. intros st i j a vb off n e st1 R. apply reset_from_wrapper_lemma. apply reach_wf; exact R. Qed.

Theorem reset_from_own_range_reach : forall st i a vb off n e st1, reachable st ->
  slot_at st i = SOwned a vb -> elems st i = Some e ->
  step_new st (ResetWrap i i off n) = Some st1 ->
  elems st1 i = Some (firstn n (skipn off e)).
Proof. intros st i a vb off n e st1 R. apply reset_from_own_range_lemma. apply reach_wf; exact R. Qed.

Theorem reset_from_self_whole_reach : forall st i a vb e st1, reachable st ->
  slot_at st i = SOwned a vb -> elems st i = Some e ->
  step_new st (ResetWrap i i 0 (length e)) = Some st1 ->
  elems st1 i = Some e.
Proof. intros st i a vb e st1 R. apply reset_from_self_whole. apply reach_wf; exact R. Qed.

Theorem from_wrapper_reach : forall st i kd j off n e st1, reachable st -> (kd = KOwned \/ kd = KFixed) ->
  owning (slot_at st j) -> elems st j = Some e ->
  step_new st (FromWrap i kd j off n) = Some st1 ->
  elems st1 i = Some (firstn n (skipn off e)) /\ elems st1 j = Some e.
Proof. intros st i kd j off n e st1 R. apply from_wrapper_lemma. apply reach_wf; exact R. Qed.

Theorem view_of_wrapper_reach : forall st i j off n e st1, reachable st ->
  owning (slot_at st j) -> elems st j = Some e ->
  step_new st (FromWrap i KView j off n) = Some st1 ->
  elems st1 i = Some (firstn n (skipn off e)).
Proof. intros st i j off n e st1 R. apply view_of_wrapper_lemma. apply reach_wf; exact R. Qed.

Theorem resolve_wrap_elems_reach : forall st j off n q c e, reachable st -> owning (slot_at st j) ->
  elems st j = Some e -> resolve_wrap st j off n = Some (q, c) ->
  map RVal c = firstn n (skipn off e) /\ off + n <= length e.
Proof. intros st j off n q c e R. apply resolve_wrap_elems. apply reach_wf; exact R. Qed.

Theorem resolve_wrap_defined_reach : forall st j off n e, reachable st -> owning (slot_at st j) ->
  elems st j = Some e -> off + n <= length e -> exists q c, resolve_wrap st j off n = Some (q, c).
Proof. intros st j off n e R. apply resolve_wrap_defined. apply reach_wf; exact R. Qed.

(* non-vacuity: a concrete history in which the self-aliasing reset fires and keeps the tail *)
Lemma reset_from_own_range_witness :
  exists ops, elems (run_new (init 2 1) ops) 0 = Some [RVal 3%N; RVal 4%N] /\
              elems (run_new (init 2 1) (removelast ops)) 0 = Some [RVal 1%N; RVal 2%N; RVal 3%N; RVal 4%N].
Proof.
  exists [SrcSet 0 [1;2;3;4]%N; FromSrc 0 KOwned 0; ResetWrap 0 0 2 2]. vm_compute. split; reflexivity.
Qed.

Print Assumptions resolve_wrap_elems.
Print Assumptions resolve_wrap_defined.
Print Assumptions reset_from_wrapper_lemma.
Print Assumptions reset_from_own_range_lemma.
Print Assumptions reset_from_self_whole.
Print Assumptions from_wrapper_lemma.
Print Assumptions view_of_wrapper_lemma.
Print Assumptions reset_from_wrapper_reach.
Print Assumptions reset_from_own_range_reach.
Print Assumptions reset_from_self_whole_reach.
Print Assumptions from_wrapper_reach.
Print Assumptions view_of_wrapper_reach.
Print Assumptions resolve_wrap_elems_reach.
Print Assumptions resolve_wrap_defined_reach.
Print Assumptions reset_from_own_range_witness.

(* ------------------------------------------------------------ a fill value passed by reference to an element *)
Lemma elem_ref_of_elems st j idx e v :
  elems st j = Some e -> nth_error e idx = Some (RVal v) -> elem_ref st j idx = Some v.
Proof.
  unfold elems, observe_slot, elem_ref. destruct (slot_arr st (slot_at st j)) as [a|]; [|discriminate].
  cbn [option_map o_elems]. intro H. injection H as <-. intro Hn.
  assert (L : idx < a_len a).
  { rewrite <- (iter_length (heap st) a). apply nth_error_Some. congruence. }
  rewrite iter_nth in Hn by exact L. injection Hn as Hn.
  apply Nat.ltb_lt in L. rewrite L, Hn. reflexivity.
Qed.

(* w_i.resize(n, w_j[idx]) — j = i included — fills with the value the element had BEFORE the call *)
Theorem resize_ref_lemma : forall st i a vb n j idx e v st1, WF st ->
  slot_at st i = SOwned a vb -> elems st j = Some e -> nth_error e idx = Some (RVal v) ->
  step_new st (ResizeRef i n j idx) = Some st1 ->
  elems st1 i = Some (map RVal (firstn n (vec_cells st vb) ++ repeat v (n - length (vec_cells st vb)))).
Proof.
  intros st i a vb n j idx e v st1 W Hs He Hn H.
  pose proof (elem_ref_of_elems _ _ _ _ _ He Hn) as E.
  unfold step_new in H. rewrite (resize_ref_is_resize _ _ _ _ _ _ E) in H.
  destruct (resize_tracks_lemma st i a vb n v st1 W Hs H) as [a' [vb' [S1 [_ [_ I]]]]].
  unfold elems, observe_slot. rewrite S1. cbn [slot_arr option_map o_elems]. rewrite I. reflexivity.
Qed.

Theorem resize_ref_reach : forall st i a vb n j idx e v st1, reachable st ->
  slot_at st i = SOwned a vb -> elems st j = Some e -> nth_error e idx = Some (RVal v) ->
  step_new st (ResizeRef i n j idx) = Some st1 ->
  elems st1 i = Some (map RVal (firstn n (vec_cells st vb) ++ repeat v (n - length (vec_cells st vb)))).
Proof. intros st i a vb n j idx e v st1 R. apply resize_ref_lemma. apply reach_wf; exact R. Qed.
Print Assumptions resize_ref_reach.

(* ------------------------------------------------------------ accessors return locations of the source *)
(* a view built over source container k: the location of its element j IS cell j of the container's buffer *)
Lemma view_location_lemma st i k st1 b :
  step_new st (FromSrc i KView k) = Some st1 -> nth_error (srcs st) k = Some (Some b) ->
  exists a, slot_at st1 i = SView a /\ forall j, j < a_len a -> arr_loc a j = Some (b, j).
Proof.
  unfold step_new. cbn [step]. unfold whole, src_buf. intros H Hs. rewrite Hs in H.
  destruct (nth_error (heap st) b) as [bu|] eqn:Hb; [|discriminate].
  destruct (b_alive bu); [|discriminate].
  unfold build in H. destruct (slot_free st i) eqn:Hf; [|discriminate].
  injection H as <-. exists (set_ptr (Some (b, 0)) (length (b_cells bu))). split.
  - apply slot_at_set. unfold slot_free, slot_in_range in Hf. apply andb_true_iff in Hf as [Hf _].
    apply Nat.ltb_lt in Hf. exact Hf.
  - intros j Hj. unfold set_ptr in *. cbn [a_len] in Hj. unfold arr_loc. cbn [a_ptr].
    destruct (Nat.eqb (length (b_cells bu)) 0) eqn:E; [apply Nat.eqb_eq in E; lia|]. reflexivity.
Qed.

(* a write to element j of the source container is seen through a reference held to that location *)
Lemma held_reference_follows_source st k j v st2 b :
  step_new st (SrcWrite k j v) = Some st2 -> nth_error (srcs st) k = Some (Some b) ->
  read_loc (heap st2) (Some (b, j)) = RVal v.
Proof.
  unfold step_new. cbn [step]. unfold src_buf. intros H Hs. rewrite Hs in H.
  destruct (nth_error (heap st) b) as [bu|] eqn:Hb; [|discriminate].
  destruct (b_alive bu) eqn:Ha; [|discriminate].
  destruct (j <? length (b_cells bu)) eqn:Hj; [|discriminate]. apply Nat.ltb_lt in Hj.
  injection H as <-. unfold read_loc, read_cell. cbn [heap with_heap].
  unfold hset. rewrite nth_error_hmod. rewrite Nat.eqb_refl. rewrite Hb. cbn [option_map].
  unfold b_alive in *. cbn [b_rc b_cells]. rewrite Ha. rewrite Nat.add_0_r.
  rewrite nth_error_upd_eq by exact Hj. reflexivity.
Qed.
Print Assumptions view_location_lemma.
Print Assumptions held_reference_follows_source.
