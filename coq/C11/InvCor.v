(* C11 — consequences of WF: the invariant in its element-wise form, and the array invariant. *)
From Common Require Import Prelude.
From C11 Require Import Model Lists Proofs Inv Inv2 Inv3 Inv4 Inv5 Inv6.

(* ------------------------------------------------------------ WF, element-wise *)
Lemma wf_rc_buf st b bu : WF st -> nth_error (heap st) b = Some bu -> b_rc bu = refs_buf st b.
Proof. intros W H. rewrite <- (wf_rc st W b). symmetry. apply rc_of_some. exact H. Qed.
Lemma wf_rc_fobj st f fo : WF st -> nth_error (fobjs st) f = Some fo -> fo_rc fo = refs_fobj st f.
Proof. intros W H. rewrite <- (wf_frc st W f). symmetry. apply frc_of_some. exact H. Qed.
Lemma wf_range_buf st b : WF st -> length (heap st) <= b -> refs_buf st b = 0.
Proof. intros W H. rewrite <- (wf_rc st W b). apply rc_of_out. exact H. Qed.
Lemma wf_range_fobj st f : WF st -> length (fobjs st) <= f -> refs_fobj st f = 0.
Proof. intros W H. rewrite <- (wf_frc st W f). apply frc_of_out. exact H. Qed.
Lemma wf_excl_src st k b : WF st -> nth_error (srcs st) k = Some (Some b) -> refs_buf st b = 1.
Proof.
  intros W H. apply (wf_xb st W). unfold xrefs.
  pose proof (csum_ge1 (w_opt b) (srcs st) k _ H) as G. cbn in G. rewrite Nat.eqb_refl in G. lia.
Qed.
Lemma wf_excl_owned st i a b : WF st -> nth_error (slots st) i = Some (SOwned a (Some b)) -> refs_buf st b = 1.
Proof.
  intros W H. apply (wf_xb st W). unfold xrefs.
  pose proof (csum_ge1 (w_slot_buf b) (slots st) i _ H) as G. cbn in G. rewrite Nat.eqb_refl in G. lia.
Qed.
Lemma wf_excl_fixed st i f : WF st -> nth_error (slots st) i = Some (SFixed f) -> refs_fobj st f = 1.
Proof.
  intros W H. apply (wf_xf st W). unfold xfix.
  pose proof (csum_ge1 (w_slot_fix f) (slots st) i _ H) as G. cbn in G. rewrite Nat.eqb_refl in G. lia.
Qed.
Lemma wf_owned_arr st i a vb : WF st -> nth_error (slots st) i = Some (SOwned a vb) -> a = vec_arr st vb.
Proof.
  intros W H. pose proof (wf_slot st W _ _ H) as S. destruct vb as [b|]; simpl in S; auto.
  destruct S as [n [S1 S2]]. rewrite (vec_arr_len _ _ _ S1). exact S2.
Qed.
Lemma wf_fview_none st i a : WF st -> nth_error (slots st) i = Some (SFView a None) -> a = null_arr.
Proof. intros W H. exact (wf_slot st W _ _ H). Qed.
Lemma len_of_inv h b n : len_of h b = Some n -> exists bu, nth_error h b = Some bu /\ length (b_cells bu) = n.
Proof. unfold len_of. destruct (nth_error h b) as [bu|]; [|discriminate]. intro H. inversion H. eauto. Qed.
Lemma wf_fview_some st i a g : WF st -> nth_error (slots st) i = Some (SFView a (Some g)) ->
  (a_ptr a = None <-> a_len a = 0) /\
  exists fo, nth_error (fobjs st) g = Some fo /\
    forall b off, a_ptr a = Some (b, off) ->
      fo_own fo = Some b /\ exists bu, nth_error (heap st) b = Some bu /\ off + a_len a <= length (b_cells bu).
Proof.
  intros W H. pose proof (wf_slot st W _ _ H) as S. simpl in S. destruct S as [S1 [[o S2] S3]].
  split; [exact S1|]. unfold own_of in *. destruct (nth_error (fobjs st) g) as [fo|] eqn:E; [|discriminate].
  exists fo. split; auto. intros b off Hp. destruct (S3 b off Hp) as [P1 [n [P2 P3]]].
  inversion P1 as [P1']. split; auto. apply len_of_inv in P2. destruct P2 as [bu [Q1 Q2]]. exists bu. split; [auto | lia].
Qed.
Lemma wf_fobj_shape st f fo : WF st -> nth_error (fobjs st) f = Some fo -> fo_live fo = true ->
  fo_arr fo = null_arr \/
  exists b bu, fo_own fo = Some b /\ nth_error (heap st) b = Some bu /\
               fo_arr fo = set_ptr (Some (b, 0)) (length (b_cells bu)).
Proof.
  intros W H L. destruct (wf_fobj st W _ _ H L) as [A|[b [n [A [B C]]]]]; [left; auto|].
  right. apply len_of_inv in B. destruct B as [bu [Q1 Q2]]. exists b, bu. subst n. auto.
Qed.

(* ------------------------------------------------------------ the array invariant *)
Lemma read_ok h b off j m : len_of h b = Some m -> rc_of h b <> 0 -> off + j < m ->
  exists v, read_cell h (Some (b, off)) j = RVal v.
Proof.
  intros Hl Hr Hj. apply len_of_inv in Hl. destruct Hl as [bu [Q1 Q2]].
  exists (nth (off + j) (b_cells bu) 0%N). apply read_cell_live; auto; [|lia].
  unfold b_alive. rewrite (rc_of_some _ _ _ Q1) in Hr. destruct (Nat.eqb_spec (b_rc bu) 0); [contradiction | reflexivity].
Qed.

Lemma live_fobj_buf st g fo b : WF st -> nth_error (fobjs st) g = Some fo -> fo_rc fo <> 0 -> fo_own fo = Some b ->
  rc_of (heap st) b <> 0.
Proof.
  intros W H L O. rewrite (wf_rc st W b). unfold refs_buf.
  pose proof (csum_ge1 (w_fobj b) (fobjs st) g _ H) as G.
  assert (Wf : w_fobj b fo = 1).
  { unfold w_fobj, fo_live. destruct (Nat.eqb_spec (fo_rc fo) 0); [contradiction|]. cbn [negb].
    rewrite O. cbn. rewrite Nat.eqb_refl. reflexivity. }
  rewrite Wf in G. lia.
Qed.

Lemma array_inv_wf st i s a : WF st ->
  nth_error (slots st) i = Some s -> slot_arr st s = Some a ->
  (a_ptr a = None <-> a_len a = 0) /\
  (match s with SView _ => True | _ => forall j, j < a_len a -> exists v, arr_index (heap st) a j = RVal v end).
Proof.
  intros W Hs Ha. pose proof (wf_slot st W _ _ Hs) as S. destruct s as [|a0|a0 vb|f|a0 g]; simpl in Ha.
  - discriminate.
  - inversion Ha; subst a0. split; [exact S | exact I].
  - inversion Ha; subst a0. destruct vb as [b|]; simpl in S.
    + destruct S as [n [S1 S2]]. subst a. split.
      * apply null_iff_set_ptr. discriminate.
      * intros j Hj. unfold arr_index, set_ptr in *. cbn [a_ptr a_len] in *.
        destruct (Nat.eqb_spec n 0); [lia|]. eapply read_ok; eauto.
        rewrite (wf_rc st W b). pose proof (wf_excl_owned st i _ b W Hs). lia.
    + subst a. split; [apply null_iff_null|]. cbn. intros; lia.
  - destruct (nth_error (fobjs st) f) as [fo|] eqn:Ef; [|discriminate]. inversion Ha; subst a.
    pose proof (wf_excl_fixed st i f W Hs) as X. rewrite <- (wf_rc_fobj st f fo W Ef) in X.
    assert (L : fo_live fo = true) by (unfold fo_live; rewrite X; reflexivity).
    destruct (wf_fobj st W _ _ Ef L) as [A|[b [n [A [B C]]]]].
    + rewrite A. split; [apply null_iff_null|]. cbn. intros; lia.
    + rewrite C. split.
      * apply null_iff_set_ptr. discriminate.
      * intros j Hj. unfold arr_index, set_ptr in *. cbn [a_ptr a_len] in *.
        destruct (Nat.eqb_spec n 0); [lia|]. eapply read_ok; eauto.
        eapply live_fobj_buf; eauto. lia.
  - inversion Ha; subst a0. destruct g as [g|]; simpl in S.
    + destruct S as [S1 [[o S2] S3]]. split; [exact S1|]. intros j Hj.
      destruct (a_ptr a) as [[b off]|] eqn:Ep.
      * destruct (S3 b off eq_refl) as [P1 [n [P2 P3]]].
        unfold arr_index. rewrite Ep. eapply read_ok; eauto; [|lia].
        destruct (fobj_ref (slots st) (fobjs st) i _ g (wf_frc st W) Hs) as [fo [Ef Hge]];
          [cbn; rewrite Nat.eqb_refl; reflexivity|].
        rewrite (own_of_some _ _ _ Ef) in P1. inversion P1.
        eapply live_fobj_buf; eauto. lia.
      * destruct S1 as [S1 _]. specialize (S1 Ep). lia.
    + subst a. split; [apply null_iff_null|]. cbn. intros; lia.
Qed.

Lemma array_inv_lemma : forall ns nk ops i s a,
  let st := run_new (init ns nk) ops in
  nth_error (slots st) i = Some s -> slot_arr st s = Some a ->
  (a_ptr a = None <-> a_len a = 0) /\
  (match s with SView _ => True | _ => forall j, j < a_len a -> exists v, arr_index (heap st) a j = RVal v end).
Proof. intros ns nk ops i s a st. apply array_inv_wf. apply wf_run. Qed.
Print Assumptions array_inv_lemma.
