(* C11 — proofs: local facts about AbstractArray's accessors and DataView. *)
From Common Require Import Prelude.
From C11 Require Import Model Lists.

(* ------------------------------------------------------------ at / iteration *)
Lemma at_throws_iff h a i : arr_at h a i = OThrow <-> a_len a <= i.
Proof.
  unfold arr_at. destruct (a_len a <=? i) eqn:E.
  - apply Nat.leb_le in E. tauto.
  - apply Nat.leb_gt in E. split; [discriminate | lia].
Qed.

Lemma at_ok_iff_lemma h a i : (exists r, arr_at h a i = ORet r) <-> i < a_len a.
Proof.
  unfold arr_at. destruct (a_len a <=? i) eqn:E.
  - apply Nat.leb_le in E. split; [intros [r H]; discriminate | lia].
  - apply Nat.leb_gt in E. split; [auto | eauto].
Qed.

Lemma at_is_index h a i : i < a_len a -> arr_at h a i = ORet (arr_index h a i).
Proof. intro H. unfold arr_at. apply Nat.leb_gt in H. rewrite H. reflexivity. Qed.

Lemma iter_length h a : length (arr_iter h a) = a_len a.
Proof. unfold arr_iter. rewrite map_length, seq_length. reflexivity. Qed.

Lemma iter_nth h a i : i < a_len a -> nth_error (arr_iter h a) i = Some (arr_index h a i).
Proof.
  intro H. unfold arr_iter. rewrite nth_error_map.
  rewrite (nth_error_nth' _ 0) by (rewrite seq_length; exact H).
  rewrite seq_nth by exact H. reflexivity.
Qed.

Lemma iter_beyond h a i : a_len a <= i -> nth_error (arr_iter h a) i = None.
Proof. intro H. apply nth_error_None. rewrite iter_length. exact H. Qed.

(* reading a live range *)
Lemma read_cell_live h b off i bu :
  nth_error h b = Some bu -> b_alive bu = true -> off + i < length (b_cells bu) ->
  read_cell h (Some (b, off)) i = RVal (nth (off + i) (b_cells bu) 0%N).
Proof.
  intros Hb Ha Hi. unfold read_cell. rewrite Hb, Ha.
  rewrite (nth_error_nth' _ 0%N) by exact Hi. reflexivity.
Qed.

Lemma skipn_S_cons {A} (l : list A) off x t : skipn off l = x :: t -> skipn (S off) l = t.
Proof.
  revert l; induction off as [|off IH]; intros l H.
  - simpl in H. subst. reflexivity.
  - destruct l as [|y l]; [discriminate|]. simpl in H. apply IH in H. exact H.
Qed.

Lemma map_seq_nth {A} (d : A) (l : list A) off n :
  off + n <= length l -> map (fun j => nth (off + j) l d) (seq 0 n) = firstn n (skipn off l).
Proof.
  revert off l. induction n as [|n IH]; intros off l H; simpl; auto.
  destruct (skipn off l) as [|x t] eqn:E.
  - assert (length (skipn off l) = 0) by (rewrite E; reflexivity). rewrite skipn_length in H0. lia.
  - f_equal.
    + rewrite Nat.add_0_r. rewrite <- (firstn_skipn off l) at 1. rewrite E.
      rewrite app_nth2; rewrite firstn_length_le by lia; [rewrite Nat.sub_diag; reflexivity | lia].
    + rewrite <- seq_shift, map_map.
      assert (T : t = skipn (S off) l).
      { symmetry. apply (skipn_S_cons _ _ _ _ E). }
      rewrite T. rewrite <- IH by lia. apply map_ext. intro j. f_equal. lia.
Qed.

Lemma iter_live h b off n bu :
  nth_error h b = Some bu -> b_alive bu = true -> off + n <= length (b_cells bu) ->
  arr_iter h {| a_ptr := Some (b, off); a_len := n |} = map RVal (firstn n (skipn off (b_cells bu))).
Proof.
  intros Hb Ha Hn. unfold arr_iter, arr_index. simpl.
  rewrite <- (map_seq_nth 0%N) by exact Hn. rewrite map_map.
  apply map_ext_in. intros j Hj. apply in_seq in Hj.
  apply read_cell_live; auto. lia.
Qed.

(* ------------------------------------------------------------------ DataView *)
Lemma dv_index_live h b off stride sz i bu :
  nth_error h b = Some bu -> b_alive bu = true ->
  off + i * stride + sz <= length (b_cells bu) ->
  dv_index h {| d_ptr := Some (b, off); d_stride := stride |} sz i
  = map RVal (firstn sz (skipn (off + i * stride) (b_cells bu))).
Proof.
  intros Hb Ha Hn. unfold dv_index. simpl.
  rewrite <- (map_seq_nth 0%N) by exact Hn. rewrite map_map.
  apply map_ext_in. intros j Hj. apply in_seq in Hj.
  rewrite Nat.add_assoc. rewrite <- Nat.add_assoc with (n := off). rewrite Nat.add_assoc.
  apply read_cell_live; auto. lia.
Qed.

Lemma dv_index_length h d sz i : length (dv_index h d sz i) = sz.
Proof. unfold dv_index. rewrite map_length, seq_length. reflexivity. Qed.

(* ------------------------------------------------------------ statements as used by Properties.v *)
Lemma at_ok_iff_all h a i :
  ((exists r, arr_at h a i = ORet r) <-> i < a_len a) /\
  (arr_at h a i = OThrow <-> a_len a <= i) /\
  (i < a_len a -> arr_at h a i = ORet (arr_index h a i)).
Proof. split; [apply at_ok_iff_lemma | split; [apply at_throws_iff | apply at_is_index]]. Qed.

Lemma iteration_exact_all h a :
  length (arr_iter h a) = a_len a /\
  (forall i, i < a_len a -> nth_error (arr_iter h a) i = Some (arr_index h a i)) /\
  (forall i, a_len a <= i -> nth_error (arr_iter h a) i = None).
Proof. split; [apply iter_length | split; intro i; [apply iter_nth | apply iter_beyond]]. Qed.

(* the code before the repairs: concrete histories after which an owning wrapper reads freed storage *)
Lemma ownedarray_copy_refuted_witness :
  exists ops i o, nth_error (observe (run_old_owned (init 4 3) ops)) i = Some (Some o) /\
                  o_kind o = KOwned /\ In RDangling (o_elems o).
Proof.
  exists [SrcSet 0 [1;2;3]%N; FromSrc 0 KOwned 0; CopyCtor 1 0; Destroy 0], 1.
  eexists. vm_compute. split; [reflexivity | split; [reflexivity | left; reflexivity]].
Qed.

Lemma fixedarrayview_reassign_refuted_witness :
  exists ops i o, nth_error (observe (run_old_fview (init 4 3) ops)) i = Some (Some o) /\
                  o_kind o = KFView /\ In RDangling (o_elems o).
Proof.
  exists [SrcSet 0 [1;2;3]%N; SrcSet 1 [7;8]%N; FromSrc 0 KFixed 0; MkFView 1 0 1 2; AssignSrc 0 1], 1.
  eexists. vm_compute. split; [reflexivity | split; [reflexivity | left; reflexivity]].
Qed.

(* ------------------------------------------------------------ accessors return the source cell *)
Lemma read_cell_shift h p b off i j : p = Some (b, off) -> read_cell h (Some (b, off + i)) j = read_cell h p (i + j).
Proof. intro E. subst p. unfold read_cell. rewrite Nat.add_assoc. reflexivity. Qed.

(* operator[](i), at(i), *(begin()+i), *(data()+i) denote the SAME location arr_loc a i = cell off+i of the designated
   buffer, whatever the heap holds: the location depends on the wrapper only (it is stable across any number of further
   accessor calls, which change nothing), and reading through a reference held to it in ANY later heap h' gives what
   operator[](i) gives in h' (the reference follows the source) *)
Lemma accessor_loc_lemma a i :
  (forall h, arr_index h a i = read_loc h (arr_loc a i)) /\
  (forall h, i < a_len a -> arr_at h a i = ORet (read_loc h (arr_loc a i))) /\
  (forall h, i < a_len a -> nth_error (arr_iter h a) i = Some (read_loc h (arr_loc a i))) /\
  (forall off b, a_ptr a = Some (b, off) -> arr_loc a i = Some (b, off + i)) /\
  (a_ptr a = None -> arr_loc a i = None).
Proof.
  assert (E : forall h, arr_index h a i = read_loc h (arr_loc a i)).
  { intro h. unfold arr_index, read_loc, arr_loc. destruct (a_ptr a) as [[b off]|] eqn:P; [|reflexivity].
    rewrite (read_cell_shift h (Some (b, off)) b off i 0 eq_refl). rewrite Nat.add_0_r. reflexivity. }
  split; [exact E|]. split.
  - intros h L. rewrite at_is_index by exact L. rewrite E. reflexivity.
  - split.
    + intros h L. rewrite iter_nth by exact L. rewrite E. reflexivity.
    + split.
      * intros off b P. unfold arr_loc. rewrite P. reflexivity.
      * intro P. unfold arr_loc. rewrite P. reflexivity.
Qed.

(* DataView::operator[](i) returns the location of byte i*stride of the wrapped range; the sizeof(T) bytes read are the
   ones at that location, in any heap *)
Lemma dv_loc_lemma d sz i :
  (forall h, dv_index h d sz i = map (fun j => read_cell h (dv_loc d i) j) (seq 0 sz)) /\
  (forall b off, d_ptr d = Some (b, off) -> dv_loc d i = Some (b, off + i * d_stride d)).
Proof.
  split.
  - intro h. unfold dv_index, dv_loc. destruct (d_ptr d) as [[b off]|] eqn:P; [|reflexivity].
    apply map_ext. intro j. symmetry. apply (read_cell_shift h (Some (b, off)) b off (i * d_stride d) j eq_refl).
  - intros b off P. unfold dv_loc. rewrite P. reflexivity.
Qed.
