(* C11 — WF preservation, continued: copy assignment, move assignment, FixedArrayView construction. *)
From Common Require Import Prelude.
From C11 Require Import Model Lists Proofs Inv Inv2 Inv3.

Lemma wf_copy_assign_fixed st i j fi fj foi foj st' : WF st -> i <> j ->
  nth_error (slots st) i = Some (SFixed fi) -> nth_error (slots st) j = Some (SFixed fj) ->
  nth_error (fobjs st) fi = Some foi -> nth_error (fobjs st) fj = Some foj ->
  (let st1 := acquire_buf st (fo_own foj) in
   let st2 := release_buf st1 (fo_own foi) in
   Some (with_fobjs st2 (upd fi {| fo_arr := fo_arr foj; fo_own := fo_own foj; fo_rc := fo_rc foi |} (fobjs st2)))) = Some st' ->
  WF st'.
Proof.
  intros W Nij Hi Hj Efi Efj H. wf_open st W.
  destruct (fixed_sole sl fs i fi Hfrc Hxf Hi) as [Si1 [Si2 Si3]].
  destruct (fixed_sole sl fs j fj Hfrc Hxf Hj) as [Sj1 [Sj2 Sj3]].
  rewrite (frc_of_some _ _ _ Efi) in Si2. rewrite (frc_of_some _ _ _ Efj) in Sj2.
  assert (Lj : fo_live foj = true) by (unfold fo_live; rewrite Sj2; reflexivity).
  assert (Wj := fun b => w_fobj_live_ge b foj fs fj Efj).
  assert (Ro := rc_of_out h).
  assert (SH : forall h', len_mono h h' ->
     (forall k s, nth_error sl k = Some s ->
        slot_ok h' (upd fi {| fo_arr := fo_arr foj; fo_own := fo_own foj; fo_rc := fo_rc foi |} fs) s) /\
     (forall f' fo', nth_error (upd fi {| fo_arr := fo_arr foj; fo_own := fo_own foj; fo_rc := fo_rc foi |} fs) f' = Some fo' ->
        fobj_ok h' fo')).
  { intros h' Hm. split.
    - intros k s Hs. eapply slot_ok_mono_f with (fx := fi); [eapply Hsl; eauto | exact Hm | |].
      + intros g o Hg. rewrite (own_of_upd _ _ _ _ _ Efi). destruct (Nat.eqb_spec fi g); congruence.
      + intros a E. subst s. eapply Si3; eauto.
    - intros f' fo' Hf'. rewrite nth_error_upd in Hf'. destruct (Nat.eqb_spec fi f').
      + subst f'. rewrite Efi in Hf'. inversion Hf'; subst fo'.
        eapply fobj_ok_rc; [eapply fobj_ok_mono; [eapply Hfo; eauto | exact Hm] | exact Lj | reflexivity | reflexivity].
      + eapply fobj_ok_mono; [eapply Hfo; eauto | exact Hm]. }
  destruct (fo_own foj) as [bj|] eqn:Eoj; destruct (fo_own foi) as [bi|] eqn:Eoi;
    scbn_in H; inversion H; subst st'; clear H; wf_split.
  - pose proof (Wj bj). pose proof (Hrc bj). pose proof (Ro bj). cnt_b Hrc Hxb h.
  - intro f'. rewrite (frc_of_upd _ _ _ _ _ Efi). pose proof (Hfrc f'). pose proof (frc_of_some _ _ _ Efi). wfin2.
  - pose proof (Wj bj). cnt_b Hrc Hxb h.
  - exact Hxf.
  - apply SH. lm.
  - apply SH. lm.
  - pose proof (Wj bj). pose proof (Hrc bj). pose proof (Ro bj). cnt_b Hrc Hxb h.
  - intro f'. rewrite (frc_of_upd _ _ _ _ _ Efi). pose proof (Hfrc f'). pose proof (frc_of_some _ _ _ Efi). wfin2.
  - pose proof (Wj bj). cnt_b Hrc Hxb h.
  - exact Hxf.
  - apply SH. lm.
  - apply SH. lm.
  - cnt_b Hrc Hxb h.
  - intro f'. rewrite (frc_of_upd _ _ _ _ _ Efi). pose proof (Hfrc f'). pose proof (frc_of_some _ _ _ Efi). wfin2.
  - cnt_b Hrc Hxb h.
  - exact Hxf.
  - apply SH. lm.
  - apply SH. lm.
  - cnt_b Hrc Hxb h.
  - intro f'. rewrite (frc_of_upd _ _ _ _ _ Efi). pose proof (Hfrc f'). pose proof (frc_of_some _ _ _ Efi). wfin2.
  - cnt_b Hrc Hxb h.
  - exact Hxf.
  - apply SH. lm.
  - apply SH. lm.
Qed.

(* ------------------------------------------------------------ FixedArrayView = FixedArrayView *)
Lemma upd_upd {A} i (x y : A) l : upd i x (upd i y l) = upd i x l.
Proof. revert i; induction l as [|z l IH]; intros [|i]; simpl; auto. f_equal. apply IH. Qed.
Lemma upd_same {A} i (x : A) l : nth_error l i = Some x -> upd i x l = l.
Proof.
  revert i; induction l as [|z l IH]; intros [|i] H; simpl in *; try discriminate.
  - inversion H; reflexivity.
  - f_equal. apply IH; auto.
Qed.

Lemma release_acquire_same st g fo : nth_error (fobjs st) g = Some fo -> 1 <= fo_rc fo ->
  release_fobj (acquire_fobj st (Some g)) (Some g) = st.
Proof.
  intros Ef Hge. unfold acquire_fobj. rewrite Ef. unfold release_fobj. cbn [fobjs with_fobjs].
  rewrite nth_error_upd_eq by (eapply nth_error_lt; eauto). cbn [fo_rc fo_arr fo_own].
  destruct (fo_rc fo) as [|r] eqn:R; [lia|]. cbn [Nat.eqb Nat.pred].
  rewrite upd_upd. destruct st as [h fs sl sr]. unfold with_fobjs. cbn [heap fobjs slots srcs] in *.
  f_equal. apply upd_same. rewrite Ef. destruct fo as [a o r']. cbn in *. subst r'. reflexivity.
Qed.

Definition rc_only (fs fs' : list fobj) :=
  forall f fo', nth_error fs' f = Some fo' ->
    exists fo, nth_error fs f = Some fo /\ fo_arr fo' = fo_arr fo /\ fo_own fo' = fo_own fo /\
               (fo_live fo' = true -> fo_live fo = true).
Lemma rc_only_refl fs : rc_only fs fs.
Proof. intros f fo H. exists fo. auto. Qed.
Lemma rc_only_trans a b c : rc_only a b -> rc_only b c -> rc_only a c.
Proof.
  intros A B f fo3 H. destruct (B f fo3 H) as [fo2 [H2 [P1 [P2 P3]]]].
  destruct (A f fo2 H2) as [fo1 [H1 [Q1 [Q2 Q3]]]]. exists fo1. repeat split; try congruence. auto.
Qed.
Lemma rc_only_upd fs g fo r : nth_error fs g = Some fo -> (r <> 0 -> fo_rc fo <> 0) ->
  rc_only fs (upd g {| fo_arr := fo_arr fo; fo_own := fo_own fo; fo_rc := r |} fs).
Proof.
  intros Ef Hr f fo' H. rewrite nth_error_upd in H. destruct (Nat.eqb_spec g f).
  - subst f. rewrite Ef in H. inversion H; subst fo'. exists fo. repeat split; auto.
    unfold fo_live. cbn [fo_rc]. destruct (Nat.eqb_spec r 0); [discriminate|].
    destruct (Nat.eqb_spec (fo_rc fo) 0); auto. exfalso. apply Hr; auto.
  - exists fo'. auto.
Qed.
Lemma rc_only_own_mono fs fs' : length fs <= length fs' -> rc_only fs fs' -> own_mono fs fs'.
Proof.
  intros Hl H g o Hg. unfold own_of in *. destruct (nth_error fs g) as [fo|] eqn:E; [|discriminate].
  destruct (nth_error fs' g) as [fo'|] eqn:E'.
  - destruct (H g fo' E') as [fo0 [H0 [_ [P _]]]]. rewrite E in H0. inversion H0; subst. congruence.
  - apply nth_error_None in E'. apply nth_error_lt in E. lia.
Qed.
Lemma rc_only_fobjs h h' fs fs' :
  (forall f fo, nth_error fs f = Some fo -> fobj_ok h fo) -> len_mono h h' -> rc_only fs fs' ->
  (forall f fo, nth_error fs' f = Some fo -> fobj_ok h' fo).
Proof.
  intros Hfo Hm Hr f fo' H. destruct (Hr f fo' H) as [fo [H0 [P1 [P2 P3]]]].
  intro L. rewrite P1, P2. eapply fobj_ok_mono; [eapply Hfo; eauto | exact Hm | auto].
Qed.
