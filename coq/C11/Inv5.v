(* C11 — WF preservation, continued: FixedArrayView copy assignment. *)
From Common Require Import Prelude.
From C11 Require Import Model Lists Proofs Inv Inv2 Inv3 Inv4.

Ltac frc_f Hfrc Hxf fs sl :=
  let f := fresh "f" in
  intro f; repeat (erewrite frc_of_upd by eassumption); pose_csum; pose proof (fix_le_fobj sl f);
  pose proof (Hfrc f); pose proof (Hxf f);
  repeat match goal with Ef : nth_error fs ?g = Some ?fo |- _ => pose proof (frc_of_some _ _ _ Ef); revert Ef end; intros;
  wfin2.

Lemma wf_copy_assign_fview st i j ai fi aj fj st' : WF st -> i <> j ->
  nth_error (slots st) i = Some (SFView ai fi) -> nth_error (slots st) j = Some (SFView aj fj) ->
  Some (set_slot (release_fobj (acquire_fobj st fj) fi) i (SFView aj fj)) = Some st' -> WF st'.
Proof.
  intros W Nij Hi Hj H. wf_open st W.
  assert (SH : forall h' fs', len_mono h h' -> rc_only fs fs' -> length fs <= length fs' ->
     (forall k s, nth_error (upd i (SFView aj fj) sl) k = Some s -> slot_ok h' fs' s) /\
     (forall f fo, nth_error fs' f = Some fo -> fobj_ok h' fo)).
  { intros h' fs' Hm Hr Hl. pose proof (rc_only_own_mono _ _ Hl Hr) as Ho. split.
    - intros k s Hs. rewrite nth_error_upd in Hs. destruct (Nat.eqb_spec i k).
      + subst k. rewrite Hi in Hs. inversion Hs; subst s. eapply slot_ok_mono; [eapply (Hsl _ _ Hj) | exact Hm | exact Ho].
      + eapply slot_ok_mono; [eapply Hsl; eauto | exact Hm | exact Ho].
    - eapply rc_only_fobjs; eauto. }
  destruct fj as [g|].
  - destruct (fobj_ref sl fs j _ g Hfrc Hj) as [fo [Ef Hge]]; [cbn; rewrite Nat.eqb_refl; reflexivity|].
    pose proof (fview_excl _ _ _ _ Hj) as FXj.
    destruct fi as [g'|]; [destruct (Nat.eqb_spec g' g) as [Egg|Ngg]|].
    + subst g'. rewrite (release_acquire_same {| heap := h; fobjs := fs; slots := sl; srcs := sr |} g fo Ef Hge) in H.
      scbn_in H; inversion H; subst st'; clear H; wf_split.
      * cnt_b Hrc Hxb h. * cnt_f Hfrc Hxf fs sl. * cnt_b Hrc Hxb h. * cnt_f Hfrc Hxf fs sl.
      * apply SH; [lm | apply rc_only_refl | lia].
      * apply SH; [lm | apply rc_only_refl | lia].
    + destruct (fobj_ref sl fs i _ g' Hfrc Hi) as [fo' [Ef' Hge']]; [cbn; rewrite Nat.eqb_refl; reflexivity|].
      pose proof (fview_excl _ _ _ _ Hi) as FXi.
      unfold acquire_fobj, release_fobj in H. cbn [fobjs with_fobjs] in H. rewrite Ef in H. cbn [fobjs with_fobjs] in H.
      rewrite nth_error_upd_neq in H by auto. rewrite Ef' in H.
      set (Y := {| fo_arr := fo_arr fo; fo_own := fo_own fo; fo_rc := S (fo_rc fo) |}) in *.
      assert (Ef1 : nth_error (upd g Y fs) g' = Some fo') by (rewrite nth_error_upd_neq; auto).
      assert (RO : rc_only fs (upd g' {| fo_arr := fo_arr fo'; fo_own := fo_own fo'; fo_rc := pred (fo_rc fo') |} (upd g Y fs))).
      { eapply rc_only_trans; [apply rc_only_upd; [exact Ef | lia] | apply rc_only_upd; [exact Ef1 | lia]]. }
      assert (LE : length fs <= length (upd g' {| fo_arr := fo_arr fo'; fo_own := fo_own fo'; fo_rc := pred (fo_rc fo') |} (upd g Y fs)))
        by (rewrite !upd_length; lia).
      destruct (Nat.eqb_spec (fo_rc fo') 1) as [R|R]; destruct (fo_own fo') as [b0|] eqn:Eo;
        scbn_in H; inversion H; subst st'; clear H; wf_split; subst Y.
      * cnt_b Hrc Hxb h.
      * frc_f Hfrc Hxf fs sl.
      * cnt_b Hrc Hxb h.
      * cnt_f Hfrc Hxf fs sl.
      * apply SH; [lm | exact RO | exact LE].
      * apply SH; [lm | exact RO | exact LE].
      * cnt_b Hrc Hxb h.
      * frc_f Hfrc Hxf fs sl.
      * cnt_b Hrc Hxb h.
      * cnt_f Hfrc Hxf fs sl.
      * apply SH; [lm | exact RO | exact LE].
      * apply SH; [lm | exact RO | exact LE].
      * cnt_b Hrc Hxb h.
      * frc_f Hfrc Hxf fs sl.
      * cnt_b Hrc Hxb h.
      * cnt_f Hfrc Hxf fs sl.
      * apply SH; [lm | exact RO | exact LE].
      * apply SH; [lm | exact RO | exact LE].
      * cnt_b Hrc Hxb h.
      * frc_f Hfrc Hxf fs sl.
      * cnt_b Hrc Hxb h.
      * cnt_f Hfrc Hxf fs sl.
      * apply SH; [lm | exact RO | exact LE].
      * apply SH; [lm | exact RO | exact LE].
    + unfold acquire_fobj, release_fobj in H. cbn [fobjs with_fobjs] in H. rewrite Ef in H.
      assert (RO : rc_only fs (upd g {| fo_arr := fo_arr fo; fo_own := fo_own fo; fo_rc := S (fo_rc fo) |} fs))
        by (apply rc_only_upd; [exact Ef | lia]).
      scbn_in H; inversion H; subst st'; clear H; wf_split.
      * cnt_b Hrc Hxb h.
      * frc_f Hfrc Hxf fs sl.
      * cnt_b Hrc Hxb h.
      * cnt_f Hfrc Hxf fs sl.
      * apply SH; [lm | exact RO | rewrite upd_length; lia].
      * apply SH; [lm | exact RO | rewrite upd_length; lia].
  - unfold acquire_fobj in H. destruct fi as [g'|].
    + destruct (fobj_ref sl fs i _ g' Hfrc Hi) as [fo' [Ef' Hge']]; [cbn; rewrite Nat.eqb_refl; reflexivity|].
      pose proof (fview_excl _ _ _ _ Hi) as FXi.
      unfold release_fobj in H. cbn [fobjs with_fobjs] in H. rewrite Ef' in H.
      assert (RO : rc_only fs (upd g' {| fo_arr := fo_arr fo'; fo_own := fo_own fo'; fo_rc := pred (fo_rc fo') |} fs))
        by (apply rc_only_upd; [exact Ef' | lia]).
      destruct (Nat.eqb_spec (fo_rc fo') 1) as [R|R]; destruct (fo_own fo') as [b0|] eqn:Eo;
        scbn_in H; inversion H; subst st'; clear H; wf_split.
      * cnt_b Hrc Hxb h.
      * frc_f Hfrc Hxf fs sl.
      * cnt_b Hrc Hxb h.
      * cnt_f Hfrc Hxf fs sl.
      * apply SH; [lm | exact RO | rewrite upd_length; lia].
      * apply SH; [lm | exact RO | rewrite upd_length; lia].
      * cnt_b Hrc Hxb h.
      * frc_f Hfrc Hxf fs sl.
      * cnt_b Hrc Hxb h.
      * cnt_f Hfrc Hxf fs sl.
      * apply SH; [lm | exact RO | rewrite upd_length; lia].
      * apply SH; [lm | exact RO | rewrite upd_length; lia].
      * cnt_b Hrc Hxb h.
      * frc_f Hfrc Hxf fs sl.
      * cnt_b Hrc Hxb h.
      * cnt_f Hfrc Hxf fs sl.
      * apply SH; [lm | exact RO | rewrite upd_length; lia].
      * apply SH; [lm | exact RO | rewrite upd_length; lia].
      * cnt_b Hrc Hxb h.
      * frc_f Hfrc Hxf fs sl.
      * cnt_b Hrc Hxb h.
      * cnt_f Hfrc Hxf fs sl.
      * apply SH; [lm | exact RO | rewrite upd_length; lia].
      * apply SH; [lm | exact RO | rewrite upd_length; lia].
    + scbn_in H; inversion H; subst st'; clear H; wf_split.
      * cnt_b Hrc Hxb h. * cnt_f Hfrc Hxf fs sl. * cnt_b Hrc Hxb h. * cnt_f Hfrc Hxf fs sl.
      * apply SH; [lm | apply rc_only_refl | lia].
      * apply SH; [lm | apply rc_only_refl | lia].
Qed.
