(* C11 — the fact table generated from the working tree passes the check (vm_compute). *)
From Common Require Import Prelude.
From C11 Require Import Model FactsModel FactsCheck.
From C11.gen Require Import Facts.

Lemma facts_match_lemma : check gen_special gen_table gen_exprs = true.
Proof. vm_compute. reflexivity. Qed.
