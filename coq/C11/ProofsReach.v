(* C11 — the theorems of Properties.v, for every reachable state (WF holds there: Inv6.wf_run). *)
From Common Require Import Prelude.
From C11 Require Import Model Spec Lists Proofs Inv Inv6 InvCor InvStep.

Lemma reach_wf st : reachable st -> WF st.
Proof. intros [ns [nk [ops E]]]. subst st. apply wf_run. Qed.

Lemma reach_init ns nk : reachable (init ns nk).
Proof. exists ns, nk, []. reflexivity. Qed.

Lemma run_snoc st ops o : run_new st (ops ++ [o]) = step' true true (run_new st ops) o.
Proof. unfold run_new, run. rewrite fold_left_app. reflexivity. Qed.

Lemma reach_step st o st' : reachable st -> step_new st o = Some st' -> reachable st'.
Proof.
  intros [ns [nk [ops E]]] H. exists ns, nk, (ops ++ [o]). rewrite run_snoc, <- E.
  unfold step'. unfold step_new in H. rewrite H. reflexivity.
Qed.

Lemma array_inv_reach st i s a : reachable st ->
  nth_error (slots st) i = Some s -> slot_arr st s = Some a ->
  (a_ptr a = None <-> a_len a = 0) /\
  (match s with SView _ => True | _ => forall j, j < a_len a -> exists v, arr_index (heap st) a j = RVal v end).
Proof. intro R. apply array_inv_wf. apply reach_wf; exact R. Qed.

(* every element an owning wrapper yields by iteration / at() is a value *)
Lemma owning_elems_valid st i s o : reachable st ->
  nth_error (slots st) i = Some s -> observe_slot st s = Some o -> o_kind o <> KView ->
  length (o_elems o) = o_len o /\ (o_null o = true <-> o_len o = 0) /\
  (forall j, j < o_len o -> exists v, nth_error (o_elems o) j = Some (RVal v) /\ arr_at_slot st s j = Some (ORet (RVal v))) /\
  arr_at_slot st s (o_len o) = Some OThrow.
Proof.
  intros R Hs Ho Hk. unfold observe_slot in Ho. unfold arr_at_slot.
  destruct (slot_arr st s) as [a|] eqn:Ha; [|discriminate].
  inversion Ho; subst o; clear Ho. cbn [o_elems o_len o_null o_kind] in *.
  destruct (array_inv_reach st i s a R Hs Ha) as [Hn Hv].
  split; [apply iter_length|]. split.
  - unfold arr_is_null. destruct (a_ptr a) eqn:P.
    + split; [discriminate|]. intro L. apply Hn in L. discriminate.
    + split; [intros _; apply Hn; reflexivity | reflexivity].
  - split.
    + intros j Hj. assert (Hv' : forall j, j < a_len a -> exists v, arr_index (heap st) a j = RVal v).
      { destruct s; auto. exfalso. apply Hk. reflexivity. }
      destruct (Hv' j Hj) as [v Ev]. exists v. split.
      * rewrite iter_nth by exact Hj. rewrite Ev. reflexivity.
      * rewrite at_is_index by exact Hj. rewrite Ev. reflexivity.
    + f_equal. apply at_throws_iff. lia.
Qed.

Lemma refcounts_exact_reach st : reachable st ->
  (forall b bu, nth_error (heap st) b = Some bu -> b_rc bu = refs_buf st b) /\
  (forall f fo, nth_error (fobjs st) f = Some fo -> fo_rc fo = refs_fobj st f) /\
  (forall b, length (heap st) <= b -> refs_buf st b = 0) /\
  (forall f, length (fobjs st) <= f -> refs_fobj st f = 0).
Proof.
  intro R. apply reach_wf in R. repeat split.
  - intros b bu. apply wf_rc_buf; exact R.
  - intros f fo. apply wf_rc_fobj; exact R.
  - intro b. apply wf_range_buf; exact R.
  - intro f. apply wf_range_fobj; exact R.
Qed.

Lemma no_leak_reach st : reachable st ->
  (forall i s, nth_error (slots st) i = Some s -> s = SEmpty \/ exists a, s = SView a) ->
  (forall k o, nth_error (srcs st) k = Some o -> o = None) ->
  (forall b bu, nth_error (heap st) b = Some bu -> b_rc bu = 0) /\
  (forall f fo, nth_error (fobjs st) f = Some fo -> fo_rc fo = 0).
Proof. intro R. apply no_leak_lemma. apply reach_wf; exact R. Qed.

Lemma resize_tracks_reach st i a vb n v st1 : reachable st ->
  slot_at st i = SOwned a vb -> step_new st (Resize i n v) = Some st1 ->
  exists a' vb', slot_at st1 i = SOwned a' vb' /\ a' = vec_arr st1 vb' /\ a_len a' = n /\
    arr_iter (heap st1) a' = map RVal (firstn n (vec_cells st vb) ++ repeat v (n - length (vec_cells st vb))).
Proof. intro R. apply resize_tracks_lemma. apply reach_wf; exact R. Qed.

Lemma owned_independent_reach st i kd k st1 c : reachable st -> (kd = KOwned \/ kd = KFixed) ->
  step_new st (FromSrc i kd k) = Some st1 -> src_cells st k = Some c ->
  elems st1 i = Some (map RVal c) /\
  forall o st2, src_op k o -> step_new st1 o = Some st2 -> elems st2 i = Some (map RVal c).
Proof. intro R. apply owned_independent_lemma. apply reach_wf; exact R. Qed.

Lemma view_aliases_reach st i k j v st1 st2 : reachable st ->
  step_new st (FromSrc i KView k) = Some st1 -> step_new st1 (SrcWrite k j v) = Some st2 ->
  exists c2, src_cells st2 k = Some c2 /\ elems st2 i = Some (map RVal c2) /\ nth_error c2 j = Some v.
Proof. intro R. apply view_aliases_lemma. apply reach_wf; exact R. Qed.

Lemma owned_survives_copy_reach st i j e st1 st2 : reachable st ->
  (match slot_at st j with SOwned _ _ | SFixed _ => True | _ => False end) ->
  elems st j = Some e -> step_new st (CopyCtor i j) = Some st1 -> step_new st1 (Destroy j) = Some st2 ->
  elems st1 i = Some e /\ elems st2 i = Some e.
Proof. intro R. apply owned_survives_copy_lemma. apply reach_wf; exact R. Qed.

Lemma owned_survives_move_reach st i j a vb e st1 st2 : reachable st ->
  slot_at st j = SOwned a vb ->
  elems st j = Some e -> step_new st (MoveCtor i j) = Some st1 -> step_new st1 (Destroy j) = Some st2 ->
  elems st1 i = Some e /\ elems st2 i = Some e.
Proof. intro R. apply owned_survives_move_lemma. apply reach_wf; exact R. Qed.

Lemma owned_survives_fview_reach st i j f off n st1 e o st2 : reachable st ->
  slot_at st j = SFixed f -> elems st j = Some e -> step_new st (MkFView i j off n) = Some st1 ->
  fixed_kill j o -> step_new st1 o = Some st2 ->
  elems st1 i = Some (firstn n (skipn off e)) /\ elems st2 i = Some (firstn n (skipn off e)).
Proof. intro R. apply owned_survives_fview_lemma. apply reach_wf; exact R. Qed.
