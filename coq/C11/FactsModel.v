(* C11 — vocabulary of the source-derived fact table (gen/Facts.v, regenerated from the working tree by
   props/C11/factgen.py on every run) and the table Model.v assumes.  Definitions only.

   Three kinds of facts:
   (1) which special members each wrapper class has (user-provided / defaulted-or-implicit / none);
   (2) for every constructor and mutating member of ArrayView / OwnedArray / FixedArray / FixedArrayView the
       ordered list of micro-operations it performs on the members the model cares about (dataBuf, array,
       data, and the calls of AbstractArray::setPtr with their two arguments);
   (3) for AbstractArray's accessors, setPtr, at() and for DataView the expressions themselves
       (accessor calls inlined), as terms over the fields and parameters. *)
From Common Require Import Prelude.
From C11 Require Import Model.

(* ------------------------------------------------------------------ (1) special members *)
Inductive cls := CAbstract | CView | COwned | CFixed | CFView.
Inductive special := SCopyCtor | SMoveCtor | SCopyAssign | SMoveAssign | SDtor.
(* StUser: user-provided with a body; StMemberwise: implicit or "= default"; StNone: not declared (for a move:
   suppressed by the user-declared destructor, std::move(x) selects the copy); StDeleted *)
Inductive status := StUser | StMemberwise | StNone | StDeleted.

(* ------------------------------------------------------------------ (2) micro-operations *)
Inductive psym :=
| PNull          (* nullptr *)
| PArg           (* the argument's data: _data, rhs.data(), init.data() *)
| PBufData       (* dataBuf.data() *)
| PArrGet        (* array.get() *)
| PHeldBeginOff  (* data->begin() + offset  (the FixedArray the view holds; the argument shares its allocation) *)
| PUnknownP.
Inductive nsym :=
| NZero
| NArg           (* the argument's size: _size, rhs.size(), init.size(), the resize/size parameter *)
| NBufSize       (* dataBuf.size() *)
| NUnknownN.

Inductive member :=
| OA_CPtr | OA_CArr | OA_CVec | OA_Copy | OA_Move | OA_CopyA | OA_MoveA | OA_AArr | OA_AVec | OA_Reset | OA_ResetPtr | OA_Resize
| AV_CPtr | AV_CArr | AV_CVec | AV_Reset | AV_ResetPtr | AV_AArr | AV_AVec
| FA_CN | FA_CPtr | FA_CArr | FA_CVec | FA_AArr | FA_AVec
| FV_C.

Inductive mop :=
| MSetPtr (p : psym) (n : nsym)   (* AbstractArray<T>::setPtr(p, n) *)
| MBufRange          (* dataBuf := std::vector<T> built from the argument's elements (initialiser or assignment) *)
| MBufCopyOther      (* dataBuf := other.dataBuf  (copy) *)
| MBufMoveOther      (* dataBuf := std::move(other.dataBuf) *)
| MBufClear          (* dataBuf.clear() *)
| MBufShrink         (* dataBuf.shrink_to_fit() *)
| MBufResize         (* dataBuf.resize(size, val) *)
| MBufReserve        (* dataBuf.reserve(size)  (possibly under `if (size > dataBuf.capacity())`) *)
| MOtherReset        (* other.reset() *)
| MSelfReset         (* this->reset() *)
| MArrNew            (* array := std::shared_ptr<T>(new T[n], std::default_delete<T[]>()), n the size argument *)
| MMemcpy (guarded bytes_ok : bool)
                     (* memcpy(array.get(), argument data, n * sizeof(T)); guarded: under `data && n > 0` *)
| MDelegate (m : member)   (* delegating constructor *)
| MHoldCopy          (* data := std::make_shared<FixedArray<T>>( *_data)   (own FixedArray sharing the allocation) *)
| MHoldArg           (* data := _data                                     (the caller's FixedArray object) *)
| MIfNotSelf (body : list mop)   (* if (this != &other) { ... } *)
| MUnknown.          (* anything the extractor does not recognise: makes the check fail *)

(* ------------------------------------------------------------------ (3) expressions *)
Inductive var :=
| VPtr | VNumItems            (* AbstractArray's fields *)
| VOffset                     (* parameter of at() / operator[] *)
| VParamPtr | VParamN         (* parameters of setPtr / DataView(data, stride) / reset(data, stride) *)
| VDPtr | VDStride | VIndex   (* DataView's fields, parameter of operator[] *)
| VSizeofT.
Inductive term :=
| TVar (v : var) | TConst (n : nat) | TAdd (a b : term) | TMul (a b : term)
| TCond (g : guard) (a b : term)
| TUnknown
with guard :=
| GLt (a b : term) | GLe (a b : term) | GEq (a b : term)
| GNot (g : guard) | GAnd (g h : guard) | GOr (g h : guard)
| GUnknown.

Record exprfacts := {
  e_size : term; e_begin : term; e_end : term; e_data : term; e_cbegin : term; e_cend : term;
  e_index : term;                      (* operator[](offset) returns *(this) *)
  e_bool : guard;                      (* operator bool *)
  e_at_throw : guard; e_at_ret : term; (* at(offset): throws when ..., otherwise returns *(this) *)
  e_setptr_ptr : term; e_setptr_n : term;       (* what setPtr(ptr, numItems) stores *)
  e_dv_ctor_ptr : term; e_dv_ctor_stride : term; e_dv_reset_ptr : term; e_dv_reset_stride : term;
  e_dv_index : term                    (* DataView::operator[](index) returns *(const T* )(this) *)
}.

(* ------------------------------------------------------------------ what Model.v assumes *)
Definition model_special (c : cls) (s : special) : status :=
  match c, s with
  | _, SDtor => StMemberwise
  | COwned, _ => StUser                 (* the repair: op_copy_ctor / op_move_ctor / ... with ofix = true *)
  | _, (SCopyCtor | SCopyAssign) => StMemberwise
  | _, (SMoveCtor | SMoveAssign) => StNone   (* op_move_ctor / op_move_assign fall back to the copy *)
  end.

Definition model_table (m : member) : list mop :=
  match m with
  | OA_CPtr | OA_CArr | OA_CVec => [MBufRange; MSetPtr PBufData NBufSize]
  | OA_Copy => [MBufCopyOther; MSetPtr PBufData NBufSize]
  | OA_Move => [MBufMoveOther; MSetPtr PBufData NBufSize; MOtherReset]
  | OA_CopyA => [MIfNotSelf [MBufCopyOther; MSetPtr PBufData NBufSize]]
  | OA_MoveA => [MIfNotSelf [MBufMoveOther; MSetPtr PBufData NBufSize; MOtherReset]]
  | OA_AArr | OA_AVec | OA_ResetPtr => [MBufRange; MSetPtr PBufData NBufSize]
  | OA_Reset => [MBufClear; MBufShrink; MSetPtr PNull NZero]
  | OA_Resize => [MBufResize; MSetPtr PBufData NBufSize]
  | AV_CPtr | AV_CArr | AV_CVec | AV_ResetPtr | AV_AArr | AV_AVec => [MSetPtr PArg NArg]
  | AV_Reset => [MSetPtr PNull NZero]
  | FA_CN => [MArrNew; MSetPtr PArrGet NArg]
  | FA_CPtr => [MDelegate FA_CN; MMemcpy true true]
  | FA_CArr | FA_CVec => [MDelegate FA_CPtr]
  | FA_AArr | FA_AVec => [MArrNew; MSetPtr PArrGet NArg; MMemcpy true true]
  | FV_C => [MHoldCopy; MSetPtr PHeldBeginOff NArg]
  end.

Definition model_exprs : exprfacts := {|
  e_size := TVar VNumItems; e_begin := TVar VPtr; e_end := TAdd (TVar VPtr) (TVar VNumItems);
  e_data := TVar VPtr; e_cbegin := TVar VPtr; e_cend := TAdd (TVar VPtr) (TVar VNumItems);
  e_index := TAdd (TVar VPtr) (TVar VOffset);
  e_bool := GNot (GEq (TVar VNumItems) (TConst 0));
  e_at_throw := GLe (TVar VNumItems) (TVar VOffset); e_at_ret := TAdd (TVar VPtr) (TVar VOffset);
  e_setptr_ptr := TCond (GLt (TConst 0) (TVar VParamN)) (TVar VParamPtr) (TConst 0); e_setptr_n := TVar VParamN;
  e_dv_ctor_ptr := TVar VParamPtr; e_dv_ctor_stride := TVar VParamN;
  e_dv_reset_ptr := TVar VParamPtr; e_dv_reset_stride := TVar VParamN;
  e_dv_index := TAdd (TVar VDPtr) (TMul (TVar VIndex) (TVar VDStride))
|}.
