(* C18 - source-derived obligations.  gen/Facts.v is regenerated from the working tree's
   common.cpp, FileName.cpp, PseudoURL.cpp, StringManip.h, ArgumentList.h (clang JSON AST) by
   props/C18/factgen.py on every run.  The theorems tie what was extracted to the definitions of
   Model.v that the theorems of Properties.v are about.  Kept apart from Properties.v so that
   a broken fact does not take the hand theorems down. *)
From Common Require Import Prelude.
From Coq Require Import QArith Qabs.
From C18 Require Import Model FactsModel FactsCheck.
From C18.gen Require Import Facts.

(* the if-chain of prettyDouble as written in common.cpp - comparison direction, exact rational
   value of every float literal, divisor / multiplier and suffix character, in order - selects
   the branch pd_choice selects, for every input; it compares std::abs(val), scales val and ends
   in the plain "%f" branch *)
Theorem src_pretty_double_table :
  gen_pd_shape = true /\ forall v, table_choice gen_pd (Qabs v) = pd_choice v.
Proof. exact FactsCheck.src_pretty_double_table. Qed.
Print Assumptions src_pretty_double_table.

Theorem src_pretty_number_table :
  gen_pn_shape = true /\ forall s, table_choice gen_pn (inject_Z (Z.of_N (double_of_N s))) = pn_choice s.
Proof. exact FactsCheck.src_pretty_number_table. Qed.
Print Assumptions src_pretty_number_table.

(* tokenize's two tests (`fnd - prev > 0`, `size - prev > 0`) keep every non-empty field *)
Theorem src_tokenize_keeps_nonempty : tok_fact gen_tok_inner gen_tok_last.
Proof. exact FactsCheck.src_tokenize_keeps_nonempty. Qed.
Print Assumptions src_tokenize_keeps_nonempty.

(* ext / dropExt / name / setExt all test `dot == npos || dot < start` with start = the first
   character of the last component *)
Theorem src_filename_last_component :
  (gen_fn_ext = GLast /\ gen_fn_dropExt = GLast /\ gen_fn_name = GLast /\ gen_fn_setExt = GLast) /\
  forall f e, ext_by gen_fn_ext f = fn_ext f /\ dropExt_by gen_fn_dropExt f = fn_dropExt f /\
              name_by gen_fn_name f = fn_name f /\ setExt_by gen_fn_setExt f e = fn_setExt f e.
Proof. exact FactsCheck.src_filename_last_component. Qed.
Print Assumptions src_filename_last_component.

(* beginsWith is `longestBeginningMatch(a, b).size() == b.size()` and nothing else;
   longestBeginningMatch is std::mismatch bounded by min(a.size(), b.size()) *)
Theorem src_prefix_functions : gen_begins = true /\ gen_lbm = true.
Proof. exact FactsCheck.src_prefix_functions. Qed.
Print Assumptions src_prefix_functions.

(* parseAndRemove with the reactions found in ArgumentList.h (advance only when nothing was
   consumed, remove otherwise, no for-increment) is par_loop, for every tryConsume *)
Theorem src_parse_and_remove : forall tc fuel l i,
  par_loop_by gen_par_zero gen_par_nonzero gen_par_inc tc fuel l i = par_loop tc fuel l i.
Proof. exact FactsCheck.src_parse_and_remove. Qed.
Print Assumptions src_parse_and_remove.
