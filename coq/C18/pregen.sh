#!/bin/bash
# Regenerates gen/Facts.v (statement lists / expression trees of the DataStreaming bounds checks,
# length-prefix widths, overload facts) from the repository working tree, so that the Coq project
# builds from clean (bin/setup); the check does the same on every run.
cd "$(dirname "$0")"
mkdir -p gen
exec python3 ../../props/C18/factgen.py --repo "${VERIF_REPO:-/repo}" --out gen/Facts.v --work ../../build/C18/ast 2>/dev/null
