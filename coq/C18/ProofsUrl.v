(* C18 — proofs about PseudoURL.cpp: a URL assembled from a type, a file name and
   name=value pairs parses back into exactly those parts; getValue returns the last
   duplicate; hasParam holds exactly for the names present. *)
From Common Require Import Prelude.
From C18 Require Import Model ProofsStr.
Local Open Scope N_scope.

Definition COLON : N := 58.
Definition EQS : N := 61.

(* "name=value" *)
Definition enc_param (p : str * str) : str := fst p ++ EQS :: snd p.

(* type "://" file { ":" name "=" value } *)
Definition assemble (ty file : str) (ps : list (str * str)) : str :=
  ty ++ sep3 ++ file ++ concat (map (fun p => COLON :: enc_param p) ps).

(* no occurrence of "://" *)
Definition no_sep3 (s : str) : Prop := forall a b, s <> a ++ sep3 ++ b.

(* ------------------------------------------------------------------ fields *)
Lemma fields_app_clean t rest d :
  ~ In d t -> fields (t ++ rest) d = (t ++ fst (fields rest d), snd (fields rest d)).
Proof.
  induction t as [|c t IH]; intro H; simpl.
  - now destruct (fields rest d).
  - rewrite IH by (intro I; apply H; now right). simpl.
    destruct (N.eqb_spec c d) as [->|Hne]; [exfalso; apply H; now left | reflexivity].
Qed.

Lemma fields_concat us d t :
  ~ In d t -> Forall (fun u => ~ In d u) us ->
  fields (t ++ concat (map (cons d) us)) d = (t, us).
Proof.
  revert t; induction us as [|u us IH]; intros t Ht Hus.
  - simpl. rewrite fields_app_clean by assumption. simpl. now rewrite app_nil_r.
  - inversion Hus as [|? ? Hu Hus']; subst.
    rewrite fields_app_clean by assumption.
    cbn [map concat app fields]. rewrite (IH u Hu Hus'). rewrite N.eqb_refl. simpl. now rewrite app_nil_r.
Qed.

Lemma filter_nonempty (l : list str) :
  Forall (fun t => t <> []) l -> filter (fun t => Nat.ltb 0 (length t)) l = l.
Proof.
  induction 1 as [|t l Ht _ IH]; simpl; [reflexivity|].
  destruct t; [contradiction | simpl; now rewrite IH].
Qed.

(* tokenize of non-empty, delimiter-free pieces joined on the delimiter *)
Lemma tokenize_join t us d :
  t <> [] -> ~ In d t -> Forall (fun u => u <> [] /\ ~ In d u) us ->
  tokenize (t ++ concat (map (cons d) us)) d = t :: us.
Proof.
  intros Hne Ht Hus. unfold tokenize, tokenize_gen.
  rewrite fields_concat; [| assumption | eapply Forall_impl; [|exact Hus]; now intros a [_ H]].
  apply (filter_nonempty (t :: us)). constructor; [assumption|].
  eapply Forall_impl; [|exact Hus]. now intros a [H _].
Qed.

(* ------------------------------------------------------------- find("://") *)
Lemma cut_sep_assemble ty rest : no_sep3 ty -> cut_sep (ty ++ sep3 ++ rest) = Some (ty, rest).
Proof.
  induction ty as [|c ty IH]; intro H.
  - reflexivity.
  - cbn [app cut_sep].
    assert (P : prefixb sep3 (c :: ty ++ sep3 ++ rest) = false).
    { destruct (prefixb sep3 (c :: ty ++ sep3 ++ rest)) eqn:E; [|reflexivity]. exfalso.
      unfold sep3 in E. cbn [prefixb] in E.
      destruct ty as [|x [|y t]]; cbn [app prefixb] in E.
      - rewrite !andb_true_iff, !N.eqb_eq in E. lia.
      - rewrite !andb_true_iff, !N.eqb_eq in E. lia.
      - rewrite !andb_true_iff, !N.eqb_eq in E. destruct E as (E1 & E2 & E3 & _).
        apply (H [] t). unfold sep3. simpl. congruence. }
    rewrite P. rewrite IH; [reflexivity|].
    intros a b E. apply (H (c :: a) b). simpl. now rewrite E.
Qed.

Lemma cut_char_app d n v : ~ In d n -> cut_char d (n ++ d :: v) = Some (n, v).
Proof.
  induction n as [|c n IH]; intro H; simpl.
  - now rewrite N.eqb_refl.
  - destruct (N.eqb_spec c d) as [->|Hne]; [exfalso; apply H; now left|].
    rewrite IH by (intro I; apply H; now right). reflexivity.
Qed.

Lemma parse_arg_enc p : ~ In EQS (fst p) -> parse_arg (enc_param p) = p.
Proof.
  intro H. unfold parse_arg, enc_param. fold EQS. rewrite cut_char_app by assumption. now destruct p.
Qed.

(* a well-formed component list: what the statement of the property quantifies over *)
Definition wf_parts (ty file : str) (ps : list (str * str)) : Prop :=
  no_sep3 ty /\
  file <> [] /\ ~ In COLON file /\
  Forall (fun p => fst p <> [] /\ ~ In COLON (fst p) /\ ~ In EQS (fst p) /\ ~ In COLON (snd p)) ps.

Lemma purl_parse_assemble ty file ps :
  wf_parts ty file ps ->
  purl_parse (assemble ty file ps) = {| u_type := ty; u_file := file; u_params := ps |}.
Proof.
  intros (Hty & Hf1 & Hf2 & Hps).
  unfold purl_parse, purl_parse_gen, assemble.
  rewrite cut_sep_assemble by assumption.
  change (tokenize_gen 0) with tokenize.
  rewrite <- (map_map enc_param (cons COLON)).
  rewrite tokenize_join; try assumption.
  - f_equal. rewrite map_map. rewrite <- (map_id ps) at 2. apply map_ext_in.
    intros p Hp. apply parse_arg_enc. rewrite Forall_forall in Hps. now apply Hps.
  - rewrite Forall_forall. intros u Hu. apply in_map_iff in Hu as (p & <- & Hp).
    rewrite Forall_forall in Hps. destruct (Hps p Hp) as (H1 & H2 & H3 & H4).
    unfold enc_param. split.
    + intro E. apply app_eq_nil in E as [_ E]. discriminate.
    + intro I. apply in_app_or in I as [I | [I | I]]; [contradiction | unfold EQS in I; discriminate | contradiction].
Qed.

(* --------------------------------------------------------------- getValue *)
Definition absent (name : str) (l : list (str * str)) : Prop := forall v, ~ In (name, v) l.

Lemma get_last_app l1 l2 name acc :
  get_last (l1 ++ l2) name acc = get_last l2 name (get_last l1 name acc).
Proof.
  revert acc; induction l1 as [|[n v] l1 IH]; intro acc; simpl; [reflexivity | apply IH].
Qed.

Lemma get_last_absent l name acc : absent name l -> get_last l name acc = acc.
Proof.
  revert acc; induction l as [|[n v] l IH]; intros acc H; simpl; [reflexivity|].
  destruct (str_eqb n name) eqn:E.
  - apply str_eqb_eq in E. subst. exfalso. apply (H v). now left.
  - apply IH. intros v' I. apply (H v'). now right.
Qed.

Lemma get_last_some l name acc v :
  get_last l name acc = Some v <->
  (exists l1 l2, l = l1 ++ (name, v) :: l2 /\ absent name l2) \/ (acc = Some v /\ absent name l).
Proof.
  split.
  - revert acc. induction l as [|[n v0] l IH] using rev_ind; intros acc H.
    + right. split; [exact H | intros v' []].
    + rewrite get_last_app in H. simpl in H.
      destruct (str_eqb n name) eqn:E.
      * apply str_eqb_eq in E. subst n. inversion H; subst. left.
        exists l, []. split; [reflexivity | intros v' []].
      * apply str_eqb_neq in E. apply IH in H as [(l1 & l2 & -> & Hab) | [-> Hab]].
        -- left. exists l1, (l2 ++ [(n, v0)]). split; [now rewrite <- app_assoc|].
           intros v' I. apply in_app_or in I as [I | [I | []]]; [now apply (Hab v') | congruence].
        -- right. split; [reflexivity|]. intros v' I.
           apply in_app_or in I as [I | [I | []]]; [now apply (Hab v') | congruence].
  - intros [(l1 & l2 & -> & Hab) | [-> Hab]].
    + rewrite get_last_app. simpl. rewrite str_eqb_refl. now apply get_last_absent.
    + now apply get_last_absent.
Qed.

(* getValue returns the value of the LAST parameter with that name *)
Lemma getValue_last u name v :
  getValue u name = Some v <->
  exists l1 l2, u_params u = l1 ++ (name, v) :: l2 /\ (forall v', ~ In (name, v') l2).
Proof.
  unfold getValue. rewrite get_last_some. split.
  - intros [H | [H _]]; [exact H | discriminate].
  - intro H. now left.
Qed.

Lemma hasParam_iff u name : hasParam u name = true <-> exists v, In (name, v) (u_params u).
Proof.
  unfold hasParam. rewrite existsb_exists. split.
  - intros ([n v] & I & E). apply str_eqb_eq in E. simpl in E. subst. now exists v.
  - intros (v & I). exists (name, v). split; [assumption | apply str_eqb_refl].
Qed.

(* getValue throws (None) exactly when the name is not present *)
Lemma getValue_none u name : getValue u name = None <-> hasParam u name = false.
Proof.
  split; intro H.
  - destruct (hasParam u name) eqn:E; [|reflexivity]. exfalso.
    apply hasParam_iff in E as (v & I). apply in_split in I as (l1 & l2 & E).
    (* take the last occurrence in l2, by induction on its length via get_last *)
    unfold getValue in H. rewrite E, get_last_app in H. simpl in H. rewrite str_eqb_refl in H.
    clear E. revert H. generalize v. induction l2 as [|[n w] l2 IH]; intros v0 H; simpl in H; [discriminate|].
    destruct (str_eqb n name); eapply IH; exact H.
  - unfold getValue. apply get_last_absent. intros v I.
    assert (hasParam u name = true) by (apply hasParam_iff; now exists v). congruence.
Qed.

(* the full statement of the property text *)
Lemma pseudourl_parse_assemble ty file ps :
  wf_parts ty file ps ->
  let u := purl_parse (assemble ty file ps) in
  u_type u = ty /\ u_file u = file /\ u_params u = ps /\
  (forall name v, getValue u name = Some v <->
     exists l1 l2, ps = l1 ++ (name, v) :: l2 /\ (forall v', ~ In (name, v') l2)) /\
  (forall name, hasParam u name = true <-> exists v, In (name, v) ps) /\
  (forall name, getValue u name = None <-> forall v, ~ In (name, v) ps).
Proof.
  intro H. cbv zeta. rewrite (purl_parse_assemble _ _ _ H).
  set (u := {| u_type := ty; u_file := file; u_params := ps |}).
  split; [reflexivity|]. split; [reflexivity|]. split; [reflexivity|]. split; [|split].
  - intros name v. apply (getValue_last u).
  - intros name. apply (hasParam_iff u).
  - intros name. split.
    + intros Hn v I. apply getValue_none in Hn.
      assert (hasParam u name = true) by (apply hasParam_iff; now exists v). congruence.
    + intro Hn. apply getValue_none.
      destruct (hasParam u name) eqn:E; [|reflexivity].
      apply hasParam_iff in E as (v & I). now destruct (Hn v).
Qed.

(* the pre-repair constructor (tokenize dropped 1-character tokens) loses a 1-character
   file name and a 1-character bare parameter of a well-formed URL *)
Lemma purl_parse_old_refuted :
  exists ty file ps, wf_parts ty file ps /\
    purl_parse_old (assemble ty file ps) <> {| u_type := ty; u_file := file; u_params := ps |}.
Proof.
  exists [116], [102], [([110], [118])]. split.
  - repeat split; try discriminate.
    + intros a b E. destruct a as [|x [|y a]]; discriminate.
    + intros [E|[]]; discriminate.
    + constructor; [|constructor]. simpl. repeat split; try discriminate;
        intros [E|[]]; discriminate.
  - vm_compute. discriminate.
Qed.
