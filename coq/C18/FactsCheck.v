(* C18 - the facts extracted from the working tree (gen/Facts.v) are the expected ones; hence the
   statements below hold for what the SOURCE says.  Each vm_compute / reflexivity on a gen_*
   constant is the obligation that breaks when the source changes. *)
From Common Require Import Prelude.
From Coq Require Import QArith Qabs.
From C18 Require Import Model FactsModel.
From C18.gen Require Import Facts.

Lemma src_pretty_double_table :
  gen_pd_shape = true /\ forall v, table_choice gen_pd (Qabs v) = pd_choice v.
Proof.
  split; [vm_compute; reflexivity|]. intro v.
  replace gen_pd with exp_pd by (vm_compute; reflexivity). apply exp_pd_ok.
Qed.

Lemma src_pretty_number_table :
  gen_pn_shape = true /\ forall s, table_choice gen_pn (inject_Z (Z.of_N (double_of_N s))) = pn_choice s.
Proof.
  split; [vm_compute; reflexivity|]. intro s.
  replace gen_pn with exp_pn by (vm_compute; reflexivity). apply exp_pn_ok.
Qed.

Lemma src_tokenize_keeps_nonempty : tok_fact gen_tok_inner gen_tok_last.
Proof. vm_compute. split; reflexivity. Qed.

Lemma src_filename_last_component :
  (gen_fn_ext = GLast /\ gen_fn_dropExt = GLast /\ gen_fn_name = GLast /\ gen_fn_setExt = GLast) /\
  forall f e, ext_by gen_fn_ext f = fn_ext f /\ dropExt_by gen_fn_dropExt f = fn_dropExt f /\
              name_by gen_fn_name f = fn_name f /\ setExt_by gen_fn_setExt f e = fn_setExt f e.
Proof.
  assert (H : gen_fn_ext = GLast /\ gen_fn_dropExt = GLast /\ gen_fn_name = GLast /\ gen_fn_setExt = GLast)
    by (repeat split; vm_compute; reflexivity).
  split; [exact H|]. destruct H as (-> & -> & -> & ->). apply guard_last_ok.
Qed.

Lemma src_prefix_functions : gen_begins = true /\ gen_lbm = true.
Proof. split; vm_compute; reflexivity. Qed.

Lemma src_parse_and_remove : forall tc fuel l i,
  par_loop_by gen_par_zero gen_par_nonzero gen_par_inc tc fuel l i = par_loop tc fuel l i.
Proof.
  replace gen_par_zero with [AAdvance] by (vm_compute; reflexivity).
  replace gen_par_nonzero with [ARemove] by (vm_compute; reflexivity).
  replace gen_par_inc with (@nil pact) by (vm_compute; reflexivity).
  exact exp_par_ok.
Qed.
