(* C18 — proofs about FileName.cpp: str = path ++ base, base = name [++ "." ++ ext] with the
   extension taken from the last component only, and the recomposition laws of
   dropExt / setExt / addExt / operator+. *)
From Common Require Import Prelude.
From C18 Require Import Model.
Local Open Scope N_scope.

Definition nq (c : N) : N -> bool := fun x => negb (N.eqb x c).

Lemma mem_In c s : mem c s = true <-> In c s.
Proof.
  unfold mem. rewrite existsb_exists. split.
  - intros (x & I & E). apply N.eqb_eq in E. now subst.
  - intro I. exists c. split; [assumption | apply N.eqb_refl].
Qed.

Lemma mem_false c s : mem c s = false <-> ~ In c s.
Proof.
  rewrite <- mem_In. destruct (mem c s); split; intro H; try reflexivity; try discriminate; try congruence;
    now destruct H.
Qed.

(* ------------------------------------------------------- takeWhile / dropWhile *)
Lemma tw_dw p l : takeWhile p l ++ dropWhile p l = l.
Proof. induction l as [|x l IH]; simpl; [reflexivity|]. destruct (p x); simpl; [now rewrite IH | reflexivity]. Qed.

Lemma tw_all p l l2 :
  Forall (fun x => p x = true) l ->
  takeWhile p (l ++ l2) = l ++ takeWhile p l2 /\ dropWhile p (l ++ l2) = dropWhile p l2.
Proof.
  induction 1 as [|x l Hx _ [IH1 IH2]]; simpl; [split; reflexivity|].
  rewrite Hx, IH1, IH2. split; reflexivity.
Qed.

Lemma dw_head p l : dropWhile p l = [] \/ exists x r, dropWhile p l = x :: r /\ p x = false.
Proof.
  induction l as [|x l IH]; simpl; [now left|].
  destruct (p x) eqn:E; [exact IH | right; now exists x, l].
Qed.

Lemma dw_incl p l x : In x (dropWhile p l) -> In x l.
Proof.
  induction l as [|y l IH]; simpl; [tauto|].
  destruct (p y); [intro H; right; now apply IH | tauto].
Qed.

Lemma notin_nq c l : ~ In c l -> Forall (fun x => nq c x = true) (rev l).
Proof.
  intro H. rewrite Forall_forall. intros x I. apply in_rev in I. unfold nq.
  destruct (N.eqb_spec x c) as [->|]; [contradiction | reflexivity].
Qed.

Lemma after_last_eq c s : after_last c s = rev (takeWhile (nq c) (rev s)). Proof. reflexivity. Qed.
Lemma upto_last_eq c s : upto_last c s = rev (dropWhile (nq c) (rev s)). Proof. reflexivity. Qed.
Lemma before_last_eq c s : before_last c s = rev (tl (dropWhile (nq c) (rev s))). Proof. reflexivity. Qed.

(* a suffix free of c is skipped by the find_last_of scan *)
Lemma last_app_clean c a b :
  ~ In c b ->
  after_last c (a ++ b) = after_last c a ++ b /\
  upto_last c (a ++ b) = upto_last c a /\
  before_last c (a ++ b) = before_last c a.
Proof.
  intro H. rewrite !after_last_eq, !upto_last_eq, !before_last_eq, rev_app_distr.
  destruct (tw_all (nq c) (rev b) (rev a) (notin_nq c b H)) as [E1 E2].
  rewrite E1, E2, rev_app_distr, rev_involutive. repeat split; reflexivity.
Qed.

Lemma last_snoc c a :
  after_last c (a ++ [c]) = [] /\ upto_last c (a ++ [c]) = a ++ [c] /\ before_last c (a ++ [c]) = a.
Proof.
  rewrite !after_last_eq, !upto_last_eq, !before_last_eq, rev_app_distr. simpl.
  unfold nq at 1 3 5. rewrite N.eqb_refl. simpl. rewrite rev_involutive. repeat split; reflexivity.
Qed.

Lemma last_none c s :
  ~ In c s -> after_last c s = s /\ upto_last c s = [] /\ before_last c s = [].
Proof.
  intro H. pose proof (last_app_clean c [] s H) as (E1 & E2 & E3). simpl in *.
  rewrite E1, E2, E3. repeat split; reflexivity.
Qed.

(* the scan finds the LAST occurrence *)
Lemma last_split_eq c a b :
  ~ In c b ->
  after_last c (a ++ c :: b) = b /\ upto_last c (a ++ c :: b) = a ++ [c] /\ before_last c (a ++ c :: b) = a.
Proof.
  intro H. change (a ++ c :: b) with (a ++ [c] ++ b). rewrite app_assoc.
  destruct (last_app_clean c (a ++ [c]) b H) as (E1 & E2 & E3).
  destruct (last_snoc c a) as (F1 & F2 & F3).
  rewrite E1, E2, E3, F1, F2, F3. repeat split; reflexivity.
Qed.

Lemma last_split (c : N) (s : str) : ~ In c s \/ exists a b, s = a ++ c :: b /\ ~ In c b.
Proof.
  induction s as [|x s [IH | (a & b & -> & Hb)]].
  - left. intros [].
  - destruct (N.eq_dec x c) as [->|Hne].
    + right. now exists [], s.
    + left. intros [E|I]; [congruence | contradiction].
  - right. now exists (x :: a), b.
Qed.

Lemma upto_after c s : upto_last c s ++ after_last c s = s.
Proof.
  rewrite after_last_eq, upto_last_eq, <- rev_app_distr, tw_dw. apply rev_involutive.
Qed.

(* ------------------------------------------------------------ normalisation *)
(* what a FileName object holds: no backslash, no trailing separator *)
Definition normal (f : str) : Prop := ~ In BSL f /\ forall g, f <> g ++ [SEP].

Definition unify (c : N) : N := if N.eqb c BSL || N.eqb c SEP then SEP else c.

Lemma fn_norm_eq s : fn_norm s = rev (dropWhile (N.eqb SEP) (rev (map unify s))).
Proof. reflexivity. Qed.

Lemma fn_norm_normal s : normal (fn_norm s).
Proof.
  rewrite fn_norm_eq. split.
  - intro I. rewrite <- in_rev in I. apply dw_incl in I. rewrite <- in_rev in I.
    apply in_map_iff in I as (x & E & _). unfold unify in E.
    destruct (N.eqb x BSL || N.eqb x SEP) eqn:B; [discriminate|].
    apply orb_false_iff in B as [B _]. apply N.eqb_neq in B. congruence.
  - intros g E. apply (f_equal (@rev N)) in E. rewrite rev_involutive, rev_app_distr in E. simpl in E.
    destruct (dw_head (N.eqb SEP) (rev (map unify s))) as [D | (x & r & D & Hx)]; rewrite D in E.
    + discriminate.
    + inversion E; subst. now rewrite N.eqb_refl in Hx.
Qed.

Lemma fn_norm_id f : normal f -> fn_norm f = f.
Proof.
  intros [Hb Ht]. rewrite fn_norm_eq.
  assert (M : map unify f = f).
  { rewrite <- (map_id f) at 2. apply map_ext_in. intros x I. unfold unify.
    destruct (N.eqb_spec x BSL) as [->|]; [contradiction|]. simpl.
    destruct (N.eqb_spec x SEP) as [->|]; reflexivity. }
  rewrite M. destruct (rev f) as [|x r] eqn:E.
  - apply (f_equal (@rev N)) in E. rewrite rev_involutive in E. now subst.
  - cbn [dropWhile]. destruct (N.eqb_spec SEP x) as [<-|Hne].
    + exfalso. apply (Ht (rev r)). apply (f_equal (@rev N)) in E. rewrite rev_involutive in E. now subst.
    + rewrite <- E. apply rev_involutive.
Qed.

Lemma fn_norm_idem s : fn_norm (fn_norm s) = fn_norm s.
Proof. apply fn_norm_id, fn_norm_normal. Qed.

(* --------------------------------------------------------------- path / base *)
Lemma path_base f :
  f = fn_path f ++ fn_base f /\ ~ In SEP (fn_base f) /\
  (fn_path f = [] \/ exists p, fn_path f = p ++ [SEP]).
Proof.
  unfold fn_path, fn_base. split; [symmetry; apply upto_after|].
  destruct (last_split SEP f) as [H | (a & b & -> & Hb)].
  - destruct (last_none SEP f H) as (E1 & E2 & _). rewrite E1, E2. split; [assumption | now left].
  - destruct (last_split_eq SEP a b Hb) as (E1 & E2 & _). rewrite E1, E2. split; [assumption | right; now exists a].
Qed.

(* ext/name/dropExt/setExt test the last dot against the start of the last component:
   that is the same as asking whether the last component contains a dot *)
Lemma dot_in_last_base f : dot_in_last f = mem DOT (fn_base f).
Proof.
  destruct (path_base f) as (Hf & Hs & Hp).
  set (pa := fn_path f) in *. set (ba := fn_base f) in *. clearbody pa ba. subst f.
  unfold dot_in_last.
  destruct (last_split DOT ba) as [H | (n & e & -> & He)].
  - rewrite (proj2 (mem_false DOT ba) H).
    destruct (last_app_clean DOT pa ba H) as (E1 & _). rewrite E1.
    destruct Hp as [-> | (p & ->)].
    + simpl. rewrite (proj2 (mem_false DOT ba) H). reflexivity.
    + assert (D : ~ In DOT [SEP]) by (intros [E|[]]; discriminate).
      destruct (last_app_clean DOT p [SEP] D) as (F1 & _). rewrite F1.
      assert (M : mem SEP ((after_last DOT p ++ [SEP]) ++ ba) = true).
      { apply mem_In. apply in_or_app. left. apply in_or_app. right. now left. }
      rewrite M. apply andb_false_r.
  - assert (In DOT (n ++ DOT :: e)) as I1 by (apply in_or_app; right; now left).
    rewrite (proj2 (mem_In _ _) I1).
    assert (In DOT (pa ++ n ++ DOT :: e)) as I2 by (apply in_or_app; now right).
    rewrite (proj2 (mem_In _ _) I2).
    rewrite app_assoc. destruct (last_split_eq DOT (pa ++ n) e He) as (E1 & _). rewrite E1.
    assert (~ In SEP e) as Hse by (intro I; apply Hs; apply in_or_app; right; now right).
    rewrite (proj2 (mem_false _ _) Hse). reflexivity.
Qed.

(* The decomposition, for every string f (normalised or not):
   f = path ++ base, base has no separator, path is empty or ends with the separator; and
   either the last component has no dot (name = base, no extension, dropExt = f)
   or base = name ++ "." ++ ext with ext dot-free (i.e. taken after the LAST dot of the
   LAST component), dropExt = FileName(path ++ name), setExt e = FileName(path ++ name ++ e). *)
Lemma filename_cases f :
  let path := fn_path f in let base := fn_base f in
  f = path ++ base /\ ~ In SEP base /\ (path = [] \/ exists p, path = p ++ [SEP]) /\
  ((~ In DOT base /\ fn_name f = base /\ fn_ext f = [] /\ fn_dropExt f = f /\
    forall x, fn_setExt f x = fn_norm (f ++ x)) \/
   (In DOT base /\ base = fn_name f ++ DOT :: fn_ext f /\ ~ In DOT (fn_ext f) /\
    fn_dropExt f = fn_norm (path ++ fn_name f) /\
    forall x, fn_setExt f x = fn_norm (path ++ fn_name f ++ x))).
Proof.
  cbv zeta. destruct (path_base f) as (Hf & Hs & Hp).
  split; [assumption|]. split; [assumption|]. split; [assumption|].
  unfold fn_name, fn_ext, fn_dropExt, fn_setExt. rewrite (dot_in_last_base f).
  set (pa := fn_path f) in *. set (ba := fn_base f) in *.
  assert (Eba : after_last SEP f = ba) by reflexivity.
  clearbody pa ba.
  destruct (last_split DOT ba) as [H | (n & e & Hba & He)].
  - left. rewrite (proj2 (mem_false DOT ba) H). rewrite Eba. repeat split; try assumption; reflexivity.
  - right.
    assert (In DOT ba) as I1 by (rewrite Hba; apply in_or_app; right; now left).
    rewrite (proj2 (mem_In _ _) I1).
    assert (Ef : f = (pa ++ n) ++ DOT :: e) by (rewrite Hf, Hba; now rewrite app_assoc).
    destruct (last_split_eq DOT (pa ++ n) e He) as (E1 & _ & E3). rewrite <- Ef in E1, E3.
    rewrite E1, E3.
    assert (~ In SEP n) as Hsn by (intro I; apply Hs; rewrite Hba; apply in_or_app; now left).
    destruct (last_app_clean SEP pa n Hsn) as (F1 & _). rewrite F1.
    assert (after_last SEP pa = []) as ->.
    { destruct Hp as [-> | (p & ->)]; [reflexivity | apply (last_snoc SEP p)]. }
    simpl. repeat split; try assumption; try reflexivity.
    intro x. now rewrite <- app_assoc.
Qed.

(* ext() and name() depend on the last component only *)
Lemma ext_last_component f : fn_ext f = fn_ext (fn_base f) /\ fn_name f = fn_name (fn_base f).
Proof.
  destruct (filename_cases f) as (_ & Hs & _ & H). cbv zeta in *.
  assert (B : fn_base (fn_base f) = fn_base f).
  { unfold fn_base at 1. now destruct (last_none SEP (fn_base f) Hs) as (-> & _). }
  assert (P : fn_path (fn_base f) = []).
  { unfold fn_path. now destruct (last_none SEP (fn_base f) Hs) as (_ & -> & _). }
  destruct (filename_cases (fn_base f)) as (_ & _ & _ & H'). cbv zeta in *. rewrite B, P in H'.
  destruct H as [(Hd & Hn & He & _) | (Hd & Hb & Hde & _)];
    destruct H' as [(Hd' & Hn' & He' & _) | (Hd' & Hb' & Hde' & _)]; try contradiction.
  - rewrite Hn, He, Hn', He'. split; reflexivity.
  - (* both decompose base at its last dot: the decompositions coincide *)
    rewrite Hb in Hb' at 1.
    assert (U : forall a b a' b', a ++ DOT :: b = a' ++ DOT :: b' -> ~ In DOT b -> ~ In DOT b' -> a = a' /\ b = b').
    { intros a b a' b' E Nb Nb'.
      destruct (last_split_eq DOT a b Nb) as (X1 & _ & X3).
      destruct (last_split_eq DOT a' b' Nb') as (Y1 & _ & Y3).
      rewrite E in X1, X3. split; congruence. }
    destruct (U _ _ _ _ Hb' Hde Hde') as [U1 U2]. split; assumption.
Qed.

(* recomposition: for a FileName value (normal) *)
Lemma setExt_own_ext f :
  normal f -> In DOT (fn_base f) -> fn_setExt f (DOT :: fn_ext f) = f.
Proof.
  intros Hn Hd. destruct (filename_cases f) as (Hf & _ & _ & [(Hd' & _) | (_ & Hb & _ & _ & Hset)]); cbv zeta in *.
  - contradiction.
  - rewrite Hset, <- Hb, <- Hf. now apply fn_norm_id.
Qed.

Lemma dropExt_addExt f :
  normal f -> In DOT (fn_base f) -> fn_name f <> [] \/ fn_path f = [] ->
  fn_addExt (fn_dropExt f) (DOT :: fn_ext f) = f.
Proof.
  intros Hn Hd Hne. destruct (filename_cases f) as (Hf & Hs & _ & [(Hd' & _) | (_ & Hb & _ & Hdrop & _)]); cbv zeta in *.
  - contradiction.
  - assert (Hsn : ~ In SEP (fn_name f)) by (intro I; apply Hs; rewrite Hb; apply in_or_app; now left).
    assert (N1 : normal (fn_path f ++ fn_name f)).
    { destruct Hn as [Hbsl Htr]. split.
      - intro I. apply Hbsl. rewrite Hf, Hb, app_assoc. apply in_or_app. now left.
      - intros g E. apply Hsn. destruct Hne as [Hne | Hp].
        + destruct (fn_name f) as [|x nm] using rev_ind; [contradiction|].
          rewrite app_assoc in E. apply app_inj_tail in E as [_ ->]. apply in_or_app. right. now left.
        + rewrite Hp in E. simpl in E. rewrite E. apply in_or_app. right. now left. }
    rewrite Hdrop, (fn_norm_id _ N1). unfold fn_addExt.
    rewrite <- app_assoc, <- Hb, <- Hf. now apply fn_norm_id.
Qed.

(* OPEN FINDING (known_findings.json: C18-dropExt-hidden-file-under-directory-drops-separator):
   without the side condition the law is false.  For a hidden file directly under a directory
   (empty name(), non-empty path()) dropExt() is FileName(path() ++ name()) = FileName("a/"), whose
   constructor strips the trailing separator: "a/.x" -> "a", and addExt(".x") gives "a.x", a file
   in the parent directory.  setExt is not affected; setExt(e) <> dropExt().addExt(e) there. *)
Lemma dropExt_addExt_hidden_refuted :
  exists f, normal f /\ In DOT (fn_base f) /\ fn_name f = [] /\ fn_path f <> [] /\
            fn_dropExt f <> fn_path f ++ fn_name f /\
            fn_addExt (fn_dropExt f) (DOT :: fn_ext f) <> f /\
            fn_setExt f (DOT :: fn_ext f) = f /\
            fn_setExt f [46; 121] <> fn_addExt (fn_dropExt f) [46; 121].
Proof.
  exists [97; 47; 46; 120].
  split; [exact (fn_norm_normal [97; 47; 46; 120])|].
  split; [vm_compute; now left|].
  vm_compute. repeat split; try discriminate; reflexivity.
Qed.

Lemma dropExt_no_ext f : normal f -> ~ In DOT (fn_base f) -> fn_dropExt f = f /\ fn_setExt f [] = f /\ fn_addExt f [] = f.
Proof.
  intros Hn Hd. destruct (filename_cases f) as (_ & _ & _ & [(_ & _ & _ & Hdrop & Hset) | (Hd' & _)]); cbv zeta in *.
  - rewrite Hdrop, Hset. unfold fn_addExt. rewrite app_nil_r, (fn_norm_id _ Hn). repeat split; reflexivity.
  - contradiction.
Qed.

(* operator+ : appending one more component *)
Lemma plus_component a b :
  normal a -> a <> [] -> normal b -> b <> [] -> ~ In SEP b ->
  fn_plus a b = a ++ SEP :: b /\ fn_path (fn_plus a b) = a ++ [SEP] /\ fn_base (fn_plus a b) = b.
Proof.
  intros [Ha1 Ha2] Hane [Hb1 Hb2] Hbne Hbs.
  assert (E : fn_plus a b = a ++ SEP :: b).
  { unfold fn_plus. destruct a as [|x a]; [contradiction|]. apply fn_norm_id. split.
    - intro I. apply in_app_or in I as [I | [I | I]]; [contradiction | discriminate | contradiction].
    - intros g E. destruct b as [|y b] using rev_ind; [contradiction|].
      change ((x :: a) ++ SEP :: b ++ [y]) with ((x :: a) ++ (SEP :: b) ++ [y]) in E.
      rewrite app_assoc in E. apply app_inj_tail in E as [_ ->].
      apply Hbs. apply in_or_app. right. now left. }
  rewrite E. unfold fn_path, fn_base.
  destruct (last_split_eq SEP a b Hbs) as (E1 & E2 & _). rewrite E1, E2. repeat split; reflexivity.
Qed.

Lemma plus_empty b : fn_plus [] b = b /\ forall o, fn_plus_str [] o = fn_norm o.
Proof. split; reflexivity. Qed.

(* path()+base() recomposes f through operator+ when the directory part is itself a FileName *)
Lemma plus_path_base p b :
  normal p -> p <> [] -> normal b -> b <> [] -> ~ In SEP b ->
  let f := fn_plus p b in fn_plus (fn_norm (fn_path f)) (fn_base f) = f.
Proof.
  intros Hp Hpne Hb Hbne Hbs. cbv zeta.
  destruct (plus_component p b Hp Hpne Hb Hbne Hbs) as (E & E1 & E2). rewrite E1, E2.
  assert (fn_norm (p ++ [SEP]) = p) as ->; [|reflexivity].
  rewrite fn_norm_eq. destruct Hp as [Hp1 Hp2].
  assert (M : map unify (p ++ [SEP]) = p ++ [SEP]).
  { rewrite <- (map_id (p ++ [SEP])) at 2. apply map_ext_in. intros x I. unfold unify.
    destruct (N.eqb_spec x BSL) as [->|]; [|simpl; destruct (N.eqb_spec x SEP) as [->|]; reflexivity].
    apply in_app_or in I as [I | [I | []]]; [contradiction | discriminate]. }
  rewrite M, rev_app_distr. simpl.
  destruct (rev p) as [|x r] eqn:Er.
  - apply (f_equal (@rev N)) in Er. rewrite rev_involutive in Er. now subst.
  - cbn [dropWhile]. destruct (N.eqb_spec SEP x) as [<-|Hne].
    + exfalso. apply (Hp2 (rev r)). apply (f_equal (@rev N)) in Er. rewrite rev_involutive in Er. now subst.
    + rewrite <- Er. apply rev_involutive.
Qed.

(* ------------------------------------------------------------------ instances *)
(* ".bashrc" : hidden file = empty name, extension "bashrc" *)
Lemma inst_hidden :
  let f := fn_norm [46; 98; 97; 115; 104; 114; 99] in
  fn_path f = [] /\ fn_name f = [] /\ fn_ext f = [98; 97; 115; 104; 114; 99] /\ fn_dropExt f = [].
Proof. vm_compute. repeat split; reflexivity. Qed.

(* "dir.d/file" : the dot lies in a directory, no extension *)
Lemma inst_dot_in_dir :
  let f := fn_norm [100; 105; 114; 46; 100; 47; 102; 105; 108; 101] in
  fn_path f = [100; 105; 114; 46; 100; 47] /\ fn_base f = [102; 105; 108; 101] /\
  fn_name f = [102; 105; 108; 101] /\ fn_ext f = [] /\ fn_dropExt f = f.
Proof. vm_compute. repeat split; reflexivity. Qed.

(* "a\b.c//" : separators unified, trailing ones stripped *)
Lemma inst_trailing :
  let f := fn_norm [97; 92; 98; 46; 99; 47; 47] in
  f = [97; 47; 98; 46; 99] /\ fn_path f = [97; 47] /\ fn_name f = [98] /\ fn_ext f = [99] /\
  fn_dropExt f = [97; 47; 98] /\ fn_setExt f [46; 120] = [97; 47; 98; 46; 120].
Proof. vm_compute. repeat split; reflexivity. Qed.

(* /repo before the repair: ext()/dropExt() used the last dot of the whole string *)
Lemma filename_ext_old_refuted :
  exists f, normal f /\ ~ In DOT (fn_base f) /\ fn_ext_old f <> [] /\ fn_ext_old f <> fn_ext f /\
            fn_dropExt_old f <> fn_dropExt f /\ fn_base f <> fn_name f ++ DOT :: fn_ext_old f.
Proof.
  exists [100; 105; 114; 46; 100; 47; 102; 105; 108; 101].
  split; [|vm_compute; repeat split; try discriminate].
  - exact (fn_norm_normal [100; 105; 114; 46; 100; 47; 102; 105; 108; 101]).
  - intros [E|[E|[E|[E|[]]]]]; discriminate.
Qed.

Lemma fn_norm_spec s :
  (~ In BSL (fn_norm s) /\ forall g, fn_norm s <> g ++ [SEP]) /\ fn_norm (fn_norm s) = fn_norm s.
Proof. split; [apply fn_norm_normal | apply fn_norm_idem]. Qed.

(* ------------------------------------------------------- operator== / != / - *)
Lemma fn_eq_spec a b : fn_eq a b = true <-> a = b.
Proof. apply str_eqb_eq. Qed.

(* operator-: what it does.  It cuts behind the FIRST CHARACTER of the file name that occurs anywhere
   among base's characters (std::string::find_first_of), not behind an occurrence of base. *)
Lemma fn_minus_spec a b :
  ((forall c, In c a -> ~ In c b) -> fn_minus a b = a) /\
  (forall p c r, a = p ++ c :: r -> In c b -> (forall x, In x p -> ~ In x b) -> fn_minus a b = fn_norm r).
Proof.
  unfold fn_minus. split.
  - intro H. assert (E : after_first_of b a = None).
    { induction a as [|x a IH]; [reflexivity|]. cbn [after_first_of].
      destruct (mem x b) eqn:M; [apply mem_In in M; exfalso; apply (H x); [now left | exact M]|].
      apply IH. intros c I. apply H. now right. }
    now rewrite E.
  - intros p c r -> Hc Hp. assert (E : after_first_of b (p ++ c :: r) = Some r).
    { induction p as [|x p IH]; cbn [app after_first_of].
      - now rewrite (proj2 (mem_In c b) Hc).
      - destruct (mem x b) eqn:M; [apply mem_In in M; exfalso; apply (Hp x); [now left | exact M]|].
        apply IH. intros y I. apply Hp. now right. }
    now rewrite E.
Qed.

(* POSSIBLE FINDING (reported, not yet recorded): operator- does not undo operator+.
   "dir" + "file" = "dir/file", and ("dir/file") - "dir" = "ir/file" (the first character 'd' is in
   the character set of "dir"); the intent stated in FileName.cpp is "removes the base from a filename" *)
Lemma fn_minus_not_inverse_of_plus :
  exists a b, normal a /\ normal b /\ a <> [] /\ b <> [] /\ ~ In SEP b /\ fn_minus (fn_plus a b) a <> b.
Proof.
  exists [100; 105; 114], [102; 105; 108; 101].
  split; [exact (fn_norm_normal [100; 105; 114])|]. split; [exact (fn_norm_normal [102; 105; 108; 101])|].
  split; [discriminate|]. split; [discriminate|]. split; [|vm_compute; discriminate].
  intros [E|[E|[E|[E|[]]]]]; discriminate.
Qed.
