From Coq Require Import Extraction ExtrOcamlBasic NArith ZArith QArith List.
From C18 Require Import Model.
Extraction "Model.ml"
  lbm beginsWith split_char split_set tokenize lowerCase upperCase
  purl_parse u_type u_file u_params getValue hasParam
  fn_norm fn_path fn_base fn_name fn_ext fn_dropExt fn_setExt fn_addExt fn_plus fn_plus_str fn_eq fn_minus
  al_ctor al_remove parseAndRemove removeArgs
  pd_choice pn_choice double_of_N pc_mul pc_factor pc_suffix
  Z.add Z.mul Z.opp Z.div Z.modulo Z.to_N Z.to_pos N.of_nat N.to_nat.
