(* C18 — proofs about the suffix choice of prettyDouble / prettyNumber (common.cpp).
   The thresholds and divisors are the exact values of the C++ float literals (1e18f is
   999999984306749440, 1e-3f is 8589935/8589934592, ...), so the statements are exact
   over Q.  What "%.1f" prints for the chosen mantissa is outside the model (oracle). *)
From Common Require Import Prelude.
From Coq Require Import QArith Qabs.
From C18 Require Import Model.
Local Open Scope Q_scope.

(* SI letter -> decimal exponent *)
Definition si_exp (s : N) : option Z :=
  if (s =? 69)%N then Some 18%Z else if (s =? 80)%N then Some 15%Z
  else if (s =? 84)%N then Some 12%Z else if (s =? 71)%N then Some 9%Z
  else if (s =? 77)%N then Some 6%Z else if (s =? 107)%N then Some 3%Z
  else if (s =? 109)%N then Some (-3)%Z else if (s =? 117)%N then Some (-6)%Z
  else if (s =? 110)%N then Some (-9)%Z else if (s =? 112)%N then Some (-12)%Z
  else if (s =? 102)%N then Some (-15)%Z else None.

(* the choice names an SI scale: the suffix is the SI letter of 10^k, the number is
   divided by (k > 0) or multiplied with (k < 0) a positive factor that is 10^|k| up to the
   rounding of a float literal (relative error <= 2^-24) *)
Definition pc_wf (c : pchoice) : bool :=
  match si_exp (pc_suffix c) with
  | Some k => Bool.eqb (pc_mul c) (k <? 0)%Z && (0 <? pc_factor c)%Z &&
              (Z.abs (pc_factor c - 10 ^ Z.abs k) * 2 ^ 24 <=? 10 ^ Z.abs k)%Z
  | None => false
  end.

(* the if-chain of both functions, on the magnitude *)
Definition chain (first : Z) (a : Q) : pchoice :=
  if Qle_bool (inject_Z first) a then PC false F1e18 69
  else if Qle_bool (inject_Z F1e15) a then PC false F1e15 80
  else if Qle_bool (inject_Z F1e12) a then PC false F1e12 84
  else if Qle_bool (inject_Z F1e09) a then PC false F1e09 71
  else if Qle_bool (inject_Z F1e06) a then PC false F1e06 77
  else if Qle_bool (inject_Z F1e03) a then PC false F1e03 107
  else if Qle_bool a F1em12 then PC true F1e15 102
  else if Qle_bool a F1em09 then PC true F1e12 112
  else if Qle_bool a F1em06 then PC true F1e09 110
  else if Qle_bool a F1em03 then PC true F1e06 117
  else if Qle_bool a 1 then PC true F1e03 109
  else PC false 1 0.

Lemma pd_choice_chain first v : pd_choice_gen first v = chain first (Qabs v).
Proof. reflexivity. Qed.

Lemma Qle_bool_false x y : Qle_bool x y = false -> y < x.
Proof.
  intro H. apply Qnot_le_lt. intro L. apply Qle_bool_iff in L. congruence.
Qed.

Lemma injZ_pos F : (0 < F)%Z -> 0 < inject_Z F.
Proof. intro H. unfold Qlt, inject_Z. simpl. lia. Qed.

(* ------------------------------------------------------ large magnitudes: v / F *)
Definition large_ok (a : Q) (c : pchoice) : Prop :=
  pc_wf c = true /\ pc_mul c = false /\
  1 <= pretty_mantissa c a /\ pretty_mantissa c a < 1000 /\
  a == pretty_mantissa c a * inject_Z (pc_factor c).

Lemma large_branch F G s a :
  (0 < F)%Z -> inject_Z F <= a -> a < inject_Z G -> (G <= 1000 * F)%Z ->
  pc_wf (PC false F s) = true -> large_ok a (PC false F s).
Proof.
  intros HF Hlo Hhi HG Hwf. pose proof (injZ_pos F HF) as HFq.
  unfold large_ok, pretty_mantissa. cbn [pc_mul pc_factor PC].
  split; [assumption|]. split; [reflexivity|]. split; [|split].
  - apply Qle_shift_div_l; [assumption|]. now rewrite Qmult_1_l.
  - apply Qlt_shift_div_r; [assumption|]. eapply Qlt_le_trans; [exact Hhi|].
    unfold Qle, Qmult, inject_Z. cbn [Qnum Qden]. lia.
  - rewrite Qmult_comm. symmetry. apply Qmult_div_r. intro E. rewrite E in HFq. discriminate HFq.
Qed.

Lemma chain_large a :
  inject_Z F1e03 <= a -> a < inject_Z (1000 * F1e18) -> large_ok a (chain F1e18 a).
Proof.
  intros Hlo Hhi. unfold chain.
  destruct (Qle_bool (inject_Z F1e18) a) eqn:E1.
  { apply Qle_bool_iff in E1. apply (large_branch F1e18 (1000 * F1e18)); try assumption; reflexivity || (apply Z.leb_le; reflexivity). }
  apply Qle_bool_false in E1.
  destruct (Qle_bool (inject_Z F1e15) a) eqn:E2.
  { apply Qle_bool_iff in E2. apply (large_branch F1e15 F1e18); try assumption; reflexivity || (apply Z.leb_le; reflexivity). }
  apply Qle_bool_false in E2.
  destruct (Qle_bool (inject_Z F1e12) a) eqn:E3.
  { apply Qle_bool_iff in E3. apply (large_branch F1e12 F1e15); try assumption; reflexivity || (apply Z.leb_le; reflexivity). }
  apply Qle_bool_false in E3.
  destruct (Qle_bool (inject_Z F1e09) a) eqn:E4.
  { apply Qle_bool_iff in E4. apply (large_branch F1e09 F1e12); try assumption; reflexivity || (apply Z.leb_le; reflexivity). }
  apply Qle_bool_false in E4.
  destruct (Qle_bool (inject_Z F1e06) a) eqn:E5.
  { apply Qle_bool_iff in E5. apply (large_branch F1e06 F1e09); try assumption; reflexivity || (apply Z.leb_le; reflexivity). }
  apply Qle_bool_false in E5.
  destruct (Qle_bool (inject_Z F1e03) a) eqn:E6.
  { apply Qle_bool_iff in E6. apply (large_branch F1e03 F1e06); try assumption; reflexivity || (apply Z.leb_le; reflexivity). }
  apply Qle_bool_false in E6. exfalso. apply (Qlt_irrefl a). eapply Qlt_le_trans; eassumption.
Qed.

(* the mantissa that is printed carries the sign of the input *)
Lemma mant_abs c v : (0 < pc_factor c)%Z -> Qabs (pretty_mantissa c v) == pretty_mantissa c (Qabs v).
Proof.
  intro H. pose proof (injZ_pos _ H) as Hq.
  assert (A : Qabs (inject_Z (pc_factor c)) == inject_Z (pc_factor c)) by (apply Qabs_pos; now apply Qlt_le_weak).
  unfold pretty_mantissa. destruct (pc_mul c).
  - now rewrite Qabs_Qmult, A.
  - unfold Qdiv. now rewrite Qabs_Qmult, Qabs_Qinv, A.
Qed.

Lemma pc_wf_factor c : pc_wf c = true -> (0 < pc_factor c)%Z.
Proof.
  unfold pc_wf. destruct (si_exp (pc_suffix c)); [|discriminate].
  rewrite !andb_true_iff. intros [[_ H] _]. now apply Z.ltb_lt.
Qed.

(* prettyDouble, 1e3 <= |v| < 1000 * 1e18f *)
Lemma pretty_suffix_large v :
  inject_Z F1e03 <= Qabs v -> Qabs v < inject_Z (1000 * F1e18) ->
  let c := pd_choice v in
  pc_wf c = true /\ pc_mul c = false /\
  1 <= Qabs (pretty_mantissa c v) /\ Qabs (pretty_mantissa c v) < 1000 /\
  Qabs v == Qabs (pretty_mantissa c v) * inject_Z (pc_factor c).
Proof.
  intros H1 H2. cbv zeta. unfold pd_choice. rewrite pd_choice_chain.
  destruct (chain_large _ H1 H2) as (W & M & L1 & L2 & L3).
  rewrite (mant_abs _ v (pc_wf_factor _ W)). repeat split; assumption.
Qed.

(* ------------------------------------------------------ small magnitudes: v * F *)
(* the float literals 1e-12f .. 1e-3f and 1e15f, 1e12f are not exact powers of ten, so at
   the exact thresholds the mantissa can leave [1, 1000] by a relative 2^-23 *)
Definition tol : Q := 1 # 8388608.

Definition small_ok (a : Q) (c : pchoice) : Prop :=
  pc_wf c = true /\ pc_mul c = true /\
  1 - tol <= pretty_mantissa c a /\ pretty_mantissa c a <= 1000 * (1 + tol) /\
  pretty_mantissa c a == a * inject_Z (pc_factor c).

Lemma small_branch F lo hi s a :
  (0 < F)%Z -> lo <= a -> a <= hi ->
  Qle_bool (1 - tol) (lo * inject_Z F) = true -> Qle_bool (hi * inject_Z F) (1000 * (1 + tol)) = true ->
  pc_wf (PC true F s) = true -> small_ok a (PC true F s).
Proof.
  intros HF Hlo Hhi B1 B2 Hwf. pose proof (injZ_pos F HF) as HFq. apply Qlt_le_weak in HFq.
  apply Qle_bool_iff in B1. apply Qle_bool_iff in B2.
  unfold small_ok, pretty_mantissa. cbn [pc_mul pc_factor PC].
  split; [assumption|]. split; [reflexivity|]. split; [|split; [|reflexivity]].
  - eapply Qle_trans; [exact B1|]. now apply Qmult_le_compat_r.
  - eapply Qle_trans; [|exact B2]. now apply Qmult_le_compat_r.
Qed.

Lemma chain_small a :
  / inject_Z F1e15 <= a -> a <= 1 -> small_ok a (chain F1e18 a).
Proof.
  intros Hlo Hhi. unfold chain.
  assert (Big : forall F, (1 < F)%Z -> Qle_bool (inject_Z F) a = false).
  { intros F HF. destruct (Qle_bool (inject_Z F) a) eqn:E; [|reflexivity]. exfalso.
    apply Qle_bool_iff in E. assert (X : inject_Z F <= 1) by (eapply Qle_trans; eassumption).
    unfold Qle, inject_Z in X. simpl in X. lia. }
  rewrite !Big by reflexivity.
  destruct (Qle_bool a F1em12) eqn:E1.
  { apply Qle_bool_iff in E1. apply (small_branch F1e15 (/ inject_Z F1e15) F1em12); try assumption; reflexivity. }
  apply Qle_bool_false, Qlt_le_weak in E1.
  destruct (Qle_bool a F1em09) eqn:E2.
  { apply Qle_bool_iff in E2. apply (small_branch F1e12 F1em12 F1em09); try assumption; reflexivity. }
  apply Qle_bool_false, Qlt_le_weak in E2.
  destruct (Qle_bool a F1em06) eqn:E3.
  { apply Qle_bool_iff in E3. apply (small_branch F1e09 F1em09 F1em06); try assumption; reflexivity. }
  apply Qle_bool_false, Qlt_le_weak in E3.
  destruct (Qle_bool a F1em03) eqn:E4.
  { apply Qle_bool_iff in E4. apply (small_branch F1e06 F1em06 F1em03); try assumption; reflexivity. }
  apply Qle_bool_false, Qlt_le_weak in E4.
  destruct (Qle_bool a 1) eqn:E5.
  { apply Qle_bool_iff in E5. apply (small_branch F1e03 F1em03 1); try assumption; reflexivity. }
  apply Qle_bool_false in E5. exfalso. apply (Qlt_irrefl a). eapply Qle_lt_trans; eassumption.
Qed.

(* prettyDouble, 1/1e15f <= |v| <= 1 *)
Lemma pretty_suffix_small v :
  / inject_Z F1e15 <= Qabs v -> Qabs v <= 1 ->
  let c := pd_choice v in
  pc_wf c = true /\ pc_mul c = true /\
  1 - tol <= Qabs (pretty_mantissa c v) /\ Qabs (pretty_mantissa c v) <= 1000 * (1 + tol) /\
  Qabs (pretty_mantissa c v) == Qabs v * inject_Z (pc_factor c).
Proof.
  intros H1 H2. cbv zeta. unfold pd_choice. rewrite pd_choice_chain.
  destruct (chain_small _ H1 H2) as (W & M & L1 & L2 & L3).
  rewrite (mant_abs _ v (pc_wf_factor _ W)). repeat split; assumption.
Qed.

(* between 1 and 1000 no suffix is used *)
Lemma pretty_plain v : 1 < Qabs v -> Qabs v < inject_Z F1e03 -> pc_suffix (pd_choice v) = 0%N.
Proof.
  intros H1 H2. unfold pd_choice. rewrite pd_choice_chain. set (a := Qabs v) in *. unfold chain.
  assert (Big : forall F, (F1e03 <= F)%Z -> Qle_bool (inject_Z F) a = false).
  { intros F HF. destruct (Qle_bool (inject_Z F) a) eqn:E; [|reflexivity]. exfalso.
    apply Qle_bool_iff in E. assert (X : inject_Z F < inject_Z F1e03) by (eapply Qle_lt_trans; eassumption).
    unfold Qlt, inject_Z in X. cbn [Qnum Qden] in X. unfold F1e03 in *. lia. }
  rewrite !Big by (apply Z.leb_le; reflexivity).
  assert (Small : forall q, Qle_bool q 1 = true -> Qle_bool a q = false).
  { intros q Hq. destruct (Qle_bool a q) eqn:E; [|reflexivity]. exfalso.
    apply Qle_bool_iff in E. apply Qle_bool_iff in Hq. apply (Qlt_irrefl a).
    eapply Qle_lt_trans; [exact E|]. eapply Qle_lt_trans; eassumption. }
  rewrite !Small by reflexivity. reflexivity.
Qed.

(* ------------------------------------------------------------- prettyNumber *)
Lemma pn_choice_chain first s :
  (F1e03 <= first)%Z ->
  pn_choice_gen first s = let d := Z.of_N (double_of_N s) in
    if (F1e03 <=? d)%Z then chain first (inject_Z d) else PC false 1 0.
Proof.
  intro Hfirst. unfold pn_choice_gen, chain. cbv zeta. set (d := Z.of_N (double_of_N s)). clearbody d.
  assert (T : forall F, Qle_bool (inject_Z F) (inject_Z d) = (F <=? d)%Z).
  { intro F. unfold Qle_bool, inject_Z. cbn [Qnum Qden]. now rewrite !Z.mul_1_r. }
  rewrite !T.
  repeat match goal with
         | |- context [if (?F <=? d)%Z then _ else _] => destruct (F <=? d)%Z eqn:?; try reflexivity
         end.
  all: unfold F1e18, F1e15, F1e12, F1e09, F1e06, F1e03 in *; lia.
Qed.

(* prettyNumber(s): the size_t is first converted to double (round to nearest even); for
   d = (double)s >= 1000 the same statement as for prettyDouble holds exactly *)
Lemma pretty_number_suffix s :
  let d := Z.of_N (double_of_N s) in
  (F1e03 <= d < 1000 * F1e18)%Z ->
  large_ok (inject_Z d) (pn_choice s).
Proof.
  cbv zeta. intros [H1 H2]. unfold pn_choice. rewrite pn_choice_chain by (apply Z.leb_le; reflexivity). cbv zeta.
  rewrite (proj2 (Z.leb_le _ _) H1). apply chain_large.
  - now rewrite <- Zle_Qle.
  - now rewrite <- Zlt_Qlt.
Qed.

Lemma pretty_number_plain s :
  (Z.of_N (double_of_N s) < F1e03)%Z -> pc_suffix (pn_choice s) = 0%N.
Proof.
  intro H. unfold pn_choice. rewrite pn_choice_chain by (apply Z.leb_le; reflexivity). cbv zeta.
  destruct (Z.leb_spec F1e03 (Z.of_N (double_of_N s))); [lia | reflexivity].
Qed.

(* every size_t below 2^53 is converted exactly *)
Lemma double_of_N_exact s : (s < 2 ^ 53)%N -> double_of_N s = s.
Proof.
  intro H. unfold double_of_N.
  assert (L : (N.size s <= 53)%N).
  { destruct (N.eq_dec s 0) as [->|Hne]; [cbn; lia|].
    rewrite N.size_log2 by assumption. apply N.le_succ_l. apply N.log2_lt_pow2; lia. }
  now rewrite (proj2 (N.leb_le _ _) L).
Qed.

(* ---------------------------------------------------------------- refutation *)
(* /repo before the repair tested ">= 1e15f" first and divided by 1e18f: 2*10^16 was
   printed with mantissa 0.02 and suffix E; the repaired chain gives 20.0 P *)
Lemma pretty_exa_old_refuted :
  exists v : Q,
    inject_Z F1e15 <= v /\ v < inject_Z F1e18 /\
    pc_suffix (pd_choice_old v) = 69%N /\ pretty_mantissa (pd_choice_old v) v < 1 /\
    pc_suffix (pd_choice v) = 80%N /\
    pc_suffix (pn_choice_old 20000000000000000) = 69%N /\ pc_suffix (pn_choice 20000000000000000) = 80%N.
Proof.
  exists (inject_Z 20000000000000000).
  split; [vm_compute; discriminate|]. split; [vm_compute; reflexivity|].
  split; [vm_compute; reflexivity|]. split; [vm_compute; reflexivity|].
  split; [vm_compute; reflexivity|]. split; vm_compute; reflexivity.
Qed.
