From Common Require Import Prelude.
From C18 Require Import Model.
