(* C18 — proofs about ArgumentList::remove, ArgumentsParser::parseAndRemove (for an
   arbitrary tryConsume) and removeArgs (common.cpp). *)
From Common Require Import Prelude.
From C18 Require Import Model.

(* --------------------------------------------------------- remove(where, k) *)
Lemma erase_at_spec {A} i (l : list A) : erase_at i l = firstn i l ++ skipn (S i) l.
Proof.
  revert i; induction l as [|x l IH]; intros [|i]; simpl; try reflexivity.
  f_equal. apply IH.
Qed.

Lemma skipn_skipn' {A} x y (l : list A) : skipn x (skipn y l) = skipn (y + x) l.
Proof.
  revert l; induction y as [|y IH]; intro l; [reflexivity|].
  destruct l as [|a l]; [now destruct x | apply IH].
Qed.

Lemma al_remove_spec {A} (l : list A) w k : al_remove l w k = firstn w l ++ skipn (w + k) l.
Proof.
  revert l; induction k as [|k IH]; intro l.
  - simpl. rewrite Nat.add_0_r. symmetry. apply firstn_skipn.
  - cbn [al_remove]. rewrite IH, erase_at_spec.
    destruct (Nat.le_gt_cases w (length l)) as [Hle | Hgt].
    + assert (Lw : length (firstn w l) = w) by (apply firstn_length_le; assumption).
      rewrite firstn_app, firstn_firstn, Lw, Nat.min_id, Nat.sub_diag, firstn_O, app_nil_r.
      rewrite skipn_app, Lw. rewrite (skipn_all2 (firstn w l)) by lia. rewrite app_nil_l.
      rewrite skipn_skipn'. f_equal. f_equal. lia.
    + assert (E1 : firstn w l = l) by (apply firstn_all2; lia).
      assert (E2 : forall m, w <= m -> skipn m l = []) by (intros; apply skipn_all2; lia).
      rewrite E1, (E2 (S w)), app_nil_r, E1, !E2 by lia. reflexivity.
Qed.

(* ---------------------------------------------------------- subsequences *)
Inductive subseq {A} : list A -> list A -> Prop :=
| sub_nil : subseq [] []
| sub_keep x a b : subseq a b -> subseq (x :: a) (x :: b)
| sub_drop x a b : subseq a b -> subseq a (x :: b).

Lemma subseq_refl {A} (l : list A) : subseq l l.
Proof. induction l; constructor; assumption. Qed.

Lemma subseq_skipn {A} n (a r : list A) : subseq a (skipn n r) -> subseq a r.
Proof.
  revert r; induction n as [|n IH]; intros [|x r] H; simpl in H; try assumption.
  constructor. now apply IH.
Qed.

Section ParseAndRemove.
  (* the virtual call: ANY function of the current list and position ... *)
  Variable tryConsume : list str -> nat -> nat.
  (* ... that does not claim more arguments than there are (0 <= k <= size - argID) *)
  Hypothesis tc_bound : forall l i, i < length l -> tryConsume l i <= length l - i.

  (* [run kept rest res]: starting with the arguments [kept] already passed over and
     [rest] still to look at, the parser ends with the list [res].  Every step is
     justified by the answer of tryConsume on the list as it is at that moment:
     answer 0 keeps the argument, answer n > 0 deletes exactly the next n arguments. *)
  Inductive run : list str -> list str -> list str -> Prop :=
  | run_done k : run k [] k
  | run_keep k x r res :
      tryConsume (k ++ x :: r) (length k) = 0 -> run (k ++ [x]) r res -> run k (x :: r) res
  | run_take k r n res :
      n = tryConsume (k ++ r) (length k) -> 0 < n <= length r -> run k (skipn n r) res -> run k r res.

  Lemma firstn_len_app (k r : list str) : firstn (length k) (k ++ r) = k.
  Proof. rewrite firstn_app, Nat.sub_diag, firstn_all. simpl. apply app_nil_r. Qed.

  Lemma skipn_len_app (k r : list str) n : skipn (length k + n) (k ++ r) = skipn n r.
  Proof.
    rewrite skipn_app. rewrite (skipn_all2 k) by lia. simpl. f_equal. lia.
  Qed.

  Lemma par_loop_run fuel : forall k r,
    length r <= fuel ->
    exists res, par_loop tryConsume fuel (k ++ r) (length k) = Some res /\ run k r res.
  Proof.
    induction fuel as [|f IH]; intros k r Hf.
    - destruct r as [|x r]; [|simpl in Hf; lia].
      exists k. rewrite app_nil_r. simpl. rewrite Nat.ltb_irrefl. split; [reflexivity | constructor].
    - destruct r as [|x r].
      + exists k. rewrite app_nil_r. simpl. rewrite Nat.ltb_irrefl. split; [reflexivity | constructor].
      + cbn [par_loop].
        assert (Hlt : length k < length (k ++ x :: r)) by (rewrite app_length; simpl; lia).
        rewrite (proj2 (Nat.ltb_lt _ _) Hlt).
        pose proof (tc_bound _ _ Hlt) as Hb. rewrite app_length in Hb. simpl in Hb.
        destruct (Nat.eqb_spec (tryConsume (k ++ x :: r) (length k)) 0) as [E0 | Hn0].
        * destruct (IH (k ++ [x]) r) as (res & Hres & Hrun); [simpl in Hf; lia|].
          exists res. rewrite <- app_assoc, app_length, Nat.add_1_r in Hres. simpl in Hres.
          split; [exact Hres | now apply run_keep].
        * set (n := tryConsume (k ++ x :: r) (length k)) in *.
          rewrite al_remove_spec, firstn_len_app, skipn_len_app.
          destruct (IH k (skipn n (x :: r))) as (res & Hres & Hrun).
          { rewrite skipn_length. clearbody n. cbn [length] in *. lia. }
          exists res. split; [exact Hres|].
          apply (run_take k (x :: r) n res); [reflexivity | clearbody n; cbn [length] in *; lia | exact Hrun].
  Qed.

  (* the parser never runs out of fuel and ends with what [run] describes *)
  Lemma parseAndRemove_run l :
    exists res, parseAndRemove tryConsume l = Some res /\ run [] l res.
  Proof. exact (par_loop_run (length l) [] l (le_n _)). Qed.

  (* what remains are arguments of the input, in their original order *)
  Lemma run_subseq k r res : run k r res -> exists kept, res = k ++ kept /\ subseq kept r.
  Proof.
    induction 1 as [k | k x r res H0 _ (kept & -> & Hs) | k r n res Hn Hb _ (kept & -> & Hs)].
    - exists []. rewrite app_nil_r. split; [reflexivity | constructor].
    - exists (x :: kept). rewrite <- app_assoc. split; [reflexivity | now constructor].
    - exists kept. split; [reflexivity | now apply (subseq_skipn n)].
  Qed.

  (* [run] is a function of its inputs: "exactly" the unconsumed arguments *)
  Lemma run_functional k r res1 : run k r res1 -> forall res2, run k r res2 -> res1 = res2.
  Proof.
    induction 1 as [k | k x r res H0 _ IH | k r n res Hn Hb _ IH]; intros res2 H2.
    - inversion H2; subst; [reflexivity | simpl in *; lia].
    - inversion H2; subst; [now apply IH | lia].
    - inversion H2; subst.
      + simpl in Hb. lia.
      + lia.
      + now apply IH.
  Qed.

  Lemma arglist_remaining l :
    exists res, parseAndRemove tryConsume l = Some res /\ run [] l res /\ subseq res l /\
                (forall res', run [] l res' -> res' = res).
  Proof.
    destruct (parseAndRemove_run l) as (res & H1 & H2). exists res.
    split; [assumption|]. split; [assumption|]. split.
    - destruct (run_subseq _ _ _ H2) as (kept & -> & Hs). exact Hs.
    - intros res' H'. symmetry. now apply (run_functional _ _ _ H2).
  Qed.
End ParseAndRemove.

(* a parser that never consumes leaves the list alone; one that consumes everything empties it *)
Lemma run_all_kept k r : run (fun _ _ => 0) k r (k ++ r).
Proof.
  revert k; induction r as [|x r IH]; intro k.
  - rewrite app_nil_r. constructor.
  - apply run_keep; [reflexivity|]. replace (k ++ x :: r) with ((k ++ [x]) ++ r) by now rewrite <- app_assoc. apply IH.
Qed.

(* ------------------------------------------------------------- removeArgs *)
Lemma upd_length {A} i (x : A) l : length (upd i x l) = length l.
Proof. revert i; induction l as [|y l IH]; intros [|i]; simpl; try reflexivity. now rewrite IH. Qed.

Lemma nth_upd {A} p i (x d : A) l :
  nth p (upd i x l) d = if Nat.eqb p i && Nat.ltb i (length l) then x else nth p l d.
Proof.
  revert p i; induction l as [|y l IH]; intros p i.
  - destruct i, p; simpl; try reflexivity. now rewrite andb_false_r.
  - destruct i as [|i], p as [|p]; simpl; try reflexivity.
    rewrite IH. reflexivity.
Qed.

Lemma ra_loop_spec {A} (d : A) k n : forall i av,
  k <= i -> i + n <= length av ->
  length (ra_loop n i k d av) = length av /\
  forall p, nth p (ra_loop n i k d av) d =
            if Nat.leb (i - k) p && Nat.ltb p (i - k + n) then nth (p + k) av d else nth p av d.
Proof.
  induction n as [|n IH]; intros i av Hk Hi.
  - split; [reflexivity|]. intro p. simpl. destruct (Nat.leb_spec (i - k) p), (Nat.ltb_spec p (i - k + 0)); simpl; try reflexivity; lia.
  - cbn [ra_loop]. destruct (IH (S i) (upd (i - k) (nth i av d) av)) as [L Hn]; [lia | rewrite upd_length; lia |].
    rewrite upd_length in L. split; [exact L|].
    intro p. rewrite Hn. rewrite !nth_upd.
    destruct (Nat.leb_spec (S i - k) p), (Nat.ltb_spec p (S i - k + n)),
             (Nat.leb_spec (i - k) p), (Nat.ltb_spec p (i - k + S n)),
             (Nat.eqb_spec (p + k) (i - k)), (Nat.eqb_spec p (i - k)), (Nat.ltb_spec (i - k) (length av));
      simpl; try reflexivity; try lia; f_equal; lia.
Qed.

Lemma nth_firstn_lt {A} p m (l : list A) d : p < m -> nth p (firstn m l) d = nth p l d.
Proof.
  revert p l; induction m as [|m IH]; intros p l H; [lia|].
  destruct l as [|x l]; [now destruct p|]. destruct p as [|p]; simpl; [reflexivity|]. apply IH. lia.
Qed.

Lemma nth_skipn_add {A} p m (l : list A) d : nth p (skipn m l) d = nth (m + p) l d.
Proof.
  revert l; induction m as [|m IH]; intro l; [reflexivity|].
  destruct l as [|x l]; [now destruct p|]. simpl. apply IH.
Qed.

(* removeArgs(ac, av, where, howMany): the first ac' entries of av afterwards are the
   arguments outside [where, where+howMany), in order *)
Lemma removeArgs_spec {A} (d : A) ac av w k :
  length av = ac -> w + k <= ac ->
  fst (removeArgs d ac av w k) = ac - k /\
  length (snd (removeArgs d ac av w k)) = ac /\
  firstn (ac - k) (snd (removeArgs d ac av w k)) = firstn w av ++ skipn (w + k) av.
Proof.
  intros Hl Hw. unfold removeArgs. cbn [fst snd].
  destruct (ra_loop_spec d k (ac - (w + k)) (w + k) av) as [L Hn]; [lia | lia |].
  split; [reflexivity|]. split; [lia|].
  apply (nth_ext _ _ d d).
  - rewrite app_length, !firstn_length, skipn_length. lia.
  - intros p Hp. rewrite firstn_length in Hp. rewrite nth_firstn_lt by lia. rewrite Hn.
    destruct (Nat.leb_spec (w + k - k) p), (Nat.ltb_spec p (w + k - k + (ac - (w + k)))); simpl; try lia.
    + rewrite app_nth2; rewrite firstn_length; [|lia].
      rewrite nth_skipn_add. f_equal. lia.
    + rewrite app_nth1 by (rewrite firstn_length; lia). rewrite nth_firstn_lt by lia. reflexivity.
Qed.

(* ArgumentList(ac, av) drops av[0]; remove(where, k) deletes exactly [where, where+k) *)
Lemma arglist_remove_spec (av : list str) w k :
  al_remove (al_ctor av) w k = firstn w (tl av) ++ skipn (w + k) (tl av).
Proof. apply al_remove_spec. Qed.
