(* C18 — proofs about StringManip.h (prefix functions, split, tokenize, case mapping). *)
From Common Require Import Prelude.
From C18 Require Import Model.
Local Open Scope N_scope.

Definition prefix (p s : str) : Prop := exists t, s = p ++ t.

(* ------------------------------------------------------------------ lbm *)
Lemma lbm_prefix_l a b : prefix (lbm a b) a.
Proof.
  revert b; induction a as [|x a IH]; intros [|y b]; simpl; try (now exists []); try (now eexists).
  destruct (N.eqb_spec x y) as [->|Hne].
  - destruct (IH b) as [t Ht]. exists t. simpl. now f_equal.
  - now eexists.
Qed.

Lemma lbm_prefix_r a b : prefix (lbm a b) b.
Proof.
  revert b; induction a as [|x a IH]; intros [|y b]; simpl; try (now eexists).
  destruct (N.eqb_spec x y) as [->|Hne].
  - destruct (IH b) as [t Ht]. exists t. simpl. now f_equal.
  - now eexists.
Qed.

Lemma lbm_longest a b p : prefix p a -> prefix p b -> prefix p (lbm a b).
Proof.
  revert a b; induction p as [|c p IH]; intros a b [ta Ha] [tb Hb].
  - now eexists.
  - subst a b. simpl. rewrite N.eqb_refl.
    destruct (IH (p ++ ta) (p ++ tb)) as [t Ht]; [now eexists | now eexists |].
    exists t. simpl. now f_equal.
Qed.

Lemma lbm_is_lcp a b :
  prefix (lbm a b) a /\ prefix (lbm a b) b /\
  (forall p, prefix p a -> prefix p b -> prefix p (lbm a b)) /\
  (forall x y ta tb, a = lbm a b ++ x :: ta -> b = lbm a b ++ y :: tb -> x <> y).
Proof.
  repeat split; [apply lbm_prefix_l | apply lbm_prefix_r | apply lbm_longest |].
  intros x y ta tb Ha Hb E. subst y.
  assert (P : prefix (lbm a b ++ [x]) (lbm a b)).
  { apply lbm_longest; [exists ta | exists tb]; rewrite <- app_assoc; assumption. }
  destruct P as [t Ht]. apply (f_equal (@length N)) in Ht. rewrite !app_length in Ht. simpl in Ht. lia.
Qed.

Lemma lbm_self_app p t : lbm (p ++ t) p = p.
Proof. induction p as [|c p IH]; simpl; [now destruct t | now rewrite N.eqb_refl, IH]. Qed.

Lemma beginsWith_prefix s p : beginsWith s p = true <-> prefix p s.
Proof.
  unfold beginsWith. rewrite Nat.eqb_eq. split.
  - intro H. destruct (lbm_prefix_r s p) as [t Ht].
    assert (t = []) as ->.
    { apply (f_equal (@length N)) in Ht. rewrite app_length in Ht. destruct t; [reflexivity | simpl in Ht; lia]. }
    rewrite app_nil_r in Ht. rewrite Ht. apply lbm_prefix_l.
  - intros [t ->]. now rewrite lbm_self_app.
Qed.

(* ------------------------------------------------------------ split(char) *)
Lemma split_char_concat s d :
  concat (split_char s d) = filter (fun c => negb (N.eqb c d)) s /\
  Forall (fun t => ~ In d t) (split_char s d).
Proof.
  induction s as [|c s [IH1 IH2]]; simpl; [split; [reflexivity | constructor]|].
  destruct (N.eqb_spec c d) as [->|Hne]; simpl.
  - split; [assumption | constructor; [intros [] | assumption]].
  - destruct (split_char s d) as [|t ts]; simpl in *.
    + split; [now rewrite <- IH1 | constructor; [intros [E|[]]; congruence | constructor]].
    + split; [now rewrite <- IH1 |].
      inversion IH2; subst. constructor; [intros [E|I]; [congruence | contradiction] | assumption].
Qed.

(* re-joining: intercalate the delimiter *)
Fixpoint join (d : N) (l : list str) : str :=
  match l with
  | [] => []
  | [t] => t
  | t :: l' => t ++ d :: join d l'
  end.

Lemma join_cons2 d t u l : join d (t :: u :: l) = t ++ d :: join d (u :: l).
Proof. reflexivity. Qed.

(* the join of the tokens is the input, up to the one trailing delimiter that getline swallows *)
Lemma split_char_join s d :
  (split_char s d = [] <-> s = []) /\
  (s = join d (split_char s d) \/ (s = join d (split_char s d) ++ [d] /\ split_char s d <> [])).
Proof.
  induction s as [|c s [IHe IH]]; cbn [split_char].
  - split; [tauto | now left].
  - destruct (N.eqb_spec c d) as [->|Hne].
    + split; [split; discriminate|].
      destruct (split_char s d) as [|t ts] eqn:E.
      * right. destruct IHe as [IHe _]. rewrite (IHe eq_refl). split; [reflexivity | discriminate].
      * rewrite join_cons2, app_nil_l.
        destruct IH as [IH | [IH _]].
        -- left. now rewrite <- IH.
        -- right. split; [|discriminate]. rewrite <- app_comm_cons. now rewrite <- IH.
    + destruct (split_char s d) as [|t ts] eqn:E.
      * split; [split; discriminate|]. destruct IHe as [IHe _]. rewrite (IHe eq_refl). now left.
      * split; [split; discriminate|].
        destruct ts as [|u ts].
        -- simpl in *. destruct IH as [IH | [IH _]]; [left | right; split; [|discriminate]]; now rewrite IH at 1.
        -- rewrite join_cons2. rewrite <- !app_comm_cons.
           destruct IH as [IH | [IH _]]; [left | right; split; [|discriminate]]; now rewrite IH at 1.
Qed.

(* ------------------------------------------- split(set) / tokenize: maximal runs *)
(* s = sep_1 ++ t_1 ++ sep_2 ++ t_2 ++ ... ++ sep_n ++ t_n *)
Fixpoint wv (seps toks : list str) : str :=
  match seps, toks with
  | sp :: seps', t :: toks' => sp ++ t ++ wv seps' toks'
  | _, _ => []
  end.

Definition last1 (sp : str) : str :=
  match rev sp with
  | [] => []
  | c :: _ => [c]
  end.

(* the token t_i, with the character in front of it when keepDelim *)
Fixpoint zipw (keep : bool) (seps toks : list str) : list str :=
  match seps, toks with
  | sp :: seps', t :: toks' => ((if keep then last1 sp else []) ++ t) :: zipw keep seps' toks'
  | _, _ => []
  end.

Definition all_in (isd : N -> bool) (b : bool) (t : str) : Prop := Forall (fun c => isd c = b) t.
Definition tok_ok (isd : N -> bool) (t : str) : Prop := t <> [] /\ all_in isd false t.

Lemma last1_cons c sp : sp <> [] -> last1 (c :: sp) = last1 sp.
Proof.
  intro H. unfold last1. simpl.
  destruct (rev sp) as [|x r] eqn:E.
  - apply (f_equal (@rev N)) in E. rewrite rev_involutive in E. contradiction.
  - reflexivity.
Qed.

Lemma zipw_false seps toks : length seps = length toks -> zipw false seps toks = toks.
Proof.
  revert toks; induction seps as [|sp seps IH]; intros [|t toks] H; simpl in *; try discriminate; try reflexivity.
  f_equal. apply IH. lia.
Qed.

Lemma sset_runs isd s :
  exists run seps core trail,
    all_in isd false run /\
    length seps = length core /\
    Forall (all_in isd true) (trail :: seps) /\
    Forall (fun sp => sp <> []) seps /\
    Forall (tok_ok isd) core /\
    s = run ++ wv seps core ++ trail /\
    forall keep, sset isd keep s = (run, zipw keep seps core).
Proof.
  induction s as [|c s (run & seps & core & trail & Hrun & Hlen & Hsep & Hne & Hcore & Hs & Hk)].
  - exists [], [], [], []. repeat split; repeat constructor.
  - destruct (isd c) eqn:Hc.
    + (* c is a delimiter *)
      destruct run as [|r0 run].
      * destruct seps as [|sp seps].
        -- destruct core; [|discriminate].
           exists [], [], [], (c :: trail). simpl in *.
           inversion Hsep; subst.
           repeat split; try constructor; try assumption.
           ++ constructor; assumption.
           ++ intro keep. cbn [sset]. rewrite Hk, Hc. reflexivity.
        -- destruct core as [|t core]; [discriminate|].
           exists [], ((c :: sp) :: seps), (t :: core), trail.
           inversion Hsep as [|? ? Htr Hsep']; subst. inversion Hsep' as [|? ? Hsp Hsep'']; subst.
           inversion Hne; subst.
           repeat split; try assumption.
           ++ constructor; [assumption|]. constructor; [constructor; assumption | assumption].
           ++ constructor; [discriminate | assumption].
           ++ intro keep. cbn [sset]. rewrite Hk, Hc. simpl. rewrite last1_cons by assumption. reflexivity.
      * exists [], ([c] :: seps), ((r0 :: run) :: core), trail.
        inversion Hsep as [|? ? Htr Hsep']; subst.
        repeat split.
        -- constructor.
        -- simpl. lia.
        -- constructor; [assumption|]. constructor; [constructor; [assumption | constructor] | assumption].
        -- constructor; [discriminate | assumption].
        -- constructor; [split; [discriminate | assumption] | assumption].
        -- simpl. now rewrite <- app_assoc.
        -- intro keep. cbn [sset]. rewrite Hk, Hc. destruct keep; reflexivity.
    + exists (c :: run), seps, core, trail.
      repeat split; try assumption.
      * constructor; assumption.
      * simpl. now rewrite Hs.
      * intro keep. cbn [sset]. rewrite Hk, Hc. reflexivity.
Qed.

(* The tokens of split(input, delims, keepDelim) are exactly the maximal delimiter-free runs:
   the input is sep_1 t_1 ... sep_n t_n trail with every sep_i / trail made of delimiters,
   every sep_i but possibly the first non-empty, every t_i non-empty and delimiter-free;
   without keepDelim the result is t_1..t_n, with keepDelim each t_i is preceded by the last
   character of sep_i (none for a token at position 0). *)
Lemma split_pred_runs isd s :
  exists seps core trail,
    length seps = length core /\
    Forall (all_in isd true) (trail :: seps) /\
    Forall (fun sp => sp <> []) (tl seps) /\
    Forall (tok_ok isd) core /\
    s = wv seps core ++ trail /\
    split_pred isd false s = core /\
    split_pred isd true s = zipw true seps core.
Proof.
  destruct (sset_runs isd s) as (run & seps & core & trail & Hrun & Hlen & Hsep & Hne & Hcore & Hs & Hk).
  unfold split_pred. rewrite !Hk.
  destruct run as [|r0 run].
  - exists seps, core, trail. simpl. repeat split; try assumption.
    + destruct seps; [constructor | now inversion Hne].
    + now apply zipw_false.
  - exists ([] :: seps), ((r0 :: run) :: core), trail.
    inversion Hsep; subst.
    repeat split.
    + simpl; lia.
    + constructor; [assumption|]. constructor; [constructor | assumption].
    + assumption.
    + constructor; [split; [discriminate | assumption] | assumption].
    + simpl. now rewrite <- app_assoc.
    + simpl. f_equal. now apply zipw_false.
Qed.

Lemma filter_all_false (p : N -> bool) t : Forall (fun c => p c = false) t -> filter p t = [].
Proof. induction 1 as [|c t Hc _ IH]; simpl; [reflexivity | now rewrite Hc]. Qed.
Lemma filter_all_true (p : N -> bool) t : Forall (fun c => p c = true) t -> filter p t = t.
Proof. induction 1 as [|c t Hc _ IH]; simpl; [reflexivity | now rewrite Hc, IH]. Qed.

Lemma wv_filter isd seps core :
  length seps = length core -> Forall (all_in isd true) seps -> Forall (all_in isd false) core ->
  filter (fun c => negb (isd c)) (wv seps core) = concat core.
Proof.
  revert core; induction seps as [|sp seps IH]; intros [|t core] Hl Hs Hc; simpl in *; try discriminate; try reflexivity.
  inversion Hs; subst. inversion Hc; subst.
  rewrite !filter_app, IH by (try lia; assumption).
  rewrite (filter_all_false _ sp), (filter_all_true _ t); [reflexivity | |].
  - eapply Forall_impl; [|eassumption]. cbv beta. now intros a ->.
  - eapply Forall_impl; [|eassumption]. cbv beta. now intros a ->.
Qed.

Lemma split_pred_concat isd s :
  concat (split_pred isd false s) = filter (fun c => negb (isd c)) s.
Proof.
  destruct (split_pred_runs isd s) as (seps & core & trail & Hlen & Hsep & _ & Hcore & Hs & Hf & _).
  rewrite Hf. inversion Hsep; subst.
  rewrite filter_app, wv_filter; try assumption.
  - rewrite (filter_all_false _ trail), app_nil_r; [reflexivity|].
    eapply Forall_impl; [|eassumption]. cbv beta. now intros a ->.
  - eapply Forall_impl; [|exact Hcore]. now intros a [_ H].
Qed.

(* ---------------------------------------------------------------- tokenize *)
Lemma fields_sset s d :
  let isd := fun c => N.eqb c d in
  fst (fields s d) = fst (sset isd false s) /\
  filter (fun t => Nat.ltb 0 (length t)) (snd (fields s d)) = snd (sset isd false s).
Proof.
  induction s as [|c s [IH1 IH2]]; simpl; [split; reflexivity|].
  destruct (fields s d) as [f fs]. destruct (sset (fun c0 => N.eqb c0 d) false s) as [run toks].
  simpl in *. subst run.
  destruct (N.eqb c d); simpl; [|split; [reflexivity | assumption]].
  split; [reflexivity|]. destruct f; simpl; [assumption | now rewrite IH2].
Qed.

Lemma tokenize_split_pred s d : tokenize s d = split_pred (fun c => N.eqb c d) false s.
Proof.
  unfold tokenize, tokenize_gen, split_pred.
  pose proof (fields_sset s d) as [H1 H2]. cbv zeta in *.
  destruct (fields s d) as [f fs]. destruct (sset (fun c => N.eqb c d) false s) as [run toks].
  simpl in *. subst run. rewrite <- H2. destruct f; reflexivity.
Qed.

Lemma sset_ext f g keep s : (forall c, f c = g c) -> sset f keep s = sset g keep s.
Proof. intro H. induction s as [|c s IH]; simpl; [reflexivity | now rewrite IH, H]. Qed.

Lemma tokenize_is_split_set s d : tokenize s d = split_set s [d] false.
Proof.
  rewrite tokenize_split_pred. unfold split_set, split_pred.
  rewrite (sset_ext (fun c => N.eqb c d) (fun c => mem c [d])); [reflexivity|].
  intro c. unfold mem. simpl. now rewrite orb_false_r.
Qed.

Lemma tokenize_old_drops : exists s d, tokenize_old s d <> tokenize s d /\ tokenize_old s d <> split_set s [d] false.
Proof. exists [97; 58; 98; 99; 58; 100], 58. split; vm_compute; discriminate. Qed.

(* ---------------------------------------------------- lowerCase / upperCase *)
Lemma lower_pointwise s :
  length (lowerCase s) = length s /\
  forall i c, nth_error s i = Some c ->
    nth_error (lowerCase s) i = Some (if (65 <=? c) && (c <=? 90) then c + 32 else c).
Proof.
  unfold lowerCase. split; [apply map_length|].
  intros i c H. rewrite nth_error_map, H. reflexivity.
Qed.

Lemma upper_pointwise s :
  length (upperCase s) = length s /\
  forall i c, nth_error s i = Some c ->
    nth_error (upperCase s) i = Some (if (97 <=? c) && (c <=? 122) then c - 32 else c).
Proof.
  unfold upperCase. split; [apply map_length|].
  intros i c H. rewrite nth_error_map, H. reflexivity.
Qed.

Lemma case_roundtrip s : lowerCase (upperCase (lowerCase s)) = lowerCase s /\ upperCase (lowerCase (upperCase s)) = upperCase s.
Proof.
  unfold lowerCase, upperCase. rewrite !map_map. split; apply map_ext; intro c; unfold tolower, toupper;
  repeat match goal with |- context [if ?b then _ else _] => destruct b eqn:? end; lia.
Qed.

(* ------------------------------------- the statements for split(set) and tokenize *)
Lemma split_set_tokens s delims :
  let isd := fun c => mem c delims in
  exists seps core trail,
    length seps = length core /\
    Forall (all_in isd true) (trail :: seps) /\
    Forall (fun sp => sp <> []) (tl seps) /\
    Forall (tok_ok isd) core /\
    s = wv seps core ++ trail /\
    split_set s delims false = core /\
    split_set s delims true = zipw true seps core.
Proof. cbv zeta. unfold split_set. apply split_pred_runs. Qed.

Lemma split_set_concat s delims :
  concat (split_set s delims false) = filter (fun c => negb (mem c delims)) s /\
  Forall (fun t => t <> [] /\ forall c, In c t -> mem c delims = false) (split_set s delims false).
Proof.
  split; [unfold split_set; apply split_pred_concat|].
  destruct (split_set_tokens s delims) as (seps & core & trail & _ & _ & _ & Hcore & _ & -> & _).
  eapply Forall_impl; [|exact Hcore]. intros t [Hne Hall]. split; [assumption|].
  intros c Hc. unfold all_in in Hall. rewrite Forall_forall in Hall. now apply Hall.
Qed.

Lemma tokenize_tokens s d :
  let isd := fun c => N.eqb c d in
  exists seps core trail,
    length seps = length core /\
    Forall (all_in isd true) (trail :: seps) /\
    Forall (fun sp => sp <> []) (tl seps) /\
    Forall (tok_ok isd) core /\
    s = wv seps core ++ trail /\
    tokenize s d = core.
Proof.
  cbv zeta. rewrite tokenize_split_pred.
  destruct (split_pred_runs (fun c => N.eqb c d) s) as (seps & core & trail & H1 & H2 & H3 & H4 & H5 & H6 & _).
  exists seps, core, trail. repeat split; assumption.
Qed.

Lemma tokenize_concat s d :
  concat (tokenize s d) = filter (fun c => negb (N.eqb c d)) s /\
  Forall (fun t => t <> [] /\ ~ In d t) (tokenize s d).
Proof.
  split; [rewrite tokenize_split_pred; apply split_pred_concat|].
  destruct (tokenize_tokens s d) as (seps & core & trail & _ & _ & _ & Hcore & _ & ->).
  eapply Forall_impl; [|exact Hcore]. intros t [Hne Hall]. split; [assumption|].
  intro I. unfold all_in in Hall. rewrite Forall_forall in Hall. apply Hall in I. now rewrite N.eqb_refl in I.
Qed.
