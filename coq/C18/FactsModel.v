(* C18 - the vocabulary of the source-derived facts (gen/Facts.v, regenerated from the working
   tree by props/C18/factgen.py on every run), its reading in terms of Model.v, and the
   hand-proved lemmas about the EXPECTED facts.  FactsCheck.v shows that the extracted facts
   are the expected ones. *)
From Common Require Import Prelude.
From Coq Require Import QArith Qabs.
From C18 Require Import Model.

(* ---------------------------------------------------------- prettyDouble / prettyNumber *)
(* one link of the if-chain: `if (x >= thr)` (ge) or `if (x <= thr)`; print val / factor or
   val * factor (mul) followed by the suffix character *)
Inductive plink := PL (ge : bool) (thr : Q) (mul : bool) (factor : Z) (suffix : N) | PLUnknown.

Fixpoint table_choice (t : list plink) (a : Q) : pchoice :=
  match t with
  | [] => PC false 1 0
  | PL ge thr mul f s :: t' =>
      if (if ge then Qle_bool thr a else Qle_bool a thr) then PC mul f s else table_choice t' a
  | PLUnknown :: _ => PC false 0 0
  end.

Definition exp_pn : list plink :=
  [PL true (inject_Z F1e18) false F1e18 69; PL true (inject_Z F1e15) false F1e15 80;
   PL true (inject_Z F1e12) false F1e12 84; PL true (inject_Z F1e09) false F1e09 71;
   PL true (inject_Z F1e06) false F1e06 77; PL true (inject_Z F1e03) false F1e03 107].
Definition exp_pd : list plink :=
  exp_pn ++ [PL false F1em12 true F1e15 102; PL false F1em09 true F1e12 112;
             PL false F1em06 true F1e09 110; PL false F1em03 true F1e06 117; PL false 1 true F1e03 109].

Lemma exp_pd_ok v : table_choice exp_pd (Qabs v) = pd_choice v.
Proof. reflexivity. Qed.

Lemma exp_pn_ok s : table_choice exp_pn (inject_Z (Z.of_N (double_of_N s))) = pn_choice s.
Proof.
  unfold pn_choice, pn_choice_gen, exp_pn. cbn [table_choice]. cbv zeta.
  set (d := Z.of_N (double_of_N s)).
  assert (T : forall F, Qle_bool (inject_Z F) (inject_Z d) = (F <=? d)%Z).
  { intro F. unfold Qle_bool, inject_Z. cbn [Qnum Qden]. now rewrite !Z.mul_1_r. }
  rewrite !T. reflexivity.
Qed.

(* ------------------------------------------------------------------------- tokenize *)
(* a field is kept iff its length exceeds the extracted bound, for the fields inside the loop
   and for the last one *)
Definition tok_fact (i l : option nat) : Prop :=
  match i, l with
  | Some a, Some b => a = b /\ forall s d, tokenize_gen a s d = tokenize s d
  | _, _ => False
  end.

(* ------------------------------------------------------------------------- FileName *)
Inductive fnguard := GLast | GWhole | GUnknown.
Definition dot_by (g : fnguard) (f : str) : bool :=
  match g with GLast => dot_in_last f | GWhole => mem DOT f | GUnknown => false end.
Definition ext_by g f : str := if dot_by g f then after_last DOT f else [].
Definition dropExt_by g f : str := if dot_by g f then fn_norm (before_last DOT f) else f.
Definition name_by g f : str := if dot_by g f then after_last SEP (before_last DOT f) else after_last SEP f.
Definition setExt_by g f e : str := if dot_by g f then fn_norm (before_last DOT f ++ e) else fn_norm (f ++ e).

Lemma guard_last_ok f e :
  ext_by GLast f = fn_ext f /\ dropExt_by GLast f = fn_dropExt f /\ name_by GLast f = fn_name f /\
  setExt_by GLast f e = fn_setExt f e.
Proof. repeat split; reflexivity. Qed.
(* the guard /repo had before the repair denotes the refuted functions *)
Lemma guard_whole_is_old f : ext_by GWhole f = fn_ext_old f /\ dropExt_by GWhole f = fn_dropExt_old f.
Proof. split; reflexivity. Qed.

(* ------------------------------------------------------------------- parseAndRemove *)
Inductive pact := AAdvance | ARemove | AUnknown.
Definition do_act (n : nat) (st : list str * nat) (a : pact) : list str * nat :=
  match a with
  | AAdvance => (fst st, S (snd st))
  | ARemove => (al_remove (fst st) (snd st) n, snd st)
  | AUnknown => ([], O)
  end.

(* the loop with the extracted reactions: [zero] when tryConsume returned 0, [nonzero] otherwise,
   then the for-increment [inc] *)
Fixpoint par_loop_by (zero nonzero inc : list pact) (tryConsume : list str -> nat -> nat)
    (fuel : nat) (l : list str) (argID : nat) : option (list str) :=
  if Nat.ltb argID (length l) then
    match fuel with
    | O => None
    | S f =>
        let n := tryConsume l argID in
        let st := fold_left (do_act n) ((if Nat.eqb n 0 then zero else nonzero) ++ inc) (l, argID) in
        par_loop_by zero nonzero inc tryConsume f (fst st) (snd st)
    end
  else Some l.

Lemma exp_par_ok tc fuel : forall l i,
  par_loop_by [AAdvance] [ARemove] [] tc fuel l i = par_loop tc fuel l i.
Proof.
  induction fuel as [|f IH]; intros l i; cbn [par_loop_by par_loop].
  - reflexivity.
  - destruct (Nat.ltb i (length l)); [|reflexivity].
    destruct (Nat.eqb (tc l i) 0); cbn; apply IH.
Qed.
