(* C18 — executable model of the string / pseudo-URL / file-name / argument-list /
   pretty-printing helpers of rkcommon (hand-written, Tie B).  Strings are lists of
   character codes.  Index loops of the C++ (find_first_of, find_last_of, getline, ...)
   are written as list scans; every function below names the C++ function it mirrors.
   Where /repo had a defect the model mirrors the repaired code and keeps the
   pre-repair behaviour as [..._old]. Definitions only; no proofs in this file. *)
From Common Require Import Prelude.
From Coq Require Import QArith Qabs.
Local Open Scope N_scope.

Definition mem (c : N) (s : str) : bool := existsb (N.eqb c) s.

Fixpoint takeWhile (p : N -> bool) (s : str) : str :=
  match s with
  | [] => []
  | c :: s' => if p c then c :: takeWhile p s' else []
  end.

Fixpoint dropWhile (p : N -> bool) (s : str) : str :=
  match s with
  | [] => []
  | c :: s' => if p c then dropWhile p s' else s
  end.

(* ============================================================ StringManip.h *)

(* longestBeginningMatch: std::mismatch over min(size) characters *)
Fixpoint lbm (a b : str) : str :=
  match a, b with
  | x :: a', y :: b' => if N.eqb x y then x :: lbm a' b' else []
  | _, _ => []
  end.

(* beginsWith: startingMatch.size() == startsWithString.size() *)
Definition beginsWith (s p : str) : bool := Nat.eqb (length (lbm s p)) (length p).

(* split(input, char): while (getline(ss, item, delim)) push_back(item).
   getline fails only when it extracts nothing at all (end of input); an
   extracted delimiter with no characters before it yields an empty item. *)
Fixpoint split_char (s : str) (d : N) : list str :=
  match s with
  | [] => []
  | c :: s' =>
      if N.eqb c d then [] :: split_char s' d
      else match split_char s' d with
           | [] => [[c]]
           | t :: ts => (c :: t) :: ts
           end
  end.

(* split(input, delims, keepDelim): find_first_not_of / find_first_of loop.
   [sset] scans from the right: it returns the delimiter-free run that starts at
   the head of s together with the tokens after that run.  A run is closed into a
   token by the delimiter c in front of it (the character at begin-1, kept when
   keepDelim); the run at position 0 gets no such prefix (begin == 0). *)
Definition close_run (pre run : str) (toks : list str) : list str :=
  match run with
  | [] => toks
  | _ => (pre ++ run) :: toks
  end.

Fixpoint sset (isd : N -> bool) (keep : bool) (s : str) : str * list str :=
  match s with
  | [] => ([], [])
  | c :: s' =>
      let '(run, toks) := sset isd keep s' in
      if isd c then ([], close_run (if keep then [c] else []) run toks)
      else (c :: run, toks)
  end.

Definition split_pred (isd : N -> bool) (keep : bool) (s : str) : list str :=
  let '(run, toks) := sset isd keep s in close_run [] run toks.

Definition split_set (s delims : str) (keep : bool) : list str :=
  split_pred (fun c => mem c delims) keep s.

(* ::tolower / ::toupper in the "C" locale *)
Definition tolower (c : N) : N := if (65 <=? c) && (c <=? 90) then c + 32 else c.
Definition toupper (c : N) : N := if (97 <=? c) && (c <=? 122) then c - 32 else c.
Definition lowerCase (s : str) : str := map tolower s.
Definition upperCase (s : str) : str := map toupper s.

(* ============================================================ PseudoURL.cpp *)

(* all fields between occurrences of d: (field up to the first d, later fields) *)
Fixpoint fields (s : str) (d : N) : str * list str :=
  match s with
  | [] => ([], [])
  | c :: s' =>
      let '(f, fs) := fields s' d in
      if N.eqb c d then ([], f :: fs) else (c :: f, fs)
  end.

(* tokenize: each field str[prev, fnd) and the last one str[prev, size) is kept when
   its length exceeds minlen.  The repaired code tests "> 0", /repo had "> 1". *)
Definition tokenize_gen (minlen : nat) (s : str) (d : N) : list str :=
  let '(f, fs) := fields s d in
  filter (fun t => Nat.ltb minlen (length t)) (f :: fs).

Definition tokenize := tokenize_gen 0.
Definition tokenize_old := tokenize_gen 1.

Fixpoint prefixb (p s : str) : bool :=
  match p, s with
  | [], _ => true
  | x :: p', y :: s' => N.eqb x y && prefixb p' s'
  | _ :: _, [] => false
  end.

Definition sep3 : str := [58; 47; 47].      (* "://" *)

(* tmp.find("://"): (text before the first occurrence, text after it) *)
Fixpoint cut_sep (s : str) : option (str * str) :=
  match s with
  | [] => None
  | c :: s' =>
      if prefixb sep3 s then Some ([], skipn 3 s)
      else match cut_sep s' with
           | Some (a, b) => Some (c :: a, b)
           | None => None
           end
  end.

(* arg.find(d): (text before the first d, text after it) *)
Fixpoint cut_char (d : N) (s : str) : option (str * str) :=
  match s with
  | [] => None
  | c :: s' =>
      if N.eqb c d then Some ([], s')
      else match cut_char d s' with
           | Some (a, b) => Some (c :: a, b)
           | None => None
           end
  end.

Record purl := { u_type : str; u_file : str; u_params : list (str * str) }.

Definition parse_arg (a : str) : str * str :=
  match cut_char 61 a with
  | Some (n, v) => (n, v)
  | None => (a, [])
  end.

(* PseudoURL::PseudoURL *)
Definition purl_parse_gen (minlen : nat) (s : str) : purl :=
  let '(ty, tmp) := match cut_sep s with Some (t, r) => (t, r) | None => ([], s) end in
  match tokenize_gen minlen tmp 58 with
  | [] => {| u_type := ty; u_file := []; u_params := [] |}
  | f :: args => {| u_type := ty; u_file := f; u_params := map parse_arg args |}
  end.

Definition purl_parse := purl_parse_gen 0.
Definition purl_parse_old := purl_parse_gen 1.

(* getValue: the loop keeps the last match; None = throws *)
Fixpoint get_last (ps : list (str * str)) (name : str) (found : option str) : option str :=
  match ps with
  | [] => found
  | (n, v) :: ps' => get_last ps' name (if str_eqb n name then Some v else found)
  end.

Definition getValue (u : purl) (name : str) : option str := get_last (u_params u) name None.
Definition hasParam (u : purl) (name : str) : bool :=
  existsb (fun p => str_eqb (fst p) name) (u_params u).

(* ============================================================== FileName.cpp *)
Definition SEP : N := 47.    (* '/'  (path_sep on POSIX) *)
Definition DOT : N := 46.
Definition BSL : N := 92.    (* '\\' *)

(* s.substr(find_last_of(c) + 1); the whole string when c does not occur *)
Definition after_last (c : N) (s : str) : str :=
  rev (takeWhile (fun x => negb (N.eqb x c)) (rev s)).
(* s.substr(0, find_last_of(c) + 1); empty when c does not occur *)
Definition upto_last (c : N) (s : str) : str :=
  rev (dropWhile (fun x => negb (N.eqb x c)) (rev s)).
(* s.substr(0, find_last_of(c)) *)
Definition before_last (c : N) (s : str) : str :=
  rev (tl (dropWhile (fun x => negb (N.eqb x c)) (rev s))).

(* FileName::FileName(const std::string&): unify separators, strip trailing ones *)
Definition fn_norm (s : str) : str :=
  rev (dropWhile (N.eqb SEP)
         (rev (map (fun c => if N.eqb c BSL || N.eqb c SEP then SEP else c) s))).

Definition fn_path (f : str) : str := upto_last SEP f.
Definition fn_base (f : str) : str := after_last SEP f.

(* pos != npos && pos >= start : the last dot lies in the last component *)
Definition dot_in_last (f : str) : bool := mem DOT f && negb (mem SEP (after_last DOT f)).

Definition fn_ext (f : str) : str := if dot_in_last f then after_last DOT f else [].
Definition fn_dropExt (f : str) : str := if dot_in_last f then fn_norm (before_last DOT f) else f.
(* /repo before the repair: last dot of the whole string *)
Definition fn_ext_old (f : str) : str := if mem DOT f then after_last DOT f else [].
Definition fn_dropExt_old (f : str) : str := if mem DOT f then fn_norm (before_last DOT f) else f.

(* substr(start, end - start) *)
Definition fn_name (f : str) : str :=
  if dot_in_last f then after_last SEP (before_last DOT f) else after_last SEP f.

Definition fn_setExt (f e : str) : str :=
  if dot_in_last f then fn_norm (before_last DOT f ++ e) else fn_norm (f ++ e).
Definition fn_addExt (f e : str) : str := fn_norm (f ++ e).

(* operator+(const FileName&) ; operator+(const std::string&) *)
Definition fn_plus (a b : str) : str :=
  match a with
  | [] => b
  | _ => fn_norm (a ++ SEP :: b)
  end.
Definition fn_plus_str (a other : str) : str := fn_plus a (fn_norm other).

(* operator==, operator!= (friends): comparison of the normalised strings; str(), c_str(), operator
   std::string and operator<<(ostream) all hand out that same string *)
Definition fn_eq (a b : str) : bool := str_eqb a b.

(* operator-(const FileName &base): pos = filename.find_first_of(base) - the first character of this
   file name that occurs ANYWHERE in base's characters (std::string::find_first_of takes a character
   set) - ; npos: *this, otherwise FileName(filename.substr(pos + 1)) *)
Fixpoint after_first_of (set s : str) : option str :=
  match s with
  | [] => None
  | c :: s' => if mem c set then Some s' else after_first_of set s'
  end.
Definition fn_minus (a b : str) : str :=
  match after_first_of b a with
  | Some r => fn_norm r
  | None => a
  end.

(* =========================================================== ArgumentList.h *)
Definition al_ctor (av : list str) : list str := tl av.       (* drops av[0] *)

Fixpoint erase_at {A} (i : nat) (l : list A) : list A :=
  match l, i with
  | [], _ => []
  | _ :: l', O => l'
  | x :: l', S i' => x :: erase_at i' l'
  end.

(* remove(where, howMany): howMany times erase the element at where *)
Fixpoint al_remove {A} (l : list A) (where_ howMany : nat) : list A :=
  match howMany with
  | O => l
  | S k => al_remove (erase_at where_ l) where_ k
  end.

(* parseAndRemove; tryConsume is the virtual call.  None = out of fuel. *)
Fixpoint par_loop (tryConsume : list str -> nat -> nat) (fuel : nat) (l : list str) (argID : nat)
  : option (list str) :=
  if Nat.ltb argID (length l) then
    match fuel with
    | O => None
    | S f =>
        let n := tryConsume l argID in
        if Nat.eqb n 0 then par_loop tryConsume f l (S argID)
        else par_loop tryConsume f (al_remove l argID n) argID
    end
  else Some l.

Definition parseAndRemove (tryConsume : list str -> nat -> nat) (l : list str) : option (list str) :=
  par_loop tryConsume (length l) l 0.

(* common.cpp removeArgs(ac, av, where, howMany): av[i - howMany] = av[i] upwards *)
Fixpoint upd {A} (i : nat) (x : A) (l : list A) : list A :=
  match l, i with
  | [], _ => []
  | _ :: l', O => x :: l'
  | y :: l', S i' => y :: upd i' x l'
  end.

Fixpoint ra_loop {A} (n i k : nat) (dflt : A) (av : list A) : list A :=
  match n with
  | O => av
  | S n' => ra_loop n' (S i) k dflt (upd (i - k) (nth i av dflt) av)
  end.

Definition removeArgs {A} (dflt : A) (ac : nat) (av : list A) (where_ howMany : nat) : nat * list A :=
  ((ac - howMany)%nat, ra_loop (ac - (where_ + howMany)) (where_ + howMany) howMany dflt av).

(* ====================================================== prettyDouble/Number *)
(* exact values of the float literals *)
Definition F1e18 : Z := 999999984306749440.
Definition F1e15 : Z := 999999986991104.
Definition F1e12 : Z := 999999995904.
Definition F1e09 : Z := 1000000000.
Definition F1e06 : Z := 1000000.
Definition F1e03 : Z := 1000.
Definition F1em12 : Q := 2305843 # 2305843009213693952.
Definition F1em09 : Q := 9007199 # 9007199254740992.
Definition F1em06 : Q := 8796093 # 8796093022208.
Definition F1em03 : Q := 8589935 # 8589934592.

(* which snprintf branch: the printed number is val / factor (or val * factor when
   pc_mul) followed by the suffix character; suffix 0 = the plain "%f"/"%zu" branch *)
Record pchoice := { pc_mul : bool; pc_factor : Z; pc_suffix : N }.
Definition PC (m : bool) (f : Z) (s : N) := {| pc_mul := m; pc_factor := f; pc_suffix := s |}.

Definition pd_choice_gen (first : Z) (v : Q) : pchoice :=
  let a := Qabs v in
  if Qle_bool (inject_Z first) a then PC false F1e18 69        (* E *)
  else if Qle_bool (inject_Z F1e15) a then PC false F1e15 80   (* P *)
  else if Qle_bool (inject_Z F1e12) a then PC false F1e12 84   (* T *)
  else if Qle_bool (inject_Z F1e09) a then PC false F1e09 71   (* G *)
  else if Qle_bool (inject_Z F1e06) a then PC false F1e06 77   (* M *)
  else if Qle_bool (inject_Z F1e03) a then PC false F1e03 107  (* k *)
  else if Qle_bool a F1em12 then PC true F1e15 102             (* f *)
  else if Qle_bool a F1em09 then PC true F1e12 112             (* p *)
  else if Qle_bool a F1em06 then PC true F1e09 110             (* n *)
  else if Qle_bool a F1em03 then PC true F1e06 117             (* u *)
  else if Qle_bool a 1 then PC true F1e03 109                  (* m *)
  else PC false 1 0.

Definition pd_choice := pd_choice_gen F1e18.
Definition pd_choice_old := pd_choice_gen F1e15.

(* const double val = s : round to nearest, ties to even, 53 significant bits *)
Definition double_of_N (s : N) : N :=
  let bits := N.size s in
  if bits <=? 53 then s
  else
    let e := bits - 53 in
    let q := N.shiftr s e in
    let r := s - N.shiftl q e in
    let half := N.shiftl 1 (e - 1) in
    let q' := if (half <? r) || ((r =? half) && N.odd q) then q + 1 else q in
    N.shiftl q' e.

Definition pn_choice_gen (first : Z) (s : N) : pchoice :=
  let v := Z.of_N (double_of_N s) in
  if (first <=? v)%Z then PC false F1e18 69
  else if (F1e15 <=? v)%Z then PC false F1e15 80
  else if (F1e12 <=? v)%Z then PC false F1e12 84
  else if (F1e09 <=? v)%Z then PC false F1e09 71
  else if (F1e06 <=? v)%Z then PC false F1e06 77
  else if (F1e03 <=? v)%Z then PC false F1e03 107
  else PC false 1 0.

Definition pn_choice := pn_choice_gen F1e18.
Definition pn_choice_old := pn_choice_gen F1e15.

(* the exact (unrounded) number handed to "%.1f" *)
Definition pretty_mantissa (c : pchoice) (v : Q) : Q :=
  if pc_mul c then v * inject_Z (pc_factor c) else v / inject_Z (pc_factor c).
