(* C18 — property theorems only.  Each is closed by [exact] of a lemma from the Proofs
   files and followed by Print Assumptions. *)
From Common Require Import Prelude.
From C18 Require Import Model ProofsStr ProofsUrl ProofsFile ProofsArgs ProofsPretty.
Local Open Scope N_scope.

(* longestBeginningMatch is the longest common prefix: a prefix of both, every common
   prefix is a prefix of it, and the characters that follow it (if both exist) differ *)
Theorem lbm_is_lcp : forall a b,
  prefix (lbm a b) a /\ prefix (lbm a b) b /\
  (forall p, prefix p a -> prefix p b -> prefix p (lbm a b)) /\
  (forall x y ta tb, a = lbm a b ++ x :: ta -> b = lbm a b ++ y :: tb -> x <> y).
Proof. exact ProofsStr.lbm_is_lcp. Qed.
Print Assumptions lbm_is_lcp.

Theorem beginsWith_prefix : forall s p, beginsWith s p = true <-> exists t, s = p ++ t.
Proof. exact ProofsStr.beginsWith_prefix. Qed.
Print Assumptions beginsWith_prefix.

(* split on one character: the tokens hold exactly the non-delimiter content in order *)
Theorem split_char_concat : forall s d,
  concat (split_char s d) = filter (fun c => negb (N.eqb c d)) s /\
  Forall (fun t => ~ In d t) (split_char s d).
Proof. exact ProofsStr.split_char_concat. Qed.
Print Assumptions split_char_concat.

(* ... and re-joining them on the delimiter gives the input back (getline swallows one
   trailing delimiter) *)
Theorem split_char_join : forall s d,
  (split_char s d = [] <-> s = []) /\
  (s = join d (split_char s d) \/ (s = join d (split_char s d) ++ [d] /\ split_char s d <> [])).
Proof. exact ProofsStr.split_char_join. Qed.
Print Assumptions split_char_join.

Example split_char_example :
  split_char [97; 58; 58; 98; 99; 58] 58 = [[97]; []; [98; 99]].
Proof. vm_compute. reflexivity. Qed.
